(* Heap, part 1: index maintenance. In every reachable state each element's `index` field is its position in
   the heap slice (or -1 once removed), the slice has no duplicates, and push / pop / remove change the contents
   by exactly one element.  Independent of the comparator. *)
From Coq Require Import List ZArith Bool Arith Lia Permutation.
From Verif.C12a_Containers Require Import ListAux Heap.
Import ListNotations.
Open Scope bool_scope.

Section HeapIndex.
Variables (P V : Type) (cmp : P -> P -> Z) (pzero : P) (vzero : V).

Notation hst := (hst P V).
Definition ix (s : hst) (id : nat) : Z := nth id (idx s) (-1)%Z.

Definition idx_ok (s : hst) : Prop :=
  length (prios s) = length (idx s) /\ length (vals s) = length (idx s) /\
  (forall i, i < length (arr s) -> at_ s i < length (idx s) /\ ix s (at_ s i) = Z.of_nat i) /\
  (forall id, id < length (idx s) ->
     ix s id = (-1)%Z \/ ((0 <= ix s id < Z.of_nat (length (arr s)))%Z /\ at_ s (Z.to_nat (ix s id)) = id)).

Lemma idx_ok_new : idx_ok hnew.
Proof. unfold idx_ok, hnew. simpl. repeat split; intros; lia. Qed.

Lemma at_inj : forall s i j, idx_ok s -> i < length (arr s) -> j < length (arr s) -> at_ s i = at_ s j -> i = j.
Proof.
  intros s i j (_ & _ & A & _) Hi Hj E. destruct (A i Hi) as [_ X]. destruct (A j Hj) as [_ Y].
  rewrite E in X. rewrite X in Y. lia.
Qed.

Lemma idx_ok_nodup : forall s, idx_ok s -> NoDup (arr s).
Proof. intros. apply (NoDup_nth (arr s) 0). intros. eapply at_inj; eauto. Qed.

(* s' has the same elements as s, in a valid arrangement *)
Definition good (s s' : hst) : Prop :=
  idx_ok s' /\ Permutation (arr s) (arr s') /\ length (arr s') = length (arr s) /\
  prios s' = prios s /\ vals s' = vals s /\ length (idx s') = length (idx s).

Lemma good_refl : forall s, idx_ok s -> good s s.
Proof. unfold good. intros. split; auto. Qed.

Lemma good_trans : forall a b c, good a b -> good b c -> good a c.
Proof.
  unfold good. intros a b c (A1 & A2 & A3 & A4 & A5 & A6) (B1 & B2 & B3 & B4 & B5 & B6).
  split; [exact B1|]. split; [eapply Permutation_trans; eauto|]. repeat split; congruence.
Qed.

Lemma at_swap : forall (s : hst) i j k, i < length (arr s) -> j < length (arr s) ->
  at_ (swap s i j) k = if j =? k then at_ s i else if i =? k then at_ s j else at_ s k.
Proof.
  intros. unfold at_, swap. simpl. rewrite !nth_upd, !upd_length.
  destruct (Nat.eqb_spec j k); destruct (Nat.eqb_spec i k); simpl; auto;
    repeat match goal with |- context [?a <? ?b] => destruct (Nat.ltb_spec a b); try lia end; auto.
Qed.

Lemma ix_swap : forall (s : hst) i j id, at_ s i < length (idx s) -> at_ s j < length (idx s) ->
  ix (swap s i j) id = if at_ s i =? id then Z.of_nat j else if at_ s j =? id then Z.of_nat i else ix s id.
Proof.
  intros. unfold ix, swap. simpl. rewrite !nth_upd, !upd_length.
  destruct (Nat.eqb_spec (at_ s i) id); destruct (Nat.eqb_spec (at_ s j) id); simpl; auto;
    repeat match goal with |- context [?a <? ?b] => destruct (Nat.ltb_spec a b); try lia end; auto.
Qed.

Lemma swap_good : forall s i j, idx_ok s -> i < length (arr s) -> j < length (arr s) -> good s (swap s i j).
Proof.
  intros s i j I Hi Hj. pose proof I as (L1 & L2 & A & B).
  destruct (A i Hi) as [Ai Xi]. destruct (A j Hj) as [Aj Xj].
  assert (LA : length (arr (swap s i j)) = length (arr s)) by (unfold swap; simpl; rewrite !upd_length; auto).
  assert (LI : length (idx (swap s i j)) = length (idx s)) by (unfold swap; simpl; rewrite !upd_length; auto).
  assert (I' : idx_ok (swap s i j)).
  { unfold idx_ok. rewrite LA, LI. split; [exact L1|]. split; [exact L2|]. split.
    - intros k Hk. rewrite at_swap by auto. destruct (A k Hk) as [Ak Xk].
      destruct (Nat.eqb_spec j k).
      + subst. split; auto. rewrite ix_swap by auto. rewrite Nat.eqb_refl. auto.
      + destruct (Nat.eqb_spec i k).
        * subst. split; auto. rewrite ix_swap by auto. rewrite Nat.eqb_refl.
          destruct (Nat.eqb_spec (at_ s k) (at_ s j)) as [e|]; auto. apply at_inj in e; auto; try lia.
        * split; auto. rewrite ix_swap by auto.
          destruct (Nat.eqb_spec (at_ s i) (at_ s k)) as [e|]; [apply at_inj in e; auto; lia|].
          destruct (Nat.eqb_spec (at_ s j) (at_ s k)) as [e|]; [apply at_inj in e; auto; lia|]. auto.
    - intros id Hid. rewrite ix_swap by auto.
      destruct (Nat.eqb_spec (at_ s i) id).
      + right. rewrite Nat2Z.id, at_swap, Nat.eqb_refl by auto. split; auto. lia.
      + destruct (Nat.eqb_spec (at_ s j) id).
        * right. rewrite Nat2Z.id, at_swap by auto. destruct (Nat.eqb_spec j i); [subst; congruence|].
          rewrite Nat.eqb_refl. split; auto. lia.
        * destruct (B id Hid) as [M|[R1 R2]]; [left; auto|right].
          split; auto. rewrite at_swap by auto.
          destruct (Nat.eqb_spec j (Z.to_nat (ix s id))); [subst j; congruence|].
          destruct (Nat.eqb_spec i (Z.to_nat (ix s id))); [subst i; congruence|]. auto. }
  unfold good. split; [exact I'|]. split; [|repeat split; auto].
  apply NoDup_Permutation; try (apply idx_ok_nodup; auto).
  intros x. split; intros Hin; apply (In_nth _ _ 0) in Hin; destruct Hin as [k [Hk Ek]].
  - fold (at_ s k) in Ek.
    assert (exists k', k' < length (arr s) /\ at_ (swap s i j) k' = x) as [k' [Hk' Ek']].
    { destruct (Nat.eq_dec k i); [|destruct (Nat.eq_dec k j)].
      - exists j. split; auto. rewrite at_swap, Nat.eqb_refl by auto. congruence.
      - exists i. split; auto. rewrite at_swap by auto. destruct (Nat.eqb_spec j i); [congruence|].
        rewrite Nat.eqb_refl. congruence.
      - exists k. split; auto. rewrite at_swap by auto.
        destruct (Nat.eqb_spec j k); [congruence|]. destruct (Nat.eqb_spec i k); congruence. }
    rewrite <- Ek'. apply nth_In. lia.
  - rewrite LA in Hk. fold (at_ (swap s i j) k) in Ek. rewrite at_swap in Ek by auto. subst x.
    destruct (j =? k); [|destruct (i =? k)]; apply nth_In; auto.
Qed.

Lemma good_len : forall s s', good s s' -> length (arr s') = length (arr s).
Proof. intros s s' G. apply G. Qed.

Lemma up_good : forall fuel s j, idx_ok s -> j < length (arr s) -> good s (up cmp pzero fuel s j).
Proof.
  induction fuel; intros s j I Hj; cbn [up]; [apply good_refl; auto|].
  assert (HP : (j - 1) / 2 < length (arr s)).
  { assert ((j - 1) / 2 <= j - 1) by (apply Nat.div_le_upper_bound; lia). lia. }
  remember ((j - 1) / 2) as p.
  destruct (p =? j); cbn [orb]; [apply good_refl; auto|].
  destruct (less cmp pzero s j p); cbn [negb]; [|apply good_refl; auto].
  pose proof (swap_good s p j I HP Hj) as G.
  eapply good_trans; [exact G|]. apply IHfuel; [apply G|]. rewrite (good_len _ _ G). auto.
Qed.

Lemma down_good : forall fuel s i n, idx_ok s -> n <= length (arr s) ->
  good s (fst (down cmp pzero fuel s i n)).
Proof.
  induction fuel; intros s i n I Hn; [apply good_refl; auto|].
  cbn [down]. destruct (Nat.leb_spec n (2 * i + 1)); [apply good_refl; auto|].
  remember (if (2 * i + 1 + 1 <? n) && less cmp pzero s (2 * i + 1 + 1) (2 * i + 1) then 2 * i + 1 + 1 else 2 * i + 1) as j.
  assert (Hj : j < n /\ i < j).
  { subst j. destruct (Nat.ltb_spec (2 * i + 1 + 1) n); simpl; [destruct (less _ _ _ _ _)|]; lia. }
  destruct (less cmp pzero s j i); simpl; [|apply good_refl; auto].
  assert (G : good s (swap s i j)) by (apply swap_good; auto; lia).
  eapply good_trans; [exact G|]. apply IHfuel; [apply G|]. rewrite (good_len _ _ G). auto.
Qed.

(* cells outside the sifted range keep their content *)
Lemma up_untouched : forall fuel (s : hst) j k, j < length (arr s) -> j < k ->
  at_ (up cmp pzero fuel s j) k = at_ s k.
Proof.
  induction fuel; intros s j k Hj Hk; cbn [up]; auto.
  assert (HP : (j - 1) / 2 <= j - 1) by (apply Nat.div_le_upper_bound; lia).
  remember ((j - 1) / 2) as p.
  destruct (p =? j); cbn [orb]; auto.
  destruct (less cmp pzero s j p); cbn [negb]; auto.
  rewrite IHfuel; try lia.
  - rewrite at_swap by lia. destruct (Nat.eqb_spec j k); try lia. destruct (Nat.eqb_spec p k); try lia; auto.
  - unfold swap. simpl. rewrite !upd_length. lia.
Qed.

Lemma down_untouched : forall fuel (s : hst) i n k, n <= length (arr s) -> n <= k ->
  at_ (fst (down cmp pzero fuel s i n)) k = at_ s k.
Proof.
  induction fuel; intros s i n k Hn Hk; auto.
  cbn [down]. destruct (Nat.leb_spec n (2 * i + 1)); auto.
  remember (if (2 * i + 1 + 1 <? n) && less cmp pzero s (2 * i + 1 + 1) (2 * i + 1) then 2 * i + 1 + 1 else 2 * i + 1) as j.
  assert (Hj : j < n /\ i < j).
  { subst j. destruct (Nat.ltb_spec (2 * i + 1 + 1) n); simpl; [destruct (less _ _ _ _ _)|]; lia. }
  destruct (less cmp pzero s j i); simpl; auto.
  rewrite IHfuel; try lia.
  - rewrite at_swap by lia. destruct (Nat.eqb_spec j k); try lia. destruct (Nat.eqb_spec i k); try lia; auto.
  - unfold swap. simpl. rewrite !upd_length. lia.
Qed.

Lemma down_pos : forall fuel (s : hst) i n, i <= snd (down cmp pzero fuel s i n).
Proof.
  induction fuel; intros; auto. cbn [down]. destruct (Nat.leb_spec n (2 * i + 1)); auto.
  remember (if (2 * i + 1 + 1 <? n) && less cmp pzero s (2 * i + 1 + 1) (2 * i + 1) then 2 * i + 1 + 1 else 2 * i + 1) as j.
  assert (i < j). { subst j. destruct ((2 * i + 1 + 1 <? n) && _); lia. }
  destruct (less cmp pzero s j i); simpl; auto. specialize (IHfuel (swap s i j) j n). lia.
Qed.

Lemma last_nth : forall A (l : list A) d, last l d = nth (length l - 1) l d.
Proof.
  induction l; intros; simpl; auto. destruct l; auto. rewrite IHl. simpl. rewrite Nat.sub_0_r. auto.
Qed.

(* Heap.Pop: the last cell leaves, its index becomes -1 *)
Lemma drop_last_ok : forall s, idx_ok s -> arr s <> [] ->
  let s' := fst (drop_last s) in let id := snd (drop_last s) in
  idx_ok s' /\ Permutation (arr s) (id :: arr s') /\ id = at_ s (length (arr s) - 1) /\ ix s' id = (-1)%Z /\
  prios s' = prios s /\ vals s' = vals s /\ length (arr s') = length (arr s) - 1 /\ length (idx s') = length (idx s).
Proof.
  intros s I NE. pose proof I as (L1 & L2 & A & B). unfold drop_last. simpl.
  assert (LN : 0 < length (arr s)) by (destruct (arr s); simpl; try congruence; lia).
  set (last := at_ s (length (arr s) - 1)).
  destruct (A (length (arr s) - 1)) as [AL XL]; [lia|]. fold last in AL, XL.
  assert (AT : forall k, k < length (arr s) - 1 -> nth k (removelast (arr s)) 0 = at_ s k)
    by (intros; apply nth_removelast; auto).
  split; [|split; [|split; [auto|split; [|repeat split; auto]]]].
  - unfold idx_ok. simpl. rewrite upd_length, removelast_length. split; auto. split; auto. split.
    + intros k Hk. unfold at_ at 1 2. simpl. rewrite AT by auto. destruct (A k) as [Ak Xk]; [lia|]. split; auto.
      unfold ix. simpl. rewrite nth_upd_neq; auto. intro EQ. apply at_inj in EQ; auto; lia.
    + intros id Hid. unfold ix. simpl. rewrite nth_upd. destruct (Nat.eqb_spec last id).
      * destruct (Nat.ltb_spec last (length (idx s))); simpl; auto. lia.
      * simpl. destruct (B id Hid) as [M|[R1 R2]]; auto. right. fold (ix s id).
        assert (Z.to_nat (ix s id) <> length (arr s) - 1) by (intro EQ; rewrite EQ in R2; fold last in R2; congruence).
        split; [lia|]. unfold at_. simpl. rewrite AT by lia. auto.
  - rewrite (app_removelast_last 0 NE) at 1. rewrite last_nth.
    fold (at_ s (length (arr s) - 1)). fold last. apply Permutation_sym, Permutation_cons_append.
  - unfold ix. simpl. apply nth_upd_eq. auto.
  - rewrite removelast_length. auto.
  - rewrite upd_length. auto.
Qed.

Definition removed_one (s s' : hst) (id : nat) : Prop :=
  idx_ok s' /\ Permutation (arr s) (id :: arr s') /\ ix s' id = (-1)%Z /\ prios s' = prios s /\ vals s' = vals s /\
  length (idx s') = length (idx s).

Lemma good_drop : forall s s3, good s s3 -> arr s <> [] ->
  removed_one s (fst (drop_last s3)) (snd (drop_last s3)) /\ snd (drop_last s3) = at_ s3 (length (arr s) - 1).
Proof.
  intros s s3 (G1 & G2 & G3 & G4 & G5 & G6) NE.
  assert (NE3 : arr s3 <> []) by (intro E; rewrite E in G3; destruct (arr s); simpl in *; congruence).
  destruct (drop_last_ok s3 G1 NE3) as (D1 & D2 & D3 & D4 & D5 & D6 & D7 & D8).
  split; [|rewrite D3, G3; auto].
  unfold removed_one. split; auto. split; [eapply Permutation_trans; eauto|]. repeat split; congruence.
Qed.

Lemma hpush_ok : forall s p v, idx_ok s ->
  let s' := hpush cmp pzero s p v in
  idx_ok s' /\ Permutation (length (prios s) :: arr s) (arr s') /\ prios s' = prios s ++ [p] /\ vals s' = vals s ++ [v] /\
  length (arr s') = S (length (arr s)).
Proof.
  intros s p v I. pose proof I as (L1 & L2 & A & B). unfold hpush.
  set (s1 := mkH (arr s ++ [length (prios s)]) (idx s ++ [Z.of_nat (length (arr s))]) (prios s ++ [p]) (vals s ++ [v])).
  assert (I1 : idx_ok s1).
  { unfold idx_ok, s1, at_, ix. simpl. rewrite !app_length. simpl. split; [lia|]. split; [lia|]. split.
    - intros k Hk. destruct (Nat.eq_dec k (length (arr s))) as [E|N].
      + subst k. rewrite app_nth2, Nat.sub_diag by lia. simpl. rewrite L1. split; [lia|].
        rewrite app_nth2, Nat.sub_diag by lia. auto.
      + rewrite app_nth1 by lia. destruct (A k) as [Ak Xk]; [lia|]. unfold at_, ix in *. split; [lia|].
        rewrite app_nth1 by lia. auto.
    - intros id Hid. destruct (Nat.eq_dec id (length (idx s))) as [E|N].
      + subst id. right. rewrite app_nth2, Nat.sub_diag by lia. simpl. rewrite Nat2Z.id.
        rewrite app_nth2, Nat.sub_diag by lia. simpl. split; lia.
      + rewrite app_nth1 by lia. destruct (B id) as [M|[R1 R2]]; [lia|left; auto|right]. unfold at_, ix in *.
        split; [lia|]. rewrite app_nth1 by lia. auto. }
  assert (G : good s1 (up cmp pzero (S (length (arr s))) s1 (length (arr s)))).
  { apply up_good; auto. unfold s1. simpl. rewrite app_length. simpl. lia. }
  destruct G as (G1 & G2 & G3 & G4 & G5 & G6). split; auto. split; [|split; [|split]]; auto.
  - eapply Permutation_trans; [|exact G2]. unfold s1. simpl. apply Permutation_cons_append.
  - rewrite G3. unfold s1. simpl. rewrite app_length. simpl. lia.
Qed.

Lemma hpop_ok : forall s, idx_ok s -> arr s <> [] ->
  removed_one s (fst (hpop cmp pzero s)) (snd (hpop cmp pzero s)) /\ snd (hpop cmp pzero s) = at_ s 0.
Proof.
  intros s I NE. unfold hpop.
  assert (LN : 0 < length (arr s)) by (destruct (arr s); simpl; try congruence; lia).
  set (n := length (arr s) - 1).
  assert (G1 : good s (swap s 0 n)) by (apply swap_good; auto; lia).
  pose proof (down_good (S n) (swap s 0 n) 0 n (proj1 G1)) as G2.
  pose proof (down_untouched (S n) (swap s 0 n) 0 n n) as U.
  rewrite (good_len _ _ G1) in G2, U.
  destruct (down cmp pzero (S n) (swap s 0 n) 0 n) as [s2 i']. cbv iota beta. cbn [fst snd] in *.
  assert (G : good s s2) by (eapply good_trans; [exact G1|apply G2; lia]).
  destruct (good_drop s s2 G NE) as [R E]. split; auto.
  rewrite E. fold n. rewrite U by lia. rewrite at_swap by lia. rewrite Nat.eqb_refl. auto.
Qed.

Lemma hremove_ok : forall s i, idx_ok s -> i < length (arr s) ->
  removed_one s (fst (hremove cmp pzero s i)) (snd (hremove cmp pzero s i)) /\ snd (hremove cmp pzero s i) = at_ s i.
Proof.
  intros s i I Hi. unfold hremove.
  assert (NE : arr s <> []) by (destruct (arr s); simpl in *; try congruence; lia).
  set (n := length (arr s) - 1).
  destruct (Nat.eqb_spec n i) as [E|N].
  - destruct (good_drop s s (good_refl s I) NE) as [R E2]. split; auto. rewrite E2. fold n. congruence.
  - assert (G1 : good s (swap s i n)) by (apply swap_good; auto; lia).
    pose proof (down_good (S n) (swap s i n) i n (proj1 G1)) as G2.
    pose proof (down_untouched (S n) (swap s i n) i n n) as U.
    rewrite (good_len _ _ G1) in G2, U.
    destruct (down cmp pzero (S n) (swap s i n) i n) as [s2 i']. cbv iota beta. cbn [fst snd] in *.
    assert (G : good s s2) by (eapply good_trans; [exact G1|apply G2; lia]).
    assert (AT : at_ s2 n = at_ s i).
    { rewrite U by lia. rewrite at_swap by lia. rewrite Nat.eqb_refl. auto. }
    destruct (i <? i').
    + destruct (good_drop s s2 G NE) as [R E2]. split; auto. rewrite E2. exact AT.
    + assert (Hi2 : i < length (arr s2)) by (rewrite (good_len _ _ G); auto).
      pose proof (up_good (S i) s2 i (proj1 G) Hi2) as G3.
      assert (G' : good s (up cmp pzero (S i) s2 i)) by (eapply good_trans; eauto).
      destruct (good_drop s _ G' NE) as [R E2]. split; auto. rewrite E2. fold n.
      rewrite up_untouched; auto. lia.
Qed.

(* a removal handle is live exactly while its element is in the heap, and then points at it *)
Lemma handle_live : forall s id, idx_ok s ->
  (ix s id <> (-1)%Z <-> In id (arr s)) /\
  (ix s id <> (-1)%Z -> Z.to_nat (ix s id) < length (arr s) /\ at_ s (Z.to_nat (ix s id)) = id).
Proof.
  intros s id (L1 & L2 & A & B). split; [split|].
  - intros NM. destruct (Nat.lt_ge_cases id (length (idx s))) as [Hid|Hid].
    + destruct (B id Hid) as [M|[R1 R2]]; [contradiction|]. rewrite <- R2. apply nth_In. lia.
    + exfalso. apply NM. unfold ix. apply nth_overflow. auto.
  - intros Hin. apply (In_nth _ _ 0) in Hin. destruct Hin as [k [Hk Ek]]. fold (at_ s k) in Ek.
    destruct (A k Hk) as [Ak Xk]. rewrite Ek in Xk. lia.
  - intros NM. destruct (Nat.lt_ge_cases id (length (idx s))) as [Hid|Hid].
    + destruct (B id Hid) as [M|[R1 R2]]; [contradiction|]. split; auto. lia.
    + exfalso. apply NM. unfold ix. apply nth_overflow. auto.
Qed.

End HeapIndex.
