(* Executable model of ds/randommap/random_map.go: a ShrinkingMap (model SMap) from keys to entries
   (value, keyIndex) plus the dense key slice.  math/rand is an oracle: the events RandomKey/RandomEntry carry
   the number rand.Intn(size) returned, RandomUniqueEntries carries the permutation rand.Perm(len keys) returned. *)
From Coq Require Import List ZArith Bool Arith.
From Verif.C12a_Containers Require Import ListAux SMap.
Import ListNotations.
Open Scope bool_scope.

Section RMap.
Variables (K V : Type) (keqb : K -> K -> bool) (kzero : K).

Definition entry : Type := V * nat.            (* value, keyIndex (the key is the map key) *)
Record rst := mkR { raw : SMap.st K entry; keys : list K }.

Definition rnew : rst := mkR SMap.new [].

Definition rsize (s : rst) : nat := SMap.size (raw s).

(* write through the *randomMapEntry pointer: the map cell of an existing key is replaced *)
Definition poke (k : K) (e : entry) (r : SMap.st K entry) : SMap.st K entry :=
  mkSt (put keqb k e (m r)) (deleted r).

(* Set, random_map.go:33-48 *)
Definition rset (k : K) (v : V) (s : rst) : rst :=
  match find keqb k (m (raw s)) with
  | Some (_, i) => mkR (poke k (v, i) (raw s)) (keys s)
  | None => mkR (poke k (v, rsize s) (raw s)) (keys s ++ [k])
  end.

(* Delete, random_map.go:72-99 *)
Definition rdelete (o : SMap.opts) (k : K) (s : rst) : rst * option (V * bool) :=
  match find keqb k (m (raw s)) with
  | None => (s, None)
  | Some (v, old) =>
      let n := length (keys s) in
      let '(raw1, keys1) :=
        if old =? n then (raw s, keys s)
        else
          let moved := n - 1 in
          let mk := nth moved (keys s) kzero in
          let raw1 := match find keqb mk (m (raw s)) with
                      | Some (mv, _) => poke mk (mv, old) (raw s)
                      | None => raw s                      (* nil dereference in Go; unreachable, see RMapProofs *)
                      end in
          (raw1, upd (upd (keys s) old mk) moved kzero) in
      let keys2 := removelast keys1 in
      let '(raw2, d) := SMap.delete keqb o k raw1 in
      (mkR raw2 keys2, Some (v, d))
  end.

(* the loop of RandomUniqueEntries, random_map.go:173-178; also returns the keys it took (ghost) *)
Fixpoint rue_loop (s : rst) (perm : list nat) (count : nat) (acc : list (K * V)) : list (K * V) :=
  match perm with
  | [] => acc
  | i :: r =>
      if count <=? length acc then acc
      else
        let k := nth i (keys s) kzero in
        match find keqb k (m (raw s)) with
        | Some (v, _) => rue_loop s r count (acc ++ [(k, v)])
        | None => rue_loop s r count acc
        end
  end.

Definition rvalues (s : rst) : list V := map (fun kv => fst (snd kv)) (m (raw s)).
Definition rentries (s : rst) : list (K * V) := map (fun kv => (fst kv, fst (snd kv))) (m (raw s)).

Inductive rev :=
| RSet (k : K) (v : V) | RGet (k : K) | RHas (k : K) | RDelete (k : K) | RSize
| RForEach | RForEachAbort (n : nat)
| RRandomKey (i : nat) | RRandomEntry (i : nat)
| RRandomUniqueEntries (count : Z) (perm : list nat)
| RKeys | RValues.

Inductive rout :=
| ROUnit
| ROGet (o : option V)
| ROBool (b : bool)
| RODel (o : option (V * bool))
| RONat (n : nat)
| ROKV (l : list (K * V))        (* map order: compared sorted *)
| ROKey (o : option K)
| ROKeys (l : list K)            (* exact order of the dense slice *)
| ROValsSet (l : list V)         (* map order: compared sorted *)
| ROValsSeq (l : list V)         (* exact order *)
| ROPanic.

Definition rstep (o : SMap.opts) (s : rst) (e : rev) : rst * rout :=
  match e with
  | RSet k v => (rset k v s, ROUnit)
  | RGet k => (s, ROGet (match find keqb k (m (raw s)) with Some (v, _) => Some v | None => None end))
  | RHas k => (s, ROBool (match find keqb k (m (raw s)) with Some _ => true | None => false end))
  | RDelete k => let '(s', r) := rdelete o k s in (s', RODel r)
  | RSize => (s, RONat (rsize s))
  | RForEach => (s, ROKV (rentries s))
  | RForEachAbort n => (s, RONat (Nat.min n (rsize s)))
  | RRandomKey i =>
      match keys s with
      | [] => (s, ROKey None)
      | _ => match nth_error (keys s) i with Some k => (s, ROKey (Some k)) | None => (s, ROPanic) end
      end
  | RRandomEntry i =>
      if rsize s =? 0 then (s, ROGet None)
      else match nth_error (keys s) i with
           | Some k => (s, ROGet (match find keqb k (m (raw s)) with Some (v, _) => Some v | None => None end))
           | None => (s, ROPanic)
           end
  | RRandomUniqueEntries count perm =>
      if (count <? 1)%Z then (s, ROValsSeq [])
      else if (Z.of_nat (rsize s) <=? count)%Z then (s, ROValsSet (rvalues s))
      else (s, ROValsSeq (map snd (rue_loop s perm (Z.to_nat count) [])))
  | RKeys => (s, ROKeys (firstn (rsize s) (keys s) ++ repeat kzero (rsize s - length (keys s))))
  | RValues => (s, ROValsSet (rvalues s))
  end.

Fixpoint rrun (o : SMap.opts) (s : rst) (h : list rev) : rst * list rout :=
  match h with
  | [] => (s, [])
  | e :: r => let '(s1, x) := rstep o s e in let '(s2, xs) := rrun o s1 r in (s2, x :: xs)
  end.

End RMap.

Arguments mkR {K V}. Arguments raw {K V}. Arguments keys {K V}. Arguments rnew {K V}. Arguments rsize {K V}.
Arguments rset {K V}. Arguments rdelete {K V}. Arguments rue_loop {K V}. Arguments rvalues {K V}.
Arguments rentries {K V}. Arguments rstep {K V}. Arguments rrun {K V}. Arguments poke {K V}.
Arguments RSet {K V}. Arguments RGet {K V}. Arguments RHas {K V}. Arguments RDelete {K V}. Arguments RSize {K V}.
Arguments RForEach {K V}. Arguments RForEachAbort {K V}. Arguments RRandomKey {K V}. Arguments RRandomEntry {K V}.
Arguments RRandomUniqueEntries {K V}. Arguments RKeys {K V}. Arguments RValues {K V}.
Arguments ROUnit {K V}. Arguments ROGet {K V}. Arguments ROBool {K V}. Arguments RODel {K V}. Arguments RONat {K V}.
Arguments ROKV {K V}. Arguments ROKey {K V}. Arguments ROKeys {K V}. Arguments ROValsSet {K V}.
Arguments ROValsSeq {K V}. Arguments ROPanic {K V}.
