(* ShrinkingMap: the model (with options, deletion counter and rebuilding) is observationally a plain map. *)
From Coq Require Import List ZArith Bool Arith Lia.
From Verif.C12a_Containers Require Import ListAux SMap.
Import ListNotations.
Open Scope bool_scope.

Section SMapProofs.
Variables (K V : Type) (keqb : K -> K -> bool).
Hypothesis keqb_spec : forall a b, keqb a b = true <-> a = b.

Notation find := (find keqb). Notation put := (put keqb). Notation del := (del keqb).

Definition uniq (l : list (K * V)) : Prop := NoDup (map fst l).

Lemma keqb_refl : forall a, keqb a a = true.
Proof. intros. apply keqb_spec. auto. Qed.

Lemma keqb_neq : forall a b, a <> b -> keqb a b = false.
Proof. intros. destruct (keqb a b) eqn:E; auto. apply keqb_spec in E. contradiction. Qed.

Lemma find_none_notin : forall k (l : list (K * V)), find k l = None <-> ~ In k (map fst l).
Proof.
  induction l as [|[k' v'] t]; simpl; split; intros; auto.
  - destruct (keqb k k') eqn:E; try discriminate. intros [H1|H1].
    + subst. rewrite keqb_refl in E. discriminate.
    + apply IHt in H. contradiction.
  - destruct (keqb k k') eqn:E.
    + apply keqb_spec in E. subst. exfalso. apply H. auto.
    + apply IHt. intro. apply H. auto.
Qed.

Lemma put_fresh : forall k (v : V) l, find k l = None -> put k v l = l ++ [(k, v)].
Proof.
  induction l as [|[k' v'] t]; simpl; intros; auto.
  destruct (keqb k k'); try discriminate. f_equal. auto.
Qed.

Lemma put_keys_in : forall k (v : V) l x, In x (map fst (put k v l)) <-> x = k \/ In x (map fst l).
Proof.
  induction l as [|[k' v'] t]; simpl; intros.
  - intuition.
  - destruct (keqb k k') eqn:E; simpl.
    + apply keqb_spec in E. subst. intuition.
    + rewrite IHt. intuition.
Qed.

Lemma put_uniq : forall k (v : V) l, uniq l -> uniq (put k v l).
Proof.
  unfold uniq. induction l as [|[k' v'] t]; simpl; intros.
  - repeat constructor; auto.
  - inversion H; subst. destruct (keqb k k') eqn:E; simpl.
    + apply keqb_spec in E. subst. constructor; auto.
    + constructor; auto. rewrite put_keys_in. intros [H1|H1]; auto. subst.
      rewrite keqb_refl in E. discriminate.
Qed.

Lemma del_keys_in : forall k (l : list (K * V)) x, In x (map fst (del k l)) -> In x (map fst l).
Proof.
  induction l as [|[k' v'] t]; simpl; intros; auto.
  destruct (keqb k k'); simpl in *; intuition.
Qed.

Lemma del_uniq : forall k (l : list (K * V)), uniq l -> uniq (del k l).
Proof.
  unfold uniq. induction l as [|[k' v'] t]; simpl; intros; auto.
  inversion H; subst. destruct (keqb k k'); simpl; auto.
  constructor; auto. intro. apply H2. eapply del_keys_in; eauto.
Qed.

Lemma del_notfound : forall k (l : list (K * V)), find k l = None -> del k l = l.
Proof.
  induction l as [|[k' v'] t]; simpl; intros; auto.
  destruct (keqb k k'); try discriminate. f_equal. auto.
Qed.

Lemma rebuild_gen : forall l acc, uniq (acc ++ l) ->
  fold_left (fun a kv => put (fst kv) (snd kv) a) l acc = acc ++ l.
Proof.
  induction l as [|[k v] t]; simpl; intros.
  - rewrite app_nil_r. auto.
  - rewrite put_fresh.
    + rewrite IHt; rewrite <- app_assoc; simpl; auto.
    + apply find_none_notin. unfold uniq in H. rewrite map_app in H. simpl in H.
      apply NoDup_remove_2 in H. intro. apply H. apply in_or_app. auto.
Qed.

(* shrinking copies the map into a fresh one: nothing changes *)
Lemma rebuild_id : forall l, uniq l -> rebuild keqb l = l.
Proof. intros. unfold rebuild. rewrite rebuild_gen; auto. Qed.

Lemma delete_plain : forall o k s, uniq (m s) ->
  m (fst (delete keqb o k s)) = del k (m s) /\
  snd (delete keqb o k s) = (match find k (m s) with None => false | Some _ => true end).
Proof.
  intros. unfold delete. destruct (find k (m s)) eqn:E; simpl.
  - split; auto. destruct (should_shrink _ _); simpl; auto.
    apply rebuild_id. apply del_uniq. auto.
  - split; auto. symmetry. apply del_notfound. auto.
Qed.

(* one step of the model = one step of the plain map, whatever the options and the counter are *)
Lemma step_plain : forall o s e, uniq (m s) ->
  m (fst (step keqb o s e)) = fst (pstep keqb (m s) e) /\
  snd (step keqb o s e) = snd (pstep keqb (m s) e) /\
  uniq (m (fst (step keqb o s e))).
Proof.
  intros o s e U.
  assert (UD: forall k, uniq (del k (m s))) by (intros; apply del_uniq; auto).
  assert (UP: forall k v, uniq (put k v (m s))) by (intros; apply put_uniq; auto).
  assert (UR: uniq (rebuild keqb (m s))) by (rewrite rebuild_id; auto).
  assert (DP: forall k, m (fst (delete keqb o k s)) = del k (m s) /\
              snd (delete keqb o k s) = (match find k (m s) with None => false | Some _ => true end) /\
              uniq (m (fst (delete keqb o k s)))).
  { intros k. destruct (delete_plain o k s U) as [A B]. rewrite A. auto. }
  destruct e as [k v|k|k v|k f|k| | | | | |n|n|pick| | |k|k cond| | ]; simpl; auto.
  - destruct (find k (m s)); simpl; auto.
  - destruct (DP pick) as [A [B C]]. destruct (m s) as [|p l] eqn:E; [simpl; rewrite E; auto|].
    cbv iota. destruct (SMap.find keqb pick (p :: l)); cbn [fst snd]; rewrite ?E; auto.
  - destruct (DP k) as [A [B C]]. destruct (find k (m s)); simpl; auto.
  - destruct (DP k) as [A [B C]]. destruct (delete keqb o k s) as [s' d]. simpl in *. subst.
    destruct cond as [[|]|]; simpl; auto.
  - repeat split; auto. constructor.
  - rewrite rebuild_id; auto.
Qed.

(* C12 ShrinkingMap: for every option setting and every history, all outputs and the final contents
   are those of a plain map: shrinking is unobservable. *)
Theorem shrink_unobservable_gen : forall o h s, uniq (m s) ->
  snd (run keqb o s h) = snd (prun keqb (m s) h) /\
  m (fst (run keqb o s h)) = fst (prun keqb (m s) h) /\
  uniq (m (fst (run keqb o s h))).
Proof.
  induction h as [|e r IH]; simpl; intros; auto.
  destruct (step_plain o s e H) as [A [B C]].
  destruct (step keqb o s e) as [s1 x] eqn:S. destruct (pstep keqb (m s) e) as [l1 y] eqn:PS.
  simpl in *. subst. specialize (IH s1 C).
  destruct (run keqb o s1 r) as [s2 xs]. destruct (prun keqb (m s1) r) as [l2 ys]. simpl in *.
  destruct IH as [A1 [B1 C1]]. subst. auto.
Qed.

Theorem shrink_unobservable : forall o (h : list (ev K V)),
  snd (run keqb o new h) = snd (prun keqb [] h) /\ m (fst (run keqb o new h)) = fst (prun keqb [] h).
Proof.
  intros. destruct (shrink_unobservable_gen o h new) as [A [B _]]. constructor. split; auto.
Qed.

(* the plain-map specification really is a map: lookups after put / del *)
Lemma find_put : forall k k' (v : V) l, find k' (put k v l) = if keqb k' k then Some v else find k' l.
Proof.
  induction l as [|[k2 v2] t]; simpl; intros.
  - destruct (keqb k' k); auto.
  - destruct (keqb k k2) eqn:E; simpl.
    + apply keqb_spec in E. subst. destruct (keqb k' k2); auto.
    + rewrite IHt. destruct (keqb k' k2) eqn:E2; auto.
      destruct (keqb k' k) eqn:E3; auto.
      apply keqb_spec in E2. apply keqb_spec in E3. subst. rewrite keqb_refl in E. discriminate.
Qed.

Lemma find_del : forall k k' (l : list (K * V)), uniq l -> find k' (del k l) = if keqb k' k then None else find k' l.
Proof.
  induction l as [|[k2 v2] t]; simpl; intros.
  - destruct (keqb k' k); auto.
  - inversion H; subst. destruct (keqb k k2) eqn:E; simpl.
    + apply keqb_spec in E. subst. destruct (keqb k' k2) eqn:E2; auto.
      apply keqb_spec in E2. subst. apply find_none_notin. auto.
    + rewrite IHt; auto. destruct (keqb k' k2) eqn:E2; auto.
      destruct (keqb k' k) eqn:E3; auto.
      apply keqb_spec in E2. apply keqb_spec in E3. subst. rewrite keqb_refl in E. discriminate.
Qed.

(* get-or-create creates once (round 2): in EVERY sequential order of GetOrCreate calls for one key - whatever the options,
   the state they start from and the constructors' values - the call that comes first decides the value, every call
   returns that value, and only a call that found the key missing reports created = true. (Concurrent callers are some
   sequential order iff the method is atomic; that part is tied to the code by the harness' forced interleavings.) *)
Lemma goc_present : forall o k (vs : list V) (s : st K V) x, find k (m s) = Some x ->
  run keqb o s (map (EGetOrCreate k) vs) = (s, map (fun _ => OVal x false) vs).
Proof.
  induction vs as [|v t IH]; intros s x H; simpl; auto.
  rewrite H. rewrite (IH s x H). reflexivity.
Qed.

Theorem getorcreate_creates_once : forall o (s : st K V) k v0 (vs : list V),
  let w := match find k (m s) with Some x => x | None => v0 end in
  let created := match find k (m s) with Some _ => false | None => true end in
  let r := run keqb o s (map (EGetOrCreate k) (v0 :: vs)) in
  snd r = OVal w created :: map (fun _ => OVal w false) vs /\ find k (m (fst r)) = Some w.
Proof.
  intros o s k v0 vs. cbv zeta. simpl map. simpl run.
  destruct (find k (m s)) as [x|] eqn:F.
  - rewrite (goc_present o k vs s x F). simpl. auto.
  - assert (F2 : find k (m (mkSt (put k v0 (m s)) (deleted s))) = Some v0).
    { simpl. rewrite find_put. rewrite keqb_refl. reflexivity. }
    rewrite (goc_present o k vs _ v0 F2). simpl. split; auto.
Qed.

End SMapProofs.

(* the model does shrink: with ratio 1/2 and count 2 the counter is reset by the second deletion *)
Example shrink_happens :
  let o := mkOpts 1 2 2 in
  let h := [ESet 0 10%Z; ESet 1 11%Z; ESet 2 12%Z; EDelete 0 None; EDelete 1 None] in
  deleted (fst (run Nat.eqb o new (firstn 4 h))) = 1%Z /\ deleted (fst (run Nat.eqb o new h)) = 0%Z.
Proof. vm_compute. auto. Qed.
