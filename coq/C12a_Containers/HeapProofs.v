(* PriorityQueue (ds/priorityqueue + generalheap + container/heap; timed.PriorityQueue is the same code with the
   ascending / descending time comparator): step-level theorems over all histories.
   Proved here for EVERY comparator: index maintenance, exact contents, removal handles (exactly-once, idempotent),
   Peek = what Pop returns = the root.  The ordering part ("the root is a minimum", stated below as
   pop_min_full_statement) is proved in HeapOrder.v (pop_min_full) for every strict-weak-order comparator. *)
From Coq Require Import List ZArith Bool Arith Lia Permutation.
From Verif.C12a_Containers Require Import ListAux Heap HeapIndex.
Import ListNotations.
Open Scope bool_scope.

Section HeapProofs.
Variables (P V : Type) (cmp : P -> P -> Z) (pzero : P) (vzero : V).

Notation hst := (hst P V).
Notation idx_ok := (idx_ok P V).
Notation ix := (ix P V).
Notation hstep := (hstep cmp pzero vzero).
Notation hrun := (hrun cmp pzero vzero).

Lemma pop_loop_ok : forall fuel lim (s : hst) acc, idx_ok s ->
  let r := pop_loop cmp pzero fuel lim s acc in
  idx_ok (fst r) /\ Permutation (acc ++ arr s) (snd r ++ arr (fst r)) /\
  prios (fst r) = prios s /\ vals (fst r) = vals s.
Proof.
  induction fuel; intros lim s acc I; simpl; auto.
  destruct (arr s) as [|a l] eqn:EA; [simpl; rewrite ?EA; split; [auto|split; [apply Permutation_refl|auto]]|].
  assert (NE : arr s <> []) by congruence.
  destruct (match lim with Some p => (cmp (prio pzero s (at_ s 0)) p <=? 0)%Z | None => true end);
    [|simpl; rewrite ?EA; split; [auto|split; [apply Permutation_refl|auto]]].
  destruct (hpop_ok P V cmp pzero s I NE) as [(R1 & R2 & R3 & R4 & R5 & R6) E].
  destruct (hpop cmp pzero s) as [s1 id]. simpl in *.
  destruct (IHfuel lim s1 (acc ++ [id]) R1) as (J1 & J2 & J3 & J4).
  split; auto. split; [|split; congruence].
  eapply Permutation_trans; [|exact J2]. rewrite <- app_assoc. simpl.
  apply Permutation_app_head. rewrite <- EA. exact R2.
Qed.

Opaque pop_loop hremove hpop hpush.

Lemma hstep_idx_ok : forall (s : hst) e, idx_ok s -> idx_ok (fst (hstep s e)).
Proof.
  intros s e I. destruct e; simpl; auto.
  - apply (hpush_ok P V cmp pzero s p v I).
  - destruct (Z.eqb_spec (nth id (idx s) (-1)%Z) (-1)%Z); simpl; auto.
    destruct (handle_live P V s id I) as [_ H]. destruct (H n) as [H1 H2].
    apply (hremove_ok P V cmp pzero s _ I H1).
  - destruct (arr s) eqn:EA; simpl; auto.
    assert (NE : arr s <> []) by congruence.
    destruct (hpop_ok P V cmp pzero s I NE) as [(R1 & _) _]. destruct (hpop cmp pzero s). auto.
  - pose proof (pop_loop_ok (S (length (arr s))) (Some p) s [] I) as H.
    destruct (pop_loop cmp pzero (S (length (arr s))) (Some p) s []). apply H.
  - pose proof (pop_loop_ok (S (length (arr s))) None s [] I) as H.
    destruct (pop_loop cmp pzero (S (length (arr s))) None s []). apply H.
Qed.

(* every reachable state of the queue keeps every element's index field equal to its position *)
Theorem heap_reachable_idx_ok_gen : forall h (s : hst), idx_ok s -> idx_ok (fst (hrun s h)).
Proof.
  induction h as [|e r IH]; simpl; intros; auto.
  pose proof (hstep_idx_ok s e H). destruct (hstep s e) as [s1 x]. simpl in *.
  specialize (IH s1 H0). destruct (hrun s1 r). auto.
Qed.

Theorem heap_reachable_idx_ok : forall h, idx_ok (fst (hrun hnew h)).
Proof. intros. apply heap_reachable_idx_ok_gen. apply idx_ok_new. Qed.

(* Push adds exactly the new element (with the next id) *)
Theorem push_contents : forall (s : hst) p v, idx_ok s ->
  Permutation (length (prios s) :: arr s) (arr (fst (hstep s (HPush p v)))) /\
  prio pzero (fst (hstep s (HPush p v))) (length (prios s)) = p /\
  val vzero (fst (hstep s (HPush p v))) (length (prios s)) = v.
Proof.
  intros s p v I. simpl. destruct (hpush_ok P V cmp pzero s p v I) as (A & B & C & D & _).
  destruct I as (L1 & L2 & _).
  split; auto. unfold prio, val. rewrite C, D. rewrite !app_nth2 by lia.
  rewrite L2, <- L1, Nat.sub_diag. auto.
Qed.

(* Pop returns the root (the element Peek shows) and removes exactly that element *)
Theorem pop_contents : forall (s : hst), idx_ok s -> arr s <> [] ->
  snd (hstep s HPop) = HOVal (Some (val vzero s (at_ s 0))) /\
  snd (hstep s HPeek) = HOVal (Some (val vzero s (at_ s 0))) /\
  Permutation (arr s) (at_ s 0 :: arr (fst (hstep s HPop))) /\
  ix (fst (hstep s HPop)) (at_ s 0) = (-1)%Z.
Proof.
  intros s I NE. simpl.
  destruct (hpop_ok P V cmp pzero s I NE) as [(R1 & R2 & R3 & _) E].
  destruct (arr s) as [|a l] eqn:EA; [congruence|]. rewrite <- EA in *.
  destruct (hpop cmp pzero s) as [s1 id]. simpl in *. subst id.
  assert (a = at_ s 0) by (unfold at_; rewrite EA; auto). subst a. auto.
Qed.

(* the removal handle of a live element removes exactly that element, and a second call is a no-op *)
Theorem remove_exact : forall (s : hst) id, idx_ok s -> In id (arr s) ->
  let s' := fst (hstep s (HRemove id)) in
  Permutation (arr s) (id :: arr s') /\ ~ In id (arr s') /\ fst (hstep s' (HRemove id)) = s'.
Proof.
  intros s id I Hin. destruct (handle_live P V s id I) as [[_ L] H].
  specialize (L Hin). destruct (H L) as [H1 H2]. simpl.
  unfold HeapIndex.ix in L. destruct (Z.eqb_spec (nth id (idx s) (-1)%Z) (-1)%Z); [contradiction|]. simpl.
  destruct (hremove_ok P V cmp pzero s _ I H1) as [(R1 & R2 & R3 & _) E].
  unfold HeapIndex.ix in *. rewrite H2 in E.
  destruct (hremove cmp pzero s (Z.to_nat (nth id (idx s) (-1)%Z))) as [s1 id1]. simpl in *. subst id1.
  split; auto. split.
  - destruct (handle_live P V s1 id R1) as [[_ L1] _]. intro Hin1. apply L1 in Hin1. contradiction.
  - rewrite R3. simpl. auto.
Qed.

(* the handle of an element that already left the queue (popped or removed) does nothing *)
Theorem remove_dead_noop : forall (s : hst) id, idx_ok s -> ~ In id (arr s) -> hstep s (HRemove id) = (s, HOUnit).
Proof.
  intros s id I Hnin. destruct (handle_live P V s id I) as [[L _] _]. simpl.
  destruct (Z.eqb_spec (nth id (idx s) (-1)%Z) (-1)%Z); auto. exfalso. apply Hnin, L. exact n.
Qed.

(* PopAll / PopUntil return distinct live elements and leave the rest *)
Theorem pop_loop_contents : forall (s : hst) lim, idx_ok s ->
  let r := pop_loop cmp pzero (S (length (arr s))) lim s [] in
  Permutation (arr s) (snd r ++ arr (fst r)).
Proof. intros. destruct (pop_loop_ok (S (length (arr s))) lim s [] H) as (_ & A & _). exact A. Qed.

(* ---- ordering: full statement (proved in HeapOrder.v: pop_min_full) ---- *)
Definition plt (a b : P) : bool := (cmp a b <? 0)%Z.
Definition strict_weak_order : Prop :=
  (forall a b, plt a b = true -> plt b a = false) /\
  (forall a b c, plt b a = false -> plt c b = false -> plt c a = false).
Definition pop_min_full_statement : Prop :=
  strict_weak_order -> forall h x,
  let s := fst (hrun hnew h) in
  In x (arr s) -> plt (prio pzero s x) (prio pzero s (at_ s 0)) = false.

End HeapProofs.

(* non-vacuity / regression: a handle in the middle of the heap *)
Example remove_middle :
  let cmpz := fun a b : Z => match Z.compare a b with Lt => (-1)%Z | Eq => 0%Z | Gt => 1%Z end in
  let h := [HPush 5%Z 0%Z; HPush 3%Z 1%Z; HPush 4%Z 2%Z; HPush 1%Z 3%Z; HRemove 1; HRemove 1; HPopAll] in
  snd (hrun cmpz 0%Z 0%Z hnew h) = [HOUnit; HOUnit; HOUnit; HOUnit; HOUnit; HOUnit; HOVals [3%Z; 2%Z; 0%Z]].
Proof. vm_compute. auto. Qed.

(* the comparators used by the code under test (ascending / descending time, and the harness's tie-heavy one)
   satisfy the premise of the open ordering statement *)
From Verif.C12a_Containers Require Import Corr.
Lemma cmp_of_strict_weak_order : forall mo, strict_weak_order Z (cmp_of mo).
Proof.
  intros mo. unfold strict_weak_order, plt.
  assert (Z1 : forall a b, (zcmp a b <? 0)%Z = (a <? b)%Z).
  { intros. unfold zcmp. destruct (Z.compare_spec a b); destruct (Z.ltb_spec a b); auto; lia. }
  destruct mo; simpl; split; intros; rewrite ?Z1 in *; lia.
Qed.
