(* Executable model of ds/generalheap/generalheap.go + container/heap (Push/Pop/Remove with up/down) +
   ds/priorityqueue/priorityqueue.go (and runtime/timed/priority_queue.go, which instantiates it with the
   ascending / descending time comparators).
   A *HeapElement is identified by its push number `id`; `arr` is the heap slice (of ids), `idx` the
   `index` field of every element ever pushed (-1 after removal), `prios`/`vals` the immutable Key/Value fields. *)
From Coq Require Import List ZArith Bool Arith.
From Verif.C12a_Containers Require Import ListAux.
Import ListNotations.
Open Scope bool_scope.

Section Heap.
Variables (P V : Type) (cmp : P -> P -> Z) (pzero : P) (vzero : V).

Record hst := mkH { arr : list nat; idx : list Z; prios : list P; vals : list V }.

Definition hnew : hst := mkH [] [] [] [].

Definition at_ (s : hst) (i : nat) : nat := nth i (arr s) 0.
Definition prio (s : hst) (id : nat) : P := nth id (prios s) pzero.
Definition val (s : hst) (id : nat) : V := nth id (vals s) vzero.

(* Heap.Less *)
Definition less (s : hst) (i j : nat) : bool := (cmp (prio s (at_ s i)) (prio s (at_ s j)) <? 0)%Z.

(* Heap.Swap: h[i], h[j] = h[j], h[i]; h[i].index, h[j].index = i, j *)
Definition swap (s : hst) (i j : nat) : hst :=
  let ai := at_ s i in let aj := at_ s j in
  mkH (upd (upd (arr s) i aj) j ai)
      (upd (upd (idx s) aj (Z.of_nat i)) ai (Z.of_nat j))
      (prios s) (vals s).

(* container/heap.up *)
Fixpoint up (fuel : nat) (s : hst) (j : nat) : hst :=
  match fuel with
  | 0 => s
  | S f =>
      let i := (j - 1) / 2 in
      if (i =? j) || negb (less s j i) then s else up f (swap s i j) i
  end.

(* container/heap.down; returns the final position (Go returns i > i0) *)
Fixpoint down (fuel : nat) (s : hst) (i n : nat) : hst * nat :=
  match fuel with
  | 0 => (s, i)
  | S f =>
      let j1 := 2 * i + 1 in
      if n <=? j1 then (s, i)
      else
        let j := if (j1 + 1 <? n) && less s (j1 + 1) j1 then j1 + 1 else j1 in
        if negb (less s j i) then (s, i) else down f (swap s i j) j n
  end.

(* Heap.Pop: drop the last cell, set its index to -1 *)
Definition drop_last (s : hst) : hst * nat :=
  let n := length (arr s) in
  let last := at_ s (n - 1) in
  (mkH (removelast (arr s)) (upd (idx s) last (-1)%Z) (prios s) (vals s), last).

(* heap.Push(&h, &HeapElement{Key: p, Value: v}) *)
Definition hpush (s : hst) (p : P) (v : V) : hst :=
  let id := length (prios s) in
  let n := length (arr s) in
  let s1 := mkH (arr s ++ [id]) (idx s ++ [Z.of_nat n]) (prios s ++ [p]) (vals s ++ [v]) in
  up (S n) s1 n.

(* heap.Pop(&h) (precondition Len > 0) *)
Definition hpop (s : hst) : hst * nat :=
  let n := length (arr s) - 1 in
  let s1 := swap s 0 n in
  let '(s2, _) := down (S n) s1 0 n in
  drop_last s2.

(* heap.Remove(&h, i) *)
Definition hremove (s : hst) (i : nat) : hst * nat :=
  let n := length (arr s) - 1 in
  let s3 :=
    if n =? i then s
    else
      let s1 := swap s i n in
      let '(s2, i') := down (S n) s1 i n in
      if i <? i' then s2 else up (S i) s2 i in
  drop_last s3.

Inductive hev :=
| HPush (p : P) (v : V)
| HRemove (id : nat)           (* call the closure returned by the id-th Push *)
| HPeek | HPop
| HPopUntil (p : P)
| HPopAll
| HSize | HIsEmpty.

Inductive hout :=
| HOUnit
| HOVal (o : option V)
| HOVals (l : list V)
| HONat (n : nat)
| HOBool (b : bool).

(* the loop of PopUntil / PopAll (lim = None: PopAll) *)
Fixpoint pop_loop (fuel : nat) (lim : option P) (s : hst) (acc : list nat) : hst * list nat :=
  match fuel with
  | 0 => (s, acc)
  | S f =>
      match arr s with
      | [] => (s, acc)
      | _ =>
          let go := match lim with
                    | None => true
                    | Some p => (cmp (prio s (at_ s 0)) p <=? 0)%Z
                    end in
          if go then let '(s1, id) := hpop s in pop_loop f lim s1 (acc ++ [id]) else (s, acc)
      end
  end.

Definition hstep (s : hst) (e : hev) : hst * hout :=
  match e with
  | HPush p v => (hpush s p v, HOUnit)
  | HRemove id =>
      let ix := nth id (idx s) (-1)%Z in
      if (ix =? -1)%Z then (s, HOUnit) else (fst (hremove s (Z.to_nat ix)), HOUnit)
  | HPeek => (s, HOVal (match arr s with [] => None | a :: _ => Some (val s a) end))
  | HPop =>
      match arr s with
      | [] => (s, HOVal None)
      | _ => let '(s1, id) := hpop s in (s1, HOVal (Some (val s id)))
      end
  | HPopUntil p => let '(s1, ids) := pop_loop (S (length (arr s))) (Some p) s [] in (s1, HOVals (map (val s) ids))
  | HPopAll => let '(s1, ids) := pop_loop (S (length (arr s))) None s [] in (s1, HOVals (map (val s) ids))
  | HSize => (s, HONat (length (arr s)))
  | HIsEmpty => (s, HOBool (length (arr s) =? 0))
  end.

Fixpoint hrun (s : hst) (h : list hev) : hst * list hout :=
  match h with
  | [] => (s, [])
  | e :: r => let '(s1, x) := hstep s e in let '(s2, xs) := hrun s1 r in (s2, x :: xs)
  end.

End Heap.

Arguments mkH {P V}. Arguments arr {P V}. Arguments idx {P V}. Arguments prios {P V}. Arguments vals {P V}.
Arguments hnew {P V}. Arguments at_ {P V}. Arguments prio {P V}. Arguments val {P V}. Arguments less {P V}.
Arguments swap {P V}. Arguments up {P V}. Arguments down {P V}. Arguments drop_last {P V}.
Arguments hpush {P V}. Arguments hpop {P V}. Arguments hremove {P V}. Arguments pop_loop {P V}.
Arguments hstep {P V}. Arguments hrun {P V}.
Arguments HPush {P V}. Arguments HRemove {P V}. Arguments HPeek {P V}. Arguments HPop {P V}.
Arguments HPopUntil {P V}. Arguments HPopAll {P V}. Arguments HSize {P V}. Arguments HIsEmpty {P V}.
Arguments HOUnit {V}. Arguments HOVal {V}. Arguments HOVals {V}. Arguments HONat {V}. Arguments HOBool {V}.
