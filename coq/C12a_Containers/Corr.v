(* Correspondence for C12a: a case is an operation history on one container together with what the Go
   implementation returned for every operation and the (reflected) internal state after every operation.
   Keys are nat, values / priorities / elements are Z. Listings that follow Go map order are compared sorted. *)
From Coq Require Import List ZArith Bool Arith.
From Verif.C12a_Containers Require Import ListAux SMap RMap Heap Ring.
Import ListNotations.
Open Scope bool_scope.

(* ---------- generic equality helpers ---------- *)
Fixpoint list_eqb {A} (eqb : A -> A -> bool) (a b : list A) : bool :=
  match a, b with
  | [], [] => true
  | x :: a', y :: b' => eqb x y && list_eqb eqb a' b'
  | _, _ => false
  end.
Definition opt_eqb {A} (eqb : A -> A -> bool) (a b : option A) : bool :=
  match a, b with None, None => true | Some x, Some y => eqb x y | _, _ => false end.
Definition pair_eqb {A B} (ea : A -> A -> bool) (eb : B -> B -> bool) (a b : A * B) : bool :=
  ea (fst a) (fst b) && eb (snd a) (snd b).

Fixpoint ins {A} (leb : A -> A -> bool) (x : A) (l : list A) : list A :=
  match l with [] => [x] | y :: t => if leb x y then x :: l else y :: ins leb x t end.
Definition isort {A} (leb : A -> A -> bool) (l : list A) : list A := fold_right (ins leb) [] l.

Definition kv_leb (a b : nat * Z) : bool := fst a <=? fst b.
Definition sortkv := isort kv_leb.
Definition sortk := isort Nat.leb.
Definition sortv := isort Z.leb.
Definition kv_eqb := pair_eqb Nat.eqb Z.eqb.

(* ---------- ShrinkingMap ---------- *)
Definition addf (d : Z) (o : option Z) : Z := match o with Some x => (x + d)%Z | None => d end.

Definition sm_out_eqb (a b : SMap.out nat Z) : bool :=
  match a, b with
  | OUnit, OUnit => true
  | OBool x, OBool y => Bool.eqb x y
  | OGet x, OGet y => opt_eqb Z.eqb x y
  | OVal x p, OVal y q => Z.eqb x y && Bool.eqb p q
  | OKV x, OKV y => list_eqb kv_eqb (sortkv x) (sortkv y)
  | OKeys x, OKeys y => list_eqb Nat.eqb (sortk x) (sortk y)
  | OVals x, OVals y => list_eqb Z.eqb (sortv x) (sortv y)
  | ONat x, ONat y => x =? y
  | OPop x, OPop y => opt_eqb kv_eqb x y
  | _, _ => false
  end.

(* observation after each step: output, deletedKeys, contents (sorted by the harness) *)
Definition sm_obs : Type := SMap.out nat Z * Z * list (nat * Z).

Fixpoint sm_agree (o : SMap.opts) (s : SMap.st nat Z) (h : list (SMap.ev nat Z)) (obs : list sm_obs) : bool :=
  match h, obs with
  | [], [] => true
  | e :: r, (x, d, c) :: obs' =>
      let '(s1, y) := SMap.step Nat.eqb o s e in
      sm_out_eqb x y && (d =? deleted s1)%Z && list_eqb kv_eqb c (sortkv (m s1)) && sm_agree o s1 r obs'
  | _, _ => false
  end.

(* ---------- RandomMap ---------- *)
Definition rm_out_eqb (a b : rout nat Z) : bool :=
  match a, b with
  | ROUnit, ROUnit => true
  | ROGet x, ROGet y => opt_eqb Z.eqb x y
  | ROBool x, ROBool y => Bool.eqb x y
  | RODel x, RODel y => opt_eqb (pair_eqb Z.eqb Bool.eqb) x y
  | RONat x, RONat y => x =? y
  | ROKV x, ROKV y => list_eqb kv_eqb (sortkv x) (sortkv y)
  | ROKey x, ROKey y => opt_eqb Nat.eqb x y
  | ROKeys x, ROKeys y => list_eqb Nat.eqb x y
  | ROValsSet x, ROValsSet y => list_eqb Z.eqb (sortv x) (sortv y)
  | ROValsSeq x, ROValsSeq y => list_eqb Z.eqb x y
  | ROPanic, ROPanic => true
  | _, _ => false
  end.

(* observation: output, the dense key slice, the entries (key, value, keyIndex) sorted by key, deletedKeys of the raw map *)
Definition rm_obs : Type := rout nat Z * list nat * list (nat * (Z * nat)) * Z.

Definition ent_leb (a b : nat * (Z * nat)) : bool := fst a <=? fst b.
Definition ent_eqb := pair_eqb Nat.eqb (pair_eqb Z.eqb Nat.eqb).

Fixpoint rm_agree (o : SMap.opts) (s : rst nat Z) (h : list (rev nat Z)) (obs : list rm_obs) : bool :=
  match h, obs with
  | [], [] => true
  | e :: r, (x, ks, ents, d) :: obs' =>
      let '(s1, y) := rstep Nat.eqb 0 o s e in
      rm_out_eqb x y && list_eqb Nat.eqb ks (keys s1)
      && list_eqb ent_eqb ents (isort ent_leb (m (raw s1))) && (d =? deleted (raw s1))%Z
      && rm_agree o s1 r obs'
  | _, _ => false
  end.

(* ---------- PriorityQueue ---------- *)
Inductive cmpmode := CmpAsc | CmpDesc | CmpHalf.

Definition zcmp (a b : Z) : Z := match Z.compare a b with Lt => (-1)%Z | Eq => 0%Z | Gt => 1%Z end.
Definition cmp_of (mo : cmpmode) (a b : Z) : Z :=
  match mo with
  | CmpAsc => zcmp a b
  | CmpDesc => zcmp b a
  | CmpHalf => zcmp (a / 2) (b / 2)
  end.

Definition h_out_eqb (a b : hout Z) : bool :=
  match a, b with
  | HOUnit, HOUnit => true
  | HOVal x, HOVal y => opt_eqb Z.eqb x y
  | HOVals x, HOVals y => list_eqb Z.eqb x y
  | HONat x, HONat y => x =? y
  | HOBool x, HOBool y => Bool.eqb x y
  | _, _ => false
  end.

(* observation: output, the heap slice as (Value, index field) in slice order *)
Definition h_obs : Type := hout Z * list (Z * Z).

Fixpoint h_agree (mo : cmpmode) (s : hst Z Z) (h : list (hev Z Z)) (obs : list h_obs) : bool :=
  match h, obs with
  | [], [] => true
  | e :: r, (x, sl) :: obs' =>
      let '(s1, y) := hstep (cmp_of mo) 0%Z 0%Z s e in
      h_out_eqb x y
      && list_eqb (pair_eqb Z.eqb Z.eqb) sl (map (fun id => (val 0%Z s1 id, nth id (idx s1) (-2)%Z)) (arr s1))
      && h_agree mo s1 r obs'
  | _, _ => false
  end.

(* ---------- Queue / RingBuffer / Stack ---------- *)
Definition q_out_eqb (a b : qout Z) : bool :=
  match a, b with
  | QONat x, QONat y => x =? y
  | QOBool x, QOBool y => Bool.eqb x y
  | QOOpt x, QOOpt y => opt_eqb Z.eqb x y
  | QOPanic, QOPanic => true
  | _, _ => false
  end.

Definition q_obs : Type := qout Z * (list Z * nat * nat * nat).     (* ringBuffer, read, write, size *)

Fixpoint q_agree (s : qst Z) (h : list (qev Z)) (obs : list q_obs) : bool :=
  match h, obs with
  | [], [] => true
  | e :: r, (x, (b, rd, wr, sz)) :: obs' =>
      let '(s1, y) := qstep 0%Z s e in
      q_out_eqb x y && list_eqb Z.eqb b (qbuf s1) && (rd =? qrd s1) && (wr =? qwr s1) && (sz =? qsize s1)
      && q_agree s1 r obs'
  | _, _ => false
  end.

Definition rb_out_eqb (a b : rbout Z) : bool :=
  match a, b with
  | RBOBool x, RBOBool y => Bool.eqb x y
  | RBOList x, RBOList y => list_eqb Z.eqb x y
  | RBOPanic, RBOPanic => true
  | _, _ => false
  end.

Definition rb_obs : Type := rbout Z * (list Z * nat * nat).         (* buffer, pos, size *)

Fixpoint rb_agree (s : rbst Z) (h : list (rbev Z)) (obs : list rb_obs) : bool :=
  match h, obs with
  | [], [] => true
  | e :: r, (x, (b, p, sz)) :: obs' =>
      let '(s1, y) := rbstep 0%Z s e in
      rb_out_eqb x y && list_eqb Z.eqb b (rbuf s1) && (p =? rpos s1) && (sz =? rsz s1) && rb_agree s1 r obs'
  | _, _ => false
  end.

Definition s_out_eqb (a b : sout Z) : bool :=
  match a, b with
  | SOUnit, SOUnit => true
  | SOOpt x, SOOpt y => opt_eqb Z.eqb x y
  | SONat x, SONat y => x =? y
  | SOBool x, SOBool y => Bool.eqb x y
  | _, _ => false
  end.

Fixpoint s_agree (s : list Z) (h : list (sev Z)) (obs : list (sout Z * list Z)) : bool :=
  match h, obs with
  | [], [] => true
  | e :: r, (x, c) :: obs' =>
      let '(s1, y) := sstep 0%Z s e in
      s_out_eqb x y && list_eqb Z.eqb c s1 && s_agree s1 r obs'
  | _, _ => false
  end.

(* ---------- cases ---------- *)
Inductive case :=
| CSMap (o : SMap.opts) (h : list (SMap.ev nat Z)) (obs : list sm_obs)
| CRMap (o : SMap.opts) (h : list (rev nat Z)) (obs : list rm_obs)
| CHeap (mo : cmpmode) (h : list (hev Z Z)) (obs : list h_obs)
| CQueue (cap : nat) (h : list (qev Z)) (obs : list q_obs)
| CRing (cap : nat) (h : list (rbev Z)) (obs : list rb_obs)
| CStack (threadsafe : bool) (h : list (sev Z)) (obs : list (sout Z * list Z)).

Definition agree (c : case) : bool :=
  match c with
  | CSMap o h obs => sm_agree o SMap.new h obs
  | CRMap o h obs => rm_agree o rnew h obs
  | CHeap mo h obs => h_agree mo hnew h obs
  | CQueue cap h obs => q_agree (qnew 0%Z cap) h obs
  | CRing cap h obs => rb_agree (rbnew 0%Z cap) h obs
  | CStack _ h obs => s_agree [] h obs
  end.

Fixpoint mismatches_from (i : nat) (cs : list case) : list nat :=
  match cs with
  | [] => []
  | c :: r => if agree c then mismatches_from (S i) r else i :: mismatches_from (S i) r
  end.

Definition mismatches (cs : list case) : list nat := mismatches_from 0 cs.
