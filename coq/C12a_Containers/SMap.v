(* Executable model of ds/shrinkingmap/shrinkingmap.go (ShrinkingMap) and the plain-map specification.
   The Go map is an association list with unique keys (iteration order is not part of the model's
   observables: Corr sorts listings); `deleted` is the deletedKeys counter; the float32 ratio option is an
   exact rational rnum/rden (rden > 0).  Locks are not modelled (sequential histories). *)
From Coq Require Import List ZArith Bool Arith.
Import ListNotations.
Open Scope bool_scope.

Section SMap.
Variables (K V : Type) (keqb : K -> K -> bool).

Record opts := mkOpts { rnum : Z; rden : Z; ocnt : Z }.
Record st := mkSt { m : list (K * V); deleted : Z }.

Definition new : st := mkSt [] 0.

Fixpoint find (k : K) (l : list (K * V)) : option V :=
  match l with
  | [] => None
  | (k', v) :: t => if keqb k k' then Some v else find k t
  end.

(* m[k] = v *)
Fixpoint put (k : K) (v : V) (l : list (K * V)) : list (K * V) :=
  match l with
  | [] => [(k, v)]
  | (k', v') :: t => if keqb k k' then (k, v) :: t else (k', v') :: put k v t
  end.

(* delete(m, k) *)
Fixpoint del (k : K) (l : list (K * V)) : list (K * V) :=
  match l with
  | [] => []
  | (k', v') :: t => if keqb k k' then t else (k', v') :: del k t
  end.

Definition size (s : st) : nat := length (m s).

(* shouldShrink, shrinkingmap.go:288-320 *)
Definition should_shrink (o : opts) (s : st) : bool :=
  let sz := Z.of_nat (size s) in
  if (rnum o =? 0)%Z && (ocnt o =? 0)%Z then false
  else if negb (rnum o =? 0)%Z && ((sz =? 0)%Z || (deleted s * rden o <? rnum o * sz)%Z) then false
  else if negb (ocnt o =? 0)%Z && (deleted s <? ocnt o)%Z then false
  else true.

(* shrink: copy every entry into a fresh map *)
Definition rebuild (l : list (K * V)) : list (K * V) :=
  fold_left (fun acc kv => put (fst kv) (snd kv) acc) l [].

Definition shrink (s : st) : st := mkSt (rebuild (m s)) 0.

(* delete (unexported), shrinkingmap.go:260-273 *)
Definition delete (o : opts) (k : K) (s : st) : st * bool :=
  match find k (m s) with
  | None => (s, false)
  | Some _ =>
      let s1 := mkSt (del k (m s)) (deleted s + 1) in
      ((if should_shrink o s1 then shrink s1 else s1), true)
  end.

Inductive ev :=
| ESet (k : K) (v : V)
| EGet (k : K)
| EGetOrCreate (k : K) (v : V)                 (* defaultValueFunc returns v *)
| ECompute (k : K) (f : option V -> V)         (* updateFunc(current, exists) *)
| EHas (k : K)
| EForEachKey | EForEach | EKeys | EValues | EAsMap
| EForEachKeyAbort (n : nat) | EForEachAbort (n : nat)   (* callback returns false on its n-th call (n >= 1) *)
| EPop (pick : K)                              (* the key the Go map iteration happened to yield first *)
| ESize | EIsEmpty
| EDeleteAndReturn (k : K)
| EDelete (k : K) (cond : option bool)
| EClear | EShrink.

Inductive out :=
| OUnit
| OBool (b : bool)
| OGet (o : option V)
| OVal (v : V) (b : bool)
| OKV (l : list (K * V))       (* set-like listing: compared sorted *)
| OKeys (l : list K)
| OVals (l : list V)
| ONat (n : nat)
| OPop (o : option (K * V))
| OBad.                        (* the recorded nondeterministic choice is impossible for the model *)

Definition step (o : opts) (s : st) (e : ev) : st * out :=
  match e with
  | ESet k v => (mkSt (put k v (m s)) (deleted s), OBool (match find k (m s) with None => true | Some _ => false end))
  | EGet k => (s, OGet (find k (m s)))
  | EGetOrCreate k v =>
      match find k (m s) with
      | Some x => (s, OVal x false)
      | None => (mkSt (put k v (m s)) (deleted s), OVal v true)
      end
  | ECompute k f => let v := f (find k (m s)) in (mkSt (put k v (m s)) (deleted s), OGet (Some v))
  | EHas k => (s, OBool (match find k (m s) with None => false | Some _ => true end))
  | EForEachKey | EKeys => (s, OKeys (map fst (m s)))
  | EForEach | EAsMap => (s, OKV (m s))
  | EValues => (s, OVals (map snd (m s)))
  | EForEachKeyAbort n | EForEachAbort n => (s, ONat (Nat.min n (size s)))
  | EPop k =>
      match m s with
      | [] => (s, OPop None)
      | _ => match find k (m s) with
             | Some v => (fst (delete o k s), OPop (Some (k, v)))
             | None => (s, OBad)
             end
      end
  | ESize => (s, ONat (size s))
  | EIsEmpty => (s, OBool (size s =? 0))
  | EDeleteAndReturn k =>
      match find k (m s) with
      | Some v => (fst (delete o k s), OGet (Some v))
      | None => (s, OGet None)
      end
  | EDelete k (Some false) => (s, OBool false)
  | EDelete k _ => let '(s', d) := delete o k s in (s', OBool d)
  | EClear => (new, OUnit)
  | EShrink => (shrink s, OUnit)
  end.

Fixpoint run (o : opts) (s : st) (h : list ev) : st * list out :=
  match h with
  | [] => (s, [])
  | e :: r => let '(s1, x) := step o s e in let '(s2, xs) := run o s1 r in (s2, x :: xs)
  end.

(* ---------- specification: a plain map; no options, no counter, no shrinking ---------- *)

Definition pstep (l : list (K * V)) (e : ev) : list (K * V) * out :=
  match e with
  | ESet k v => (put k v l, OBool (match find k l with None => true | Some _ => false end))
  | EGet k => (l, OGet (find k l))
  | EGetOrCreate k v =>
      match find k l with Some x => (l, OVal x false) | None => (put k v l, OVal v true) end
  | ECompute k f => let v := f (find k l) in (put k v l, OGet (Some v))
  | EHas k => (l, OBool (match find k l with None => false | Some _ => true end))
  | EForEachKey | EKeys => (l, OKeys (map fst l))
  | EForEach | EAsMap => (l, OKV l)
  | EValues => (l, OVals (map snd l))
  | EForEachKeyAbort n | EForEachAbort n => (l, ONat (Nat.min n (length l)))
  | EPop k =>
      match l with
      | [] => (l, OPop None)
      | _ => match find k l with Some v => (del k l, OPop (Some (k, v))) | None => (l, OBad) end
      end
  | ESize => (l, ONat (length l))
  | EIsEmpty => (l, OBool (length l =? 0))
  | EDeleteAndReturn k =>
      match find k l with Some v => (del k l, OGet (Some v)) | None => (l, OGet None) end
  | EDelete k (Some false) => (l, OBool false)
  | EDelete k _ => (del k l, OBool (match find k l with None => false | Some _ => true end))
  | EClear => ([], OUnit)
  | EShrink => (l, OUnit)
  end.

Fixpoint prun (l : list (K * V)) (h : list ev) : list (K * V) * list out :=
  match h with
  | [] => (l, [])
  | e :: r => let '(l1, x) := pstep l e in let '(l2, xs) := prun l1 r in (l2, x :: xs)
  end.

End SMap.

Arguments mkSt {K V}. Arguments m {K V}. Arguments deleted {K V}.
Arguments find {K V}. Arguments put {K V}. Arguments del {K V}. Arguments size {K V}.
Arguments new {K V}. Arguments delete {K V}. Arguments shrink {K V}. Arguments should_shrink {K V}.
Arguments rebuild {K V}.
Arguments step {K V}. Arguments run {K V}. Arguments pstep {K V}. Arguments prun {K V}.
Arguments ESet {K V}. Arguments EGet {K V}. Arguments EGetOrCreate {K V}. Arguments ECompute {K V}.
Arguments EHas {K V}. Arguments EForEachKey {K V}. Arguments EForEach {K V}. Arguments EKeys {K V}.
Arguments EValues {K V}. Arguments EAsMap {K V}. Arguments EForEachKeyAbort {K V}. Arguments EForEachAbort {K V}.
Arguments EPop {K V}. Arguments ESize {K V}. Arguments EIsEmpty {K V}. Arguments EDeleteAndReturn {K V}.
Arguments EDelete {K V}. Arguments EClear {K V}. Arguments EShrink {K V}.
Arguments OUnit {K V}. Arguments OBool {K V}. Arguments OGet {K V}. Arguments OVal {K V}. Arguments OKV {K V}.
Arguments OKeys {K V}. Arguments OVals {K V}. Arguments ONat {K V}. Arguments OPop {K V}. Arguments OBad {K V}.
