(* Queue, RingBuffer and Stack: the ring arithmetic / slice models refine bounded FIFO (drop and evict-oldest),
   the overwrite-oldest ring (listed newest first) and LIFO, for every history. *)
From Coq Require Import List Arith Bool Lia.
From Verif.C12a_Containers Require Import ListAux Ring.
Import ListNotations.
Open Scope bool_scope.

Lemma mod_case : forall a c, 0 < c -> a < 2 * c -> a mod c = if a <? c then a else a - c.
Proof.
  intros. destruct (Nat.ltb_spec a c).
  - apply Nat.mod_small. auto.
  - symmetry. apply Nat.mod_unique with 1; lia.
Qed.

Lemma firstn_app_exact : forall A (l1 l2 : list A), firstn (length l1) (l1 ++ l2) = l1.
Proof. induction l1; simpl; intros; auto. f_equal. auto. Qed.

Lemma seq_snoc : forall n, seq 0 (S n) = seq 0 n ++ [n].
Proof. intros. rewrite seq_S. auto. Qed.

Lemma seq_cons_shift : forall n, seq 0 (S n) = 0 :: map S (seq 0 n).
Proof. intros. simpl. rewrite seq_shift. auto. Qed.

Section RingProofs.
Variables (T : Type) (zero : T).

(* ======================= Stack ======================= *)

Lemma sstep_refines : forall (s : list T) e,
  rev (fst (sstep zero s e)) = fst (sspec_step (rev s) e) /\ snd (sstep zero s e) = snd (sspec_step (rev s) e).
Proof.
  intros s e. destruct e; simpl.
  - rewrite rev_unit. auto.
  - destruct s as [|a s'] using rev_ind; simpl; auto.
    rewrite app_length, rev_unit. simpl. replace (length s' + 1 =? 0) with false by (symmetry; apply Nat.eqb_neq; lia).
    replace (length s' + 1 - 1) with (length s') by lia. simpl.
    rewrite firstn_app_exact, app_nth2, Nat.sub_diag by lia. auto.
  - destruct s as [|a s'] using rev_ind; simpl; auto.
    rewrite app_length, rev_unit. simpl. replace (length s' + 1 =? 0) with false by (symmetry; apply Nat.eqb_neq; lia).
    replace (length s' + 1 - 1) with (length s') by lia. simpl.
    rewrite app_nth2, Nat.sub_diag, rev_unit by lia. auto.
  - auto.
  - rewrite rev_length. auto.
  - rewrite <- (rev_length s). destruct (rev s); auto.
Qed.

(* C12 Stack: every history on the slice model gives the outputs of a LIFO list *)
Theorem stack_refines_gen : forall h (s : list T),
  snd (srun zero s h) = snd (sspec_run (rev s) h) /\ rev (fst (srun zero s h)) = fst (sspec_run (rev s) h).
Proof.
  induction h as [|e r IH]; simpl; intros; auto.
  destruct (sstep_refines s e) as [A B].
  destruct (sstep zero s e) as [s1 x]. destruct (sspec_step (rev s) e) as [l1 y]. simpl in *. subst.
  specialize (IH s1). destruct (srun zero s1 r). destruct (sspec_run (rev s1) r). simpl in *.
  destruct IH. subst. auto.
Qed.

Theorem stack_refines : forall h : list (sev T), snd (srun zero [] h) = snd (sspec_run [] h).
Proof. intros. apply (stack_refines_gen h []). Qed.

(* ======================= Queue ======================= *)

Definition qinv (s : qst T) : Prop :=
  0 < qcap s /\ length (qbuf s) = qcap s /\ qrd s < qcap s /\ qsize s <= qcap s /\
  qwr s = (qrd s + qsize s) mod qcap s.

(* abstraction: the cells read .. read+size-1 (mod cap), oldest first *)
Definition qabs (s : qst T) : list T :=
  map (fun i => nth ((qrd s + i) mod qcap s) (qbuf s) zero) (seq 0 (qsize s)).

Lemma qabs_length : forall s, length (qabs s) = qsize s.
Proof. intros. unfold qabs. rewrite map_length, seq_length. auto. Qed.

Lemma qinv_new : forall cap, 0 < cap -> qinv (qnew zero cap) /\ qabs (qnew zero cap) = [].
Proof.
  intros. unfold qinv, qabs. simpl. rewrite repeat_length. repeat split; auto; try lia.
  rewrite Nat.mod_small; lia.
Qed.

Lemma qwrite_refines : forall s x, qinv s -> qsize s < qcap s ->
  qinv (qwrite s x) /\ qabs (qwrite s x) = qabs s ++ [x].
Proof.
  intros s x (C & L & R & SZ & W) Hlt. split.
  - unfold qinv. simpl. rewrite upd_length. repeat split; auto; try lia.
    rewrite W. rewrite Nat.add_mod_idemp_l by lia. f_equal. lia.
  - unfold qabs. simpl. replace (qsize s + 1) with (S (qsize s)) by lia.
    rewrite seq_snoc, map_app. simpl. f_equal.
    + apply map_ext_in. intros i Hi. apply in_seq in Hi. apply nth_upd_neq.
      rewrite W. rewrite !mod_case by lia.
      destruct (Nat.ltb_spec (qrd s + qsize s) (qcap s)); destruct (Nat.ltb_spec (qrd s + i) (qcap s)); lia.
    + f_equal. rewrite W. apply nth_upd_eq. rewrite L. apply Nat.mod_upper_bound. lia.
Qed.

Lemma qpoll_refines : forall s, qinv s ->
  match qabs s with
  | [] => qpoll zero s = (s, None)
  | o :: t => snd (qpoll zero s) = Some o /\ qinv (fst (qpoll zero s)) /\ qabs (fst (qpoll zero s)) = t /\
              qsize (fst (qpoll zero s)) = qsize s - 1 /\ qcap (fst (qpoll zero s)) = qcap s
  end.
Proof.
  intros s (C & L & R & SZ & W). unfold qpoll, qabs.
  destruct (qsize s) as [|n] eqn:E; simpl; auto.
  rewrite Nat.add_0_r, Nat.mod_small by lia. split; auto. split; [|split; [|split; auto; lia]].
  - unfold qinv. simpl. rewrite upd_length. repeat split; auto; try lia.
    + apply Nat.mod_upper_bound. lia.
    + rewrite W. rewrite Nat.add_mod_idemp_l by lia. f_equal. lia.
  - rewrite <- seq_shift, map_map. replace (n - 0) with n by lia.
    apply map_ext_in. intros i Hi. apply in_seq in Hi.
    rewrite Nat.add_mod_idemp_l by lia. replace (qrd s + 1 + i) with (qrd s + S i) by lia.
    apply nth_upd_neq. rewrite mod_case by lia.
    destruct (Nat.ltb_spec (qrd s + S i) (qcap s)); lia.
Qed.

Lemma qstep_refines : forall s e, qinv s ->
  qinv (fst (qstep zero s e)) /\ qabs (fst (qstep zero s e)) = fst (qspec_step (qcap s) (qabs s) e) /\
  snd (qstep zero s e) = snd (qspec_step (qcap s) (qabs s) e) /\ qcap (fst (qstep zero s e)) = qcap s.
Proof.
  intros s e I. pose proof I as (C & L & R & SZ & W).
  pose proof (qabs_length s) as AL. pose proof (qpoll_refines s I) as PR.
  destruct e; simpl.
  - rewrite AL. auto.
  - auto.
  - destruct (Nat.eqb_spec (qcap s) 0); try lia. rewrite AL.
    destruct (Nat.eqb_spec (qsize s) (qcap s)) as [Full|NF].
    + destruct (qabs s) as [|o t]; [simpl in AL; lia|].
      destruct PR as (P1 & P2 & P3 & P4 & P5). destruct (qpoll zero s) as [s1 r]. simpl in *. subst r.
      destruct (qwrite_refines s1 e P2) as [Q1 Q2]; try lia.
      rewrite Q2, P3. auto.
    + destruct (qwrite_refines s e I) as [Q1 Q2]; try lia. exact (conj Q1 (conj Q2 (conj eq_refl eq_refl))).
  - rewrite AL. destruct (Nat.eqb_spec (qsize s) (qcap s)); simpl; auto.
    destruct (qwrite_refines s e I) as [Q1 Q2]; try lia. exact (conj Q1 (conj Q2 (conj eq_refl eq_refl))).
  - destruct (qabs s) as [|o t] eqn:QA.
    + rewrite PR. simpl. auto.
    + destruct PR as (P1 & P2 & P3 & P4 & P5). destruct (qpoll zero s) as [s1 r]. simpl in *. subst. auto.
Qed.

(* C12 Queue: for every capacity >= 1 and every history the ring-arithmetic model gives the outputs of a
   bounded FIFO list (Offer drops when full, ForceOffer evicts and returns the oldest). *)
Theorem queue_refines_gen : forall h s, qinv s ->
  snd (qrun zero s h) = snd (qspec_run (qcap s) (qabs s) h) /\
  qabs (fst (qrun zero s h)) = fst (qspec_run (qcap s) (qabs s) h) /\ qinv (fst (qrun zero s h)).
Proof.
  induction h as [|e r IH]; simpl; intros; auto.
  destruct (qstep_refines s e H) as (A & B & C & D).
  destruct (qstep zero s e) as [s1 x]. destruct (qspec_step (qcap s) (qabs s) e) as [l1 y]. simpl in *. subst.
  specialize (IH s1 A). rewrite D in IH.
  destruct (qrun zero s1 r). destruct (qspec_run (qcap s) (qabs s1) r). simpl in *.
  destruct IH as (I1 & I2 & I3). subst. auto.
Qed.

Theorem queue_refines : forall cap (h : list (qev T)), 0 < cap ->
  snd (qrun zero (qnew zero cap) h) = snd (qspec_run cap [] h).
Proof.
  intros. destruct (qinv_new cap H) as [I A].
  destruct (queue_refines_gen h _ I) as (R1 & _). rewrite A in R1. exact R1.
Qed.

(* the specification list never exceeds the capacity *)
Lemma qabs_bounded : forall s, qinv s -> length (qabs s) <= qcap s.
Proof. intros s (C & L & R & SZ & W). rewrite qabs_length. auto. Qed.

(* ======================= RingBuffer ======================= *)

Definition rbinv (s : rbst T) : Prop :=
  0 < rcap s /\ length (rbuf s) = rcap s /\ rpos s < rcap s /\ rsz s <= rcap s.

Definition rstart (s : rbst T) : nat := if rpos s =? 0 then rcap s - 1 else rpos s - 1.

(* the ToSlice loop in closed form *)
Lemma rb_loop_closed : forall s j i, 0 < rcap s -> i < rcap s -> j <= rcap s ->
  rb_loop zero s j i = map (fun t => nth ((i + rcap s - t) mod rcap s) (rbuf s) zero) (seq 0 j).
Proof.
  induction j; intros i C I J; auto.
  rewrite seq_cons_shift. cbn [rb_loop map]. f_equal.
  - f_equal. rewrite mod_case by lia. destruct (Nat.ltb_spec (i + rcap s - 0) (rcap s)); lia.
  - rewrite IHj; auto; try lia.
    + rewrite map_map. apply map_ext_in. intros t Ht. apply in_seq in Ht. f_equal.
      destruct (Nat.eqb_spec i 0).
      * subst. rewrite !mod_case by lia.
        destruct (Nat.ltb_spec (rcap s - 1 + rcap s - t) (rcap s)); destruct (Nat.ltb_spec (0 + rcap s - S t) (rcap s)); lia.
      * f_equal. lia.
    + destruct (Nat.eqb_spec i 0); lia.
Qed.

Lemma rbslice_closed : forall s, rbinv s ->
  rbslice zero s = map (fun t => nth ((rstart s + rcap s - t) mod rcap s) (rbuf s) zero) (seq 0 (rsz s)).
Proof.
  intros s (C & L & P & SZ). unfold rbslice. rewrite rb_loop_closed; auto.
  destruct (Nat.eqb_spec (rpos s) 0); lia.
Qed.

Lemma rbadd_refines : forall s x, rbinv s ->
  rbinv (rbadd s x) /\ rbslice zero (rbadd s x) = firstn (rcap s) (x :: rbslice zero s).
Proof.
  intros s x I. pose proof I as (C & L & P & SZ).
  assert (I' : rbinv (rbadd s x)).
  { unfold rbinv, rbadd. simpl. rewrite upd_length. repeat split; auto.
    - apply Nat.mod_upper_bound. lia.
    - destruct (Nat.ltb_spec (rsz s) (rcap s)); lia. }
  split; auto.
  rewrite (rbslice_closed _ I'), (rbslice_closed _ I).
  assert (ST : rstart (rbadd s x) = rpos s).
  { unfold rstart, rbadd. simpl. rewrite mod_case by lia.
    destruct (Nat.ltb_spec (rpos s + 1) (rcap s)).
    - destruct (Nat.eqb_spec (rpos s + 1) 0); lia.
    - replace (rpos s + 1 - rcap s) with 0 by lia. simpl. lia. }
  rewrite ST. cbn [rbadd rbuf rcap rsz].
  (* cells 1.. of the new listing are cells 0.. of the old one *)
  assert (TL : forall n, n < rcap s ->
    map (fun t => nth ((rpos s + rcap s - t) mod rcap s) (upd (rbuf s) (rpos s) x) zero) (seq 0 (S n)) =
    x :: map (fun t => nth ((rstart s + rcap s - t) mod rcap s) (rbuf s) zero) (seq 0 n)).
  { intros n Hn. rewrite seq_cons_shift. cbn [map]. f_equal.
    - rewrite mod_case by lia. destruct (Nat.ltb_spec (rpos s + rcap s - 0) (rcap s)); try lia.
      replace (rpos s + rcap s - 0 - rcap s) with (rpos s) by lia. apply nth_upd_eq. lia.
    - rewrite map_map. apply map_ext_in. intros t Ht. apply in_seq in Ht.
      assert (E : (rpos s + rcap s - S t) mod rcap s = (rstart s + rcap s - t) mod rcap s).
      { unfold rstart. destruct (Nat.eqb_spec (rpos s) 0) as [Z|NZ].
        - rewrite Z. rewrite !mod_case by lia.
          destruct (Nat.ltb_spec (0 + rcap s - S t) (rcap s)); destruct (Nat.ltb_spec (rcap s - 1 + rcap s - t) (rcap s)); lia.
        - f_equal. lia. }
      rewrite <- E. apply nth_upd_neq. rewrite mod_case by lia.
      destruct (Nat.ltb_spec (rpos s + rcap s - S t) (rcap s)); lia. }
  destruct (Nat.ltb_spec (rsz s) (rcap s)) as [NF|Full].
  - replace (rsz s + 1) with (S (rsz s)) by lia. rewrite TL by lia.
    rewrite firstn_all2; auto. simpl. rewrite map_length, seq_length. lia.
  - assert (rsz s = rcap s) as E by lia. rewrite E.
    destruct (rcap s) as [|c] eqn:EC; try lia.
    rewrite TL by lia. cbn [firstn]. f_equal.
    rewrite (seq_snoc c), map_app.
    assert (LN: c = length (map (fun t : nat => nth ((rstart s + S c - t) mod S c) (rbuf s) zero) (seq 0 c))).
    { rewrite map_length, seq_length. auto. }
    match goal with |- ?l1 = firstn c (?l1 ++ ?l2) =>
      transitivity (firstn (length l1) (l1 ++ l2)); [symmetry; apply firstn_app_exact | f_equal; symmetry; exact LN] end.
Qed.

Lemma rbstep_refines : forall s e, rbinv s ->
  rbinv (fst (rbstep zero s e)) /\ rbslice zero (fst (rbstep zero s e)) = fst (rbspec_step (rcap s) (rbslice zero s) e) /\
  snd (rbstep zero s e) = snd (rbspec_step (rcap s) (rbslice zero s) e) /\ rcap (fst (rbstep zero s e)) = rcap s.
Proof.
  intros s e I. pose proof I as (C & L & P & SZ). destruct e; simpl; auto.
  destruct (Nat.eqb_spec (rcap s) 0); try lia. simpl.
  destruct (rbadd_refines s e I) as [A B]. auto.
Qed.

(* C12 RingBuffer: for every capacity >= 1 and every history, ToSlice lists the last `capacity` added
   elements, newest first. *)
Theorem ring_refines_gen : forall h s, rbinv s ->
  snd (rbrun zero s h) = snd (rbspec_run (rcap s) (rbslice zero s) h) /\
  rbslice zero (fst (rbrun zero s h)) = fst (rbspec_run (rcap s) (rbslice zero s) h).
Proof.
  induction h as [|e r IH]; simpl; intros; auto.
  destruct (rbstep_refines s e H) as (A & B & C & D).
  destruct (rbstep zero s e) as [s1 x]. destruct (rbspec_step (rcap s) (rbslice zero s) e) as [l1 y]. simpl in *. subst.
  specialize (IH s1 A). rewrite D in IH.
  destruct (rbrun zero s1 r). destruct (rbspec_run (rcap s) (rbslice zero s1) r). simpl in *.
  destruct IH as (I1 & I2). subst. auto.
Qed.

Theorem ring_refines : forall cap (h : list (rbev T)), 0 < cap ->
  snd (rbrun zero (rbnew zero cap) h) = snd (rbspec_run cap [] h).
Proof.
  intros. assert (I : rbinv (rbnew zero cap)).
  { unfold rbinv. simpl. rewrite repeat_length. repeat split; auto; try lia. }
  destruct (ring_refines_gen h _ I) as (R1 & _). exact R1.
Qed.

End RingProofs.
