(* Executable models of ds/queue/queue.go (Queue), ds/ringbuffer/ringbuffer.go (RingBuffer) and
   ds/stack/{simple_stack,threadsafe_stack}.go (Stack), with their abstract specifications
   (bounded FIFO with drop / evict-oldest, overwrite-oldest ring listed newest first, LIFO).
   Slices are lists, the zero value of T is `zero`; a capacity-0 Queue/RingBuffer panics on ForceOffer/Add
   (index out of range before any field is written), which the model reports as a panic outcome. *)
From Coq Require Import List Arith Bool.
From Verif.C12a_Containers Require Import ListAux.
Import ListNotations.
Open Scope bool_scope.

Section Ring.
Variables (T : Type) (zero : T).

(* ---------------- Queue ---------------- *)
Record qst := mkQ { qbuf : list T; qrd : nat; qwr : nat; qcap : nat; qsize : nat }.

Definition qnew (cap : nat) : qst := mkQ (repeat zero cap) 0 0 cap 0.

(* poll, queue.go:80-94 *)
Definition qpoll (s : qst) : qst * option T :=
  if qsize s =? 0 then (s, None)
  else
    let e := nth (qrd s) (qbuf s) zero in
    (mkQ (upd (qbuf s) (qrd s) zero) ((qrd s + 1) mod qcap s) (qwr s) (qcap s) (qsize s - 1), Some e).

Definition qwrite (s : qst) (e : T) : qst :=
  mkQ (upd (qbuf s) (qwr s) e) (qrd s) ((qwr s + 1) mod qcap s) (qcap s) (qsize s + 1).

Inductive qev := QSize | QCapacity | QForceOffer (e : T) | QOffer (e : T) | QPoll.
Inductive qout := QONat (n : nat) | QOBool (b : bool) | QOOpt (o : option T) | QOPanic.

Definition qstep (s : qst) (e : qev) : qst * qout :=
  match e with
  | QSize => (s, QONat (qsize s))
  | QCapacity => (s, QONat (qcap s))
  | QForceOffer x =>
      if qcap s =? 0 then (s, QOPanic)
      else
        let '(s1, r) := if qsize s =? qcap s then qpoll s else (s, None) in
        (qwrite s1 x, QOOpt r)
  | QOffer x => if qsize s =? qcap s then (s, QOBool false) else (qwrite s x, QOBool true)
  | QPoll => let '(s1, r) := qpoll s in (s1, QOOpt r)
  end.

Fixpoint qrun (s : qst) (h : list qev) : qst * list qout :=
  match h with
  | [] => (s, [])
  | e :: r => let '(s1, x) := qstep s e in let '(s2, xs) := qrun s1 r in (s2, x :: xs)
  end.

(* specification: a list (oldest first) bounded by cap *)
Definition qspec_step (cap : nat) (l : list T) (e : qev) : list T * qout :=
  match e with
  | QSize => (l, QONat (length l))
  | QCapacity => (l, QONat cap)
  | QForceOffer x =>
      if cap =? 0 then (l, QOPanic)
      else if length l =? cap
      then match l with [] => (l ++ [x], QOOpt None) | o :: t => (t ++ [x], QOOpt (Some o)) end
      else (l ++ [x], QOOpt None)
  | QOffer x => if length l =? cap then (l, QOBool false) else (l ++ [x], QOBool true)
  | QPoll => match l with [] => (l, QOOpt None) | o :: t => (t, QOOpt (Some o)) end
  end.

Fixpoint qspec_run (cap : nat) (l : list T) (h : list qev) : list T * list qout :=
  match h with
  | [] => (l, [])
  | e :: r => let '(l1, x) := qspec_step cap l e in let '(l2, xs) := qspec_run cap l1 r in (l2, x :: xs)
  end.

(* ---------------- RingBuffer ---------------- *)
Record rbst := mkRB { rbuf : list T; rpos : nat; rcap : nat; rsz : nat }.

Definition rbnew (cap : nat) : rbst := mkRB (repeat zero cap) 0 cap 0.

Definition rbadd (s : rbst) (e : T) : rbst :=
  mkRB (upd (rbuf s) (rpos s) e) ((rpos s + 1) mod rcap s) (rcap s)
       (if rsz s <? rcap s then rsz s + 1 else rsz s).

(* the loop of ToSlice: j cells left, current index i *)
Fixpoint rb_loop (s : rbst) (j i : nat) : list T :=
  match j with
  | 0 => []
  | S j' => nth i (rbuf s) zero :: rb_loop s j' (if i =? 0 then rcap s - 1 else i - 1)
  end.

Definition rbslice (s : rbst) : list T :=
  rb_loop s (rsz s) (if rpos s =? 0 then rcap s - 1 else rpos s - 1).

Inductive rbev := RBAdd (e : T) | RBToSlice.
Inductive rbout := RBOBool (b : bool) | RBOList (l : list T) | RBOPanic.

Definition rbstep (s : rbst) (e : rbev) : rbst * rbout :=
  match e with
  | RBAdd x => if rcap s =? 0 then (s, RBOPanic) else (rbadd s x, RBOBool true)
  | RBToSlice => (s, RBOList (rbslice s))
  end.

Fixpoint rbrun (s : rbst) (h : list rbev) : rbst * list rbout :=
  match h with
  | [] => (s, [])
  | e :: r => let '(s1, x) := rbstep s e in let '(s2, xs) := rbrun s1 r in (s2, x :: xs)
  end.

(* specification: the last cap elements, newest first *)
Definition rbspec_step (cap : nat) (l : list T) (e : rbev) : list T * rbout :=
  match e with
  | RBAdd x => if cap =? 0 then (l, RBOPanic) else (firstn cap (x :: l), RBOBool true)
  | RBToSlice => (l, RBOList l)
  end.

Fixpoint rbspec_run (cap : nat) (l : list T) (h : list rbev) : list T * list rbout :=
  match h with
  | [] => (l, [])
  | e :: r => let '(l1, x) := rbspec_step cap l e in let '(l2, xs) := rbspec_run cap l1 r in (l2, x :: xs)
  end.

(* ---------------- Stack (simple and threadsafe: the latter only adds a mutex) ---------------- *)
Inductive sev := SPush (e : T) | SPop | SPeek | SClear | SSize | SIsEmpty.
Inductive sout := SOUnit | SOOpt (o : option T) | SONat (n : nat) | SOBool (b : bool).

(* the slice: bottom first, top = last cell *)
Definition sstep (s : list T) (e : sev) : list T * sout :=
  match e with
  | SPush x => (s ++ [x], SOUnit)
  | SPop => if length s =? 0 then (s, SOOpt None)
            else (firstn (length s - 1) s, SOOpt (Some (nth (length s - 1) s zero)))
  | SPeek => if length s =? 0 then (s, SOOpt None) else (s, SOOpt (Some (nth (length s - 1) s zero)))
  | SClear => (firstn 0 s, SOUnit)
  | SSize => (s, SONat (length s))
  | SIsEmpty => (s, SOBool (length s =? 0))
  end.

Fixpoint srun (s : list T) (h : list sev) : list T * list sout :=
  match h with
  | [] => (s, [])
  | e :: r => let '(s1, x) := sstep s e in let '(s2, xs) := srun s1 r in (s2, x :: xs)
  end.

(* specification: LIFO, top = head *)
Definition sspec_step (l : list T) (e : sev) : list T * sout :=
  match e with
  | SPush x => (x :: l, SOUnit)
  | SPop => match l with [] => (l, SOOpt None) | x :: t => (t, SOOpt (Some x)) end
  | SPeek => match l with [] => (l, SOOpt None) | x :: _ => (l, SOOpt (Some x)) end
  | SClear => ([], SOUnit)
  | SSize => (l, SONat (length l))
  | SIsEmpty => (l, SOBool (match l with [] => true | _ => false end))
  end.

Fixpoint sspec_run (l : list T) (h : list sev) : list T * list sout :=
  match h with
  | [] => (l, [])
  | e :: r => let '(l1, x) := sspec_step l e in let '(l2, xs) := sspec_run l1 r in (l2, x :: xs)
  end.

End Ring.

Arguments mkQ {T}. Arguments qbuf {T}. Arguments qrd {T}. Arguments qwr {T}. Arguments qcap {T}. Arguments qsize {T}.
Arguments qnew {T}. Arguments qpoll {T}. Arguments qwrite {T}. Arguments qstep {T}. Arguments qrun {T}.
Arguments qspec_step {T}. Arguments qspec_run {T}.
Arguments QSize {T}. Arguments QCapacity {T}. Arguments QForceOffer {T}. Arguments QOffer {T}. Arguments QPoll {T}.
Arguments QONat {T}. Arguments QOBool {T}. Arguments QOOpt {T}. Arguments QOPanic {T}.
Arguments mkRB {T}. Arguments rbuf {T}. Arguments rpos {T}. Arguments rcap {T}. Arguments rsz {T}.
Arguments rbnew {T}. Arguments rbadd {T}. Arguments rb_loop {T}. Arguments rbslice {T}. Arguments rbstep {T}.
Arguments rbrun {T}. Arguments rbspec_step {T}. Arguments rbspec_run {T}.
Arguments RBAdd {T}. Arguments RBToSlice {T}. Arguments RBOBool {T}. Arguments RBOList {T}. Arguments RBOPanic {T}.
Arguments SPush {T}. Arguments SPop {T}. Arguments SPeek {T}. Arguments SClear {T}. Arguments SSize {T}. Arguments SIsEmpty {T}.
Arguments SOUnit {T}. Arguments SOOpt {T}. Arguments SONat {T}. Arguments SOBool {T}.
Arguments sstep {T}. Arguments srun {T}. Arguments sspec_step {T}. Arguments sspec_run {T}.
