(* Small list library for the C12a container models: in-place update of a slice cell and its nth lemmas. *)
From Coq Require Import List Arith Lia Bool.
Open Scope bool_scope.
Import ListNotations.

Fixpoint upd {A} (l : list A) (i : nat) (x : A) : list A :=
  match l, i with
  | [], _ => []
  | _ :: t, 0 => x :: t
  | h :: t, S i' => h :: upd t i' x
  end.

Lemma upd_length : forall A (l : list A) i x, length (upd l i x) = length l.
Proof. induction l; destruct i; simpl; auto. Qed.

Lemma nth_upd_eq : forall A (l : list A) i x d, i < length l -> nth i (upd l i x) d = x.
Proof. induction l; destruct i; simpl; intros; try lia; auto. apply IHl. lia. Qed.

Lemma nth_upd_neq : forall A (l : list A) i j x d, i <> j -> nth j (upd l i x) d = nth j l d.
Proof. induction l; destruct i, j; simpl; intros; try lia; auto. Qed.

Lemma nth_upd : forall A (l : list A) i j x d,
  nth j (upd l i x) d = if (i =? j) && (i <? length l) then x else nth j l d.
Proof.
  intros. destruct (Nat.eqb_spec i j).
  - subst. destruct (Nat.ltb_spec j (length l)); simpl.
    + apply nth_upd_eq; auto.
    + rewrite !nth_overflow; auto. rewrite upd_length. auto.
  - simpl. apply nth_upd_neq; auto.
Qed.

Lemma upd_oob : forall A (l : list A) i x, length l <= i -> upd l i x = l.
Proof. induction l; destruct i; simpl; intros; auto; try lia. f_equal. apply IHl. lia. Qed.

Lemma upd_app_l : forall A (l r : list A) i x, i < length l -> upd (l ++ r) i x = upd l i x ++ r.
Proof. induction l; destruct i; simpl; intros; try lia; auto. f_equal. apply IHl. lia. Qed.

Lemma removelast_length : forall A (l : list A), length (removelast l) = length l - 1.
Proof. induction l; simpl; auto. destruct l; simpl in *; auto. lia. Qed.

Lemma nth_removelast : forall A (l : list A) i d, i < length l - 1 -> nth i (removelast l) d = nth i l d.
Proof.
  induction l; intros; simpl in *; try lia.
  destruct l; simpl in *; try lia. destruct i; auto. apply IHl. simpl. lia.
Qed.

Lemma list_ext : forall A (l1 l2 : list A) d, length l1 = length l2 ->
  (forall i, i < length l1 -> nth i l1 d = nth i l2 d) -> l1 = l2.
Proof.
  induction l1; destruct l2; simpl; intros; try lia; auto.
  f_equal. apply (H0 0); lia. apply IHl1 with d; auto. intros. apply (H0 (S i)). lia.
Qed.
