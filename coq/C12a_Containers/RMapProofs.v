(* RandomMap: the dense key slice / back-index invariant holds in every reachable state; random picks are
   members for every index the PRNG can return; RandomUniqueEntries returns min(n, size) entries of distinct keys
   for every permutation; the deterministic operations are those of a plain map. *)
From Coq Require Import List ZArith Bool Arith Lia Permutation.
From Verif.C12a_Containers Require Import ListAux SMap SMapProofs RMap.
Import ListNotations.
Open Scope bool_scope.

Arguments uniq {K V}.

Lemma In_firstn : forall A n (l : list A) x, In x (firstn n l) -> In x l.
Proof. intros A n l. revert n. induction l; destruct n; simpl; intros; auto; try contradiction. destruct H; eauto. Qed.

Lemma NoDup_firstn : forall A n (l : list A), NoDup l -> NoDup (firstn n l).
Proof.
  intros A n l. revert n. induction l; destruct n; simpl; intros; try constructor.
  - inversion H; subst. intro. apply H2. eapply In_firstn. eauto.
  - inversion H; subst. auto.
Qed.

Section RMapProofs.
Variables (K V : Type) (keqb : K -> K -> bool) (kzero : K).
Hypothesis keqb_spec : forall a b, keqb a b = true <-> a = b.

Notation E := (entry V).
Notation findE := (@SMap.find K E keqb).
Notation putE := (@SMap.put K E keqb).
Notation delE := (@SMap.del K E keqb).
Notation findV := (@SMap.find K V keqb).

Let krefl := keqb_refl K keqb keqb_spec.
Let kneq := keqb_neq K keqb keqb_spec.

Lemma keqb_sym_false : forall a b, keqb a b = false -> keqb b a = false.
Proof.
  intros. destruct (keqb b a) eqn:E1; auto. apply keqb_spec in E1. subst. rewrite krefl in H. discriminate.
Qed.

Lemma put_length : forall A k (e : A) (l : list (K * A)),
  length (SMap.put keqb k e l) = match SMap.find keqb k l with Some _ => length l | None => S (length l) end.
Proof.
  induction l as [|[k' e'] t]; simpl; auto.
  destruct (keqb k k'); simpl; auto. rewrite IHt. destruct (SMap.find keqb k t); auto.
Qed.

Lemma del_length : forall A k (l : list (K * A)),
  length (SMap.del keqb k l) = match SMap.find keqb k l with Some _ => length l - 1 | None => length l end.
Proof.
  induction l as [|[k' e'] t]; simpl; auto.
  destruct (keqb k k'); simpl; try lia. rewrite IHt. destruct (SMap.find keqb k t) eqn:F; auto.
  destruct t; simpl in *; try discriminate. lia.
Qed.

(* ---------- the representation invariant ---------- *)
Definition rinv (s : rst K V) : Prop :=
  uniq (m (raw s)) /\ length (keys s) = length (m (raw s)) /\
  (forall i, i < length (keys s) -> exists v, findE (nth i (keys s) kzero) (m (raw s)) = Some (v, i)) /\
  (forall k v i, findE k (m (raw s)) = Some (v, i) -> i < length (keys s) /\ nth i (keys s) kzero = k).

Lemma rinv_new : rinv rnew.
Proof.
  unfold rinv, rnew. simpl. repeat split; try constructor; intros; try lia; discriminate.
Qed.

Lemma rinv_nodup : forall s, rinv s -> NoDup (keys s).
Proof.
  intros s (U & L & A & B). apply (NoDup_nth (keys s) kzero). intros i j Hi Hj EQ.
  destruct (A i Hi) as [vi Fi]. destruct (A j Hj) as [vj Fj]. rewrite EQ in Fi. rewrite Fi in Fj.
  inversion Fj. auto.
Qed.

Lemma rset_inv : forall s k v, rinv s -> rinv (rset keqb k v s).
Proof.
  intros s k v (U & L & A & B). unfold rset.
  destruct (findE k (m (raw s))) as [[v0 i0]|] eqn:F; unfold rinv, poke; simpl.
  - split; [apply put_uniq; auto|]. split; [rewrite put_length, F; auto|]. split.
    + intros j Hj. destruct (A j Hj) as [vj Fj]. rewrite (find_put K E keqb keqb_spec).
      destruct (keqb (nth j (keys s) kzero) k) eqn:EQ; eauto.
      apply keqb_spec in EQ. rewrite EQ in Fj. rewrite F in Fj. inversion Fj. subst. eauto.
    + intros k' v' i'. rewrite (find_put K E keqb keqb_spec).
      destruct (keqb k' k) eqn:EQ; intros H; [|apply B in H; auto].
      apply keqb_spec in EQ. subst. inversion H; subst. apply B in F. auto.
  - assert (N: ~ In k (map fst (m (raw s)))) by (apply (find_none_notin K E keqb keqb_spec); auto).
    split; [apply put_uniq; auto|]. split; [rewrite put_length, F, app_length; simpl; lia|]. split.
    + intros j Hj. rewrite app_length in Hj. simpl in Hj. rewrite (find_put K E keqb keqb_spec).
      destruct (Nat.eq_dec j (length (keys s))) as [EJ|NJ].
      * subst. rewrite app_nth2, Nat.sub_diag by lia. simpl. rewrite krefl. unfold rsize, size. rewrite L. eauto.
      * rewrite app_nth1 by lia. destruct (A j) as [vj Fj]; try lia.
        destruct (keqb (nth j (keys s) kzero) k) eqn:EQ; eauto.
        apply keqb_spec in EQ. rewrite EQ in Fj. rewrite F in Fj. discriminate.
    + intros k' v' i'. rewrite (find_put K E keqb keqb_spec), app_length. simpl.
      destruct (keqb k' k) eqn:EQ; intros H.
      * apply keqb_spec in EQ. subst. inversion H; subst. unfold rsize, size. rewrite L.
        split; try lia. rewrite <- L. rewrite app_nth2, Nat.sub_diag by lia. auto.
      * apply B in H. destruct H. split; try lia. rewrite app_nth1 by lia. auto.
Qed.

Lemma keys2_nth : forall (ks : list K) old mk i, old < length ks -> i < length ks - 1 ->
  nth i (removelast (upd (upd ks old mk) (length ks - 1) kzero)) kzero = if old =? i then mk else nth i ks kzero.
Proof.
  intros. rewrite nth_removelast by (rewrite !upd_length; lia).
  rewrite nth_upd_neq by lia. rewrite nth_upd.
  destruct (Nat.eqb_spec old i); simpl; auto. destruct (Nat.ltb_spec old (length ks)); auto; lia.
Qed.

Lemma rdelete_inv : forall o s k, rinv s -> rinv (fst (rdelete keqb kzero o k s)).
Proof.
  intros o s k I. pose proof I as (U & L & A & B).
  unfold rdelete. destruct (findE k (m (raw s))) as [[v old]|] eqn:F; [|simpl; auto].
  destruct (B _ _ _ F) as [Hold Kold].
  destruct (Nat.eqb_spec old (length (keys s))) as [|NE]; [lia|].
  destruct (A (length (keys s) - 1)) as [mv Fm]; [lia|].
  rewrite Fm. cbv iota beta zeta.
  remember (nth (length (keys s) - 1) (keys s) kzero) as mk.
  remember (length (keys s)) as n.
  assert (U1 : uniq (m (poke keqb mk (mv, old) (raw s)))) by (apply put_uniq; auto).
  destruct (delete_plain K E keqb keqb_spec o k _ U1) as [DM _].
  destruct (delete keqb o k (poke keqb mk (mv, old) (raw s))) as [raw2 d]. simpl in DM. simpl.
  assert (MK : keqb mk k = true -> old = n - 1).
  { intros EQ. apply keqb_spec in EQ. subst mk. rewrite EQ in Fm. rewrite F in Fm. inversion Fm. auto. }
  assert (FD : forall k', findE k' (m raw2) =
           if keqb k' k then None else if keqb k' mk then Some (mv, old) else findE k' (m (raw s))).
  { intros. rewrite DM. rewrite (find_del K E keqb keqb_spec) by auto.
    rewrite (find_put K E keqb keqb_spec). auto. }
  unfold rinv. simpl. split; [rewrite DM; apply del_uniq; auto|]. split; [|split].
  - rewrite removelast_length, !upd_length, DM, del_length, (find_put K E keqb keqb_spec), put_length, Fm.
    destruct (keqb k mk); [lia|]. rewrite F. lia.
  - intros i Hi. rewrite removelast_length, !upd_length in Hi. rewrite Heqn, keys2_nth by lia.
    rewrite FD. destruct (Nat.eqb_spec old i).
    + subst i. destruct (keqb mk k) eqn:EQ; [specialize (MK eq_refl); lia|]. rewrite krefl. eauto.
    + destruct (A i) as [vi Fi]; [lia|].
      destruct (keqb (nth i (keys s) kzero) k) eqn:EQ1.
      { apply keqb_spec in EQ1. rewrite EQ1 in Fi. rewrite F in Fi. inversion Fi. lia. }
      destruct (keqb (nth i (keys s) kzero) mk) eqn:EQ2; eauto.
      apply keqb_spec in EQ2. rewrite EQ2 in Fi. rewrite Fm in Fi. inversion Fi. lia.
  - intros k' v' i'. rewrite FD. rewrite removelast_length, !upd_length.
    destruct (keqb k' k) eqn:EQ1; [discriminate|].
    destruct (keqb k' mk) eqn:EQ2; intros H.
    + inversion H; subst v' i'. apply keqb_spec in EQ2. subst k'.
      assert (old <> n - 1).
      { intro. subst old. rewrite <- Heqmk in Kold. subst k. rewrite krefl in EQ1. discriminate. }
      split; try lia. rewrite Heqn, keys2_nth by lia. rewrite Nat.eqb_refl. auto.
    + apply B in H. destruct H as [H1 H2].
      assert (i' <> n - 1). { intro. subst i'. rewrite <- Heqmk in H2. subst k'. rewrite krefl in EQ2. discriminate. }
      assert (i' <> old). { intro. subst i'. rewrite Kold in H2. subst k'. rewrite krefl in EQ1. discriminate. }
      split; try lia. rewrite Heqn, keys2_nth by lia.
      destruct (Nat.eqb_spec old i'); try lia. auto.
Qed.

Lemma rstep_inv : forall o s e, rinv s -> rinv (fst (rstep keqb kzero o s e)).
Proof.
  intros o s e I. destruct e; simpl; auto.
  - apply rset_inv; auto.
  - pose proof (rdelete_inv o s k I). destruct (rdelete keqb kzero o k s). auto.
  - destruct (keys s); auto. destruct (nth_error (k :: l) i); auto.
  - destruct (rsize s =? 0); auto. destruct (nth_error (keys s) i); auto.
  - destruct (count <? 1)%Z; auto. destruct (Z.of_nat (rsize s) <=? count)%Z; auto.
Qed.

(* the dense-keys / back-index invariant holds in every reachable state, for every option setting *)
Theorem rm_reachable_inv_gen : forall o h s, rinv s -> rinv (fst (rrun keqb kzero o s h)).
Proof.
  induction h as [|e r IH]; simpl; intros; auto.
  pose proof (rstep_inv o s e H). destruct (rstep keqb kzero o s e) as [s1 x]. simpl in *.
  specialize (IH s1 H0). destruct (rrun keqb kzero o s1 r). auto.
Qed.

Theorem rm_reachable_inv : forall o h, rinv (fst (rrun keqb kzero o rnew h)).
Proof. intros. apply rm_reachable_inv_gen. apply rinv_new. Qed.

(* RandomKey / RandomEntry: for every index the PRNG can return (i < size) the pick is a member *)
Theorem random_key_member : forall o s i, rinv s -> i < rsize s ->
  exists k v j, snd (rstep keqb kzero o s (RRandomKey i)) = ROKey (Some k) /\ findE k (m (raw s)) = Some (v, j).
Proof.
  intros o s i (U & L & A & B) Hi. unfold rsize, size in Hi. rewrite <- L in Hi.
  destruct (A i Hi) as [v Fv]. simpl.
  destruct (keys s) as [|k0 l] eqn:EK; [simpl in Hi; lia|]. rewrite <- EK in *.
  rewrite (nth_error_nth' (keys s) kzero Hi). simpl. eauto.
Qed.

Theorem random_entry_member : forall o s i, rinv s -> i < rsize s ->
  exists k v j, snd (rstep keqb kzero o s (RRandomEntry i)) = ROGet (Some v) /\ findE k (m (raw s)) = Some (v, j).
Proof.
  intros o s i (U & L & A & B) Hi. simpl.
  destruct (Nat.eqb_spec (rsize s) 0); [lia|].
  unfold rsize, size in Hi. rewrite <- L in Hi. destruct (A i Hi) as [v Fv].
  rewrite (nth_error_nth' (keys s) kzero Hi). rewrite Fv. simpl. eauto.
Qed.

Theorem random_pick_empty : forall o s i, rinv s -> rsize s = 0 ->
  snd (rstep keqb kzero o s (RRandomKey i)) = ROKey None /\ snd (rstep keqb kzero o s (RRandomEntry i)) = ROGet None.
Proof.
  intros o s i (U & L & A & B) Hz. unfold rsize, size in *. simpl.
  destruct (keys s); [|simpl in L; lia]. unfold rsize, size. rewrite Hz. auto.
Qed.

(* ---------- RandomUniqueEntries ---------- *)
Definition picks_ok (s : rst K V) (n : nat) (kvs : list (K * V)) : Prop :=
  NoDup (map fst kvs) /\ length kvs = Nat.min n (rsize s) /\
  forall k v, In (k, v) kvs -> exists j, findE k (m (raw s)) = Some (v, j).

Lemma NoDup_snoc : forall A (l : list A) x, NoDup l -> ~ In x l -> NoDup (l ++ [x]).
Proof.
  intros. apply Permutation_NoDup with (x :: l). apply Permutation_cons_append. constructor; auto.
Qed.

Lemma rue_loop_spec : forall s, rinv s -> forall perm acc c,
  (forall i, In i perm -> i < length (keys s)) -> NoDup perm ->
  (forall i k v, In i perm -> In (k, v) acc -> nth i (keys s) kzero <> k) ->
  NoDup (map fst acc) ->
  (forall k v, In (k, v) acc -> exists j, findE k (m (raw s)) = Some (v, j)) ->
  length acc <= c ->
  let r := rue_loop keqb kzero s perm c acc in
  NoDup (map fst r) /\ (forall k v, In (k, v) r -> exists j, findE k (m (raw s)) = Some (v, j)) /\
  length r = Nat.min c (length acc + length perm).
Proof.
  intros s I. pose proof I as (U & L & A & B). pose proof (rinv_nodup s I) as NDK.
  induction perm as [|i r IH]; intros acc c Hlt NDP Fresh NDA Mem Len; simpl.
  - repeat split; auto. lia.
  - destruct (Nat.leb_spec c (length acc)).
    + repeat split; auto. lia.
    + destruct (A i) as [v Fv]; [apply Hlt; simpl; auto|]. rewrite Fv.
      inversion NDP; subst.
      destruct (IH (acc ++ [(nth i (keys s) kzero, v)]) c) as (R1 & R2 & R3).
      * intros. apply Hlt. simpl. auto.
      * auto.
      * intros i' k' v' Hi' Hin. apply in_app_or in Hin. destruct Hin as [Hin|Hin].
        { eapply Fresh; simpl; eauto. }
        { simpl in Hin. destruct Hin as [Hin|[]]. inversion Hin; subst. intro EQ.
          assert (i' = i).
          { apply (proj1 (NoDup_nth (keys s) kzero) NDK); auto; apply Hlt; simpl; auto. }
          subst. contradiction. }
      * rewrite map_app. simpl. apply NoDup_snoc; auto. intro Hin. apply in_map_iff in Hin.
        destruct Hin as [[k' v'] [E1 E2]]. simpl in E1. subst k'.
        apply (Fresh i (nth i (keys s) kzero) v'); simpl; auto.
      * intros k' v' Hin. apply in_app_or in Hin. destruct Hin as [Hin|Hin]; auto.
        simpl in Hin. destruct Hin as [Hin|[]]. inversion Hin; subst. eauto.
      * rewrite app_length. simpl. lia.
      * repeat split; auto. rewrite R3, app_length. simpl. lia.
Qed.

Lemma in_uniq_find : forall A (l : list (K * A)) k a, uniq l -> In (k, a) l -> SMap.find keqb k l = Some a.
Proof.
  induction l as [|[k' a'] t]; simpl; intros; try contradiction.
  inversion H; subst. destruct H0 as [H0|H0].
  - inversion H0; subst. rewrite krefl. auto.
  - destruct (keqb k k') eqn:EQ; auto.
    apply keqb_spec in EQ. subst. exfalso. apply H3. apply in_map_iff. exists (k', a). auto.
Qed.

(* C12 RandomMap: RandomUniqueEntries(count) returns min(count, size) entries of distinct keys, all members,
   for every permutation rand.Perm can return (and all entries when count >= size) *)
Theorem random_unique_entries : forall o s count perm, rinv s ->
  Permutation perm (seq 0 (length (keys s))) ->
  exists kvs, picks_ok s (Z.to_nat count) kvs /\
    (snd (rstep keqb kzero o s (RRandomUniqueEntries count perm)) = ROValsSeq (map snd kvs) \/
     snd (rstep keqb kzero o s (RRandomUniqueEntries count perm)) = ROValsSet (map snd kvs)).
Proof.
  intros o s count perm I P. pose proof I as (U & L & A & B). simpl.
  destruct (Z.ltb_spec count 1).
  - exists []. split; auto. unfold picks_ok. simpl. replace (Z.to_nat count) with 0 by lia.
    repeat split; try constructor. intros. contradiction.
  - destruct (Z.leb_spec (Z.of_nat (rsize s)) count).
    + exists (rentries s). split.
      * unfold picks_ok, rentries. rewrite map_map, map_length. simpl. repeat split; auto.
        { change (length (m (raw s))) with (rsize s). lia. }
        { intros k v Hin. apply in_map_iff in Hin. destruct Hin as [[k' [v' j]] [E1 E2]]. simpl in E1.
          inversion E1; subst. exists j. apply in_uniq_find; auto. }
      * right. simpl. unfold rvalues, rentries. rewrite map_map. auto.
    + destruct (rue_loop_spec s I perm [] (Z.to_nat count)) as (R1 & R2 & R3); simpl; auto; try lia.
      * intros i Hi. eapply Permutation_in in Hi; eauto. apply in_seq in Hi. lia.
      * eapply Permutation_NoDup; [apply Permutation_sym; eauto|apply seq_NoDup].
      * constructor.
      * exists (rue_loop keqb kzero s perm (Z.to_nat count) []). split; auto.
        unfold picks_ok. repeat split; auto. rewrite R3. simpl.
        rewrite (Permutation_length P), seq_length. unfold rsize, size. rewrite L. auto.
Qed.

(* ---------- the deterministic operations are those of a plain map (projection of the entries) ---------- *)
Lemma find_rentries : forall s k,
  findV k (rentries s) = match findE k (m (raw s)) with Some (v, _) => Some v | None => None end.
Proof.
  intros s k. unfold rentries. induction (m (raw s)) as [|[k' [v' j]] t]; simpl; auto.
  destruct (keqb k k'); auto.
Qed.

Lemma rentries_put : forall k v j (l : list (K * E)),
  map (fun kv : K * E => (fst kv, fst (snd kv))) (putE k (v, j) l) =
  SMap.put keqb k v (map (fun kv : K * E => (fst kv, fst (snd kv))) l).
Proof.
  induction l as [|[k' [v' j']] t]; simpl; auto. destruct (keqb k k'); simpl; auto. f_equal. auto.
Qed.

Lemma rentries_del : forall k (l : list (K * E)),
  map (fun kv : K * E => (fst kv, fst (snd kv))) (delE k l) =
  SMap.del keqb k (map (fun kv : K * E => (fst kv, fst (snd kv))) l).
Proof.
  induction l as [|[k' [v' j']] t]; simpl; auto. destruct (keqb k k'); simpl; auto. f_equal. auto.
Qed.

(* Set and Delete act on the projected contents exactly like a plain map; Get/Has/Size read it *)
Theorem rm_set_plain : forall (s : rst K V) k v, rentries (rset keqb k v s) = SMap.put keqb k v (rentries s).
Proof.
  intros. unfold rset, rentries.
  destruct (findE k (m (raw s))) as [[v0 i0]|]; simpl; apply rentries_put.
Qed.

Theorem rm_delete_plain : forall o s k, rinv s ->
  rentries (fst (rdelete keqb kzero o k s)) = SMap.del keqb k (rentries s) /\
  snd (rdelete keqb kzero o k s) = match findV k (rentries s) with Some v => Some (v, true) | None => None end.
Proof.
  intros o s k I. pose proof I as (U & L & A & B). rewrite find_rentries. unfold rdelete.
  destruct (findE k (m (raw s))) as [[v old]|] eqn:F.
  - destruct (B _ _ _ F) as [Hold Kold].
    destruct (Nat.eqb_spec old (length (keys s))) as [|NE]; [lia|].
    destruct (A (length (keys s) - 1)) as [mv Fm]; [lia|]. rewrite Fm. cbv iota beta zeta.
    remember (nth (length (keys s) - 1) (keys s) kzero) as mk.
    assert (U1 : uniq (m (poke keqb mk (mv, old) (raw s)))) by (apply put_uniq; auto).
    destruct (delete_plain K E keqb keqb_spec o k _ U1) as [DM DB].
    destruct (delete keqb o k (poke keqb mk (mv, old) (raw s))) as [raw2 d]. simpl in DM, DB. simpl.
    split.
    + unfold rentries. simpl. rewrite DM, rentries_del, rentries_put. f_equal.
      (* re-writing the moved entry with its own value does not change the projected map *)
      clear - Fm keqb_spec. induction (m (raw s)) as [|[k' [v' j']] t]; simpl in *; try discriminate.
      destruct (keqb mk k') eqn:EQ; simpl.
      * apply keqb_spec in EQ. subst. inversion Fm; subst. auto.
      * f_equal. auto.
    + rewrite DB. rewrite (find_put K E keqb keqb_spec). destruct (keqb k mk); auto. rewrite F. auto.
  - simpl. split; auto. unfold rentries. rewrite <- rentries_del. f_equal.
    symmetry. apply (del_notfound K E keqb); auto.
Qed.

End RMapProofs.

(* the invariant is not vacuous: a delete of a middle key moves the last key into the hole *)
Example rm_swap_delete :
  let h := [RSet 0 10%Z; RSet 1 11%Z; RSet 2 12%Z; RDelete 0] in
  keys (fst (rrun Nat.eqb 0 (mkOpts 1 2 2) rnew h)) = [2; 1] /\
  m (raw (fst (rrun Nat.eqb 0 (mkOpts 1 2 2) rnew h))) = [(1, (11%Z, 1)); (2, (12%Z, 0))].
Proof. vm_compute. auto. Qed.
