(* RandomMap: the dense key slice / back-index invariant holds in every reachable state; random picks are
   members for every index the PRNG can return; RandomUniqueEntries returns min(n, size) entries of distinct keys
   for every permutation; the deterministic operations are those of a plain map. *)
From Coq Require Import List ZArith Bool Arith Lia Permutation.
From Verif.C12a_Containers Require Import ListAux SMap SMapProofs RMap.
Import ListNotations.
Open Scope bool_scope.

Arguments uniq {K V}.

Lemma In_firstn : forall A n (l : list A) x, In x (firstn n l) -> In x l.
Proof. intros A n l. revert n. induction l; destruct n; simpl; intros; auto; try contradiction. destruct H; eauto. Qed.

Lemma NoDup_firstn : forall A n (l : list A), NoDup l -> NoDup (firstn n l).
Proof.
  intros A n l. revert n. induction l; destruct n; simpl; intros; try constructor.
  - inversion H; subst. intro. apply H2. eapply In_firstn. eauto.
  - inversion H; subst. auto.
Qed.

Section RMapProofs.
Variables (K V : Type) (keqb : K -> K -> bool) (kzero : K).
Hypothesis keqb_spec : forall a b, keqb a b = true <-> a = b.

Notation E := (entry V).
Notation findE := (@SMap.find K E keqb).
Notation putE := (@SMap.put K E keqb).
Notation delE := (@SMap.del K E keqb).
Notation findV := (@SMap.find K V keqb).

Let krefl := keqb_refl K keqb keqb_spec.
Let kneq := keqb_neq K keqb keqb_spec.

Lemma keqb_sym_false : forall a b, keqb a b = false -> keqb b a = false.
Proof.
  intros. destruct (keqb b a) eqn:E1; auto. apply keqb_spec in E1. subst. rewrite krefl in H. discriminate.
Qed.

Lemma put_length : forall A k (e : A) (l : list (K * A)),
  length (SMap.put keqb k e l) = match SMap.find keqb k l with Some _ => length l | None => S (length l) end.
Proof.
  induction l as [|[k' e'] t]; simpl; auto.
  destruct (keqb k k'); simpl; auto. rewrite IHt. destruct (SMap.find keqb k t); auto.
Qed.

Lemma del_length : forall A k (l : list (K * A)),
  length (SMap.del keqb k l) = match SMap.find keqb k l with Some _ => length l - 1 | None => length l end.
Proof.
  induction l as [|[k' e'] t]; simpl; auto.
  destruct (keqb k k'); simpl; try lia. rewrite IHt. destruct (SMap.find keqb k t) eqn:F; auto.
  destruct t; simpl in *; try discriminate. lia.
Qed.

(* ---------- the representation invariant ---------- *)
Definition rinv (s : rst K V) : Prop :=
  uniq (m (raw s)) /\ length (keys s) = length (m (raw s)) /\
  (forall i, i < length (keys s) -> exists v, findE (nth i (keys s) kzero) (m (raw s)) = Some (v, i)) /\
  (forall k v i, findE k (m (raw s)) = Some (v, i) -> i < length (keys s) /\ nth i (keys s) kzero = k).

Lemma rinv_new : rinv rnew.
Proof.
  unfold rinv, rnew. simpl. repeat split; try constructor; intros; try lia; discriminate.
Qed.

Lemma rinv_nodup : forall s, rinv s -> NoDup (keys s).
Proof.
  intros s (U & L & A & B). apply (NoDup_nth (keys s) kzero). intros i j Hi Hj EQ.
  destruct (A i Hi) as [vi Fi]. destruct (A j Hj) as [vj Fj]. rewrite EQ in Fi. rewrite Fi in Fj.
  inversion Fj. auto.
Qed.

Lemma rset_inv : forall s k v, rinv s -> rinv (rset keqb k v s).
Proof.
  intros s k v (U & L & A & B). unfold rset.
  destruct (findE k (m (raw s))) as [[v0 i0]|] eqn:F; unfold rinv, poke; simpl.
  - split; [apply put_uniq; auto|]. split; [rewrite put_length, F; auto|]. split.
    + intros j Hj. destruct (A j Hj) as [vj Fj]. rewrite (find_put K E keqb keqb_spec).
      destruct (keqb (nth j (keys s) kzero) k) eqn:EQ; eauto.
      apply keqb_spec in EQ. rewrite EQ in Fj. rewrite F in Fj. inversion Fj. subst. eauto.
    + intros k' v' i'. rewrite (find_put K E keqb keqb_spec).
      destruct (keqb k' k) eqn:EQ; intros H; [|apply B in H; auto].
      apply keqb_spec in EQ. subst. inversion H; subst. apply B in F. auto.
  - assert (N: ~ In k (map fst (m (raw s)))) by (apply (find_none_notin K E keqb keqb_spec); auto).
    split; [apply put_uniq; auto|]. split; [rewrite put_length, F, app_length; simpl; lia|]. split.
    + intros j Hj. rewrite app_length in Hj. simpl in Hj. rewrite (find_put K E keqb keqb_spec).
      destruct (Nat.eq_dec j (length (keys s))) as [EJ|NJ].
      * subst. rewrite app_nth2, Nat.sub_diag by lia. simpl. rewrite krefl. unfold rsize, size. rewrite L. eauto.
      * rewrite app_nth1 by lia. destruct (A j) as [vj Fj]; try lia.
        destruct (keqb (nth j (keys s) kzero) k) eqn:EQ; eauto.
        apply keqb_spec in EQ. rewrite EQ in Fj. rewrite F in Fj. discriminate.
    + intros k' v' i'. rewrite (find_put K E keqb keqb_spec), app_length. simpl.
      destruct (keqb k' k) eqn:EQ; intros H.
      * apply keqb_spec in EQ. subst. inversion H; subst. unfold rsize, size. rewrite L.
        split; try lia. rewrite <- L. rewrite app_nth2, Nat.sub_diag by lia. auto.
      * apply B in H. destruct H. split; try lia. rewrite app_nth1 by lia. auto.
Qed.

Lemma keys2_nth : forall (ks : list K) old mk i, old < length ks -> i < length ks - 1 ->
  nth i (removelast (upd (upd ks old mk) (length ks - 1) kzero)) kzero = if old =? i then mk else nth i ks kzero.
Proof.
  intros. rewrite nth_removelast by (rewrite !upd_length; lia).
  rewrite nth_upd_neq by lia. rewrite nth_upd.
  destruct (Nat.eqb_spec old i); simpl; auto. destruct (Nat.ltb_spec old (length ks)); auto; lia.
Qed.

Lemma rdelete_inv : forall o s k, rinv s -> rinv (fst (rdelete keqb kzero o k s)).
Proof.
  intros o s k I. pose proof I as (U & L & A & B).
  unfold rdelete. destruct (findE k (m (raw s))) as [[v old]|] eqn:F; [|simpl; auto].
  destruct (B _ _ _ F) as [Hold Kold].
  destruct (Nat.eqb_spec old (length (keys s))) as [|NE]; [lia|].
  destruct (A (length (keys s) - 1)) as [mv Fm]; [lia|].
  rewrite Fm. cbv iota beta zeta.
  remember (nth (length (keys s) - 1) (keys s) kzero) as mk.
  remember (length (keys s)) as n.
  assert (U1 : uniq (m (poke keqb mk (mv, old) (raw s)))) by (apply put_uniq; auto).
  destruct (delete_plain K E keqb keqb_spec o k _ U1) as [DM _].
  destruct (delete keqb o k (poke keqb mk (mv, old) (raw s))) as [raw2 d]. simpl in DM. simpl.
  assert (MK : keqb mk k = true -> old = n - 1).
  { intros EQ. apply keqb_spec in EQ. subst mk. rewrite EQ in Fm. rewrite F in Fm. inversion Fm. auto. }
  assert (FD : forall k', findE k' (m raw2) =
           if keqb k' k then None else if keqb k' mk then Some (mv, old) else findE k' (m (raw s))).
  { intros. rewrite DM. rewrite (find_del K E keqb keqb_spec) by auto.
    rewrite (find_put K E keqb keqb_spec). auto. }
  unfold rinv. simpl. split; [rewrite DM; apply del_uniq; auto|]. split; [|split].
  - rewrite removelast_length, !upd_length, DM, del_length, (find_put K E keqb keqb_spec), put_length, Fm.
    destruct (keqb k mk); [lia|]. rewrite F. lia.
  - intros i Hi. rewrite removelast_length, !upd_length in Hi. rewrite Heqn, keys2_nth by lia.
    rewrite FD. destruct (Nat.eqb_spec old i).
    + subst i. destruct (keqb mk k) eqn:EQ; [apply MK in EQ; lia|]. rewrite krefl. eauto.
    + destruct (A i) as [vi Fi]; [lia|].
      destruct (keqb (nth i (keys s) kzero) k) eqn:EQ1.
      { apply keqb_spec in EQ1. rewrite EQ1 in Fi. rewrite F in Fi. inversion Fi. lia. }
      destruct (keqb (nth i (keys s) kzero) mk) eqn:EQ2; eauto.
      apply keqb_spec in EQ2. rewrite EQ2 in Fi. rewrite Fm in Fi. inversion Fi. lia.
  - intros k' v' i'. rewrite FD. rewrite removelast_length, !upd_length.
    destruct (keqb k' k) eqn:EQ1; [discriminate|].
    destruct (keqb k' mk) eqn:EQ2; intros H.
    + inversion H; subst v' i'. apply keqb_spec in EQ2. subst k'.
      assert (old <> n - 1).
      { intro. subst old. rewrite <- Heqmk in Kold. subst k. rewrite krefl in EQ1. discriminate. }
      split; try lia. rewrite Heqn, keys2_nth by lia. rewrite Nat.eqb_refl. auto.
    + apply B in H. destruct H as [H1 H2].
      assert (i' <> n - 1). { intro. subst i'. rewrite <- Heqmk in H2. subst k'. rewrite krefl in EQ2. discriminate. }
      assert (i' <> old). { intro. subst i'. rewrite Kold in H2. subst k'. rewrite krefl in EQ1. discriminate. }
      split; try lia. rewrite Heqn, keys2_nth by lia.
      destruct (Nat.eqb_spec old i'); try lia. auto.
Qed.
