(* C12b - BytesFilter refines "the window of the last N accepted (distinct) identifiers". *)
From Coq Require Import Arith List Bool Lia.
From Verif.C12b_Containers Require Import BytesFilter.
Import ListNotations.

Lemma mem_In : forall x l, mem x l = true <-> In x l.
Proof.
  unfold mem; intros; rewrite existsb_exists; split.
  - intros [y [H1 H2]]. apply Nat.eqb_eq in H2; subst; auto.
  - intros H; exists x; split; auto. apply Nat.eqb_refl.
Qed.

Lemma mem_app : forall x a b, mem x (a ++ b) = mem x a || mem x b.
Proof. intros; unfold mem; apply existsb_app. Qed.

Lemma mem_del : forall y x l, mem y (del x l) = mem y l && negb (x =? y).
Proof.
  induction l; simpl; auto.
  destruct (x =? a) eqn:E; simpl.
  - rewrite IHl. apply Nat.eqb_eq in E; subst a.
    destruct (y =? x) eqn:F; simpl; auto.
    apply Nat.eqb_eq in F; subst. rewrite Nat.eqb_refl; simpl. rewrite andb_false_r; auto.
  - rewrite IHl. destruct (y =? a) eqn:F; simpl; auto.
    apply Nat.eqb_eq in F; subst. rewrite E; auto.
Qed.

Lemma lastn_short : forall {A} n (l : list A), length l <= n -> lastn n l = l.
Proof. intros; unfold lastn. replace (length l - n) with 0 by lia; auto. Qed.

Lemma lastn_length : forall {A} n (l : list A), length (lastn n l) = min n (length l).
Proof. intros; unfold lastn; rewrite skipn_length; lia. Qed.

Lemma skipn_1_skipn : forall {A} k (l : list A), skipn (1 + k) l = skipn 1 (skipn k l).
Proof. induction k; intros; simpl; auto. destruct l; simpl; auto. apply (IHk l). Qed.

Lemma lastn_snoc : forall {A} n (a : list A) x, 1 <= n -> lastn n (lastn n a ++ [x]) = lastn n (a ++ [x]).
Proof.
  intros A n a x Hn. destruct (le_lt_dec (length a) n) as [H|H].
  - rewrite (lastn_short n a) by auto; auto.
  - unfold lastn. rewrite !app_length, skipn_length. simpl.
    replace (length a - (length a - n) + 1 - n) with 1 by lia.
    replace (length a + 1 - n) with (1 + (length a - n)) by lia.
    rewrite (skipn_1_skipn (length a - n) (a ++ [x])). f_equal. rewrite skipn_app.
    replace (length a - n - length a) with 0 by lia. auto.
Qed.

Lemma In_lastn : forall {A} n (l : list A) x, In x (lastn n l) -> In x l.
Proof. unfold lastn; intros. rewrite <- (firstn_skipn (length l - n) l). apply in_or_app; auto. Qed.

Lemma NoDup_snoc : forall (l : list nat) x, NoDup l -> ~ In x l -> NoDup (l ++ [x]).
Proof.
  induction l; simpl; intros x ND NI. { repeat constructor; auto. }
  inversion ND; subst. constructor.
  - rewrite in_app_iff; simpl. intros [H|[H|[]]]; auto.
  - apply IHl; auto.
Qed.

(* representation invariant *)
Definition Inv (s : st) : Prop :=
  NoDup (ids s) /\ (forall x, mem x (known s) = mem x (ids s)) /\ length (ids s) <= size s /\ 1 <= size s.

Lemma inv_init : forall n, 1 <= n -> Inv (init n).
Proof. intros; unfold Inv, init; simpl; repeat split; auto; try lia. constructor. Qed.

Lemma step_refines : forall s o, Inv s ->
  let '(s', x) := step s o in
  let '(w', y) := spec_step (size s) (ids s) o in
  Inv s' /\ size s' = size s /\ ids s' = w' /\ x = y.
Proof.
  intros s o (ND & K & L & N1). destruct o as [x|x]; simpl.
  2:{ rewrite K. repeat split; auto. }
  rewrite K. destruct (mem x (ids s)) eqn:M.
  { repeat split; auto. }
  destruct (Nat.eqb_spec (length (ids s)) (size s)) as [E|E].
  - destruct (ids s) as [|oldest rest] eqn:I; simpl in *. { lia. }
    assert (W : lastn (size s) (oldest :: rest ++ [x]) = rest ++ [x]).
    { unfold lastn. replace (length (oldest :: rest ++ [x]) - size s) with 1; auto.
      assert (length (oldest :: rest ++ [x]) = S (S (length rest))) by (simpl; rewrite app_length; simpl; lia). lia. }
    rewrite W.
    inversion ND; subst. repeat split; simpl; auto.
    + apply NoDup_snoc; auto.
      intro H. apply orb_false_elim in M. destruct M as [_ M].
      assert (mem x rest = true) by (apply mem_In; auto). congruence.
    + intros y. rewrite mem_app, mem_del, K. simpl.
      destruct (y =? x) eqn:F; simpl; [rewrite orb_true_r; auto|]. rewrite orb_false_r.
      destruct (y =? oldest) eqn:G; simpl.
      * apply Nat.eqb_eq in G; subst y. rewrite Nat.eqb_refl; simpl.
        destruct (mem oldest rest) eqn:Q; auto. apply mem_In in Q; tauto.
      * rewrite Nat.eqb_sym, G; simpl. rewrite andb_true_r; auto.
    + rewrite app_length; simpl; lia.
  - rewrite lastn_short by (rewrite app_length; simpl; lia).
    repeat split; simpl; auto.
    + apply NoDup_snoc; auto. intro H. apply mem_In in H; congruence.
    + intros y. rewrite mem_app, K; simpl. rewrite orb_false_r, orb_comm; auto.
    + rewrite app_length; simpl; lia.
Qed.

Lemma run_refines : forall h s, Inv s ->
  snd (run s h) = snd (spec_run (size s) (ids s) h) /\ ids (fst (run s h)) = fst (spec_run (size s) (ids s) h)
  /\ Inv (fst (run s h)).
Proof.
  induction h as [|o r IH]; intros s I; simpl; auto.
  pose proof (step_refines s o I) as R. destruct (step s o) as [s1 x]. destruct (spec_step (size s) (ids s) o) as [w1 y].
  destruct R as (I1 & SZ & W & XY). subst w1 y.
  destruct (IH s1 I1) as (A & B & C). rewrite SZ in A, B.
  destruct (run s1 r) as [s2 xs]; destruct (spec_run (size s) (ids s1) r) as [w2 ys]; simpl in *. subst; auto.
Qed.

Lemma step_size : forall s o, size (fst (step s o)) = size s.
Proof.
  intros s [x|x]; simpl; auto.
  destruct (mem x (known s)); auto. destruct (length (ids s) =? size s); [destruct (ids s)|]; auto.
Qed.

Lemma run_size : forall h s, size (fst (run s h)) = size s.
Proof.
  induction h as [|o r IH]; intros s; simpl; auto.
  pose proof (step_size s o) as E. destruct (step s o) as [s1 x]. specialize (IH s1).
  destruct (run s1 r); simpl in *; congruence.
Qed.

(* main refinement: every output of the filter equals the output of the window specification *)
Theorem bf_refines_window : forall n h, 1 <= n ->
  snd (run (init n) h) = snd (spec_run n [] h) /\ ids (fst (run (init n) h)) = fst (spec_run n [] h).
Proof. intros n h H. destruct (run_refines h (init n) (inv_init n H)) as (A & B & _). auto. Qed.

(* the window is exactly the last n accepted identifiers, and those are pairwise distinct *)
Lemma spec_window : forall n h acc, 1 <= n ->
  fst (spec_run n (lastn n acc) h) = lastn n (acc ++ accepted h (snd (spec_run n (lastn n acc) h))).
Proof.
  induction h as [|o r IH]; intros acc Hn; simpl.
  - rewrite app_nil_r; auto.
  - destruct o as [x|x]; simpl.
    + destruct (mem x (lastn n acc)) eqn:M.
      * specialize (IH acc Hn). destruct (spec_run n (lastn n acc) r); simpl in *; auto.
      * rewrite lastn_snoc by auto. specialize (IH (acc ++ [x]) Hn).
        destruct (spec_run n (lastn n (acc ++ [x])) r); simpl in *. rewrite IH, <- app_assoc; auto.
    + specialize (IH acc Hn). destruct (spec_run n (lastn n acc) r); simpl in *; auto.
Qed.

Theorem bf_remembers_last_n : forall n h, 1 <= n ->
  let outs := snd (run (init n) h) in
  let s := fst (run (init n) h) in
  ids s = lastn n (accepted h outs)
  /\ NoDup (ids s)
  /\ (forall x, snd (step s (Contains x)) = OBool (mem x (lastn n (accepted h outs))))
  /\ (forall x, snd (step s (Add x)) = OBool (negb (mem x (lastn n (accepted h outs))))).
Proof.
  intros n h Hn; cbv zeta.
  destruct (run_refines h (init n) (inv_init n Hn)) as (A & B & I). simpl in A, B.
  pose proof (spec_window n h [] Hn) as S. change (lastn n []) with (@nil nat) in S. simpl in S.
  rewrite <- A in S. rewrite <- B in S.
  destruct I as (ND & K & L & N1).
  repeat split; auto.
  - intros x; simpl. rewrite K, S; auto.
  - intros x; simpl. rewrite K, <- S. destruct (mem x (ids (fst (run (init n) h)))) eqn:M; auto.
    assert (SZ : size (fst (run (init n) h)) = n) by (rewrite run_size; auto).
    rewrite SZ. destruct (length (ids (fst (run (init n) h))) =? n) eqn:E; auto.
    destruct (ids (fst (run (init n) h))) eqn:I; auto. apply Nat.eqb_eq in E; simpl in E; lia.
Qed.

(* regression / non-vacuity *)
Example bf_example :
  snd (run (init 2) [Add 1; Add 2; Add 1; Add 3; Contains 1; Contains 2; Contains 3])
  = [OBool true; OBool true; OBool false; OBool true; OBool false; OBool true; OBool true].
Proof. reflexivity. Qed.
