(* C12b - model of ds/bytesfilter/bytesfilter.go.
   identifiers   = the slice [ids] (oldest first, capacity [size]);
   knownIdentifiers (a ShrinkingMap used as a set; C12a shows ShrinkingMap = plain map) = [known].
   Identifiers are natural numbers (the harness uses a 1-byte identifier type, newIdentifierFunc = first byte).
   Add(bytes) and AddIdentifier(id) are the same step (Add only applies newIdentifierFunc first), likewise
   Contains / ContainsIdentifier. *)
From Coq Require Import Arith List Bool.
Import ListNotations.

Record st := { size : nat; ids : list nat; known : list nat }.

Definition init (n : nat) : st := {| size := n; ids := []; known := [] |}.

Definition mem (x : nat) (l : list nat) : bool := existsb (Nat.eqb x) l.
Definition del (x : nat) (l : list nat) : list nat := filter (fun y => negb (Nat.eqb x y)) l.

Inductive op := Add (x : nat) | Contains (x : nat).
Inductive out := OBool (b : bool) | OPanic.

(* addIdentifier *)
Definition step (s : st) (o : op) : st * out :=
  match o with
  | Contains x => (s, OBool (mem x (known s)))
  | Add x =>
      if mem x (known s) then (s, OBool false)
      else if length (ids s) =? size s then
        match ids s with
        | [] => (s, OPanic)                 (* size 0: b.identifiers[0] on an empty slice panics, nothing changed yet *)
        | oldest :: rest =>
            ({| size := size s; ids := rest ++ [x]; known := x :: del oldest (known s) |}, OBool true)
        end
      else ({| size := size s; ids := ids s ++ [x]; known := x :: known s |}, OBool true)
  end.

Fixpoint run (s : st) (h : list op) : st * list out :=
  match h with
  | [] => (s, [])
  | o :: r => let '(s1, x) := step s o in let '(s2, xs) := run s1 r in (s2, x :: xs)
  end.

(* ---- abstract specification: the window of the last [n] accepted identifiers ---- *)
Definition lastn {A} (n : nat) (l : list A) : list A := skipn (length l - n) l.

Definition spec_step (n : nat) (w : list nat) (o : op) : list nat * out :=
  match o with
  | Contains x => (w, OBool (mem x w))
  | Add x => if mem x w then (w, OBool false) else (lastn n (w ++ [x]), OBool true)
  end.

Fixpoint spec_run (n : nat) (w : list nat) (h : list op) : list nat * list out :=
  match h with
  | [] => (w, [])
  | o :: r => let '(w1, x) := spec_step n w o in let '(w2, xs) := spec_run n w1 r in (w2, x :: xs)
  end.

(* identifiers whose Add returned true, in order *)
Fixpoint accepted (h : list op) (outs : list out) : list nat :=
  match h, outs with
  | Add x :: r, OBool true :: os => x :: accepted r os
  | _ :: r, _ :: os => accepted r os
  | _, _ => []
  end.
