(* C12b - model of ds/onchangemap/onchangemap.go.
   Items are (id, payload); the map stores item pointers, Modify's callback mutates the stored item in place.
   Option settings: which of the four callbacks are registered ([cfg]); CallbacksEnabled toggles at run time.
   Callback behaviour is part of the operation: [failC] = the changed callback returns an error when called during
   this operation, [failI] = the item callback returns an error.  Every callback invocation is logged. *)
From Coq Require Import Arith List Bool.
From Verif.C12b_Containers Require Import AMap.
Import ListNotations.

Record cfg := { cbChanged : bool; cbAdded : bool; cbModified : bool; cbDeleted : bool }.

Inductive ev :=
| EvChanged (items : list (nat * nat))     (* changedCallback(r.m.Values()), ascending id *)
| EvAdded (id p : nat) | EvModified (id p : nat) | EvDeleted (id p : nat).

Record st := { conf : cfg; m : amap nat; enabled : bool; log : list ev (* newest last *) }.
Definition init (c : cfg) : st := {| conf := c; m := []; enabled := false; log := [] |}.

Inductive op :=
| Enable (b : bool)
| ExecChanged (failC : bool)
| All
| Get (id : nat)
| Add (id p : nat) (failC failI : bool)
| Modify (id : nat) (newp : option nat) (ret : bool) (failC failI : bool)  (* callback: item.p := newp (if Some); return ret *)
| Delete (id : nat) (failC failI : bool).

(* error classes *)
Inductive err := Ok | ErrKey (* exists already / does not exist *) | ErrChangedCb | ErrItemCb.

Inductive out :=
| OErr (e : err)
| OItems (l : list (nat * nat))
| OItem (it : option nat) (e : err).      (* returned copy (payload) and error *)

Definition with_m (s : st) (m' : amap nat) : st := {| conf := conf s; m := m'; enabled := enabled s; log := log s |}.
Definition with_log (s : st) (l : list ev) : st := {| conf := conf s; m := m s; enabled := enabled s; log := l |}.

(* executeChangedCallback *)
Definition exec_changed (s : st) (failC : bool) : st * err :=
  if negb (enabled s) then (s, Ok)
  else if cbChanged (conf s) then
    (with_log s (log s ++ [EvChanged (m s)]), if failC then ErrChangedCb else Ok)
  else (s, Ok).

(* executeItemCallback(callback, item); [cb] = callback registered, [e] = its log entry *)
Definition exec_item (s : st) (cb : bool) (e : ev) (failC failI : bool) : st * err :=
  if negb (enabled s) then (s, Ok)
  else
    let '(s1, r) := exec_changed s failC in
    match r with
    | Ok => if cb then (with_log s1 (log s1 ++ [e]), if failI then ErrItemCb else Ok) else (s1, Ok)
    | _ => (s1, r)
    end.

Definition step (s : st) (o : op) : st * out :=
  match o with
  | Enable b => ({| conf := conf s; m := m s; enabled := b; log := log s |}, OErr Ok)
  | ExecChanged failC => let '(s1, r) := exec_changed s failC in (s1, OErr r)
  | All => (s, OItems (m s))
  | Get id => (s, match aget id (m s) with Some p => OItem (Some p) Ok | None => OItem None ErrKey end)
  | Add id p failC failI =>
      if ahas id (m s) then (s, OErr ErrKey)
      else let '(s1, r) := exec_item (with_m s (aset id p (m s))) (cbAdded (conf s)) (EvAdded id p) failC failI in (s1, OErr r)
  | Modify id newp ret failC failI =>
      match aget id (m s) with
      | None => (s, OItem None ErrKey)
      | Some p0 =>
          let p := match newp with Some p' => p' | None => p0 end in
          let s0 := with_m s (aset id p (m s)) in
          if negb ret then (s0, OItem (Some p) Ok)
          else let '(s1, r) := exec_item s0 (cbModified (conf s)) (EvModified id p) failC failI in (s1, OItem (Some p) r)
      end
  | Delete id failC failI =>
      match aget id (m s) with
      | None => (s, OErr ErrKey)
      | Some p => let '(s1, r) := exec_item (with_m s (adel id (m s))) (cbDeleted (conf s)) (EvDeleted id p) failC failI in (s1, OErr r)
      end
  end.

Fixpoint run (s : st) (h : list op) : st * list out :=
  match h with
  | [] => (s, [])
  | o :: r => let '(s1, x) := step s o in let '(s2, xs) := run s1 r in (s2, x :: xs)
  end.

(* ---- what a subscriber reconstructs from the item callbacks ---- *)
Definition apply_ev (sh : amap nat) (e : ev) : amap nat :=
  match e with
  | EvChanged _ => sh
  | EvAdded id p | EvModified id p => aset id p sh
  | EvDeleted id _ => adel id sh
  end.
Definition replay (sh : amap nat) (l : list ev) : amap nat := fold_left apply_ev l sh.
