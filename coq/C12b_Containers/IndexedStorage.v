(* C12b - model of core/memstorage/indexedstorage.go.
   cache (ShrinkingMap index -> *ShrinkingMap[K,V]) = association list index -> storage id; storages are heap
   objects named by ids handed out in creation order ([next]); their contents ([objs]) are changed by the caller
   through the returned pointer (SSet/SGet/SDel below), also after the storage was evicted or cleared.
   ForEach and Clear iterate a Go map: the model lists the entries in ascending index order (the harness sorts). *)
From Coq Require Import Arith List Bool.
From Verif.C12b_Containers Require Import AMap.
Import ListNotations.

Record st := { cache : amap nat; objs : amap (amap nat); next : nat }.
Definition init : st := {| cache := []; objs := []; next := 0 |}.

Inductive op :=
| Get (idx : nat) (create : option bool)      (* createIfMissing ...bool: None = argument absent *)
| Evict (idx : nat)
| ForEach
| Clear
| SSet (sid k v : nat) | SGet (sid k : nat) | SDel (sid k : nat).   (* on a storage pointer obtained earlier *)

Inductive out :=
| ONone
| OSid (s : option nat)                  (* returned storage pointer (nil = None) *)
| OEntries (l : list (nat * nat))        (* (index, storage) pairs, ascending index *)
| OVal (v : option nat)
| OBool (b : bool).

Definition step (s : st) (o : op) : st * out :=
  match o with
  | Get idx create =>
      match aget idx (cache s) with
      | Some sid => (s, OSid (Some sid))
      | None =>
          match create with
          | Some true =>
              ({| cache := aset idx (next s) (cache s); objs := aset (next s) [] (objs s); next := S (next s) |},
               OSid (Some (next s)))
          | _ => (s, OSid None)
          end
      end
  | Evict idx =>
      match aget idx (cache s) with
      | Some sid => ({| cache := adel idx (cache s); objs := objs s; next := next s |}, OSid (Some sid))
      | None => (s, OSid None)
      end
  | ForEach => (s, OEntries (cache s))
  | Clear => ({| cache := []; objs := objs s; next := next s |}, OEntries (cache s))
  | SSet sid k v =>
      match aget sid (objs s) with
      | Some m => ({| cache := cache s; objs := aset sid (aset k v m) (objs s); next := next s |}, ONone)
      | None => (s, ONone)
      end
  | SGet sid k =>
      match aget sid (objs s) with
      | Some m => (s, OVal (aget k m))
      | None => (s, OVal None)
      end
  | SDel sid k =>
      match aget sid (objs s) with
      | Some m => ({| cache := cache s; objs := aset sid (adel k m) (objs s); next := next s |}, OBool (match aget k m with Some _ => true | None => false end))
      | None => (s, OBool false)
      end
  end.

Fixpoint run (s : st) (h : list op) : st * list out :=
  match h with
  | [] => (s, [])
  | o :: r => let '(s1, x) := step s o in let '(s2, xs) := run s1 r in (s2, x :: xs)
  end.

(* ---- abstract specification: a total function index -> option storage, storages never reused ---- *)
Record spec := { sp_map : nat -> option nat; sp_next : nat }.
Definition spec_init : spec := {| sp_map := fun _ => None; sp_next := 0 |}.
Definition upd (f : nat -> option nat) (k : nat) (v : option nat) : nat -> option nat :=
  fun x => if x =? k then v else f x.

Definition spec_step (a : spec) (o : op) : spec :=
  match o with
  | Get idx (Some true) =>
      match sp_map a idx with
      | Some _ => a
      | None => {| sp_map := upd (sp_map a) idx (Some (sp_next a)); sp_next := S (sp_next a) |}
      end
  | Evict idx => {| sp_map := upd (sp_map a) idx None; sp_next := sp_next a |}
  | Clear => {| sp_map := fun _ => None; sp_next := sp_next a |}
  | _ => a
  end.

(* what the abstract map answers to a lookup-like operation *)
Definition spec_lookup (a : spec) (o : op) : option (option nat) :=
  match o with
  | Get idx (Some true) => Some (match sp_map a idx with Some s => Some s | None => Some (sp_next a) end)
  | Get idx _ => Some (sp_map a idx)
  | Evict idx => Some (sp_map a idx)
  | _ => None
  end.
