(* C12b - association lists with nat keys, kept sorted by key (model of a Go map whose iteration is observed sorted). *)
From Coq Require Import Arith List Bool.
Import ListNotations.

Definition amap (V : Type) := list (nat * V).

Fixpoint aget {V} (k : nat) (m : amap V) : option V :=
  match m with
  | [] => None
  | (k', v) :: r => if k =? k' then Some v else aget k r
  end.
Definition adel {V} (k : nat) (m : amap V) : amap V := filter (fun p => negb (k =? fst p)) m.
(* ordered insert / overwrite: keeps the list sorted by key *)
Fixpoint aset {V} (k : nat) (v : V) (m : amap V) : amap V :=
  match m with
  | [] => [(k, v)]
  | (k', v') :: r => if k <? k' then (k, v) :: m else if k =? k' then (k, v) :: r else (k', v') :: aset k v r
  end.

Definition ahas {V} (k : nat) (m : amap V) : bool := match aget k m with Some _ => true | None => false end.
