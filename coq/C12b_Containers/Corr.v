(* Correspondence for C12b: a case is one container's option setting + operation history together with what the real
   container returned / emitted for every operation. [mismatches] lists the indices where the model disagrees. *)
From Coq Require Import ZArith NArith Arith List Bool.
From Verif.C12b_Containers Require AMap BytesFilter Walker TimeHeap IndexedStorage OnChangeMap SubMgr.
Import ListNotations.

Module BF := BytesFilter. Module WK := Walker. Module TH := TimeHeap.
Module IS := IndexedStorage. Module OC := OnChangeMap. Module SM := SubMgr.

Fixpoint list_eqb {A} (eqb : A -> A -> bool) (a b : list A) : bool :=
  match a, b with
  | [], [] => true
  | x :: r, y :: s => eqb x y && list_eqb eqb r s
  | _, _ => false
  end.
Definition opt_eqb {A} (eqb : A -> A -> bool) (a b : option A) : bool :=
  match a, b with None, None => true | Some x, Some y => eqb x y | _, _ => false end.
Definition pair_eqb (a b : nat * nat) : bool := (fst a =? fst b) && (snd a =? snd b).

Inductive case :=
| CBF (size : nat) (h : list BF.op) (obs : list BF.out)
| CWK (revisit : bool) (h : list WK.op) (obs : list WK.out)
| CTH (h : list TH.op) (obs : list TH.out)
| CIS (h : list IS.op) (obs : list IS.out)
| COC (c : OC.cfg) (h : list OC.op) (obs : list (OC.out * list OC.ev))
| CSM (mx : nat) (h : list SM.op) (obs : list (SM.out * list SM.ev)).

Definition bf_eqb (a b : BF.out) : bool :=
  match a, b with BF.OBool x, BF.OBool y => Bool.eqb x y | BF.OPanic, BF.OPanic => true | _, _ => false end.
Definition wk_eqb (a b : WK.out) : bool :=
  match a, b with
  | WK.ONone, WK.ONone | WK.OPanic, WK.OPanic => true
  | WK.OBool x, WK.OBool y => Bool.eqb x y
  | WK.OElem x, WK.OElem y => x =? y
  | _, _ => false
  end.
Definition th_eqb (a b : TH.out) : bool :=
  match a, b with TH.ONone, TH.ONone => true | TH.OTotal x, TH.OTotal y => N.eqb x y | _, _ => false end.
Definition is_eqb (a b : IS.out) : bool :=
  match a, b with
  | IS.ONone, IS.ONone => true
  | IS.OSid x, IS.OSid y => opt_eqb Nat.eqb x y
  | IS.OEntries x, IS.OEntries y => list_eqb pair_eqb x y
  | IS.OVal x, IS.OVal y => opt_eqb Nat.eqb x y
  | IS.OBool x, IS.OBool y => Bool.eqb x y
  | _, _ => false
  end.
Definition oc_err_eqb (a b : OC.err) : bool :=
  match a, b with
  | OC.Ok, OC.Ok | OC.ErrKey, OC.ErrKey | OC.ErrChangedCb, OC.ErrChangedCb | OC.ErrItemCb, OC.ErrItemCb => true
  | _, _ => false
  end.
Definition oc_eqb (a b : OC.out) : bool :=
  match a, b with
  | OC.OErr x, OC.OErr y => oc_err_eqb x y
  | OC.OItems x, OC.OItems y => list_eqb pair_eqb x y
  | OC.OItem x e, OC.OItem y f => opt_eqb Nat.eqb x y && oc_err_eqb e f
  | _, _ => false
  end.
Definition oc_ev_eqb (a b : OC.ev) : bool :=
  match a, b with
  | OC.EvChanged x, OC.EvChanged y => list_eqb pair_eqb x y
  | OC.EvAdded i p, OC.EvAdded j q | OC.EvModified i p, OC.EvModified j q | OC.EvDeleted i p, OC.EvDeleted j q =>
      (i =? j) && (p =? q)
  | _, _ => false
  end.
Definition sm_eqb (a b : SM.out) : bool :=
  match a, b with
  | SM.ONone, SM.ONone => true
  | SM.OBool x, SM.OBool y => Bool.eqb x y
  | SM.ONat x, SM.ONat y => x =? y
  | _, _ => false
  end.
(* events as triples (kind, client-or-0, topic-or-0); kind orders the sort *)
Definition sm_code (e : SM.ev) : nat * (nat * nat) :=
  match e with
  | SM.EConnected c => (0, (c, 0)) | SM.EDisconnected c => (1, (c, 0))
  | SM.ESubscribed c t => (2, (c, t)) | SM.EUnsubscribed c t => (3, (c, t))
  | SM.ETopicAdded t => (4, (0, t)) | SM.ETopicRemoved t => (5, (0, t))
  | SM.EDrop c => (6, (c, 0))
  end.
Definition code_eqb (a b : nat * (nat * nat)) : bool :=
  (fst a =? fst b) && (fst (snd a) =? fst (snd b)) && (snd (snd a) =? snd (snd b)).
(* Go map order leaks into the order of consecutive TopicRemoved events and of consecutive TopicUnsubscribed events of
   one cleanup: sort every maximal run of same-kind events by topic (insertion that only moves an event past
   neighbours of the same kind with a larger topic). *)
Fixpoint ins_run (e : nat * (nat * nat)) (l : list (nat * (nat * nat))) : list (nat * (nat * nat)) :=
  match l with
  | x :: r => if (fst e =? fst x) && (snd (snd x) <? snd (snd e)) then x :: ins_run e r else e :: l
  | [] => [e]
  end.
Definition canon (l : list (nat * (nat * nat))) : list (nat * (nat * nat)) := fold_right ins_run [] l.
Definition sm_evs_eqb (a b : list SM.ev) : bool :=
  list_eqb code_eqb (canon (map sm_code a)) (canon (map sm_code b)).

Definition agree (c : case) : bool :=
  match c with
  | CBF n h obs => list_eqb bf_eqb (snd (BF.run (BF.init n) h)) obs
  | CWK rv h obs => list_eqb wk_eqb (snd (WK.run (WK.init rv) h)) obs
  | CTH h obs => list_eqb th_eqb (snd (TH.run TH.init h)) obs
  | CIS h obs => list_eqb is_eqb (snd (IS.run IS.init h)) obs
  | COC cf h obs =>
      (fix go (s : OC.st) (h : list OC.op) (obs : list (OC.out * list OC.ev)) : bool :=
         match h, obs with
         | [], [] => true
         | o :: r, (x, es) :: obs' =>
             let '(s1, y) := OC.step s o in
             oc_eqb y x && list_eqb oc_ev_eqb (skipn (length (OC.log s)) (OC.log s1)) es && go s1 r obs'
         | _, _ => false
         end) (OC.init cf) h obs
  | CSM mx h obs =>
      list_eqb (fun a b => sm_eqb (fst a) (fst b) && sm_evs_eqb (snd a) (snd b)) (snd (SM.run (SM.init mx) h)) obs
  end.

Fixpoint mismatches_from (i : nat) (cs : list case) : list nat :=
  match cs with
  | [] => []
  | c :: r => if agree c then mismatches_from (S i) r else i :: mismatches_from (S i) r
  end.
Definition mismatches (cs : list case) : list nat := mismatches_from 0 cs.
