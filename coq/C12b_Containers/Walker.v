(* C12b - model of ds/walker/walker.go (after the D12a repair: PushFront `continue`s at an already pushed element).
   stack = container/list (front first); pushedElements = OrderedMap used as a set (only Has/Set/Clear are used). *)
From Coq Require Import Arith List Bool.
Import ListNotations.

Record st := { stack : list nat; pushed : list nat; stopped : bool; revisit : bool }.

Definition init (rv : bool) : st := {| stack := []; pushed := []; stopped := false; revisit := rv |}.

Definition mem (x : nat) (l : list nat) : bool := existsb (Nat.eqb x) l.
(* OrderedMap.Set as a set insert; returns "previous value existed" *)
Definition set_ins (x : nat) (l : list nat) : list nat := if mem x l then l else l ++ [x].

Inductive op :=
| HasNext | Pushed (x : nat) | Next | Push (x : nat) | PushAll (xs : list nat) | PushFront (xs : list nat)
| StopWalk | WalkStopped | Reset.

Inductive out := ONone | OBool (b : bool) | OElem (x : nat) | OPanic.

Definition push1 (s : st) (x : nat) : st :=
  let existed := mem x (pushed s) in
  let p := set_ins x (pushed s) in
  if existed && negb (revisit s)
  then {| stack := stack s; pushed := p; stopped := stopped s; revisit := revisit s |}
  else {| stack := stack s ++ [x]; pushed := p; stopped := stopped s; revisit := revisit s |}.

Definition pushfront1 (s : st) (x : nat) : st :=
  let existed := mem x (pushed s) in
  let p := set_ins x (pushed s) in
  if existed && negb (revisit s)
  then {| stack := stack s; pushed := p; stopped := stopped s; revisit := revisit s |}
  else {| stack := x :: stack s; pushed := p; stopped := stopped s; revisit := revisit s |}.

(* the pinned PushFront: `return w` at the first already pushed element (D12a) *)
Fixpoint pushfront_pinned (s : st) (xs : list nat) : st :=
  match xs with
  | [] => s
  | x :: r =>
      if mem x (pushed s) && negb (revisit s) then s
      else pushfront_pinned {| stack := x :: stack s; pushed := set_ins x (pushed s); stopped := stopped s; revisit := revisit s |} r
  end.

Definition step_gen (pf : st -> list nat -> st) (s : st) (o : op) : st * out :=
  match o with
  | HasNext => (s, OBool (negb (length (stack s) =? 0) && negb (stopped s)))
  | Pushed x => (s, OBool (mem x (pushed s)))
  | Next =>
      match stack s with
      | [] => (s, OPanic)      (* stack.Front() = nil; list.Remove(nil) dereferences it *)
      | x :: r => ({| stack := r; pushed := pushed s; stopped := stopped s; revisit := revisit s |}, OElem x)
      end
  | Push x => (push1 s x, ONone)
  | PushAll xs => (fold_left push1 xs s, ONone)
  | PushFront xs => (pf s xs, ONone)
  | StopWalk => ({| stack := stack s; pushed := pushed s; stopped := true; revisit := revisit s |}, ONone)
  | WalkStopped => (s, OBool (stopped s))
  | Reset => ({| stack := []; pushed := []; stopped := false; revisit := revisit s |}, ONone)
  end.

Definition step := step_gen (fun s xs => fold_left pushfront1 xs s).
Definition step_pinned := step_gen pushfront_pinned.

Fixpoint run_gen (stp : st -> op -> st * out) (s : st) (h : list op) : st * list out :=
  match h with
  | [] => (s, [])
  | o :: r => let '(s1, x) := stp s o in let '(s2, xs) := run_gen stp s1 r in (s2, x :: xs)
  end.

Definition run := run_gen step.
Definition run_pinned := run_gen step_pinned.

(* elements yielded by Next, in order *)
Fixpoint yielded (outs : list out) : list nat :=
  match outs with
  | [] => []
  | OElem x :: r => x :: yielded r
  | _ :: r => yielded r
  end.

(* all elements offered to Push / PushAll / PushFront, in call order *)
Fixpoint offered (h : list op) : list nat :=
  match h with
  | [] => []
  | Push x :: r => x :: offered r
  | PushAll xs :: r => xs ++ offered r
  | PushFront xs :: r => xs ++ offered r
  | _ :: r => offered r
  end.
