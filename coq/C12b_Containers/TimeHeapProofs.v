(* C12b - TimeHeap: total is the windowed sum (mod 2^64) of the entries added and neither cleared nor expired. *)
From Coq Require Import ZArith NArith List Bool Lia Permutation.
From Verif.C12b_Containers Require Import TimeHeap.
Import ListNotations.

Lemma W_nz : W <> 0%N. Proof. discriminate. Qed.

Lemma sumc_perm : forall a b, Permutation a b -> sumc a = sumc b.
Proof. induction 1; simpl; try lia. Qed.

Lemma filter_perm : forall (f : entry -> bool) a b, Permutation a b -> Permutation (filter f a) (filter f b).
Proof.
  induction 1; simpl; auto.
  - destruct (f x); auto.
  - destruct (f x), (f y); auto. apply perm_swap.
  - eapply Permutation_trans; eauto.
Qed.

(* ---- heap.Pop ---- *)
Lemma remove_first_spec : forall t l e r, remove_first t l = Some (e, r) -> ts e = t /\ Permutation l (e :: r).
Proof.
  induction l as [|x q IH]; simpl; intros e r H; [discriminate|].
  destruct (Z.eqb_spec (ts x) t).
  - inversion H; subst; auto.
  - destruct (remove_first t q) as [[e' r']|] eqn:R; [|discriminate]. inversion H; subst.
    destruct (IH e r' eq_refl) as [A B]. split; auto.
    eapply Permutation_trans; [apply perm_skip; exact B|apply perm_swap].
Qed.

Lemma remove_first_some : forall t l, (exists e, In e l /\ ts e = t) -> remove_first t l <> None.
Proof.
  induction l as [|x q IH]; simpl; intros [e [HI HT]]; [tauto|].
  destruct (Z.eqb_spec (ts x) t); [discriminate|].
  destruct HI as [->|HI]; [congruence|].
  specialize (IH (ex_intro _ e (conj HI HT))). destruct (remove_first t q) as [[? ?]|]; [discriminate|tauto].
Qed.

Lemma min_ts_spec : forall l x, (exists e, In e (x :: l) /\ ts e = min_ts x l) /\ (forall e, In e (x :: l) -> (min_ts x l <= ts e)%Z).
Proof.
  induction l as [|y q IH]; intros x; simpl.
  - split; [exists x; auto|]. intros e [<-|[]]; lia.
  - destruct (IH y) as [[e [HI HT]] LE]. split.
    + destruct (Z.min_spec (ts x) (min_ts y q)) as [[_ ->]|[_ ->]]; [exists x; auto|exists e; split; auto].
    + intros e' [<-|H]; [lia|]. specialize (LE e' H). lia.
Qed.

Lemma pop_min_spec : forall l e r, pop_min l = Some (e, r) ->
  Permutation l (e :: r) /\ forall x, In x l -> (ts e <= ts x)%Z.
Proof.
  intros [|x q] e r H; [discriminate|]. unfold pop_min in H.
  apply remove_first_spec in H. destruct H as [T P]. split; auto.
  intros y HY. rewrite T. apply (proj2 (min_ts_spec q x)); auto.
Qed.

Lemma pop_min_none : forall l, pop_min l = None -> l = [].
Proof.
  intros [|x q] H; auto. exfalso. unfold pop_min in H. revert H. apply remove_first_some.
  destruct (min_ts_spec q x) as [[e [HI HT]] _]. exists e; auto.
Qed.

(* ---- uint64 arithmetic ---- *)
Lemma subw_sum : forall b c, subw ((b + c) mod W) b = (c mod W)%N.
Proof.
  intros b c. unfold subw. pose proof W_nz as NZ.
  pose proof (N.mod_lt b W NZ) as LT. pose proof (N.div_mod' b W) as DM.
  assert (E1 : ((b + c) mod W + W - b mod W = (b + c) mod W + (W - b mod W))%N).
  { generalize dependent (b mod W)%N. generalize ((b + c) mod W)%N. intros; lia. }
  rewrite E1. rewrite N.add_mod_idemp_l by auto.
  assert (E2 : (b + c + (W - b mod W) = c + (b / W + 1) * W)%N).
  { rewrite N.mul_add_distr_r, N.mul_1_l, (N.mul_comm (b / W) W).
    generalize dependent (b mod W)%N. generalize (W * (b / W))%N. intros; lia. }
  rewrite E2. apply N.mod_add; auto.
Qed.

Lemma addw_sum : forall a c, addw (a mod W) c = ((c + a) mod W)%N.
Proof. intros; unfold addw. rewrite N.add_mod_idemp_l by apply W_nz. f_equal; lia. Qed.

(* ---- the expiry loop = filter ---- *)
Lemma in_window_mono : forall now w e x, (ts e <= ts x)%Z -> in_window now w e = true -> in_window now w x = true.
Proof. unfold in_window; intros. apply Z.ltb_lt in H0. apply Z.ltb_lt. lia. Qed.

Lemma filter_all : forall (f : entry -> bool) l, (forall x, In x l -> f x = true) -> filter f l = l.
Proof. induction l; simpl; intros; auto. rewrite H by auto. f_equal; auto. Qed.

Lemma expire_spec : forall fuel now w h, length h <= fuel ->
  let r := expire fuel now w h (sumc h mod W) in
  Permutation (fst r) (filter (in_window now w) h) /\ snd r = (sumc (fst r) mod W)%N.
Proof.
  induction fuel as [|f IH]; intros now w h L; simpl.
  { destruct h; simpl in *; [auto|lia]. }
  destruct (pop_min h) as [[e h']|] eqn:PM.
  - destruct (pop_min_spec h e h' PM) as [P MIN].
    fold (in_window now w e). destruct (in_window now w e) eqn:IW; simpl.
    + split.
      * rewrite filter_all; [apply Permutation_sym; auto|]. intros x HX. eapply in_window_mono; eauto.
      * rewrite (sumc_perm _ _ P); auto.
    + assert (L' : length h' <= f). { apply Permutation_length in P. simpl in P. lia. }
      assert (S : sumc h = (cnt e + sumc h')%N) by (rewrite (sumc_perm _ _ P); auto).
      rewrite S, subw_sum. destruct (IH now w h' L') as [A B]. split; auto.
      eapply Permutation_trans; [exact A|]. apply Permutation_sym.
      eapply Permutation_trans; [apply filter_perm; exact P|]. simpl. rewrite IW; auto.
  - apply pop_min_none in PM. subst; simpl; auto.
Qed.

(* ---- refinement: the heap with its running total refines the list of live entries ---- *)
Definition Rel (s : st) (l : list entry) : Prop := Permutation (heap s) l /\ total s = (sumc l mod W)%N.

Lemma step_refines : forall s l o, Rel s l ->
  Rel (fst (step s o)) (fst (spec_step l o)) /\ snd (step s o) = snd (spec_step l o).
Proof.
  intros s l o [P T]. destruct o as [now c| |now w]; simpl.
  - split; auto. split; simpl; auto. rewrite T, addw_sum. auto.
  - split; auto. split; simpl; auto.
  - pose proof (expire_spec (length (heap s)) now w (heap s) (le_n _)) as E. cbv zeta in E.
    rewrite <- (sumc_perm _ _ P) in T. rewrite <- T in E.
    destruct (expire (length (heap s)) now w (heap s) (total s)) as [h t]. simpl in *. destruct E as [A B].
    assert (PF : Permutation h (filter (in_window now w) l)).
    { eapply Permutation_trans; [exact A|apply filter_perm; auto]. }
    split; [split; auto|]; simpl; rewrite B, (sumc_perm _ _ PF); auto.
Qed.

Theorem th_refines_live_entries : forall h s l, Rel s l ->
  snd (run s h) = snd (spec_run l h) /\ Rel (fst (run s h)) (fst (spec_run l h)).
Proof.
  induction h as [|o r IH]; intros s l R; simpl; auto.
  destruct (step_refines s l o R) as [R1 O1]. unfold run in *; simpl.
  destruct (step s o) as [s1 x]. destruct (spec_step l o) as [l1 y]. simpl in *. subst y.
  destruct (IH s1 l1 R1) as [A B]. destruct (run_gen step s1 r); destruct (spec_run l1 r); simpl in *. subst; auto.
Qed.

Lemma rel_init : Rel init []. Proof. split; simpl; auto. Qed.

(* ---- closed form: one window, a clock that does not go backwards ---- *)
Definition op_time (o : op) (last : Z) : Z := match o with Add now _ | Average now _ => now | Clear => last end.

Fixpoint timed (w : Z) (last : Z) (h : list op) : Prop :=
  match h with
  | [] => True
  | o :: r => (last <= op_time o last)%Z /\ (match o with Average _ w' => w' = w | _ => True end) /\ timed w (op_time o last) r
  end.

(* entries added since the last Clear (newest first) *)
Fixpoint added (h : list op) (acc : list entry) : list entry :=
  match h with
  | [] => acc
  | Add now c :: r => added r ({| ts := now; cnt := c |} :: acc)
  | Clear :: r => added r []
  | _ :: r => added r acc
  end.

(* what every Average of the history should report: the sum over the entries added since the last Clear within the window *)
Fixpoint expected (w : Z) (h : list op) (acc : list entry) : list out :=
  match h with
  | [] => []
  | Add now c :: r => ONone :: expected w r ({| ts := now; cnt := c |} :: acc)
  | Clear :: r => ONone :: expected w r []
  | Average now _ :: r => OTotal (sumc (filter (in_window now w) acc) mod W)%N :: expected w r acc
  end.

Lemma filter_filter_window : forall now now' w l, (now <= now')%Z ->
  filter (in_window now' w) (filter (in_window now w) l) = filter (in_window now' w) l.
Proof.
  induction l as [|e r IH]; simpl; intros; auto.
  destruct (in_window now w e) eqn:A; simpl; rewrite IH by auto; auto.
  destruct (in_window now' w e) eqn:B; auto. exfalso.
  unfold in_window in *. apply Z.ltb_lt in B. apply Z.ltb_ge in A. lia.
Qed.

Lemma spec_closed_form : forall w h l A last, timed w last h ->
  (forall now, (last <= now)%Z -> filter (in_window now w) l = filter (in_window now w) A) ->
  snd (spec_run l h) = expected w h A.
Proof.
  induction h as [|o r IH]; intros l A last T J; simpl; auto.
  destruct T as (T1 & T2 & T3). destruct o as [now c| |now w']; simpl in *.
  - specialize (IH ({| ts := now; cnt := c |} :: l) ({| ts := now; cnt := c |} :: A) now T3).
    destruct (spec_run _ r); simpl in *. f_equal. apply IH.
    intros now' L. simpl. rewrite J by lia. auto.
  - specialize (IH [] [] last T3). destruct (spec_run _ r); simpl in *. f_equal. apply IH. auto.
  - subst w'. specialize (IH (filter (in_window now w) l) A now T3).
    destruct (spec_run _ r); simpl in *. f_equal.
    + rewrite J by lia. auto.
    + apply IH. intros now' L. rewrite filter_filter_window by auto. apply J; lia.
Qed.

(* Main theorem: with one window and a monotone clock, every AveragePerSecond reports (total =) the sum, mod 2^64, of the
   counts added since the last Clear whose age is below the window. *)
Theorem th_windowed_sum : forall w h t0, timed w t0 h -> snd (run init h) = expected w h [].
Proof.
  intros w h t0 T. destruct (th_refines_live_entries h init [] rel_init) as [A _]. rewrite A.
  apply (spec_closed_form w h [] [] t0); auto.
Qed.

(* D12b: the pinned Clear kept the total *)
Theorem refuted_clear_pinned :
  snd (run_pinned init [Add 0 10; Clear; Average 1 3600]) = [ONone; ONone; OTotal 10]
  /\ snd (run init [Add 0 10; Clear; Average 1 3600]) = [ONone; ONone; OTotal 0].
Proof. split; vm_compute; reflexivity. Qed.

Example th_example :
  timed 10 0 [Add 0 5; Add 4 7; Average 9 10; Average 12 10; Clear; Add 13 1; Average 13 10]
  /\ snd (run init [Add 0 5; Add 4 7; Average 9 10; Average 12 10; Clear; Add 13 1; Average 13 10])
     = [ONone; ONone; OTotal 12; OTotal 7; ONone; ONone; OTotal 1].
Proof. split; [simpl; lia|vm_compute; reflexivity]. Qed.
