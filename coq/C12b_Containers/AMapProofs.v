(* C12b - facts about key-sorted association lists. *)
From Coq Require Import Arith List Bool Lia.
From Verif.C12b_Containers Require Import AMap.
Import ListNotations.

Section A.
Context {V : Type}.
Implicit Types m : amap V.

Lemma aget_aset_eq : forall k v m, aget k (aset k v m) = Some v.
Proof.
  induction m as [|[k' v'] r IH]; simpl. { rewrite Nat.eqb_refl; auto. }
  destruct (k <? k') eqn:L; simpl. { rewrite Nat.eqb_refl; auto. }
  destruct (k =? k') eqn:E; simpl. { rewrite Nat.eqb_refl; auto. } rewrite E; auto.
Qed.

Lemma aget_aset_neq : forall k k' v m, k <> k' -> aget k' (aset k v m) = aget k' m.
Proof.
  induction m as [|[k2 v2] r IH]; simpl; intros N.
  { destruct (Nat.eqb_spec k' k); auto; congruence. }
  destruct (k <? k2) eqn:L; simpl. { destruct (Nat.eqb_spec k' k); auto; congruence. }
  destruct (Nat.eqb_spec k k2); simpl.
  { subst. destruct (Nat.eqb_spec k' k2); auto; congruence. }
  rewrite IH; auto.
Qed.

Lemma aget_adel_eq : forall k m, aget k (adel k m) = None.
Proof.
  induction m as [|[k2 v2] r IH]; simpl; auto.
  destruct (Nat.eqb_spec k k2); simpl; auto. destruct (Nat.eqb_spec k k2); auto; congruence.
Qed.

Lemma aget_adel_neq : forall k k' m, k <> k' -> aget k' (adel k m) = aget k' m.
Proof.
  induction m as [|[k2 v2] r IH]; simpl; intros N; auto.
  destruct (Nat.eqb_spec k k2); simpl.
  { subst. destruct (Nat.eqb_spec k' k2); auto; congruence. }
  rewrite IH; auto.
Qed.

(* keys strictly ascending *)
Fixpoint lb (k : nat) m : Prop := match m with [] => True | (k', _) :: r => k < k' /\ lb k r end.
Fixpoint ksorted m : Prop := match m with [] => True | (k, _) :: r => lb k r /\ ksorted r end.

Lemma lb_weaken : forall m k k', k' <= k -> lb k m -> lb k' m.
Proof. induction m as [|[a b] r IH]; simpl; intros; auto. destruct H0; split; [lia|eauto]. Qed.

Lemma lb_sorted_head : forall m k v, ksorted ((k, v) :: m) -> lb k m.
Proof. simpl; tauto. Qed.

Lemma lb_aget_none : forall m k, lb k m -> forall k', k' <= k -> aget k' m = None.
Proof.
  induction m as [|[a b] r IH]; simpl; intros; auto. destruct H.
  destruct (Nat.eqb_spec k' a); [lia|]. apply (IH k); auto.
Qed.

Lemma lb_aset : forall m k k' v, k < k' -> lb k m -> lb k (aset k' v m).
Proof.
  induction m as [|[a b] r IH]; simpl; intros k k' v L H; auto.
  destruct H. destruct (k' <? a); simpl; auto. destruct (k' =? a); simpl; auto.
Qed.

Lemma ksorted_aset : forall m k v, ksorted m -> ksorted (aset k v m).
Proof.
  induction m as [|[a b] r IH]; simpl; intros k v H; auto.
  destruct H as [L S]. destruct (Nat.ltb_spec k a); simpl.
  { repeat split; auto. apply (lb_weaken r a); auto; lia. }
  destruct (Nat.eqb_spec k a); simpl. { subst; auto. }
  split; auto. apply lb_aset; auto; lia.
Qed.

Lemma lb_adel : forall m k k', lb k m -> lb k (adel k' m).
Proof.
  induction m as [|[a b] r IH]; simpl; intros; auto. destruct H.
  destruct (negb (k' =? a)); simpl; auto.
Qed.

Lemma ksorted_adel : forall m k, ksorted m -> ksorted (adel k m).
Proof.
  induction m as [|[a b] r IH]; simpl; intros k H; auto. destruct H.
  destruct (negb (k =? a)); simpl; auto. split; auto. apply lb_adel; auto.
Qed.

(* sums over the values *)
Definition sumf (f : V -> nat) m : nat := fold_right (fun p a => f (snd p) + a) 0 m.
Definition fopt (f : V -> nat) (o : option V) : nat := match o with Some v => f v | None => 0 end.

Lemma sumf_aset : forall f m k v, ksorted m -> sumf f (aset k v m) + fopt f (aget k m) = sumf f m + f v.
Proof.
  induction m as [|[a b] r IH]; simpl; intros k v H. { lia. }
  destruct H as [L S]. destruct (Nat.ltb_spec k a); simpl.
  { destruct (Nat.eqb_spec k a); [lia|]. rewrite (lb_aget_none r a L k) by lia. simpl. lia. }
  destruct (Nat.eqb_spec k a); simpl. { lia. }
  specialize (IH k v S). lia.
Qed.

Lemma sumf_adel : forall f m k, ksorted m -> sumf f (adel k m) + fopt f (aget k m) = sumf f m.
Proof.
  induction m as [|[a b] r IH]; simpl; intros k H; auto.
  destruct H as [L S]. destruct (Nat.eqb_spec k a); simpl.
  { subst. assert (adel a r = r) as ->; [|lia].
    clear -L. induction r as [|[c d] r IH]; simpl in *; auto. destruct L.
    destruct (Nat.eqb_spec a c); [lia|]. simpl. rewrite IH; auto. }
  specialize (IH k S). lia.
Qed.

Lemma aget_In : forall m k v, aget k m = Some v -> In (k, v) m.
Proof.
  induction m as [|[a b] r IH]; simpl; intros; [discriminate|].
  destruct (Nat.eqb_spec k a); [inversion H; subst; auto|]. right; auto.
Qed.

End A.
