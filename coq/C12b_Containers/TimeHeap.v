(* C12b - model of ds/timeheap/timeheap.go (after the D12b repair: Clear resets total).
   Time is abstract: every operation carries the reading [now] of the clock (Z, any unit) that time.Now()/time.Since
   would have seen; one reading per call (the real AveragePerSecond reads the clock once per popped entry, the
   harness keeps windows far away from the duration of a call).
   The binary heap of container/heap is abstracted to its contract: Pop returns an entry whose timestamp is least
   (first such entry of the list); Push adds an entry.  total is a uint64: arithmetic mod 2^64.
   AveragePerSecond returns float32(total)/float32(window seconds); the model returns [total] (the harness
   recovers it from the float). *)
From Coq Require Import ZArith NArith List Bool.
Import ListNotations.

Definition W : N := 18446744073709551616.   (* 2^64 *)

Record entry := { ts : Z; cnt : N }.
Record st := { heap : list entry; total : N }.

Definition init : st := {| heap := []; total := 0 |}.

Inductive op :=
| Add (now : Z) (c : N)
| Clear
| Average (now : Z) (window : Z).      (* window = timeBefore, a signed duration *)

Inductive out := ONone | OTotal (t : N).

(* heap.Pop: remove the first entry with the least timestamp *)
Fixpoint min_ts (e : entry) (l : list entry) : Z :=
  match l with
  | [] => ts e
  | x :: r => Z.min (ts e) (min_ts x r)
  end.

Fixpoint remove_first (t : Z) (l : list entry) : option (entry * list entry) :=
  match l with
  | [] => None
  | x :: r => if Z.eqb (ts x) t then Some (x, r)
              else match remove_first t r with
                   | Some (e, r') => Some (e, x :: r')
                   | None => None
                   end
  end.

Definition pop_min (l : list entry) : option (entry * list entry) :=
  match l with
  | [] => None
  | x :: r => remove_first (min_ts x r) l
  end.

Definition subw (a b : N) : N := ((a + W - b mod W) mod W)%N.
Definition addw (a b : N) : N := ((a + b) mod W)%N.

(* the loop `for range lenHeap` of AveragePerSecond: [fuel] iterations *)
Fixpoint expire (fuel : nat) (now window : Z) (h : list entry) (tot : N) : list entry * N :=
  match fuel with
  | O => (h, tot)
  | S f =>
      match pop_min h with
      | None => (h, tot)
      | Some (oldest, h') =>
          if (now - ts oldest <? window)%Z then (oldest :: h', tot)     (* push back, break *)
          else expire f now window h' (subw tot (cnt oldest))
      end
  end.

Definition step (s : st) (o : op) : st * out :=
  match o with
  | Add now c => ({| heap := {| ts := now; cnt := c |} :: heap s; total := addw (total s) c |}, ONone)
  | Clear => ({| heap := []; total := 0 |}, ONone)
  | Average now w =>
      let '(h, t) := expire (length (heap s)) now w (heap s) (total s) in
      ({| heap := h; total := t |}, OTotal t)
  end.

(* the pinned Clear kept total (D12b) *)
Definition step_pinned (s : st) (o : op) : st * out :=
  match o with
  | Clear => ({| heap := []; total := total s |}, ONone)
  | _ => step s o
  end.

Fixpoint run_gen (stp : st -> op -> st * out) (s : st) (h : list op) : st * list out :=
  match h with
  | [] => (s, [])
  | o :: r => let '(s1, x) := stp s o in let '(s2, xs) := run_gen stp s1 r in (s2, x :: xs)
  end.
Definition run := run_gen step.
Definition run_pinned := run_gen step_pinned.

(* ---- abstract specification: the live entries; Average drops the expired ones and reports the sum of the rest ---- *)
Definition sumc (l : list entry) : N := fold_right (fun e a => (cnt e + a)%N) 0%N l.
Definition in_window (now window : Z) (e : entry) : bool := (now - ts e <? window)%Z.

Definition spec_step (l : list entry) (o : op) : list entry * out :=
  match o with
  | Add now c => ({| ts := now; cnt := c |} :: l, ONone)
  | Clear => ([], ONone)
  | Average now w => let l' := filter (in_window now w) l in (l', OTotal (sumc l' mod W)%N)
  end.

Fixpoint spec_run (l : list entry) (h : list op) : list entry * list out :=
  match h with
  | [] => (l, [])
  | o :: r => let '(l1, x) := spec_step l o in let '(l2, xs) := spec_run l1 r in (l2, x :: xs)
  end.
