(* C12b - OnChangeMap: a keyed store; the item callbacks mirror every change; disabled callbacks are silent. *)
From Coq Require Import Arith List Bool Lia.
From Verif.C12b_Containers Require Import AMap AMapProofs OnChangeMap.
Import ListNotations.

(* ---- keyed store: the map operations answer like a total function id -> option payload ---- *)
Definition upd (f : nat -> option nat) (k : nat) (v : option nat) : nat -> option nat :=
  fun x => if x =? k then v else f x.

Definition store_step (f : nat -> option nat) (o : op) : nat -> option nat :=
  match o with
  | Add id p _ _ => match f id with Some _ => f | None => upd f id (Some p) end
  | Modify id (Some p) _ _ _ => match f id with Some _ => upd f id (Some p) | None => f end
  | Delete id _ _ => upd f id None
  | _ => f
  end.

Lemma exec_changed_m : forall s fc, m (fst (exec_changed s fc)) = m s.
Proof. intros; unfold exec_changed. destruct (negb (enabled s)); auto. destruct (cbChanged (conf s)); auto. Qed.

Lemma exec_item_m : forall s cb e fc fi, m (fst (exec_item s cb e fc fi)) = m s.
Proof.
  intros; unfold exec_item. destruct (negb (enabled s)); auto.
  pose proof (exec_changed_m s fc) as E. destruct (exec_changed s fc) as [s1 r]; simpl in *.
  destruct r; auto. destruct cb; auto.
Qed.

Lemma step_store : forall s o k, aget k (m (fst (step s o))) = store_step (fun x => aget x (m s)) o k.
Proof.
  intros s o k. destruct o as [b|fc| |id|id p fc fi|id newp ret fc fi|id fc fi]; simpl; auto.
  - pose proof (exec_changed_m s fc) as E. destruct (exec_changed s fc); simpl in *. rewrite E; auto.
  - unfold ahas. destruct (aget id (m s)) eqn:A; simpl; auto.
    match goal with |- context [exec_item ?a ?b ?c fc fi] => pose proof (exec_item_m a b c fc fi) as E end.
    destruct (exec_item _ _ _ fc fi); simpl in *. rewrite E.
    unfold upd. destruct (Nat.eqb_spec k id); subst; [apply aget_aset_eq|apply aget_aset_neq; auto].
  - destruct (aget id (m s)) as [p0|] eqn:A; simpl. 2:{ destruct newp; auto; rewrite A; auto. }
    assert (Y : aget k (aset id (match newp with Some p' => p' | None => p0 end) (m s))
                = match newp with Some p => upd (fun x => aget x (m s)) id (Some p) k | None => aget k (m s) end).
    { destruct newp; unfold upd; destruct (Nat.eqb_spec k id); subst;
        rewrite ?aget_aset_eq, ?aget_aset_neq by auto; auto. }
    destruct (negb ret); simpl.
    + rewrite Y. destruct newp; auto; rewrite A; auto.
    + match goal with |- context [exec_item ?a ?b ?c fc fi] => pose proof (exec_item_m a b c fc fi) as E end.
      destruct (exec_item _ _ _ fc fi); simpl in *. rewrite E, Y. destruct newp; auto; rewrite A; auto.
  - destruct (aget id (m s)) as [p0|] eqn:A; simpl.
    + match goal with |- context [exec_item ?a ?b ?c fc fi] => pose proof (exec_item_m a b c fc fi) as E end.
      destruct (exec_item _ _ _ fc fi); simpl in *. rewrite E.
      unfold upd. destruct (Nat.eqb_spec k id); subst; [apply aget_adel_eq|apply aget_adel_neq; auto].
    + unfold upd. destruct (Nat.eqb_spec k id); subst; auto.
Qed.

Lemma store_step_ext : forall f g o, (forall y, f y = g y) -> forall z, store_step f o z = store_step g o z.
Proof.
  intros f g o FG z. destruct o as [b|fc| |id|id p fc fi|id newp ret fc fi|id fc fi]; simpl; auto.
  - rewrite (FG id). destruct (g id); auto. unfold upd. rewrite FG; auto.
  - destruct newp; auto. rewrite (FG id). destruct (g id); auto. unfold upd. rewrite FG; auto.
  - unfold upd. rewrite FG; auto.
Qed.

Lemma fold_store_ext : forall f g, (forall y, f y = g y) -> forall l y, fold_left store_step l f y = fold_left store_step l g y.
Proof.
  intros f g FG l; revert f g FG. induction l as [|a l IHl]; intros; simpl; auto.
  apply IHl. intros z. apply store_step_ext; auto.
Qed.

(* the store is a plain keyed store for every history, whatever the callbacks do *)
Theorem oc_keyed_store : forall h s k,
  aget k (m (fst (run s h))) = fold_left store_step h (fun x => aget x (m s)) k.
Proof.
  induction h as [|o r IH]; intros s k; simpl; auto.
  destruct (step s o) as [s1 x] eqn:E. specialize (IH s1). destruct (run s1 r) as [s2 xs]. simpl in *.
  rewrite IH.
  assert (F := fold_store_ext).
  apply F. intros y. replace s1 with (fst (step s o)) by (rewrite E; auto). apply step_store.
Qed.

(* ---- callbacks mirror the changes ---- *)
Definition item_cbs (c : cfg) : Prop := cbAdded c = true /\ cbModified c = true /\ cbDeleted c = true.

(* an operation whose change is reported: callbacks are not switched off, the changed callback does not fail
   (a failing changed callback cuts the item callback short), a Modify callback that denies a change made none *)
Definition reported (o : op) : Prop :=
  match o with
  | Enable b => b = true
  | Add _ _ fc _ | Delete _ fc _ => fc = false
  | Modify _ newp ret fc _ => fc = false /\ (ret = false -> newp = None)
  | _ => True
  end.

Definition Mirror (s : st) : Prop :=
  enabled s = true /\ item_cbs (conf s) /\ forall k, aget k (replay [] (log s)) = aget k (m s).

Lemma replay_snoc : forall sh l e, replay sh (l ++ [e]) = apply_ev (replay sh l) e.
Proof. intros; unfold replay; rewrite fold_left_app; auto. Qed.

Lemma exec_changed_mirror : forall s, enabled s = true ->
  let s1 := fst (exec_changed s false) in
  snd (exec_changed s false) = Ok /\ m s1 = m s /\ conf s1 = conf s /\ enabled s1 = true /\
  replay [] (log s1) = replay [] (log s).
Proof.
  intros s En. unfold exec_changed. rewrite En; simpl. destruct (cbChanged (conf s)); simpl; auto.
  repeat split; auto. rewrite replay_snoc; auto.
Qed.

Lemma exec_item_mirror : forall s e fi, enabled s = true ->
  let s1 := fst (exec_item s true e false fi) in
  m s1 = m s /\ conf s1 = conf s /\ enabled s1 = true /\ replay [] (log s1) = apply_ev (replay [] (log s)) e.
Proof.
  intros s e fi En. unfold exec_item. rewrite En; simpl.
  pose proof (exec_changed_mirror s En) as (R & M1 & C1 & E1 & L1).
  destruct (exec_changed s false) as [s1 r]; simpl in *. subst r. simpl.
  repeat split; auto. rewrite replay_snoc, L1; auto.
Qed.

Lemma step_mirror : forall s o, Mirror s -> reported o -> Mirror (fst (step s o)).
Proof.
  intros s o (En & (CA & CM & CD) & R) Rep. unfold Mirror, item_cbs.
  destruct o as [b|fc| |id|id p fc fi|id newp ret fc fi|id fc fi]; simpl in *; subst; try solve [repeat split; auto].
  - unfold exec_changed. rewrite En; simpl. destruct (cbChanged (conf s)); simpl; repeat split; auto.
    intros k; rewrite replay_snoc; simpl; auto.
  - destruct (ahas id (m s)); simpl; [repeat split; auto|]. rewrite CA.
    pose proof (exec_item_mirror (with_m s (aset id p (m s))) (EvAdded id p) fi En) as (M1 & C1 & E1 & L1).
    destruct (exec_item _ _ _ _ _) as [s1 r]; simpl in *.
    rewrite C1, E1, M1, L1. repeat split; auto. intros k. simpl.
    destruct (Nat.eq_dec id k); subst; [rewrite !aget_aset_eq|rewrite !aget_aset_neq by auto]; auto.
  - destruct Rep as [-> Hon]. destruct (aget id (m s)) as [p0|] eqn:A; simpl; [|repeat split; auto].
    destruct ret; simpl.
    + rewrite CM. set (p := match newp with Some p' => p' | None => p0 end).
      pose proof (exec_item_mirror (with_m s (aset id p (m s))) (EvModified id p) fi En) as (M1 & C1 & E1 & L1).
      destruct (exec_item _ _ _ _ _) as [s1 r]; simpl in *.
      rewrite C1, E1, M1, L1. repeat split; auto. intros k. simpl.
      destruct (Nat.eq_dec id k); subst; [rewrite !aget_aset_eq|rewrite !aget_aset_neq by auto]; auto.
    + rewrite (Hon eq_refl). repeat split; auto. intros k.
      destruct (Nat.eq_dec id k); subst; [rewrite aget_aset_eq, R; auto|rewrite aget_aset_neq by auto; auto].
  - destruct (aget id (m s)) as [p0|] eqn:A; simpl; [|repeat split; auto]. rewrite CD.
    pose proof (exec_item_mirror (with_m s (adel id (m s))) (EvDeleted id p0) fi En) as (M1 & C1 & E1 & L1).
    destruct (exec_item _ _ _ _ _) as [s1 r]; simpl in *.
    rewrite C1, E1, M1, L1. repeat split; auto. intros k. simpl.
    destruct (Nat.eq_dec id k); subst; [rewrite !aget_adel_eq|rewrite !aget_adel_neq by auto]; auto.
Qed.

(* what a subscriber rebuilds from Added/Modified/Deleted is the map, after every history of reported operations *)
Theorem oc_callbacks_mirror : forall c h, item_cbs c -> Forall reported h ->
  let s := fst (run (init c) (Enable true :: h)) in
  forall k, aget k (replay [] (log s)) = aget k (m s).
Proof.
  intros c h IC F. cbv zeta.
  assert (M0 : Mirror (fst (step (init c) (Enable true)))) by (simpl; split; [auto|split; [exact IC|intros; reflexivity]]).
  simpl. set (s0 := {| conf := c; m := []; enabled := true; log := [] |}) in *.
  assert (G : forall h s, Mirror s -> Forall reported h -> Mirror (fst (run s h))).
  { clear. induction h as [|o r IH]; intros s M F; simpl; auto.
    inversion F; subst. pose proof (step_mirror s o M H1) as M1.
    destruct (step s o) as [s1 x]. specialize (IH s1 M1 H2). destruct (run s1 r); auto. }
  specialize (G h s0 M0 F). destruct (run s0 h) as [s2 xs]; simpl in *. apply G.
Qed.

(* the changed callback always sees the contents after the change *)
Theorem oc_changed_sees_contents : forall s o items,
  In (EvChanged items) (skipn (length (log s)) (log (fst (step s o)))) -> items = m (fst (step s o)).
Proof.
  assert (SK : forall (l : list ev) x, skipn (length l) (l ++ x) = x).
  { intros. rewrite skipn_app, skipn_all, Nat.sub_diag; auto. }
  assert (SK0 : forall (l : list ev), skipn (length l) l = []) by (intros; apply skipn_all).
  assert (X : forall s0 cb e fc fi items, (forall a b, e <> EvChanged a \/ b = true) ->
     In (EvChanged items) (skipn (length (log s0)) (log (fst (exec_item s0 cb e fc fi)))) ->
     items = m (fst (exec_item s0 cb e fc fi))).
  { intros s0 cb e fc fi items NE. unfold exec_item, exec_changed.
    destruct (negb (enabled s0)); simpl. { rewrite SK0; simpl; tauto. }
    destruct (cbChanged (conf s0)); simpl.
    - destruct fc; simpl.
      + rewrite SK; simpl. intros [H|[]]; inversion H; auto.
      + destruct cb; simpl.
        * rewrite <- app_assoc, SK; simpl. intros [H|[H|[]]]; [inversion H; auto|].
          destruct (NE items false) as [N|N]; [congruence|discriminate].
        * rewrite SK; simpl. intros [H|[]]; inversion H; auto.
    - destruct cb; simpl; [rewrite SK|rewrite SK0]; simpl; try tauto.
      intros [H|[]]. destruct (NE items false) as [N|N]; [congruence|discriminate]. }
  intros s o items. destruct o as [b|fc| |id|id p fc fi|id newp ret fc fi|id fc fi]; simpl; try (rewrite SK0; simpl; tauto).
  - unfold exec_changed. destruct (negb (enabled s)); simpl; [rewrite SK0; simpl; tauto|].
    destruct (cbChanged (conf s)); simpl; [rewrite SK|rewrite SK0]; simpl; try tauto. intros [H|[]]; inversion H; auto.
  - destruct (ahas id (m s)); simpl; [rewrite SK0; simpl; tauto|].
    pose proof (X (with_m s (aset id p (m s))) (cbAdded (conf s)) (EvAdded id p) fc fi items) as XX.
    destruct (exec_item _ _ _ _ _); simpl in *. apply XX. left; discriminate.
  - destruct (aget id (m s)); simpl; [|rewrite SK0; simpl; tauto].
    destruct (negb ret); simpl; [rewrite SK0; simpl; tauto|].
    match goal with |- context [exec_item ?a ?b ?c fc fi] => pose proof (X a b c fc fi items) as XX end.
    destruct (exec_item _ _ _ _ _); simpl in *. apply XX. left; discriminate.
  - destruct (aget id (m s)); simpl; [|rewrite SK0; simpl; tauto].
    match goal with |- context [exec_item ?a ?b ?c fc fi] => pose proof (X a b c fc fi items) as XX end.
    destruct (exec_item _ _ _ _ _); simpl in *. apply XX. left; discriminate.
Qed.

(* with callbacks disabled nothing is called *)
Theorem oc_disabled_silent : forall s o, enabled s = false -> log (fst (step s o)) = log s.
Proof.
  intros s o En. destruct o as [b|fc| |id|id p fc fi|id newp ret fc fi|id fc fi]; simpl; auto.
  - unfold exec_changed; rewrite En; auto.
  - destruct (ahas id (m s)); simpl; auto. unfold exec_item; simpl; rewrite En; auto.
  - destruct (aget id (m s)); simpl; auto. destruct (negb ret); simpl; auto. unfold exec_item; simpl; rewrite En; auto.
  - destruct (aget id (m s)); simpl; auto. unfold exec_item; simpl; rewrite En; auto.
Qed.

Example oc_example :
  let c := {| cbChanged := true; cbAdded := true; cbModified := true; cbDeleted := true |} in
  log (fst (run (init c) [Enable true; Add 1 5 false false; Modify 1 (Some 6) true false true; Delete 1 false false]))
  = [EvChanged [(1, 5)]; EvAdded 1 5; EvChanged [(1, 6)]; EvModified 1 6; EvChanged []; EvDeleted 1 6].
Proof. reflexivity. Qed.
