(* C12b - SubscriptionManager: global count per topic = sum over clients; the event log mirrors every state change. *)
From Coq Require Import Arith List Bool Lia.
From Verif.C12b_Containers Require Import AMap AMapProofs SubMgr.
Import ListNotations.

Definition getc (t : nat) (m : amap nat) : nat := match aget t m with Some n => n | None => 0 end.
Definition hasn {V} (k : nat) (m : amap V) : nat := if ahas k m then 1 else 0.
Definition pos (m : amap nat) : Prop := forall t n, aget t m = Some n -> 1 <= n.
Definition cntn (t : nat) (l : list nat) : nat := length (filter (Nat.eqb t) l).
Definition countE (p : ev -> bool) (es : list ev) : nat := length (filter p es).

Definition isSub c t e := match e with ESubscribed c' t' => (c =? c') && (t =? t') | _ => false end.
Definition isUnsub c t e := match e with EUnsubscribed c' t' => (c =? c') && (t =? t') | _ => false end.
Definition isAdded t e := match e with ETopicAdded t' => t =? t' | _ => false end.
Definition isRemoved t e := match e with ETopicRemoved t' => t =? t' | _ => false end.
Definition isConn c e := match e with EConnected c' => c =? c' | _ => false end.
Definition isDisc c e := match e with EDisconnected c' => c =? c' | _ => false end.

Lemma countE_app : forall p a b, countE p (a ++ b) = countE p a + countE p b.
Proof. intros; unfold countE; rewrite filter_app, app_length; auto. Qed.
Lemma cntn_app : forall t a b, cntn t (a ++ b) = cntn t a + cntn t b.
Proof. intros; unfold cntn; rewrite filter_app, app_length; auto. Qed.
Lemma cntn_repeat : forall t t0 n, cntn t (repeat t0 n) = if t =? t0 then n else 0.
Proof.
  induction n; simpl. { destruct (t =? t0); auto. }
  unfold cntn in *; simpl. destruct (t =? t0); simpl; rewrite IHn; auto.
Qed.
Lemma countE_map : forall p (f : nat -> ev) l, countE p (map f l) = length (filter (fun x => p (f x)) l).
Proof. induction l; simpl; auto. unfold countE in *; simpl. destruct (p (f a)); simpl; rewrite IHl; auto. Qed.
Lemma countE_map_none : forall p (f : nat -> ev) l, (forall x, p (f x) = false) -> countE p (map f l) = 0.
Proof. intros. rewrite countE_map. induction l; simpl; auto. rewrite H; auto. Qed.

Lemma getc_aset_eq : forall t n m, getc t (aset t n m) = n.
Proof. intros; unfold getc; rewrite aget_aset_eq; auto. Qed.
Lemma getc_aset_neq : forall t t' n m, t <> t' -> getc t' (aset t n m) = getc t' m.
Proof. intros; unfold getc; rewrite aget_aset_neq; auto. Qed.
Lemma getc_adel_eq : forall t m, getc t (adel t m) = 0.
Proof. intros; unfold getc; rewrite aget_adel_eq; auto. Qed.
Lemma getc_adel_neq : forall t t' m, t <> t' -> getc t' (adel t m) = getc t' m.
Proof. intros; unfold getc; rewrite aget_adel_neq; auto. Qed.
Lemma hasn_aset_eq : forall {V} k (v : V) m, hasn k (aset k v m) = 1.
Proof. intros; unfold hasn, ahas; rewrite aget_aset_eq; auto. Qed.
Lemma hasn_aset_neq : forall {V} k k' (v : V) m, k <> k' -> hasn k' (aset k v m) = hasn k' m.
Proof. intros; unfold hasn, ahas; rewrite aget_aset_neq; auto. Qed.
Lemma hasn_adel_eq : forall {V} k (m : amap V), hasn k (adel k m) = 0.
Proof. intros; unfold hasn, ahas; rewrite aget_adel_eq; auto. Qed.
Lemma hasn_adel_neq : forall {V} k k' (m : amap V), k <> k' -> hasn k' (adel k m) = hasn k' m.
Proof. intros; unfold hasn, ahas; rewrite aget_adel_neq; auto. Qed.

Lemma pos_aset : forall t n m, pos m -> 1 <= n -> pos (aset t n m).
Proof.
  unfold pos; intros t n m P N t' n' H. destruct (Nat.eq_dec t t').
  - subst; rewrite aget_aset_eq in H; inversion H; subst; auto.
  - rewrite aget_aset_neq in H; eauto.
Qed.
Lemma pos_adel : forall t m, pos m -> pos (adel t m).
Proof.
  unfold pos; intros t m P t' n' H. destruct (Nat.eq_dec t t').
  - subst; rewrite aget_adel_eq in H; discriminate.
  - rewrite aget_adel_neq in H; eauto.
Qed.
Lemma pos_nil : pos [].
Proof. unfold pos; simpl; intros; discriminate. Qed.

(* ---- the ForEach body of the cleanup ---- *)
Lemma cleanup_topics_spec : forall tm tp, ksorted tm -> pos tp ->
  pos (fst (fst (cleanup_topics tm tp))) /\
  (forall t, getc t (fst (fst (cleanup_topics tm tp))) = getc t tp - getc t tm) /\
  (forall t, cntn t (snd (cleanup_topics tm tp)) = getc t tm) /\
  (forall t, hasn t (fst (fst (cleanup_topics tm tp))) + cntn t (snd (fst (cleanup_topics tm tp))) = hasn t tp).
Proof.
  induction tm as [|[t0 c0] r IH]; intros tp KS P.
  { simpl. repeat split; auto; intros; unfold getc; simpl; lia. }
  destruct KS as [LB KS]. simpl.
  set (first := match aget t0 tp with
                | Some g => if g <=? c0 then (adel t0 tp, [t0]) else (aset t0 (g - c0) tp, [])
                | None => (tp, [])
                end).
  assert (F : pos (fst first) /\ (forall t, getc t (fst first) = getc t tp - (if t =? t0 then c0 else 0))
              /\ (forall t, hasn t (fst first) + cntn t (snd first) = hasn t tp)).
  { unfold first. destruct (aget t0 tp) as [g|] eqn:A.
    - destruct (Nat.leb_spec g c0); simpl.
      + split; [apply pos_adel; auto|]. split; intros t; destruct (Nat.eqb_spec t t0); subst.
        * rewrite getc_adel_eq. unfold getc; rewrite A; lia.
        * rewrite getc_adel_neq by auto; lia.
        * rewrite hasn_adel_eq. unfold cntn; simpl. rewrite Nat.eqb_refl. unfold hasn, ahas; rewrite A; auto.
        * rewrite hasn_adel_neq by auto. unfold cntn; simpl. destruct (Nat.eqb_spec t t0); [congruence|]. simpl; lia.
      + split; [apply pos_aset; auto; lia|]. split; intros t; destruct (Nat.eqb_spec t t0); subst.
        * rewrite getc_aset_eq. unfold getc; rewrite A; lia.
        * rewrite getc_aset_neq by auto; lia.
        * rewrite hasn_aset_eq. unfold hasn, ahas; rewrite A; auto.
        * rewrite hasn_aset_neq by auto. unfold cntn; simpl; lia.
    - simpl. split; auto. split; intros t; [|unfold cntn; simpl; lia].
      destruct (Nat.eqb_spec t t0); subst; [unfold getc; rewrite A|]; lia. }
  destruct first as [tp1 rem1]. simpl in F. destruct F as (P1 & G1 & H1).
  specialize (IH tp1 KS P1). destruct (cleanup_topics r tp1) as [[tp2 rem] uns]. simpl in *.
  destruct IH as (P2 & G2 & U2 & H2).
  assert (Z : getc t0 r = 0). { unfold getc. rewrite (lb_aget_none r t0 LB t0); auto. }
  repeat split; auto.
  - intros t. rewrite G2, G1. unfold getc at 4; simpl. destruct (Nat.eqb_spec t t0); subst.
    + rewrite Z; lia.
    + fold (getc t r). lia.
  - intros t. rewrite cntn_app, cntn_repeat, U2. unfold getc at 2; simpl. destruct (Nat.eqb_spec t t0); subst.
    + rewrite Z; lia.
    + fold (getc t r); lia.
  - intros t. rewrite cntn_app. specialize (H2 t). specialize (H1 t). lia.
Qed.

(* ---- invariant ---- *)
Definition G (s : st) (t : nat) : nat := getc t (topics s).
Definition Cc (s : st) (c t : nat) : nat := match aget c (subs s) with Some tm => getc t tm | None => 0 end.
Definition Sum (s : st) (t : nat) : nat := sumf (getc t) (subs s).

Lemma Cc_client_count : forall s c t, Cc s c t = client_count s c t.
Proof. reflexivity. Qed.
Lemma G_global_count : forall s t, G s t = global_count s t.
Proof. reflexivity. Qed.
Lemma Sum_sum_clients : forall s t, Sum s t = sum_clients s t.
Proof. reflexivity. Qed.

Record Inv (s : st) : Prop := {
  inv_sorted : ksorted (subs s);
  inv_clients : forall c tm, aget c (subs s) = Some tm -> ksorted tm /\ pos tm;
  inv_topics : pos (topics s);
  inv_sum : forall t, G s t = Sum s t
}.

Lemma inv_init : forall mx, Inv (init mx).
Proof. intros; constructor; simpl; auto; try discriminate; try apply pos_nil. Qed.

Definition balance (s s' : st) (es : list ev) : Prop :=
  (forall c t, Cc s' c t + countE (isUnsub c t) es = Cc s c t + countE (isSub c t) es) /\
  (forall t, hasn t (topics s') + countE (isRemoved t) es = hasn t (topics s) + countE (isAdded t) es) /\
  (forall c, hasn c (subs s') + countE (isDisc c) es = hasn c (subs s) + countE (isConn c) es).

Lemma balance_refl : forall s, balance s s [].
Proof. intros; repeat split; intros; simpl; auto. Qed.

Lemma fopt_getc : forall t (sb : amap (amap nat)) c, fopt (getc t) (aget c sb) = match aget c sb with Some tm => getc t tm | None => 0 end.
Proof. intros; destruct (aget c sb); auto. Qed.

(* cleanup of a connected client *)
Lemma cleanup_spec : forall s c tm, Inv s -> aget c (subs s) = Some tm ->
  exists s1 rem uns, cleanup s c = (s1, true, rem, uns) /\
    maxsubs s1 = maxsubs s /\ subs s1 = adel c (subs s) /\
    Inv s1 /\
    (forall t, cntn t uns = getc t tm) /\
    (forall t, hasn t (topics s1) + cntn t rem = hasn t (topics s)).
Proof.
  intros s c tm I A. unfold cleanup. rewrite A.
  destruct (inv_clients s I c tm A) as [KS PS].
  pose proof (cleanup_topics_spec tm (topics s) KS (inv_topics s I)) as (P & Gt & U & H).
  destruct (cleanup_topics tm (topics s)) as [[tp rem] uns]. simpl in *.
  eexists _, rem, uns. split; [reflexivity|]. simpl.
  split; [reflexivity|]. split; [reflexivity|]. split; [|split; auto].
  constructor; simpl; auto.
  - apply ksorted_adel, (inv_sorted s I).
  - intros c' tm' A'. destruct (Nat.eq_dec c c'); [subst; rewrite aget_adel_eq in A'; discriminate|].
    rewrite aget_adel_neq in A' by auto. apply (inv_clients s I c' tm' A').
  - intros t. unfold G, Sum; simpl. rewrite Gt.
    pose proof (sumf_adel (getc t) (subs s) c (inv_sorted s I)) as E. rewrite A in E; simpl in E.
    pose proof (inv_sum s I t) as E2. unfold G, Sum in E2. lia.
Qed.

Lemma countE_cleanup_events : forall p c rem uns,
  countE p (cleanup_events c rem uns) = countE p (map ETopicRemoved rem) + countE p (map (EUnsubscribed c) uns).
Proof. intros; unfold cleanup_events; apply countE_app. Qed.

Lemma count_unsub_map : forall c t c' uns, countE (isUnsub c t) (map (EUnsubscribed c') uns) = if c =? c' then cntn t uns else 0.
Proof.
  intros. rewrite countE_map. unfold cntn. simpl. destruct (c =? c'); simpl; auto.
  induction uns; simpl; auto.
Qed.
Lemma count_removed_map : forall t rem, countE (isRemoved t) (map ETopicRemoved rem) = cntn t rem.
Proof. intros. rewrite countE_map. reflexivity. Qed.

(* balance of a cleanup, with trailing events [tail] that contain no subscribe/unsubscribe/topic events *)
Lemma cleanup_balance : forall s c tm s1 rem uns, Inv s -> aget c (subs s) = Some tm ->
  subs s1 = adel c (subs s) ->
  (forall t, cntn t uns = getc t tm) ->
  (forall t, hasn t (topics s1) + cntn t rem = hasn t (topics s)) ->
  balance s s1 (cleanup_events c rem uns ++ [EDisconnected c]).
Proof.
  intros s c tm s1 rem uns I A SB U H. repeat split.
  - intros c' t. rewrite !countE_app, !countE_cleanup_events.
    rewrite (countE_map_none (isUnsub c' t) ETopicRemoved), (countE_map_none (isSub c' t) ETopicRemoved) by auto.
    rewrite (countE_map_none (isSub c' t) (EUnsubscribed c)) by auto.
    rewrite count_unsub_map. unfold Cc. rewrite SB. simpl.
    destruct (Nat.eqb_spec c' c); subst.
    + rewrite aget_adel_eq, A, U. unfold countE; simpl. lia.
    + rewrite aget_adel_neq by auto. unfold countE; simpl. lia.
  - intros t. rewrite !countE_app, !countE_cleanup_events.
    rewrite count_removed_map.
    rewrite (countE_map_none (isRemoved t) (EUnsubscribed c)), (countE_map_none (isAdded t) ETopicRemoved),
            (countE_map_none (isAdded t) (EUnsubscribed c)) by auto.
    specialize (H t). unfold countE; simpl. lia.
  - intros c'. rewrite !countE_app, !countE_cleanup_events.
    rewrite (countE_map_none (isDisc c') ETopicRemoved), (countE_map_none (isDisc c') (EUnsubscribed c)),
            (countE_map_none (isConn c') ETopicRemoved), (countE_map_none (isConn c') (EUnsubscribed c)) by auto.
    rewrite SB. unfold countE; simpl. destruct (Nat.eqb_spec c' c); subst; simpl.
    + rewrite hasn_adel_eq. unfold hasn, ahas; rewrite A; auto.
    + rewrite hasn_adel_neq by auto. lia.
Qed.

Lemma balance_trans : forall s1 s2 s3 e1 e2, balance s1 s2 e1 -> balance s2 s3 e2 -> balance s1 s3 (e1 ++ e2).
Proof.
  intros s1 s2 s3 e1 e2 (A1 & B1 & C1) (A2 & B2 & C2). repeat split; intros; rewrite !countE_app.
  - specialize (A1 c t); specialize (A2 c t); lia.
  - specialize (B1 t); specialize (B2 t); lia.
  - specialize (C1 c); specialize (C2 c); lia.
Qed.

Lemma balance_drop : forall s s' a c, balance s s' (a ++ [EDisconnected c]) -> balance s s' (a ++ [EDrop c; EDisconnected c]).
Proof.
  intros s s' a c (A & B & C). repeat split; intros.
  - specialize (A c0 t). rewrite !countE_app in *. exact A.
  - specialize (B t). rewrite !countE_app in *. exact B.
  - specialize (C c0). rewrite !countE_app in *. exact C.
Qed.

Definition with_subs (s : st) (sb : amap (amap nat)) : st := {| maxsubs := maxsubs s; subs := sb; topics := topics s |}.

(* replacing a connected client's topic map by one with the same counts changes nothing observable *)
Lemma replace_client_same : forall s c tm tm', Inv s -> aget c (subs s) = Some tm ->
  ksorted tm' -> pos tm' -> (forall t, getc t tm' = getc t tm) ->
  Inv (with_subs s (aset c tm' (subs s))) /\ balance s (with_subs s (aset c tm' (subs s))) [].
Proof.
  intros s c tm tm' I A KS PS E. split.
  - constructor; simpl.
    + apply ksorted_aset, (inv_sorted s I).
    + intros c' x A'. destruct (Nat.eq_dec c c'); subst.
      * rewrite aget_aset_eq in A'; inversion A'; subst; auto.
      * rewrite aget_aset_neq in A' by auto. apply (inv_clients s I c' x A').
    + apply (inv_topics s I).
    + intros t. unfold G, Sum; simpl.
      pose proof (sumf_aset (getc t) (subs s) c tm' (inv_sorted s I)) as S. rewrite A in S; simpl in S.
      pose proof (inv_sum s I t) as S2. unfold G, Sum in S2. rewrite E in S. lia.
  - repeat split; intros; simpl; auto.
    + unfold Cc; simpl. destruct (Nat.eq_dec c c0); subst.
      * rewrite aget_aset_eq, A, E; auto.
      * rewrite aget_aset_neq by auto; auto.
    + destruct (Nat.eq_dec c c0); subst.
      * rewrite hasn_aset_eq. unfold hasn, ahas; rewrite A; auto.
      * rewrite hasn_aset_neq by auto; auto.
Qed.

Lemma connect_fresh : forall s c, Inv s -> aget c (subs s) = None ->
  Inv (with_subs s (aset c [] (subs s))) /\ balance s (with_subs s (aset c [] (subs s))) [EConnected c].
Proof.
  intros s c I A. split.
  - constructor; simpl.
    + apply ksorted_aset, (inv_sorted s I).
    + intros c' x A'. destruct (Nat.eq_dec c c'); subst.
      * rewrite aget_aset_eq in A'; inversion A'; subst. split; simpl; auto. apply pos_nil.
      * rewrite aget_aset_neq in A' by auto. apply (inv_clients s I c' x A').
    + apply (inv_topics s I).
    + intros t. unfold G, Sum; simpl.
      pose proof (sumf_aset (getc t) (subs s) c [] (inv_sorted s I)) as S. rewrite A in S; simpl in S.
      pose proof (inv_sum s I t) as S2. unfold G, Sum in S2. change (getc t []) with 0 in S. rewrite !Nat.add_0_r in S. rewrite S2. symmetry. exact S.
  - repeat split; intros; simpl; auto.
    + unfold Cc; simpl. destruct (Nat.eq_dec c c0); subst.
      * rewrite aget_aset_eq, A. unfold getc; simpl; auto.
      * rewrite aget_aset_neq by auto; auto.
    + unfold countE; simpl. destruct (Nat.eqb_spec c0 c); subst; simpl.
      * rewrite hasn_aset_eq. unfold hasn, ahas; rewrite A; auto.
      * rewrite hasn_aset_neq by auto; lia.
Qed.

Lemma sum_ge_client : forall s c tm t, Inv s -> aget c (subs s) = Some tm -> getc t tm <= Sum s t.
Proof.
  intros s c tm t I A. pose proof (sumf_adel (getc t) (subs s) c (inv_sorted s I)) as S.
  rewrite A in S; simpl in S. unfold Sum; lia.
Qed.

(* a client's count for topic t changes by +1 (subscribe) *)
Lemma subscribe_global : forall s c t tm tm', Inv s -> aget c (subs s) = Some tm ->
  ksorted tm' -> pos tm' -> (forall t', getc t' tm' = getc t' tm + (if t' =? t then 1 else 0)) ->
  let sb := aset c tm' (subs s) in
  let r := match aget t (topics s) with
           | Some g => ({| maxsubs := maxsubs s; subs := sb; topics := aset t (g + 1) (topics s) |}, [ESubscribed c t])
           | None => ({| maxsubs := maxsubs s; subs := sb; topics := aset t 1 (topics s) |}, [ETopicAdded t; ESubscribed c t])
           end in
  Inv (fst r) /\ balance s (fst r) (snd r) /\ maxsubs (fst r) = maxsubs s.
Proof.
  intros s c t tm tm' I A KS PS E sb r.
  assert (SB : forall t', sumf (getc t') sb = Sum s t' + (if t' =? t then 1 else 0)).
  { intros t'. pose proof (sumf_aset (getc t') (subs s) c tm' (inv_sorted s I)) as S. rewrite A in S; simpl in S.
    rewrite E in S. unfold Sum, sb. lia. }
  assert (CL : forall c' x, aget c' sb = Some x -> ksorted x /\ pos x).
  { intros c' x A'. unfold sb in A'. destruct (Nat.eq_dec c c'); subst.
    - rewrite aget_aset_eq in A'; inversion A'; subst; auto.
    - rewrite aget_aset_neq in A' by auto. apply (inv_clients s I c' x A'). }
  assert (CC : forall s', subs s' = sb -> forall c' t', Cc s' c' t' = Cc s c' t' + (if (c' =? c) && (t' =? t) then 1 else 0)).
  { intros s' SS c' t'. unfold Cc. rewrite SS. unfold sb. destruct (Nat.eqb_spec c' c); subst; simpl.
    - rewrite aget_aset_eq, A, E; auto.
    - rewrite aget_aset_neq by auto. lia. }
  assert (HC : forall c', hasn c' sb = hasn c' (subs s)).
  { intros c'. unfold sb. destruct (Nat.eq_dec c c'); subst.
    - rewrite hasn_aset_eq. unfold hasn, ahas; rewrite A; auto.
    - rewrite hasn_aset_neq by auto; auto. }
  pose proof (inv_topics s I) as PT. pose proof (inv_sum s I) as IS. unfold G in IS.
  unfold r. destruct (aget t (topics s)) as [g|] eqn:T; simpl.
  - split; [|split; auto].
    + constructor; simpl; auto.
      * apply ksorted_aset, (inv_sorted s I).
      * apply pos_aset; auto; lia.
      * intros t'. unfold G, Sum; simpl. rewrite SB. destruct (Nat.eqb_spec t' t); subst.
        -- rewrite getc_aset_eq. specialize (IS t). unfold getc in IS at 1. rewrite T in IS. lia.
        -- rewrite getc_aset_neq by auto. rewrite IS; lia.
    + repeat split; intros.
      * rewrite CC by reflexivity. unfold countE; simpl. destruct ((c0 =? c) && (t0 =? t)); simpl; lia.
      * unfold countE; simpl. destruct (Nat.eq_dec t t0); subst.
        -- rewrite hasn_aset_eq. unfold hasn, ahas; rewrite T; auto.
        -- rewrite hasn_aset_neq by auto; lia.
      * simpl. rewrite HC. unfold countE; simpl; lia.
  - split; [|split; auto].
    + constructor; simpl; auto.
      * apply ksorted_aset, (inv_sorted s I).
      * apply pos_aset; auto.
      * intros t'. unfold G, Sum; simpl. rewrite SB. destruct (Nat.eqb_spec t' t); subst.
        -- rewrite getc_aset_eq. specialize (IS t). unfold getc in IS at 1. rewrite T in IS. lia.
        -- rewrite getc_aset_neq by auto. rewrite IS; lia.
    + repeat split; intros.
      * rewrite CC by reflexivity. unfold countE; simpl. destruct ((c0 =? c) && (t0 =? t)); simpl; lia.
      * unfold countE; simpl. destruct (Nat.eqb_spec t0 t); subst; simpl.
        -- rewrite hasn_aset_eq. unfold hasn, ahas; rewrite T; auto.
        -- rewrite hasn_aset_neq by auto; lia.
      * simpl. rewrite HC. unfold countE; simpl; lia.
Qed.

Lemma unsubscribe_ok : forall s c t tm n, Inv s -> aget c (subs s) = Some tm -> aget t tm = Some n ->
  let tm' := if n <=? 1 then adel t tm else aset t (n - 1) tm in
  let sb := aset c tm' (subs s) in
  let r := match aget t (topics s) with
           | None => ({| maxsubs := maxsubs s; subs := sb; topics := topics s |}, [EUnsubscribed c t])
           | Some g =>
               if g <=? 1
               then ({| maxsubs := maxsubs s; subs := sb; topics := adel t (topics s) |}, [ETopicRemoved t; EUnsubscribed c t])
               else ({| maxsubs := maxsubs s; subs := sb; topics := aset t (g - 1) (topics s) |}, [EUnsubscribed c t])
           end in
  Inv (fst r) /\ balance s (fst r) (snd r) /\ maxsubs (fst r) = maxsubs s.
Proof.
  intros s c t tm n I A T tm' sb r.
  destruct (inv_clients s I c tm A) as [KS PS]. pose proof (PS t n T) as N1.
  assert (E : forall t', getc t' tm' + (if t' =? t then 1 else 0) = getc t' tm).
  { intros t'. unfold tm'. destruct (Nat.leb_spec n 1); destruct (Nat.eqb_spec t' t); subst.
    - rewrite getc_adel_eq. unfold getc; rewrite T; lia.
    - rewrite getc_adel_neq by auto; lia.
    - rewrite getc_aset_eq. unfold getc; rewrite T; lia.
    - rewrite getc_aset_neq by auto; lia. }
  assert (KS' : ksorted tm' /\ pos tm').
  { unfold tm'. destruct (Nat.leb_spec n 1).
    - split; [apply ksorted_adel|apply pos_adel]; auto.
    - split; [apply ksorted_aset|apply pos_aset]; auto; lia. }
  assert (SB : forall t', sumf (getc t') sb + (if t' =? t then 1 else 0) = Sum s t').
  { intros t'. pose proof (sumf_aset (getc t') (subs s) c tm' (inv_sorted s I)) as S. rewrite A in S; simpl in S.
    specialize (E t'). unfold Sum, sb. lia. }
  assert (CL : forall c' x, aget c' sb = Some x -> ksorted x /\ pos x).
  { intros c' x A'. unfold sb in A'. destruct (Nat.eq_dec c c'); subst.
    - rewrite aget_aset_eq in A'; inversion A'; subst; auto.
    - rewrite aget_aset_neq in A' by auto. apply (inv_clients s I c' x A'). }
  assert (CC : forall s', subs s' = sb -> forall c' t', Cc s' c' t' = Cc s c' t' - (if (c' =? c) && (t' =? t) then 1 else 0)).
  { intros s' SS c' t'. unfold Cc. rewrite SS. unfold sb. destruct (Nat.eqb_spec c' c); subst; simpl.
    - rewrite aget_aset_eq, A. specialize (E t'). lia.
    - rewrite aget_aset_neq by auto. lia. }
  assert (CG : forall c' t', (if (c' =? c) && (t' =? t) then 1 else 0) <= Cc s c' t').
  { intros c' t'. unfold Cc. destruct (Nat.eqb_spec c' c); subst; simpl; [|lia]. rewrite A. specialize (E t'). lia. }
  assert (HC : forall c', hasn c' sb = hasn c' (subs s)).
  { intros c'. unfold sb. destruct (Nat.eq_dec c c'); subst.
    - rewrite hasn_aset_eq. unfold hasn, ahas; rewrite A; auto.
    - rewrite hasn_aset_neq by auto; auto. }
  pose proof (inv_topics s I) as PT. pose proof (inv_sum s I) as IS. unfold G in IS.
  pose proof (sum_ge_client s c tm t I A) as GE. unfold getc in GE at 1. rewrite T in GE.
  unfold r. destruct (aget t (topics s)) as [g|] eqn:TT; simpl.
  2:{ exfalso. specialize (IS t). unfold getc in IS at 1. rewrite TT in IS. lia. }
  assert (Gg : g = Sum s t). { specialize (IS t). unfold getc in IS at 1. rewrite TT in IS. auto. }
  destruct (Nat.leb_spec g 1); simpl.
  - split; [|split; auto].
    + constructor; simpl; auto.
      * apply ksorted_aset, (inv_sorted s I).
      * apply pos_adel; auto.
      * intros t'. unfold G, Sum; simpl. specialize (SB t'). destruct (Nat.eqb_spec t' t); subst.
        -- rewrite getc_adel_eq. lia.
        -- rewrite getc_adel_neq by auto. rewrite IS; lia.
    + repeat split; intros.
      * rewrite CC by reflexivity. specialize (CG c0 t0). unfold countE; simpl.
        destruct ((c0 =? c) && (t0 =? t)); simpl; lia.
      * unfold countE; simpl. destruct (Nat.eqb_spec t0 t); subst; simpl.
        -- rewrite hasn_adel_eq. unfold hasn, ahas; rewrite TT; auto.
        -- rewrite hasn_adel_neq by auto; lia.
      * simpl. rewrite HC. unfold countE; simpl; lia.
  - split; [|split; auto].
    + constructor; simpl; auto.
      * apply ksorted_aset, (inv_sorted s I).
      * apply pos_aset; auto; lia.
      * intros t'. unfold G, Sum; simpl. specialize (SB t'). destruct (Nat.eqb_spec t' t); subst.
        -- rewrite getc_aset_eq. lia.
        -- rewrite getc_aset_neq by auto. rewrite IS; lia.
    + repeat split; intros.
      * rewrite CC by reflexivity. specialize (CG c0 t0). unfold countE; simpl.
        destruct ((c0 =? c) && (t0 =? t)); simpl; lia.
      * unfold countE; simpl. destruct (Nat.eq_dec t t0); subst.
        -- rewrite hasn_aset_eq. unfold hasn, ahas; rewrite TT; auto.
        -- rewrite hasn_aset_neq by auto; lia.
      * simpl. rewrite HC. unfold countE; simpl; lia.
Qed.

(* ---- every operation preserves the invariant and its events account exactly for the state change ---- *)
Theorem step_inv_balance : forall s o, Inv s ->
  Inv (fst (fst (step s o))) /\ balance s (fst (fst (step s o))) (snd (step s o))
  /\ maxsubs (fst (fst (step s o))) = maxsubs s.
Proof.
  intros s o I. destruct o as [c|c|c t|c t|t|c t| | |]; unfold step; simpl;
    try (split; [exact I|split; [apply balance_refl|reflexivity]]).
  - (* Connect *)
    destruct (aget c (subs s)) as [tm|] eqn:A.
    + destruct (cleanup_spec s c tm I A) as (s1 & rem & uns & CE & MX & SB & I1 & U & H). rewrite CE. simpl.
      assert (A1 : aget c (subs s1) = None) by (rewrite SB; apply aget_adel_eq).
      destruct (connect_fresh s1 c I1 A1) as [I2 B2].
      split; [exact I2|]. split; [|simpl; auto].
      eapply balance_trans; [|exact B2]. eapply cleanup_balance; eauto.
    + unfold cleanup. rewrite A. simpl. destruct (connect_fresh s c I A) as [I2 B2]. split; [exact I2|split; [exact B2|reflexivity]].
  - (* Disconnect *)
    destruct (aget c (subs s)) as [tm|] eqn:A.
    + destruct (cleanup_spec s c tm I A) as (s1 & rem & uns & CE & MX & SB & I1 & U & H). rewrite CE. simpl.
      split; [exact I1|]. split; [|auto]. eapply cleanup_balance; eauto.
    + unfold cleanup. rewrite A. simpl. split; [exact I|split; [apply balance_refl|reflexivity]].
  - (* Subscribe *)
    destruct (aget c (subs s)) as [tm|] eqn:A; simpl; [|split; [exact I|split; [apply balance_refl|reflexivity]]].
    destruct (inv_clients s I c tm A) as [KS PS].
    destruct (aget t tm) as [n|] eqn:T.
    + pose proof (subscribe_global s c t tm (aset t (n + 1) tm) I A (ksorted_aset tm t (n + 1) KS)) as SG.
      cbv zeta in SG. destruct (aget t (topics s)); simpl in *; apply SG; try (apply pos_aset; auto; lia);
        intros t'; (destruct (Nat.eqb_spec t' t); subst; [rewrite getc_aset_eq; unfold getc; rewrite T; lia|rewrite getc_aset_neq by auto; lia]).
    + destruct (negb (maxsubs s =? 0) && (maxsubs s <=? length (aset t 1 tm))) eqn:LIM.
      * (* forced drop *)
        set (tm'' := adel t (aset t 1 tm)).
        assert (E : forall t', getc t' tm'' = getc t' tm).
        { intros t'. unfold tm''. destruct (Nat.eq_dec t t'); subst.
          - rewrite getc_adel_eq. unfold getc; rewrite T; auto.
          - rewrite getc_adel_neq, getc_aset_neq by auto; auto. }
        assert (KS'' : ksorted tm'') by (apply ksorted_adel, ksorted_aset; auto).
        assert (PS'' : pos tm'') by (apply pos_adel, pos_aset; auto).
        destruct (replace_client_same s c tm tm'' I A KS'' PS'' E) as [I0 B0].
        fold (with_subs s (aset c tm'' (subs s))).
        set (s0 := with_subs s (aset c tm'' (subs s))) in *.
        assert (A0 : aget c (subs s0) = Some tm'') by (simpl; apply aget_aset_eq).
        destruct (cleanup_spec s0 c tm'' I0 A0) as (s1 & rem & uns & CE & MX & SB & I1 & U & H). rewrite CE. simpl.
        split; [exact I1|]. split; [|simpl in MX; auto].
        apply balance_drop. change (cleanup_events c rem uns ++ [EDisconnected c]) with ([] ++ (cleanup_events c rem uns ++ [EDisconnected c])).
        eapply balance_trans; [exact B0|]. eapply cleanup_balance; eauto.
      * pose proof (subscribe_global s c t tm (aset t 1 tm) I A (ksorted_aset tm t 1 KS)) as SG.
        cbv zeta in SG. destruct (aget t (topics s)); simpl in *; apply SG; try (apply pos_aset; auto);
          intros t'; (destruct (Nat.eqb_spec t' t); subst; [rewrite getc_aset_eq; unfold getc; rewrite T; lia|rewrite getc_aset_neq by auto; lia]).
  - (* Unsubscribe *)
    destruct (aget c (subs s)) as [tm|] eqn:A; simpl; [|split; [exact I|split; [apply balance_refl|reflexivity]]].
    destruct (aget t tm) as [n|] eqn:T; simpl; [|split; [exact I|split; [apply balance_refl|reflexivity]]].
    pose proof (unsubscribe_ok s c t tm n I A T) as U. cbv zeta in U.
    destruct (aget t (topics s)); [destruct (_ <=? 1)|]; simpl in *; exact U.
Qed.

Lemma run_inv_balance : forall h s, Inv s ->
  Inv (fst (run s h)) /\ balance s (fst (run s h)) (events (snd (run s h))) /\ maxsubs (fst (run s h)) = maxsubs s.
Proof.
  induction h as [|o r IH]; intros s I; simpl.
  { split; auto. split; [apply balance_refl|auto]. }
  pose proof (step_inv_balance s o I) as (I1 & B1 & M1).
  unfold run in *; simpl. destruct (step s o) as [[s1 x] es]. simpl in *.
  specialize (IH s1 I1). destruct (run_gen step s1 r) as [s2 xs]. simpl in *.
  destruct IH as (I2 & B2 & M2). split; auto. split; [|congruence].
  unfold events; simpl. eapply balance_trans; eauto.
Qed.

(* ---- main theorems ---- *)
Theorem sm_global_is_sum : forall mx h t,
  global_count (fst (run (init mx) h)) t = sum_clients (fst (run (init mx) h)) t.
Proof. intros. destruct (run_inv_balance h (init mx) (inv_init mx)) as (I & _ & _). apply (inv_sum _ I t). Qed.

Theorem sm_events_mirror_state : forall mx h,
  let s := fst (run (init mx) h) in
  let es := events (snd (run (init mx) h)) in
  (forall c t, client_count s c t + countE (isUnsub c t) es = countE (isSub c t) es) /\
  (forall t, hasn t (topics s) + countE (isRemoved t) es = countE (isAdded t) es) /\
  (forall c, hasn c (subs s) + countE (isDisc c) es = countE (isConn c) es).
Proof.
  intros. destruct (run_inv_balance h (init mx) (inv_init mx)) as (_ & (A & B & C) & _).
  repeat split; intros; [apply (A c t)|apply (B t)|apply (C c)].
Qed.

(* the answers of the query operations are the sums over the clients *)
Theorem sm_has_subscribers_is_sum : forall mx h t,
  let s := fst (run (init mx) h) in
  snd (fst (step s (HasSubscribers t))) = OBool (0 <? sum_clients s t).
Proof.
  intros. destruct (run_inv_balance h (init mx) (inv_init mx)) as (I & _ & _). fold s in I.
  simpl. f_equal. rewrite <- Sum_sum_clients, <- (inv_sum _ I t). pose proof (inv_topics _ I t) as P.
  unfold G, getc, ahas. destruct (aget t (topics s)) as [g|]; [specialize (P g eq_refl)|]; symmetry;
    [apply Nat.ltb_lt; lia | apply Nat.ltb_ge; lia].
Qed.

(* D12c on the pinned limit path: client 1 stays subscribed to topic 0 but the global map forgets the topic *)
Definition d12c_history : list op :=
  [Connect 1; Connect 2; Subscribe 1 0; Subscribe 2 1; Subscribe 2 0].

Theorem refuted_limit_pinned :
  let s := fst (run_pinned (init 2) d12c_history) in
  client_count s 1 0 = 1 /\ global_count s 0 = 0 /\ sum_clients s 0 = 1.
Proof. vm_compute. auto. Qed.

Example d12c_fixed :
  let s := fst (run (init 2) d12c_history) in
  client_count s 1 0 = 1 /\ global_count s 0 = 1 /\
  snd (run (init 2) d12c_history) =
    [(ONone, [EConnected 1]); (ONone, [EConnected 2]); (OBool true, [ETopicAdded 0; ESubscribed 1 0]);
     (OBool true, [ETopicAdded 1; ESubscribed 2 1]);
     (OBool false, [ETopicRemoved 1; EUnsubscribed 2 1; EDrop 2; EDisconnected 2])].
Proof. vm_compute. auto. Qed.
