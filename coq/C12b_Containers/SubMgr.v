(* C12b - model of web/subscriptionmanager/subscription_manager.go (after the D12c repair; [fixed := false] gives the
   pinned limit path).  subscribers: client -> (topic -> count); topics: topic -> count; both ShrinkingMaps (= plain
   maps, C12a), modelled as key-sorted association lists; the cleanup thresholds only parametrise the shrinking maps.
   Events are logged per operation in trigger order; where the code iterates a Go map (the removed / unsubscribed
   topic lists of a cleanup) the model lists topics in ascending order and the correspondence check sorts these runs. *)
From Coq Require Import Arith List Bool.
From Verif.C12b_Containers Require Import AMap.
Import ListNotations.

Inductive ev :=
| EConnected (c : nat) | EDisconnected (c : nat)
| ESubscribed (c t : nat) | EUnsubscribed (c t : nat)
| ETopicAdded (t : nat) | ETopicRemoved (t : nat)
| EDrop (c : nat).

Record st := { maxsubs : nat; subs : amap (amap nat); topics : amap nat }.
Definition init (mx : nat) : st := {| maxsubs := mx; subs := []; topics := [] |}.

Inductive op :=
| Connect (c : nat) | Disconnect (c : nat)
| Subscribe (c t : nat) | Unsubscribe (c t : nat)
| HasSubscribers (t : nat) | ClientSubscribed (c t : nat)
| SubscribersSize | TopicsSize | TopicsSizeAll.

Inductive out := ONone | OBool (b : bool) | ONat (n : nat).

(* the ForEach body of cleanupClientWithoutLocking, over the client's (topic,count) entries *)
Fixpoint cleanup_topics (tm : amap nat) (tp : amap nat) : amap nat * list nat * list nat :=
  match tm with
  | [] => (tp, [], [])
  | (t, cnt) :: r =>
      let '(tp1, rem1) :=
        match aget t tp with
        | Some g => if g <=? cnt then (adel t tp, [t]) else (aset t (g - cnt) tp, [])
        | None => (tp, [])
        end in
      let '(tp2, rem, uns) := cleanup_topics r tp1 in
      (tp2, rem1 ++ rem, repeat t cnt ++ uns)
  end.

(* cleanupClientWithoutLocking: (state, wasConnected, removedTopics, unsubscribedTopics) *)
Definition cleanup (s : st) (c : nat) : st * bool * list nat * list nat :=
  match aget c (subs s) with
  | None => (s, false, [], [])
  | Some tm =>
      let '(tp, rem, uns) := cleanup_topics tm (topics s) in
      ({| maxsubs := maxsubs s; subs := adel c (subs s); topics := tp |}, true, rem, uns)
  end.

Definition cleanup_events (c : nat) (rem uns : list nat) : list ev :=
  map ETopicRemoved rem ++ map (EUnsubscribed c) uns.

Definition sum_sizes (sb : amap (amap nat)) : nat := fold_right (fun p a => length (snd p) + a) 0 sb.

Definition step_gen (fixed : bool) (s : st) (o : op) : st * out * list ev :=
  match o with
  | Connect c =>
      let '(s1, was, rem, uns) := cleanup s c in
      let s2 := {| maxsubs := maxsubs s1; subs := aset c [] (subs s1); topics := topics s1 |} in
      (s2, ONone, (if was then cleanup_events c rem uns ++ [EDisconnected c] else []) ++ [EConnected c])
  | Disconnect c =>
      let '(s1, was, rem, uns) := cleanup s c in
      if was then (s1, OBool true, cleanup_events c rem uns ++ [EDisconnected c]) else (s, OBool false, [])
  | Subscribe c t =>
      match aget c (subs s) with
      | None => (s, OBool false, [])
      | Some tm =>
          let global (tm' : amap nat) :=
            let sb := aset c tm' (subs s) in
            match aget t (topics s) with
            | Some g => ({| maxsubs := maxsubs s; subs := sb; topics := aset t (g + 1) (topics s) |}, OBool true, [ESubscribed c t])
            | None => ({| maxsubs := maxsubs s; subs := sb; topics := aset t 1 (topics s) |}, OBool true, [ETopicAdded t; ESubscribed c t])
            end in
          match aget t tm with
          | Some n => global (aset t (n + 1) tm)
          | None =>
              let tm' := aset t 1 tm in
              if negb (maxsubs s =? 0) && (maxsubs s <=? length tm') then
                let tm'' := if fixed then adel t tm' else tm' in
                let s0 := {| maxsubs := maxsubs s; subs := aset c tm'' (subs s); topics := topics s |} in
                let '(s1, _, rem, uns) := cleanup s0 c in
                (s1, OBool false, cleanup_events c rem uns ++ [EDrop c; EDisconnected c])
              else global tm'
          end
      end
  | Unsubscribe c t =>
      match aget c (subs s) with
      | None => (s, OBool false, [])
      | Some tm =>
          match aget t tm with
          | None => (s, OBool false, [])
          | Some n =>
              let tm' := if n <=? 1 then adel t tm else aset t (n - 1) tm in
              let sb := aset c tm' (subs s) in
              match aget t (topics s) with
              | None => ({| maxsubs := maxsubs s; subs := sb; topics := topics s |}, OBool true, [EUnsubscribed c t])
              | Some g =>
                  if g <=? 1
                  then ({| maxsubs := maxsubs s; subs := sb; topics := adel t (topics s) |}, OBool true, [ETopicRemoved t; EUnsubscribed c t])
                  else ({| maxsubs := maxsubs s; subs := sb; topics := aset t (g - 1) (topics s) |}, OBool true, [EUnsubscribed c t])
              end
          end
      end
  | HasSubscribers t => (s, OBool (ahas t (topics s)), [])
  | ClientSubscribed c t => (s, OBool (match aget c (subs s) with Some tm => ahas t tm | None => false end), [])
  | SubscribersSize => (s, ONat (length (subs s)), [])
  | TopicsSize => (s, ONat (length (topics s)), [])
  | TopicsSizeAll => (s, ONat (sum_sizes (subs s)), [])
  end.

Definition step := step_gen true.
Definition step_pinned := step_gen false.

(* run: outputs per operation and the event log (oldest first) *)
Fixpoint run_gen (stp : st -> op -> st * out * list ev) (s : st) (h : list op) : st * list (out * list ev) :=
  match h with
  | [] => (s, [])
  | o :: r => let '(s1, x, es) := stp s o in let '(s2, xs) := run_gen stp s1 r in (s2, (x, es) :: xs)
  end.
Definition run := run_gen step.
Definition run_pinned := run_gen step_pinned.

Definition events (l : list (out * list ev)) : list ev := concat (map snd l).

(* ---- derived views ---- *)
Definition client_count (s : st) (c t : nat) : nat :=
  match aget c (subs s) with Some tm => match aget t tm with Some n => n | None => 0 end | None => 0 end.
Definition global_count (s : st) (t : nat) : nat := match aget t (topics s) with Some n => n | None => 0 end.
Definition sum_clients (s : st) (t : nat) : nat :=
  fold_right (fun p a => match aget t (snd p) with Some n => n | None => 0 end + a) 0 (subs s).

(* ---- what a listener reconstructs from the events ---- *)
Record shadow := { sh_clients : amap (amap nat); sh_topics : list nat }.
Definition shadow_init : shadow := {| sh_clients := []; sh_topics := [] |}.
Definition ains (t : nat) (l : list nat) : list nat := if existsb (Nat.eqb t) l then l else t :: l.
Definition shadow_step (a : shadow) (e : ev) : shadow :=
  match e with
  | EConnected c => {| sh_clients := aset c [] (sh_clients a); sh_topics := sh_topics a |}
  | EDisconnected c => {| sh_clients := adel c (sh_clients a); sh_topics := sh_topics a |}
  | ESubscribed c t =>
      match aget c (sh_clients a) with
      | Some tm => {| sh_clients := aset c (aset t (match aget t tm with Some n => n + 1 | None => 1 end) tm) (sh_clients a); sh_topics := sh_topics a |}
      | None => a
      end
  | EUnsubscribed c t =>
      match aget c (sh_clients a) with
      | Some tm =>
          match aget t tm with
          | Some n => {| sh_clients := aset c (if n <=? 1 then adel t tm else aset t (n - 1) tm) (sh_clients a); sh_topics := sh_topics a |}
          | None => a
          end
      | None => a
      end
  | ETopicAdded t => {| sh_clients := sh_clients a; sh_topics := ains t (sh_topics a) |}
  | ETopicRemoved t => {| sh_clients := sh_clients a; sh_topics := filter (fun x => negb (t =? x)) (sh_topics a) |}
  | EDrop _ => a
  end.
Definition shadow_of (l : list ev) : shadow := fold_left shadow_step l shadow_init.
