(* C12b - Walker: every element offered since the last Reset is yielded exactly once (no revisiting), in queue order. *)
From Coq Require Import Arith List Bool Lia Permutation.
From Verif.C12b_Containers Require Import Walker.
Import ListNotations.

Lemma mem_In : forall x l, mem x l = true <-> In x l.
Proof.
  unfold mem; intros; rewrite existsb_exists; split.
  - intros [y [H1 H2]]. apply Nat.eqb_eq in H2; subst; auto.
  - intros H; exists x; split; auto. apply Nat.eqb_refl.
Qed.
Lemma mem_false : forall x l, mem x l = false <-> ~ In x l.
Proof.
  intros. split.
  - intros H HI. apply mem_In in HI. congruence.
  - intros H. destruct (mem x l) eqn:M; auto. apply mem_In in M. tauto.
Qed.

Lemma In_set_ins : forall y x l, In y (set_ins x l) <-> y = x \/ In y l.
Proof.
  intros; unfold set_ins. destruct (mem x l) eqn:M.
  - apply mem_In in M. split; auto. intros [->|]; auto.
  - rewrite in_app_iff; simpl. split; [intros [H|[H|[]]]; auto|intros [H|H]; auto].
Qed.

(* elements yielded / offered since the last Reset *)
Fixpoint since_reset (h : list op) (outs : list out) (acc : list nat) : list nat :=
  match h, outs with
  | Reset :: r, _ :: os => since_reset r os []
  | _ :: r, OElem x :: os => since_reset r os (acc ++ [x])
  | _ :: r, _ :: os => since_reset r os acc
  | _, _ => acc
  end.

Fixpoint offered_since_reset (h : list op) (acc : list nat) : list nat :=
  match h with
  | [] => acc
  | Reset :: r => offered_since_reset r []
  | Push x :: r => offered_since_reset r (acc ++ [x])
  | PushAll xs :: r | PushFront xs :: r => offered_since_reset r (acc ++ xs)
  | _ :: r => offered_since_reset r acc
  end.

(* ---- no revisiting ---- *)
Definition WInv (s : st) (Y O : list nat) : Prop :=
  revisit s = false /\ NoDup (Y ++ stack s) /\ (forall x, In x (Y ++ stack s) <-> In x (pushed s))
  /\ (forall x, In x (pushed s) <-> In x O).

Lemma winv_seen : forall s Y O x st', WInv s Y O -> mem x (pushed s) = true ->
  revisit st' = revisit s -> stack st' = stack s -> pushed st' = pushed s -> WInv st' Y (O ++ [x]).
Proof.
  intros s Y O x st' (R & ND & I & P) M ER ES EP. unfold WInv. rewrite ER, ES, EP.
  apply mem_In in M. repeat split; auto; try apply I.
  - intros H. apply in_or_app. left. apply P; auto.
  - intros H. apply in_app_or in H. destruct H as [H|[<-|[]]]; auto. apply P; auto.
Qed.

Lemma winv_new : forall s Y O x st' stk, WInv s Y O -> mem x (pushed s) = false ->
  revisit st' = revisit s -> stack st' = stk -> Permutation (x :: Y ++ stack s) (Y ++ stk) ->
  pushed st' = pushed s ++ [x] -> WInv st' Y (O ++ [x]).
Proof.
  intros s Y O x st' stk (R & ND & I & P) M ER ES PM EP. unfold WInv. rewrite ER, ES, EP.
  apply mem_false in M. assert (NI : ~ In x (Y ++ stack s)) by (intro H; apply I in H; auto).
  split; auto. split; [|split]; intros.
  - apply Permutation_NoDup with (l := x :: (Y ++ stack s)); auto. constructor; auto.
  - split; intros H.
    + apply (Permutation_in _ (Permutation_sym PM)) in H. apply in_or_app. destruct H as [<-|H]; [right; simpl; auto|left; apply I; auto].
    + apply (Permutation_in _ PM). apply in_app_or in H. destruct H as [H|[<-|[]]]; [right; apply I; auto|left; auto].
  - split; intros H; apply in_app_or in H; apply in_or_app; destruct H as [H|H]; auto; left; apply P; auto.
Qed.

Lemma push1_inv : forall s Y O x, WInv s Y O -> WInv (push1 s x) Y (O ++ [x]).
Proof.
  intros s Y O x W. pose proof W as (R & _). unfold push1, set_ins. rewrite R; simpl. rewrite andb_true_r.
  destruct (mem x (pushed s)) eqn:M.
  - eapply winv_seen; eauto.
  - eapply winv_new; eauto. simpl. rewrite app_assoc. apply Permutation_cons_append.
Qed.

Lemma pushfront1_inv : forall s Y O x, WInv s Y O -> WInv (pushfront1 s x) Y (O ++ [x]).
Proof.
  intros s Y O x W. pose proof W as (R & _). unfold pushfront1, set_ins. rewrite R; simpl. rewrite andb_true_r.
  destruct (mem x (pushed s)) eqn:M.
  - eapply winv_seen; eauto.
  - eapply winv_new; eauto. simpl. apply Permutation_middle.
Qed.

Lemma fold_push_inv : forall f, (forall s Y O x, WInv s Y O -> WInv (f s x) Y (O ++ [x])) ->
  forall xs s Y O, WInv s Y O -> WInv (fold_left f xs s) Y (O ++ xs).
Proof.
  intros f F. induction xs as [|x r IH]; intros; simpl. { rewrite app_nil_r; auto. }
  replace (O ++ x :: r) with ((O ++ [x]) ++ r) by (rewrite <- app_assoc; auto). apply IH, F; auto.
Qed.

Lemma run_winv : forall h s Y O, WInv s Y O ->
  WInv (fst (run s h)) (since_reset h (snd (run s h)) Y) (offered_since_reset h O).
Proof.
  induction h as [|o r IH]; intros s Y O W; simpl; auto.
  unfold run in *; simpl.
  destruct o; simpl.
  - specialize (IH s Y O W). destruct (run_gen step s r); simpl in *; auto.
  - specialize (IH s Y O W). destruct (run_gen step s r); simpl in *; auto.
  - destruct (stack s) as [|x q] eqn:S; simpl.
    + specialize (IH s Y O W). destruct (run_gen step s r); simpl in *; auto.
    + match goal with |- context [run_gen step ?s1 r] => specialize (IH s1 (Y ++ [x]) O) end.
      destruct (run_gen step _ r); simpl in *. apply IH.
      destruct W as (R & ND & I & P). rewrite S in *. unfold WInv; simpl.
      rewrite <- app_assoc; simpl. auto.
  - specialize (IH (push1 s x) Y (O ++ [x]) (push1_inv s Y O x W)). destruct (run_gen step _ r); simpl in *; auto.
  - specialize (IH _ Y (O ++ xs) (fold_push_inv push1 push1_inv xs s Y O W)). destruct (run_gen step _ r); simpl in *; auto.
  - specialize (IH _ Y (O ++ xs) (fold_push_inv pushfront1 pushfront1_inv xs s Y O W)). destruct (run_gen step _ r); simpl in *; auto.
  - match goal with |- context [run_gen step ?s1 r] => specialize (IH s1 Y O) end.
    destruct (run_gen step _ r); simpl in *. apply IH. exact W.
  - specialize (IH s Y O W). destruct (run_gen step s r); simpl in *; auto.
  - match goal with |- context [run_gen step ?s1 r] => specialize (IH s1 [] []) end.
    destruct (run_gen step _ r); simpl in *. apply IH.
    destruct W as (R & _). unfold WInv; simpl. repeat split; auto; try constructor; tauto.
Qed.

(* Main theorem (no revisiting): after every history, the elements yielded since the last Reset followed by the
   queue contain no element twice, and they are exactly the elements offered (Push/PushAll/PushFront) since then;
   Pushed answers membership in that set. *)
Theorem wk_each_pushed_once : forall h,
  let s := fst (run (init false) h) in
  let Y := since_reset h (snd (run (init false) h)) [] in
  NoDup (Y ++ stack s) /\
  (forall x, In x (Y ++ stack s) <-> In x (offered_since_reset h [])) /\
  (forall x, snd (step s (Pushed x)) = OBool true <-> In x (offered_since_reset h [])).
Proof.
  intros h. cbv zeta.
  assert (W0 : WInv (init false) [] []) by (unfold WInv; simpl; repeat split; auto; try constructor; tauto).
  destruct (run_winv h (init false) [] [] W0) as (R & ND & I & P).
  split; auto. split.
  - intros x. rewrite I; apply P.
  - intros x. simpl. rewrite <- P, <- mem_In. split; [intros H; inversion H; auto|intros ->; auto].
Qed.

(* drained walker: the yielded elements are a duplicate-free enumeration of everything offered *)
Corollary wk_drained : forall h,
  let s := fst (run (init false) h) in
  let Y := since_reset h (snd (run (init false) h)) [] in
  stack s = [] -> NoDup Y /\ (forall x, In x Y <-> In x (offered_since_reset h [])).
Proof.
  intros h s Y E. destruct (wk_each_pushed_once h) as (ND & I & _). fold s in ND, I. fold Y in ND, I.
  rewrite E, app_nil_r in *. auto.
Qed.

(* ---- queue order (histories without PushFront and Reset) ---- *)
Definition fifo_op (o : op) : Prop := match o with PushFront _ | Reset => False | _ => True end.

Fixpoint yielded_acc (outs : list out) (acc : list nat) : list nat :=
  match outs with
  | [] => acc
  | OElem x :: r => yielded_acc r (acc ++ [x])
  | _ :: r => yielded_acc r acc
  end.

Definition dedup_first (l : list nat) : list nat := fold_left (fun acc x => set_ins x acc) l [].

Lemma yielded_acc_app : forall outs acc, yielded_acc outs acc = acc ++ yielded outs.
Proof.
  induction outs as [|o r IH]; intros; simpl. { rewrite app_nil_r; auto. }
  destruct o; simpl; auto. rewrite IH, <- app_assoc; auto.
Qed.

(* no revisiting: yielded ++ queue = first occurrences of the offered elements, in offer order *)
Lemma push1_fifo_norev : forall s Y, revisit s = false -> Y ++ stack s = pushed s ->
  forall x, revisit (push1 s x) = false /\ Y ++ stack (push1 s x) = pushed (push1 s x) /\ pushed (push1 s x) = set_ins x (pushed s).
Proof.
  intros s Y R E x. unfold push1. rewrite R; simpl. rewrite andb_true_r.
  destruct (mem x (pushed s)) eqn:M; simpl; repeat split; auto;
    unfold set_ins; rewrite M; rewrite ?app_assoc, ?E; auto.
Qed.

Lemma fold_push1_fifo_norev : forall xs s Y, revisit s = false -> Y ++ stack s = pushed s ->
  revisit (fold_left push1 xs s) = false /\ Y ++ stack (fold_left push1 xs s) = pushed (fold_left push1 xs s)
  /\ pushed (fold_left push1 xs s) = fold_left (fun acc x => set_ins x acc) xs (pushed s).
Proof.
  induction xs as [|x r IH]; intros s Y R E; simpl; auto.
  destruct (push1_fifo_norev s Y R E x) as (R1 & E1 & P1). destruct (IH _ Y R1 E1) as (R2 & E2 & P2).
  repeat split; auto. rewrite P2, P1; auto.
Qed.

Lemma run_fifo_norev : forall h s Y, Forall fifo_op h -> revisit s = false -> Y ++ stack s = pushed s ->
  let s' := fst (run s h) in
  yielded_acc (snd (run s h)) Y ++ stack s' = pushed s' /\
  pushed s' = fold_left (fun acc x => set_ins x acc) (offered h) (pushed s).
Proof.
  induction h as [|o r IH]; intros s Y F R E; simpl; auto.
  inversion F as [|? ? Fo Fr]; subst. unfold run in *; simpl.
  destruct o; simpl in *; try tauto.
  - specialize (IH s Y Fr R E). destruct (run_gen step s r); simpl in *; auto.
  - specialize (IH s Y Fr R E). destruct (run_gen step s r); simpl in *; auto.
  - destruct (stack s) as [|x q] eqn:S; simpl.
    + rewrite <- S in E. specialize (IH s Y Fr R E). destruct (run_gen step s r); simpl in *; auto.
    + match goal with |- context [run_gen step ?s1 r] => specialize (IH s1 (Y ++ [x]) Fr) end.
      destruct (run_gen step _ r); simpl in *. apply IH; auto. rewrite <- app_assoc; auto.
  - destruct (push1_fifo_norev s Y R E x) as (R1 & E1 & P1). specialize (IH _ Y Fr R1 E1).
    destruct (run_gen step _ r); simpl in *. rewrite <- P1; auto.
  - destruct (fold_push1_fifo_norev xs s Y R E) as (R1 & E1 & P1). specialize (IH _ Y Fr R1 E1).
    destruct (run_gen step _ r); simpl in *. rewrite fold_left_app, <- P1; auto.
  - match goal with |- context [run_gen step ?s1 r] => specialize (IH s1 Y Fr R E) end.
    destruct (run_gen step _ r); simpl in *; auto.
  - specialize (IH s Y Fr R E). destruct (run_gen step s r); simpl in *; auto.
Qed.

Theorem wk_queue_order : forall h, Forall fifo_op h ->
  let s := fst (run (init false) h) in
  yielded (snd (run (init false) h)) ++ stack s = dedup_first (offered h).
Proof.
  intros h F. cbv zeta. destruct (run_fifo_norev h (init false) [] F eq_refl eq_refl) as [A B].
  rewrite yielded_acc_app in A. simpl in A. rewrite A, B. reflexivity.
Qed.

(* revisiting enabled: every offered element comes out as often as it was offered, in offer order *)
Lemma run_fifo_rev : forall h s Y, Forall fifo_op h -> revisit s = true ->
  yielded_acc (snd (run s h)) Y ++ stack (fst (run s h)) = (Y ++ stack s) ++ offered h.
Proof.
  assert (P1 : forall s x, revisit s = true -> revisit (push1 s x) = true /\ stack (push1 s x) = stack s ++ [x]).
  { intros s x R. unfold push1. rewrite R; simpl. rewrite andb_false_r; simpl; auto. }
  assert (PA : forall xs s, revisit s = true -> revisit (fold_left push1 xs s) = true /\ stack (fold_left push1 xs s) = stack s ++ xs).
  { induction xs as [|x r IH]; intros s R; simpl. { rewrite app_nil_r; auto. }
    destruct (P1 s x R) as [R1 S1]. destruct (IH _ R1) as [R2 S2]. split; auto. rewrite S2, S1, <- app_assoc; auto. }
  induction h as [|o r IH]; intros s Y F R; simpl. { rewrite app_nil_r; auto. }
  inversion F as [|? ? Fo Fr]; subst. unfold run in *; simpl.
  destruct o; simpl in *; try tauto.
  - specialize (IH s Y Fr R). destruct (run_gen step s r); simpl in *; auto.
  - specialize (IH s Y Fr R). destruct (run_gen step s r); simpl in *; auto.
  - destruct (stack s) as [|x q] eqn:S; simpl.
    + specialize (IH s Y Fr R). destruct (run_gen step s r); simpl in *. rewrite S in IH; auto.
    + match goal with |- context [run_gen step ?s1 r] => specialize (IH s1 (Y ++ [x]) Fr R) end.
      destruct (run_gen step _ r); simpl in *. rewrite IH, <- !app_assoc; auto.
  - destruct (P1 s x R) as [R1 S1]. specialize (IH _ Y Fr R1). destruct (run_gen step _ r); simpl in *.
    rewrite IH, S1, <- !app_assoc; auto.
  - destruct (PA xs s R) as [R1 S1]. specialize (IH _ Y Fr R1). destruct (run_gen step _ r); simpl in *.
    rewrite IH, S1, <- !app_assoc; auto.
  - match goal with |- context [run_gen step ?s1 r] => specialize (IH s1 Y Fr R) end.
    destruct (run_gen step _ r); simpl in *; auto.
  - specialize (IH s Y Fr R). destruct (run_gen step s r); simpl in *; auto.
Qed.

Theorem wk_queue_order_revisit : forall h, Forall fifo_op h ->
  yielded (snd (run (init true) h)) ++ stack (fst (run (init true) h)) = offered h.
Proof.
  intros h F. pose proof (run_fifo_rev h (init true) [] F eq_refl) as A.
  rewrite yielded_acc_app in A. exact A.
Qed.

(* PushFront puts new elements in front of the queue (last argument first) *)
Theorem wk_pushfront_front : forall s x, mem x (pushed s) = false ->
  snd (step (fst (step s (PushFront [x]))) Next) = OElem x.
Proof. intros s x M. simpl. unfold pushfront1. rewrite M; simpl. reflexivity. Qed.

(* Reset returns to the initial state (keeping the revisit option) *)
Theorem wk_reset : forall s, fst (step s Reset) = init (revisit s).
Proof. reflexivity. Qed.

(* D12a: the pinned PushFront dropped the elements after the first repeat *)
Theorem refuted_pushfront_pinned :
  yielded (snd (run_pinned (init false) [Push 1; PushFront [1; 2]; Next; Next])) = [1]
  /\ yielded (snd (run (init false) [Push 1; PushFront [1; 2]; Next; Next])) = [2; 1].
Proof. split; reflexivity. Qed.
