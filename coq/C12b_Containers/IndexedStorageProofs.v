(* C12b - IndexedStorage is a keyed store index -> storage; storages are created fresh and never reused. *)
From Coq Require Import Arith List Bool Lia.
From Verif.C12b_Containers Require Import AMap AMapProofs IndexedStorage.
Import ListNotations.

Definition Rel (s : st) (a : spec) : Prop :=
  ksorted (cache s) /\ next s = sp_next a /\ (forall idx, aget idx (cache s) = sp_map a idx)
  /\ (forall idx sid, sp_map a idx = Some sid -> sid < sp_next a).

Lemma rel_init : Rel init spec_init.
Proof. unfold Rel; simpl; repeat split; auto; intros; discriminate. Qed.

Lemma In_aget : forall {V} (m : amap V) k v, ksorted m -> In (k, v) m -> aget k m = Some v.
Proof.
  induction m as [|[a b] r IH]; simpl; intros k v KS H; [tauto|]. destruct KS as [LB KS].
  destruct H as [H|H].
  - inversion H; subst. rewrite Nat.eqb_refl; auto.
  - destruct (Nat.eqb_spec k a); subst; auto.
    specialize (IH a v KS H).
    assert (aget a r = None) by (apply (lb_aget_none r a LB); lia). congruence.
Qed.

Lemma step_refines : forall s a o, Rel s a ->
  Rel (fst (step s o)) (spec_step a o) /\
  (forall r, spec_lookup a o = Some r -> snd (step s o) = OSid r) /\
  (o = ForEach \/ o = Clear -> forall idx sid, In (idx, sid) (match snd (step s o) with OEntries l => l | _ => [] end) <-> sp_map a idx = Some sid).
Proof.
  intros s a o (KS & NX & M & FR). destruct o as [idx create|idx| | |sid k v|sid k|sid k]; simpl.
  - rewrite M. destruct (sp_map a idx) as [sid|] eqn:E.
    + split; [|split; [|intros [H|H]; discriminate]].
      * destruct create as [[|]|]; simpl; rewrite ?E; unfold Rel; auto.
      * intros r. destruct create as [[|]|]; simpl; rewrite ?E; intros H; inversion H; auto.
    + destruct create as [[|]|]; simpl; rewrite ?E.
      * split; [|split; [|intros [H|H]; discriminate]].
        -- unfold Rel; simpl. split; [apply ksorted_aset; auto|]. split; [lia|]. split.
           ++ intros i. unfold upd. destruct (Nat.eqb_spec i idx); subst; [rewrite aget_aset_eq, NX; auto|rewrite aget_aset_neq by auto; auto].
           ++ intros i sid'. unfold upd. destruct (Nat.eqb_spec i idx); intros H; [inversion H; lia|]. specialize (FR i sid' H). lia.
        -- intros r H; inversion H; subst. rewrite NX; auto.
      * split; [unfold Rel; auto|split; [intros r H; inversion H; auto|intros [H|H]; discriminate]].
      * split; [unfold Rel; auto|split; [intros r H; inversion H; auto|intros [H|H]; discriminate]].
  - rewrite M. destruct (sp_map a idx) as [sid|] eqn:E; simpl.
    + split; [|split; [intros r H; inversion H; auto|intros [H|H]; discriminate]].
      unfold Rel; simpl. split; [apply ksorted_adel; auto|]. split; auto. split.
      * intros i. unfold upd. destruct (Nat.eqb_spec i idx); subst; [apply aget_adel_eq|rewrite aget_adel_neq by auto; auto].
      * intros i sid'. unfold upd. destruct (Nat.eqb_spec i idx); intros H; [discriminate|eauto].
    + split; [|split; [intros r H; inversion H; auto|intros [H|H]; discriminate]].
      unfold Rel; simpl. repeat split; auto.
      * intros i. unfold upd. destruct (Nat.eqb_spec i idx); subst; auto. rewrite M; auto.
      * intros i sid'. unfold upd. destruct (Nat.eqb_spec i idx); intros H; [discriminate|eauto].
  - split; [unfold Rel; auto|split; [intros r H; discriminate|]]. intros _ i sid. rewrite <- M. split; [apply In_aget; auto|apply aget_In].
  - split; [|split; [intros r H; discriminate|]].
    + unfold Rel; simpl. repeat split; auto. intros; discriminate.
    + intros _ i sid. rewrite <- M. split; [apply In_aget; auto|apply aget_In].
  - split; [|split; [intros r H; discriminate|intros [H|H]; discriminate]]. destruct (aget sid (objs s)); unfold Rel; simpl; auto.
  - split; [|split; [intros r H; discriminate|intros [H|H]; discriminate]]. destruct (aget sid (objs s)); unfold Rel; simpl; auto.
  - split; [|split; [intros r H; discriminate|intros [H|H]; discriminate]]. destruct (aget sid (objs s)); unfold Rel; simpl; auto.
Qed.

(* abstract run: the lookup answers and listings predicted by the abstract map *)
Fixpoint spec_states (a : spec) (h : list op) : list spec :=
  match h with [] => [] | o :: r => a :: spec_states (spec_step a o) r end.

Theorem is_refines_map : forall h s a, Rel s a ->
  Rel (fst (run s h)) (fold_left spec_step h a) /\
  Forall2 (fun ao x =>
             (forall r, spec_lookup (fst ao) (snd ao) = Some r -> x = OSid r) /\
             (snd ao = ForEach \/ snd ao = Clear ->
              forall idx sid, In (idx, sid) (match x with OEntries l => l | _ => [] end) <-> sp_map (fst ao) idx = Some sid))
          (combine (spec_states a h) h) (snd (run s h)).
Proof.
  induction h as [|o r IH]; intros s a R; simpl. { split; auto. }
  destruct (step_refines s a o R) as (R1 & L1 & E1).
  destruct (step s o) as [s1 x]. simpl in *. destruct (IH s1 (spec_step a o) R1) as [A B].
  destruct (run s1 r); simpl in *. split; auto.
Qed.

(* a storage evicted (or cleared) and created again is a new one; the old one keeps its contents *)
Example is_example :
  snd (run init [Get 1 (Some true); SSet 0 2 7; Evict 1; Get 1 None; Get 1 (Some true); SGet 0 2; SGet 1 2; ForEach])
  = [OSid (Some 0); ONone; OSid (Some 0); OSid None; OSid (Some 1); OVal (Some 7); OVal None; OEntries [(1, 1)]].
Proof. reflexivity. Qed.
