(* A proof by computation over a genuinely finite domain: all 65 536 operand pairs of both 8-bit types for the four binary
   operations, and all 256 x 256 (value, shift count) pairs for SafeLeftShift, evaluated on the definitions GENERATED from the
   Go source. Redundant with the width-generic theorems of Proofs.v; it is kept because it re-checks the regenerated model by a
   route that does not depend on those proofs (when a proof breaks after a source change, this sweep names the failing operands). *)
From Coq Require Import ZArith Bool List Lia.
From Verif.C19_SafeMath Require Import GoInt Spec Generated.
Import ListNotations.
Open Scope Z_scope.

Fixpoint zrange (lo : Z) (n : nat) : list Z :=
  match n with O => [] | S k => lo :: zrange (lo + 1) k end.

Lemma zrange_In lo n z : lo <= z < lo + Z.of_nat n -> In z (zrange lo n).
Proof.
  revert lo; induction n as [|n IH]; intros lo H; cbn [zrange].
  - lia.
  - destruct (Z.eq_dec z lo) as [->|Hne]; [left; reflexivity|right; apply IH; lia].
Qed.

Definition dom (t : ity) : list Z := zrange (tmin t) 256.
Definition shifts : list Z := zrange 0 256.

Definition ok2 (t : ity) (x y : Z) : bool :=
  res_eqb (SafeAdd t x y) (spec_add t x y) && res_eqb (SafeSub t x y) (spec_sub t x y) &&
  res_eqb (SafeMul t x y) (spec_mul t x y) && res_eqb (SafeDiv t x y) (spec_div t x y).
Definition oksh (t : ity) (x s : Z) : bool := res_eqb (SafeLeftShift t x s) (spec_shl t x s).

Definition sweep (t : ity) : bool :=
  forallb (fun x => forallb (ok2 t x) (dom t) && forallb (oksh t x) shifts) (dom t).

Lemma sweep_u8 : sweep u8 = true. Proof. vm_compute. reflexivity. Qed.
Lemma sweep_i8 : sweep i8 = true. Proof. vm_compute. reflexivity. Qed.

Lemma dom_In t z : half t = 128 -> in_range t z -> In z (dom t).
Proof.
  intros Hh [Hlo Hhi]. apply zrange_In. unfold tmin, tmax, modulus in *. destruct (signed t); rewrite ?Hh in *; cbn [Z.of_nat]; lia.
Qed.

Lemma sweep_sound t : half t = 128 -> sweep t = true ->
  forall x y, in_range t x -> in_range t y -> ok2 t x y = true.
Proof.
  intros Hh Hs x y Hx Hy. unfold sweep in Hs. rewrite forallb_forall in Hs.
  specialize (Hs x (dom_In t x Hh Hx)). apply andb_prop in Hs as [H2 _].
  rewrite forallb_forall in H2. exact (H2 y (dom_In t y Hh Hy)).
Qed.

Lemma sweep_sound_shift t : half t = 128 -> sweep t = true ->
  forall x s, in_range t x -> 0 <= s < 256 -> oksh t x s = true.
Proof.
  intros Hh Hs x s Hx Hsr. unfold sweep in Hs. rewrite forallb_forall in Hs.
  specialize (Hs x (dom_In t x Hh Hx)). apply andb_prop in Hs as [_ H2].
  rewrite forallb_forall in H2. apply H2. apply zrange_In. lia.
Qed.

Theorem exhaustive_8bit : forall t, t = u8 \/ t = i8 ->
  (forall x y, in_range t x -> in_range t y -> ok2 t x y = true) /\
  (forall x s, in_range t x -> 0 <= s < 256 -> oksh t x s = true).
Proof.
  intros t [->| ->]; split.
  - apply sweep_sound; [reflexivity|exact sweep_u8].
  - apply sweep_sound_shift; [reflexivity|exact sweep_u8].
  - apply sweep_sound; [reflexivity|exact sweep_i8].
  - apply sweep_sound_shift; [reflexivity|exact sweep_i8].
Qed.

Lemma res_eqb_true a b : res_eqb a b = true -> a = b.
Proof.
  destruct a, b; cbn; try discriminate; try reflexivity.
  intros H. apply Z.eqb_eq in H. now subst.
Qed.
