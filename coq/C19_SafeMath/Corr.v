(* Correspondence / translator validation for C19: evaluates the generated definitions on the
   cases the Go harness ran through the compiled functions and returns the indices that differ. *)
From Coq Require Import ZArith List Bool.
From Verif.C19_SafeMath Require Import GoInt Generated.
Import ListNotations.
Open Scope Z_scope.

Inductive op := OAdd | OSub | OMul | ODiv | OShl | OMulU64 | OMulI64 | OMulDiv.

Record case := mk { c_op : op; c_t : ity; c_x : Z; c_y : Z; c_z : Z; c_res : res }.

Definition eval (c : case) : res :=
  match c_op c with
  | OAdd => SafeAdd (c_t c) (c_x c) (c_y c)
  | OSub => SafeSub (c_t c) (c_x c) (c_y c)
  | OMul => SafeMul (c_t c) (c_x c) (c_y c)
  | ODiv => SafeDiv (c_t c) (c_x c) (c_y c)
  | OShl => SafeLeftShift (c_t c) (c_x c) (c_y c)
  | OMulU64 => SafeMulUint64 (c_x c) (c_y c)
  | OMulI64 => SafeMulInt64 (c_x c) (c_y c)
  | OMulDiv => Safe64MulDiv (c_x c) (c_y c) (c_z c)
  end.

Fixpoint mismatches_from (i : nat) (cs : list case) : list nat :=
  match cs with
  | [] => []
  | c :: r => if res_eqb (eval c) (c_res c) then mismatches_from (S i) r else i :: mismatches_from (S i) r
  end.

Definition mismatches (cs : list case) : list nat := mismatches_from 0 cs.
