(* Semantics of Go's fixed-width integer arithmetic over Z, as targeted by the
   safemath2coq translator.  A type is (signedness, half modulus H): signed values
   live in [-H, H), unsigned ones in [0, 2H).  Every arithmetic operator computes
   in Z and wraps (two's complement), exactly as the Go specification says. *)
From Coq Require Import ZArith Bool.
Open Scope Z_scope.

Record ity := { signed : bool; half : Z }.

Definition modulus (t : ity) : Z := 2 * half t.
Definition tmin (t : ity) : Z := if signed t then - half t else 0.
Definition tmax (t : ity) : Z := if signed t then half t - 1 else modulus t - 1.

Definition in_range (t : ity) (z : Z) : Prop := tmin t <= z <= tmax t.
Definition in_rangeb (t : ity) (z : Z) : bool := (tmin t <=? z) && (z <=? tmax t).

Definition wrap (t : ity) (z : Z) : Z :=
  if signed t then (z + half t) mod modulus t - half t else z mod modulus t.

Definition add (t : ity) (x y : Z) : Z := wrap t (x + y).
Definition sub (t : ity) (x y : Z) : Z := wrap t (x - y).
Definition mul (t : ity) (x y : Z) : Z := wrap t (x * y).
Definition neg (t : ity) (x : Z) : Z := wrap t (- x).
(* Go: integer division truncates towards zero; MinInt / -1 wraps.  Division by zero
   is a run-time panic: the translator emits an explicit guard for it. *)
Definition quot (t : ity) (x y : Z) : Z := wrap t (Z.quot x y).
(* Go: shift counts are unsigned; a count >= width gives 0 for <<, and sign fill for >>. *)
Definition shl (t : ity) (x s : Z) : Z := wrap t (x * 2 ^ s).
Definition shr (t : ity) (x s : Z) : Z := x / 2 ^ s.
Definition band (t : ity) (x y : Z) : Z := Z.land x y.
Definition conv (t : ity) (x : Z) : Z := wrap t x.

Definition u8 := {| signed := false; half := 128 |}.
Definition i8 := {| signed := true; half := 128 |}.
Definition u16 := {| signed := false; half := 32768 |}.
Definition i16 := {| signed := true; half := 32768 |}.
Definition u32 := {| signed := false; half := 2147483648 |}.
Definition i32 := {| signed := true; half := 2147483648 |}.
Definition u64 := {| signed := false; half := 9223372036854775808 |}.
Definition i64 := {| signed := true; half := 9223372036854775808 |}.

(* math/bits *)
Definition mul64_hi (x y : Z) : Z := (x * y) / 18446744073709551616.
Definition mul64_lo (x y : Z) : Z := (x * y) mod 18446744073709551616.
(* bits.Div64 panics when d = 0 or d <= hi: guard emitted by the translator. *)
Definition div64_quo (hi lo d : Z) : Z := (hi * 18446744073709551616 + lo) / d.

Inductive res := Ok (z : Z) | ErrOverflow | ErrDivZero | Panic.

Definition res_eqb (a b : res) : bool :=
  match a, b with
  | Ok x, Ok y => x =? y
  | ErrOverflow, ErrOverflow | ErrDivZero, ErrDivZero | Panic, Panic => true
  | _, _ => false
  end.

(* A width is well formed when H = 2^(w-1), w >= 1. *)
Definition wf (t : ity) : Prop := exists w, 0 <= w /\ half t = 2 ^ w.
