From Coq Require Import ZArith Bool Lia.
From Verif.C19_SafeMath Require Import GoInt Spec.
Open Scope Z_scope.

Lemma mod_shift z k M : 0 <= z + k * M < M -> z mod M = z + k * M.
Proof.
  intros Hb. symmetry. apply Z.mod_unique with (q := - k); [left; exact Hb | ring].
Qed.

Lemma wf_half_pos t : wf t -> 0 < half t.
Proof. intros [w [Hw ->]]. apply Z.pow_pos_nonneg; lia. Qed.

Lemma in_rangeb_spec t z : in_rangeb t z = true <-> in_range t z.
Proof. unfold in_rangeb, in_range. rewrite andb_true_iff, !Z.leb_le. tauto. Qed.

Lemma in_rangeb_false t z : in_rangeb t z = false <-> ~ in_range t z.
Proof. rewrite <- in_rangeb_spec. destruct (in_rangeb t z); split; congruence. Qed.

Section Wrap.
  Variable t : ity.
  Hypothesis Hpos : 0 < half t.
  Let H := half t.
  Let M := modulus t.

  Lemma M_eq : M = 2 * H. Proof. reflexivity. Qed.

  Lemma wrap_cong z : exists k, wrap t z = z + k * M.
  Proof.
    unfold wrap. fold H M. destruct (signed t).
    - exists (- ((z + H) / M)). pose proof (Z.div_mod (z + H) M). rewrite M_eq in *. lia.
    - exists (- (z / M)). pose proof (Z.div_mod z M). rewrite M_eq in *. lia.
  Qed.

  Lemma wrap_range z : in_range t (wrap t z).
  Proof.
    unfold in_range, tmin, tmax, wrap. fold H M.
    destruct (signed t).
    - pose proof (Z.mod_pos_bound (z + H) M). rewrite M_eq in *. lia.
    - pose proof (Z.mod_pos_bound z M). rewrite M_eq in *. lia.
  Qed.

  Lemma wrap_id z : in_range t z -> wrap t z = z.
  Proof.
    unfold in_range, tmin, tmax, wrap. fold H M. destruct (signed t); intros Hr.
    - rewrite Z.mod_small; rewrite ?M_eq in *; lia.
    - rewrite Z.mod_small; rewrite ?M_eq in *; lia.
  Qed.

  (* wrap z = z only when z is representable *)
  Lemma wrap_fix z : wrap t z = z -> in_range t z.
  Proof. intros E. rewrite <- E. apply wrap_range. Qed.

  Lemma wrap_k0 z k : wrap t z = z + k * M -> in_range t z -> k = 0.
  Proof.
    intros E Hr. rewrite (wrap_id z Hr) in E. rewrite M_eq in E. nia.
  Qed.

  Lemma in_range_unique z k : in_range t z -> in_range t (z + k * M) -> k = 0.
  Proof.
    unfold in_range, tmin, tmax. fold H M. rewrite M_eq. destruct (signed t); intros; nia.
  Qed.

  Lemma wrap_multiple j : wrap t (j * M) = 0.
  Proof.
    unfold wrap. fold H M. destruct (signed t).
    - rewrite Z.add_comm, Z_mod_plus_full. rewrite Z.mod_small; rewrite ?M_eq; lia.
    - apply Z_mod_mult.
  Qed.

  Lemma spec_ok z : in_range t z -> spec t z = Ok z.
  Proof. intros Hr. unfold spec. apply in_rangeb_spec in Hr. now rewrite Hr. Qed.

  Lemma spec_err z : ~ in_range t z -> spec t z = ErrOverflow.
  Proof. intros Hr. unfold spec. apply in_rangeb_false in Hr. now rewrite Hr. Qed.
End Wrap.
