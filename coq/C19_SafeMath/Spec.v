(* The property C19 as a specification: exact mathematical result when representable,
   otherwise the overflow (or division-by-zero) error. *)
From Coq Require Import ZArith Bool.
From Verif.C19_SafeMath Require Import GoInt.
Open Scope Z_scope.

Definition spec (t : ity) (exact : Z) : res :=
  if in_rangeb t exact then Ok exact else ErrOverflow.

Definition spec_add t x y := spec t (x + y).
Definition spec_sub t x y := spec t (x - y).
Definition spec_mul t x y := spec t (x * y).
Definition spec_div t x y := if y =? 0 then ErrDivZero else spec t (Z.quot x y).
Definition spec_shl t x s := spec t (x * 2 ^ s).
Definition spec_muldiv x y d := if d =? 0 then ErrDivZero else spec u64 ((x * y) / d).
