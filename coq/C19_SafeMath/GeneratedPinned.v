(* Output of /verif/translator/safemath2coq on core/safemath/safe_math.go AS PINNED (commit 56b68f6, before the fix: commits
   89fe77a, 9531410, 0886af5), kept as a snapshot so that the refutation witnesses of Properties/C19.v are about the real pinned code. *)
From Coq Require Import ZArith Bool.
From Verif.C19_SafeMath Require Import GoInt.
Open Scope Z_scope.
Open Scope bool_scope.

Module Pinned.

Definition SafeAdd (t : ity) (v_x v_y : Z) : res :=
  let v_result := (add t v_x v_y) in
  if (v_y >? 0) then
    if (v_result <? v_x) then
      ErrOverflow
    else
      Ok v_result
  else
    if (v_result >? v_x) then
      ErrOverflow
    else
      Ok v_result.

Definition SafeSub (t : ity) (v_x v_y : Z) : res :=
  let v_result := (sub t v_x v_y) in
  if (v_y >? 0) then
    if (v_result >? v_x) then
      ErrOverflow
    else
      Ok v_result
  else
    if (v_result <? v_x) then
      ErrOverflow
    else
      Ok v_result.

Definition SafeMul (t : ity) (v_x v_y : Z) : res :=
  if ((v_x =? 0) || (v_y =? 0)) then
    Ok 0
  else
    let v_result := (mul t v_x v_y) in
    if ((v_x =? 0)) then Panic else if (negb ((quot t v_result v_x) =? v_y)) then
      ErrOverflow
    else
      Ok v_result.

Definition SafeMulUint64 (v_x v_y : Z) : res :=
  if ((v_x =? 0) || (v_y =? 0)) then
    Ok 0
  else
    let v_hi := mul64_hi v_x v_y in
    let v_lo := mul64_lo v_x v_y in
    if (negb (v_hi =? 0)) then
      ErrOverflow
    else
      Ok v_lo.

Definition SafeMulInt64 (v_x v_y : Z) : res :=
  if ((v_x =? 0) || (v_y =? 0)) then
    Ok 0
  else
    let v_xNegative := (v_x <? 0) in
    let v_yNegative := (v_y <? 0) in
    let v_xPositive := (v_x >? 0) in
    let v_yPositive := (v_y >? 0) in
    let v_resultIsPositive := true in
    let v_resultSign := 1 in
    let '(v_resultIsPositive, v_resultSign, v_x) :=
      if v_xNegative then
        let '(v_resultIsPositive, v_resultSign) :=
          if v_yPositive then
            let v_resultIsPositive := false in
            let v_resultSign := (-1) in
            (v_resultIsPositive, v_resultSign)
          else
            (v_resultIsPositive, v_resultSign) in
        let v_x := (neg i64 v_x) in
        (v_resultIsPositive, v_resultSign, v_x)
      else
        (v_resultIsPositive, v_resultSign, v_x) in
    let '(v_resultIsPositive, v_resultSign, v_y) :=
      if v_yNegative then
        let '(v_resultIsPositive, v_resultSign) :=
          if v_xPositive then
            let v_resultIsPositive := false in
            let v_resultSign := (-1) in
            (v_resultIsPositive, v_resultSign)
          else
            (v_resultIsPositive, v_resultSign) in
        let v_y := (neg i64 v_y) in
        (v_resultIsPositive, v_resultSign, v_y)
      else
        (v_resultIsPositive, v_resultSign, v_y) in
    let v_hi := mul64_hi (conv u64 v_x) (conv u64 v_y) in
    let v_lo := mul64_lo (conv u64 v_x) (conv u64 v_y) in
    if (negb (v_hi =? 0)) then
      ErrOverflow
    else
      let v_loSigned := (mul i64 (conv i64 v_lo) v_resultSign) in
      let v_signBitSet := ((band i64 (shr i64 v_loSigned 63) 1) =? 1) in
      if v_resultIsPositive then
        if v_signBitSet then
          ErrOverflow
        else
          Ok v_loSigned
      else
        if (negb v_signBitSet) then
          ErrOverflow
        else
          Ok v_loSigned.

Definition SafeDiv (t : ity) (v_x v_y : Z) : res :=
  if (v_y =? 0) then
    ErrDivZero
  else
    if ((v_y =? 0)) then Panic else Ok (quot t v_x v_y).

Definition SafeLeftShift (t : ity) (v_val v_shift : Z) : res :=
  let v_result := (shl t v_val v_shift) in
  if (v_result <? v_val) then
    ErrOverflow
  else
    Ok v_result.

Definition Safe64MulDiv (v_x v_y v_div : Z) : res :=
  if (v_div =? 0) then
    ErrDivZero
  else
    let v_prodHi := mul64_hi v_x v_y in
    let v_prodLo := mul64_lo v_x v_y in
    if (v_div <=? v_prodHi) then
      ErrOverflow
    else
      if ((v_div <=? v_prodHi)) then Panic else Ok (div64_quo v_prodHi v_prodLo v_div).

(* translated functions: SafeAdd SafeSub SafeMul SafeMulUint64 SafeMulInt64 SafeDiv SafeLeftShift Safe64MulDiv *)

End Pinned.
