(* Proofs that the *generated* definitions (Generated.v, produced from the Go source on
   every run) meet the C19 specification for every well-formed width and both signednesses. *)
From Coq Require Import ZArith Bool Lia ZifyBool.
From Verif.C19_SafeMath Require Import GoInt Spec WrapLemmas Generated.
Open Scope Z_scope.

Ltac range_unfold := unfold in_range, tmin, tmax, modulus in *.

Lemma quot_abs_mul_le a b : b <> 0 -> Z.abs (Z.quot a b) * Z.abs b <= Z.abs a.
Proof.
  intros Hb. rewrite <- Z.quot_abs by exact Hb.
  pose proof (Z.mul_quot_le (Z.abs a) (Z.abs b)). lia.
Qed.
Lemma quot_abs_le a b : b <> 0 -> Z.abs (Z.quot a b) <= Z.abs a.
Proof. intros Hb. pose proof (quot_abs_mul_le a b Hb). nia. Qed.
Lemma quot_back a b : b <> 0 -> exists e, a = b * Z.quot a b + e /\ Z.abs e < Z.abs b.
Proof. intros Hb. exists (Z.rem a b). split; [apply Z.quot_rem'|apply Z.rem_bound_abs; exact Hb]. Qed.

Section Generic.
  Variable t : ity.
  Hypothesis Hwf : wf t.
  Let Hpos : 0 < half t := wf_half_pos t Hwf.

  Lemma add_cases x y : in_range t x -> in_range t y ->
    let z := x + y in
    add t x y = (if z <? tmin t then z + modulus t else if z <=? tmax t then z else z - modulus t).
  Proof.
    intros Hx Hy z. unfold add. fold z.
    destruct (wrap_cong t Hpos z) as [k Hk]. pose proof (wrap_range t Hpos z) as Hr. rewrite Hk in *.
    assert (Hz : tmin t - modulus t <= z <= tmax t + modulus t) by (subst z; range_unfold; destruct (signed t); lia).
    destruct (z <? tmin t) eqn:E1; [|destruct (z <=? tmax t) eqn:E2].
    - assert (k = 1) by (range_unfold; destruct (signed t); nia). subst k; lia.
    - assert (k = 0) by (range_unfold; destruct (signed t); nia). subst k; lia.
    - assert (k = -1) by (range_unfold; destruct (signed t); nia). subst k; lia.
  Qed.

  Theorem SafeAdd_exact x y : in_range t x -> in_range t y -> SafeAdd t x y = spec_add t x y.
  Proof.
    intros Hx Hy. unfold SafeAdd, spec_add, spec, in_rangeb. cbv zeta.
    rewrite (add_cases x y Hx Hy). cbv zeta.
    range_unfold.
    destruct (signed t);
    (destruct (x + y <? _) eqn:E1; [|destruct (x + y <=? _) eqn:E2]);
    repeat match goal with |- context [if ?c then _ else _] => destruct c eqn:? end; try reflexivity; try lia; f_equal; lia.
  Qed.

  Lemma sub_cases x y : in_range t x -> in_range t y ->
    let z := x - y in
    sub t x y = (if z <? tmin t then z + modulus t else if z <=? tmax t then z else z - modulus t).
  Proof.
    intros Hx Hy z. unfold sub. fold z.
    destruct (wrap_cong t Hpos z) as [k Hk]. pose proof (wrap_range t Hpos z) as Hr. rewrite Hk in *.
    assert (Hz : tmin t - modulus t <= z <= tmax t + modulus t) by (subst z; range_unfold; destruct (signed t); lia).
    destruct (z <? tmin t) eqn:E1; [|destruct (z <=? tmax t) eqn:E2].
    - assert (k = 1) by (range_unfold; destruct (signed t); nia). subst k; lia.
    - assert (k = 0) by (range_unfold; destruct (signed t); nia). subst k; lia.
    - assert (k = -1) by (range_unfold; destruct (signed t); nia). subst k; lia.
  Qed.

  Theorem SafeSub_exact x y : in_range t x -> in_range t y -> SafeSub t x y = spec_sub t x y.
  Proof.
    intros Hx Hy. unfold SafeSub, spec_sub, spec, in_rangeb. cbv zeta.
    rewrite (sub_cases x y Hx Hy). cbv zeta.
    range_unfold.
    destruct (signed t);
    (destruct (x - y <? _) eqn:E1; [|destruct (x - y <=? _) eqn:E2]);
    repeat match goal with |- context [if ?c then _ else _] => destruct c eqn:? end; try reflexivity; try lia; f_equal; lia.
  Qed.

  Hypothesis Hge2 : 2 <= half t.

  Lemma abs_mul_ge k m : k <> 0 -> 0 < m -> m <= Z.abs (k * m).
  Proof. intros. rewrite Z.abs_mul. nia. Qed.

  Lemma mul_check x y k :
    x <> 0 -> y <> 0 -> in_range t x -> in_range t y ->
    let r := x * y + k * modulus t in
    in_range t r -> wrap t (Z.quot r x) = y -> wrap t (Z.quot r y) = x -> k = 0.
  Proof.
    intros Hx0 Hy0 Hx Hy r Hr E1 E2.
    destruct (Z.eq_dec k 0) as [|Hk]; [assumption|exfalso].
    pose proof (abs_mul_ge k (modulus t) Hk ltac:(unfold modulus; lia)) as HkM.
    destruct (quot_back r x Hx0) as [e1 [B1 B1']].
    pose proof (quot_abs_mul_le r x Hx0) as Q1.
    destruct (wrap_cong t Hpos (Z.quot r x)) as [j1 J1]. rewrite E1 in J1.
    set (q1 := Z.quot r x) in *.
    destruct (Z.eq_dec j1 0) as [->|Hj1].
    - (* no wrap in the back division: r = x*y + e1, so k*M = e1, |e1| < |x| <= M *)
      assert (q1 = y) by lia. subst q1.
      assert (k * modulus t = e1) by (subst r; lia).
      range_unfold. destruct (signed t); lia.
    - pose proof (abs_mul_ge j1 (modulus t) Hj1 ltac:(unfold modulus; lia)) as Hj1M.
      assert (Hsig : signed t = true).
      { destruct (signed t) eqn:Es; [reflexivity|exfalso].
        assert (0 <= r) by (range_unfold; rewrite Es in *; lia).
        assert (0 < x) by (range_unfold; rewrite Es in *; lia).
        pose proof (Z.quot_pos r x ltac:(lia) ltac:(lia)) as Hqp.
        pose proof (quot_abs_le r x Hx0) as Hql. fold q1 in Hqp, Hql.
        range_unfold; rewrite Es in *. lia. }
      pose proof (quot_abs_le r x Hx0) as Q0. fold q1 in Q0.
      range_unfold. rewrite Hsig in *.
      assert (Hy' : y = - half t) by lia.
      assert (Hq1 : Z.abs q1 = half t) by lia.
      clearbody r.
      assert (Hx1 : Z.abs x = 1).
      { rewrite Hq1 in Q1. assert (Hm : half t * Z.abs x <= half t * 1) by lia.
        apply Z.mul_le_mono_pos_l in Hm; lia. }
      assert (Hr' : r = - half t) by (rewrite Hq1, Hx1 in Q1; lia).
      assert (Hq2 : Z.quot r y = 1) by (rewrite Hr', Hy'; apply Z.quot_same; lia).
      rewrite Hq2 in E2. rewrite wrap_id in E2 by (try exact Hpos; range_unfold; rewrite Hsig; lia).
      subst x. unfold q1 in Hq1. rewrite Hr' in Hq1. rewrite Z.quot_1_r in Hq1. lia.
  Qed.

  Theorem SafeMul_exact x y : in_range t x -> in_range t y -> SafeMul t x y = spec_mul t x y.
  Proof.
    intros Hx Hy. unfold SafeMul, spec_mul.
    assert (H0 : in_range t 0) by (range_unfold; destruct (signed t); lia).
    destruct (x =? 0) eqn:Ex.
    { apply Z.eqb_eq in Ex. subst x. cbn [orb]. rewrite Z.mul_0_l. symmetry. now apply spec_ok. }
    destruct (y =? 0) eqn:Ey.
    { apply Z.eqb_eq in Ey. subst y. cbn [orb]. rewrite Z.mul_0_r. symmetry. now apply spec_ok. }
    cbn [orb]. cbv zeta. rewrite andb_false_r.
    apply Z.eqb_neq in Ex, Ey.
    unfold mul, quot.
    destruct (wrap_cong t Hpos (x * y)) as [k Hk]. pose proof (wrap_range t Hpos (x * y)) as Hr.
    destruct (in_rangeb t (x * y)) eqn:Er.
    - apply in_rangeb_spec in Er. rewrite (spec_ok t (x * y) Er).
      rewrite (wrap_id t (x * y) Er).
      replace (Z.quot (x * y) y) with x by (symmetry; apply Z.quot_mul; exact Ey).
      replace (Z.quot (x * y) x) with y by (symmetry; rewrite Z.mul_comm; apply Z.quot_mul; exact Ex).
      rewrite !(wrap_id t) by assumption. rewrite !Z.eqb_refl. reflexivity.
    - pose proof Er as Er'. apply in_rangeb_false in Er. rewrite (spec_err t (x * y) Er).
      destruct (wrap t (Z.quot (wrap t (x * y)) x) =? y) eqn:C1; [|reflexivity].
      destruct (wrap t (Z.quot (wrap t (x * y)) y) =? x) eqn:C2; [|reflexivity].
      exfalso. apply Z.eqb_eq in C1, C2. rewrite Hk in *.
      pose proof (mul_check x y k Ex Ey Hx Hy Hr C1 C2). subst k. apply Er. now rewrite Z.mul_0_l, Z.add_0_r in Hr.
  Qed.

  Theorem SafeDiv_exact x y : in_range t x -> in_range t y -> SafeDiv t x y = spec_div t x y.
  Proof.
    intros Hx Hy. unfold SafeDiv, spec_div.
    destruct (y =? 0) eqn:Ey; [reflexivity|]. cbn [orb]. cbv zeta.
    apply Z.eqb_neq in Ey. unfold quot.
    set (q := Z.quot x y).
    pose proof (quot_abs_mul_le x y Ey) as Q1. pose proof (quot_abs_le x y Ey) as Q0. fold q in Q1, Q0.
    destruct (in_rangeb t q) eqn:Er.
    - apply in_rangeb_spec in Er. rewrite (spec_ok t q Er). rewrite (wrap_id t q Er).
      destruct (x <? 0) eqn:C1; [|reflexivity]. destruct (y <? 0) eqn:C2; [|reflexivity].
      destruct (q <? 0) eqn:C3; [|reflexivity]. exfalso.
      assert (0 <= q); [|lia]. unfold q. rewrite <- Z.quot_opp_opp by exact Ey. apply Z.quot_pos; lia.
    - apply in_rangeb_false in Er. rewrite (spec_err t q Er).
      destruct (wrap_cong t Hpos q) as [k Hk]. pose proof (wrap_range t Hpos q) as Hr. rewrite Hk in *.
      destruct (signed t) eqn:Es.
      + range_unfold. rewrite Es in *.
        assert (Hq : q = half t) by lia. assert (Hx' : x = - half t) by lia.
        assert (Hy1 : Z.abs y = 1).
        { rewrite Hq, Hx' in Q1. rewrite Z.abs_opp in Q1. rewrite !Z.abs_eq in Q1 by lia.
          assert (Hm : half t * Z.abs y <= half t * 1) by lia. apply Z.mul_le_mono_pos_l in Hm; lia. }
        assert (y = -1).
        { destruct (Z.eq_dec y 1) as [->|]; [|lia]. unfold q in Hq. rewrite Z.quot_1_r in Hq. lia. }
        assert (k = -1) by nia. subst k x y.
        replace (- half t <? 0) with true by lia. replace (-1 <? 0) with true by lia.
        replace (q + -1 * (2 * half t) <? 0) with true by lia. reflexivity.
      + exfalso. apply Er. range_unfold. rewrite Es in *.
        assert (0 <= q) by (apply Z.quot_pos; lia). lia.
  Qed.

  Theorem SafeLeftShift_exact x s : in_range t x -> 0 <= s -> SafeLeftShift t x s = spec_shl t x s.
  Proof.
    intros Hx Hs. unfold SafeLeftShift, spec_shl, shl, shr. cbv zeta.
    assert (Hp : 0 < 2 ^ s) by (apply Z.pow_pos_nonneg; lia).
    destruct (wrap_cong t Hpos (x * 2 ^ s)) as [k Hk]. pose proof (wrap_range t Hpos (x * 2 ^ s)) as Hr.
    destruct (in_rangeb t (x * 2 ^ s)) eqn:Er.
    - apply in_rangeb_spec in Er. rewrite (spec_ok t _ Er). rewrite (wrap_id t _ Er).
      rewrite Z.div_mul by lia. rewrite Z.eqb_refl. reflexivity.
    - apply in_rangeb_false in Er. rewrite (spec_err t _ Er).
      destruct (wrap t (x * 2 ^ s) / 2 ^ s =? x) eqn:C; [exfalso|reflexivity].
      apply Z.eqb_eq in C. destruct Hwf as [w [Hw HH]].
      assert (HM : modulus t = 2 ^ (w + 1)) by (unfold modulus; rewrite HH, Z.pow_add_r by lia; lia).
      destruct (Z.le_gt_cases s (w + 1)) as [Hle|Hgt].
      + (* M = 2^s * 2^(w+1-s) *)
        assert (HM' : modulus t = 2 ^ (w + 1 - s) * 2 ^ s) by (rewrite HM, <- Z.pow_add_r by lia; f_equal; lia).
        assert (Hpp : 0 < 2 ^ (w + 1 - s)) by (apply Z.pow_pos_nonneg; lia).
        rewrite Hk in C. rewrite HM' in C.
        replace (x * 2 ^ s + k * (2 ^ (w + 1 - s) * 2 ^ s)) with ((x + k * 2 ^ (w + 1 - s)) * 2 ^ s) in C by ring.
        rewrite Z.div_mul in C by lia.
        assert (k = 0) by nia. subst k. apply Er. now rewrite Hk, Z.mul_0_l, Z.add_0_r in Hr.
      + assert (Hs' : 2 ^ s = 2 ^ (s - (w + 1)) * modulus t).
        { rewrite HM, <- Z.pow_add_r; [f_equal|..]; lia. }
        assert (Hz : wrap t (x * 2 ^ s) = 0).
        { rewrite Hs' at 1. rewrite Z.mul_assoc. apply wrap_multiple. exact Hpos. }
        rewrite Hz in C. rewrite Z.div_0_l in C by lia. subst x. apply Er. rewrite Z.mul_0_l.
        range_unfold; destruct (signed t); lia.
  Qed.
End Generic.


Ltac dm := Z.div_mod_to_equations.

Lemma spec_u64 p : 0 <= p -> spec u64 p = if p <? 18446744073709551616 then Ok p else ErrOverflow.
Proof. intros Hp. unfold spec, in_rangeb, tmin, tmax, modulus. cbn [signed half u64].
  destruct (p <? 18446744073709551616) eqn:E; destruct ((0 <=? p) && (p <=? 2 * 9223372036854775808 - 1)) eqn:F; try reflexivity; lia. Qed.

Theorem SafeMulUint64_exact x y : in_range u64 x -> in_range u64 y -> SafeMulUint64 x y = spec_mul u64 x y.
Proof.
  unfold in_range, tmin, tmax, modulus. cbn [signed half u64]. intros Hx Hy.
  unfold SafeMulUint64, spec_mul, mul64_hi, mul64_lo.
  assert (Hp : 0 <= x * y) by nia.
  rewrite (spec_u64 _ Hp).
  destruct (x =? 0) eqn:Ex. { apply Z.eqb_eq in Ex. subst x. reflexivity. }
  destruct (y =? 0) eqn:Ey. { apply Z.eqb_eq in Ey. subst y. rewrite Z.mul_0_r. reflexivity. }
  cbn [orb]. cbv zeta. set (p := x * y) in *. clearbody p.
  destruct (p / 18446744073709551616 =? 0) eqn:E1; cbn [negb];
  destruct (p <? 18446744073709551616) eqn:E2; try reflexivity.
  - f_equal. apply Z.mod_small. lia.
  - exfalso. apply Z.eqb_eq in E1. pose proof (Z.div_mod p 18446744073709551616). pose proof (Z.mod_pos_bound p 18446744073709551616). lia.
  - exfalso. apply Z.eqb_neq in E1. rewrite Z.div_small in E1; lia.
Qed.

Theorem Safe64MulDiv_exact x y d : in_range u64 x -> in_range u64 y -> in_range u64 d ->
  Safe64MulDiv x y d = spec_muldiv x y d.
Proof.
  unfold in_range, tmin, tmax, modulus. cbn [signed half u64]. intros Hx Hy Hd.
  unfold Safe64MulDiv, spec_muldiv, mul64_hi, mul64_lo, div64_quo.
  destruct (d =? 0) eqn:Ed; [reflexivity|]. apply Z.eqb_neq in Ed. cbv zeta.
  assert (Hp : 0 <= x * y) by nia. set (p := x * y) in *. clearbody p.
  assert (Hq : 0 <= p / d) by (apply Z.div_pos; lia).
  rewrite (spec_u64 _ Hq).
  pose proof (Z.div_mod p 18446744073709551616 ltac:(lia)) as DM.
  pose proof (Z.mod_pos_bound p 18446744073709551616 ltac:(lia)) as MB.
  replace (p / 18446744073709551616 * 18446744073709551616 + p mod 18446744073709551616) with p by lia.
  destruct (d <=? p / 18446744073709551616) eqn:E1.
  - (* overflow: p >= d * 2^64 so p/d >= 2^64 *)
    destruct (p / d <? 18446744073709551616) eqn:E2; [exfalso|reflexivity].
    assert (d * 18446744073709551616 <= p) by nia.
    assert (18446744073709551616 <= p / d); [|lia].
    apply Z.div_le_lower_bound; lia.
  - cbn [orb]. destruct (p / d <? 18446744073709551616) eqn:E2; [reflexivity|exfalso].
    assert (p < d * 18446744073709551616) by nia.
    assert (p / d < 18446744073709551616); [|lia].
    apply Z.div_lt_upper_bound; lia.
Qed.

Lemma conv_neg x : -9223372036854775808 <= x < 0 -> conv u64 (neg i64 x) = - x.
Proof. intros Hx. unfold conv, neg, wrap, modulus. cbn [signed half u64 i64]. dm. lia. Qed.

Lemma conv_pos x : 0 <= x < 9223372036854775808 -> conv u64 x = x.
Proof. intros Hx. unfold conv, wrap, modulus. cbn [signed half u64]. dm. lia. Qed.

Lemma signbit ls : in_range i64 ls -> (band i64 (shr i64 ls 63) 1 =? 1) = (ls <? 0).
Proof.
  unfold in_range, tmin, tmax. cbn [signed half i64]. intros Hr. unfold band, shr.
  change (2 ^ 63) with 9223372036854775808.
  destruct (ls <? 0) eqn:E.
  - replace (ls / 9223372036854775808) with (-1) by (dm; lia). reflexivity.
  - replace (ls / 9223372036854775808) with 0 by (dm; lia). reflexivity.
Qed.

Definition tail (a b : Z) (pos : bool) : res :=
  let v_hi := mul64_hi a b in
  let v_lo := mul64_lo a b in
  if negb (v_hi =? 0) then ErrOverflow
  else
    let v_loSigned := mul i64 (conv i64 v_lo) (if pos then 1 else -1) in
    let v_signBitSet := band i64 (shr i64 v_loSigned 63) 1 =? 1 in
    if pos then (if v_signBitSet then ErrOverflow else Ok v_loSigned)
    else (if negb v_signBitSet then ErrOverflow else Ok v_loSigned).

Lemma tail_spec a b pos : 1 <= a <= 9223372036854775808 -> 1 <= b <= 9223372036854775808 ->
  tail a b pos = spec i64 (if pos then a * b else - (a * b)).
Proof.
  intros Ha Hb. unfold tail, mul64_hi, mul64_lo. cbv zeta.
  assert (Hp : 1 <= a * b) by nia. set (p := a * b) in *. clearbody p.
  unfold spec, in_rangeb, tmin, tmax. cbn [signed half i64].
  destruct (p / 18446744073709551616 =? 0) eqn:E1; cbn [negb].
  - assert (Hlt : p < 18446744073709551616) by (dm; lia).
    rewrite (Z.mod_small p) by lia.
    rewrite signbit by (apply wrap_range; cbn; lia).
    unfold mul, conv, wrap, modulus. cbn [signed half i64].
    set (w1 := (p + 9223372036854775808) mod (2 * 9223372036854775808) - 9223372036854775808).
    assert (Hw1 : w1 = if p <? 9223372036854775808 then p else p - 18446744073709551616).
    { unfold w1. destruct (p <? 9223372036854775808) eqn:E2; dm; lia. }
    clearbody w1.
    destruct pos.
    + rewrite Z.mul_1_r.
      set (w2 := (w1 + 9223372036854775808) mod (2 * 9223372036854775808) - 9223372036854775808).
      assert (Hw2 : w2 = w1) by (unfold w2; destruct (p <? 9223372036854775808) eqn:E2; dm; lia).
      rewrite Hw2. clear w2 Hw2.
      destruct (p <? 9223372036854775808) eqn:E2; subst w1;
      repeat match goal with |- context [if ?c then _ else _] => destruct c eqn:? end; try reflexivity; try lia.
    + set (w2 := (w1 * -1 + 9223372036854775808) mod (2 * 9223372036854775808) - 9223372036854775808).
      assert (Hw2 : w2 = if p <=? 9223372036854775808 then - p else 18446744073709551616 - p).
      { unfold w2. destruct (p <? 9223372036854775808) eqn:E2; destruct (p <=? 9223372036854775808) eqn:E3; dm; lia. }
      clearbody w2.
      destruct (p <=? 9223372036854775808) eqn:E3; subst w2;
      repeat match goal with |- context [if ?c then _ else _] => destruct c eqn:? end; try reflexivity; try lia.
  - assert (Hge : 18446744073709551616 <= p) by (dm; lia).
    destruct pos;
      repeat match goal with |- context [if ?c then _ else _] => destruct c eqn:? end; try reflexivity; try lia.
Qed.

Theorem SafeMulInt64_exact x y : in_range i64 x -> in_range i64 y -> SafeMulInt64 x y = spec_mul i64 x y.
Proof.
  unfold in_range, tmin, tmax. cbn [signed half i64]. intros Hx Hy.
  unfold SafeMulInt64, spec_mul.
  destruct (x =? 0) eqn:Ex. { apply Z.eqb_eq in Ex. subst x. reflexivity. }
  destruct (y =? 0) eqn:Ey. { apply Z.eqb_eq in Ey. subst y. rewrite Z.mul_0_r. reflexivity. }
  cbn [orb]. cbv zeta.
  destruct (x <? 0) eqn:Sx; destruct (y <? 0) eqn:Sy.
  - replace (x >? 0) with false by lia. replace (y >? 0) with false by lia. cbv iota beta.
    rewrite !conv_neg by lia. fold (tail (- x) (- y) true). rewrite tail_spec by lia. f_equal. ring.
  - replace (x >? 0) with false by lia. replace (y >? 0) with true by lia. cbv iota beta.
    rewrite conv_neg by lia. rewrite (conv_pos y) by lia. fold (tail (- x) y false). rewrite tail_spec by lia. f_equal. ring.
  - replace (x >? 0) with true by lia. replace (y >? 0) with false by lia. cbv iota beta.
    rewrite conv_neg by lia. rewrite (conv_pos x) by lia. fold (tail x (- y) false). rewrite tail_spec by lia. f_equal. ring.
  - replace (x >? 0) with true by lia. replace (y >? 0) with true by lia. cbv iota beta.
    rewrite !conv_pos by lia. fold (tail x y true). rewrite tail_spec by lia. reflexivity.
Qed.
