(* C03 reverse direction for the model: whatever the VALIDATING decoder accepts re-encodes (with validation) to
   exactly the consumed bytes - no byte string other than the canonical one decodes to a value. By mutual structural
   induction on the schema, for all byte strings. Guard [times_ok]: every decoded time stamp lies in [0, MaxInt64) ns,
   i.e. no stamp of the input was saturated / wrapped by ReadTime (the documented non-injective case). *)
From Coq Require Import List NArith ZArith Bool Lia PeanoNat Permutation Sorting.Sorted.
From Verif.C01_Serix Require Import Model Layout Bound SortLex RoundTrip.
Import ListNotations.
Open Scope N_scope.

Definition wfb (b : bytes) : Prop := Forall (fun x => x < 256) b.

Lemma wfb_firstn : forall n b, wfb b -> wfb (firstn n b).
Proof.
  intros n b H. unfold wfb in *. rewrite Forall_forall in *. intros x Hx. apply H.
  rewrite <- (firstn_skipn n b). apply in_or_app. left. exact Hx.
Qed.

Lemma wfb_skipn : forall n b, wfb b -> wfb (skipn n b).
Proof.
  intros n b H. unfold wfb in *. rewrite Forall_forall in *. intros x Hx. apply H.
  rewrite <- (firstn_skipn n b). apply in_or_app. right. exact Hx.
Qed.

Lemma le_enc_dec : forall bs, wfb bs -> le_enc (length bs) (le_dec bs) = bs.
Proof.
  induction bs as [| x bs IH]; intros H; [reflexivity |].
  inversion H; subst. cbn [length le_enc le_dec].
  replace ((x + 256 * le_dec bs) mod 256) with x.
  - replace ((x + 256 * le_dec bs) / 256) with (le_dec bs).
    + rewrite IH by assumption. reflexivity.
    + rewrite N.mul_comm, N.div_add by lia. rewrite N.div_small by assumption. reflexivity.
  - rewrite N.mul_comm, N.mod_add by lia. rewrite N.mod_small by assumption. reflexivity.
Qed.

Lemma le_dec_lt : forall bs, wfb bs -> le_dec bs < 256 ^ N.of_nat (length bs).
Proof.
  induction bs as [| x bs IH]; intros H; [simpl; lia |].
  inversion H; subst. specialize (IH H3). cbn [length le_dec]. rewrite Nat2N.inj_succ, N.pow_succ_r'. lia.
Qed.

Lemma firstn_add : forall {A} a c (b : list A), firstn (a + c) b = firstn a b ++ firstn c (skipn a b).
Proof.
  induction a as [| a IH]; intros c b; [reflexivity |]. destruct b as [| x b]; simpl.
  - rewrite firstn_nil. reflexivity.
  - rewrite IH. reflexivity.
Qed.

Lemma firstn_length_le : forall {A} n (b : list A), (n <= length b)%nat -> length (firstn n b) = n.
Proof. intros. rewrite firstn_length. lia. Qed.

(* ---------- reading a length prefix back ---------- *)

Lemma write_read_len : forall l b cnt, wfb b -> read_len l b = Ok cnt ->
  write_len l cnt = Ok (firstn (lpt_size l) b).
Proof.
  intros l b cnt Hw H. unfold read_len in H.
  destruct (length b <? lpt_size l)%nat eqn:E; try discriminate. apply Nat.ltb_ge in E.
  pose proof (wfb_firstn (lpt_size l) b Hw) as Hf.
  pose proof (le_dec_lt _ Hf) as Hlt. pose proof (le_enc_dec _ Hf) as Hed.
  rewrite firstn_length_le in Hlt, Hed by assumption.
  unfold write_len.
  destruct l.
  - apply ok_inj in H as <-. change (256 ^ N.of_nat (lpt_size L8)) with 256 in Hlt.
    replace (lpt_max L8 <? _) with false by (symmetry; apply N.ltb_ge; change (lpt_max L8) with 255; lia).
    rewrite Hed. reflexivity.
  - apply ok_inj in H as <-. change (256 ^ N.of_nat (lpt_size L16)) with 65536 in Hlt.
    replace (lpt_max L16 <? _) with false by (symmetry; apply N.ltb_ge; change (lpt_max L16) with 65535; lia).
    rewrite Hed. reflexivity.
  - apply ok_inj in H as <-. change (256 ^ N.of_nat (lpt_size L32)) with 4294967296 in Hlt.
    replace (lpt_max L32 <? _) with false by (symmetry; apply N.ltb_ge; change (lpt_max L32) with 4294967295; lia).
    rewrite Hed. reflexivity.
  - destruct (lpt_max L64 <? _); try discriminate. apply ok_inj in H as <-.
    change (lpt_size L64) with 8%nat in *. rewrite Hed. reflexivity.
Qed.

Lemma check_bounds_of_maxmin : forall mn mx len, check_len_maxmin mn mx len = Ok tt -> check_bounds mn mx len = Ok tt.
Proof.
  unfold check_len_maxmin, check_bounds. intros mn mx len H.
  destruct (negb (mx =? 0) && (mx <? len)) eqn:E1; try discriminate.
  destruct (negb (mn =? 0) && (len <? mn)) eqn:E2; try discriminate. reflexivity.
Qed.

Lemma check_code_firstn : forall ty b c, wfb b -> check_code ty b = Ok c -> code_bytes ty = firstn c b.
Proof.
  intros [t |] b c Hw H; unfold check_code in H.
  - destruct (length b <? code_size t)%nat eqn:E; try discriminate. apply Nat.ltb_ge in E.
    destruct (le_dec (firstn (code_size t) b) =? code_val t) eqn:E2; try discriminate.
    apply N.eqb_eq in E2. apply ok_inj in H as <-. unfold code_bytes. rewrite <- E2.
    pose proof (le_enc_dec _ (wfb_firstn (code_size t) b Hw)) as Hed.
    rewrite firstn_length_le in Hed by assumption. exact Hed.
  - apply ok_inj in H as <-. reflexivity.
Qed.

(* ---------- well-formedness for this direction ---------- *)

Fixpoint wfc (s : schema) : Prop :=
  match s with
  | SPtr s' => ptr_target_ok s' = true /\ wfc s'
  | SStruct _ fs => wfc_fields fs
  | SSlice _ _ e | SArr _ _ _ e => wfc e /\ zero_size e = false
  | SMap _ _ k v => wfc k /\ wfc v /\ zero_size k && zero_size v = false
  | SIface d al => wfc_alts d al
  | _ => True
  end
with wfc_fields (fs : fields) : Prop :=
  match fs with
  | FNil => True
  | FCons k s r =>
      wfc s /\ wfc_fields r /\
      match k with FEmb | FEmbPtr => match s with SStruct _ _ => True | _ => False end | _ => True end
  end
with wfc_alts (d : tyden) (al : alts) : Prop :=
  match al with
  | ANil => True
  | ACons c s r => wfc s /\ alt_ok d c s /\ wfc_alts d r
  end.

(* ---------- a successful decode consumes at least min_size bytes ---------- *)

Definition Ms (s : schema) : Prop := wfc s -> forall val tot b v n, decode val tot s b = Ok (v, n) -> (min_size s <= n)%nat.
Definition Mf (fs : fields) : Prop := wfc_fields fs -> forall val tot b vs n,
  decode_fields val tot fs b = Ok (vs, n) -> (min_size_fields fs <= n)%nat.
Definition Ma (al : alts) : Prop := forall d, wfc_alts d al -> forall val tot c b v n,
  decode_alt val tot c al b = Ok (v, n) -> (match d with Den8 => 1 | Den32 => 4 end <= n)%nat.
Definition Pm (s : schema) : Prop := Ms s /\ match s with SStruct _ fs => Mf fs | _ => True end.

Lemma dec_seq_min : forall {A} (item : A -> bytes -> res (A * nat)) val l r zs tot init b a n,
  dec_seq item val l r zs tot init b = Ok (a, n) -> (lpt_size l <= n)%nat.
Proof.
  unfold dec_seq; intros. inv_bind H. inv_bind Hk. destruct (seq_fuel _ _ _ _); try discriminate.
  inv_bind Hk0. destruct a2. apply ok_inj in Hk. inversion Hk; subst. lia.
Qed.

Lemma custom_dec_min : forall f b bs n, custom_dec f b = Ok (bs, n) ->
  (match f with CFix k => k | CLen8 => 1 end <= n)%nat.
Proof.
  intros [k |] b bs n H; unfold custom_dec in H.
  - inv_bind H. inversion Hk; subst. lia.
  - destruct b as [| l r]; [discriminate |]. inv_bind H. inversion Hk; subst. lia.
Qed.

Lemma min_all : (forall s, Pm s) /\ (forall fs, Mf fs) /\ (forall al, Ma al).
Proof.
  apply schema_fields_alts_ind; unfold Pm.
  - split; [| exact I]. intros _ val tot b v n H. simpl in H.
    destruct b as [| [| p] ?]; try discriminate; [inversion H; simpl; lia |]. destruct p; try discriminate. inversion H; simpl; lia.
  - intros sg w. split; [| exact I]. intros _ val tot b v n H. simpl in H. inv_bind H. inversion Hk; subst. simpl. lia.
  - intros l mn mx. split; [| exact I]. intros _ val tot b v n H. simpl in H. inv_bind H. inv_bind Hk.
    destruct (_ <? a); try discriminate. destruct (val && _); try discriminate. inversion Hk0; subst. simpl. lia.
  - intros l mn mx. split; [| exact I]. intros _ val tot b v n H. simpl in H. inv_bind H. inv_bind Hk.
    destruct (_ <? a); try discriminate. inversion Hk0; subst. simpl. lia.
  - intros n ty. split; [| exact I]. intros _ val tot b v m H. simpl in H. inv_bind H. inv_bind Hk.
    apply check_code_ok in Hb. inversion Hk0; subst. simpl. lia.
  - split; [| exact I]. intros _ val tot b v n H. simpl in H. inv_bind H. inversion Hk; subst. simpl. lia.
  - split; [| exact I]. intros _ val tot b v n H. simpl in H. inv_bind H. inversion Hk; subst. simpl. lia.
  - intros s [IH _]. split; [| exact I]. intros [_ Hw] val tot b v n H. simpl in *. eapply IH; eauto.
  - intros ty fs IH. split; [| exact IH]. intros Hw val tot b v n H. simpl in H.
    destruct (check_code ty b) eqn:E; [| inv_bind H; discriminate | discriminate].
    apply check_code_ok in E. inv_bind H. destruct a0 as [vs m]. inversion Hk; subst.
    apply IH in Hb; auto. cbn [min_size]. lia.
  - intros l r e _. split; [| exact I]. intros _ val tot b v n H. simpl in H. inv_bind H. destruct a as [acc m].
    apply dec_seq_min in Hb. inv_bind Hk. inversion Hk0; subst. simpl. lia.
  - intros cnt l r e _. split; [| exact I]. intros _ val tot b v n H. simpl in H. inv_bind H. destruct a as [acc m].
    apply dec_seq_min in Hb. inv_bind Hk. destruct (Nat.eqb _ _); try discriminate. inversion Hk0; subst. simpl. lia.
  - intros l r k _ ve _. split; [| exact I]. intros _ val tot b v n H. simpl in H. inv_bind H. destruct a as [acc m].
    apply dec_seq_min in Hb. inversion Hk; subst. simpl. lia.
  - intros d al IH. split; [| exact I]. intros Hw val tot b v n H. simpl in H. inv_bind H. inv_bind Hk.
    destruct a0 as [v' n']. inversion Hk0; subst. cbn [min_size]. eapply IH; eauto.
  - intros ty f p. split; [| exact I]. intros _ val tot b v n H. simpl in H. inv_bind H. inv_bind Hk.
    destruct a0 as [bs m]. apply check_code_ok in Hb. apply custom_dec_min in Hb0.
    destruct (val && negb _); try discriminate. inversion Hk0; subst. cbn [min_size]. lia.
  - intros _ val tot b vs n H. simpl in H. inversion H; subst. simpl. lia.
  - intros k s [IHs IHemb] r IHr [Hws [Hwr Hk]] val tot b vs n H. cbn [decode_fields] in H.
    inv_bind H. destruct a as [v n1]. destruct (length b <? n1)%nat; try discriminate.
    inv_bind Hk0. destruct a as [vs' m]. inversion Hk1; subst. apply IHr in Hb0; auto.
    cbn [min_size_fields].
    assert ((match k with
             | FPlain => min_size s
             | FOpt => 4
             | FEmb | FEmbPtr => match s with SStruct _ fs' => min_size_fields fs' | _ => 0 end
             end <= n1)%nat); [| lia].
    destruct k.
    + eapply IHs; eauto.
    + destruct (length b <? 4)%nat; try discriminate. destruct (_ =? 0); [inversion Hb; lia |].
      inv_bind Hb. destruct a as [v' n']. destruct (negb _); try discriminate. inversion Hk0; lia.
    + destruct s; try contradiction. inv_bind Hb. destruct a as [vs'' n']. inversion Hk0; subst. eapply IHemb; eauto.
    + destruct s; try contradiction. inv_bind Hb. destruct a as [vs'' n']. inversion Hk0; subst. eapply IHemb; eauto.
  - intros d _ val tot c b v n H. simpl in H. discriminate.
  - intros c' s [IHs _] r IHr d [Hws [Hao Hwr]] val tot c b v n H. simpl in H.
    destruct (c =? c'); [| eapply IHr; eauto].
    apply IHs in H; auto. unfold alt_ok in Hao.
    destruct s; try contradiction.
    + destruct s; try contradiction. destruct ty as [t |]; try contradiction. destruct Hao as [_ Hd].
      cbn [min_size code_bytes] in H. rewrite app_length in H || idtac. rewrite le_enc_len in H.
      destruct d, t; try contradiction; simpl in *; lia.
    + destruct ty as [t |]; try contradiction. destruct Hao as [_ Hd].
      cbn [min_size code_bytes] in H. rewrite le_enc_len in H.
      destruct d, t; try contradiction; simpl in *; lia.
    + destruct ty as [t |]; try contradiction. destruct Hao as [_ Hd].
      cbn [min_size code_bytes] in H. rewrite le_enc_len in H.
      destruct d, t; try contradiction; simpl in *; lia.
Qed.

Lemma decode_min : forall s, wfc s -> forall val tot b v n, decode val tot s b = Ok (v, n) -> (min_size s <= n)%nat.
Proof. intros s. apply (proj1 (proj1 min_all s)). Qed.

(* ---------- validators on the decoder side ---------- *)

Fixpoint chain (prev : option bytes) (data : list bytes) : Prop :=
  match data with
  | [] => True
  | e :: rest => match prev with Some p => bleb p e = true | None => True end /\ chain (Some e) rest
  end.

Lemma validate_prev : forall r st e st', ar_lex r = true -> validate r st e = Ok st' ->
  vs_prev st' = Some e /\ (forall p, vs_prev st = Some p -> bleb p e = true).
Proof.
  intros r st e st' Hl H. unfold validate in H. rewrite Hl in H. rewrite andb_false_r in H. cbn [bind] in H.
  apply bind_ok in H as [st2 [H2 H]]. apply bind_ok in H as [st3 [H3 H]].
  assert (P2 : vs_prev st2 = Some e /\ (forall p, vs_prev st = Some p -> bleb p e = true)).
  { destruct (vs_prev st) as [p |] eqn:Ep.
    - unfold bleb. destruct (bcmp p e) eqn:Ec; try discriminate.
      + destruct (ar_nodup r); try discriminate. apply ok_inj in H2 as <-. cbn [vs_prev].
        split; auto. intros p0 Hp0. inversion Hp0; subst. rewrite Ec. reflexivity.
      + apply ok_inj in H2 as <-. cbn [vs_prev]. split; auto. intros p0 Hp0. inversion Hp0; subst. rewrite Ec. reflexivity.
    - apply ok_inj in H2 as <-. cbn [vs_prev]. split; auto. discriminate. }
  destruct P2 as [P2 P2'].
  assert (P3 : vs_prev st3 = Some e).
  { destruct (ar_one8 r); [| apply ok_inj in H3 as <-; exact P2]. destruct e as [| c e']; try discriminate.
    destruct (existsb _ _); try discriminate. apply ok_inj in H3 as <-. exact P2. }
  split; [| exact P2'].
  destruct (ar_one32 r); [| apply ok_inj in H as <-; exact P3].
  destruct (length e <? 4)%nat; try discriminate. destruct (existsb _ _); try discriminate.
  apply ok_inj in H as <-. exact P3.
Qed.

Lemma vfold_chain : forall r, ar_lex r = true -> forall data st st', vfold r st data = Ok st' -> chain (vs_prev st) data.
Proof.
  intros r Hl. induction data as [| e rest IH]; intros st st' H; simpl in *; auto.
  apply bind_ok in H as [st1 [H1 H]]. destruct (validate_prev _ _ _ _ Hl H1) as [Hp Hq].
  split.
  - destruct (vs_prev st); auto.
  - apply IH in H. rewrite Hp in H. exact H.
Qed.

Lemma chain_sorted : forall data prev, chain prev data ->
  StronglySorted (le_on (fun b => b)) data /\ (forall p, prev = Some p -> Forall (fun e => bleb p e = true) data).
Proof.
  induction data as [| e rest IH]; intros prev H.
  - split; [constructor | intros; constructor].
  - destruct H as [H1 H2]. destruct (IH _ H2) as [Hs Hf]. specialize (Hf e eq_refl). split.
    + constructor; auto.
    + intros p ->. constructor; auto. eapply Forall_impl; [| exact Hf]. intros x Hx. eapply bleb_trans; eauto.
Qed.

Lemma vfold_validate_all : forall r data st st', Forall (fun d => d <> []) data ->
  vfold r st data = Ok st' -> validate_all r st data = Ok tt.
Proof.
  induction data as [| e rest IH]; intros st st' Hne H; simpl in *; auto.
  inversion Hne; subst. apply bind_ok in H as [st1 [H1 H]].
  rewrite H1. cbn [bind]. eapply IH; eauto.
Qed.

Lemma no_validator_validate_all : forall r data st, has_validator r = false -> validate_all r st data = Ok tt.
Proof.
  induction data as [| e rest IH]; intros st H; simpl; auto.
  rewrite validate_no_validator by assumption. cbn [bind]. apply IH; assumption.
Qed.

Lemma mapM_length : forall {A B} (f : A -> res B) l d, mapM f l = Ok d -> length d = length l.
Proof.
  induction l as [| x l IH]; intros d H; simpl in H.
  - apply ok_inj in H as <-. reflexivity.
  - apply bind_ok in H as [y [Hy H]]. apply bind_ok in H as [ys [Hys H]]. apply ok_inj in H as <-.
    simpl. f_equal. apply IH; assumption.
Qed.

(* ---------- inversion of the loop: the accepted elements re-encode to the consumed bytes ---------- *)

(* the guard of the property: the decoded value holds no time stamp that ReadTime may have saturated or wrapped *)
Fixpoint times_ok (s : schema) (v : value) {struct s} : Prop :=
  match s, v with
  | STime, VTime ns => (0 <= ns < MaxInt64)%Z
  | SPtr s', _ => times_ok s' v
  | SStruct _ fs, VL vs => times_ok_fields fs vs
  | SSlice _ _ e, VL vs | SArr _ _ _ e, VL vs => Forall (times_ok e) vs
  | SMap _ _ k ve, VMap es => Forall (fun kv => times_ok k (fst kv) /\ times_ok ve (snd kv)) es
  | SIface _ al, VIface c v' => times_ok_alt c al v'
  | _, _ => True
  end
with times_ok_fields (fs : fields) (vs : list value) {struct fs} : Prop :=
  match fs, vs with
  | FCons k s r, v :: vs' =>
      (match k with
       | FPlain | FOpt => times_ok s v
       | FEmb | FEmbPtr => match s, v with SStruct _ fs', VL vs'' => times_ok_fields fs' vs'' | _, _ => True end
       end) /\ times_ok_fields r vs'
  | _, _ => True
  end
with times_ok_alt (c : N) (al : alts) (v : value) {struct al} : Prop :=
  match al with
  | ANil => True
  | ACons c' s r => if c =? c' then times_ok s v else times_ok_alt c r v
  end.

Definition canon_elem (tot : nat) (e : schema) : Prop :=
  forall d b v n, wfb b -> decode true tot e b = Ok (v, n) ->
    v <> VNil /\ (times_ok e v -> encode true d e v = Ok (firstn n b)).

Lemma forall2_len : forall {X Y} (P : X -> Y -> Prop) xs ys, Forall2 P xs ys -> length xs = length ys.
Proof. intros X Y P xs ys H. induction H; simpl; auto. Qed.

Lemma forall2_mapM : forall {X} (tok : X -> Prop) (encx : X -> res bytes) xs data,
  Forall2 (fun x d => tok x -> encx x = Ok d) xs data -> Forall tok xs -> mapM encx xs = Ok data.
Proof.
  intros X tok encx xs data H. induction H; intros Ht; [reflexivity |].
  inversion Ht; subst. cbn [mapM]. rewrite (H H3). cbn [bind]. rewrite IHForall2 by assumption. reflexivity.
Qed.

Section LoopInv.
  Context {A X : Type} (item : A -> bytes -> res (A * nat)) (r : arules).
  Context (push : X -> A -> A) (P : X -> bytes -> Prop).
  (* every successful item pushes one x related to the consumed prefix, and consumes at least one byte *)
  Hypothesis item_inv : forall acc b a n, wfb b -> item acc b = Ok (a, n) ->
    exists x, a = push x acc /\ P x (firstn n b) /\ (1 <= n)%nat.

  Lemma seq_loop_inv : forall fuel st acc b a m, wfb b ->
    seq_loop item true r fuel st acc b = Ok (a, m) ->
    exists xs data st',
      a = fold_left (fun acc x => push x acc) xs acc /\ length xs = fuel /\
      Forall2 P xs data /\ concat data = firstn m b /\ (fuel <= m)%nat /\
      Forall (fun d => d <> []) data /\
      (has_validator r = true -> vfold r st data = Ok st').
  Proof.
    induction fuel as [| k IH]; intros st acc b a m Hw H; simpl in H.
    - apply ok_inj in H. inversion H; subst. exists [], [], st. repeat split; auto.
    - apply bind_ok in H as [[acc' n] [Hi H]].
      destruct (length b <? n)%nat eqn:E; try discriminate. apply Nat.ltb_ge in E.
      apply bind_ok in H as [st1 [Hv H]]. apply bind_ok in H as [[a2 m2] [Hl H]].
      apply ok_inj in H. inversion H; subst a2 m. clear H.
      destruct (item_inv _ _ _ _ Hw Hi) as [x [Ha [Hx Hn]]].
      destruct (IH _ _ _ _ _ (wfb_skipn n b Hw) Hl) as [xs [data [st' [Hxs [Hlen [Hm [Hc [Hk [Hne Hvf]]]]]]]]].
      exists (x :: xs), (firstn n b :: data), st'.
      split; [subst; reflexivity |]. split; [simpl; lia |].
      split; [constructor; assumption |].
      split; [cbn [concat]; rewrite Hc, <- firstn_add; reflexivity |].
      split; [lia |].
      split.
      + constructor; auto. intros Hnil. apply (f_equal (@length N)) in Hnil. rewrite firstn_length_le in Hnil by assumption.
        simpl in Hnil. lia.
      + intros Hh. cbn [vfold]. cbn [andb] in Hv. rewrite Hh in Hv. rewrite Hv. cbn [bind]. apply Hvf. exact Hh.
  Qed.
End LoopInv.

Lemma fold_push_rev : forall {X} (xs : list X) acc, fold_left (fun acc x => x :: acc) xs acc = rev xs ++ acc.
Proof. induction xs as [| x xs IH]; intros acc; simpl; auto. rewrite IH, <- app_assoc. reflexivity. Qed.

(* the encoder side of a sequence whose elements came out of the validating loop *)
Lemma enc_seq_of_decoded : forall l r b cnt data m st',
  wfb b -> read_len l b = Ok cnt ->
  check_bounds (ar_min r) (ar_max r) cnt = Ok tt ->
  N.of_nat (length data) = cnt ->
  concat data = firstn m (skipn (lpt_size l) b) ->
  Forall (fun d => d <> []) data ->
  (has_validator r = true -> vfold r vinit data = Ok st') ->
  enc_seq true l r data = Ok (firstn (lpt_size l + m) b).
Proof.
  intros l r b cnt data m st' Hw Hr Hcb Hcnt Hc Hne Hvf. unfold enc_seq. unfold bytes in *.
  rewrite Hcnt, Hcb. cbn [bind]. rewrite (write_read_len _ _ _ Hw Hr). cbn [bind]. cbv zeta.
  match goal with |- context [validate_all r vinit ?X] => assert (Hsort : X = data) end.
  { destruct (ar_autosort r && ar_lex r) eqn:E; auto. apply andb_prop in E as [_ El].
    assert (Hh : has_validator r = true). { unfold has_validator. rewrite El. rewrite orb_true_r. reflexivity. }
    specialize (Hvf Hh). apply (vfold_chain _ El) in Hvf. apply chain_sorted in Hvf as [Hs _].
    apply sort_on_sorted_id. exact Hs. }
  rewrite Hsort.
  assert (Hva : validate_all r vinit data = Ok tt).
  { destruct (has_validator r) eqn:Hh.
    - eapply vfold_validate_all; eauto.
    - apply no_validator_validate_all; assumption. }
  rewrite Hva. cbn [bind]. rewrite Hc, <- firstn_add. reflexivity.
Qed.

Lemma dec_seq_canon : forall {A X} (item : A -> bytes -> res (A * nat)) (r : arules) (push : X -> A -> A) (P : X -> bytes -> Prop),
  (forall acc b a n, wfb b -> item acc b = Ok (a, n) ->
     exists x, a = push x acc /\ P x (firstn n b) /\ (1 <= n)%nat) ->
  forall l tot init b a n, wfb b ->
  dec_seq item true l r false tot init b = Ok (a, n) ->
  exists xs data, a = fold_left (fun acc x => push x acc) xs init /\ Forall2 P xs data /\
    check_bounds (ar_min r) (ar_max r) (N.of_nat (length xs)) = Ok tt /\
    enc_seq true l r data = Ok (firstn n b).
Proof.
  intros A X item r push P Hinv l tot init b a n Hw H. unfold dec_seq in H.
  apply bind_ok in H as [cnt [Hr H]]. apply bind_ok in H as [[] [Hcb H]].
  unfold seq_fuel in H.
  apply bind_ok in H as [[a' m] [Hl H]]. apply ok_inj in H. inversion H; subst a' n. clear H.
  pose proof (seq_loop_bound _ _ _ _ _ _ _ _ _ Hl) as Hbd.
  destruct (seq_loop_inv item r push P Hinv _ _ _ _ _ _ (wfb_skipn _ _ Hw) Hl)
    as [xs [data [st' [Ha [Hlen [Hm [Hc [Hk [Hne Hvf]]]]]]]]].
  assert (Hcnt : N.of_nat (length xs) = cnt).
  { rewrite Hlen. destruct (N.le_gt_cases cnt (N.of_nat (length (skipn (lpt_size l) b)) + 1)) as [Hle | Hgt].
    - rewrite N.min_l in * by assumption. apply N2Nat.id.
    - rewrite N.min_r in Hk by lia. lia. }
  exists xs, data. split; [exact Ha |]. split; [exact Hm |]. split; [rewrite Hcnt; exact Hcb |].
  eapply enc_seq_of_decoded; eauto.
  pose proof (forall2_len _ _ _ Hm) as Hml. unfold bytes in *. rewrite <- Hml. exact Hcnt.
Qed.

(* ---------- numbers ---------- *)

Lemma enc_dec_int : forall sg w bs, wfb bs -> length bs = wbytes w -> enc_int w (dec_int sg w bs) = bs.
Proof.
  intros sg w bs Hw Hl. unfold enc_int, dec_int.
  pose proof (le_dec_lt _ Hw) as Hlt. rewrite Hl in Hlt.
  assert (Hm : 256 ^ N.of_nat (wbytes w) = Z.to_N (wmod w)) by (destruct w; reflexivity).
  rewrite Hm in Hlt.
  assert (Hz : (0 <= Z.of_N (le_dec bs) < wmod w)%Z) by (destruct w; simpl in Hlt |- *; lia).
  assert (Hmod : ((if sg && (wmod w / 2 <=? Z.of_N (le_dec bs))%Z then (Z.of_N (le_dec bs) - wmod w)%Z else Z.of_N (le_dec bs)) mod wmod w
                  = Z.of_N (le_dec bs))%Z).
  { destruct (sg && _).
    - replace (Z.of_N (le_dec bs) - wmod w)%Z with (Z.of_N (le_dec bs) + (-1) * wmod w)%Z by lia.
      rewrite Z_mod_plus_full. apply Z.mod_small; exact Hz.
    - apply Z.mod_small; exact Hz. }
  rewrite Hmod, N2Z.id, <- Hl. apply le_enc_dec; assumption.
Qed.

(* time.Time: canonical exactly when the stamp is inside the int64 nanosecond range *)
Lemma canonical_time : forall tot d b v n, wfb b -> decode true tot STime b = Ok (v, n) ->
  (Z.of_N (le_dec (firstn 8 b)) <= MaxInt64)%Z -> encode true d STime v = Ok (firstn n b).
Proof.
  intros tot d b v n Hw H Hr. cbn [decode] in H.
  apply bind_ok in H as [bs [Ht H]]. apply take_ok in Ht as [Hl Hbs]. apply ok_inj in H. inversion H; subst v n.
  rewrite <- Hbs in *.
  assert (Hf : wfb bs) by (rewrite Hbs; apply wfb_firstn; assumption).
  assert (Hlen : length bs = 8%nat) by (rewrite Hbs; apply firstn_length_le; assumption).
  clear Hbs H. cbn [encode].
  set (x := le_dec bs) in *.
  assert (Hx : (0 <= Z.of_N x)%Z) by lia.
  assert (Hu : u64_to_time x = Z.of_N x).
  { unfold u64_to_time, wrap64, MaxInt64, MaxSec in *.
    pose proof (Z.div_le_mono (Z.of_N x) 9223372036854775807 1000000000 ltac:(lia) Hr) as Hd.
    change (9223372036854775807 / 1000000000)%Z with 9223372036%Z in Hd.
    replace (9223372036 <? Z.of_N x / 1000000000)%Z with false by (symmetry; apply Z.ltb_ge; lia).
    rewrite Z.mod_small by lia.
    replace (9223372036854775807 <? Z.of_N x)%Z with false by (symmetry; apply Z.ltb_ge; lia). reflexivity. }
  rewrite Hu. rewrite time_to_u64_id by (unfold MaxInt64 in *; lia). rewrite N2Z.id. unfold x. rewrite <- Hlen. rewrite le_enc_dec by assumption.
  reflexivity.
Qed.

(* ---------- the mutual induction ---------- *)

Lemma time_guard : forall bs, wfb bs -> length bs = 8%nat ->
  (0 <= u64_to_time (le_dec bs) < MaxInt64)%Z -> (Z.of_N (le_dec bs) <= MaxInt64)%Z.
Proof.
  intros bs Hw Hl H. pose proof (le_dec_lt _ Hw) as Hlt. rewrite Hl in Hlt.
  change (256 ^ N.of_nat 8) with 18446744073709551616 in Hlt.
  unfold u64_to_time, wrap64, MaxInt64, MaxSec in *.
  destruct (9223372036 <? Z.of_N (le_dec bs) / 1000000000)%Z; [lia |].
  rewrite Z.mod_small in H by lia.
  destruct (9223372036854775807 <? Z.of_N (le_dec bs))%Z eqn:E; [lia |]. apply Z.ltb_ge in E. exact E.
Qed.

Definition Cs (s : schema) : Prop := wfc s -> forall tot, canon_elem tot s.
Definition Cf (fs : fields) : Prop := wfc_fields fs -> forall tot b vs n, wfb b ->
  decode_fields true tot fs b = Ok (vs, n) -> times_ok_fields fs vs -> encode_fields true fs vs = Ok (firstn n b).
Definition Ca (al : alts) : Prop := forall d, wfc_alts d al -> forall tot c b v n, wfb b ->
  decode_alt true tot c al b = Ok (v, n) -> times_ok_alt c al v -> encode_alt true c al v = Ok (firstn n b).
Definition Pc (s : schema) : Prop := Cs s /\ match s with SStruct _ fs => Cf fs | _ => True end.

(* on well-formed input the bytes the custom decoder consumed are what the custom encoder writes for the payload *)
Lemma custom_dec_enc : forall f b bs n, wfb b -> custom_dec f b = Ok (bs, n) -> custom_enc f bs = Ok (firstn n b).
Proof.
  intros [m |] b bs n Hw H; unfold custom_dec in H.
  - apply bind_ok in H as [x [Ht H]]. apply take_ok in Ht as [Hl ->]. apply ok_inj in H. inversion H; subst.
    unfold custom_enc. rewrite firstn_length_le by assumption. rewrite Nat.eqb_refl. reflexivity.
  - destruct b as [| l r]; [discriminate |]. apply bind_ok in H as [x [Ht H]]. apply take_ok in Ht as [Hl ->].
    apply ok_inj in H. inversion H; subst. unfold custom_enc. rewrite firstn_length_le by assumption.
    inversion Hw; subst.
    replace (N.to_nat l <? 256)%nat with true by (symmetry; apply Nat.ltb_lt; lia).
    rewrite N2Nat.id. reflexivity.
Qed.

Theorem canonical_all : (forall s, Pc s) /\ (forall fs, Cf fs) /\ (forall al, Ca al).
Proof.
  apply schema_fields_alts_ind; unfold Pc.
  - (* SBool *) split; [| exact I]. intros _ tot d b v n Hw H. cbn [decode] in H.
    destruct b as [| x b]; try discriminate. destruct x as [| p]; [| destruct p; try discriminate];
      apply ok_inj in H; inversion H; subst; split; try discriminate; reflexivity.
  - (* SInt *) intros sg w. split; [| exact I]. intros _ tot d b v n Hw H. cbn [decode] in H.
    apply bind_ok in H as [bs [Ht H]]. apply take_ok in Ht as [Hl ->]. apply ok_inj in H. inversion H; subst.
    split; [discriminate | intros _]. cbn [encode]. rewrite enc_dec_int; auto using wfb_firstn. apply firstn_length_le; assumption.
  - (* SString *) intros l mn mx. split; [| exact I]. intros _ tot d b v n Hw H. cbn [decode] in H.
    apply bind_ok in H as [len [Hr H]]. apply bind_ok in H as [[] [Hc H]].
    destruct (N.of_nat (length (skipn (lpt_size l) b)) <? len) eqn:E; try discriminate. apply N.ltb_ge in E.
    destruct (utf8_valid (firstn (N.to_nat len) (skipn (lpt_size l) b))) eqn:Eu; cbn [andb negb] in H; try discriminate.
    apply ok_inj in H. inversion H; subst. split; [discriminate | intros _]. cbn [encode].
    rewrite firstn_length_le by lia. rewrite N2Nat.id.
    rewrite (check_bounds_of_maxmin _ _ _ Hc). cbn [bind]. rewrite Eu. cbn [bind]. rewrite Hc. cbn [bind].
    rewrite (write_read_len _ _ _ Hw Hr). cbn [bind]. rewrite <- firstn_add. reflexivity.
  - (* SBytes *) intros l mn mx. split; [| exact I]. intros _ tot d b v n Hw H. cbn [decode] in H.
    apply bind_ok in H as [len [Hr H]]. apply bind_ok in H as [[] [Hc H]].
    destruct (N.of_nat (length (skipn (lpt_size l) b)) <? len) eqn:E; try discriminate. apply N.ltb_ge in E.
    apply ok_inj in H. inversion H; subst. split; [discriminate | intros _]. cbn [encode].
    rewrite firstn_length_le by lia. rewrite N2Nat.id.
    rewrite (check_bounds_of_maxmin _ _ _ Hc). cbn [bind]. rewrite Hc. cbn [bind].
    rewrite (write_read_len _ _ _ Hw Hr). cbn [bind]. rewrite <- firstn_add. reflexivity.
  - (* SByteArr *) intros n ty. split; [| exact I]. intros _ tot d b v m Hw H. cbn [decode] in H.
    apply bind_ok in H as [c [Hc H]]. apply bind_ok in H as [bs [Ht H]]. apply take_ok in Ht as [Hl ->].
    apply ok_inj in H. inversion H; subst. split; [discriminate | intros _]. cbn [encode].
    rewrite firstn_length_le by assumption. rewrite Nat.eqb_refl.
    rewrite (check_code_firstn _ _ _ Hw Hc), <- firstn_add. reflexivity.
  - (* SU256 *) split; [| exact I]. intros _ tot d b v n Hw H. cbn [decode] in H.
    apply bind_ok in H as [bs [Ht H]]. apply take_ok in Ht as [Hl Hbs]. apply ok_inj in H. inversion H; subst v n.
    split; [discriminate | intros _]. rewrite <- Hbs.
    assert (Hf : wfb bs) by (rewrite Hbs; apply wfb_firstn; assumption).
    assert (Hlen : length bs = 32%nat) by (rewrite Hbs; apply firstn_length_le; assumption).
    clear Hbs H. cbn [encode].
    pose proof (le_dec_lt _ Hf) as Hlt. rewrite Hlen in Hlt.
    replace (256 ^ N.of_nat 32) with (Z.to_N U256) in Hlt by (vm_compute; reflexivity).
    assert (Hz : (0 <= Z.of_N (le_dec bs) < U256)%Z).
    { split; [lia |]. apply N2Z.inj_lt in Hlt. rewrite Z2N.id in Hlt; [exact Hlt | unfold U256; apply Z.pow_nonneg; lia]. }
    replace (Z.of_N (le_dec bs) <? 0)%Z with false by (symmetry; apply Z.ltb_ge; lia).
    replace (U256 <=? Z.of_N (le_dec bs))%Z with false by (symmetry; apply Z.leb_gt; lia).
    cbn [orb]. rewrite N2Z.id. rewrite <- Hlen. rewrite le_enc_dec by assumption. reflexivity.
  - (* STime *) split; [| exact I]. intros _ tot d b v n Hw H.
    assert (Hv : v <> VNil).
    { cbn [decode] in H. apply bind_ok in H as [bs [_ H]]. apply ok_inj in H. inversion H; subst. discriminate. }
    split; [exact Hv | intros Ht]. eapply canonical_time; eauto.
    cbn [decode] in H. apply bind_ok in H as [bs [Htk H]]. apply take_ok in Htk as [Hl Hbs]. apply ok_inj in H.
    inversion H; subst v n. cbn [times_ok] in Ht. rewrite <- Hbs. apply time_guard; auto.
    + rewrite Hbs. apply wfb_firstn; assumption.
    + rewrite Hbs. apply firstn_length_le; assumption.
  - (* SPtr *) intros s [IH _]. split; [| exact I]. intros [Hp Hwf] tot d b v n Hw H. cbn [decode] in H.
    destruct (IH Hwf tot false b v n Hw H) as [Hv He]. split; [exact Hv | intros Ht].
    cbn [times_ok] in Ht. specialize (He Ht). cbn [encode]. rewrite Hp. destruct v; try congruence; exact He.
  - (* SStruct *) intros ty fs IH. split; [| exact IH]. intros Hwf tot d b v n Hw H. cbn [decode] in H.
    destruct (check_code ty b) as [c | e |] eqn:Ec; [| apply bind_ok in H as [? [_ H]]; discriminate | discriminate].
    apply bind_ok in H as [[vs m] [Hf H]]. apply ok_inj in H. inversion H; subst. split; [discriminate | intros Ht].
    cbn [times_ok] in Ht.
    cbn [encode]. rewrite (IH Hwf tot _ _ _ (wfb_skipn c b Hw) Hf Ht). cbn [bind].
    rewrite (check_code_firstn _ _ _ Hw Ec), <- firstn_add. reflexivity.
  - (* SSlice *) intros l r e [IH _]. split; [| exact I]. intros [Hwf Hz] tot d b v n Hw H. cbn [decode] in H.
    apply bind_ok in H as [[acc m] [Hd H]]. apply bind_ok in H as [[] [Hmust H]]. apply ok_inj in H. inversion H; subst.
    split; [discriminate | intros Ht]. rewrite Hz in Hd.
    assert (Hinv : forall acc0 b0 a0 n0, wfb b0 ->
              (let* (v, m) := decode true tot e b0 in Ok (v :: acc0, m)) = Ok (a0, n0) ->
              exists x, a0 = (fun (x : value) acc => x :: acc) x acc0 /\
                (fun x d => times_ok e x -> encode true true e x = Ok d) x (firstn n0 b0) /\ (1 <= n0)%nat).
    { intros acc0 b0 a0 n0 Hw0 Hi. apply bind_ok in Hi as [[v0 m0] [Hd0 Hi]]. apply ok_inj in Hi. inversion Hi; subst.
      exists v0. split; auto. split; [apply (IH Hwf tot true b0 v0 n0 Hw0 Hd0) |].
      pose proof (decode_min e Hwf _ _ _ _ _ Hd0). unfold zero_size in Hz. apply Nat.eqb_neq in Hz. lia. }
    destruct (dec_seq_canon _ r _ _ Hinv l tot [] b acc n Hw Hd) as [xs [data [Ha [Hm [Hcb He]]]]].
    rewrite fold_push_rev, app_nil_r in Ha. subst acc. rewrite rev_involutive in *.
    cbn [times_ok] in Ht. pose proof (forall2_mapM _ _ _ _ Hm Ht) as Hmm.
    cbn [encode]. rewrite Hcb. destruct d; cbn [andb bind]; rewrite Hmust; cbn [bind]; rewrite Hmm; cbn [bind]; exact He.
  - (* SArr *) intros cnt l r e [IH _]. split; [| exact I]. intros [Hwf Hz] tot d b v n Hw H. cbn [decode] in H.
    apply bind_ok in H as [[acc m] [Hd H]]. apply bind_ok in H as [[] [Hmust H]].
    destruct (Nat.eqb (length (rev acc)) cnt) eqn:En; try discriminate.
    apply ok_inj in H. inversion H; subst.
    split; [discriminate | intros Ht]. rewrite Hz in Hd.
    assert (Hinv : forall acc0 b0 a0 n0, wfb b0 ->
              (let* (v, m) := decode true tot e b0 in Ok (v :: acc0, m)) = Ok (a0, n0) ->
              exists x, a0 = (fun (x : value) acc => x :: acc) x acc0 /\
                (fun x d => times_ok e x -> encode true true e x = Ok d) x (firstn n0 b0) /\ (1 <= n0)%nat).
    { intros acc0 b0 a0 n0 Hw0 Hi. apply bind_ok in Hi as [[v0 m0] [Hd0 Hi]]. apply ok_inj in Hi. inversion Hi; subst.
      exists v0. split; auto. split; [apply (IH Hwf tot true b0 v0 n0 Hw0 Hd0) |].
      pose proof (decode_min e Hwf _ _ _ _ _ Hd0). unfold zero_size in Hz. apply Nat.eqb_neq in Hz. lia. }
    destruct (dec_seq_canon _ r _ _ Hinv l tot [] b acc n Hw Hd) as [xs [data [Ha [Hm [Hcb He]]]]].
    rewrite fold_push_rev, app_nil_r in Ha. subst acc. rewrite rev_involutive in *.
    cbn [times_ok] in Ht. pose proof (forall2_mapM _ _ _ _ Hm Ht) as Hmm.
    cbn [encode]. rewrite En. cbn [negb]. rewrite Hcb.
    destruct d; cbn [andb bind]; rewrite Hmust; cbn [bind]; rewrite Hmm; cbn [bind]; exact He.
  - (* SMap *) intros l r k [IHk _] ve [IHv _]. split; [| exact I]. intros [Hwk [Hwv Hz]] tot d b v n Hw H.
    cbn [decode] in H. apply bind_ok in H as [[acc m] [Hd H]]. apply ok_inj in H. inversion H; subst.
    split; [discriminate | intros Ht]. rewrite Hz in Hd. fold (map_rules r) in Hd.
    assert (Hinv : forall (acc0 : list (value * value)) b0 a0 n0, wfb b0 ->
              (let* (kv, kn) := decode true tot k b0 in
               if (length b0 <? kn)%nat then Panic else
               let* (vv, vn) := decode true tot ve (skipn kn b0) in
               if existsb (fun e => key_eqb kv (fst e)) acc0 then Err EDupKey
               else Ok ((kv, vv) :: acc0, (kn + vn)%nat)) = Ok (a0, n0) ->
              exists x, a0 = (fun (x : value * value) acc => x :: acc) x acc0 /\
                (fun (x : value * value) dd => times_ok k (fst x) /\ times_ok ve (snd x) ->
                   (let* kb := encode true true k (fst x) in
                    let* vb := encode true true ve (snd x) in Ok (kb ++ vb)) = Ok dd) x (firstn n0 b0) /\ (1 <= n0)%nat).
    { intros acc0 b0 a0 n0 Hw0 Hi. apply bind_ok in Hi as [[kv kn] [Hdk Hi]].
      destruct (length b0 <? kn)%nat eqn:E; try discriminate. apply Nat.ltb_ge in E.
      apply bind_ok in Hi as [[vv vn] [Hdv Hi]]. destruct (existsb _ _); try discriminate.
      apply ok_inj in Hi. inversion Hi; subst.
      exists (kv, vv). split; auto. split.
      - cbn [fst snd]. intros [Htk Htv].
        rewrite (proj2 (IHk Hwk tot true b0 kv kn Hw0 Hdk) Htk). cbn [bind].
        rewrite (proj2 (IHv Hwv tot true _ vv vn (wfb_skipn kn b0 Hw0) Hdv) Htv). cbn [bind].
        rewrite <- firstn_add. reflexivity.
      - pose proof (decode_min k Hwk _ _ _ _ _ Hdk). pose proof (decode_min ve Hwv _ _ _ _ _ Hdv).
        unfold zero_size in Hz. apply andb_false_iff in Hz as [Hz | Hz]; apply Nat.eqb_neq in Hz; lia. }
    destruct (dec_seq_canon _ (map_rules r) _ _ Hinv l tot [] b acc n Hw Hd) as [xs [data [Ha [Hm [Hcb He]]]]].
    rewrite fold_push_rev, app_nil_r in Ha. subst acc. rewrite rev_involutive in *.
    cbn [times_ok] in Ht.
    pose proof (forall2_mapM (fun x : value * value => times_ok k (fst x) /\ times_ok ve (snd x)) _ _ _ Hm Ht) as Hmm.
    cbn [encode]. cbn [map_rules ar_min ar_max] in Hcb. rewrite Hcb. cbn [bind].
    unfold bytes in *. rewrite Hmm. cbn [bind]. exact He.
  - (* SIface *) intros d al IH. split; [| exact I]. intros Hwf tot d0 b v n Hw H. cbn [decode] in H.
    apply bind_ok in H as [c [Hp H]]. apply bind_ok in H as [[v' n'] [Hd H]]. apply ok_inj in H. inversion H; subst.
    split; [discriminate | intros Ht]. cbn [times_ok] in Ht. cbn [encode]. eapply IH; eauto.
  - (* SCustom: for EVERY validator predicate p - the validating decoder ran it on the decoded payload *)
    intros ty f p. split; [| exact I]. intros _ tot d b v m Hw H. cbn [decode] in H.
    apply bind_ok in H as [c [Hc H]]. apply bind_ok in H as [[bs n] [Hd H]].
    cbn [andb] in H. destruct (negb (valid_ok p bs)) eqn:Ev; try discriminate.
    apply ok_inj in H. inversion H; subst. split; [discriminate | intros _]. cbn [encode andb]. rewrite Ev.
    rewrite (custom_dec_enc _ _ _ _ (wfb_skipn c b Hw) Hd). cbn [bind].
    rewrite (check_code_firstn _ _ _ Hw Hc), <- firstn_add. reflexivity.
  - (* FNil *) intros _ tot b vs n Hw H _. cbn [decode_fields] in H. apply ok_inj in H. inversion H; subst. reflexivity.
  - (* FCons *) intros k s [IHs IHemb] r IHr [Hws [Hwr Hk]] tot b vs n Hw H Ht. cbn [decode_fields] in H.
    apply bind_ok in H as [[v n1] [Hstep H]].
    destruct (length b <? n1)%nat eqn:E; try discriminate. apply Nat.ltb_ge in E.
    apply bind_ok in H as [[vs' m] [Hr H]]. apply ok_inj in H. inversion H; subst. clear H.
    cbn [times_ok_fields] in Ht. destruct Ht as [Htv Htr].
    specialize (IHr Hwr tot _ _ _ (wfb_skipn n1 b Hw) Hr Htr).
    cbn [encode_fields].
    assert (Hfb : (match k with
         | FPlain => encode true true s v
         | FOpt =>
             match v with
             | VNil => Ok (le_enc 4 0)
             | _ => let* b0 := encode true true s v in Ok (le_enc 4 (N.of_nat (length b0)) ++ b0)
             end
         | FEmb =>
             match s, v with
             | SStruct _ fs', VL vs'' => encode_fields true fs' vs''
             | _, _ => Err EOther
             end
         | FEmbPtr =>
             match s, v with
             | SStruct _ fs', VL vs'' => encode_fields true fs' vs''
             | _, VNil => Err ENil
             | _, _ => Err EOther
             end
         end) = Ok (firstn n1 b)).
    { destruct k.
      - apply (proj2 (IHs Hws tot true b v n1 Hw Hstep) Htv).
      - destruct (length b <? 4)%nat eqn:E4; try discriminate. apply Nat.ltb_ge in E4.
        pose proof (wfb_firstn 4 b Hw) as Hf4. pose proof (le_enc_dec _ Hf4) as Hed.
        rewrite firstn_length_le in Hed by assumption.
        destruct (le_dec (firstn 4 b) =? 0) eqn:E0.
        + apply N.eqb_eq in E0. apply ok_inj in Hstep. inversion Hstep; subst. rewrite <- Hed, E0. reflexivity.
        + apply bind_ok in Hstep as [[v' n'] [Hd Hstep]].
          destruct (N.of_nat n' =? le_dec (firstn 4 b)) eqn:En; cbn [negb] in Hstep; try discriminate.
          apply N.eqb_eq in En. apply ok_inj in Hstep. inversion Hstep; subst.
          destruct (IHs Hws tot true _ _ _ (wfb_skipn 4 b Hw) Hd) as [Hv He]. specialize (He Htv).
          pose proof (decode_consumed _ _ _ _ _ _ Hd) as Hbd.
          assert (Hres : (let* b0 := encode true true s v in Ok (le_enc 4 (N.of_nat (length b0)) ++ b0)) = Ok (firstn (4 + n') b)).
          { rewrite He. cbn [bind]. rewrite firstn_length_le by assumption. rewrite En, Hed, <- firstn_add. reflexivity. }
          destruct v; try congruence; exact Hres.
      - destruct s; try contradiction. apply bind_ok in Hstep as [[vs0 n0] [Hd Hstep]].
        apply ok_inj in Hstep. inversion Hstep; subst. apply (IHemb Hws tot b vs0 n1 Hw Hd Htv).
      - destruct s; try contradiction. apply bind_ok in Hstep as [[vs0 n0] [Hd Hstep]].
        apply ok_inj in Hstep. inversion Hstep; subst. apply (IHemb Hws tot b vs0 n1 Hw Hd Htv). }
    rewrite Hfb. cbn [bind]. rewrite IHr. cbn [bind]. rewrite <- firstn_add. reflexivity.
  - (* ANil *) intros d _ tot c b v n _ H. cbn [decode_alt] in H. discriminate.
  - (* ACons *) intros c' s [IHs _] r IHr d [Hws [_ Hwr]] tot c b v n Hw H Ht. cbn [decode_alt] in H.
    cbn [encode_alt]. cbn [times_ok_alt] in Ht.
    destruct (c =? c'); [apply (proj2 (IHs Hws tot true b v n Hw H) Ht) | eapply IHr; eauto].
Qed.

Theorem canonical : forall s, wfc s -> forall tot d b v n, wfb b ->
  decode true tot s b = Ok (v, n) -> times_ok s v -> encode true d s v = Ok (firstn n b).
Proof. intros s Hwf tot d b v n Hw H Ht. apply (proj2 (proj1 (proj1 canonical_all s) Hwf tot d b v n Hw H) Ht). Qed.

(* no malleability: two byte strings the validating decoder maps to the same value agree on the consumed prefix *)
Corollary canonical_injective : forall s, wfc s -> forall tot b1 b2 v n1 n2, wfb b1 -> wfb b2 ->
  decode true tot s b1 = Ok (v, n1) -> decode true tot s b2 = Ok (v, n2) -> times_ok s v -> firstn n1 b1 = firstn n2 b2.
Proof.
  intros s Hwf tot b1 b2 v n1 n2 H1 H2 D1 D2 Ht.
  pose proof (canonical s Hwf tot true b1 v n1 H1 D1 Ht) as E1.
  pose proof (canonical s Hwf tot true b2 v n2 H2 D2 Ht) as E2.
  rewrite E1 in E2. apply ok_inj in E2. exact E2.
Qed.

(* above MaxInt64 ns the decoder saturates / wraps: the one documented non-injective case *)
Example refuted_time_saturation :
  Decode true STime [0; 0; 0; 0; 0; 0; 0; 128] = Ok (VTime (-9223372036854775808), 8%nat) /\
  Encode true STime (VTime (-9223372036854775808)) = Ok [0; 0; 0; 0; 0; 0; 0; 0].
Proof. split; vm_compute; reflexivity. Qed.

(* non-vacuity: a schema with map, sorted no-dup slice, optional, interface; an accepted byte string *)
Definition exc_schema : schema :=
  SStruct (Some (TC8 7))
    (FCons FPlain (SMap L8 (mkAR 0 0 false false false false [] false) (SInt false W2) (SString L16 0 0))
    (FCons FOpt (SPtr (SStruct None (FCons FPlain SBool FNil)))
    (FCons FPlain (SSlice L32 (mkAR 0 3 true true false false [] true) (SInt true W1))
    (FCons FPlain (SIface Den8 (ACons 1 (SPtr (SStruct (Some (TC8 1)) (FCons FPlain SU256 (FCons FPlain STime FNil)))) ANil)) FNil)))).

Example canonical_nonvacuous :
  wfc exc_schema /\
  exists b v, wfb b /\ Decode true exc_schema b = Ok (v, length b) /\ times_ok exc_schema v /\ Encode true exc_schema v = Ok b /\ (20 < length b)%nat.
Proof.
  split.
  - cbn. repeat split; auto.
  - pose (v := VL [VMap [(VInt 2, VBytes []); (VInt 513, VBytes [104; 105])]; VL [VBool true]; VL [VInt (-1); VInt 5];
                   VIface 1 (VL [VBig 258; VTime 1700000000000000000])]).
    pose (b := match Encode true exc_schema v with Ok b => b | _ => [] end).
    exists (b), (canon true exc_schema v).
    split; [unfold wfb; vm_compute; repeat constructor |].
    split; [vm_compute; reflexivity |].
    split; [cbn; repeat (first [exact I | apply Forall_nil | apply Forall_cons | split]); vm_compute; try discriminate; auto |].
    split; vm_compute; [reflexivity | lia].
Qed.

(* swapped map entries, a duplicated set element, a padded optional marker and a non-canonical bool are rejected *)
Example noncanonical_rejected :
  let m := SMap L8 (mkAR 0 0 false false false false [] false) (SInt false W1) SBool in
  let st := SSlice L8 (mkAR 0 0 true true false false [] true) (SInt false W1) in
  let op := SStruct None (FCons FOpt (SPtr (SStruct None (FCons FPlain (SInt false W1) FNil))) FNil) in
  Decode true m [2; 1; 0; 2; 1] = Ok (VMap [(VInt 1, VBool false); (VInt 2, VBool true)], 5%nat) /\
  Decode true m [2; 2; 1; 1; 0] = Err EOrder /\
  Decode true m [2; 1; 0; 1; 1] = Err EDupKey /\
  Decode true st [2; 5; 5] = Err EDup /\
  Decode true st [2; 6; 5] = Err EOrder /\
  Decode true op [2; 0; 0; 0; 9; 0] = Err EOther /\
  Decode true SBool [2] = Err EBool.
Proof. repeat split; vm_compute; reflexivity. Qed.

(* ---------- history independence of the model of an API session ---------- *)
Lemma history_independent : forall h1 h2 c d,
  last (run_history (h1 ++ [c])) d = last (run_history (h2 ++ [c])) d.
Proof. intros. unfold run_history. rewrite !map_app. cbn [map]. rewrite !last_last. reflexivity. Qed.

Lemma history_pointwise : forall h n c d, nth_error h n = Some c -> nth n (run_history h) d = run_call c.
Proof.
  intros h n c d H. unfold run_history. rewrite (nth_indep _ d (run_call c)).
  - rewrite map_nth. f_equal. apply nth_error_nth. exact H.
  - rewrite map_length. apply nth_error_Some. congruence.
Qed.

(* ---------- custom codecs: the validating decoder enforces the registered validator, whatever it is ---------- *)
Lemma custom_decode_validated : forall ty f (p : bytes -> bool) tot b v n,
  decode true tot (SCustom ty f (Some p)) b = Ok (v, n) -> exists bs, v = VBytes bs /\ p bs = true.
Proof.
  intros ty f p tot b v n H. cbn [decode] in H.
  apply bind_ok in H as [c [_ H]]. apply bind_ok in H as [[bs m] [_ H]]. cbn [andb valid_ok] in H.
  destruct (p bs) eqn:E; cbn [negb] in H; try discriminate. apply ok_inj in H. inversion H; subst. eauto.
Qed.

Example custom_validator_cases :
  let s := SCustom (Some (TC8 9)) (CFix 2) (Some pred_lt2) in
  let l := SCustom None CLen8 (Some pred_even_len) in
  Decode true s [9; 2; 5] = Ok (VBytes [2; 5], 3%nat) /\ Decode true s [9; 5; 2] = Err EValidator /\
  Decode false s [9; 5; 2] = Ok (VBytes [5; 2], 3%nat) /\ Encode true s (VBytes [5; 2]) = Err EValidator /\
  Encode false s (VBytes [5; 2]) = Ok [9; 5; 2] /\
  Decode true l [2; 7; 7; 1] = Ok (VBytes [7; 7], 3%nat) /\ Decode true l [1; 7] = Err EValidator /\
  Decode true l [3; 7] = Err ENotEnough /\ Encode true l (VBytes [7]) = Err EValidator.
Proof. repeat split; vm_compute; reflexivity. Qed.
