(* C01/C02/C03 (serix binary codec) - executable model of serializer/serix/encode.go, decode.go and the
   Serializer/Deserializer primitives they call (serializer/serializer.go, serializable.go), AFTER the repairs
   2366906 (lenPrefix=uint64; ReadVariableByteSlice/ReadString return at the min/max error),
   8cab9fd (arrays of non-byte elements decode through an addressable slice, count must equal N) and
   c3e7679 (nil embedded pointer struct is rejected by the encoder).

   A schema is the *effective* wire shape of a Go type under one serix.API (tag settings merged over the
   registry settings by the harness); [encode]/[decode] are structurally recursive on the schema.
   [encode] is also the C03 reference encoder: it is written from the documented layout
   (little-endian fixed-width numbers, 0/1 bools, length prefixes, uint8/uint32 type codes, uint32 marker
   before optional fields, LE 32-byte uint256, ns timestamps, byte-lexical map entries).
   Outcomes: Ok / Err class / Panic (Go run-time panic: slice bounds out of range, ...). *)
From Coq Require Import List NArith ZArith Bool.
Import ListNotations.
Open Scope N_scope.

Definition bytes := list N.

Inductive err :=
| ENotEnough | EBool | EMin | EMax | EOrder | EDup | EDupKey | ETypeDup | EMustOccur | ETypeMismatch
| EIface | EUtf8 | ELenInvalid | EU256 | EInvalid | ENil | EUnbounded | EValidator | EOther.

Inductive res (A : Type) := Ok (a : A) | Err (e : err) | Panic.
Arguments Ok {A} a.
Arguments Err {A} e.
Arguments Panic {A}.

Definition bind {A B} (r : res A) (f : A -> res B) : res B :=
  match r with Ok a => f a | Err e => Err e | Panic => Panic end.
Notation "'let*' x ':=' r 'in' k" := (bind r (fun x => k)) (at level 200, x name, r at level 100, k at level 200).
Notation "'let*' ( x , y ) ':=' r 'in' k" := (bind r (fun xy => let '(x, y) := xy in k))
  (at level 200, x name, y name, r at level 100, k at level 200).

(* ---------- bytes ---------- *)

Fixpoint le_enc (n : nat) (x : N) : bytes :=
  match n with O => [] | S k => (x mod 256) :: le_enc k (x / 256) end.

Fixpoint le_dec (bs : bytes) : N :=
  match bs with [] => 0 | b :: r => b + 256 * le_dec r end.

Fixpoint bcmp (a b : bytes) : comparison :=
  match a, b with
  | [], [] => Eq
  | [], _ => Lt
  | _, [] => Gt
  | x :: a', y :: b' => match N.compare x y with Eq => bcmp a' b' | c => c end
  end.

Definition bleb (a b : bytes) : bool := match bcmp a b with Gt => false | _ => true end.
Definition beqb (a b : bytes) : bool := match bcmp a b with Eq => true | _ => false end.

(* sort.Slice with bytes.Compare(data[i], data[j]) < 0: any sorting permutation; elements that compare equal
   are identical byte strings, so the result is the unique sorted permutation - insertion sort here. *)
Section Sort.
  Context {A : Type} (key : A -> bytes).
  Fixpoint insert_on (x : A) (l : list A) : list A :=
    match l with
    | [] => [x]
    | y :: r => if bleb (key x) (key y) then x :: l else y :: insert_on x r
    end.
  Definition sort_on (l : list A) : list A := fold_right insert_on [] l.
End Sort.
Definition sortb (l : list bytes) : list bytes := sort_on (fun x => x) l.

(* utf8.ValidString *)
Definition inr (lo hi x : N) : bool := (lo <=? x) && (x <=? hi).
Definition cont (x : N) : bool := inr 128 191 x.
Fixpoint utf8_valid (b : bytes) : bool :=
  match b with
  | [] => true
  | x :: r =>
      if x <=? 127 then utf8_valid r
      else if inr 194 223 x then
        match r with c1 :: r1 => cont c1 && utf8_valid r1 | _ => false end
      else if inr 224 239 x then
        match r with
        | c1 :: c2 :: r2 =>
            (if x =? 224 then inr 160 191 c1 else if x =? 237 then inr 128 159 c1 else cont c1)
            && cont c2 && utf8_valid r2
        | _ => false
        end
      else if inr 240 244 x then
        match r with
        | c1 :: c2 :: c3 :: r3 =>
            (if x =? 240 then inr 144 191 c1 else if x =? 244 then inr 128 143 c1 else cont c1)
            && cont c2 && cont c3 && utf8_valid r3
        | _ => false
        end
      else false
  end.

(* ---------- schema ---------- *)

Inductive lpt := L8 | L16 | L32 | L64.
Inductive width := W1 | W2 | W4 | W8.
Inductive tycode := TC8 (c : N) | TC32 (c : N).
Inductive tyden := Den8 | Den32.

(* serializer.ArrayRules + TypeSettings.lexicalOrdering (ar_autosort) *)
Record arules := mkAR {
  ar_min : N; ar_max : N;
  ar_nodup : bool; ar_lex : bool; ar_one8 : bool; ar_one32 : bool;
  ar_must : list N;
  ar_autosort : bool }.

Inductive fkind := FPlain | FOpt | FEmb | FEmbPtr.

(* wire format of a type with a custom codec (serix.Serializable / Deserializable): a fixed number of payload bytes, or a
   payload behind a one-byte length *)
Inductive cfmt := CFix (n : nat) | CLen8.

Inductive schema :=
| SBool
| SInt (sg : bool) (w : width)                 (* floats travel as their bit pattern: SInt false W4/W8 *)
| SString (l : lpt) (mn mx : N)
| SBytes (l : lpt) (mn mx : N)
| SByteArr (n : nat) (ty : option tycode)
| SU256
| STime
| SPtr (s : schema)
| SStruct (ty : option tycode) (fs : fields)
| SSlice (l : lpt) (r : arules) (e : schema)
| SArr (n : nat) (l : lpt) (r : arules) (e : schema)   (* [n]T, T not byte *)
| SMap (l : lpt) (r : arules) (k v : schema)
| SIface (d : tyden) (al : alts)
| SCustom (ty : option tycode) (f : cfmt) (p : option (bytes -> bool))
    (* a type that encodes / decodes itself (API.encode / API.decode call its Encode() / Decode(b) instead of walking it),
       with its registered object code and its registered syntactic validator: [p payload = true] iff the validator
       accepts the value. The validator is an arbitrary predicate: every theorem holds for all of them. *)
with fields := FNil | FCons (k : fkind) (s : schema) (r : fields)
with alts := ANil | ACons (c : N) (s : schema) (r : alts).

Inductive value :=
| VBool (b : bool)
| VInt (z : Z)
| VBytes (bs : bytes)          (* string, []byte, [N]byte *)
| VBig (z : Z)                 (* *big.Int *)
| VTime (ns : Z)               (* exact nanoseconds since the Unix epoch *)
| VL (vs : list value)         (* struct fields (in serix order), slice, array *)
| VMap (es : list (value * value))
| VIface (c : N) (v : value)   (* dynamic type = the alternative registered under code c *)
| VNil.                        (* nil pointer / nil interface / nil *big.Int *)

(* ---------- primitives ---------- *)

Definition wbytes (w : width) : nat := match w with W1 => 1 | W2 => 2 | W4 => 4 | W8 => 8 end%nat.
Definition wmod (w : width) : Z :=
  match w with W1 => 256 | W2 => 65536 | W4 => 4294967296 | W8 => 18446744073709551616 end%Z.

Definition enc_int (w : width) (z : Z) : bytes := le_enc (wbytes w) (Z.to_N (z mod wmod w)).
Definition dec_int (sg : bool) (w : width) (bs : bytes) : Z :=
  let x := Z.of_N (le_dec bs) in
  if sg && (wmod w / 2 <=? x)%Z then (x - wmod w)%Z else x.

Definition lpt_size (l : lpt) : nat := match l with L8 => 1 | L16 => 2 | L32 => 4 | L64 => 8 end%nat.
Definition lpt_max (l : lpt) : N :=
  match l with L8 => 255 | L16 => 65535 | L32 => 4294967295 | L64 => 9223372036854775807 end.

(* Serializer.writeSliceLength *)
Definition write_len (l : lpt) (n : N) : res bytes :=
  match l with
  | L64 => Ok (le_enc 8 n)
  | _ => if lpt_max l <? n then Err EOther else Ok (le_enc (lpt_size l) n)
  end.

(* Deserializer.readSliceLength: the denoted length; the prefix occupies lpt_size l bytes *)
Definition read_len (l : lpt) (b : bytes) : res N :=
  if (length b <? lpt_size l)%nat then Err ENotEnough
  else let x := le_dec (firstn (lpt_size l) b) in
       match l with
       | L64 => if lpt_max L64 <? x then Err ELenInvalid else Ok x
       | _ => Ok x
       end.

Definition code_size (t : tycode) : nat := match t with TC8 _ => 1 | TC32 _ => 4 end%nat.
Definition code_val (t : tycode) : N := match t with TC8 c => c | TC32 c => c end.
Definition code_bytes (t : option tycode) : bytes :=
  match t with None => [] | Some t => le_enc (code_size t) (code_val t) end.

(* Deserializer.CheckTypePrefix (CheckType / CheckTypeByte): bytes consumed *)
Definition check_code (t : option tycode) (b : bytes) : res nat :=
  match t with
  | None => Ok 0%nat
  | Some t =>
      if (length b <? code_size t)%nat then Err ENotEnough
      else if le_dec (firstn (code_size t) b) =? code_val t then Ok (code_size t) else Err ETypeMismatch
  end.

Definition MaxInt64 : Z := 9223372036854775807%Z.
Definition MaxSec : Z := 9223372036%Z.
Definition wrap64 (z : Z) : Z :=
  let x := (z mod 18446744073709551616)%Z in if (MaxInt64 <? x)%Z then (x - 18446744073709551616)%Z else x.

(* serializer.TimeToUint64 *)
Definition time_to_u64 (ns : Z) : Z :=
  let sec := (ns / 1000000000)%Z in
  let nano := wrap64 ns in
  if (MaxSec <? sec)%Z then MaxInt64
  else if (sec <? 0)%Z || (nano <? 0)%Z then 0%Z else nano.

(* Deserializer.ReadTime *)
Definition u64_to_time (x : N) : Z :=
  if (MaxSec <? Z.of_N x / 1000000000)%Z then MaxInt64 else wrap64 (Z.of_N x).

Definition U256 : Z := (2 ^ 256)%Z.

(* ArrayRules.CheckBounds / TypeSettings.checkMinMaxBoundsLength (min first, then max) *)
Definition check_bounds (mn mx cnt : N) : res unit :=
  if negb (mn =? 0) && (cnt <? mn) then Err EMin
  else if negb (mx =? 0) && (mx <? cnt) then Err EMax else Ok tt.

(* WriteVariableByteSlice / WriteString / ReadVariableByteSlice / ReadString (max first, then min) *)
Definition check_len_maxmin (mn mx len : N) : res unit :=
  if negb (mx =? 0) && (mx <? len) then Err EMax
  else if negb (mn =? 0) && (len <? mn) then Err EMin else Ok tt.

(* ---------- element validators (ArrayRules.ElementValidationFunc) ---------- *)

Record vstate := mkVS { vs_seen : list bytes; vs_prev : option bytes; vs_c8 : list N; vs_c32 : list N }.
Definition vinit : vstate := mkVS [] None [] [].

Definition has_validator (r : arules) : bool := ar_nodup r || ar_lex r || ar_one8 r || ar_one32 r.

(* [vs_prev = None] is "no previous element yet" (the hasPrev flag of LexicalOrderWithoutDupsValidator after a52b77b;
   before, an empty element - a nil []byte on the encoder side - was taken for "no previous element").
   LexicalOrderValidator still tests prev == nil, which is unobservable: a nil/empty prev compares <= everything. *)

Definition validate (r : arules) (st : vstate) (e : bytes) : res vstate :=
  let* st := (if ar_nodup r && negb (ar_lex r)
             then if existsb (beqb e) (vs_seen st) then Err EDup
                  else Ok (mkVS (e :: vs_seen st) (vs_prev st) (vs_c8 st) (vs_c32 st))
             else Ok st) in
  let* st := (if ar_lex r
             then match vs_prev st with
                  | None => Ok (mkVS (vs_seen st) (Some e) (vs_c8 st) (vs_c32 st))
                  | Some p =>
                      match bcmp p e with
                      | Gt => Err EOrder
                      | Eq => if ar_nodup r then Err EDup
                              else Ok (mkVS (vs_seen st) (Some e) (vs_c8 st) (vs_c32 st))
                      | Lt => Ok (mkVS (vs_seen st) (Some e) (vs_c8 st) (vs_c32 st))
                      end
                  end
             else Ok st) in
  let* st := (if ar_one8 r
             then match e with
                  | [] => Err EInvalid
                  | c :: _ => if existsb (N.eqb c) (vs_c8 st) then Err ETypeDup
                              else Ok (mkVS (vs_seen st) (vs_prev st) (c :: vs_c8 st) (vs_c32 st))
                  end
             else Ok st) in
  if ar_one32 r
  then if (length e <? 4)%nat then Err EInvalid
       else let c := le_dec (firstn 4 e) in
            if existsb (N.eqb c) (vs_c32 st) then Err ETypeDup
            else Ok (mkVS (vs_seen st) (vs_prev st) (vs_c8 st) (c :: vs_c32 st))
  else Ok st.

Fixpoint validate_all (r : arules) (st : vstate) (data : list bytes) : res unit :=
  match data with
  | [] => Ok tt
  | e :: rest => let* st' := validate r st e in validate_all r st' rest
  end.

(* encodeSliceOfBytes -> Serializer.WriteSliceOfByteSlices *)
Definition enc_seq (val : bool) (l : lpt) (r : arules) (data : list bytes) : res bytes :=
  let* _u := (if val then check_bounds (ar_min r) (ar_max r) (N.of_nat (length data)) else Ok tt) in
  let* pre := write_len l (N.of_nat (length data)) in
  let data' := if ar_autosort r && ar_lex r then sortb data else data in
  let* _u := (if val then validate_all r vinit data' else Ok tt) in
  Ok (pre ++ concat data').

(* the loop of Deserializer.ReadSequenceOfObjects; [item acc b] decodes one item from b (whole remaining input)
   and returns the new accumulator and the bytes read *)
Section Loop.
  Context {A : Type} (item : A -> bytes -> res (A * nat)) (val : bool) (r : arules).
  Fixpoint seq_loop (fuel : nat) (st : vstate) (acc : A) (b : bytes) : res (A * nat) :=
    match fuel with
    | O => Ok (acc, O)
    | S k =>
        let* (acc', n) := item acc b in
        if (length b <? n)%nat then Panic      (* srcBefore[:bytesRead] / d.src[d.offset:] out of range *)
        else
          let* st' := (if val && has_validator r then validate r st (firstn n b) else Ok st) in
          let* (a, m) := seq_loop k st' acc' (skipn n b) in
          Ok (a, (n + m)%nat)
    end.
End Loop.

(* How often the loop runs. The code iterates [cnt] times. When every element needs at least one byte the
   iteration after the input is exhausted fails, so [length rest + 1] iterations decide the outcome.
   When an element can have size zero ([zs]) the code really iterates cnt times whatever the input length
   (defect D02d): the model follows it while cnt <= tot + 1 (tot = length of the whole input handed to
   API.Decode) and reports the distinguished error EUnbounded beyond that. *)
Definition seq_fuel (zs : bool) (cnt : N) (len tot : nat) : option nat :=
  if zs then (if cnt <=? N.of_nat tot + 1 then Some (N.to_nat cnt) else None)
  else Some (N.to_nat (N.min cnt (N.of_nat len + 1))).

Definition dec_seq {A} (item : A -> bytes -> res (A * nat)) (val : bool) (l : lpt) (r : arules) (zs : bool)
           (tot : nat) (init : A) (b : bytes) : res (A * nat) :=
  let* cnt := read_len l b in
  let rest := skipn (lpt_size l) b in
  let* _u := (if val then check_bounds (ar_min r) (ar_max r) cnt else Ok tt) in
  match seq_fuel zs cnt (length rest) tot with
  | None => Err EUnbounded
  | Some fuel =>
      let* (a, m) := seq_loop item val r fuel vinit init rest in
      Ok (a, (lpt_size l + m)%nat)
  end.

(* ---------- static facts about a schema ---------- *)

Definition lookup_alt := fix go (c : N) (al : alts) : option schema :=
  match al with ANil => None | ACons c' s r => if c =? c' then Some s else go c r end.

(* least number of bytes a successful decode consumes; 0 = the element can be empty on the wire *)
Fixpoint min_size (s : schema) : nat :=
  match s with
  | SBool => 1
  | SInt _ w => wbytes w
  | SString l _ _ | SBytes l _ _ => lpt_size l
  | SByteArr n ty => (length (code_bytes ty) + n)
  | SU256 => 32
  | STime => 8
  | SPtr s => min_size s
  | SStruct ty fs => (length (code_bytes ty) + min_size_fields fs)
  | SSlice l _ _ | SArr _ l _ _ | SMap l _ _ _ => lpt_size l
  | SIface d _ => match d with Den8 => 1 | Den32 => 4 end
  | SCustom ty f _ => (length (code_bytes ty) + match f with CFix n => n | CLen8 => 1 end)
  end%nat
with min_size_fields (fs : fields) : nat :=
  match fs with
  | FNil => 0
  | FCons k s r =>
      (match k with
       | FPlain => min_size s
       | FOpt => 4
       | FEmb | FEmbPtr => match s with SStruct _ fs' => min_size_fields fs' | _ => 0 end
       end + min_size_fields r)
  end%nat.

Definition zero_size (s : schema) : bool := Nat.eqb (min_size s) 0.

(* type code under which an element counts for ArrayRules.MustOccur (API.checkArrayMustOccur) *)
Fixpoint elem_code (s : schema) (v : value) : option N :=
  match s, v with
  | SStruct (Some t) _, _ => Some (code_val t)
  | SByteArr _ (Some t), _ => Some (code_val t)
  | SCustom (Some t) _ _, _ => Some (code_val t)
  | SPtr _, VNil => None              (* nil element: checkArrayMustOccur reports an error *)
  | SPtr s', _ => elem_code s' v
  | SIface _ _, VIface c _ => Some c
  | _, _ => None
  end.

Definition check_must (r : arules) (e : schema) (vs : list value) : res unit :=
  match ar_must r with
  | [] => Ok tt
  | must =>
      (fix go (vs : list value) (seen : list N) : res unit :=
         match vs with
         | [] => if forallb (fun c => existsb (N.eqb c) seen) must then Ok tt else Err EMustOccur
         | v :: rest => match elem_code e v with Some c => go rest (c :: seen) | None => Err EOther end
         end) vs []
  end.

(* Go map key equality on the key kinds the harness uses (bool, ints, strings, byte arrays, structs of those) *)
Fixpoint key_eqb (a b : value) : bool :=
  match a, b with
  | VBool x, VBool y => Bool.eqb x y
  | VInt x, VInt y => (x =? y)%Z
  | VBytes x, VBytes y => beqb x y
  | VBig x, VBig y => (x =? y)%Z
  | VTime x, VTime y => (x =? y)%Z
  | VL xs, VL ys =>
      (fix go (xs ys : list value) : bool :=
         match xs, ys with
         | [], [] => true
         | x :: xs', y :: ys' => key_eqb x y && go xs' ys'
         | _, _ => false
         end) xs ys
  | VIface c x, VIface c' y => (c =? c') && key_eqb x y     (* interface-typed key: same dynamic type, equal values *)
  | VNil, VNil => true
  | _, _ => false
  end.

Fixpoint mapM {A B} (f : A -> res B) (l : list A) : res (list B) :=
  match l with
  | [] => Ok []
  | x :: r => let* y := f x in let* ys := mapM f r in Ok (y :: ys)
  end.

Definition take (n : nat) (b : bytes) : res bytes :=
  if (length b <? n)%nat then Err ENotEnough else Ok (firstn n b).

(* ---------- custom codecs (the hand-written zoo of the harness follows these two formats) ---------- *)
Definition valid_ok (p : option (bytes -> bool)) (bs : bytes) : bool :=
  match p with Some q => q bs | None => true end.
Definition custom_enc (f : cfmt) (bs : bytes) : res bytes :=
  match f with
  | CFix n => if Nat.eqb (length bs) n then Ok bs else Err EOther
  | CLen8 => if (length bs <? 256)%nat then Ok (N.of_nat (length bs) :: bs) else Err EOther
  end.
Definition custom_dec (f : cfmt) (b : bytes) : res (bytes * nat) :=
  match f with
  | CFix n => let* bs := take n b in Ok (bs, n)
  | CLen8 => match b with
             | [] => Err ENotEnough
             | l :: r => let* bs := take (N.to_nat l) r in Ok (bs, S (N.to_nat l))
             end
  end.
(* the validators of the zoo *)
Definition pred_lt2 (bs : bytes) : bool := match bs with [a; b] => a <? b | _ => false end.
Definition pred_sum_even (bs : bytes) : bool := N.even (fold_right N.add 0 bs).
Definition pred_even_len (bs : bytes) : bool := Nat.even (length bs).
Definition pred_first_nonzero (bs : bytes) : bool := match bs with 0 :: _ => false | _ => true end.

(* ---------- encode ---------- *)

Definition ptr_target_ok (s : schema) : bool :=
  match s with SStruct _ _ | SArr _ _ _ _ | SByteArr _ _ | STime => true | _ => false end.

(* [direct] = the value is reached directly (not through a pointer): encodeBasedOnType then runs
   ts.checkMinMaxBounds on values that have a length; behind a pointer the check sees the pointer and is skipped. *)
Fixpoint encode (val : bool) (direct : bool) (s : schema) (v : value) {struct s} : res bytes :=
  match s with
  | SBool => match v with VBool b => Ok [if b then 1 else 0] | _ => Err EOther end
  | SInt _ w => match v with VInt z => Ok (enc_int w z) | _ => Err EOther end
  | SString l mn mx =>
      match v with
      | VBytes bs =>
          let len := N.of_nat (length bs) in
          let* _u := (if val then check_bounds mn mx len else Ok tt) in
          let* _u := (if val then (if utf8_valid bs then Ok tt else Err EUtf8) else Ok tt) in
          let* _u := (if val then check_len_maxmin mn mx len else Ok tt) in
          let* pre := write_len l len in
          Ok (pre ++ bs)
      | _ => Err EOther
      end
  | SBytes l mn mx =>
      match v with
      | VBytes bs =>
          let len := N.of_nat (length bs) in
          let* _u := (if val then check_bounds mn mx len else Ok tt) in
          let* _u := check_len_maxmin mn mx len in
          let* pre := write_len l len in
          Ok (pre ++ bs)
      | _ => Err EOther
      end
  | SByteArr n ty =>
      match v with
      | VBytes bs => if Nat.eqb (length bs) n then Ok (code_bytes ty ++ bs) else Err EOther
      | _ => Err EOther
      end
  | SU256 =>
      match v with
      | VBig z => if (z <? 0)%Z || (U256 <=? z)%Z then Err EU256 else Ok (le_enc 32 (Z.to_N z))
      | VNil => Err EU256
      | _ => Err EOther
      end
  | STime => match v with VTime ns => Ok (le_enc 8 (Z.to_N (time_to_u64 ns))) | _ => Err EOther end
  | SPtr s' =>
      match v with
      | VNil => Err ENil
      | _ => if ptr_target_ok s' then encode val false s' v else Err EOther
      end
  | SStruct ty fs =>
      match v with
      | VL vs => let* body := encode_fields val fs vs in Ok (code_bytes ty ++ body)
      | _ => Err EOther
      end
  | SSlice l r e =>
      match v with
      | VL vs =>
          let* _u := (if val && direct then check_bounds (ar_min r) (ar_max r) (N.of_nat (length vs)) else Ok tt) in
          let* _u := (if val then check_must r e vs else Ok tt) in
          let* data := mapM (encode val true e) vs in
          enc_seq val l r data
      | _ => Err EOther
      end
  | SArr n l r e =>
      match v with
      | VL vs =>
          if negb (Nat.eqb (length vs) n) then Err EOther else
          let* _u := (if val && direct then check_bounds (ar_min r) (ar_max r) (N.of_nat (length vs)) else Ok tt) in
          let* _u := (if val then check_must r e vs else Ok tt) in
          let* data := mapM (encode val true e) vs in
          enc_seq val l r data
      | _ => Err EOther
      end
  | SMap l r k ve =>
      match v with
      | VMap es =>
          let* _u := (if val then check_bounds (ar_min r) (ar_max r) (N.of_nat (length es)) else Ok tt) in
          let* data := mapM (fun kv => let* kb := encode val true k (fst kv) in
                                       let* vb := encode val true ve (snd kv) in Ok (kb ++ vb)) es in
          enc_seq val l (mkAR (ar_min r) (ar_max r) (ar_nodup r) true (ar_one8 r) (ar_one32 r) (ar_must r) true) data
      | _ => Err EOther
      end
  | SIface d al =>
      match v with
      | VIface c v' => encode_alt val c al v'
      | VNil => Err EOther
      | _ => Err EOther
      end
  | SCustom ty f p =>
      (* API.encode: the syntactic validator first (only under validation), then the object code, then obj.Encode() *)
      match v with
      | VBytes bs =>
          if val && negb (valid_ok p bs) then Err EValidator else
          let* body := custom_enc f bs in
          Ok (code_bytes ty ++ body)
      | _ => Err EOther
      end
  end
with encode_fields (val : bool) (fs : fields) (vs : list value) {struct fs} : res bytes :=
  match fs, vs with
  | FNil, [] => Ok []
  | FCons k s r, v :: vs' =>
      let* fb :=
        (match k with
         | FPlain => encode val true s v
         | FOpt =>
             match v with
             | VNil => Ok (le_enc 4 0)
             | _ => let* b := encode val true s v in Ok (le_enc 4 (N.of_nat (length b)) ++ b)
             end
         | FEmb =>
             match s, v with
             | SStruct _ fs', VL vs'' => encode_fields val fs' vs''
             | _, _ => Err EOther
             end
         | FEmbPtr =>
             match s, v with
             | SStruct _ fs', VL vs'' => encode_fields val fs' vs''
             | _, VNil => Err ENil
             | _, _ => Err EOther
             end
         end) in
      let* rb := encode_fields val r vs' in
      Ok (fb ++ rb)
  | _, _ => Err EOther
  end
with encode_alt (val : bool) (c : N) (al : alts) (v : value) {struct al} : res bytes :=
  match al with
  | ANil => Err EIface
  | ACons c' s r => if c =? c' then encode val true s v else encode_alt val c r v
  end.

(* ---------- decode ---------- *)

Definition peek_code (d : tyden) (b : bytes) : res N :=
  match d with
  | Den8 => match b with [] => Err ENotEnough | c :: _ => Ok c end
  | Den32 => if (length b <? 4)%nat then Err ENotEnough else Ok (le_dec (firstn 4 b))
  end.

Fixpoint decode (val : bool) (tot : nat) (s : schema) (b : bytes) {struct s} : res (value * nat) :=
  match s with
  | SBool =>
      match b with
      | [] => Err ENotEnough
      | 0 :: _ => Ok (VBool false, 1%nat)
      | 1 :: _ => Ok (VBool true, 1%nat)
      | _ => Err EBool
      end
  | SInt sg w => let* bs := take (wbytes w) b in Ok (VInt (dec_int sg w bs), wbytes w)
  | SString l mn mx =>
      let* len := read_len l b in
      let rest := skipn (lpt_size l) b in
      let* _u := (if val then check_len_maxmin mn mx len else Ok tt) in
      if N.of_nat (length rest) <? len then Err ENotEnough else
      let bs := firstn (N.to_nat len) rest in
      if val && negb (utf8_valid bs) then Err EUtf8 else
      Ok (VBytes bs, (lpt_size l + N.to_nat len)%nat)
  | SBytes l mn mx =>
      let* len := read_len l b in
      let rest := skipn (lpt_size l) b in
      let* _u := check_len_maxmin mn mx len in
      if N.of_nat (length rest) <? len then Err ENotEnough else
      Ok (VBytes (firstn (N.to_nat len) rest), (lpt_size l + N.to_nat len)%nat)
  | SByteArr n ty =>
      let* c := check_code ty b in
      let* bs := take n (skipn c b) in
      Ok (VBytes bs, (c + n)%nat)
  | SU256 => let* bs := take 32 b in Ok (VBig (Z.of_N (le_dec bs)), 32%nat)
  | STime => let* bs := take 8 b in Ok (VTime (u64_to_time (le_dec bs)), 8%nat)
  | SPtr s' => decode val tot s' b
  | SStruct ty fs =>
      match check_code ty b with
      | Ok c => let* (vs, n) := decode_fields val tot fs (skipn c b) in Ok (VL vs, (c + n)%nat)
      | Err e =>
          (* CheckTypePrefix only records the error in the Deserializer; decodeStructFields still runs and an
             error of a field decoder is returned before deseri.Done() reports the recorded one *)
          let* _u := decode_fields_dead val tot fs b in Err e
      | Panic => Panic
      end
  | SSlice l r e =>
      let* (acc, n) := dec_seq (fun acc b' => let* (v, m) := decode val tot e b' in Ok (v :: acc, m))
                                val l r (zero_size e) tot [] b in
      let vs := rev acc in
      let* _u := (if val then check_must r e vs else Ok tt) in
      Ok (VL vs, n)
  | SArr cnt l r e =>
      let* (acc, n) := dec_seq (fun acc b' => let* (v, m) := decode val tot e b' in Ok (v :: acc, m))
                                val l r (zero_size e) tot [] b in
      let vs := rev acc in
      let* _u := (if val then check_must r e vs else Ok tt) in
      if Nat.eqb (length vs) cnt then Ok (VL vs, n) else Err EInvalid
  | SMap l r k ve =>
      let* (acc, n) :=
        dec_seq (fun acc b' =>
                   let* (kv, kn) := decode val tot k b' in
                   if (length b' <? kn)%nat then Panic else            (* b = b[keyBytesRead:] *)
                   let* (vv, vn) := decode val tot ve (skipn kn b') in
                   if existsb (fun e => key_eqb kv (fst e)) acc then Err EDupKey
                   else Ok ((kv, vv) :: acc, (kn + vn)%nat))
                val l (mkAR (ar_min r) (ar_max r) (ar_nodup r) true (ar_one8 r) (ar_one32 r) (ar_must r) true)
                (zero_size k && zero_size ve) tot [] b in
      Ok (VMap (rev acc), n)
  | SIface d al =>
      let* c := peek_code d b in
      let* (v, n) := decode_alt val tot c al b in
      Ok (VIface c v, n)
  | SCustom ty f p =>
      (* API.decode: the object code, obj.Decode(rest), then - under validation, on BOTH paths - the syntactic validator *)
      let* c := check_code ty b in
      let* (bs, n) := custom_dec f (skipn c b) in
      if val && negb (valid_ok p bs) then Err EValidator else Ok (VBytes bs, (c + n)%nat)
  end
with decode_fields (val : bool) (tot : nat) (fs : fields) (b : bytes) {struct fs} : res (list value * nat) :=
  match fs with
  | FNil => Ok ([], O)
  | FCons k s r =>
      let* (v, n) :=
        (match k with
         | FPlain => decode val tot s b
         | FOpt =>
             if (length b <? 4)%nat then Err ENotEnough else
             let len := le_dec (firstn 4 b) in
             if len =? 0 then Ok (VNil, 4%nat) else
             let* (v, n) := decode val tot s (skipn 4 b) in
             if negb (N.of_nat n =? len) then Err EOther else Ok (v, (4 + n)%nat)
         | FEmb | FEmbPtr =>
             match s with
             | SStruct _ fs' => let* (vs, n) := decode_fields val tot fs' b in Ok (VL vs, n)
             | _ => Err EOther
             end
         end) in
      if (length b <? n)%nat then Err ENotEnough else     (* deseri.Skip(bytesRead) *)
      let* (vs, m) := decode_fields val tot r (skipn n b) in
      Ok (v :: vs, (n + m)%nat)
  end
(* decodeStructFields on a Deserializer that already holds an error: Skip is a no-op, so every field is decoded
   at the same offset; only ReadPayloadLength (which does not look at the recorded error) still advances by 4.
   Returns the number of bytes advanced; its only visible effect is which error is reported. *)
with decode_fields_dead (val : bool) (tot : nat) (fs : fields) (b : bytes) {struct fs} : res nat :=
  match fs with
  | FNil => Ok O
  | FCons k s r =>
      let* adv :=
        (match k with
         | FPlain => let* (_v, _n) := decode val tot s b in Ok O
         | FOpt =>
             if (length b <? 4)%nat then Err ENotEnough else
             let len := le_dec (firstn 4 b) in
             if len =? 0 then Ok 4%nat else
             let* (_v, n) := decode val tot s (skipn 4 b) in
             if negb (N.of_nat n =? len) then Err EOther else Ok 4%nat
         | FEmb | FEmbPtr =>
             match s with
             | SStruct _ fs' => decode_fields_dead val tot fs' b
             | _ => Err EOther
             end
         end) in
      let* m := decode_fields_dead val tot r (skipn adv b) in
      Ok (adv + m)%nat
  end
with decode_alt (val : bool) (tot : nat) (c : N) (al : alts) (b : bytes) {struct al} : res (value * nat) :=
  match al with
  | ANil => Err EIface
  | ACons c' s r => if c =? c' then decode val tot s b else decode_alt val tot c r b
  end.

(* API.Encode / API.Decode *)
Definition Encode (val : bool) (s : schema) (v : value) : res bytes := encode val true s v.
Definition Decode (val : bool) (s : schema) (b : bytes) : res (value * nat) := decode val (length b) s b.

(* ---------- canonical form of a value (what a round trip returns) ---------- *)

Definition enc_or_nil (val : bool) (s : schema) (v : value) : bytes :=
  match encode val true s v with Ok b => b | _ => [] end.

(* [canon val s v]: ints reduced to their width, time stamps clamped the way TimeToUint64/ReadTime do, map entries
   and auto-sorted slices in the byte-lexical order of their encodings, and - a defect of the format, see
   C01_refuted_optional_zero_size - a present optional value whose encoding is empty comes back as nil. *)
Fixpoint canon (val : bool) (s : schema) (v : value) {struct s} : value :=
  match s, v with
  | STime, VTime ns => VTime (u64_to_time (le_dec (le_enc 8 (Z.to_N (time_to_u64 ns)))))
  | SInt sg w, VInt z => VInt (dec_int sg w (enc_int w z))
  | SPtr s', _ => canon val s' v
  | SStruct _ fs, VL vs => VL (canon_fields val fs vs)
  | SSlice _ r e, VL vs =>
      VL (map (canon val e) (if ar_autosort r && ar_lex r then sort_on (enc_or_nil val e) vs else vs))
  | SArr _ _ r e, VL vs =>
      VL (map (canon val e) (if ar_autosort r && ar_lex r then sort_on (enc_or_nil val e) vs else vs))
  | SMap _ _ k ve, VMap es =>
      VMap (map (fun kv => (canon val k (fst kv), canon val ve (snd kv)))
                (sort_on (fun kv => enc_or_nil val k (fst kv) ++ enc_or_nil val ve (snd kv)) es))
  | SIface _ al, VIface c v' => VIface c (canon_alt val c al v')
  | _, _ => v
  end
with canon_fields (val : bool) (fs : fields) (vs : list value) {struct fs} : list value :=
  match fs, vs with
  | FCons k s r, v :: vs' =>
      (match k with
       | FPlain => canon val s v
       | FOpt => match v with
                 | VNil => VNil
                 | _ => match enc_or_nil val s v with [] => VNil | _ => canon val s v end
                 end
       | FEmb | FEmbPtr =>
           match s, v with
           | SStruct _ fs', VL vs'' => VL (canon_fields val fs' vs'')
           | _, _ => v
           end
       end) :: canon_fields val r vs'
  | _, _ => vs
  end
with canon_alt (val : bool) (c : N) (al : alts) (v : value) {struct al} : value :=
  match al with
  | ANil => v
  | ACons c' s r => if c =? c' then canon val s v else canon_alt val c r v
  end.

(* ---------- a session on one API: a history of calls ----------
   The model of a call is a function of (mode, schema, input) alone: an API whose registered settings objects are not
   mutated by use answers every call the same way whatever was called before. The correspondence replays histories on one
   serix.API with settings objects shared between types and compares every answer with [run_call]. *)
Inductive call :=
| CallEnc (val : bool) (s : schema) (v : value)
| CallDec (val : bool) (s : schema) (b : bytes).
Inductive outcome := OutEnc (r : res bytes) | OutDec (r : res (value * nat)).
Definition run_call (c : call) : outcome :=
  match c with
  | CallEnc val s v => OutEnc (Encode val s v)
  | CallDec val s b => OutDec (Decode val s b)
  end.
Definition run_history (h : list call) : list outcome := map run_call h.
