(* C01 round trip for the model: decode (encode v ++ rest) = (canon v, |encode v|), for all schemas of the fragment,
   both validation modes, all values the encoder accepts, by mutual structural induction on the schema. *)
From Coq Require Import List NArith ZArith Bool Lia PeanoNat Permutation Sorting.Sorted.
From Verif.C01_Serix Require Import Model Bound SortLex.
Import ListNotations.
Open Scope N_scope.

(* ---------- little endian ---------- *)

Lemma le_enc_len : forall n x, length (le_enc n x) = n.
Proof. induction n; simpl; intros; auto. Qed.

Lemma le_dec_enc : forall n x, le_dec (le_enc n x) = x mod 256 ^ N.of_nat n.
Proof.
  induction n as [| k IH]; intros x.
  - simpl. rewrite N.mod_1_r. reflexivity.
  - cbn [le_enc le_dec]. rewrite IH. rewrite Nat2N.inj_succ, N.pow_succ_r'.
    rewrite N.mod_mul_r by (try lia; apply N.pow_nonzero; lia). reflexivity.
Qed.

Lemma le_dec_enc_small : forall n x, x < 256 ^ N.of_nat n -> le_dec (le_enc n x) = x.
Proof. intros. rewrite le_dec_enc. apply N.mod_small; auto. Qed.

Lemma firstn_app_exact : forall {A} (a r : list A), firstn (length a) (a ++ r) = a.
Proof. intros. rewrite firstn_app, Nat.sub_diag, firstn_all. simpl. apply app_nil_r. Qed.

Lemma skipn_app_exact : forall {A} (a r : list A), skipn (length a) (a ++ r) = r.
Proof. intros. rewrite skipn_app, Nat.sub_diag, skipn_all. reflexivity. Qed.

Lemma firstn_le_enc : forall n x r, firstn n (le_enc n x ++ r) = le_enc n x.
Proof. intros. rewrite <- (le_enc_len n x) at 1. apply firstn_app_exact. Qed.

Lemma skipn_le_enc : forall n x r, skipn n (le_enc n x ++ r) = r.
Proof. intros. rewrite <- (le_enc_len n x) at 1. apply skipn_app_exact. Qed.

(* ---------- length prefix ---------- *)

Definition W32 : N := 4294967296.

Lemma write_len_len : forall l n pre, write_len l n = Ok pre -> length pre = lpt_size l.
Proof.
  unfold write_len; intros l n pre H. destruct l; try (destruct (_ <? n); try discriminate);
    injection H as <-; first [apply le_enc_len | reflexivity].
Qed.

Lemma write_len_inv : forall l n pre, write_len l n = Ok pre -> n < W32 ->
  pre = le_enc (lpt_size l) n /\ n < 256 ^ N.of_nat (lpt_size l).
Proof.
  intros l n pre H Hn. unfold W32 in Hn. destruct l; unfold write_len in H.
  - destruct (lpt_max L8 <? n) eqn:E; [discriminate |]. apply N.ltb_ge in E. injection H as <-.
    split; [reflexivity |]. change (lpt_max L8) with 255 in E. change (256 ^ N.of_nat (lpt_size L8)) with 256. lia.
  - destruct (lpt_max L16 <? n) eqn:E; [discriminate |]. apply N.ltb_ge in E. injection H as <-.
    split; [reflexivity |]. change (lpt_max L16) with 65535 in E. change (256 ^ N.of_nat (lpt_size L16)) with 65536. lia.
  - destruct (lpt_max L32 <? n) eqn:E; [discriminate |]. apply N.ltb_ge in E. injection H as <-.
    split; [reflexivity |]. change (lpt_max L32) with 4294967295 in E.
    change (256 ^ N.of_nat (lpt_size L32)) with 4294967296. lia.
  - injection H as <-. split; [reflexivity |].
    change (256 ^ N.of_nat (lpt_size L64)) with 18446744073709551616. lia.
Qed.

Lemma read_write_len : forall l n pre rest, write_len l n = Ok pre -> n < W32 ->
  read_len l (pre ++ rest) = Ok n /\ skipn (lpt_size l) (pre ++ rest) = rest.
Proof.
  intros l n pre rest H Hn. destruct (write_len_inv _ _ _ H Hn) as [-> Hb].
  split; [| apply skipn_le_enc].
  unfold read_len. rewrite app_length, le_enc_len.
  replace (lpt_size l + length rest <? lpt_size l)%nat with false by (symmetry; apply Nat.ltb_ge; lia).
  rewrite firstn_le_enc, le_dec_enc_small by assumption.
  destruct l; try reflexivity.
  replace (lpt_max L64 <? n) with false; [reflexivity |].
  symmetry; apply N.ltb_ge. unfold W32 in Hn. change (lpt_max L64) with 9223372036854775807. lia.
Qed.

(* ---------- well-formed schemas and good values (the guards) ---------- *)

Definition code_ok (t : option tycode) : Prop :=
  match t with None => True | Some (TC8 c) => c < 256 | Some (TC32 c) => c < W32 end.

Definition alt_ok (d : tyden) (c : N) (s : schema) : Prop :=
  let ok t := code_val t = c /\ match d, t with Den8, TC8 _ => True | Den32, TC32 _ => True | _, _ => False end in
  match s with
  | SStruct (Some t) _ => ok t
  | SPtr (SStruct (Some t) _) => ok t
  | SCustom (Some t) _ _ => ok t
  | _ => False
  end.

Fixpoint wf (s : schema) : Prop :=
  match s with
  | SByteArr _ ty | SCustom ty _ _ => code_ok ty
  | SPtr s' => wf s'
  | SStruct ty fs => code_ok ty /\ wf_fields fs
  | SSlice _ _ e | SArr _ _ _ e => wf e /\ zero_size e = false
  | SMap _ _ k v => wf k /\ wf v /\ zero_size k && zero_size v = false
  | SIface d al => wf_alts d al
  | _ => True
  end
with wf_fields (fs : fields) : Prop :=
  match fs with
  | FNil => True
  | FCons k s r =>
      wf s /\ wf_fields r /\
      match k with FEmb | FEmbPtr => match s with SStruct _ _ => True | _ => False end | _ => True end
  end
with wf_alts (d : tyden) (al : alts) : Prop :=
  match al with
  | ANil => True
  | ACons c s r => wf s /\ alt_ok d c s /\ wf_alts d r
  end.

(* Leibniz equality from the model's key comparison, on the value shapes map keys can have *)
Fixpoint simple_key (s : schema) : Prop :=
  match s with
  | SBool | SInt _ _ | SString _ _ _ | SByteArr _ _ => True
  | SStruct _ fs => simple_fields fs
  | _ => False
  end
with simple_fields (fs : fields) : Prop :=
  match fs with
  | FNil => True
  | FCons k s r => k = FPlain /\ simple_key s /\ simple_fields r
  end.

(* [good val s v]: what the encoder does not check itself but a round trip needs:
   - the entries of a map have pairwise different canonical keys (a Go map cannot hold two equal keys); stated on
     the entries in wire order: no entry's key equals the key of an entry before it,
   - sequence elements / map entries are not empty on the wire. *)
Fixpoint good (val : bool) (s : schema) (v : value) {struct s} : Prop :=
  match s, v with
  | SPtr s', _ => good val s' v
  | SStruct _ fs, VL vs => good_fields val fs vs
  | SSlice _ _ e, VL vs | SArr _ _ _ e, VL vs =>
      Forall (fun x => good val e x /\ enc_or_nil val e x <> []) vs
  | SMap _ _ k ve, VMap es =>
      Forall (fun kv => good val k (fst kv) /\ good val ve (snd kv) /\
                        enc_or_nil val k (fst kv) ++ enc_or_nil val ve (snd kv) <> []) es
      /\ (forall done x todo,
            sort_on (fun kv => enc_or_nil val k (fst kv) ++ enc_or_nil val ve (snd kv)) es = done ++ x :: todo ->
            forall y, In y done -> key_eqb (canon val k (fst x)) (canon val k (fst y)) = false)
  | SIface _ al, VIface c v' => good_alt val c al v'
  | _, _ => True
  end
with good_fields (val : bool) (fs : fields) (vs : list value) {struct fs} : Prop :=
  match fs, vs with
  | FCons k s r, v :: vs' =>
      (match k with
       | FPlain | FOpt => good val s v
       | FEmb | FEmbPtr => match s, v with SStruct _ fs', VL vs'' => good_fields val fs' vs'' | _, _ => True end
       end) /\ good_fields val r vs'
  | _, _ => True
  end
with good_alt (val : bool) (c : N) (al : alts) (v : value) {struct al} : Prop :=
  match al with
  | ANil => True
  | ACons c' s r => if c =? c' then good val s v else good_alt val c r v
  end.

(* ---------- validators (the same function on the encoder and the decoder side) ---------- *)

Lemma validate_no_validator : forall r st e, has_validator r = false -> validate r st e = Ok st.
Proof.
  intros r st e H. unfold has_validator in H.
  apply orb_false_elim in H as [H H4]. apply orb_false_elim in H as [H H3]. apply orb_false_elim in H as [H1 H2].
  unfold validate. rewrite H1, H2, H3, H4. simpl. destruct st; reflexivity.
Qed.

(* ---------- the loop on the concatenation of the element encodings ---------- *)

Fixpoint vfold (r : arules) (st : vstate) (data : list bytes) : res vstate :=
  match data with
  | [] => Ok st
  | e :: rest => let* st' := validate r st e in vfold r st' rest
  end.

Lemma validate_all_vfold : forall r data st, validate_all r st data = Ok tt <-> exists st', vfold r st data = Ok st'.
Proof.
  induction data as [| e rest IH]; intros st; simpl.
  - split; eauto.
  - destruct (validate r st e) eqn:E; simpl.
    + apply IH.
    + split; [discriminate | intros [? ?]; discriminate].
    + split; [discriminate | intros [? ?]; discriminate].
Qed.

Section Loop.
  Context {A X : Type} (item : A -> bytes -> res (A * nat)) (val : bool) (r : arules).
  Context (enc : X -> bytes) (step : A -> X -> A) (all : list X) (inv : list X -> A -> Prop).

  (* the loop over [todo] (all = done ++ todo), when each item decodes its own encoding (whatever follows)
     and validation passes *)
  Lemma seq_loop_ok : forall (todo done : list X) st acc rest,
    all = done ++ todo ->
    inv done acc ->
    (forall done x todo' acc tail, all = done ++ x :: todo' -> inv done acc ->
       item acc (enc x ++ tail) = Ok (step acc x, length (enc x)) /\ inv (done ++ [x]) (step acc x)) ->
    (forall x, In x all -> enc x <> []) ->
    (val = true -> validate_all r st (map enc todo) = Ok tt) ->
    seq_loop item val r (length todo) st acc (concat (map enc todo) ++ rest)
    = Ok (fold_left step todo acc, length (concat (map enc todo))).
  Proof.
    induction todo as [| x xs IH]; intros done st acc rest Hall Hinv Hitem Hne Hval.
    - reflexivity.
    - cbn [length seq_loop map concat fold_left]. rewrite <- app_assoc.
      destruct (Hitem done x xs acc (concat (map enc xs) ++ rest) Hall Hinv) as [Hi Hinv'].
      rewrite Hi. cbn [bind].
      rewrite app_length.
      replace (length (enc x) + length (concat (map enc xs) ++ rest) <? length (enc x))%nat with false
        by (symmetry; apply Nat.ltb_ge; lia).
      rewrite firstn_app_exact, skipn_app_exact.
      assert (Hx : enc x <> []). { apply Hne. rewrite Hall. apply in_or_app. right. left. reflexivity. }
      assert (Hv : exists st', (if val && has_validator r then validate r st (enc x) else Ok st) = Ok st'
                               /\ (val = true -> validate_all r st' (map enc xs) = Ok tt)).
      { destruct val; cbn [andb].
        - specialize (Hval eq_refl). cbn [map validate_all] in Hval.
          destruct (validate r st (enc x)) eqn:E; simpl in Hval; try discriminate.
          destruct (has_validator r) eqn:Hh.
          + exists a. auto.
          + exists st. split; auto. intros _. rewrite validate_no_validator in E by assumption. inversion E; subst. exact Hval.
        - exists st. split; auto. discriminate. }
      destruct Hv as [st' [Hv1 Hv2]]. rewrite Hv1. cbn [bind].
      assert (Hall' : all = (done ++ [x]) ++ xs) by (rewrite <- app_assoc; exact Hall).
      rewrite (IH (done ++ [x]) st' (step acc x) rest Hall' Hinv' Hitem Hne Hv2).
      cbn [bind]. rewrite app_length. reflexivity.
  Qed.
End Loop.

Lemma concat_length_ge : forall (data : list bytes), (forall e, In e data -> e <> []) -> (length data <= length (concat data))%nat.
Proof.
  induction data as [| e data IH]; intros H; simpl; auto.
  rewrite app_length. assert (e <> []) by (apply H; left; auto). destruct e; [congruence |]. simpl.
  specialize (IH (fun e' He' => H e' (or_intror He'))). lia.
Qed.

(* dec_seq on [pre ++ concat encs ++ rest] *)
Lemma dec_seq_ok : forall {A X} (item : A -> bytes -> res (A * nat)) val l r tot (enc : X -> bytes) (step : A -> X -> A)
    (xs : list X) pre init rest (inv : list X -> A -> Prop),
  write_len l (N.of_nat (length xs)) = Ok pre ->
  N.of_nat (length (pre ++ concat (map enc xs))) < W32 ->
  (val = true -> check_bounds (ar_min r) (ar_max r) (N.of_nat (length xs)) = Ok tt) ->
  inv [] init ->
  (forall done x todo' acc tail, xs = done ++ x :: todo' -> inv done acc ->
     item acc (enc x ++ tail) = Ok (step acc x, length (enc x)) /\ inv (done ++ [x]) (step acc x)) ->
  (forall x, In x xs -> enc x <> []) ->
  (val = true -> validate_all r vinit (map enc xs) = Ok tt) ->
  dec_seq item val l r false tot init ((pre ++ concat (map enc xs)) ++ rest)
  = Ok (fold_left step xs init, length (pre ++ concat (map enc xs))).
Proof.
  intros A X item val l r tot enc step xs pre init rest inv Hw Hlen Hcb HP Hitem Hne Hval.
  unfold dec_seq. rewrite <- app_assoc.
  assert (Hge : (length xs <= length (concat (map enc xs)))%nat).
  { rewrite <- (map_length enc xs). apply concat_length_ge. intros e He. apply in_map_iff in He as [x [<- Hx]]. auto. }
  assert (Hcnt : N.of_nat (length xs) < W32). { rewrite app_length in Hlen. lia. }
  destruct (read_write_len l _ pre (concat (map enc xs) ++ rest) Hw Hcnt) as [Hr Hs].
  rewrite Hr, Hs. cbn [bind].
  assert (Hb : (if val then check_bounds (ar_min r) (ar_max r) (N.of_nat (length xs)) else Ok tt) = Ok tt).
  { destruct val; auto. }
  rewrite Hb. cbn [bind].
  unfold seq_fuel.
  assert (Hmin : N.to_nat (N.min (N.of_nat (length xs)) (N.of_nat (length (concat (map enc xs) ++ rest)) + 1)) = length xs).
  { rewrite N.min_l; [apply Nat2N.id |]. rewrite app_length. lia. }
  rewrite Hmin.
  rewrite (seq_loop_ok item val r enc step xs inv xs [] vinit init rest eq_refl HP Hitem Hne Hval).
  cbn [bind]. rewrite app_length, (write_len_len _ _ _ Hw). reflexivity.
Qed.

(* ---------- small facts ---------- *)

Lemma check_code_enc : forall ty r, code_ok ty -> check_code ty (code_bytes ty ++ r) = Ok (length (code_bytes ty)).
Proof.
  intros [t |] r H; [| reflexivity]. unfold check_code, code_bytes.
  rewrite app_length, le_enc_len.
  replace (code_size t + length r <? code_size t)%nat with false by (symmetry; apply Nat.ltb_ge; lia).
  rewrite firstn_le_enc, le_dec_enc_small.
  - rewrite N.eqb_refl. reflexivity.
  - destruct t; simpl in *; [change (256 ^ 1) with 256 | change (256 ^ 4) with 4294967296; unfold W32 in H]; lia.
Qed.

Lemma vnil_match : forall {T} (v : value) (a b : T), v <> VNil ->
  match v with VNil => a | _ => b end = b.
Proof. intros T v a b H. destruct v; congruence. Qed.

Lemma mapM_ok_inv : forall {A} (f : A -> res bytes) l d, mapM f l = Ok d ->
  d = map (fun x => match f x with Ok b => b | _ => [] end) l /\ forall x, In x l -> exists b, f x = Ok b.
Proof.
  induction l as [| x l IH]; intros d H; simpl in H.
  - inversion H; subst. split; auto. intros x [].
  - destruct (f x) eqn:E; simpl in H; try discriminate.
    destruct (mapM f l) eqn:E2; simpl in H; try discriminate. inversion H; subst.
    destruct (IH _ eq_refl) as [-> Hall]. split.
    + simpl. rewrite E. reflexivity.
    + intros y [<- | Hy]; eauto.
Qed.

Lemma fold_left_cons_rev : forall {X Y} (f : X -> Y) xs init,
  fold_left (fun acc x => f x :: acc) xs init = rev (map f xs) ++ init.
Proof.
  induction xs as [| x xs IH]; intros init; simpl; auto. rewrite IH, <- app_assoc. reflexivity.
Qed.

Lemma in_concat_le : forall (data : list bytes) e, In e data -> (length e <= length (concat data))%nat.
Proof.
  induction data as [| d data IH]; intros e H; [destruct H |]. simpl. rewrite app_length.
  destruct H as [-> | H]; [lia | apply IH in H; lia].
Qed.

(* must-occur check: depends only on which codes occur, so it is insensitive to element order and to [canon] *)
Lemma canon_nil : forall val s, canon val s VNil = VNil.
Proof. induction s; cbn [canon]; auto. Qed.

Lemma canon_not_nil : forall val s v, v <> VNil -> canon val s v <> VNil.
Proof. induction s; intros v Hv; destruct v; cbn [canon]; try congruence; try discriminate; auto. Qed.

Lemma elem_code_ptr : forall s v, v <> VNil -> elem_code (SPtr s) v = elem_code s v.
Proof. intros s v Hv. destruct v; try congruence; reflexivity. Qed.

Lemma elem_code_canon : forall val e v, elem_code e (canon val e v) = elem_code e v.
Proof.
  induction e; intros v.
  8: { assert (Hn : v = VNil \/ v <> VNil) by (destruct v; auto; right; discriminate).
       destruct Hn as [-> | Hv]; cbn [canon].
       - rewrite canon_nil. reflexivity.
       - rewrite !elem_code_ptr by auto using canon_not_nil. apply IHe. }
  all: destruct v; cbn [canon elem_code]; try reflexivity.
  all: try (destruct ty; reflexivity).
Qed.

Lemma check_must_spec : forall r e vs,
  check_must r e vs = Ok tt <->
  (ar_must r = [] \/
   ((forall v, In v vs -> elem_code e v <> None) /\
    (forall c, In c (ar_must r) -> exists v, In v vs /\ elem_code e v = Some c))).
Proof.
  intros r e vs. unfold check_must. destruct (ar_must r) as [| c0 must] eqn:Em.
  - split; auto.
  - set (M := c0 :: must).
    assert (G : forall vs seen,
      (fix go (vs : list value) (seen : list N) {struct vs} : res unit :=
         match vs with
         | [] => if forallb (fun c => existsb (N.eqb c) seen) M then Ok tt else Err EMustOccur
         | v :: rest => match elem_code e v with Some c => go rest (c :: seen) | None => Err EOther end
         end) vs seen = Ok tt <->
      ((forall v, In v vs -> elem_code e v <> None) /\
       (forall c, In c M -> In c seen \/ exists v, In v vs /\ elem_code e v = Some c))).
    { induction vs0 as [| v rest IH]; intros seen.
      - destruct (forallb (fun c => existsb (N.eqb c) seen) M) eqn:E.
        + split; auto. intros _. split; [intros v [] |]. intros c Hc. left.
          rewrite forallb_forall in E. specialize (E c Hc). apply existsb_exists in E as [x [Hx Hq]].
          apply N.eqb_eq in Hq. subst. exact Hx.
        + split; [discriminate |]. intros [_ H]. exfalso.
          assert (forallb (fun c => existsb (N.eqb c) seen) M = true); [| congruence].
          apply forallb_forall. intros c Hc. destruct (H c Hc) as [Hs | [v [[] _]]].
          apply existsb_exists. exists c. split; auto. apply N.eqb_refl.
      - destruct (elem_code e v) as [cv |] eqn:Ev.
        + rewrite IH. split.
          * intros [H1 H2]. split.
            -- intros x [<- | Hx]; [congruence | auto].
            -- intros c Hc. destruct (H2 c Hc) as [[<- | Hs] | [x [Hx Hq]]]; eauto.
               ++ right. exists v. split; auto. left; auto.
               ++ right. exists x. split; auto. right; auto.
          * intros [H1 H2]. split.
            -- intros x Hx. apply H1. right; auto.
            -- intros c Hc. destruct (H2 c Hc) as [Hs | [x [[<- | Hx] Hq]]].
               ++ left. right. auto.
               ++ left. left. congruence.
               ++ right. eauto.
        + split; [discriminate |]. intros [H1 _]. exfalso. apply (H1 v); [left; auto | exact Ev]. }
    rewrite (G vs []). split.
    + intros [H1 H2]. right. split; auto. intros c Hc. destruct (H2 c Hc) as [[] | H]; auto.
    + intros [H | [H1 H2]]; [discriminate |]. split; auto.
Qed.

Lemma check_must_perm_canon : forall val r e vs xs, Permutation xs vs ->
  check_must r e vs = Ok tt -> check_must r e (map (canon val e) xs) = Ok tt.
Proof.
  intros val r e vs xs P H. apply check_must_spec in H. apply check_must_spec.
  destruct H as [H | [H1 H2]]; [left; auto |]. right. split.
  - intros v Hv. apply in_map_iff in Hv as [x [<- Hx]]. rewrite elem_code_canon. apply H1. eapply Permutation_in; eauto.
  - intros c Hc. destruct (H2 c Hc) as [v [Hv Hq]]. exists (canon val e v). split.
    + apply in_map. eapply Permutation_in; [apply Permutation_sym; exact P | exact Hv].
    + rewrite elem_code_canon. exact Hq.
Qed.

(* ---------- the sequence cases, given the round trip of the element ---------- *)

Definition rt_elem (val : bool) (tot : nat) (e : schema) : Prop :=
  forall d v b rest, good val e v -> encode val d e v = Ok b -> N.of_nat (length b) < W32 ->
    decode val tot e (b ++ rest) = Ok (canon val e v, length b).

Lemma enc_or_nil_ok : forall val e x b, encode val true e x = Ok b -> enc_or_nil val e x = b.
Proof. intros. unfold enc_or_nil. rewrite H. reflexivity. Qed.

Lemma seq_roundtrip : forall val tot l r e vs data b rest,
  zero_size e = false ->
  rt_elem val tot e ->
  Forall (fun x => good val e x /\ enc_or_nil val e x <> []) vs ->
  mapM (encode val true e) vs = Ok data ->
  enc_seq val l r data = Ok b ->
  N.of_nat (length b) < W32 ->
  dec_seq (fun acc b' => let* (v, m) := decode val tot e b' in Ok (v :: acc, m)) val l r (zero_size e) tot [] (b ++ rest)
  = Ok (rev (map (canon val e) (if ar_autosort r && ar_lex r then sort_on (enc_or_nil val e) vs else vs)), length b).
Proof.
  intros val tot l r e vs data b rest Hz IHe Hgood Hm Henc Hlen.
  destruct (mapM_ok_inv _ _ _ Hm) as [Hdata Hall].
  set (enc := enc_or_nil val e).
  assert (Hdata' : data = map enc vs).
  { rewrite Hdata. apply map_ext_in. intros x Hx. unfold enc, enc_or_nil. reflexivity. }
  set (xs := if ar_autosort r && ar_lex r then sort_on enc vs else vs).
  assert (Hperm : Permutation xs vs). { unfold xs. destruct (_ && _); [apply sort_on_perm | apply Permutation_refl]. }
  unfold enc_seq in Henc. inv_bind Henc. inv_bind Hk. inv_bind Hk0. injection Hk as <-.
  assert (Hd' : (if ar_autosort r && ar_lex r then sortb data else data) = map enc xs).
  { unfold xs. destruct (_ && _); [rewrite map_key_sort_on |]; rewrite Hdata'; reflexivity. }
  rewrite Hd' in *.
  assert (Hlx : length xs = length data). { rewrite (Permutation_length Hperm), Hdata', map_length. reflexivity. }
  rewrite <- Hlx in Hb0.
  rewrite Hz.
  rewrite (dec_seq_ok _ val l r tot enc (fun acc x => canon val e x :: acc) xs a0 [] rest (fun _ _ => True)); auto.
  - rewrite fold_left_cons_rev, app_nil_r. reflexivity.
  - intros Hv. rewrite Hv in Hb. destruct a; rewrite Hlx; exact Hb.
  - intros done x todo' acc tail Hxs _. split; auto.
    assert (Hin : In x vs). { eapply Permutation_in; [exact Hperm |]. rewrite Hxs. apply in_or_app; right; left; auto. }
    destruct (Hall _ Hin) as [bx Hbx].
    assert (Hex : enc x = bx) by (apply enc_or_nil_ok; exact Hbx).
    rewrite Forall_forall in Hgood. destruct (Hgood _ Hin) as [Hg _].
    rewrite Hex. rewrite (IHe true x bx tail Hg Hbx).
    + cbn [bind]. reflexivity.
    + assert (In (enc x) (map enc xs)). { apply in_map. rewrite Hxs. apply in_or_app; right; left; auto. }
      apply in_concat_le in H. rewrite app_length in Hlen. rewrite Hex in H. lia.
  - intros x Hx. rewrite Forall_forall in Hgood. apply Hgood. eapply Permutation_in; eauto.
  - intros Hv. rewrite Hv in Hb1. destruct a1. exact Hb1.
Qed.

Definition map_rules (r : arules) : arules :=
  mkAR (ar_min r) (ar_max r) (ar_nodup r) true (ar_one8 r) (ar_one32 r) (ar_must r) true.

Lemma map_roundtrip : forall val tot l r k ve es data b rest,
  zero_size k && zero_size ve = false ->
  rt_elem val tot k -> rt_elem val tot ve ->
  Forall (fun kv => good val k (fst kv) /\ good val ve (snd kv) /\
                    enc_or_nil val k (fst kv) ++ enc_or_nil val ve (snd kv) <> []) es ->
  (forall done x todo,
      sort_on (fun kv => enc_or_nil val k (fst kv) ++ enc_or_nil val ve (snd kv)) es = done ++ x :: todo ->
      forall y, In y done -> key_eqb (canon val k (fst x)) (canon val k (fst y)) = false) ->
  mapM (fun kv => let* kb := encode val true k (fst kv) in
                  let* vb := encode val true ve (snd kv) in Ok (kb ++ vb)) es = Ok data ->
  enc_seq val l (map_rules r) data = Ok b ->
  N.of_nat (length b) < W32 ->
  dec_seq (fun acc b' =>
             let* (kv, kn) := decode val tot k b' in
             if (length b' <? kn)%nat then Panic else
             let* (vv, vn) := decode val tot ve (skipn kn b') in
             if existsb (fun e => key_eqb kv (fst e)) acc then Err EDupKey
             else Ok ((kv, vv) :: acc, (kn + vn)%nat))
          val l (map_rules r) (zero_size k && zero_size ve) tot [] (b ++ rest)
  = Ok (rev (map (fun kv => (canon val k (fst kv), canon val ve (snd kv)))
                 (sort_on (fun kv => enc_or_nil val k (fst kv) ++ enc_or_nil val ve (snd kv)) es)), length b).
Proof.
  intros val tot l r k ve es data b rest Hz IHk IHv Hgood Hdist Hm Henc Hlen.
  destruct (mapM_ok_inv _ _ _ Hm) as [Hdata Hall].
  set (enc := fun kv : value * value => enc_or_nil val k (fst kv) ++ enc_or_nil val ve (snd kv)) in *.
  set (cE := fun kv : value * value => (canon val k (fst kv), canon val ve (snd kv))).
  assert (Hparts : forall x, In x es -> exists kb vb, encode val true k (fst x) = Ok kb /\ encode val true ve (snd x) = Ok vb).
  { intros x Hx. destruct (Hall _ Hx) as [bx Hbx]. inv_bind Hbx. inv_bind Hk. eauto. }
  assert (Hdata' : data = map enc es).
  { rewrite Hdata. apply map_ext_in. intros x Hx. destruct (Hparts _ Hx) as [kb [vb [H1 H2]]].
    unfold enc, enc_or_nil. rewrite H1, H2. reflexivity. }
  set (xs := sort_on enc es).
  assert (Hperm : Permutation xs es) by apply sort_on_perm.
  unfold enc_seq in Henc. cbn [map_rules ar_autosort ar_lex ar_min ar_max andb] in Henc.
  assert (Hd' : sortb data = map enc xs). { unfold xs. rewrite map_key_sort_on, Hdata'. reflexivity. }
  rewrite Hd' in Henc.
  apply bind_ok in Henc as [u1 [Hcb Henc]]. apply bind_ok in Henc as [pre [Hw Henc]].
  apply bind_ok in Henc as [u2 [Hva Henc]]. injection Henc as <-. destruct u1, u2.
  assert (Hlx : length xs = length data). { rewrite (Permutation_length Hperm), Hdata', map_length. reflexivity. }
  assert (Hw' : write_len l (N.of_nat (length xs)) = Ok pre) by (rewrite Hlx; exact Hw).
  assert (Hcb' : (if val then check_bounds (ar_min r) (ar_max r) (N.of_nat (length xs)) else Ok tt) = Ok tt)
    by (rewrite Hlx; exact Hcb).
  clear Hw Hcb.
  rewrite Hz.
  rewrite (dec_seq_ok _ val l (map_rules r) tot enc (fun acc x => cE x :: acc) xs pre [] rest
             (fun done acc => acc = rev (map cE done))); auto.
  - rewrite fold_left_cons_rev, app_nil_r. reflexivity.
  - intros Hv. rewrite Hv in Hcb'. cbn [map_rules ar_min ar_max]. exact Hcb'.
  - intros done x todo' acc tail Hxs Hacc.
    assert (Hin : In x es). { eapply Permutation_in; [exact Hperm |]. rewrite Hxs. apply in_or_app; right; left; auto. }
    destruct (Hparts _ Hin) as [kb [vb [Hkb Hvb]]].
    assert (Hex : enc x = kb ++ vb). { unfold enc. rewrite (enc_or_nil_ok _ _ _ _ Hkb), (enc_or_nil_ok _ _ _ _ Hvb). reflexivity. }
    rewrite Forall_forall in Hgood. destruct (Hgood _ Hin) as [Hgk [Hgv _]].
    assert (Hle : (length (kb ++ vb) <= length (concat (map enc xs)))%nat).
    { rewrite <- Hex. apply in_concat_le. apply in_map. rewrite Hxs. apply in_or_app; right; left; auto. }
    rewrite app_length in Hlen, Hle.
    split.
    + rewrite Hex, <- app_assoc.
      rewrite (IHk true (fst x) kb (vb ++ tail) Hgk Hkb) by lia. cbn [bind].
      rewrite app_length.
      replace (length kb + length (vb ++ tail) <? length kb)%nat with false by (symmetry; apply Nat.ltb_ge; lia).
      rewrite skipn_app_exact.
      rewrite (IHv true (snd x) vb tail Hgv Hvb) by lia. cbn [bind].
      replace (existsb (fun e => key_eqb (canon val k (fst x)) (fst e)) acc) with false.
      * rewrite app_length. reflexivity.
      * symmetry. apply not_true_is_false. intros Hex'. apply existsb_exists in Hex' as [en [Hen Heq]].
        rewrite Hacc in Hen. apply in_rev in Hen. apply in_map_iff in Hen as [y [<- Hy]].
        cbn [cE fst] in Heq. rewrite (Hdist done x todo' Hxs y Hy) in Heq. discriminate.
    + rewrite Hacc, map_app, rev_app_distr. reflexivity.
  - intros x Hx. rewrite Forall_forall in Hgood. apply Hgood. eapply Permutation_in; eauto.
  - intros Hv. rewrite Hv in Hva. exact Hva.
Qed.

(* ---------- the mutual induction ---------- *)

Lemma ok_inj : forall {A} (a b : A), Ok a = Ok b -> a = b.
Proof. intros A a b H. inversion H. reflexivity. Qed.

Definition Rs (s : schema) : Prop := wf s -> forall val tot, rt_elem val tot s.
Definition Rf (fs : fields) : Prop := wf_fields fs -> forall val tot vs b rest,
  good_fields val fs vs -> encode_fields val fs vs = Ok b -> N.of_nat (length b) < W32 ->
  decode_fields val tot fs (b ++ rest) = Ok (canon_fields val fs vs, length b).
Definition Ra (al : alts) : Prop := forall d, wf_alts d al -> forall val tot c v b rest,
  good_alt val c al v -> encode_alt val c al v = Ok b -> N.of_nat (length b) < W32 ->
  decode_alt val tot c al (b ++ rest) = Ok (canon_alt val c al v, length b) /\ peek_code d (b ++ rest) = Ok c.

Definition Pr (s : schema) : Prop := Rs s /\ match s with SStruct _ fs => Rf fs | _ => True end.

Lemma take_app : forall (a r : bytes), take (length a) (a ++ r) = Ok a.
Proof.
  intros. unfold take. rewrite app_length.
  replace (length a + length r <? length a)%nat with false by (symmetry; apply Nat.ltb_ge; lia).
  rewrite firstn_app_exact. reflexivity.
Qed.

Lemma take_le_enc : forall n x r, take n (le_enc n x ++ r) = Ok (le_enc n x).
Proof. intros. pose proof (take_app (le_enc n x) r) as H. rewrite le_enc_len in H. exact H. Qed.

Lemma peek_struct : forall d c t body rest, code_ok (Some t) -> code_val t = c ->
  match d, t with Den8, TC8 _ => True | Den32, TC32 _ => True | _, _ => False end ->
  peek_code d ((code_bytes (Some t) ++ body) ++ rest) = Ok c.
Proof.
  intros d c t body rest Hok Hc Hd. rewrite <- app_assoc. unfold code_bytes.
  destruct d, t; try contradiction; simpl in Hc; subst; cbn [code_size code_val peek_code].
  - cbn [le_enc app]. simpl in Hok. rewrite N.mod_small by lia. reflexivity.
  - rewrite app_length, le_enc_len.
    replace (4 + length (body ++ rest) <? 4)%nat with false by (symmetry; apply Nat.ltb_ge; lia).
    rewrite firstn_le_enc, le_dec_enc_small; auto.
Qed.

(* the custom decoder reads back what the custom encoder wrote, whatever follows *)
Lemma custom_dec_enc_app : forall f bs body rest, custom_enc f bs = Ok body ->
  custom_dec f (body ++ rest) = Ok (bs, length body).
Proof.
  intros [n |] bs body rest H; unfold custom_enc in H; unfold custom_dec.
  - destruct (Nat.eqb (length bs) n) eqn:E; try discriminate. apply Nat.eqb_eq in E. apply ok_inj in H as <-.
    subst n. rewrite take_app. reflexivity.
  - destruct (length bs <? 256)%nat; try discriminate. apply ok_inj in H as <-.
    cbn [app]. rewrite Nat2N.id, take_app. reflexivity.
Qed.

Theorem roundtrip_all : (forall s, Pr s) /\ (forall fs, Rf fs) /\ (forall al, Ra al).
Proof.
  apply schema_fields_alts_ind; unfold Pr.
  - (* SBool *) split; [| exact I]. intros _ val tot d v b rest _ H _. cbn [encode] in H.
    destruct v; try discriminate. destruct b0; apply ok_inj in H as <-; reflexivity.
  - (* SInt *) intros sg w. split; [| exact I]. intros _ val tot d v b rest _ H _. cbn [encode] in H.
    destruct v; try discriminate. apply ok_inj in H as <-. cbn [decode canon].
    unfold enc_int. rewrite take_le_enc. cbn [bind]. rewrite le_enc_len. reflexivity.
  - (* SString *) intros l mn mx. split; [| exact I]. intros _ val tot d v b rest _ H Hlen. cbn [encode] in H.
    destruct v; try discriminate.
    apply bind_ok in H as [u1 [H1 H]]. apply bind_ok in H as [u2 [H2 H]]. apply bind_ok in H as [u3 [H3 H]].
    apply bind_ok in H as [pre [Hw H]]. apply ok_inj in H as <-.
    rewrite app_length in Hlen.
    assert (Hn : N.of_nat (length bs) < W32) by lia.
    cbn [decode canon]. rewrite <- app_assoc.
    destruct (read_write_len l _ pre (bs ++ rest) Hw Hn) as [Hr Hs]. rewrite Hr, Hs. cbn [bind].
    destruct u3. rewrite H3. cbn [bind].
    replace (N.of_nat (length (bs ++ rest)) <? N.of_nat (length bs)) with false
      by (symmetry; apply N.ltb_ge; rewrite app_length; lia).
    rewrite Nat2N.id, firstn_app_exact.
    assert (Hu : val && negb (utf8_valid bs) = false).
    { destruct val; auto. cbn [andb]. destruct (utf8_valid bs); [reflexivity | discriminate]. }
    rewrite Hu. rewrite app_length, (write_len_len _ _ _ Hw). reflexivity.
  - (* SBytes *) intros l mn mx. split; [| exact I]. intros _ val tot d v b rest _ H Hlen. cbn [encode] in H.
    destruct v; try discriminate.
    apply bind_ok in H as [u1 [H1 H]]. apply bind_ok in H as [u3 [H3 H]].
    apply bind_ok in H as [pre [Hw H]]. apply ok_inj in H as <-.
    rewrite app_length in Hlen.
    assert (Hn : N.of_nat (length bs) < W32) by lia.
    cbn [decode canon]. rewrite <- app_assoc.
    destruct (read_write_len l _ pre (bs ++ rest) Hw Hn) as [Hr Hs]. rewrite Hr, Hs. cbn [bind].
    destruct u3. rewrite H3. cbn [bind].
    replace (N.of_nat (length (bs ++ rest)) <? N.of_nat (length bs)) with false
      by (symmetry; apply N.ltb_ge; rewrite app_length; lia).
    rewrite Nat2N.id, firstn_app_exact.
    rewrite app_length, (write_len_len _ _ _ Hw). reflexivity.
  - (* SByteArr *) intros n ty. split; [| exact I]. intros Hwf val tot d v b rest _ H _. cbn [encode] in H.
    destruct v; try discriminate. destruct (Nat.eqb (length bs) n) eqn:E; try discriminate.
    apply Nat.eqb_eq in E. apply ok_inj in H as <-. cbn [decode canon]. rewrite <- app_assoc.
    rewrite check_code_enc by exact Hwf. cbn [bind]. rewrite skipn_app_exact. subst n. rewrite take_app. cbn [bind].
    rewrite app_length. reflexivity.
  - (* SU256 *) split; [| exact I]. intros _ val tot d v b rest _ H _. cbn [encode] in H.
    destruct v; try discriminate.
    destruct ((z <? 0)%Z || (U256 <=? z)%Z) eqn:E; try discriminate. apply ok_inj in H as <-.
    apply orb_false_elim in E as [E1 E2]. apply Z.ltb_ge in E1. apply Z.leb_gt in E2.
    cbn [decode canon].
    rewrite take_le_enc. cbn [bind]. rewrite le_enc_len.
    rewrite le_dec_enc_small.
    + rewrite Z2N.id by lia. reflexivity.
    + replace (256 ^ N.of_nat 32) with (Z.to_N U256) by (vm_compute; reflexivity).
      apply Z2N.inj_lt; try lia; unfold U256; apply Z.pow_nonneg; lia.
  - (* STime *) split; [| exact I]. intros _ val tot d v b rest _ H _. cbn [encode] in H.
    destruct v; try discriminate. apply ok_inj in H as <-. cbn [decode canon].
    rewrite take_le_enc. cbn [bind]. rewrite le_enc_len. reflexivity.
  - (* SPtr *) intros s [IH _]. split; [| exact I]. intros Hwf val tot d v b rest Hg H Hlen.
    cbn [encode] in H. cbn [decode canon]. cbn [good] in Hg. cbn [wf] in Hwf.
    destruct (ptr_target_ok s); [| destruct v; discriminate].
    destruct v; try discriminate; eapply (IH Hwf val tot false); eauto.
  - (* SStruct *) intros ty fs IH. split; [| exact IH]. intros [Hc Hwf] val tot d v b rest Hg H Hlen.
    cbn [encode] in H. destruct v; try discriminate.
    apply bind_ok in H as [body [Hb H]]. apply ok_inj in H as <-.
    cbn [decode canon]. rewrite <- app_assoc. rewrite check_code_enc by exact Hc.
    rewrite skipn_app_exact. rewrite app_length in Hlen.
    rewrite (IH Hwf val tot vs body rest Hg Hb) by lia. cbn [bind]. rewrite app_length. reflexivity.
  - (* SSlice *) intros l r e [IH _]. split; [| exact I]. intros [Hwf Hz] val tot d v b rest Hg H Hlen.
    cbn [encode] in H. destruct v; try discriminate.
    apply bind_ok in H as [u1 [H1 H]]. apply bind_ok in H as [u2 [H2 H]]. apply bind_ok in H as [data [Hd H]].
    cbn [decode canon]. cbn [good] in Hg.
    rewrite (seq_roundtrip val tot l r e vs data b rest Hz (IH Hwf val tot) Hg Hd H Hlen). cbn [bind].
    rewrite rev_involutive.
    destruct val; [| reflexivity]. destruct u2.
    match goal with |- context [check_must r e ?L] => assert (Hcm : check_must r e L = Ok tt) end.
    { apply (check_must_perm_canon true r e vs); [| exact H2].
      destruct (ar_autosort r && ar_lex r); [apply sort_on_perm | apply Permutation_refl]. }
    rewrite Hcm.
    reflexivity.
  - (* SArr *) intros n l r e [IH _]. split; [| exact I]. intros [Hwf Hz] val tot d v b rest Hg H Hlen.
    cbn [encode] in H. destruct v; try discriminate.
    destruct (Nat.eqb (length vs) n) eqn:En; cbn [negb] in H; try discriminate.
    apply bind_ok in H as [u1 [H1 H]]. apply bind_ok in H as [u2 [H2 H]]. apply bind_ok in H as [data [Hd H]].
    cbn [decode canon]. cbn [good] in Hg.
    rewrite (seq_roundtrip val tot l r e vs data b rest Hz (IH Hwf val tot) Hg Hd H Hlen). cbn [bind].
    rewrite rev_involutive.
    assert (Hl : Nat.eqb (length (map (canon val e) (if ar_autosort r && ar_lex r then sort_on (enc_or_nil val e) vs else vs))) n = true).
    { rewrite map_length. destruct (ar_autosort r && ar_lex r); cbv iota; [rewrite sort_on_length |]; exact En. }
    destruct val; [| cbn [bind]; rewrite Hl; reflexivity]. destruct u2.
    match goal with |- context [check_must r e ?L] => assert (Hcm : check_must r e L = Ok tt) end.
    { apply (check_must_perm_canon true r e vs); [| exact H2].
      destruct (ar_autosort r && ar_lex r); [apply sort_on_perm | apply Permutation_refl]. }
    rewrite Hcm.
    cbn [bind]. rewrite Hl. reflexivity.
  - (* SMap *) intros l r k [IHk _] ve [IHv _]. split; [| exact I].
    intros [Hwk [Hwv Hz]] val tot d v b rest Hg H Hlen.
    cbn [encode] in H. destruct v; try discriminate.
    apply bind_ok in H as [u1 [H1 H]]. apply bind_ok in H as [data [Hd H]].
    cbn [decode canon]. cbn [good] in Hg. destruct Hg as [Hg1 Hg2].
    fold (map_rules r) in H |- *.
    rewrite (map_roundtrip val tot l r k ve es data b rest Hz (IHk Hwk val tot) (IHv Hwv val tot) Hg1 Hg2 Hd H Hlen).
    cbn [bind]. rewrite rev_involutive. reflexivity.
  - (* SIface *) intros d al IH. split; [| exact I]. intros Hwf val tot d0 v b rest Hg H Hlen.
    cbn [encode] in H. destruct v; try discriminate. cbn [good] in Hg.
    destruct (IH d Hwf val tot c v b rest Hg H Hlen) as [Hd Hp].
    cbn [decode canon]. rewrite Hp. cbn [bind]. rewrite Hd. reflexivity.
  - (* SCustom: for EVERY validator predicate p *) intros ty f p. split; [| exact I]. intros Hwf val tot d v b rest _ H _.
    cbn [encode] in H. destruct v; try discriminate.
    destruct (val && negb (valid_ok p bs)) eqn:Ev; try discriminate.
    apply bind_ok in H as [body [Hb H]]. apply ok_inj in H as <-. cbn [decode canon]. rewrite <- app_assoc.
    rewrite check_code_enc by exact Hwf. cbn [bind]. rewrite skipn_app_exact.
    rewrite (custom_dec_enc_app _ _ _ _ Hb). cbn [bind]. rewrite Ev, app_length. reflexivity.
  - (* FNil *) intros _ val tot vs b rest _ H _. cbn [encode_fields] in H. destruct vs; try discriminate.
    apply ok_inj in H as <-. reflexivity.
  - (* FCons *) intros k s [IHs IHemb] r IHr [Hws [Hwr Hk]] val tot vs b rest Hg H Hlen.
    cbn [encode_fields] in H. destruct vs as [| v vs]; try discriminate.
    apply bind_ok in H as [fb [Hf H]]. apply bind_ok in H as [rb [Hr H]]. apply ok_inj in H as <-.
    cbn [good_fields] in Hg. destruct Hg as [Hgv Hgr].
    rewrite app_length in Hlen.
    specialize (IHr Hwr val tot vs rb rest Hgr Hr ltac:(lia)).
    rewrite <- app_assoc.
    cbn [decode_fields].
    match goal with |- bind ?X _ = _ =>
      assert (Hstep : X = Ok (match canon_fields val (FCons k s r) (v :: vs) with x :: _ => x | [] => VNil end, length fb))
    end.
    { destruct k.
      - cbn [canon_fields]. eapply (IHs Hws val tot true); eauto. lia.
      - cbn [canon_fields].
        destruct (encode val true s v) as [eb | |] eqn:Eenc.
        + assert (Hfb : fb = le_enc 4 (N.of_nat (length eb)) ++ eb \/ (v = VNil /\ fb = le_enc 4 0)).
          { destruct v; try (left; apply ok_inj in Hf as <-; reflexivity). right. split; auto. apply ok_inj in Hf as <-. reflexivity. }
          destruct Hfb as [-> | [-> ->]].
          * rewrite app_length, le_enc_len in Hlen.
            assert (He : N.of_nat (length eb) < 256 ^ N.of_nat 4). { change (256 ^ N.of_nat 4) with W32. lia. }
            rewrite <- !app_assoc. rewrite !app_length, le_enc_len.
            replace (4 + (length eb + length (rb ++ rest)) <? 4)%nat with false by (symmetry; apply Nat.ltb_ge; lia).
            rewrite firstn_le_enc, skipn_le_enc, le_dec_enc_small by exact He. cbv zeta.
            unfold enc_or_nil. rewrite Eenc.
            destruct eb as [| e0 eb].
            -- cbn [length N.of_nat N.eqb]. destruct v; reflexivity.
            -- replace (N.of_nat (length (e0 :: eb)) =? 0) with false by (symmetry; apply N.eqb_neq; simpl; lia).
               assert (Hv : v <> VNil). { intros ->. destruct s; cbn in Eenc; discriminate. }
               rewrite (IHs Hws val tot true v (e0 :: eb) (rb ++ rest) Hgv Eenc) by lia. cbn [bind].
               rewrite N.eqb_refl. cbn [negb]. destruct v; try congruence; reflexivity.
          * cbn [le_enc]. reflexivity.
        + destruct v; try discriminate. apply ok_inj in Hf as <-. cbn [le_enc]. reflexivity.
        + destruct v; try discriminate. apply ok_inj in Hf as <-. cbn [le_enc]. reflexivity.
      - destruct s; try contradiction. destruct v; try discriminate. cbn [canon_fields].
        cbn [good_fields] in Hgv. cbn [wf] in Hws.
        rewrite (IHemb (proj2 Hws) val tot vs0 fb (rb ++ rest) Hgv Hf) by lia. reflexivity.
      - destruct s; try contradiction. destruct v; try discriminate. cbn [canon_fields].
        cbn [good_fields] in Hgv. cbn [wf] in Hws.
        rewrite (IHemb (proj2 Hws) val tot vs0 fb (rb ++ rest) Hgv Hf) by lia. reflexivity. }
    rewrite Hstep. cbn [bind].
    rewrite app_length.
    replace (length fb + length (rb ++ rest) <? length fb)%nat with false by (symmetry; apply Nat.ltb_ge; lia).
    rewrite skipn_app_exact, IHr. cbn [bind]. cbn [canon_fields]. rewrite app_length. reflexivity.
  - (* ANil *) intros d _ val tot c v b rest _ H _. cbn [encode_alt] in H. discriminate.
  - (* ACons *) intros c' s [IHs _] r IHr d [Hws [Hao Hwr]] val tot c v b rest Hg H Hlen.
    cbn [encode_alt] in H. cbn [good_alt] in Hg. cbn [decode_alt canon_alt].
    destruct (c =? c') eqn:E.
    + apply N.eqb_eq in E. subst c'. split.
      * eapply (IHs Hws val tot true); eauto.
      * unfold alt_ok in Hao. destruct s; try contradiction.
        -- (* SPtr (SStruct (Some t) fs) *)
           destruct s; try contradiction. destruct ty as [t |]; try contradiction. destruct Hao as [Hc Hd].
           cbn [encode] in H. cbn [ptr_target_ok] in H.
           assert (Hb : exists body, b = code_bytes (Some t) ++ body).
           { destruct v; try discriminate; cbn [encode] in H; try discriminate.
             apply bind_ok in H as [body [_ H]]. apply ok_inj in H as <-. eauto. }
           destruct Hb as [body ->]. apply peek_struct; auto. cbn [wf] in Hws. apply Hws.
        -- destruct ty as [t |]; try contradiction. destruct Hao as [Hc Hd].
           cbn [encode] in H. destruct v; try discriminate.
           apply bind_ok in H as [body [_ H]]. apply ok_inj in H as <-. apply peek_struct; auto. cbn [wf] in Hws. apply Hws.
        -- (* SCustom (Some t) f p *)
           destruct ty as [t |]; try contradiction. destruct Hao as [Hc Hd].
           cbn [encode] in H. destruct v; try discriminate. destruct (val && negb _); try discriminate.
           apply bind_ok in H as [body [_ H]]. apply ok_inj in H as <-. apply peek_struct; auto.
    + eapply IHr; eauto.
Qed.

Theorem roundtrip : forall s, wf s -> forall val d tot v b rest,
  good val s v -> encode val d s v = Ok b -> N.of_nat (length b) < W32 ->
  decode val tot s (b ++ rest) = Ok (canon val s v, length b).
Proof. intros s Hwf val d tot. exact (proj1 (proj1 roundtrip_all s) Hwf val tot d). Qed.

Corollary Roundtrip : forall s, wf s -> forall val v b,
  good val s v -> Encode val s v = Ok b -> N.of_nat (length b) < W32 ->
  Decode val s b = Ok (canon val s v, length b).
Proof.
  intros s Hwf val v b Hg He Hl. unfold Decode.
  pose proof (roundtrip s Hwf val true (length b) v b [] Hg He Hl) as H. rewrite app_nil_r in H. exact H.
Qed.

(* non-vacuity: a schema with a map, an auto-sorted slice, an optional and an interface satisfies the guards *)
Definition ex_schema : schema :=
  SStruct (Some (TC8 7))
    (FCons FPlain (SMap L8 (mkAR 0 0 false false false false [] false) (SInt false W2) (SString L16 0 0))
    (FCons FOpt (SPtr (SStruct None (FCons FPlain SBool FNil)))
    (FCons FPlain (SSlice L32 (mkAR 0 3 true true false false [] true) (SInt true W1))
    (FCons FPlain (SIface Den8 (ACons 1 (SPtr (SStruct (Some (TC8 1)) (FCons FPlain SU256 FNil))) ANil)) FNil)))).
Definition ex_value : value :=
  VL [VMap [(VInt 2, VBytes []); (VInt 513, VBytes [104; 105])]; VL [VBool true]; VL [VInt (-1); VInt 5];
      VIface 1 (VL [VBig 258])].

Example roundtrip_nonvacuous :
  wf ex_schema /\ good true ex_schema ex_value /\
  exists b, Encode true ex_schema ex_value = Ok b /\ N.of_nat (length b) < W32 /\
            Decode true ex_schema b = Ok (canon true ex_schema ex_value, length b) /\ canon true ex_schema ex_value <> ex_value.
Proof.
  split; [| split].
  - cbn. unfold W32. repeat split; auto; lia.
  - cbn. repeat (first [exact I | apply Forall_nil | apply Forall_cons | split]); try (vm_compute; discriminate).
    intros done x todo H y Hy.
    match type of H with ?L = _ => let v := eval vm_compute in L in change L with v in H end.
    destruct done as [| d0 [| d1 done]]; simpl in H.
    + destruct Hy.
    + injection H as <- <- <-. destruct Hy as [<- | []]. vm_compute. reflexivity.
    + injection H as _ _ H. destruct done; discriminate.
  - eexists. split; [vm_compute; reflexivity |]. split; [vm_compute; reflexivity |]. split; [vm_compute; reflexivity |].
    vm_compute. discriminate.
Qed.

(* The format cannot tell a present optional value with an empty encoding from an absent one. *)
Example refuted_optional_zero_size :
  let s := SStruct None (FCons FOpt (SPtr (SStruct None FNil)) FNil) in
  let v := VL [VL []] in
  Encode true s v = Ok [0; 0; 0; 0] /\ Decode true s [0; 0; 0; 0] = Ok (VL [VNil], 4%nat) /\ VL [VNil] <> v.
Proof. repeat split; try (vm_compute; reflexivity). discriminate. Qed.

(* Regression for fix a52b77b (was finding zero-size-element-roundtrip-decode-fails): duplicates of zero-size elements
   under the lexical-order + no-duplicates rules are rejected by the validating encoder, as they are by the decoder
   (before the fix Encode produced [2], which Decode rejects with EDup); without validation the value still round-trips
   through the iteration count alone. *)
Example fixed_zero_size_duplicates :
  let s := SSlice L8 (mkAR 0 0 true true false false [] false) (SStruct None FNil) in
  let v := VL [VL []; VL []] in
  Encode true s v = Err EDup /\ Decode true s [2] = Err EDup /\
  Encode false s v = Ok [2] /\ Decode false s [2] = Ok (v, 1%nat).
Proof. repeat split; vm_compute; reflexivity. Qed.
