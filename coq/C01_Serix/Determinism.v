(* C01 determinism: Go map iteration order is an arbitrary permutation of the entries; the bytes do not depend on it. *)
From Coq Require Import List NArith ZArith Bool Lia Permutation.
From Verif.C01_Serix Require Import Model Bound SortLex.
Import ListNotations.
Open Scope N_scope.

Theorem enc_seq_perm : forall val l r d1 d2 b, ar_autosort r = true -> ar_lex r = true ->
  Permutation d1 d2 -> enc_seq val l r d1 = Ok b -> enc_seq val l r d2 = Ok b.
Proof.
  intros val l r d1 d2 b Ha Hl P H. unfold enc_seq in *. rewrite Ha, Hl in *. cbn [andb] in *.
  rewrite <- (Permutation_length P), <- (sortb_perm _ _ P). exact H.
Qed.

Theorem encode_map_perm : forall val d l r k ve m1 m2 b, Permutation m1 m2 ->
  encode val d (SMap l r k ve) (VMap m1) = Ok b -> encode val d (SMap l r k ve) (VMap m2) = Ok b.
Proof.
  intros val d l r k ve m1 m2 b P H. cbn [encode] in *.
  rewrite <- (Permutation_length P). inv_bind H. rewrite Hb. cbn [bind]. inv_bind Hk.
  destruct (mapM_perm _ _ _ _ P Hb0) as [d2 [E P2]]. rewrite E. cbn [bind].
  eapply enc_seq_perm; eauto.
Qed.

(* an auto-sorted slice (lexicalOrdering setting + lexical array rule) is insensitive to the element order too *)
Theorem encode_sorted_slice_perm : forall d l r e vs1 vs2 b,
  ar_autosort r = true -> ar_lex r = true -> ar_must r = [] -> Permutation vs1 vs2 ->
  encode false d (SSlice l r e) (VL vs1) = Ok b -> encode false d (SSlice l r e) (VL vs2) = Ok b.
Proof.
  intros d l r e vs1 vs2 b Ha Hl Hm P H. cbn [encode andb bind] in *.
  inv_bind H. destruct (mapM_perm _ _ _ _ P Hb) as [d2 [E P2]]. rewrite E. cbn [bind].
  eapply enc_seq_perm; eauto.
Qed.

Example deterministic_nonvacuous :
  encode true true (SMap L8 (mkAR 0 0 false false false false [] false) (SInt false W1) SBool)
         (VMap [(VInt 2, VBool true); (VInt 1, VBool false)]) = Ok [2; 1; 0; 2; 1]
  /\ encode true true (SMap L8 (mkAR 0 0 false false false false [] false) (SInt false W1) SBool)
         (VMap [(VInt 1, VBool false); (VInt 2, VBool true)]) = Ok [2; 1; 0; 2; 1].
Proof. split; vm_compute; reflexivity. Qed.
