(* Byte-lexical order and the insertion sort of the model: total order facts, sortedness, and
   "the sort of a permutation is the same list" (determinism under Go map iteration order). *)
From Coq Require Import List NArith Bool Lia Permutation Sorting.Sorted.
From Verif.C01_Serix Require Import Model.
Import ListNotations.
Open Scope N_scope.

Lemma bcmp_refl : forall a, bcmp a a = Eq.
Proof. induction a; simpl; auto. rewrite N.compare_refl. auto. Qed.

Lemma bcmp_eq : forall a b, bcmp a b = Eq -> a = b.
Proof.
  induction a as [| x a IH]; destruct b as [| y b]; simpl; intros H; try discriminate; auto.
  destruct (N.compare x y) eqn:E; try discriminate. apply N.compare_eq in E. f_equal; auto.
Qed.

Lemma bcmp_antisym : forall a b, bcmp b a = CompOpp (bcmp a b).
Proof.
  induction a as [| x a IH]; destruct b as [| y b]; simpl; auto.
  rewrite (N.compare_antisym x y). destruct (N.compare x y); simpl; auto.
Qed.

Lemma bcmp_lt_trans : forall a b c, bcmp a b = Lt -> bcmp b c = Lt -> bcmp a c = Lt.
Proof.
  induction a as [| x a IH]; destruct b as [| y b]; destruct c as [| z c]; simpl; intros H1 H2; try discriminate; auto.
  destruct (N.compare x y) eqn:E1; try discriminate.
  - apply N.compare_eq in E1; subst. destruct (N.compare y z); try discriminate; eauto.
  - destruct (N.compare y z) eqn:E2; try discriminate.
    + apply N.compare_eq in E2; subst. rewrite E1; auto.
    + rewrite N.compare_lt_iff in *. assert (x < z) by lia. apply N.compare_lt_iff in H. rewrite H; auto.
Qed.

Lemma bleb_refl : forall a, bleb a a = true.
Proof. intros; unfold bleb; rewrite bcmp_refl; auto. Qed.

Lemma bleb_total : forall a b, bleb a b = false -> bleb b a = true.
Proof. unfold bleb; intros a b H. rewrite bcmp_antisym. destruct (bcmp a b); simpl; auto; discriminate. Qed.

Lemma bleb_antisym : forall a b, bleb a b = true -> bleb b a = true -> a = b.
Proof.
  unfold bleb; intros a b H1 H2. rewrite (bcmp_antisym a b) in H2.
  destruct (bcmp a b) eqn:E; simpl in *; try discriminate. apply bcmp_eq; auto.
Qed.

Lemma bleb_trans : forall a b c, bleb a b = true -> bleb b c = true -> bleb a c = true.
Proof.
  unfold bleb; intros a b c H1 H2.
  destruct (bcmp a b) eqn:E1; try discriminate.
  - apply bcmp_eq in E1; subst; auto.
  - destruct (bcmp b c) eqn:E2; try discriminate.
    + apply bcmp_eq in E2; subst. rewrite E1; auto.
    + rewrite (bcmp_lt_trans _ _ _ E1 E2); auto.
Qed.

Lemma beqb_true : forall a b, beqb a b = true -> a = b.
Proof. unfold beqb; intros a b H. destruct (bcmp a b) eqn:E; try discriminate. apply bcmp_eq; auto. Qed.

Lemma beqb_refl : forall a, beqb a a = true.
Proof. intros; unfold beqb; rewrite bcmp_refl; auto. Qed.

Section SortOn.
  Context {A : Type} (key : A -> bytes).
  Definition le_on (x y : A) : Prop := bleb (key x) (key y) = true.

  Lemma insert_on_perm : forall x l, Permutation (insert_on key x l) (x :: l).
  Proof.
    induction l as [| y r IH]; simpl; auto.
    destruct (bleb (key x) (key y)); auto.
    eapply perm_trans; [apply perm_skip; exact IH | apply perm_swap].
  Qed.

  Lemma sort_on_perm : forall l, Permutation (sort_on key l) l.
  Proof.
    induction l as [| x l IH]; simpl; auto.
    eapply perm_trans; [apply insert_on_perm | apply perm_skip; exact IH].
  Qed.

  Lemma insert_on_sorted : forall x l, StronglySorted le_on l -> StronglySorted le_on (insert_on key x l).
  Proof.
    induction l as [| y r IH]; intros Hs; simpl.
    - constructor; constructor.
    - destruct (bleb (key x) (key y)) eqn:E.
      + constructor; auto. constructor; auto.
        inversion Hs; subst. eapply Forall_impl; [| exact H2]. intros z Hz. unfold le_on in *. eapply bleb_trans; eauto.
      + inversion Hs; subst. constructor; auto.
        assert (Hp := insert_on_perm x r).
        apply (Permutation_Forall (Permutation_sym Hp)). constructor; auto.
        unfold le_on. apply bleb_total; auto.
  Qed.

  Lemma sort_on_sorted : forall l, StronglySorted le_on (sort_on key l).
  Proof. induction l; simpl; [constructor | apply insert_on_sorted; auto]. Qed.

  Lemma sort_on_length : forall l, length (sort_on key l) = length l.
  Proof. intros. apply Permutation_length, sort_on_perm. Qed.

  (* inserting into / sorting an already sorted list changes nothing *)
  Lemma insert_on_sorted_id : forall x l, StronglySorted le_on (x :: l) -> insert_on key x l = x :: l.
  Proof.
    intros x [| y r] H; simpl; auto. inversion H; subst. inversion H3; subst. unfold le_on in H4. rewrite H4; auto.
  Qed.

  Lemma sort_on_sorted_id : forall l, StronglySorted le_on l -> sort_on key l = l.
  Proof.
    induction l as [| x l IH]; intros H; simpl; auto.
    inversion H; subst. rewrite IH by assumption. apply insert_on_sorted_id; auto.
  Qed.

  Lemma map_key_insert_on : forall x l,
    map key (insert_on key x l) = insert_on (fun b => b) (key x) (map key l).
  Proof. induction l as [| y r IH]; simpl; auto. destruct (bleb (key x) (key y)); simpl; congruence. Qed.

  Lemma map_key_sort_on : forall l, map key (sort_on key l) = sortb (map key l).
  Proof.
    induction l as [| x l IH]; simpl; auto. rewrite map_key_insert_on, IH. reflexivity.
  Qed.
End SortOn.

Lemma sorted_perm_eq : forall l1 l2 : list bytes,
  StronglySorted (le_on (fun b => b)) l1 -> StronglySorted (le_on (fun b => b)) l2 ->
  Permutation l1 l2 -> l1 = l2.
Proof.
  induction l1 as [| a l1 IH]; intros l2 H1 H2 Hp.
  - apply Permutation_nil in Hp; auto.
  - destruct l2 as [| b l2]; [apply Permutation_sym, Permutation_nil in Hp; discriminate |].
    inversion H1; subst. inversion H2; subst.
    assert (a = b).
    { assert (Ha : In a (b :: l2)) by (eapply Permutation_in; [exact Hp | left; auto]).
      assert (Hb : In b (a :: l1)) by (eapply Permutation_in; [exact (Permutation_sym Hp) | left; auto]).
      destruct Ha as [-> | Ha]; auto. destruct Hb as [-> | Hb]; auto.
      rewrite Forall_forall in H4, H6. apply bleb_antisym; [apply (H4 _ Hb) | apply (H6 _ Ha)]. }
    subst. f_equal. apply IH; auto. eapply Permutation_cons_inv; eauto.
Qed.

Theorem sortb_perm : forall l1 l2 : list bytes, Permutation l1 l2 -> sortb l1 = sortb l2.
Proof.
  intros l1 l2 Hp. apply sorted_perm_eq; try apply sort_on_sorted.
  eapply perm_trans; [apply sort_on_perm |]. eapply perm_trans; [exact Hp |]. apply Permutation_sym, sort_on_perm.
Qed.

(* mapM over a permuted list: same successes, permuted results *)
Lemma mapM_perm : forall {A B} (f : A -> res B) l1 l2 d1,
  Permutation l1 l2 -> mapM f l1 = Ok d1 -> exists d2, mapM f l2 = Ok d2 /\ Permutation d1 d2.
Proof.
  intros A B f l1 l2 d1 Hp. revert d1. induction Hp; intros d1 H.
  - simpl in *. inversion H; subst. exists []; auto.
  - simpl in *. destruct (f x) eqn:E; simpl in *; try discriminate.
    destruct (mapM f l) eqn:E2; simpl in *; try discriminate. inversion H; subst.
    destruct (IHHp _ eq_refl) as [d2 [H2 P2]]. rewrite H2. simpl. eexists; split; eauto.
  - simpl in *. destruct (f y) eqn:E1; simpl in *; try discriminate.
    destruct (f x) eqn:E2; simpl in *; try discriminate.
    destruct (mapM f l) eqn:E3; simpl in *; try discriminate. inversion H; subst.
    eexists; split; eauto. apply perm_swap.
  - destruct (IHHp1 _ H) as [d2 [H2 P2]]. destruct (IHHp2 _ H2) as [d3 [H3 P3]].
    exists d3; split; auto. eapply perm_trans; eauto.
Qed.
