(* C02 for the model's decode: no outcome is Panic and the consumed count never exceeds the supplied bytes,
   for ALL schemas, validation modes and byte strings (mutual structural induction on the schema). *)
From Coq Require Import List NArith ZArith Bool Lia PeanoNat.
From Verif.C01_Serix Require Import Model.
Import ListNotations.
Open Scope N_scope.

Scheme schema_mut := Induction for schema Sort Prop
  with fields_mut := Induction for fields Sort Prop
  with alts_mut := Induction for alts Sort Prop.
Combined Scheme schema_fields_alts_ind from schema_mut, fields_mut, alts_mut.

(* ---------- monad inversion ---------- *)

Lemma bind_ok : forall {A B} (r : res A) (f : A -> res B) x,
  bind r f = Ok x -> exists a, r = Ok a /\ f a = Ok x.
Proof. intros A B [a | e |] f x H; simpl in H; try discriminate. eauto. Qed.

Lemma bind_not_panic : forall {A B} (r : res A) (f : A -> res B),
  r <> Panic -> (forall a, r = Ok a -> f a <> Panic) -> bind r f <> Panic.
Proof. intros A B [a | e |] f H1 H2; simpl; try congruence. apply H2; reflexivity. Qed.

Ltac inv_bind H :=
  let a := fresh "a" in let H1 := fresh "Hb" in let H2 := fresh "Hk" in
  apply bind_ok in H; destruct H as [a [H1 H2]].

(* ---------- primitives ---------- *)

Lemma take_ok : forall n b bs, take n b = Ok bs -> (n <= length b)%nat /\ bs = firstn n b.
Proof.
  unfold take; intros n b bs H. destruct (length b <? n)%nat eqn:E; try discriminate.
  apply Nat.ltb_ge in E. inversion H; auto.
Qed.

Lemma read_len_ok : forall l b x, read_len l b = Ok x ->
  (lpt_size l <= length b)%nat /\ x = le_dec (firstn (lpt_size l) b) /\ x <= lpt_max L64 \/ (lpt_size l <= length b)%nat /\ x = le_dec (firstn (lpt_size l) b) /\ l <> L64.
Proof.
  unfold read_len; intros l b x H. destruct (length b <? lpt_size l)%nat eqn:E; try discriminate.
  apply Nat.ltb_ge in E. destruct l; try (right; inversion H; repeat split; auto; discriminate).
  left. destruct (lpt_max L64 <? le_dec (firstn (lpt_size L64) b)) eqn:E2; try discriminate.
  apply N.ltb_ge in E2. inversion H; subst; auto.
Qed.

Lemma read_len_size : forall l b x, read_len l b = Ok x -> (lpt_size l <= length b)%nat.
Proof. intros l b x H. apply read_len_ok in H. destruct H as [[? _] | [? _]]; assumption. Qed.

Lemma read_len_np : forall l b, read_len l b <> Panic.
Proof. unfold read_len; intros. destruct (length b <? lpt_size l)%nat; try discriminate. destruct l; try discriminate.
  destruct (_ <? _); discriminate. Qed.

Lemma check_code_ok : forall ty b c, check_code ty b = Ok c -> (c <= length b)%nat /\ c = length (code_bytes ty).
Proof.
  unfold check_code, code_bytes; intros [t |] b c H.
  - destruct (length b <? code_size t)%nat eqn:E; try discriminate. apply Nat.ltb_ge in E.
    destruct (_ =? _); try discriminate. inversion H; subst. split; auto.
    clear. generalize (code_val t). induction (code_size t); simpl; intros; auto.
  - inversion H; simpl; split; auto; lia.
Qed.

Lemma check_code_np : forall ty b, check_code ty b <> Panic.
Proof. unfold check_code; intros [t |] b; try discriminate. destruct (_ <? _)%nat; try discriminate. destruct (_ =? _); discriminate. Qed.

Lemma custom_dec_np : forall f b, custom_dec f b <> Panic.
Proof.
  intros [n |] b; unfold custom_dec.
  - apply bind_not_panic; [unfold take; destruct (_ <? _)%nat; discriminate | intros; discriminate].
  - destruct b as [| l r]; [discriminate |].
    apply bind_not_panic; [unfold take; destruct (_ <? _)%nat; discriminate | intros; discriminate].
Qed.

Lemma custom_dec_ok : forall f b bs n, custom_dec f b = Ok (bs, n) -> (n <= length b)%nat.
Proof.
  intros [m |] b bs n H; unfold custom_dec in H.
  - apply bind_ok in H as [x [Ht H]]. apply take_ok in Ht as [Hl _]. inversion H; subst. assumption.
  - destruct b as [| l r]; [discriminate |]. apply bind_ok in H as [x [Ht H]]. apply take_ok in Ht as [Hl _].
    inversion H; subst. simpl. lia.
Qed.

Lemma check_bounds_np : forall a b c, check_bounds a b c <> Panic.
Proof. unfold check_bounds; intros. destruct (_ && _); try discriminate. destruct (_ && _); discriminate. Qed.

Lemma check_len_maxmin_np : forall a b c, check_len_maxmin a b c <> Panic.
Proof. unfold check_len_maxmin; intros. destruct (_ && _); try discriminate. destruct (_ && _); discriminate. Qed.

Lemma validate_np : forall r st e, validate r st e <> Panic.
Proof.
  intros. unfold validate.
  apply bind_not_panic. { destruct (_ && _); [destruct (existsb _ _) |]; discriminate. }
  intros st1 _. apply bind_not_panic.
  { destruct (ar_lex r); [| discriminate]. destruct (vs_prev st1); [| discriminate].
    destruct (bcmp _ _); try discriminate. destruct (ar_nodup r); discriminate. }
  intros st2 _. apply bind_not_panic.
  { destruct (ar_one8 r); [| discriminate]. destruct e; [discriminate |]. destruct (existsb _ _); discriminate. }
  intros st3 _. destruct (ar_one32 r); [| discriminate]. destruct (_ <? _)%nat; [discriminate |].
  destruct (existsb _ _); discriminate.
Qed.

Lemma check_must_np : forall r e vs, check_must r e vs <> Panic.
Proof.
  intros. unfold check_must. destruct (ar_must r) as [| c must]; try discriminate.
  generalize (@nil N). induction vs as [| v vs IH]; intros seen.
  - destruct (forallb _ _); discriminate.
  - destruct (elem_code e v); try discriminate. apply IH.
Qed.

(* ---------- the sequence loop ---------- *)

Section LoopFacts.
  Context {A : Type} (item : A -> bytes -> res (A * nat)) (val : bool) (r : arules).

  Lemma seq_loop_bound : forall fuel st acc b a m,
    seq_loop item val r fuel st acc b = Ok (a, m) -> (m <= length b)%nat.
  Proof.
    induction fuel as [| k IH]; intros st acc b a m H; simpl in H.
    - inversion H; lia.
    - inv_bind H. destruct a0 as [acc' n].
      destruct (length b <? n)%nat eqn:E; try discriminate. apply Nat.ltb_ge in E.
      inv_bind Hk. inv_bind Hk0. destruct a1 as [a2 m2]. inversion Hk; subst.
      apply IH in Hb1. rewrite skipn_length in Hb1. lia.
  Qed.

  Lemma seq_loop_np : (forall acc b, item acc b <> Panic) ->
    (forall acc b a n, item acc b = Ok (a, n) -> (n <= length b)%nat) ->
    forall fuel st acc b, seq_loop item val r fuel st acc b <> Panic.
  Proof.
    intros Hnp Hbd. induction fuel as [| k IH]; intros st acc b; simpl; try discriminate.
    apply bind_not_panic; [apply Hnp |]. intros [acc' n] Hi.
    apply Hbd in Hi. destruct (length b <? n)%nat eqn:E; [apply Nat.ltb_lt in E; lia |].
    apply bind_not_panic.
    - destruct (val && has_validator r); [apply validate_np | discriminate].
    - intros st' _. apply bind_not_panic; [apply IH |]. intros [a m] _. discriminate.
  Qed.

  Lemma dec_seq_bound : forall l zs tot init b a n,
    dec_seq item val l r zs tot init b = Ok (a, n) -> (n <= length b)%nat.
  Proof.
    unfold dec_seq; intros l zs tot init b a n H.
    inv_bind H. apply read_len_size in Hb. inv_bind Hk.
    destruct (seq_fuel _ _ _ _); try discriminate.
    inv_bind Hk0. destruct a2 as [a3 m]. inversion Hk; subst.
    apply seq_loop_bound in Hb1. rewrite skipn_length in Hb1. lia.
  Qed.

  Lemma dec_seq_np : (forall acc b, item acc b <> Panic) ->
    (forall acc b a n, item acc b = Ok (a, n) -> (n <= length b)%nat) ->
    forall l zs tot init b, dec_seq item val l r zs tot init b <> Panic.
  Proof.
    intros Hnp Hbd l zs tot init b. unfold dec_seq.
    apply bind_not_panic; [apply read_len_np |]. intros cnt _.
    apply bind_not_panic; [destruct val; [apply check_bounds_np | discriminate] |]. intros _ _.
    destruct (seq_fuel _ _ _ _); try discriminate.
    apply bind_not_panic; [apply seq_loop_np; assumption |]. intros [a m] _. discriminate.
  Qed.
End LoopFacts.

(* ---------- the main mutual induction ---------- *)

Definition Bs (s : schema) : Prop :=
  forall val tot b, decode val tot s b <> Panic /\ (forall v n, decode val tot s b = Ok (v, n) -> (n <= length b)%nat).
Definition Bf (fs : fields) : Prop :=
  forall val tot b,
    (decode_fields val tot fs b <> Panic /\ (forall vs n, decode_fields val tot fs b = Ok (vs, n) -> (n <= length b)%nat))
    /\ decode_fields_dead val tot fs b <> Panic.
Definition Ba (al : alts) : Prop :=
  forall val tot c b, decode_alt val tot c al b <> Panic /\ (forall v n, decode_alt val tot c al b = Ok (v, n) -> (n <= length b)%nat).

Definition Ps (s : schema) : Prop := Bs s /\ match s with SStruct _ fs => Bf fs | _ => True end.

Lemma elem_item_np : forall val tot e, Bs e ->
  forall (acc : list value) b, (let* (v, m) := decode val tot e b in Ok (v :: acc, m)) <> Panic.
Proof. intros val tot e H acc b. apply bind_not_panic; [apply H |]. intros [v m] _. discriminate. Qed.

Lemma elem_item_bd : forall val tot e, Bs e ->
  forall (acc : list value) b a n, (let* (v, m) := decode val tot e b in Ok (v :: acc, m)) = Ok (a, n) -> (n <= length b)%nat.
Proof.
  intros val tot e H acc b a n H0. inv_bind H0. destruct a0 as [v m]. inversion Hk; subst.
  eapply H; eauto.
Qed.

Lemma bound_all :
  (forall s, Ps s) /\ (forall fs, Bf fs) /\ (forall al, Ba al).
Proof.
  apply schema_fields_alts_ind; unfold Ps.
  - (* SBool *) split; [| exact I]. intros val tot b; split.
    + simpl. destruct b as [| [| p] ?]; try discriminate. destruct p; discriminate.
    + intros v n H. simpl in H. destruct b as [| [| p] ?]; try discriminate; [inversion H; simpl; lia |].
      destruct p; try discriminate. inversion H; simpl; lia.
  - (* SInt *) intros sg w. split; [| exact I]. intros val tot b; split.
    + simpl. unfold take. destruct (_ <? _)%nat; discriminate.
    + intros v n H. simpl in H. inv_bind H. apply take_ok in Hb. inversion Hk; subst. tauto.
  - (* SString *) intros l mn mx. split; [| exact I]. intros val tot b; split.
    + simpl. apply bind_not_panic; [apply read_len_np |]. intros len _.
      apply bind_not_panic; [destruct val; [apply check_len_maxmin_np | discriminate] |]. intros _ _.
      destruct (_ <? len); try discriminate. destruct (val && _); discriminate.
    + intros v n H. simpl in H. inv_bind H. apply read_len_size in Hb. inv_bind Hk.
      destruct (N.of_nat (length (skipn (lpt_size l) b)) <? a) eqn:E; try discriminate.
      apply N.ltb_ge in E. rewrite skipn_length in E.
      destruct (val && _); try discriminate. inversion Hk0; subst. lia.
  - (* SBytes *) intros l mn mx. split; [| exact I]. intros val tot b; split.
    + simpl. apply bind_not_panic; [apply read_len_np |]. intros len _.
      apply bind_not_panic; [apply check_len_maxmin_np |]. intros _ _.
      destruct (_ <? len); discriminate.
    + intros v n H. simpl in H. inv_bind H. apply read_len_size in Hb. inv_bind Hk.
      destruct (N.of_nat (length (skipn (lpt_size l) b)) <? a) eqn:E; try discriminate.
      apply N.ltb_ge in E. rewrite skipn_length in E. inversion Hk0; subst. lia.
  - (* SByteArr *) intros n ty. split; [| exact I]. intros val tot b; split.
    + simpl. apply bind_not_panic; [apply check_code_np |]. intros c _.
      apply bind_not_panic; [unfold take; destruct (_ <? _)%nat; discriminate |]. intros; discriminate.
    + intros v m H. simpl in H. inv_bind H. apply check_code_ok in Hb. inv_bind Hk. apply take_ok in Hb0.
      rewrite skipn_length in Hb0. inversion Hk0; subst. lia.
  - (* SU256 *) split; [| exact I]. intros val tot b; split.
    + simpl. unfold take. destruct (_ <? _)%nat; discriminate.
    + intros v n H. simpl in H. inv_bind H. apply take_ok in Hb. inversion Hk; subst. tauto.
  - (* STime *) split; [| exact I]. intros val tot b; split.
    + simpl. unfold take. destruct (_ <? _)%nat; discriminate.
    + intros v n H. simpl in H. inv_bind H. apply take_ok in Hb. inversion Hk; subst. tauto.
  - (* SPtr *) intros s [IH _]. split; [| exact I]. intros val tot b. simpl. apply IH.
  - (* SStruct *) intros ty fs IH. split; [| exact IH]. intros val tot b; split.
    + simpl. destruct (check_code ty b) eqn:E.
      * apply bind_not_panic; [apply IH |]. intros [vs n] _. discriminate.
      * apply bind_not_panic; [apply IH |]. intros; discriminate.
      * apply check_code_np in E; contradiction.
    + intros v n H. simpl in H. destruct (check_code ty b) eqn:E.
      * apply check_code_ok in E. inv_bind H. destruct a0 as [vs m]. inversion Hk; subst.
        apply IH in Hb. rewrite skipn_length in Hb. lia.
      * inv_bind H. discriminate.
      * discriminate.
  - (* SSlice *) intros l r e [IH _]. split; [| exact I]. intros val tot b; split.
    + simpl. apply bind_not_panic.
      * apply dec_seq_np; [apply elem_item_np | apply elem_item_bd]; assumption.
      * intros [acc n] _. apply bind_not_panic; [destruct val; [apply check_must_np | discriminate] |]. intros; discriminate.
    + intros v n H. simpl in H. inv_bind H. destruct a as [acc m]. apply dec_seq_bound in Hb.
      inv_bind Hk. inversion Hk0; subst. exact Hb.
  - (* SArr *) intros cnt l r e [IH _]. split; [| exact I]. intros val tot b; split.
    + simpl. apply bind_not_panic.
      * apply dec_seq_np; [apply elem_item_np | apply elem_item_bd]; assumption.
      * intros [acc n] _. apply bind_not_panic; [destruct val; [apply check_must_np | discriminate] |].
        intros _ _. destruct (Nat.eqb _ _); discriminate.
    + intros v n H. simpl in H. inv_bind H. destruct a as [acc m]. apply dec_seq_bound in Hb.
      inv_bind Hk. destruct (Nat.eqb _ _); try discriminate. inversion Hk0; subst. exact Hb.
  - (* SMap *) intros l r k [IHk _] ve [IHv _]. split; [| exact I].
    assert (Hbd : forall val tot (acc : list (value * value)) b a n,
      (let* (kv, kn) := decode val tot k b in
       if (length b <? kn)%nat then Panic else
       let* (vv, vn) := decode val tot ve (skipn kn b) in
       if existsb (fun e => key_eqb kv (fst e)) acc then Err EDupKey
       else Ok ((kv, vv) :: acc, (kn + vn)%nat)) = Ok (a, n) -> (n <= length b)%nat).
    { intros val tot acc b a n H. inv_bind H. destruct a0 as [kv kn].
      destruct (length b <? kn)%nat eqn:E; try discriminate. apply Nat.ltb_ge in E.
      inv_bind Hk. destruct a0 as [vv vn]. destruct (existsb _ _); try discriminate.
      inversion Hk0; subst. apply IHv in Hb0. rewrite skipn_length in Hb0. lia. }
    assert (Hnp : forall val tot (acc : list (value * value)) b,
      (let* (kv, kn) := decode val tot k b in
       if (length b <? kn)%nat then Panic else
       let* (vv, vn) := decode val tot ve (skipn kn b) in
       if existsb (fun e => key_eqb kv (fst e)) acc then Err EDupKey
       else Ok ((kv, vv) :: acc, (kn + vn)%nat)) <> Panic).
    { intros val tot acc b. apply bind_not_panic; [apply IHk |]. intros [kv kn] Hd.
      apply IHk in Hd. destruct (length b <? kn)%nat eqn:E; [apply Nat.ltb_lt in E; lia |].
      apply bind_not_panic; [apply IHv |]. intros [vv vn] _. destruct (existsb _ _); discriminate. }
    intros val tot b; split.
    + simpl. apply bind_not_panic.
      * apply dec_seq_np; [apply Hnp | apply Hbd].
      * intros [acc n] _. discriminate.
    + intros v n H. simpl in H. inv_bind H. destruct a as [acc m]. apply dec_seq_bound in Hb.
      inversion Hk; subst. exact Hb.
  - (* SIface *) intros d al IH. split; [| exact I]. intros val tot b; split.
    + simpl. apply bind_not_panic.
      * unfold peek_code. destruct d; [destruct b; discriminate | destruct (_ <? _)%nat; discriminate].
      * intros c _. apply bind_not_panic; [apply IH |]. intros [v n] _. discriminate.
    + intros v n H. simpl in H. inv_bind H. inv_bind Hk. destruct a0 as [v' n']. inversion Hk0; subst.
      eapply IH; eauto.
  - (* SCustom *) intros ty f p. split; [| exact I]. intros val tot b; split.
    + simpl. apply bind_not_panic; [apply check_code_np |]. intros c _.
      apply bind_not_panic; [apply custom_dec_np |]. intros [bs n] _. destruct (val && negb _); discriminate.
    + intros v m H. simpl in H. inv_bind H. apply check_code_ok in Hb. inv_bind Hk. destruct a0 as [bs n].
      apply custom_dec_ok in Hb0. rewrite skipn_length in Hb0.
      destruct (val && negb _); try discriminate. inversion Hk0; subst. lia.
  - (* FNil *) intros val tot b. simpl. repeat split; try discriminate. intros vs n H; inversion H; lia.
  - (* FCons *) intros k s [IHs IHemb] r IHr val tot b.
    (* facts about the field-value step *)
    set (step := match k with
         | FPlain => decode val tot s b
         | FOpt =>
             if (length b <? 4)%nat then Err ENotEnough else
             let len := le_dec (firstn 4 b) in
             if len =? 0 then Ok (VNil, 4%nat) else
             let* (v, n) := decode val tot s (skipn 4 b) in
             if negb (N.of_nat n =? len) then Err EOther else Ok (v, (4 + n)%nat)
         | FEmb | FEmbPtr =>
             match s with
             | SStruct _ fs' => let* (vs, n) := decode_fields val tot fs' b in Ok (VL vs, n)
             | _ => Err EOther
             end
         end).
    assert (Hstep_np : step <> Panic).
    { unfold step. destruct k.
      - apply IHs.
      - destruct (length b <? 4)%nat; try discriminate. destruct (_ =? 0); try discriminate.
        apply bind_not_panic; [apply IHs |]. intros [v n] _. destruct (negb _); discriminate.
      - destruct s; try discriminate. apply bind_not_panic; [apply IHemb |]. intros [vs n] _; discriminate.
      - destruct s; try discriminate. apply bind_not_panic; [apply IHemb |]. intros [vs n] _; discriminate. }
    assert (Hstep_bd : forall v n, step = Ok (v, n) -> (n <= length b)%nat).
    { unfold step. intros v n H. destruct k.
      - eapply IHs; eauto.
      - destruct (length b <? 4)%nat eqn:E; try discriminate. apply Nat.ltb_ge in E.
        destruct (_ =? 0); [inversion H; subst; lia |].
        inv_bind H. destruct a as [v' n']. destruct (negb _); try discriminate. inversion Hk; subst.
        apply IHs in Hb. rewrite skipn_length in Hb. lia.
      - destruct s; try discriminate. inv_bind H. destruct a as [vs n']. inversion Hk; subst. eapply IHemb; eauto.
      - destruct s; try discriminate. inv_bind H. destruct a as [vs n']. inversion Hk; subst. eapply IHemb; eauto. }
    split; [split |].
    + cbn [decode_fields]. fold step. apply bind_not_panic; [exact Hstep_np |]. intros [v n] Hs.
      destruct (length b <? n)%nat; try discriminate.
      apply bind_not_panic; [apply IHr |]. intros [vs m] _. discriminate.
    + intros vs n H. cbn [decode_fields] in H. fold step in H. inv_bind H. destruct a as [v n1].
      apply Hstep_bd in Hb. destruct (length b <? n1)%nat; try discriminate.
      inv_bind Hk. destruct a as [vs' m]. inversion Hk0; subst. apply IHr in Hb0. rewrite skipn_length in Hb0. lia.
    + cbn [decode_fields_dead]. apply bind_not_panic.
      * destruct k.
        -- apply bind_not_panic; [apply IHs |]. intros [v n] _; discriminate.
        -- destruct (length b <? 4)%nat; try discriminate. destruct (_ =? 0); try discriminate.
           apply bind_not_panic; [apply IHs |]. intros [v n] _. destruct (negb _); discriminate.
        -- destruct s; try discriminate. apply IHemb.
        -- destruct s; try discriminate. apply IHemb.
      * intros adv _. apply bind_not_panic; [apply IHr |]. intros; discriminate.
  - (* ANil *) intros val tot c b. simpl. split; [discriminate | intros; discriminate].
  - (* ACons *) intros c' s [IHs _] r IHr val tot c b. simpl. destruct (c =? c'); [apply IHs | apply IHr].
Qed.

Theorem decode_no_panic : forall val tot s b, decode val tot s b <> Panic.
Proof. intros. apply (proj1 bound_all). Qed.

Theorem decode_consumed : forall val tot s b v n, decode val tot s b = Ok (v, n) -> (n <= length b)%nat.
Proof. intros val tot s b v n H. eapply (proj1 bound_all); eauto. Qed.

Theorem Decode_no_panic : forall val s b, Decode val s b <> Panic.
Proof. intros. apply decode_no_panic. Qed.

Theorem Decode_consumed : forall val s b v n, Decode val s b = Ok (v, n) -> (n <= length b)%nat.
Proof. intros val s b v n H. eapply decode_consumed; eauto. Qed.

(* The two branches of the model that stand for Go run-time failures behind an over-long consumed count
   (slice bounds out of range in decodeMapKVPair / ReadSequenceOfObjects, the failing Skip in decodeStructFields)
   are therefore unreachable; the field decoders below never report the Skip error either. *)

(* Iteration bound of the loop of ReadSequenceOfObjects when elements need at least one byte. *)
Lemma seq_iterations : forall cnt len tot fuel,
  seq_fuel false cnt len tot = Some fuel -> (fuel <= len + 1)%nat.
Proof. intros cnt len tot fuel H. unfold seq_fuel in H. injection H as <-. lia. Qed.

(* Finding D02d in the model: with zero-size elements the count alone drives the loop (whatever the remaining
   input length [len]); beyond |input|+1 iterations the model gives up with EUnbounded. *)
Lemma refuted_zero_size_iterations :
  (forall cnt len tot, cnt <= N.of_nat tot + 1 -> seq_fuel true cnt len tot = Some (N.to_nat cnt)) /\
  zero_size (SStruct None FNil) = true /\
  Decode false (SSlice L16 (mkAR 0 0 false false false false [] false) (SStruct None FNil)) [255; 255] = Err EUnbounded.
Proof.
  split; [| split; vm_compute; reflexivity].
  intros cnt len tot H. unfold seq_fuel. apply N.leb_le in H. rewrite H. reflexivity.
Qed.
