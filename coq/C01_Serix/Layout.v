(* C03 layout lemmas: the reference encoder [encode] produces the documented wire layout. Each lemma pins one
   production of the format independently of any round trip. *)
From Coq Require Import List NArith ZArith Bool Lia.
From Verif.C01_Serix Require Import Model.
Import ListNotations.
Open Scope N_scope.

Lemma layout_bool : forall val d b, encode val d SBool (VBool b) = Ok [if b then 1 else 0].
Proof. reflexivity. Qed.

(* fixed-width numbers: little endian, two's complement (z mod 2^(8w)) *)
Lemma layout_int : forall val d sg w z,
  encode val d (SInt sg w) (VInt z) = Ok (le_enc (wbytes w) (Z.to_N (z mod wmod w))).
Proof. reflexivity. Qed.

Lemma le_enc_length : forall n x, length (le_enc n x) = n.
Proof. induction n; simpl; intros; auto. Qed.

Lemma layout_uint32_bytes : forall val d z, (0 <= z < 4294967296)%Z ->
  encode val d (SInt false W4) (VInt z) =
  Ok [Z.to_N z mod 256; Z.to_N z / 256 mod 256; Z.to_N z / 256 / 256 mod 256; Z.to_N z / 256 / 256 / 256 mod 256].
Proof.
  intros. cbn [encode]. unfold enc_int, wmod, wbytes. rewrite Z.mod_small by lia. reflexivity.
Qed.

(* uint256: 32 bytes little endian *)
Lemma layout_u256 : forall val d z, (0 <= z < U256)%Z -> encode val d SU256 (VBig z) = Ok (le_enc 32 (Z.to_N z)).
Proof.
  intros. cbn [encode]. replace (z <? 0)%Z with false by (symmetry; apply Z.ltb_ge; lia).
  replace (U256 <=? z)%Z with false by (symmetry; apply Z.leb_gt; lia). reflexivity.
Qed.

(* time: uint64 nanoseconds, little endian (inside the int64 range the stamp itself) *)
Lemma time_to_u64_id : forall ns, (0 <= ns <= MaxInt64)%Z -> time_to_u64 ns = ns.
Proof.
  intros ns H. unfold time_to_u64, wrap64, MaxInt64, MaxSec in *.
  rewrite (Z.mod_small ns) by lia.
  replace (9223372036854775807 <? ns)%Z with false by (symmetry; apply Z.ltb_ge; lia).
  assert (0 <= ns / 1000000000 <= 9223372036)%Z.
  { split. apply Z.div_pos; lia.
    pose proof (Z.div_le_mono ns 9223372036854775807 1000000000 ltac:(lia) ltac:(lia)) as Hd.
    change (9223372036854775807 / 1000000000)%Z with 9223372036%Z in Hd. exact Hd. }
  replace (9223372036 <? ns / 1000000000)%Z with false by (symmetry; apply Z.ltb_ge; lia).
  replace (ns / 1000000000 <? 0)%Z with false by (symmetry; apply Z.ltb_ge; lia).
  replace (ns <? 0)%Z with false by (symmetry; apply Z.ltb_ge; lia). reflexivity.
Qed.

Lemma layout_time : forall val d ns, (0 <= ns <= MaxInt64)%Z ->
  encode val d STime (VTime ns) = Ok (le_enc 8 (Z.to_N ns)).
Proof. intros. cbn [encode]. rewrite time_to_u64_id by assumption. reflexivity. Qed.

(* byte arrays: optional type code, then the bytes *)
Lemma layout_bytearr : forall val d n ty bs, length bs = n ->
  encode val d (SByteArr n ty) (VBytes bs) = Ok (code_bytes ty ++ bs).
Proof. intros. cbn [encode]. rewrite H, Nat.eqb_refl. reflexivity. Qed.

Lemma layout_code8 : forall c, code_bytes (Some (TC8 c)) = [c mod 256].
Proof. reflexivity. Qed.
Lemma layout_code32 : forall c,
  code_bytes (Some (TC32 c)) = [c mod 256; c / 256 mod 256; c / 256 / 256 mod 256; c / 256 / 256 / 256 mod 256].
Proof. reflexivity. Qed.

(* length prefix of the configured width, little endian *)
Lemma layout_prefix : forall l n, n <= lpt_max l -> write_len l n = Ok (le_enc (lpt_size l) n).
Proof.
  intros l n H. unfold write_len. destruct l; try reflexivity;
    (replace (_ <? n) with false by (symmetry; apply N.ltb_ge; exact H)); reflexivity.
Qed.

(* []byte: prefix then the bytes (no validation needed for the layout) *)
Lemma layout_bytes : forall d l bs, N.of_nat (length bs) <= lpt_max l ->
  encode false d (SBytes l 0 0) (VBytes bs) = Ok (le_enc (lpt_size l) (N.of_nat (length bs)) ++ bs).
Proof.
  intros. cbn [encode]. unfold check_len_maxmin. cbn [N.eqb negb andb bind].
  rewrite layout_prefix by assumption. reflexivity.
Qed.

Lemma layout_string : forall d l mn mx bs, N.of_nat (length bs) <= lpt_max l ->
  encode false d (SString l mn mx) (VBytes bs) = Ok (le_enc (lpt_size l) (N.of_nat (length bs)) ++ bs).
Proof. intros. cbn [encode bind]. rewrite layout_prefix by assumption. reflexivity. Qed.

(* struct: type code, then the fields in order *)
Lemma layout_struct : forall val d ty fs vs body,
  encode_fields val fs vs = Ok body -> encode val d (SStruct ty fs) (VL vs) = Ok (code_bytes ty ++ body).
Proof. intros. cbn [encode]. rewrite H. reflexivity. Qed.

Lemma layout_field_plain : forall val s r v vs fb rb,
  encode val true s v = Ok fb -> encode_fields val r vs = Ok rb ->
  encode_fields val (FCons FPlain s r) (v :: vs) = Ok (fb ++ rb).
Proof. intros. cbn [encode_fields]. rewrite H. cbn [bind]. rewrite H0. reflexivity. Qed.

(* optional field: uint32 marker 0 when absent, else the byte length of the payload followed by the payload *)
Lemma layout_field_opt_nil : forall val s r vs rb,
  encode_fields val r vs = Ok rb -> encode_fields val (FCons FOpt s r) (VNil :: vs) = Ok ([0; 0; 0; 0] ++ rb).
Proof. intros. cbn [encode_fields bind]. rewrite H. reflexivity. Qed.

Lemma layout_field_opt_some : forall val s r v vs fb rb, v <> VNil ->
  encode val true s v = Ok fb -> encode_fields val r vs = Ok rb ->
  encode_fields val (FCons FOpt s r) (v :: vs) = Ok ((le_enc 4 (N.of_nat (length fb)) ++ fb) ++ rb).
Proof.
  intros. cbn [encode_fields]. destruct v; try congruence; rewrite H0; cbn [bind]; rewrite H1; reflexivity.
Qed.

(* sequences: prefix = element count, then the element encodings (sorted byte-lexically when the settings say so) *)
Lemma layout_seq_novalidation : forall l r data, N.of_nat (length data) <= lpt_max l ->
  enc_seq false l r data =
  Ok (le_enc (lpt_size l) (N.of_nat (length data)) ++
      concat (if ar_autosort r && ar_lex r then sortb data else data)).
Proof. intros. unfold enc_seq. cbn [bind]. rewrite layout_prefix by assumption. reflexivity. Qed.

(* the length prefix has no representation for a count of 2^w or more: the reference encoder fails at exactly 2^w *)
Lemma layout_prefix_overflow : forall l n, l <> L64 -> lpt_max l < n -> write_len l n = Err EOther.
Proof.
  intros l n Hl H. unfold write_len. destruct l; try congruence;
    (replace (lpt_max _ <? n) with true by (symmetry; apply N.ltb_lt; exact H)); reflexivity.
Qed.

Lemma layout_seq_overflow : forall val l r data, l <> L64 -> lpt_max l < N.of_nat (length data) ->
  (val = true -> check_bounds (ar_min r) (ar_max r) (N.of_nat (length data)) = Ok tt) ->
  enc_seq val l r data = Err EOther.
Proof.
  intros val l r data Hl H Hb. unfold enc_seq.
  destruct val; [rewrite (Hb eq_refl) |]; cbn [bind]; rewrite (layout_prefix_overflow l _ Hl H); reflexivity.
Qed.

Example layout_prefix_limits :
  write_len L8 255 = Ok [255] /\ write_len L8 256 = Err EOther /\
  write_len L16 65535 = Ok [255; 255] /\ write_len L16 65536 = Err EOther /\
  write_len L32 4294967295 = Ok [255; 255; 255; 255] /\ write_len L32 4294967296 = Err EOther.
Proof. repeat split; vm_compute; reflexivity. Qed.
