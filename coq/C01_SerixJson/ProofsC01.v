(* C01 (JSON form): jdecode (jencode v) = v for every well-formed schema and every well-typed value. *)
From Coq Require Import ZArith NArith List Bool String Ascii Lia.
From Verif.C01_SerixJson Require Import Model Ind ProofsLeaf.
Import ListNotations.

Definition rt (s : schema) : Prop :=
  forall v, has_type s v = true -> exists j, jencode s v = Ok j /\ jdecode true s j = Ok v.

(* Round trip of a struct through ANY object that agrees with its encoding on the keys the struct reads (what an
   inlined / embedded struct field needs: it is decoded from the object of the enclosing struct). *)
Definition rto (s : schema) : Prop :=
  forall v, has_type s v = true ->
  exists kvs, jencode s v = Ok (JObj kvs) /\
    (forall k, In k (map fst kvs) -> In k (skeys s)) /\
    str_nodup (map fst kvs) = true /\
    forall o, (forall k j, In (k, j) kvs -> jlookup k o = Some j) ->
              (forall k, In k (skeys s) -> ~ In k (map fst kvs) -> jlookup k o = None) ->
              jdecode true s (JObj o) = Ok v.
Definition rt2 (s : schema) : Prop := rt s /\ (is_struct s = true -> rto s).

Lemma bind_ok : forall A B (r : res A) (f : A -> res B) b, bind r f = Ok b -> exists a, r = Ok a /\ f a = Ok b.
Proof. intros A B [a|e|] f b H; try discriminate. exists a. split; [reflexivity|exact H]. Qed.

(* ---------- lookups in association lists ---------- *)
Lemma existsb_streqb : forall k l, existsb (String.eqb k) l = true <-> In k l.
Proof.
  intros k l. rewrite existsb_exists. split.
  - intros (x & Hin & E). apply String.eqb_eq in E. subst. exact Hin.
  - intros H. exists k. split; [exact H|apply String.eqb_refl].
Qed.

Lemma existsb_streqb_false : forall k l, existsb (String.eqb k) l = false <-> ~ In k l.
Proof.
  intros k l. rewrite <- existsb_streqb. destruct (existsb (String.eqb k) l); split; intros; try discriminate; auto.
  exfalso. apply H. reflexivity.
Qed.

Lemma str_nodup_cons : forall k r, str_nodup (k :: r) = true <-> ~ In k r /\ str_nodup r = true.
Proof.
  intros k r. cbn [str_nodup]. rewrite andb_true_iff, negb_true_iff, existsb_streqb_false. reflexivity.
Qed.

Lemma jlookup_notin : forall k o, ~ In k (map fst o) -> jlookup k o = None.
Proof.
  intros k o. induction o as [|[k' j] r IH]; intros H; [reflexivity|]. cbn [jlookup].
  destruct (String.eqb k k') eqn:E.
  - apply String.eqb_eq in E. subst. exfalso. apply H. left. reflexivity.
  - apply IH. intros Hin. apply H. right. exact Hin.
Qed.

Lemma jlookup_in : forall k j o, str_nodup (map fst o) = true -> In (k, j) o -> jlookup k o = Some j.
Proof.
  intros k j o. induction o as [|[k' j'] r IH]; intros Hnd Hin; [contradiction|].
  cbn [map fst] in Hnd. apply str_nodup_cons in Hnd. destruct Hnd as [Hni Hnd].
  cbn [jlookup]. destruct Hin as [E|Hin].
  - inversion E; subst. rewrite String.eqb_refl. reflexivity.
  - destruct (String.eqb k k') eqn:E.
    + apply String.eqb_eq in E. subst. exfalso. apply Hni.
      change k' with (fst (k', j)). apply in_map. exact Hin.
    + apply IH; assumption.
Qed.

Lemma str_nodup_app : forall a b,
  str_nodup (a ++ b) = true <-> str_nodup a = true /\ str_nodup b = true /\ (forall x, In x a -> ~ In x b).
Proof.
  induction a as [|x a IH]; intros b; cbn [app].
  - split; [intros H; repeat split; auto|intros (_ & H & _); exact H].
  - split.
    + intros H. apply str_nodup_cons in H. destruct H as [Hn H]. apply IH in H. destruct H as (Ha & Hb & Hd).
      split; [apply str_nodup_cons; split; [intros Hi; apply Hn; apply in_or_app; left; exact Hi|exact Ha]|].
      split; [exact Hb|]. intros y [<-|Hy] Hin; [apply Hn; apply in_or_app; right; exact Hin|exact (Hd y Hy Hin)].
    + intros (Ha & Hb & Hd). apply str_nodup_cons in Ha. destruct Ha as [Hn Ha]. apply str_nodup_cons. split.
      * intros H. apply in_app_or in H. destruct H as [H|H]; [exact (Hn H)|exact (Hd x (or_introl eq_refl) H)].
      * apply IH. split; [exact Ha|]. split; [exact Hb|]. intros y Hy. apply Hd. right. exact Hy.
Qed.

Lemma check_code_self : forall c o, (c < 4294967296)%N ->
  check_code (Some c) ((key_type, JNum (Z.of_N c)) :: o) = None.
Proof.
  intros c o Hc. unfold check_code. cbn [jlookup]. rewrite String.eqb_refl.
  rewrite conv_in_range; [rewrite Z.eqb_refl; reflexivity|].
  unfold in_range. apply andb_true_intro. split; [apply Z.leb_le|apply Z.ltb_lt]; lia.
Qed.

Lemma skeys_struct : forall ptr code fs, skeys (SStruct ptr code fs) = code_keys code ++ flat_keys fs.
Proof.
  intros ptr code fs. cbn [skeys]. f_equal. unfold flat_keys.
  induction fs as [|[[k m] x] r IH]; [reflexivity|]. cbn [map List.concat fkeys]. rewrite <- IH. reflexivity.
Qed.

Lemma rto_rt : forall s, rto s -> rt s.
Proof.
  intros s H v Ht. destruct (H v Ht) as (kvs & E & Sub & Nd & D). exists (JObj kvs). split; [exact E|]. apply D.
  - intros k j Hin. apply jlookup_in; assumption.
  - intros k _ Hn. apply jlookup_notin. exact Hn.
Qed.

(* ---------- struct fields ---------- *)
(* an empty value of an omittable type is the zero value the decoder leaves in the untouched field *)
Lemma empty_zero : forall s v, omittable s = true -> is_empty s v = true -> v = zero_of s.
Proof.
  intros s v Ho He. destruct s; try discriminate; cbn [is_empty zero_of] in *.
  - destruct v; try discriminate. destruct b; [discriminate|reflexivity].
  - destruct v; try discriminate. apply Z.eqb_eq in He. subst. reflexivity.
  - destruct v; try discriminate. apply Z.eqb_eq in He. subst. reflexivity.
  - destruct v; try discriminate. apply Z.eqb_eq in He. subst. reflexivity.
  - destruct v; try discriminate. apply String.eqb_eq in He. subst. reflexivity.
  - destruct v; try discriminate. apply String.eqb_eq in He. subst. reflexivity.
  - destruct v; try discriminate. apply String.eqb_eq in He. subst. reflexivity.
  - destruct v; try discriminate. reflexivity.
  - destruct v; try discriminate. apply Z.eqb_eq in He. subst. reflexivity.
  - destruct ptr; [|discriminate]. destruct v; try discriminate. reflexivity.
  - destruct v; try discriminate. destruct l; [reflexivity|discriminate].
  - destruct v; try discriminate. reflexivity.
  - destruct ptr; destruct v; try discriminate; [reflexivity|]. apply String.eqb_eq in He. subst. reflexivity.
  - destruct v; try discriminate. apply String.eqb_eq in He. subst. reflexivity.
Qed.

Lemma fields_rt : forall fs,
  Forall (fun f : string * fmode * schema => wf_schema (snd f) = true -> rt2 (snd f)) fs ->
  forallb (fun f => match f with (_, m, x) => negb (is_omit m) || omittable x end) fs = true ->
  forallb (fun f => match f with (_, m, x) => negb (is_inline m) || is_struct x end) fs = true ->
  forallb (fun f => match f with (_, _, x) => wf_schema x end) fs = true ->
  str_nodup (flat_keys fs) = true ->
  forall vs, fields_have_type has_type fs vs = true ->
  exists kvs,
    enc_fields jencode fs vs = Ok kvs /\
    (forall k, In k (map fst kvs) -> In k (flat_keys fs)) /\
    str_nodup (map fst kvs) = true /\
    forall o, (forall k j, In (k, j) kvs -> jlookup k o = Some j) ->
              (forall k, In k (flat_keys fs) -> ~ In k (map fst kvs) -> jlookup k o = None) ->
              dec_fields (jdecode true) o fs = Ok vs.
Proof.
  intros fs HF. induction HF as [|[[k m] s] fr Hx _ IH]; intros Hom Hin Hwf Hnd vs Ht.
  - destruct vs; [|discriminate]. exists []. repeat split; auto.
  - destruct vs as [|v vr]; [discriminate|].
    cbn [fields_have_type] in Ht. apply andb_prop in Ht. destruct Ht as [Hv Hr].
    cbn [forallb] in Hwf, Hom, Hin. apply andb_prop in Hwf. destruct Hwf as [Hws Hwr].
    apply andb_prop in Hom. destruct Hom as [Homs Homr]. apply andb_prop in Hin. destruct Hin as [Hins Hinr].
    assert (Hfk : flat_keys ((k, m, s) :: fr) = fkeys (k, m, s) ++ flat_keys fr) by reflexivity.
    rewrite Hfk in Hnd. apply str_nodup_app in Hnd. destruct Hnd as (Hnk & Hndr & Hdisj).
    destruct (IH Homr Hinr Hwr Hndr vr Hr) as (kr & Er & Sub & Ndr & Dr).
    cbn [snd] in Hx. cbn [enc_fields dec_fields].
    destruct ((is_omit m && is_empty s v) || (is_opt m && is_nil v)) eqn:E.
    + (* optional nil field / empty omitempty field: skipped by the encoder, absent for the decoder, which leaves
         nil resp. the zero value *)
      assert (Hz : is_inline m = false /\
                   ((is_opt m = true /\ v = VNil) \/ (is_opt m = false /\ is_omit m = true /\ v = zero_of s))).
      { destruct m; cbn [is_omit is_opt is_inline andb orb negb] in E, Homs |- *; try discriminate.
        - split; [reflexivity|]. left. split; [reflexivity|]. destruct v; try discriminate; reflexivity.
        - split; [reflexivity|]. right. split; [reflexivity|]. split; [reflexivity|].
          apply empty_zero; [exact Homs|rewrite orb_false_r in E; exact E]. }
      destruct Hz as [Hi Hz].
      assert (Hfk' : fkeys (k, m, s) = [k]) by (cbn [fkeys]; rewrite Hi; reflexivity).
      rewrite Hfk' in Hfk, Hdisj.
      assert (Hk : ~ In k (flat_keys fr)) by (apply Hdisj; left; reflexivity).
      exists kr. split; [exact Er|]. split; [|split; [exact Ndr|]].
      * intros k' H. rewrite Hfk. right. apply Sub. exact H.
      * intros o H1 H2. rewrite Hi.
        assert (Hkn : ~ In k (map fst kr)) by (intros H; apply Hk, Sub, H).
        assert (Hl : jlookup k o = None) by (apply H2; [rewrite Hfk; left; reflexivity|exact Hkn]).
        rewrite Hl.
        assert (Hdr : dec_fields (jdecode true) o fr = Ok vr).
        { apply (Dr o H1). intros k' Hin' Hn. apply H2; [rewrite Hfk; right; exact Hin'|exact Hn]. }
        destruct Hz as [[Em ->]|[Em [Eo ->]]]; rewrite Em; [|rewrite Eo]; rewrite Hdr; reflexivity.
    + try rewrite E in Hv. cbn [orb] in Hv.
      destruct (is_inline m) eqn:Ei.
      * (* inlined / embedded struct: its entries are spliced into, and read back from, the enclosing object *)
        cbn [negb orb] in Hins.
        destruct (Hx Hws) as [_ Hro]. destruct (Hro Hins v Hv) as (ks & Es & Subs & Nds & Ds).
        rewrite Es, Er. cbn [bind].
        assert (Hfk' : fkeys (k, m, s) = skeys s) by (cbn [fkeys]; rewrite Ei; reflexivity).
        rewrite Hfk' in Hfk, Hdisj.
        exists (ks ++ kr). split; [reflexivity|]. split; [|split].
        -- intros k' H. rewrite map_app in H. apply in_app_or in H. rewrite Hfk. apply in_or_app.
           destruct H as [H|H]; [left; apply Subs; exact H|right; apply Sub; exact H].
        -- rewrite map_app. apply str_nodup_app. split; [exact Nds|]. split; [exact Ndr|].
           intros x Hx1 Hx2. apply (Hdisj x); [apply Subs; exact Hx1|apply Sub; exact Hx2].
        -- intros o H1 H2.
           assert (Hds : jdecode true s (JObj o) = Ok v).
           { apply Ds.
             - intros k' j' H. apply H1. apply in_or_app. left. exact H.
             - intros k' Hin' Hn. apply H2; [rewrite Hfk; apply in_or_app; left; exact Hin'|].
               rewrite map_app. intros H. apply in_app_or in H. destruct H as [H|H]; [exact (Hn H)|].
               apply (Hdisj k' Hin'). apply Sub. exact H. }
           assert (Hdr : dec_fields (jdecode true) o fr = Ok vr).
           { apply Dr.
             - intros k' j' H. apply H1. apply in_or_app. right. exact H.
             - intros k' Hin' Hn. apply H2; [rewrite Hfk; apply in_or_app; right; exact Hin'|].
               rewrite map_app. intros H. apply in_app_or in H. destruct H as [H|H]; [|exact (Hn H)].
               apply (Hdisj k'); [apply Subs; exact H|exact Hin']. }
           rewrite Hds. cbn [bind]. rewrite Hdr. reflexivity.
      * assert (Hfk' : fkeys (k, m, s) = [k]) by (cbn [fkeys]; rewrite Ei; reflexivity).
        rewrite Hfk' in Hfk, Hdisj.
        assert (Hk : ~ In k (flat_keys fr)) by (apply Hdisj; left; reflexivity).
        destruct (Hx Hws) as [Hrt _]. destruct (Hrt v Hv) as (j & Ej & Dj).
        rewrite Ej, Er. cbn [bind].
        exists ((k, j) :: kr). split; [reflexivity|]. split; [|split].
        -- intros k' [H|H]; rewrite Hfk; [left; exact H|right; apply Sub; exact H].
        -- cbn [map fst]. apply str_nodup_cons. split; [|exact Ndr]. intros H. apply Hk, Sub, H.
        -- intros o H1 H2. rewrite (H1 k j (or_introl eq_refl)). rewrite Dj. cbn [bind].
           rewrite (Dr o).
           ++ reflexivity.
           ++ intros k' j' H. apply H1. right. exact H.
           ++ intros k' Hin' Hn. apply H2; [rewrite Hfk; right; exact Hin'|].
              cbn [map fst]. intros [H|H]; [|exact (Hn H)]. subst k'. exact (Hk Hin').
Qed.

Lemma struct_rto : forall ptr code fs,
  Forall (fun f : string * fmode * schema => wf_schema (snd f) = true -> rt2 (snd f)) fs ->
  wf_schema (SStruct ptr code fs) = true -> rto (SStruct ptr code fs).
Proof.
  intros ptr code fs HF Hwf v Ht.
  pose proof (skeys_struct ptr code fs) as Hsk.
  cbn [wf_schema] in Hwf. apply andb_prop in Hwf. destruct Hwf as [Hwf Hcode].
  apply andb_prop in Hwf. destruct Hwf as [Hwf Hnd]. apply andb_prop in Hwf. destruct Hwf as [Hwf Hws].
  apply andb_prop in Hwf. destruct Hwf as [Hwf Hin]. apply andb_prop in Hwf. destruct Hwf as [Hok Hom].
  rewrite Hsk in Hnd. apply str_nodup_app in Hnd. destruct Hnd as (Hnc & Hndf & Hdisj).
  assert (Hx : exists vs, fields_have_type has_type fs vs = true /\ v = (if ptr then VPtr (VList vs) else VList vs)).
  { cbn [has_type] in Ht. destruct ptr.
    - destruct v; try discriminate. destruct v; try discriminate. eauto.
    - destruct v; try discriminate. eauto. }
  destruct Hx as (vs & Hfs & ->).
  destruct (fields_rt fs HF Hom Hin Hws Hndf vs Hfs) as (kvs & Ek & Sub & Ndk & Dk).
  exists (code_entry code ++ kvs).
  split; [cbn [jencode]; destruct ptr; rewrite Hok, Ek; reflexivity|].
  assert (Hck : map fst (code_entry code) = code_keys code) by (destruct code; reflexivity).
  split; [|split].
  - intros k H. rewrite Hsk. rewrite map_app, Hck in H. apply in_app_or in H. apply in_or_app.
    destruct H as [H|H]; [left; exact H|right; apply Sub; exact H].
  - rewrite map_app, Hck. apply str_nodup_app. split; [exact Hnc|]. split; [exact Ndk|].
    intros x H1 H2. apply (Hdisj x H1). apply Sub. exact H2.
  - intros o H1 H2.
    assert (Hcc : check_code code o = None).
    { destruct code as [c|]; [|reflexivity]. apply N.ltb_lt in Hcode. unfold check_code.
      rewrite (H1 key_type (JNum (Z.of_N c))); [|left; reflexivity].
      rewrite conv_in_range; [rewrite Z.eqb_refl; reflexivity|].
      unfold in_range. apply andb_true_intro. split; [apply Z.leb_le|apply Z.ltb_lt]; lia. }
    assert (Hdf : dec_fields (jdecode true) o fs = Ok vs).
    { apply Dk.
      - intros k j Hin'. apply H1. apply in_or_app. right. exact Hin'.
      - intros k Hin' Hn. apply H2; [rewrite Hsk; apply in_or_app; right; exact Hin'|].
        rewrite map_app, Hck. intros H. apply in_app_or in H.
        destruct H as [H|H]; [exact (Hdisj k H Hin')|exact (Hn H)]. }
    cbn [jdecode]. rewrite Hcc, Hok, Hdf. cbn [bind]. destruct ptr; reflexivity.
Qed.

Lemma struct_rt : forall ptr code fs,
  Forall (fun f : string * fmode * schema => wf_schema (snd f) = true -> rt2 (snd f)) fs ->
  wf_schema (SStruct ptr code fs) = true -> rt (SStruct ptr code fs).
Proof. intros. apply rto_rt. apply struct_rto; assumption. Qed.

(* ---------- slices and arrays ---------- *)
Lemma list_rt : forall e, rt e -> forall vs, forallb (has_type e) vs = true ->
  exists js, enc_list (jencode e) vs = Ok js /\ dec_list (jdecode true e) js = Ok vs.
Proof.
  intros e He vs. induction vs as [|v r IH]; intros H.
  - exists []. split; reflexivity.
  - cbn [forallb] in H. apply andb_prop in H. destruct H as [Hv Hr].
    destruct (He v Hv) as (j & Ej & Dj). destruct (IH Hr) as (js & Es & Ds).
    exists (j :: js). cbn [enc_list dec_list]. rewrite Ej, Es, Dj, Ds. split; reflexivity.
Qed.

(* ---------- maps ---------- *)
Lemma key_eqb_sym : forall a b, key_eqb a b = key_eqb b a.
Proof.
  intros [] []; cbn [key_eqb]; try reflexivity.
  - destruct b, b0; reflexivity. - apply Z.eqb_sym. - apply String.eqb_sym.
Qed.

Lemma key_json : forall ks k j, key_schema ks = true -> jencode ks k = Ok j -> exists x, j = JStr x.
Proof.
  intros ks k j Hk E. destruct ks; try discriminate; destruct k; cbn [jencode] in E; inversion E; eauto.
Qed.

Lemma entries_rt : forall ks vs, key_schema ks = true -> rt ks -> rt vs ->
  forall kvs seen,
    forallb (fun kv => has_type ks (fst kv) && has_type vs (snd kv)) kvs = true ->
    keys_nodup kvs = true ->
    (forall kv, In kv kvs -> existsb (key_eqb (fst kv)) seen = false) ->
    exists es, enc_entries (jencode ks) (jencode vs) kvs = Ok es /\
               dec_entries (jdecode true ks) (jdecode true vs) es seen = Ok kvs.
Proof.
  intros ks vs Hks Hk Hv kvs. induction kvs as [|[k v] r IH]; intros seen Ht Hnd Hseen.
  - exists []. split; reflexivity.
  - cbn [forallb fst snd] in Ht. apply andb_prop in Ht. destruct Ht as [Hkv Hr].
    apply andb_prop in Hkv. destruct Hkv as [Htk Htv].
    cbn [keys_nodup] in Hnd. apply andb_prop in Hnd. destruct Hnd as [Hnk Hndr].
    apply negb_true_iff in Hnk.
    destruct (Hk k Htk) as (jk & Ek & Dk). destruct (Hv v Htv) as (jv & Ev & Dv).
    destruct (key_json ks k jk Hks Ek) as (x & ->).
    destruct (IH (k :: seen) Hr Hndr) as (es & Ee & De).
    { intros kv Hin. cbn [existsb]. apply orb_false_iff. split.
      - rewrite key_eqb_sym.
        destruct (key_eqb k (fst kv)) eqn:E; [|reflexivity].
        assert (existsb (fun kv0 => key_eqb k (fst kv0)) r = true)
          by (apply existsb_exists; exists kv; split; assumption).
        congruence.
      - apply Hseen. right. exact Hin. }
    exists ((x, jv) :: es). cbn [enc_entries dec_entries]. rewrite Ek, Ev, Ee. cbn [bind].
    split; [reflexivity|]. rewrite Dk. cbn [bind].
    pose proof (Hseen (k, v) (or_introl eq_refl)) as Hs. cbn [fst] in Hs. rewrite Hs. rewrite Dv. cbn [bind]. rewrite De. reflexivity.
Qed.

(* ---------- interfaces ---------- *)
Lemma existsb_neqb_false : forall c l, existsb (N.eqb c) l = false -> ~ In c l.
Proof.
  intros c l H Hin. assert (existsb (N.eqb c) l = true); [|congruence].
  apply existsb_exists. exists c. split; [exact Hin|apply N.eqb_refl].
Qed.

Lemma wf_alt_code_lt : forall a c, wf_schema a = true -> alt_code a = Some c -> (c < 4294967296)%N.
Proof.
  intros a c Hw Ha. destruct a; try discriminate.
  - destruct code as [c'|]; try discriminate. inversion Ha; subst c'. cbn [wf_schema] in Hw. apply andb_prop in Hw.
    destruct Hw as [_ Hc]. apply N.ltb_lt in Hc. exact Hc.
  - destruct code as [c'|]; try discriminate. inversion Ha; subst c'. cbn [wf_schema] in Hw. apply andb_prop in Hw.
    destruct Hw as [Hc _]. apply N.ltb_lt in Hc. exact Hc.
  - inversion Ha; subst code. cbn [wf_schema] in Hw. apply andb_prop in Hw.
    destruct Hw as [Hc _]. apply N.ltb_lt in Hc. exact Hc.
Qed.

(* the encoding of an alternative is an object that starts with its "type" entry *)
Lemma alt_enc_typed : forall a c v j, alt_code a = Some c -> jencode a v = Ok j ->
  exists o', j = JObj ((key_type, JNum (Z.of_N c)) :: o').
Proof.
  intros a c v j Ha E. destruct a; try discriminate.
  - destruct code as [c'|]; try discriminate. inversion Ha; subst c'. cbn [jencode] in E.
    assert (B : forall x, (match x with
                           | VList vs => if fields_ok fs then let* kvs := enc_fields jencode fs vs in Ok (JObj (code_entry (Some c) ++ kvs))
                                         else Err EUnsupported
                           | _ => Err EType end) = Ok j -> exists o', j = JObj ((key_type, JNum (Z.of_N c)) :: o')).
    { intros x Ex. destruct x; try discriminate. destruct (fields_ok fs); [|discriminate].
      apply bind_ok in Ex. destruct Ex as (kvs & _ & Ex). inversion Ex. cbn [code_entry app]. eauto. }
    destruct ptr; [destruct v; try discriminate|]; apply B in E; exact E.
  - destruct code as [c'|]; try discriminate. inversion Ha; subst c'. cbn [jencode] in E.
    destruct ptr; [destruct v; try discriminate|]; destruct v; try discriminate; inversion E; eauto.
  - inversion Ha; subst code. cbn [jencode] in E. destruct v; try discriminate; inversion E; eauto.
Qed.

Lemma iface_rt : forall alts,
  Forall (fun a : N * schema => wf_schema (snd a) = true -> rt2 (snd a)) alts ->
  wf_schema (SIface alts) = true -> rt (SIface alts).
Proof.
  intros alts HF Hwf v Ht.
  cbn [wf_schema] in Hwf. apply andb_prop in Hwf. destruct Hwf as [Hal _].
  destruct v; try discriminate. cbn [has_type] in Ht. cbn [jencode jdecode].
  destruct alts as [|a0 alts0] eqn:Ealts; [discriminate|]. rewrite <- Ealts in *. clear Ealts a0 alts0.
  (* the alternative selected by the code, its round trip, and the "type" entry of its encoding *)
  assert (H : exists a, find_alt (fun a => jencode a v) code alts = jencode a v /\
                        (forall j, find_alt (fun a => jdecode true a j) code alts = jdecode true a j) /\
                        has_type a v = true /\ (wf_schema a = true -> rt a) /\
                        alt_code a = Some code /\ wf_schema a = true).
  { clear -HF Hal Ht. induction HF as [|[c a] r Hx _ IH]; [discriminate|].
    cbn [forallb] in Hal. apply andb_prop in Hal. destruct Hal as [Ha Hr].
    cbn [alt_has_type] in Ht. cbn [find_alt].
    destruct (code =? c)%N eqn:E.
    - apply N.eqb_eq in E. subst c. exists a. split; [reflexivity|]. split; [reflexivity|].
      split; [exact Ht|]. split; [exact (fun w => proj1 (Hx w))|].
      destruct (alt_code a) as [c'|]; [|discriminate].
      apply andb_prop in Ha. destruct Ha as [Ec Hw]. apply N.eqb_eq in Ec. subst c'.
      split; [reflexivity|exact Hw].
    - apply IH; assumption. }
  destruct H as (a & Fe & Fd & Hta & Hrt & Hac & Hwa).
  pose proof (wf_alt_code_lt a code Hwa Hac) as Hc.
  destruct (Hrt Hwa v Hta) as (j & Ej & Dj).
  exists j. split.
  { destruct alts; [discriminate|]. rewrite Fe. exact Ej. }
  destruct alts as [|a0 alts0] eqn:Ealts; [discriminate|]. rewrite <- Ealts in *.
  (* j is an object whose first entry is ("type", code) *)
  destruct (alt_enc_typed a code v j Hac Ej) as (o' & ->).
  cbn [jlookup]. rewrite String.eqb_refl.
  rewrite conv_u32_code by exact Hc. rewrite Fd. rewrite Dj. reflexivity.
Qed.

(* ---------- the theorem ---------- *)
Theorem jroundtrip2 : forall s, wf_schema s = true -> rt2 s.
Proof.
  induction s using schema_ind'; intros Hwf; (split; [|try (intros Hs; discriminate Hs)]).
  - intros v H. destruct v; try discriminate. eexists. split; reflexivity.
  - intros v H. destruct v; try discriminate. eexists. split; [reflexivity|].
    cbn [jdecode has_type] in *. rewrite conv_in_range by exact H. reflexivity.
  - intros v H. destruct v; try discriminate. eexists. split; [reflexivity|].
    cbn [jdecode has_type] in *. apply andb_prop in H. destruct H as [H1 H2].
    apply Z.leb_le in H1. apply Z.ltb_lt in H2. rewrite parse_int64_fmt by lia. reflexivity.
  - intros v H. destruct v; try discriminate. eexists. split; [reflexivity|].
    cbn [jdecode has_type] in *. apply andb_prop in H. destruct H as [H1 H2].
    apply Z.leb_le in H1. apply Z.ltb_lt in H2. rewrite parse_uint64_fmt by lia. reflexivity.
  - intros v H. destruct v; try discriminate. eexists. split; reflexivity.
  - intros v H. destruct v; try discriminate. eexists. split; [reflexivity|].
    cbn [jdecode]. rewrite decode_encode_hex. reflexivity.
  - intros v H. destruct v; try discriminate. eexists. split; [reflexivity|].
    cbn [jdecode has_type] in *. rewrite decode_encode_hex. cbn [bind].
    apply Nat.eqb_eq in H. subst n. rewrite fit_length. reflexivity.
  - intros v H. destruct v; try discriminate. eexists. split; [reflexivity|].
    cbn [jdecode has_type] in *. apply andb_prop in H. destruct H as [H1 H2].
    apply Z.leb_le in H1. apply Z.ltb_lt in H2. rewrite decode_encode_big by lia. reflexivity.
  - intros v H. destruct v; try discriminate. eexists. split; [reflexivity|].
    cbn [jdecode has_type] in *. apply andb_prop in H. destruct H as [H1 H2].
    apply Z.leb_le in H1. apply Z.ltb_lt in H2.
    unfold clamp_time.
    replace (z <? 0) with false by (symmetry; apply Z.ltb_ge; lia).
    replace (9223372036854775807 <? z) with false by (symmetry; apply Z.ltb_ge; lia).
    rewrite parse_uint64_fmt by lia. cbn [bind]. unfold wrap_i64.
    replace (z <? 9223372036854775808) with true by (symmetry; apply Z.ltb_lt; lia). reflexivity.
  - apply struct_rt; assumption.
  - intros _. apply struct_rto; assumption.
  - cbn [wf_schema] in Hwf. apply andb_prop in Hwf. destruct Hwf as [_ Hwe].
    intros v H. destruct v; try discriminate. cbn [has_type] in H.
    destruct (list_rt s (proj1 (IHs Hwe)) l H) as (js & Es & Ds).
    exists (JArr js). cbn [jencode jdecode seq_view]. rewrite Es. split; [reflexivity|].
    cbn [bind]. rewrite Ds. reflexivity.
  - cbn [wf_schema] in Hwf. apply andb_prop in Hwf. destruct Hwf as [_ Hwe].
    intros v H. destruct v; try discriminate. cbn [has_type] in H.
    apply andb_prop in H. destruct H as [Hn H].
    destruct (list_rt s (proj1 (IHs Hwe)) l H) as (js & Es & Ds).
    exists (JArr js). cbn [jencode jdecode seq_view]. rewrite Hn, Es. split; [reflexivity|].
    cbn [bind]. rewrite Ds. cbn [bind]. rewrite Hn. reflexivity.
  - cbn [wf_schema] in Hwf. apply andb_prop in Hwf. destruct Hwf as [Hks Hwv].
    assert (Hwk : wf_schema s1 = true) by (destruct s1; try discriminate; reflexivity).
    intros v H. destruct v; try discriminate. cbn [has_type] in H.
    apply andb_prop in H. destruct H as [Ht Hnd].
    destruct (entries_rt s1 s2 Hks (proj1 (IHs1 Hwk)) (proj1 (IHs2 Hwv)) l [] Ht Hnd) as (es & Ee & De).
    { intros kv _. reflexivity. }
    exists (JObj es). cbn [jencode jdecode]. rewrite Ee. split; [reflexivity|]. rewrite De. reflexivity.
  - apply iface_rt; assumption.
  - (* byte array with an object code and / or behind a pointer *)
    intros v H. cbn [wf_schema] in Hwf. cbn [has_type] in H. cbn [jencode jdecode].
    assert (Hv : exists b, String.length b = n /\ v = (if ptr then VPtr (VStr b) else VStr b)).
    { destruct ptr.
      - destruct v; try discriminate. destruct v; try discriminate. apply Nat.eqb_eq in H. eauto.
      - destruct v; try discriminate. apply Nat.eqb_eq in H. eauto. }
    destruct Hv as (b & Hn & ->). subst n.
    destruct code as [c|].
    + apply andb_prop in Hwf. destruct Hwf as [Hc Hk]. apply N.ltb_lt in Hc. apply negb_true_iff in Hk.
      destruct ptr; (eexists; split; [reflexivity|]); cbv beta iota; try rewrite (check_code_self c _ Hc); cbn [jlookup bind];
        rewrite Hk, String.eqb_refl; rewrite decode_encode_hex; cbn [bind]; rewrite fit_length; reflexivity.
    + destruct ptr; (eexists; split; [reflexivity|]); cbn [bind];
        rewrite decode_encode_hex; cbn [bind]; rewrite fit_length; reflexivity.
  - (* byte slice with an object code *)
    intros v H. cbn [wf_schema] in Hwf. apply andb_prop in Hwf. destruct Hwf as [Hc Hk]. apply N.ltb_lt in Hc.
    apply negb_true_iff in Hk.
    destruct v; try discriminate. eexists. split; [reflexivity|]. cbn [jdecode].
    rewrite (check_code_self code _ Hc). cbn [jlookup].
    rewrite Hk, String.eqb_refl. rewrite decode_encode_hex. reflexivity.
Qed.

Theorem jroundtrip : forall s, wf_schema s = true -> rt s.
Proof. intros s H. exact (proj1 (jroundtrip2 s H)). Qed.

(* ---------- JSONEncode / JSONDecode entry points ---------- *)

Lemma enc_fields_ok : forall fs vs kvs,
  Forall (fun f : string * fmode * schema => forall v j, jencode (snd f) v = Ok j -> json_ok j = true) fs ->
  enc_fields jencode fs vs = Ok kvs -> forallb (fun kv => json_ok (snd kv)) kvs = true.
Proof.
  intros fs vs kvs HF. revert vs kvs. induction HF as [|[[k m] s] fr Hx _ IH]; intros vs kvs E.
  - destruct vs; inversion E. reflexivity.
  - destruct vs as [|v vr]; [discriminate|]. cbn [enc_fields] in E.
    destruct ((is_omit m && is_empty s v) || (is_opt m && is_nil v)); [eapply IH; exact E|].
    apply bind_ok in E. destruct E as (j & Ej & E). apply bind_ok in E. destruct E as (r & Er & E).
    destruct (is_inline m).
    + destruct j; try discriminate. inversion E; subst. pose proof (Hx v _ Ej) as Hj. cbn [json_ok snd] in Hj.
      rewrite forallb_app, Hj, (IH vr r Er). reflexivity.
    + inversion E; subst. cbn [forallb snd]. rewrite (Hx v j Ej), (IH vr r Er). reflexivity.
Qed.

Lemma enc_list_ok : forall (enc : value -> res json) vs js,
  (forall v j, enc v = Ok j -> json_ok j = true) -> enc_list enc vs = Ok js -> forallb json_ok js = true.
Proof.
  intros enc vs. induction vs as [|v r IH]; intros js H E.
  - inversion E. reflexivity.
  - cbn [enc_list] in E. apply bind_ok in E. destruct E as (j & Ej & E). apply bind_ok in E.
    destruct E as (js' & Es & E). inversion E; subst. cbn [forallb]. rewrite (H v j Ej), (IH js' H Es). reflexivity.
Qed.

Lemma enc_entries_ok : forall (enck encv : value -> res json) kvs es,
  (forall v j, encv v = Ok j -> json_ok j = true) -> enc_entries enck encv kvs = Ok es ->
  forallb (fun kv => json_ok (snd kv)) es = true.
Proof.
  intros enck encv kvs. induction kvs as [|[k v] r IH]; intros es H E.
  - inversion E. reflexivity.
  - cbn [enc_entries] in E. apply bind_ok in E. destruct E as (jk & Ek & E). apply bind_ok in E.
    destruct E as (jv & Ev & E). destruct jk; try discriminate. apply bind_ok in E.
    destruct E as (rs & Er & E). inversion E; subst. cbn [forallb snd]. rewrite (H v jv Ev), (IH rs H Er). reflexivity.
Qed.

Lemma find_alt_ok : forall (f : schema -> res json) c alts j,
  Forall (fun a : N * schema => forall j, f (snd a) = Ok j -> json_ok j = true) alts ->
  find_alt f c alts = Ok j -> json_ok j = true.
Proof.
  intros f c alts j HF. induction HF as [|[c' a] r Hx _ IH]; intros E; [discriminate|].
  cbn [find_alt] in E. destruct (c =? c')%N; [apply Hx; exact E|apply IH; exact E].
Qed.

Lemma forallb_app_true : forall A (p : A -> bool) l1 l2, forallb p l1 = true -> forallb p l2 = true -> forallb p (l1 ++ l2) = true.
Proof. intros. rewrite forallb_app, H, H0. reflexivity. Qed.

Lemma jencode_json_ok : forall s v j, jencode s v = Ok j -> json_ok j = true.
Proof.
  induction s using schema_ind'; intros v j E; cbn [jencode] in E.
  1-9: destruct v; inversion E; reflexivity.
  - assert (B : forall x, (match x with
                           | VList vs => if fields_ok fs then let* kvs := enc_fields jencode fs vs in Ok (JObj (code_entry code ++ kvs))
                                         else Err EUnsupported
                           | _ => Err EType end) = Ok j -> json_ok j = true).
    { intros x Ex. destruct x; try discriminate. destruct (fields_ok fs); [|discriminate].
      apply bind_ok in Ex. destruct Ex as (kvs & Ek & Ex). inversion Ex; subst. cbn [json_ok].
      apply forallb_app_true; [destruct code; reflexivity|].
      eapply enc_fields_ok; [|exact Ek]. eapply Forall_impl; [|exact H]. intros a Ha v' j'. apply Ha. }
    destruct ptr; [destruct v; try discriminate|]; apply B in E; exact E.
  - destruct v; try discriminate. apply bind_ok in E. destruct E as (js & Es & E). inversion E; subst.
    cbn [json_ok]. eapply enc_list_ok; [|exact Es]. intros v' j'. apply IHs.
  - destruct v; try discriminate. destruct (Nat.eqb (List.length l) n); [|discriminate].
    apply bind_ok in E. destruct E as (js & Es & E). inversion E; subst.
    cbn [json_ok]. eapply enc_list_ok; [|exact Es]. intros v' j'. apply IHs.
  - destruct v; try discriminate. apply bind_ok in E. destruct E as (es & Ee & E). inversion E; subst.
    cbn [json_ok]. eapply enc_entries_ok; [|exact Ee]. intros v' j'. apply IHs2.
  - destruct v; try discriminate. destruct alts as [|a0 r0] eqn:Ea; [discriminate|]. rewrite <- Ea in *.
    eapply find_alt_ok; [|exact E]. eapply Forall_impl; [|exact H]. intros a Ha j'. apply Ha.
  - destruct ptr; [destruct v; try discriminate|]; destruct v; try discriminate; inversion E; subst;
      destruct code; reflexivity.
  - destruct v; try discriminate; inversion E; reflexivity.
Qed.

Theorem jroundtrip_top : forall code fs v,
  wf_schema (SStruct false code fs) = true -> has_type (SStruct false code fs) v = true ->
  exists j, jencode_top (SStruct false code fs) v = Ok j /\ jdecode_top true (SStruct false code fs) j = Ok v.
Proof.
  intros code fs v Hwf Ht. destruct (jroundtrip _ Hwf v Ht) as (j & Ej & Dj).
  pose proof (jencode_json_ok _ _ _ Ej) as Hok.
  assert (Hobj : exists o, j = JObj o).
  { cbn [jencode] in Ej. destruct v; try discriminate. destruct (fields_ok fs); [|discriminate].
    apply bind_ok in Ej. destruct Ej as (kvs & _ & Ej). inversion Ej. eauto. }
  destruct Hobj as (o & ->). exists (JObj o). unfold jencode_top, jdecode_top. rewrite Ej, Hok. cbn [bind negb].
  split; [reflexivity|exact Dj].
Qed.
