(* Correspondence for the JSON form of serix (parts c01json / c02json): a case is a schema (printed by the
   harness from the same random shape it built the Go type from), an input, and what the real
   JSONEncode / JSONDecode did with it (under recover).  Error classes are not compared (only
   value / error / panic): error texts are not observables. *)
From Coq Require Import ZArith NArith List Bool String Ascii.
From Verif.C01_SerixJson Require Import Model.
Import ListNotations.

Inductive case :=
| CEnc (s : schema) (v : value) (obs : res json)      (* JSONEncode(&v), output parsed back into a tree *)
| CDec (s : schema) (j : json) (obs : res value).     (* JSONDecode(doc, &x) on the current code *)

(* byte strings that are not printable ASCII are written as bs [..] *)
Definition bs (l : list N) : string := fold_right (fun n acc => String (ascii_of_N n) acc) EmptyString l.

Definition res_eqb {A} (eqb : A -> A -> bool) (a b : res A) : bool :=
  match a, b with
  | Ok x, Ok y => eqb x y
  | Err _, Err _ => true
  | Panic, Panic => true
  | _, _ => false
  end.

(* Go maps are unordered: decoded values are compared up to the order of map entries (the keys of a
   decoded map are pairwise distinct scalars, so equal length + inclusion is equality as maps). *)
Fixpoint value_sim (a b : value) {struct a} : bool :=
  match a, b with
  | VBool x, VBool y => Bool.eqb x y
  | VInt x, VInt y => (x =? y)%Z
  | VStr x, VStr y => String.eqb x y
  | VList x, VList y =>
      (fix go (x y : list value) : bool :=
         match x, y with [], [] => true | p :: x', q :: y' => value_sim p q && go x' y' | _, _ => false end) x y
  | VMap x, VMap y =>
      Nat.eqb (List.length x) (List.length y)
      && (fix go (x : list (value * value)) : bool :=
            match x with
            | [] => true
            | (k, p) :: x' =>
                (fix find (y : list (value * value)) : bool :=
                   match y with
                   | [] => false
                   | (k', q) :: y' => (key_eqb k k' && value_sim p q) || find y'
                   end) y && go x'
            end) x
  | VNil, VNil => true
  | VPtr x, VPtr y => value_sim x y
  | VIface c x, VIface c' y => (c =? c')%N && value_sim x y
  | _, _ => false
  end.

Definition agree (c : case) : bool :=
  match c with
  | CEnc s v obs => res_eqb json_eqb (jencode_top s v) obs
  | CDec s j obs => res_eqb value_sim (jdecode_top true s j) obs
  end.

Fixpoint mismatches_from (i : nat) (cs : list case) : list nat :=
  match cs with
  | [] => []
  | c :: r => if agree c then mismatches_from (S i) r else i :: mismatches_from (S i) r
  end.

Definition mismatches (cs : list case) : list nat := mismatches_from 0 cs.
