(* Round-trip lemmas for the leaf encodings: numbers, decimal and hex strings. *)
From Coq Require Import ZArith NArith List Bool String Ascii Lia.
From Verif.C01_SerixJson Require Import Model.
Import ListNotations.

(* ---------- generic positional notation ---------- *)
Section Digits.
  Open Scope N_scope.
  Variables (b : N) (dc : N -> ascii) (cd : ascii -> option N).
  Hypothesis Hb : 2 <= b.
  Hypothesis Hcd : forall d, d < b -> cd (dc d) = Some d.

  Lemma parse_digits_fuel : forall fuel n acc,
    n < b ^ N.of_nat fuel ->
    parse_digits b cd (digits_fuel b dc fuel n acc) 0 = parse_digits b cd acc n.
  Proof.
    induction fuel as [|f IH]; intros n acc Hn.
    - simpl in Hn. assert (n = 0) by lia. subst. reflexivity.
    - cbn [digits_fuel].
      assert (Hm : n mod b < b) by (apply N.mod_lt; lia).
      assert (Hdm : n = b * (n / b) + n mod b) by (apply N.div_mod; lia).
      destruct (n / b =? 0) eqn:E.
      + apply N.eqb_eq in E. cbn [parse_digits]. rewrite Hcd by exact Hm.
        f_equal. rewrite E in Hdm. lia.
      + apply N.eqb_neq in E. rewrite IH.
        * cbn [parse_digits]. rewrite Hcd by exact Hm. f_equal. lia.
        * rewrite Nat2N.inj_succ, N.pow_succ_r' in Hn. apply N.div_lt_upper_bound; lia.
  Qed.

  Lemma fuel_ok : forall n, n < b ^ N.of_nat (S (N.to_nat (N.log2 n))).
  Proof.
    intros n. rewrite Nat2N.inj_succ, N2Nat.id.
    destruct (N.eq_dec n 0) as [->|Hn].
    - change (N.log2 0) with 0. rewrite N.pow_1_r. lia.
    - assert (n < 2 ^ N.succ (N.log2 n)) by (apply N.log2_spec; lia).
      assert (2 ^ N.succ (N.log2 n) <= b ^ N.succ (N.log2 n)) by (apply N.pow_le_mono_l; lia).
      lia.
  Qed.

  Lemma parse_print : forall n, parse_digits b cd (print_base b dc n) 0 = Some n.
  Proof. intros n. unfold print_base. rewrite parse_digits_fuel by apply fuel_ok. reflexivity. Qed.

  Definition starts_digit (s : string) : Prop := exists d r, d < b /\ s = String (dc d) r.

  Lemma digits_first : forall f n acc, starts_digit acc -> starts_digit (digits_fuel b dc f n acc).
  Proof.
    induction f as [|f IH]; intros n acc H; cbn [digits_fuel]; [exact H|].
    assert (Hs : starts_digit (String (dc (n mod b)) acc)).
    { exists (n mod b), acc. split; [apply N.mod_lt; lia|reflexivity]. }
    destruct (n / b =? 0); [exact Hs|apply IH; exact Hs].
  Qed.

  Lemma print_first : forall n, starts_digit (print_base b dc n).
  Proof.
    intros n. unfold print_base. cbn [digits_fuel].
    assert (Hs : starts_digit (String (dc (n mod b)) EmptyString)).
    { exists (n mod b), EmptyString. split; [apply N.mod_lt; lia|reflexivity]. }
    destruct (n / b =? 0); [exact Hs|apply digits_first; exact Hs].
  Qed.

  (* the most significant digit of a positive number is not zero *)
  Lemma digits_msd : forall f n acc, 0 < n -> n < b ^ N.of_nat f ->
    exists d r, 0 < d < b /\ digits_fuel b dc f n acc = String (dc d) r.
  Proof.
    induction f as [|f IH]; intros n acc Hp Hn.
    - simpl in Hn. lia.
    - cbn [digits_fuel].
      assert (Hm : n mod b < b) by (apply N.mod_lt; lia).
      assert (Hdm : n = b * (n / b) + n mod b) by (apply N.div_mod; lia).
      destruct (n / b =? 0) eqn:E.
      + apply N.eqb_eq in E. exists (n mod b), acc. split; [|reflexivity]. rewrite E in Hdm. lia.
      + apply N.eqb_neq in E. apply IH; [apply N.neq_0_lt_0; exact E|].
        rewrite Nat2N.inj_succ, N.pow_succ_r' in Hn. apply N.div_lt_upper_bound; lia.
  Qed.

  Lemma digits_len : forall f n acc k, (1 <= k)%nat -> n < b ^ N.of_nat k ->
    (String.length (digits_fuel b dc f n acc) <= k + String.length acc)%nat.
  Proof.
    induction f as [|f IH]; intros n acc k Hk Hn; cbn [digits_fuel]; [lia|].
    destruct (n / b =? 0) eqn:E.
    - cbn [String.length]. lia.
    - apply N.eqb_neq in E.
      destruct k as [|[|k]]; [lia| |].
      + exfalso. apply E. apply N.div_small. change (N.of_nat 1) with 1%N in Hn. rewrite N.pow_1_r in Hn. exact Hn.
      + specialize (IH (n / b) (String (dc (n mod b)) acc) (S k)).
        cbn [String.length] in IH.
        assert (H1 : n / b < b ^ N.of_nat (S k)).
        { rewrite (Nat2N.inj_succ (S k)), N.pow_succ_r' in Hn. apply N.div_lt_upper_bound; lia. }
        specialize (IH ltac:(lia) H1). lia.
  Qed.
End Digits.

(* ---------- the two digit alphabets ---------- *)
Lemma lt10_cases : forall d : N, (d < 10)%N -> In d [0;1;2;3;4;5;6;7;8;9]%N.
Proof. intros d H. simpl. lia. Qed.
Lemma lt16_cases : forall d : N, (d < 16)%N -> In d [0;1;2;3;4;5;6;7;8;9;10;11;12;13;14;15]%N.
Proof. intros d H. simpl. lia. Qed.

Ltac by_cases H lem :=
  apply lem in H; simpl in H;
  repeat (destruct H as [<-|H]; [vm_compute; auto|]); contradiction.

Lemma decv_decc : forall d, (d < 10)%N -> decv (decc d) = Some d.
Proof. intros d H. by_cases H lt10_cases. Qed.
Lemma hexv_hexc : forall d, (d < 16)%N -> hexv (hexc d) = Some d.
Proof. intros d H. by_cases H lt16_cases. Qed.
Lemma decc_not_sign : forall d, (d < 10)%N ->
  Ascii.eqb (decc d) "-"%char = false /\ Ascii.eqb (decc d) "+"%char = false.
Proof. intros d H. by_cases H lt10_cases. Qed.
Lemma hexc_not_zero : forall d, (0 < d < 16)%N -> Ascii.eqb (hexc d) "0"%char = false.
Proof.
  intros d [H0 H]. apply lt16_cases in H. simpl in H.
  destruct H as [<-|H]; [lia|].
  repeat (destruct H as [<-|H]; [vm_compute; auto|]); contradiction.
Qed.

(* ---------- decimal strings ---------- *)
Lemma parse_unum_fmt : forall n, parse_unum (fmt_uint n) = Some n.
Proof.
  intros n. unfold parse_unum, fmt_uint.
  destruct (print_first 10 decc ltac:(lia) n) as (d & r & _ & E).
  pose proof (parse_print 10 decc decv ltac:(lia) decv_decc n) as P.
  rewrite E in *. exact P.
Qed.

Lemma parse_uint64_fmt : forall z, 0 <= z < 18446744073709551616 ->
  parse_uint64 (fmt_uint (Z.to_N z)) = Ok z.
Proof.
  intros z Hz. unfold parse_uint64. rewrite parse_unum_fmt.
  replace (Z.to_N z <? 18446744073709551616)%N with true by (symmetry; apply N.ltb_lt; lia).
  rewrite Z2N.id by lia. reflexivity.
Qed.

Lemma parse_int64_fmt : forall z, -9223372036854775808 <= z < 9223372036854775808 ->
  parse_int64 (fmt_int z) = Ok z.
Proof.
  intros z Hz. unfold fmt_int. destruct (z <? 0) eqn:E.
  - apply Z.ltb_lt in E. unfold parse_int64.
    replace (Ascii.eqb "-" "-") with true by reflexivity.
    replace (Ascii.eqb "-" "+") with false by reflexivity.
    cbn [orb]. rewrite parse_unum_fmt.
    replace (Z.to_N (- z) <=? 9223372036854775808)%N with true by (symmetry; apply N.leb_le; lia).
    rewrite Z2N.id by lia. f_equal. lia.
  - apply Z.ltb_ge in E.
    pose proof (parse_unum_fmt (Z.to_N z)) as P. unfold fmt_uint in *.
    destruct (print_first 10 decc ltac:(lia) (Z.to_N z)) as (d & r & Hd & Eq).
    rewrite Eq in *. unfold parse_int64.
    destruct (decc_not_sign d Hd) as [-> ->]. cbn [orb]. rewrite P.
    replace (Z.to_N z <? 9223372036854775808)%N with true by (symmetry; apply N.ltb_lt; lia).
    rewrite Z2N.id by lia. reflexivity.
Qed.

(* ---------- hex byte strings ---------- *)
Lemma unhex_hex : forall x, unhex_body (hex_body x) = Some x.
Proof.
  induction x as [|a x IH]; [reflexivity|].
  cbn [hex_body unhex_body].
  pose proof (N_ascii_bounded a) as Hb.
  rewrite hexv_hexc by (apply N.div_lt_upper_bound; lia).
  rewrite hexv_hexc by (apply N.mod_lt; lia).
  rewrite IH. f_equal. f_equal.
  rewrite <- N.div_mod by lia. apply ascii_N_embedding.
Qed.

Lemma decode_encode_hex : forall x, decode_hex (encode_hex x) = Ok x.
Proof.
  intros [|a x]; [reflexivity|].
  unfold encode_hex, decode_hex, strip0x.
  replace (Ascii.eqb "0" "0") with true by reflexivity.
  replace (Ascii.eqb "x" "x") with true by reflexivity.
  cbn [andb orb]. rewrite unhex_hex. reflexivity.
Qed.

Lemma fit_length : forall x, fit (String.length x) x = x.
Proof. induction x as [|a x IH]; [reflexivity|]. cbn [String.length fit]. rewrite IH. reflexivity. Qed.

(* ---------- hex numbers (big.Int) ---------- *)
Lemma decode_encode_big : forall z,
  0 <= z < 115792089237316195423570985008687907853269984665640564039457584007913129639936 ->
  decode_big (encode_big (Z.to_N z)) = Ok z.
Proof.
  intros z Hz. set (n := Z.to_N z).
  assert (Hn : (n < 16 ^ N.of_nat 64)%N).
  { replace (16 ^ N.of_nat 64)%N
      with 115792089237316195423570985008687907853269984665640564039457584007913129639936%N
      by (vm_compute; reflexivity). subst n. lia. }
  pose proof (parse_print 16 hexc hexv ltac:(lia) hexv_hexc n) as P.
  assert (Hlen : (String.length (print_base 16 hexc n) <= 64)%nat).
  { unfold print_base.
    pose proof (digits_len 16 hexc ltac:(lia) (S (N.to_nat (N.log2 n))) n EmptyString 64 ltac:(lia) Hn) as L.
    cbn [String.length] in L. lia. }
  assert (Hlz : forall c r, print_base 16 hexc n = String c r ->
                Ascii.eqb c "0" && negb (String.eqb r EmptyString) = false).
  { intros c r E. destruct (N.eq_dec n 0) as [Hz0|Hnz].
    - rewrite Hz0 in E. vm_compute in E. inversion E; subst. reflexivity.
    - unfold print_base in E.
      destruct (digits_msd 16 hexc ltac:(lia) (S (N.to_nat (N.log2 n))) n EmptyString ltac:(lia)
                  (fuel_ok 16 ltac:(lia) n)) as (d & r' & Hd & E').
      rewrite E' in E. inversion E; subst. rewrite hexc_not_zero by exact Hd. reflexivity. }
  unfold encode_big, decode_big, strip0x.
  replace (Ascii.eqb "0" "0") with true by reflexivity.
  replace (Ascii.eqb "x" "x") with true by reflexivity.
  cbn [andb orb].
  destruct (print_first 16 hexc ltac:(lia) n) as (d & r & _ & E).
  fold n. rewrite E in *. rewrite (Hlz _ _ eq_refl).
  replace (64 <? String.length (String (hexc d) r))%nat with false by (symmetry; apply Nat.ltb_ge; exact Hlen).
  rewrite P. subst n. rewrite Z2N.id by lia. reflexivity.
Qed.

(* ---------- JSON numbers ---------- *)
Lemma mod_small_or_neg : forall z m, 0 < m -> - m <= z < m ->
  z mod (2 * m) = if z <? 0 then z + 2 * m else z.
Proof.
  intros z m Hm Hz. destruct (z <? 0) eqn:E.
  - apply Z.ltb_lt in E. symmetry. apply Z.mod_unique_pos with (q := -1); lia.
  - apply Z.ltb_ge in E. apply Z.mod_small. lia.
Qed.

Lemma cvt32_id : forall z, -2147483648 <= z < 2147483648 -> cvt32 z = z.
Proof.
  intros z H. unfold cvt32.
  replace ((-2147483648 <=? z) && (z <? 2147483648)) with true; [reflexivity|].
  symmetry. apply andb_true_intro. split; [apply Z.leb_le|apply Z.ltb_lt]; lia.
Qed.
Lemma cvt64_id : forall z, -9223372036854775808 <= z < 9223372036854775808 -> cvt64 z = z.
Proof.
  intros z H. unfold cvt64.
  replace ((-9223372036854775808 <=? z) && (z <? 9223372036854775808)) with true; [reflexivity|].
  symmetry. apply andb_true_intro. split; [apply Z.leb_le|apply Z.ltb_lt]; lia.
Qed.

Lemma wrap_s_id : forall h z, 0 < h -> - h <= z < h -> wrap_s h z = z.
Proof.
  intros h z Hh Hz. unfold wrap_s. rewrite mod_small_or_neg by lia.
  destruct (z <? 0) eqn:E.
  - apply Z.ltb_lt in E. replace (z + 2 * h <? h) with false by (symmetry; apply Z.ltb_ge; lia). lia.
  - apply Z.ltb_ge in E. replace (z <? h) with true by (symmetry; apply Z.ltb_lt; lia). reflexivity.
Qed.

Lemma conv_in_range : forall k z, in_range k z = true -> conv k z = z.
Proof.
  intros k z H. destruct k; unfold in_range in H; apply andb_prop in H; destruct H as [H1 H2];
    apply Z.leb_le in H1; apply Z.ltb_lt in H2; unfold conv.
  - rewrite cvt32_id by lia. apply wrap_s_id; lia.
  - rewrite cvt32_id by lia. apply wrap_s_id; lia.
  - apply cvt32_id; lia.
  - rewrite cvt32_id by lia. apply Z.mod_small; lia.
  - rewrite cvt32_id by lia. apply Z.mod_small; lia.
  - rewrite cvt64_id by lia. apply Z.mod_small; lia.
Qed.

Lemma conv_u32_code : forall c, (c < 4294967296)%N -> Z.to_N (conv U32 (Z.of_N c)) = c.
Proof. intros c H. rewrite conv_in_range; [apply N2Z.id|]. unfold in_range. apply andb_true_intro. split; [apply Z.leb_le|apply Z.ltb_lt]; lia. Qed.
