(* C02 (JSON form): jdecode of the fixed code never panics, on any schema and any JSON tree. *)
From Coq Require Import ZArith NArith List Bool String Ascii Lia.
From Verif.C01_SerixJson Require Import Model Ind.
Import ListNotations.

Ltac break_match :=
  repeat match goal with
         | |- context [match ?x with _ => _ end] => destruct x eqn:?
         end.

Lemma parse_int64_np : forall x, is_panic (parse_int64 x) = false.
Proof. intros x. unfold parse_int64. break_match; reflexivity. Qed.
Lemma parse_uint64_np : forall x, is_panic (parse_uint64 x) = false.
Proof. intros x. unfold parse_uint64. break_match; reflexivity. Qed.
Lemma decode_hex_np : forall x, is_panic (decode_hex x) = false.
Proof. intros x. unfold decode_hex. break_match; reflexivity. Qed.
Lemma decode_big_np : forall x, is_panic (decode_big x) = false.
Proof. intros x. unfold decode_big. break_match; reflexivity. Qed.

Lemma dec_fields_np : forall dec o fs,
  Forall (fun f : string * fmode * schema => forall j, is_panic (dec (snd f) j) = false) fs ->
  is_panic (dec_fields dec o fs) = false.
Proof.
  intros dec o fs H. induction H as [|[[k m] s] fr Hx _ IH]; simpl; [reflexivity|].
  destruct (is_inline m).
  { apply bind_no_panic; [apply Hx|]. intros v _. apply bind_no_panic; [exact IH|]. reflexivity. }
  destruct (jlookup k o) as [j|].
  - apply bind_no_panic; [apply Hx|]. intros v _. apply bind_no_panic; [exact IH|]. reflexivity.
  - destruct (is_opt m); [apply bind_no_panic; [exact IH|]; reflexivity|].
    destruct (is_omit m); [|reflexivity]. apply bind_no_panic; [exact IH|]. reflexivity.
Qed.

Lemma dec_list_np : forall dec l,
  (forall j, is_panic (dec j) = false) -> is_panic (dec_list dec l) = false.
Proof.
  intros dec l H. induction l as [|j r IH]; simpl; [reflexivity|].
  apply bind_no_panic; [apply H|]. intros v _. apply bind_no_panic; [exact IH|]. reflexivity.
Qed.

Lemma dec_entries_np : forall deck decv o seen,
  (forall j, is_panic (deck j) = false) -> (forall j, is_panic (decv j) = false) ->
  is_panic (dec_entries deck decv o seen) = false.
Proof.
  intros deck decv o. induction o as [|[ks jv] r IH]; intros seen Hk Hv; simpl; [reflexivity|].
  apply bind_no_panic; [apply Hk|]. intros k _.
  destruct (existsb (key_eqb k) seen); [reflexivity|].
  apply bind_no_panic; [apply Hv|]. intros v _. apply bind_no_panic; [apply IH; assumption|]. reflexivity.
Qed.

Lemma find_alt_np : forall A (f : schema -> res A) c alts,
  Forall (fun a : N * schema => is_panic (f (snd a)) = false) alts -> is_panic (find_alt f c alts) = false.
Proof.
  intros A f c alts H. induction H as [|[c' s] r Hx _ IH]; simpl; [reflexivity|].
  destruct (c =? c')%N; [exact Hx|exact IH].
Qed.

Lemma seq_view_fixed_np : forall j, is_panic (seq_view true j) = false.
Proof. intros []; reflexivity. Qed.

Theorem jdecode_no_panic : forall s j, is_panic (jdecode true s j) = false.
Proof.
  induction s using schema_ind'; intros j.
  - destruct j; reflexivity.
  - destruct j; reflexivity.
  - destruct j; try reflexivity. cbn [jdecode]. apply bind_no_panic; [apply parse_int64_np|reflexivity].
  - destruct j; try reflexivity. cbn [jdecode]. apply bind_no_panic; [apply parse_uint64_np|reflexivity].
  - destruct j; reflexivity.
  - destruct j; try reflexivity. cbn [jdecode]. apply bind_no_panic; [apply decode_hex_np|reflexivity].
  - destruct j; try reflexivity. cbn [jdecode]. apply bind_no_panic; [apply decode_hex_np|reflexivity].
  - destruct j; try reflexivity. cbn [jdecode]. apply bind_no_panic; [apply decode_big_np|reflexivity].
  - destruct j; try reflexivity. cbn [jdecode]. apply bind_no_panic; [apply parse_uint64_np|reflexivity].
  - destruct j; try reflexivity. cbn [jdecode].
    destruct (check_code code l); [reflexivity|]. destruct (fields_ok fs); [|reflexivity].
    apply bind_no_panic; [|reflexivity]. apply dec_fields_np. exact H.
  - cbn [jdecode]. apply bind_no_panic; [apply seq_view_fixed_np|]. intros l _.
    apply bind_no_panic; [|reflexivity]. apply dec_list_np. exact IHs.
  - cbn [jdecode]. apply bind_no_panic; [apply seq_view_fixed_np|]. intros l _.
    apply bind_no_panic; [apply dec_list_np; exact IHs|]. intros vs _.
    destruct (Nat.eqb (List.length vs) n); reflexivity.
  - destruct j; try reflexivity. cbn [jdecode].
    apply bind_no_panic; [|reflexivity]. apply dec_entries_np; assumption.
  - cbn [jdecode]. destruct alts as [|a alts']; [reflexivity|].
    destruct j; try reflexivity.
    destruct (jlookup key_type l) as [[]|]; try reflexivity.
    + apply bind_no_panic; [|reflexivity]. apply find_alt_np.
      eapply Forall_impl; [|exact H]. intros x Hx. apply Hx.
    + apply bind_no_panic; [|reflexivity]. apply find_alt_np.
      eapply Forall_impl; [|exact H]. intros x Hx. apply Hx.
  - cbn [jdecode].
    assert (Hhex : forall x, is_panic (let* b := decode_hex x in Ok (VStr (fit n b))) = false)
      by (intros x; apply bind_no_panic; [apply decode_hex_np|reflexivity]).
    assert (Hobj : forall o, is_panic (match jlookup key o with
                                       | Some (JStr x) => (let* b := decode_hex x in Ok (VStr (fit n b)))
                                       | _ => Err EShape end) = false)
      by (intros o; destruct (jlookup key o) as [[]|]; try reflexivity; apply Hhex).
    destruct ptr.
    + apply bind_no_panic; [|reflexivity]. destruct code, j; try reflexivity; try apply Hhex; try apply Hobj.
      destruct (check_code _ _); [reflexivity|apply Hobj].
    + destruct j; try reflexivity; try apply Hhex.
      destruct code; [destruct (check_code _ _); [reflexivity|apply Hobj]|reflexivity].
  - cbn [jdecode].
    assert (Hel : is_panic (let* l := seq_view true j in let* b := dec_byte_list true l in Ok (VStr b)) = false).
    { apply bind_no_panic; [apply seq_view_fixed_np|]. intros l _. apply bind_no_panic; [|reflexivity].
      induction l as [|x r IH]; [reflexivity|]. cbn [dec_byte_list].
      destruct x; try reflexivity; (apply bind_no_panic; [exact IH|reflexivity]). }
    destruct j; try (destruct named; [exact Hel|reflexivity]).
    + destruct named; [exact Hel|]. apply bind_no_panic; [apply decode_hex_np|reflexivity].
    + destruct (check_code _ _); [reflexivity|].
      destruct (jlookup key l) as [[]|]; try reflexivity. apply bind_no_panic; [apply decode_hex_np|reflexivity].
Qed.

Theorem jdecode_total : forall s j, (exists v, jdecode true s j = Ok v) \/ (exists e, jdecode true s j = Err e).
Proof.
  intros s j. pose proof (jdecode_no_panic s j) as H.
  destruct (jdecode true s j); [left; eauto|right; eauto|discriminate].
Qed.

Theorem jdecode_top_no_panic : forall s j, is_panic (jdecode_top true s j) = false.
Proof.
  intros s j. unfold jdecode_top. destruct (negb (json_ok j)); [reflexivity|].
  destruct s; try reflexivity. destruct ptr; [reflexivity|].
  destruct j; try reflexivity; apply jdecode_no_panic.
Qed.

(* ---------- the encoder does not panic either (after 9d20a03 / bb76e84) ---------- *)
Lemma enc_fields_np : forall enc fs vs,
  Forall (fun f : string * fmode * schema => forall v, is_panic (enc (snd f) v) = false) fs ->
  is_panic (enc_fields enc fs vs) = false.
Proof.
  intros enc fs vs H. revert vs. induction H as [|[[k m] s] fr Hx _ IH]; intros vs; destruct vs as [|v vr]; try reflexivity.
  cbn [enc_fields]. destruct ((is_omit m && is_empty s v) || (is_opt m && is_nil v)); [apply IH|].
  apply bind_no_panic; [apply Hx|]. intros j _. apply bind_no_panic; [apply IH|]. intros r _.
  destruct (is_inline m); [destruct j; reflexivity|reflexivity].
Qed.

Lemma enc_list_np : forall (enc : value -> res json) vs,
  (forall v, is_panic (enc v) = false) -> is_panic (enc_list enc vs) = false.
Proof.
  intros enc vs H. induction vs as [|v r IH]; [reflexivity|]. cbn [enc_list].
  apply bind_no_panic; [apply H|]. intros j _. apply bind_no_panic; [exact IH|]. reflexivity.
Qed.

Lemma enc_entries_np : forall (enck encv : value -> res json) kvs,
  (forall v, is_panic (enck v) = false) -> (forall v, is_panic (encv v) = false) ->
  is_panic (enc_entries enck encv kvs) = false.
Proof.
  intros enck encv kvs Hk Hv. induction kvs as [|[k v] r IH]; [reflexivity|]. cbn [enc_entries].
  apply bind_no_panic; [apply Hk|]. intros jk _. apply bind_no_panic; [apply Hv|]. intros jv _.
  destruct jk; try reflexivity. apply bind_no_panic; [exact IH|]. reflexivity.
Qed.

Theorem jencode_no_panic : forall s v, is_panic (jencode s v) = false.
Proof.
  induction s using schema_ind'; intros v; cbn [jencode].
  1-9: destruct v; reflexivity.
  - assert (B : forall x, is_panic (match x with
                           | VList vs => if fields_ok fs then let* kvs := enc_fields jencode fs vs in Ok (JObj (code_entry code ++ kvs))
                                         else Err EUnsupported
                           | _ => Err EType end) = false).
    { intros x. destruct x; try reflexivity. destruct (fields_ok fs); [|reflexivity].
      apply bind_no_panic; [|reflexivity]. apply enc_fields_np. exact H. }
    destruct ptr; [destruct v; try reflexivity|]; apply B.
  - destruct v; try reflexivity. apply bind_no_panic; [|reflexivity]. apply enc_list_np. exact IHs.
  - destruct v; try reflexivity. destruct (Nat.eqb (List.length l) n); [|reflexivity].
    apply bind_no_panic; [|reflexivity]. apply enc_list_np. exact IHs.
  - destruct v; try reflexivity. apply bind_no_panic; [|reflexivity]. apply enc_entries_np; assumption.
  - destruct v; try reflexivity. destruct alts as [|a0 r0] eqn:Ea; [reflexivity|]. rewrite <- Ea in *.
    apply find_alt_np. eapply Forall_impl; [|exact H]. intros a Ha. apply Ha.
  - destruct ptr; [destruct v; try reflexivity|]; destruct v; reflexivity.
  - destruct v; reflexivity.
Qed.

Theorem jencode_top_no_panic : forall s v, is_panic (jencode_top s v) = false.
Proof.
  intros s v. unfold jencode_top. apply bind_no_panic; [apply jencode_no_panic|]. intros j _. destruct j; reflexivity.
Qed.

(* regression: the two inputs on which the encoder panicked before 9d20a03 / bb76e84 *)
Example jencode_former_panics :
  jencode (SStruct false None [("m", FReq, SArr 1 (SMap (SNum U16) SBool))]%string)
          (VList [VList [VMap [(VInt 1, VBool true)]]]) = Err EUnsupported /\
  jencode (SStruct false None [("b", FReq, SU256)]%string) (VList [VNil]) = Err ENil.
Proof. split; vm_compute; reflexivity. Qed.

(* The pinned code (before 4262ca0 / 81cafca) did panic: the D02b probe inputs. *)
Definition pinned_schema : schema :=
  SStruct false None [("i8", FReq, SNum I8); ("b", FReq, SBool); ("i64", FReq, SI64); ("bs", FReq, SBytes);
                      ("sl", FReq, SSlice (SNum I8)); ("t", FReq, STime); ("aI", FReq, SArr 2 (SNum I8))]%string.
Definition pinned_doc (k : string) (j : json) : json :=
  JObj (map (fun kv : string * json => if String.eqb (fst kv) k then (k, j) else kv)
          [("i8", JNum 1); ("b", JBool true); ("i64", JStr "3"); ("bs", JStr "0x01");
           ("sl", JArr [JNum 1]); ("t", JStr "5"); ("aI", JArr [])]%string).

Lemma refuted_pinned :
  jdecode false pinned_schema (pinned_doc "i8" (JStr "x")) = Panic /\
  jdecode false pinned_schema (pinned_doc "b" JNull) = Panic /\
  jdecode false pinned_schema (pinned_doc "i64" (JNum 3)) = Panic /\
  jdecode false pinned_schema (pinned_doc "bs" (JNum 1)) = Panic /\
  jdecode false pinned_schema (pinned_doc "sl" (JNum 1)) = Panic /\
  jdecode false pinned_schema (pinned_doc "sl" (JObj [("a", JNum 1)]%string)) = Panic /\
  jdecode false pinned_schema (pinned_doc "t" (JNum 5)) = Panic /\
  jdecode false pinned_schema (pinned_doc "aI" (JArr [JNum 5; JNum 6])) = Panic.
Proof. vm_compute. repeat split. Qed.

(* ... and the same inputs are errors now. *)
Lemma pinned_inputs_fixed :
  forall k j, is_panic (jdecode true pinned_schema (pinned_doc k j)) = false.
Proof. intros. apply jdecode_no_panic. Qed.
