(* Structural induction principle for the nested [schema] type, and basic facts about [res]. *)
From Coq Require Import ZArith NArith List Bool String Ascii.
From Verif.C01_SerixJson Require Import Model.
Import ListNotations.

Section SchemaInd.
  Variable P : schema -> Prop.
  Hypothesis HBool : P SBool.
  Hypothesis HNum : forall k, P (SNum k).
  Hypothesis HI64 : P SI64.
  Hypothesis HU64 : P SU64.
  Hypothesis HString : P SString.
  Hypothesis HBytes : P SBytes.
  Hypothesis HByteArr : forall n, P (SByteArr n).
  Hypothesis HU256 : P SU256.
  Hypothesis HTime : P STime.
  Hypothesis HStruct : forall ptr code fs,
      Forall (fun f : string * fmode * schema => P (snd f)) fs -> P (SStruct ptr code fs).
  Hypothesis HSlice : forall e, P e -> P (SSlice e).
  Hypothesis HArr : forall n e, P e -> P (SArr n e).
  Hypothesis HMap : forall k v, P k -> P v -> P (SMap k v).
  Hypothesis HIface : forall alts, Forall (fun a : N * schema => P (snd a)) alts -> P (SIface alts).
  Hypothesis HByteArrO : forall ptr n code key, P (SByteArrO ptr n code key).
  Hypothesis HBytesO : forall code key named, P (SBytesO code key named).

  Fixpoint schema_ind' (s : schema) : P s :=
    match s with
    | SBool => HBool | SNum k => HNum k | SI64 => HI64 | SU64 => HU64 | SString => HString
    | SBytes => HBytes | SByteArr n => HByteArr n | SU256 => HU256 | STime => HTime
    | SStruct ptr code fs =>
        HStruct ptr code fs
          ((fix go (l : list (string * fmode * schema)) : Forall (fun f => P (snd f)) l :=
              match l with
              | [] => Forall_nil _
              | (k, m, x) :: r => Forall_cons (k, m, x) (schema_ind' x) (go r)
              end) fs)
    | SSlice e => HSlice e (schema_ind' e)
    | SArr n e => HArr n e (schema_ind' e)
    | SMap k v => HMap k v (schema_ind' k) (schema_ind' v)
    | SIface alts =>
        HIface alts
          ((fix go (l : list (N * schema)) : Forall (fun a => P (snd a)) l :=
              match l with
              | [] => Forall_nil _
              | (c, x) :: r => Forall_cons (c, x) (schema_ind' x) (go r)
              end) alts)
    | SByteArrO ptr n code key => HByteArrO ptr n code key
    | SBytesO code key named => HBytesO code key named
    end.
End SchemaInd.

Definition is_panic {A} (r : res A) : bool := match r with Panic => true | _ => false end.

Lemma bind_no_panic : forall A B (r : res A) (f : A -> res B),
  is_panic r = false -> (forall a, r = Ok a -> is_panic (f a) = false) -> is_panic (bind r f) = false.
Proof. intros A B [a|e|] f H1 H2; simpl in *; auto. Qed.
