(* C01/C02, JSON (map) form of serix: executable model of
     /repo/serializer/serix/map_encode.go  (mapEncode, mapEncodeBasedOnType, mapEncodeStruct(Fields),
                                            mapEncodeSlice, mapEncodeMap, mapEncodeInterface)
     /repo/serializer/serix/map_decode.go  (mapDecode, mapDecodeBasedOnType, float64NumParser, strNumParser,
                                            mapDecodeStruct(Fields), mapDecodeSlice, mapDecodeArray,
                                            mapDecodeMap, mapDecodeInterface)
     /repo/serializer/serix/numbers.go     (EncodeHex, DecodeHex, EncodeUint256, DecodeUint256)
     /repo/serializer/serializer.go        (TimeToUint64)
     serix.go JSONEncode/JSONDecode/MapEncode/MapDecode (the *_top wrappers)
   after the fix: commits 4262ca0 (D02b), 81cafca (arrays of non-byte elements), 8fc6fcd (GetByValue),
   9d20a03 (map key that does not encode to a string: error, was an encoder panic), bb76e84 (nil *big.Int: error,
   was an encoder panic), a85045b (map entries written in the order of their encoded keys: a [VMap] lists the entries of the Go map in
   that order - the harness prints them so -, and [jencode] emits them in list order).
   The parameter [fx : bool] selects the code as it is now ([true]) or as it was pinned ([false]: the
   unchecked type assertions / reflect calls of map_decode.go produce [Panic]).

   The [json] tree is what encoding/json hands to MapDecode (map[string]any / []any / float64 / string /
   bool / nil): a number is a float64, [JNum z] when it is integral, [JFrac t] when it is not (t = its
   truncation toward zero, which is all the code looks at); [JHuge] is a number literal outside the
   float64 range (json.Unmarshal rejects the document).  Strings are byte strings (Coq [string]). *)
From Coq Require Import ZArith NArith List Bool String Ascii.
Import ListNotations.
Open Scope Z_scope.

(* ---------- outcomes ---------- *)
Inductive eclass :=
| EShape        (* JSON value of the wrong kind *)
| ESyntax       (* hex / decimal string does not parse *)
| ERange        (* number string out of range *)
| EMissing      (* missing key *)
| ECode         (* type code missing its registration / not the registered one *)
| EDup          (* map key decoded twice *)
| ECount        (* array element count *)
| ENil          (* nil pointer / nil interface on the encode side *)
| ETop          (* top level is not an object *)
| EUnsupported  (* type that serix cannot map-encode/decode here *)
| EType.        (* ill-typed model value (no Go counterpart) *)

Inductive res (A : Type) := Ok (a : A) | Err (e : eclass) | Panic.
Arguments Ok {A} _. Arguments Err {A} _. Arguments Panic {A}.

Definition bind {A B} (r : res A) (f : A -> res B) : res B :=
  match r with Ok a => f a | Err e => Err e | Panic => Panic end.
Notation "'let*' x ':=' r 'in' k" := (bind r (fun x => k)) (at level 200, x pattern, right associativity).

(* ---------- JSON trees, schemas, values ---------- *)
Inductive json :=
| JNull | JBool (b : bool) | JNum (z : Z) | JFrac (t : Z) | JHuge | JStr (s : string)
| JArr (l : list json) | JObj (l : list (string * json)).

Inductive nk := I8 | I16 | I32 | U8 | U16 | U32.      (* encoded as JSON numbers *)
Inductive fmode := FReq | FOptional | FOmit           (* serix tags "optional" / "omitempty" *)
                 | FInline.                            (* "inlined" field, or embedded struct (then the schema of the
                                                          field carries no code: its type settings are not consulted):
                                                          the entries live in the parent object; the field key is unused *)

Inductive schema :=
| SBool | SNum (k : nk) | SI64 | SU64                 (* int64/uint64: decimal strings *)
| SString | SBytes | SByteArr (n : nat)               (* []byte / [n]byte: hex strings *)
| SU256                                               (* *big.Int: 0x-hex number string *)
| STime                                               (* time.Time: decimal string of unix nanoseconds *)
| SStruct (ptr : bool) (code : option N) (fs : list (string * fmode * schema))
                                                      (* struct or *struct; registered object code; (key, mode, type) *)
| SSlice (e : schema) | SArr (n : nat) (e : schema)   (* []T, [n]T for non-byte T *)
| SMap (k v : schema)
| SIface (alts : list (N * schema))                   (* interface with registered (code, type) alternatives *)
| SByteArrO (ptr : bool) (n : nat) (code : option N) (key : string)
                                                      (* [n]byte whose registered type settings carry an object code
                                                         (written as the object {"type": code, key: hex}) and/or which
                                                         sits behind a pointer; [key] is the effective inner key: the
                                                         explicit tag key of the struct field holding a by-value array,
                                                         else the registered field key, else "data" *)
| SBytesO (code : N) (key : string) (named : bool).   (* []byte whose registered type settings carry an object code:
                                                         object form as well; [key] as for SByteArrO. [named]: the
                                                         element type is a named byte type (`type B uint8; []B`): not
                                                         assignable to []byte, so besides the object form (c016509) the
                                                         decoder takes a list of numbers instead of a bare hex string *)

Inductive value :=
| VBool (b : bool) | VInt (z : Z) | VStr (s : string)
| VList (l : list value)                              (* struct fields in serix order / slice / array elements *)
| VMap (l : list (value * value))
| VNil | VPtr (v : value)                             (* pointer to struct; nil *big.Int; nil interface *)
| VIface (code : N) (v : value).                      (* interface holding the alternative registered under [code] *)

(* ---------- float64 -> integer conversions of float64NumParser (gc/amd64: CVTTSD2SL / CVTTSD2SQ) ---------- *)
Definition cvt32 (t : Z) : Z := if (-2147483648 <=? t) && (t <? 2147483648) then t else -2147483648.
Definition cvt64 (t : Z) : Z :=
  if (-9223372036854775808 <=? t) && (t <? 9223372036854775808) then t else -9223372036854775808.
Definition wrap_s (half : Z) (x : Z) : Z := let m := x mod (2 * half) in if m <? half then m else m - 2 * half.
Definition conv (k : nk) (t : Z) : Z :=
  match k with
  | I8 => wrap_s 128 (cvt32 t) | I16 => wrap_s 32768 (cvt32 t) | I32 => cvt32 t
  | U8 => cvt32 t mod 256 | U16 => cvt32 t mod 65536 | U32 => cvt64 t mod 4294967296
  end.
Definition in_range (k : nk) (z : Z) : bool :=
  match k with
  | I8 => (-128 <=? z) && (z <? 128) | I16 => (-32768 <=? z) && (z <? 32768)
  | I32 => (-2147483648 <=? z) && (z <? 2147483648)
  | U8 => (0 <=? z) && (z <? 256) | U16 => (0 <=? z) && (z <? 65536) | U32 => (0 <=? z) && (z <? 4294967296)
  end.

(* ---------- digit strings ---------- *)
Definition decc (d : N) : ascii := ascii_of_N (48 + d).
Definition decv (c : ascii) : option N :=
  let n := N_of_ascii c in if ((48 <=? n) && (n <=? 57))%N then Some (n - 48)%N else None.
Definition hexc (d : N) : ascii := ascii_of_N (if (d <? 10)%N then 48 + d else 87 + d).
Definition hexv (c : ascii) : option N :=
  let n := N_of_ascii c in
  if ((48 <=? n) && (n <=? 57))%N then Some (n - 48)%N
  else if ((97 <=? n) && (n <=? 102))%N then Some (n - 87)%N
  else if ((65 <=? n) && (n <=? 70))%N then Some (n - 55)%N else None.

Fixpoint digits_fuel (b : N) (dc : N -> ascii) (fuel : nat) (n : N) (acc : string) : string :=
  match fuel with
  | O => acc
  | S f => let acc' := String (dc (n mod b)%N) acc in
           if (n / b =? 0)%N then acc' else digits_fuel b dc f (n / b)%N acc'
  end.
Definition print_base (b : N) (dc : N -> ascii) (n : N) : string :=
  digits_fuel b dc (S (N.to_nat (N.log2 n))) n EmptyString.
Fixpoint parse_digits (b : N) (cd : ascii -> option N) (s : string) (acc : N) : option N :=
  match s with
  | EmptyString => Some acc
  | String c r => match cd c with Some d => parse_digits b cd r (acc * b + d)%N | None => None end
  end.

(* strconv.FormatUint/FormatInt base 10, strconv.ParseUint/ParseInt (s, 10, 64) *)
Definition fmt_uint (n : N) : string := print_base 10 decc n.
Definition fmt_int (z : Z) : string :=
  if z <? 0 then String "-"%char (fmt_uint (Z.to_N (- z))) else fmt_uint (Z.to_N z).
Definition parse_unum (s : string) : option N :=
  match s with EmptyString => None | _ => parse_digits 10 decv s 0%N end.
Definition parse_uint64 (s : string) : res Z :=
  match parse_unum s with
  | None => Err ESyntax
  | Some n => if (n <? 18446744073709551616)%N then Ok (Z.of_N n) else Err ERange
  end.
Definition parse_int64 (s : string) : res Z :=
  match s with
  | EmptyString => Err ESyntax
  | String c r =>
      let neg := Ascii.eqb c "-"%char in
      let body := if Ascii.eqb c "+"%char || neg then r else s in
      match parse_unum body with
      | None => Err ESyntax
      | Some n =>
          if neg then (if (n <=? 9223372036854775808)%N then Ok (- Z.of_N n) else Err ERange)
          else (if (n <? 9223372036854775808)%N then Ok (Z.of_N n) else Err ERange)
      end
  end.

(* serix.EncodeHex / DecodeHex (hexutil.Encode/Decode + the empty-string special case) *)
Fixpoint hex_body (s : string) : string :=
  match s with
  | EmptyString => EmptyString
  | String c r => let n := N_of_ascii c in String (hexc (n / 16)%N) (String (hexc (n mod 16)%N) (hex_body r))
  end.
Definition encode_hex (b : string) : string :=
  match b with EmptyString => EmptyString | _ => String "0"%char (String "x"%char (hex_body b)) end.
Fixpoint unhex_body (s : string) : option string :=
  match s with
  | EmptyString => Some EmptyString
  | String a (String b r) =>
      match hexv a, hexv b, unhex_body r with
      | Some x, Some y, Some t => Some (String (ascii_of_N (16 * x + y)) t)
      | _, _, _ => None
      end
  | String _ EmptyString => None
  end.
Definition strip0x (s : string) : option string :=
  match s with
  | String a (String b r) =>
      if Ascii.eqb a "0"%char && (Ascii.eqb b "x"%char || Ascii.eqb b "X"%char) then Some r else None
  | _ => None
  end.
Definition decode_hex (s : string) : res string :=
  match s with
  | EmptyString => Ok EmptyString                      (* hexutil.ErrEmptyString is mapped to []byte{} *)
  | _ => match strip0x s with
         | None => Err ESyntax
         | Some r => match unhex_body r with Some b => Ok b | None => Err ESyntax end
         end
  end.

(* hexutil.EncodeBig / DecodeBig (non-negative numbers) *)
Definition encode_big (n : N) : string := String "0"%char (String "x"%char (print_base 16 hexc n)).
Definition decode_big (s : string) : res Z :=
  match s with
  | EmptyString => Err ESyntax
  | _ => match strip0x s with
         | None => Err ESyntax
         | Some EmptyString => Err ESyntax
         | Some (String c r as raw) =>
             if Ascii.eqb c "0"%char && negb (String.eqb r EmptyString) then Err ESyntax   (* leading zero *)
             else if (64 <? String.length raw)%nat then Err ERange
             else match parse_digits 16 hexv raw 0%N with Some n => Ok (Z.of_N n) | None => Err ESyntax end
         end
  end.

(* serializer.TimeToUint64: clamp to [0, MaxInt64] nanoseconds *)
Definition clamp_time (z : Z) : Z :=
  if z <? 0 then 0 else if 9223372036854775807 <? z then 9223372036854775807 else z.
Definition wrap_i64 (z : Z) : Z := if z <? 9223372036854775808 then z else z - 18446744073709551616.

(* copy(array[:], bytes): the first n bytes, zero padded *)
Fixpoint fit (n : nat) (s : string) : string :=
  match n with
  | O => EmptyString
  | S m => match s with
           | EmptyString => String zero (fit m EmptyString)
           | String c r => String c (fit m r)
           end
  end.

(* ---------- small helpers ---------- *)
Fixpoint jlookup (k : string) (o : list (string * json)) : option json :=
  match o with [] => None | (k', j) :: r => if String.eqb k k' then Some j else jlookup k r end.

Definition is_nil (v : value) : bool := match v with VNil => true | _ => false end.
Definition is_opt (m : fmode) : bool := match m with FOptional => true | _ => false end.
Definition is_omit (m : fmode) : bool := match m with FOmit => true | _ => false end.
Definition is_inline (m : fmode) : bool := match m with FInline => true | _ => false end.

(* parseStructFields: "optional" only on pointers and interfaces *)
Definition nilable (s : schema) : bool :=
  match s with SStruct true _ _ | SIface _ | SU256 | SByteArrO true _ _ _ => true | _ => false end.
Definition fields_ok (fs : list (string * fmode * schema)) : bool :=
  forallb (fun f => match f with (_, m, s) => negb (is_opt m) || nilable s end) fs.

Definition key_type : string := "type".
Definition code_entry (code : option N) : list (string * json) :=
  match code with Some c => [(key_type, JNum (Z.of_N c))] | None => [] end.

(* mapDecodeStruct: `castedMapObjectCode, ok := m["type"].(float64); !ok || uint32(casted) != objectCode` *)
Definition check_code (code : option N) (o : list (string * json)) : option eclass :=
  match code with
  | None => None
  | Some c =>
      match jlookup key_type o with
      | None => Some EMissing
      | Some (JNum z) | Some (JFrac z) => if conv U32 z =? Z.of_N c then None else Some ECode
      | Some _ => Some ECode
      end
  end.

(* map keys of the fragment are scalars: equality of decoded keys (value.MapIndex(key).IsValid()) *)
Definition key_eqb (a b : value) : bool :=
  match a, b with
  | VInt x, VInt y => x =? y
  | VStr x, VStr y => String.eqb x y
  | VBool x, VBool y => Bool.eqb x y
  | _, _ => false
  end.

Definition shape_err {A} (fx : bool) : res A := if fx then Err EShape else Panic.

(* What the pinned mapDecodeSlice made of a non-array JSON value through reflect.ValueOf(v).Len()/Index(i):
   "" and {} are empty sequences, a non-empty string is a sequence of uint8 (which every element decoder
   treats like a value of no JSON kind, i.e. like null), everything else panics. *)
Definition seq_view (fx : bool) (j : json) : res (list json) :=
  match j with
  | JArr l => Ok l
  | _ => if fx then Err EShape else
         match j with
         | JStr s => Ok (repeat JNull (String.length s))
         | JObj [] => Ok []
         | _ => Panic
         end
  end.

(* ---------- zero values: what a fresh destination holds (fields the decoder leaves untouched: a missing
   "omitempty" key; the pinned array path) and reflect.Value.IsZero / API.isValueEmpty ---------- *)
Definition zero_time : Z := -62135596800000000000.    (* time.Time{} = 0001-01-01 00:00:00 UTC, in unix nanoseconds *)

Fixpoint zero_of (s : schema) : value :=
  match s with
  | SBool => VBool false
  | SNum _ | SI64 | SU64 => VInt 0
  | STime => VInt zero_time
  | SString | SBytes => VStr EmptyString
  | SByteArr n => VStr (fit n EmptyString)
  | SU256 | SIface _ => VNil
  | SStruct true _ _ => VNil
  | SStruct false _ fs => VList (map (fun f => match f with (_, _, s) => zero_of s end) fs)
  | SSlice _ => VList []
  | SArr n e => VList (repeat (zero_of e) n)
  | SMap _ _ => VMap []
  | SByteArrO true _ _ _ => VNil
  | SByteArrO false n _ _ => VStr (fit n EmptyString)
  | SBytesO _ _ _ => VStr EmptyString
  end.

Section FieldsZero.
Variable z : schema -> value -> bool.
Fixpoint fields_zero (fs : list (string * fmode * schema)) (vs : list value) : bool :=
  match fs, vs with
  | [], [] => true
  | (_, _, x) :: fr, v :: vr => z x v && fields_zero fr vr
  | _, _ => false
  end.
End FieldsZero.

(* isValueEmpty(v) = v.IsZero() || (slice && len 0).  The model identifies nil and empty slices / maps, so a slice is
   empty iff it has no elements; for a map (IsZero = nil, a non-nil empty map is NOT empty) and for slices nested in
   by-value structs / arrays (IsZero = nil) the identification loses information: "omitempty" on maps, arrays and
   by-value structs is outside [wf_schema] (see [omittable]). *)
Fixpoint is_empty (s : schema) (v : value) {struct s} : bool :=
  match s with
  | SBool => match v with VBool b => negb b | _ => false end
  | SNum _ | SI64 | SU64 => match v with VInt z => z =? 0 | _ => false end
  | STime => match v with VInt z => z =? zero_time | _ => false end
  | SString | SBytes => match v with VStr x => String.eqb x EmptyString | _ => false end
  | SByteArr n => match v with VStr x => String.eqb x (fit n EmptyString) | _ => false end
  | SU256 | SIface _ => is_nil v
  | SStruct true _ _ => is_nil v
  | SStruct false _ fs => match v with VList vs => fields_zero is_empty fs vs | _ => false end
  | SSlice _ => match v with VList [] => true | _ => false end
  | SArr _ e => match v with VList vs => forallb (is_empty e) vs | _ => false end
  | SMap _ _ => match v with VMap [] => true | _ => false end
  | SByteArrO true _ _ _ => is_nil v
  | SByteArrO false n _ _ => match v with VStr x => String.eqb x (fit n EmptyString) | _ => false end
  | SBytesO _ _ _ => match v with VStr x => String.eqb x EmptyString | _ => false end
  end.

(* field types on which the model value determines emptiness exactly *)
Definition omittable (s : schema) : bool :=
  match s with SMap _ _ | SArr _ _ | SStruct false _ _ => false | _ => true end.

(* ---------- higher-order traversals (the model functions recurse through them) ---------- *)
Section EncFields.
Variable enc : schema -> value -> res json.
Fixpoint enc_fields (fs : list (string * fmode * schema)) (vs : list value)
  : res (list (string * json)) :=
  match fs, vs with
  | [], [] => Ok []
  | (k, m, s) :: fr, v :: vr =>
      if (is_omit m && is_empty s v) || (is_opt m && is_nil v) then enc_fields fr vr   (* omitEmpty first, then optional *)
      else let* j := enc s v in
           let* r := enc_fields fr vr in
           if is_inline m then
             match j with JObj kvs => Ok (kvs ++ r) | _ => Err EUnsupported end   (* "failed to cast inlined struct field" *)
           else Ok ((k, j) :: r)
  | _, _ => Err EType
  end.
End EncFields.

Section EncList.
Variable enc : value -> res json.
Fixpoint enc_list (vs : list value) : res (list json) :=
  match vs with
  | [] => Ok []
  | v :: r => let* j := enc v in let* js := enc_list r in Ok (j :: js)
  end.
End EncList.

Section EncEntries.
Variables enck encv : value -> res json.
Fixpoint enc_entries (kvs : list (value * value)) : res (list (string * json)) :=
  match kvs with
  | [] => Ok []
  | (k, v) :: r =>
      let* jk := enck k in
      let* jv := encv v in
      match jk with
      | JStr ks => let* rs := enc_entries r in Ok ((ks, jv) :: rs)
      | _ => Err EUnsupported                          (* map_encode.go: `keyStr, ok := k.(string)` (9d20a03; was an
                                                          unchecked assertion: panic on e.g. map[uint16]T) *)
      end
  end.
End EncEntries.

Section DecFields.
Variable dec : schema -> json -> res value.
Variable o : list (string * json).
Fixpoint dec_fields (fs : list (string * fmode * schema)) : res (list value) :=
  match fs with
  | [] => Ok []
  | (k, m, s) :: fr =>
      if is_inline m then let* v := dec s (JObj o) in let* r := dec_fields fr in Ok (v :: r) else
      match jlookup k o with
      | None => if is_opt m then let* r := dec_fields fr in Ok (VNil :: r)
                else if is_omit m then let* r := dec_fields fr in Ok (zero_of s :: r)   (* field left untouched *)
                else Err EMissing
      | Some j => let* v := dec s j in let* r := dec_fields fr in Ok (v :: r)
      end
  end.
End DecFields.

Section DecList.
Variable dec : json -> res value.
Fixpoint dec_list (l : list json) : res (list value) :=
  match l with
  | [] => Ok []
  | j :: r => let* v := dec j in let* vs := dec_list r in Ok (v :: vs)
  end.
End DecList.

Section DecEntries.
Variables deck decv : json -> res value.
Fixpoint dec_entries (o : list (string * json)) (seen : list value)
  : res (list (value * value)) :=
  match o with
  | [] => Ok []
  | (ks, jv) :: r =>
      let* k := deck (JStr ks) in
      if existsb (key_eqb k) seen then Err EDup
      else let* v := decv jv in let* rs := dec_entries r (k :: seen) in Ok ((k, v) :: rs)
  end.
End DecEntries.

Section FindAlt.
Context {A : Type}.
Variable f : schema -> res A.
Variable c : N.
Fixpoint find_alt (alts : list (N * schema)) : res A :=
  match alts with
  | [] => Err ECode
  | (c', s) :: r => if (c =? c')%N then f s else find_alt r
  end.
End FindAlt.

(* ---------- mapEncode ---------- *)
Fixpoint jencode (s : schema) (v : value) {struct s} : res json :=
  match s with
  | SBool => match v with VBool b => Ok (JBool b) | _ => Err EType end
  | SNum _ => match v with VInt z => Ok (JNum z) | _ => Err EType end
  | SI64 => match v with VInt z => Ok (JStr (fmt_int z)) | _ => Err EType end
  | SU64 => match v with VInt z => Ok (JStr (fmt_uint (Z.to_N z))) | _ => Err EType end
  | SString => match v with VStr x => Ok (JStr x) | _ => Err EType end
  | SBytes | SByteArr _ => match v with VStr x => Ok (JStr (encode_hex x)) | _ => Err EType end
  | SU256 => match v with
             | VInt z => Ok (JStr (encode_big (Z.to_N z)))
             | VNil => Err ENil                        (* ErrUint256Nil (bb76e84; was hexutil.EncodeBig(nil): panic) *)
             | _ => Err EType
             end
  | STime => match v with VInt z => Ok (JStr (fmt_uint (Z.to_N (clamp_time z)))) | _ => Err EType end
  | SStruct ptr code fs =>
      let body (x : value) :=
        match x with
        | VList vs =>
            if fields_ok fs then let* kvs := enc_fields jencode fs vs in Ok (JObj (code_entry code ++ kvs))
            else Err EUnsupported
        | _ => Err EType
        end in
      if ptr then match v with VNil => Err ENil | VPtr x => body x | _ => Err EType end else body v
  | SSlice e => match v with VList vs => let* js := enc_list (jencode e) vs in Ok (JArr js) | _ => Err EType end
  | SArr n e =>
      match v with
      | VList vs => if Nat.eqb (List.length vs) n then let* js := enc_list (jencode e) vs in Ok (JArr js) else Err EType
      | _ => Err EType
      end
  | SMap ks vs =>
      match v with
      | VMap kvs => let* es := enc_entries (jencode ks) (jencode vs) kvs in Ok (JObj es)
      | _ => Err EType
      end
  | SIface alts =>
      match v with
      | VNil => Err ENil
      | VIface c x => match alts with [] => Err EUnsupported | _ => find_alt (fun a => jencode a x) c alts end
      | _ => Err EType
      end
  | SByteArrO ptr n code key =>                        (* mapEncodeSlice: `if ts.ObjectType() != nil` *)
      let body (x : value) :=
        match x with
        | VStr b => Ok (match code with
                        | Some c => JObj [(key_type, JNum (Z.of_N c)); (key, JStr (encode_hex b))]
                        | None => JStr (encode_hex b)
                        end)
        | _ => Err EType
        end in
      if ptr then match v with VNil => Err ENil | VPtr x => body x | _ => Err EType end else body v
  | SBytesO code key _ =>
      match v with
      | VStr b => Ok (JObj [(key_type, JNum (Z.of_N code)); (key, JStr (encode_hex b))])
      | _ => Err EType
      end
  end.

(* a slice of a named byte type read element-wise (mapDecodeSlice generic path, elements of kind uint8) *)
Fixpoint dec_byte_list (fx : bool) (l : list json) : res string :=
  match l with
  | [] => Ok EmptyString
  | j :: r =>
      match j with
      | JNum z | JFrac z => let* t := dec_byte_list fx r in Ok (String (ascii_of_N (Z.to_N (conv U8 z))) t)
      | _ => shape_err fx
      end
  end.

(* ---------- mapDecode ---------- *)
Fixpoint jdecode (fx : bool) (s : schema) (j : json) {struct s} : res value :=
  match s with
  | SBool => match j with JBool b => Ok (VBool b) | _ => shape_err fx end
  | SNum k => match j with JNum z | JFrac z => Ok (VInt (conv k z)) | _ => shape_err fx end
  | SI64 => match j with JStr x => let* z := parse_int64 x in Ok (VInt z) | _ => shape_err fx end
  | SU64 => match j with JStr x => let* z := parse_uint64 x in Ok (VInt z) | _ => shape_err fx end
  | SString => match j with JStr x => Ok (VStr x) | _ => Err EShape end
  | SBytes => match j with JStr x => let* b := decode_hex x in Ok (VStr b) | _ => shape_err fx end
  | SByteArr n => match j with JStr x => let* b := decode_hex x in Ok (VStr (fit n b)) | _ => shape_err fx end
  | SU256 => match j with JStr x => let* z := decode_big x in Ok (VInt z) | _ => Err EShape end
  | STime => match j with JStr x => let* z := parse_uint64 x in Ok (VInt (wrap_i64 z)) | _ => shape_err fx end
  | SStruct ptr code fs =>
      match j with
      | JObj o =>
          match check_code code o with
          | Some e => Err e
          | None =>
              if fields_ok fs then
                let* vs := dec_fields (jdecode fx) o fs in Ok (if ptr then VPtr (VList vs) else VList vs)
              else Err EUnsupported
          end
      | _ => Err EShape
      end
  | SSlice e => let* l := seq_view fx j in let* vs := dec_list (jdecode fx e) l in Ok (VList vs)
  | SArr n e =>
      let* l := seq_view fx j in
      if fx then
        let* vs := dec_list (jdecode fx e) l in
        if Nat.eqb (List.length vs) n then Ok (VList vs) else Err ECount
      else (* pinned: the first decoded element is appended to a non-addressable slice (panic), the array stays zero *)
        match l with
        | [] => Ok (VList (repeat (zero_of e) n))
        | x :: _ => let* _ := jdecode fx e x in Panic
        end
  | SMap ks vs =>
      match j with
      | JObj o => let* es := dec_entries (jdecode fx ks) (jdecode fx vs) o [] in Ok (VMap es)
      | _ => Err EShape
      end
  | SIface alts =>
      match alts with
      | [] => Err EUnsupported                         (* interface not registered *)
      | _ =>
          match j with
          | JObj o =>
              match jlookup key_type o with
              | None => Err EMissing
              | Some (JNum z) | Some (JFrac z) =>
                  let* x := find_alt (fun a => jdecode fx a j) (Z.to_N (conv U32 z)) alts in
                  Ok (VIface (Z.to_N (conv U32 z)) x)
              | Some _ => shape_err fx
              end
          | _ => Err EShape
          end
      end
  | SByteArrO ptr n code key =>
      (* after b4a46ea / 74faee1 the decoder mirrors the encoder: bare hex string without an object type, object form
         with one (behind a pointer: only that form; by value also the bare string); the "type" entry of the object form
         is verified like that of a struct (221b25a, 56e687c).
         Before ([fx = false]): *[n]byte needed registered type settings and the object form; a by-value array had
         to be a string (unchecked assertion). *)
      let hex (x : string) := let* b := decode_hex x in Ok (VStr (fit n b)) in
      let fromobj (o : list (string * json)) :=
        match jlookup key o with Some (JStr x) => hex x | _ => Err EShape end in
      if ptr then
        let* r := match code, j with
                  | None, JStr x => if fx then hex x else Err EUnsupported
                  | Some _, JObj o => if fx then match check_code code o with Some e => Err e | None => fromobj o end
                                      else fromobj o   (* "type" verified since 56e687c *)
                  | None, JObj o => if fx then Err EShape else fromobj o
                  | _, _ => Err EShape
                  end in Ok (VPtr r)
      else
        match j with
        | JStr x => hex x
        | JObj o => match code with
                    | Some _ => if fx then match check_code code o with Some e => Err e | None => fromobj o end else Panic
                    | None => shape_err fx
                    end
        | _ => shape_err fx
        end
  | SBytesO code key named =>                          (* mapDecodeSlice after c9f8064 / 221b25a / c016509 *)
      let objform (o : list (string * json)) :=
        match check_code (Some code) o with
        | Some e => Err e
        | None => match jlookup key o with
                  | Some (JStr x) => let* b := decode_hex x in Ok (VStr b)
                  | _ => Err EShape
                  end
        end in
      let elems := let* l := seq_view fx j in let* b := dec_byte_list fx l in Ok (VStr b) in
      match j with
      | JObj o => if fx then objform o else if named then elems else Panic
      | JStr x => if named then elems else let* b := decode_hex x in Ok (VStr b)
      | _ => if named then elems else shape_err fx
      end
  end.

(* ---------- JSONEncode / JSONDecode (top level) ---------- *)
Fixpoint json_ok (j : json) : bool :=
  match j with
  | JHuge => false
  | JArr l => forallb json_ok l
  | JObj o => forallb (fun kv => json_ok (snd kv)) o
  | _ => true
  end.

(* MapEncode: the result must be an *orderedmap.OrderedMap *)
Definition jencode_top (s : schema) (v : value) : res json :=
  let* j := jencode s v in match j with JObj _ => Ok j | _ => Err ETop end.

(* JSONDecode(data, &x) with x of struct type: json.Unmarshal(data, &map[string]any{}) then MapDecode.
   `null` leaves the map empty; any other non-object or an unrepresentable number fails in encoding/json. *)
Definition jdecode_top (fx : bool) (s : schema) (j : json) : res value :=
  if negb (json_ok j) then Err ETop else
  match s with
  | SStruct false _ _ =>
      match j with
      | JObj _ => jdecode fx s j
      | JNull => jdecode fx s (JObj [])
      | _ => Err ETop
      end
  | _ => Err EUnsupported                              (* only struct destinations are modelled at top level *)
  end.

(* ---------- typing of values (the domain of the round-trip theorem) ---------- *)
Definition key_schema (s : schema) : bool :=
  match s with SString | SI64 | SU64 | STime | SByteArr _ => true | _ => false end.
Definition is_u8 (s : schema) : bool := match s with SNum U8 => true | _ => false end.

Fixpoint str_nodup (l : list string) : bool :=
  match l with [] => true | k :: r => negb (existsb (String.eqb k) r) && str_nodup r end.
Fixpoint code_nodup (l : list N) : bool :=
  match l with [] => true | c :: r => negb (existsb (N.eqb c) r) && code_nodup r end.
Definition fkey (f : string * fmode * schema) : string := fst (fst f).

(* the keys a struct schema writes into / reads from its object: "type" when it has a code, its field keys, and
   those of its inlined / embedded struct fields *)
Definition code_keys (code : option N) : list string := match code with Some _ => [key_type] | None => [] end.
Fixpoint skeys (s : schema) : list string :=
  match s with
  | SStruct _ code fs =>
      code_keys code ++
      (fix go (l : list (string * fmode * schema)) : list string :=
         match l with
         | [] => []
         | (k, m, x) :: r => (if is_inline m then skeys x else [k]) ++ go r
         end) fs
  | _ => []
  end.
Definition fkeys (f : string * fmode * schema) : list string :=
  match f with (k, m, x) => if is_inline m then skeys x else [k] end.
Definition flat_keys (fs : list (string * fmode * schema)) : list string := List.concat (map fkeys fs).
Definition is_struct (s : schema) : bool := match s with SStruct _ _ _ => true | _ => false end.

(* the object code an interface alternative is registered under: a struct (by value or pointer) or a byte array
   (by value or pointer) whose type settings carry an object code *)
Definition alt_code (s : schema) : option N :=
  match s with
  | SStruct _ (Some c) _ => Some c
  | SByteArrO _ _ (Some c) _ => Some c
  | SBytesO c _ _ => Some c
  | _ => None
  end.

(* Schemas on which the model is the code (what the harness generates): distinct field keys (those of inlined and
   embedded structs included), none equal to "type" in a struct with an object code, inlined fields are structs, codes are uint32, map keys encode to strings, []uint8 is SBytes,
   interface alternatives are structs or byte arrays (by value or behind a pointer) registered under their own distinct
   codes. *)
Fixpoint wf_schema (s : schema) : bool :=
  match s with
  | SStruct _ code fs =>
      fields_ok fs
      && forallb (fun f => match f with (_, m, x) => negb (is_omit m) || omittable x end) fs
      && forallb (fun f => match f with (_, m, x) => negb (is_inline m) || is_struct x end) fs
      && forallb (fun f => match f with (_, _, x) => wf_schema x end) fs
      && str_nodup (skeys s)
      && match code with Some c => (c <? 4294967296)%N | None => true end
  | SSlice e | SArr _ e => negb (is_u8 e) && wf_schema e
  | SMap k v => key_schema k && wf_schema v
  | SIface alts =>
      forallb (fun a => match a with
                        | (c, x) => match alt_code x with
                                    | Some c' => (c =? c')%N && wf_schema x
                                    | None => false
                                    end
                        end) alts
      && code_nodup (map fst alts)
  | SByteArrO _ _ code key =>
      match code with Some c => (c <? 4294967296)%N && negb (String.eqb key key_type) | None => true end
  | SBytesO c key _ => (c <? 4294967296)%N && negb (String.eqb key key_type)
  | _ => true
  end.

Fixpoint keys_nodup (l : list (value * value)) : bool :=
  match l with
  | [] => true
  | (k, _) :: r => negb (existsb (fun kv => key_eqb k (fst kv)) r) && keys_nodup r
  end.

Section FieldsType.
Variable ht : schema -> value -> bool.
Fixpoint fields_have_type (fs : list (string * fmode * schema)) (vs : list value) : bool :=
  match fs, vs with
  | [], [] => true
  | (_, m, x) :: fr, v :: vr =>
      ((is_omit m && is_empty x v) || (is_opt m && is_nil v) || ht x v) && fields_have_type fr vr
  | _, _ => false
  end.
Variable c : N.
Variable x : value.
Fixpoint alt_has_type (l : list (N * schema)) : bool :=
  match l with
  | [] => false
  | (c', a) :: r => if (c =? c')%N then ht a x else alt_has_type r
  end.
End FieldsType.

Fixpoint has_type (s : schema) (v : value) {struct s} : bool :=
  match s with
  | SBool => match v with VBool _ => true | _ => false end
  | SNum k => match v with VInt z => in_range k z | _ => false end
  | SI64 => match v with VInt z => (-9223372036854775808 <=? z) && (z <? 9223372036854775808) | _ => false end
  | SU64 => match v with VInt z => (0 <=? z) && (z <? 18446744073709551616) | _ => false end
  | SString | SBytes => match v with VStr _ => true | _ => false end
  | SByteArr n => match v with VStr x => Nat.eqb (String.length x) n | _ => false end
  | SU256 => match v with
             | VInt z => (0 <=? z)
                         && (z <? 115792089237316195423570985008687907853269984665640564039457584007913129639936)
             | _ => false
             end
  | STime => match v with VInt z => (0 <=? z) && (z <? 9223372036854775808) | _ => false end
  | SStruct ptr _ fs =>
      let body (x : value) := match x with VList vs => fields_have_type has_type fs vs | _ => false end in
      if ptr then match v with VPtr x => body x | _ => false end else body v
  | SSlice e => match v with VList vs => forallb (has_type e) vs | _ => false end
  | SArr n e => match v with VList vs => Nat.eqb (List.length vs) n && forallb (has_type e) vs | _ => false end
  | SMap ks vs =>
      match v with
      | VMap kvs => forallb (fun kv => has_type ks (fst kv) && has_type vs (snd kv)) kvs && keys_nodup kvs
      | _ => false
      end
  | SIface alts => match v with VIface c x => alt_has_type has_type c x alts | _ => false end
  | SByteArrO ptr n _ _ =>
      let body (x : value) := match x with VStr b => Nat.eqb (String.length b) n | _ => false end in
      if ptr then match v with VPtr x => body x | _ => false end else body v
  | SBytesO _ _ _ => match v with VStr _ => true | _ => false end
  end.

(* ---------- decidable equalities for the correspondence ---------- *)
Fixpoint json_eqb (a b : json) {struct a} : bool :=
  match a, b with
  | JNull, JNull | JHuge, JHuge => true
  | JBool x, JBool y => Bool.eqb x y
  | JNum x, JNum y | JFrac x, JFrac y => x =? y
  | JStr x, JStr y => String.eqb x y
  | JArr x, JArr y =>
      (fix go (x y : list json) : bool :=
         match x, y with [], [] => true | p :: x', q :: y' => json_eqb p q && go x' y' | _, _ => false end) x y
  | JObj x, JObj y =>
      (fix go (x y : list (string * json)) : bool :=
         match x, y with
         | [], [] => true
         | (k, p) :: x', (k', q) :: y' => String.eqb k k' && json_eqb p q && go x' y'
         | _, _ => false
         end) x y
  | _, _ => false
  end.

Fixpoint value_eqb (a b : value) {struct a} : bool :=
  match a, b with
  | VBool x, VBool y => Bool.eqb x y
  | VInt x, VInt y => x =? y
  | VStr x, VStr y => String.eqb x y
  | VList x, VList y =>
      (fix go (x y : list value) : bool :=
         match x, y with [], [] => true | p :: x', q :: y' => value_eqb p q && go x' y' | _, _ => false end) x y
  | VMap x, VMap y =>
      (fix go (x y : list (value * value)) : bool :=
         match x, y with
         | [], [] => true
         | (k, p) :: x', (k', q) :: y' => value_eqb k k' && value_eqb p q && go x' y'
         | _, _ => false
         end) x y
  | VNil, VNil => true
  | VPtr x, VPtr y => value_eqb x y
  | VIface c x, VIface c' y => (c =? c')%N && value_eqb x y
  | _, _ => false
  end.
