(* C16 - executable interleaving model of runtime/workerpool (workerpool.go, task.go) with the parts of
   runtime/syncutils/stack.go (Push, PopOrWait with the external wait condition, SignalShutdown) and counter.go
   (Increase/Decrease/WaitIsZero) that the pool uses.  No proofs in this file.

   Threads: the dispatcher, nw workers, and any number of external threads that each execute a list of operations
   (Submit t | Shutdown | Start | ShutdownComplete.Wait | PendingTasksCounter.WaitIsZero).  A task is a number t; when it
   is executed it submits the tasks `kids c t` (nested submits) one after the other and then is marked done.
   A step is (thread, choice); `choice` resolves the worker's inner `select` when both cases are ready.

   Granularity.  sync.RWMutex of the pool: writer-preferring as in Go (a writer first *announces* itself, which blocks new
   readers, then waits for the active readers) - fields readers/writer.  The mutex of the stack is held across steps only by
   the dispatcher inside PopOrWait (pcs DIn, DHold); Push and the pass-through of SignalShutdown are single steps that
   need it free.  Broadcasts are separate steps after the unlock, as in the code.  Counter.WaitIsZero and
   WaitGroup.Wait are modelled as steps that are enabled iff the condition holds (the condition-variable discipline of
   Counter is C17's subject).  The repairs are flags of the configuration: the pinned code has all of them false. *)
From Coq Require Import List ZArith Bool Arith Lia.
Import ListNotations.

Record cfg := mkCfg {
  nw : nat;                (* WithWorkerCount *)
  cancel : bool;           (* WithCancelPendingTasksOnShutdown *)
  fSubLock : bool;         (* 08483ad: Submit holds the read lock across check, count and push *)
  fCondFree : bool;        (* 08483ad: IsRunning() is an atomic load (no pool lock) *)
  fSigMx : bool;           (* 5281186: SignalShutdown passes through the stack mutex before Broadcast *)
  fStartOut : bool;        (* 23de4c9: Start serialised by startMutex, waits for the workers outside the pool lock *)
  fDrain : bool;           (* 861685d: Start drains stale shutdown signals *)
  prog : list (list nat)   (* kids of task t = nth t prog [] *)
}.

Definition kids (c : cfg) (t : nat) : list nat := nth t (prog c) [].

Definition pinned (n : nat) (cn : bool) (p : list (list nat)) := mkCfg n cn false false false false false p.
Definition repaired (n : nat) (cn : bool) (p : list (list nat)) := mkCfg n cn true true true true true p.

(* program counters inside Submit *)
Inductive spc := SChk | SInc | SPush | SBc | SUnl.

(* dispatcher *)
Inductive dpc := DLoop | DLock | DIn | DHold | DParked | DWoken | DSend (t : nat) | DWaitZ | DClose | DDead.

(* worker: outer select / inner select / executing task t (in handleShutdown iff drain; rest = kids still to submit,
   p = pc inside the Submit of the head of rest) / handleShutdown loop / terminated *)
Inductive wk := WOuter | WInner | WRun (drain : bool) (t : nat) (rest : list nat) (p : spc) | WDrain | WDead.

Inductive op := OSubmit (t : nat) | OShutdown | OStart | OWaitShutdown | OWaitZero.

Inductive epc :=
  | EIdle
  | ESub (t : nat) (p : spc)
  | EShAcq | EShBody | EShSend (k : nat) | EShBc | EShUnl
  | EStChk | EStWait | EStAnn | EStAcq | EStGo | EStUnl | EStRel.

Record ext := mkExt { epc_ : epc; ops : list op }.

Inductive thr := TD | TW (k : nat) | TE (j : nat).

Record st := mkSt {
  running : bool;
  readers : nat;
  writer : option nat;
  startmx : bool;
  queue : list nat;
  pending : Z;
  chanq : list nat;
  closed : bool;
  tokens : nat;
  disp : dpc;
  wks : list wk;
  exts : list ext;
  acc : list nat;
  ran : list nat;
  canc : list nat;
  rej : list nat }.

Definition set_running (v : bool) (s : st) : st := mkSt v (readers s) (writer s) (startmx s) (queue s) (pending s) (chanq s) (closed s) (tokens s) (disp s) (wks s) (exts s) (acc s) (ran s) (canc s) (rej s).
Definition set_readers (v : nat) (s : st) : st := mkSt (running s) v (writer s) (startmx s) (queue s) (pending s) (chanq s) (closed s) (tokens s) (disp s) (wks s) (exts s) (acc s) (ran s) (canc s) (rej s).
Definition set_writer (v : option nat) (s : st) : st := mkSt (running s) (readers s) v (startmx s) (queue s) (pending s) (chanq s) (closed s) (tokens s) (disp s) (wks s) (exts s) (acc s) (ran s) (canc s) (rej s).
Definition set_startmx (v : bool) (s : st) : st := mkSt (running s) (readers s) (writer s) v (queue s) (pending s) (chanq s) (closed s) (tokens s) (disp s) (wks s) (exts s) (acc s) (ran s) (canc s) (rej s).
Definition set_queue (v : list nat) (s : st) : st := mkSt (running s) (readers s) (writer s) (startmx s) v (pending s) (chanq s) (closed s) (tokens s) (disp s) (wks s) (exts s) (acc s) (ran s) (canc s) (rej s).
Definition set_pending (v : Z) (s : st) : st := mkSt (running s) (readers s) (writer s) (startmx s) (queue s) v (chanq s) (closed s) (tokens s) (disp s) (wks s) (exts s) (acc s) (ran s) (canc s) (rej s).
Definition set_chanq (v : list nat) (s : st) : st := mkSt (running s) (readers s) (writer s) (startmx s) (queue s) (pending s) v (closed s) (tokens s) (disp s) (wks s) (exts s) (acc s) (ran s) (canc s) (rej s).
Definition set_closed (v : bool) (s : st) : st := mkSt (running s) (readers s) (writer s) (startmx s) (queue s) (pending s) (chanq s) v (tokens s) (disp s) (wks s) (exts s) (acc s) (ran s) (canc s) (rej s).
Definition set_tokens (v : nat) (s : st) : st := mkSt (running s) (readers s) (writer s) (startmx s) (queue s) (pending s) (chanq s) (closed s) v (disp s) (wks s) (exts s) (acc s) (ran s) (canc s) (rej s).
Definition set_disp (v : dpc) (s : st) : st := mkSt (running s) (readers s) (writer s) (startmx s) (queue s) (pending s) (chanq s) (closed s) (tokens s) v (wks s) (exts s) (acc s) (ran s) (canc s) (rej s).
Definition set_wks (v : list wk) (s : st) : st := mkSt (running s) (readers s) (writer s) (startmx s) (queue s) (pending s) (chanq s) (closed s) (tokens s) (disp s) v (exts s) (acc s) (ran s) (canc s) (rej s).
Definition set_exts (v : list ext) (s : st) : st := mkSt (running s) (readers s) (writer s) (startmx s) (queue s) (pending s) (chanq s) (closed s) (tokens s) (disp s) (wks s) v (acc s) (ran s) (canc s) (rej s).
Definition set_acc (v : list nat) (s : st) : st := mkSt (running s) (readers s) (writer s) (startmx s) (queue s) (pending s) (chanq s) (closed s) (tokens s) (disp s) (wks s) (exts s) v (ran s) (canc s) (rej s).
Definition set_ran (v : list nat) (s : st) : st := mkSt (running s) (readers s) (writer s) (startmx s) (queue s) (pending s) (chanq s) (closed s) (tokens s) (disp s) (wks s) (exts s) (acc s) v (canc s) (rej s).
Definition set_canc (v : list nat) (s : st) : st := mkSt (running s) (readers s) (writer s) (startmx s) (queue s) (pending s) (chanq s) (closed s) (tokens s) (disp s) (wks s) (exts s) (acc s) (ran s) v (rej s).
Definition set_rej (v : list nat) (s : st) : st := mkSt (running s) (readers s) (writer s) (startmx s) (queue s) (pending s) (chanq s) (closed s) (tokens s) (disp s) (wks s) (exts s) (acc s) (ran s) (canc s) v.

Definition rfree (s : st) : bool := match writer s with None => true | Some _ => false end.
Definition smx_free (s : st) : bool := match disp s with DIn | DHold => false | _ => true end.
Definition is_dead (w : wk) : bool := match w with WDead => true | _ => false end.
Definition all_dead (s : st) : bool := forallb is_dead (wks s).
Definition bcast (s : st) : st := match disp s with DParked => set_disp DWoken s | _ => s end.

Fixpoint upd {A} (k : nat) (x : A) (l : list A) : list A :=
  match l, k with
  | [], _ => []
  | _ :: r, O => x :: r
  | y :: r, S k' => y :: upd k' x r
  end.

(* one step of Submit(t) at pc p; result: new state and the next pc (None = Submit returned) *)
Definition sub_step (c : cfg) (s : st) (t : nat) (p : spc) : option (st * option spc) :=
  match p with
  | SChk =>
      if fSubLock c then
        if rfree s then
          if running s then Some (set_readers (S (readers s)) s, Some SInc)
          else Some (set_rej (rej s ++ [t]) s, None)
        else None
      else if fCondFree c || rfree s then
        if running s then Some (s, Some SInc) else Some (set_rej (rej s ++ [t]) s, None)
      else None
  | SInc => Some (set_acc (acc s ++ [t]) (set_pending (pending s + 1)%Z s), Some SPush)
  | SPush => if smx_free s then Some (set_queue (queue s ++ [t]) s, Some SBc) else None
  | SBc => Some (bcast s, if fSubLock c then Some SUnl else None)
  | SUnl => Some (set_readers (pred (readers s)) s, None)
  end.

Definition d_step (c : cfg) (s : st) : option st :=
  match disp s with
  | DLoop =>
      if fCondFree c || rfree s then
        Some (set_disp (if running s || negb (match queue s with [] => true | _ => false end) then DLock else DWaitZ) s)
      else None
  | DLock => Some (set_disp DIn s)
  | DIn =>
      match queue s with
      | t :: q => Some (set_disp (DSend t) (set_queue q s))
      | [] => if fCondFree c || rfree s then Some (set_disp (if running s then DHold else DLoop) s) else None
      end
  | DHold => Some (set_disp DParked s)
  | DParked => None
  | DWoken => Some (set_disp DIn s)
  | DSend t => if length (chanq s) <? nw c then Some (set_disp DLoop (set_chanq (chanq s ++ [t]) s)) else None
  | DWaitZ => if (pending s =? 0)%Z then Some (set_disp DClose s) else None
  | DClose => Some (set_disp DDead (set_closed true s))
  | DDead => None
  end.

Definition take_token (s : st) : st := set_tokens (pred (tokens s)) s.

Definition w_step (c : cfg) (s : st) (w : wk) (ch : nat) : option (st * wk) :=
  match w with
  | WOuter => if 0 <? tokens s then Some (take_token s, WDrain) else Some (s, WInner)
  | WInner =>
      let tok := 0 <? tokens s in
      let chr := negb (match chanq s with [] => true | _ => false end) || closed s in
      if tok && (negb chr || (ch =? 0)) then Some (take_token s, WDrain)
      else if chr then
        match chanq s with
        | t :: q => Some (set_chanq q s, WRun false t (kids c t) SChk)
        | [] => Some (s, WDrain)
        end
      else None
  | WRun d t rest p =>
      match rest with
      | [] => Some (set_ran (ran s ++ [t]) (set_pending (pending s - 1)%Z s), if d then WDrain else WOuter)
      | u :: rest' =>
          match sub_step c s u p with
          | None => None
          | Some (s', Some p') => Some (s', WRun d t rest p')
          | Some (s', None) => Some (s', WRun d t rest' SChk)
          end
      end
  | WDrain =>
      match chanq s with
      | t :: q =>
          if cancel c then Some (set_canc (canc s ++ [t]) (set_pending (pending s - 1)%Z (set_chanq q s)), WDrain)
          else Some (set_chanq q s, WRun true t (kids c t) SChk)
      | [] => if closed s then Some (s, WDead) else None
      end
  | WDead => None
  end.

(* startDispatcher + startWorkers (and, repaired, the drain of stale signals) *)
Definition do_start (c : cfg) (s : st) : st :=
  set_wks (repeat WOuter (nw c))
   (set_disp DLoop
    (set_closed false
     (set_chanq []
      (set_running true
       (set_tokens (if fDrain c then 0 else tokens s) s))))).

Definition e_step (c : cfg) (s : st) (j : nat) (e : ext) : option (st * ext) :=
  let r := ops e in
  match epc_ e with
  | EIdle =>
      match r with
      | [] => None
      | OSubmit t :: r' =>
          match sub_step c s t SChk with
          | None => None
          | Some (s', Some p) => Some (s', mkExt (ESub t p) r')
          | Some (s', None) => Some (s', mkExt EIdle r')
          end
      | OShutdown :: r' => if rfree s then Some (set_writer (Some j) s, mkExt EShAcq r') else None
      | OStart :: r' =>
          if fStartOut c then (if startmx s then None else Some (set_startmx true s, mkExt EStChk r'))
          else if rfree s then Some (set_writer (Some j) s, mkExt EStAcq r') else None
      | OWaitShutdown :: r' => if all_dead s then Some (s, mkExt EIdle r') else None
      | OWaitZero :: r' => if (pending s =? 0)%Z then Some (s, mkExt EIdle r') else None
      end
  | ESub t p =>
      match sub_step c s t p with
      | None => None
      | Some (s', Some p') => Some (s', mkExt (ESub t p') r)
      | Some (s', None) => Some (s', mkExt EIdle r)
      end
  | EShAcq => if readers s =? 0 then Some (s, mkExt EShBody r) else None
  | EShBody => if running s then Some (set_running false s, mkExt (EShSend (nw c)) r) else Some (s, mkExt EShUnl r)
  | EShSend (S k) => if tokens s <? nw c then Some (set_tokens (S (tokens s)) s, mkExt (EShSend k) r) else None
  | EShSend O => if negb (fSigMx c) || smx_free s then Some (s, mkExt EShBc r) else None
  | EShBc => Some (bcast s, mkExt EShUnl r)
  | EShUnl => Some (set_writer None s, mkExt EIdle r)
  | EStAcq => if readers s =? 0 then Some (s, mkExt (if fStartOut c then EStGo else EStChk) r) else None
  | EStChk => if running s then Some (s, mkExt (if fStartOut c then EStRel else EStUnl) r) else Some (s, mkExt EStWait r)
  | EStWait => if all_dead s then Some (s, mkExt (if fStartOut c then EStAnn else EStGo) r) else None
  | EStAnn => if rfree s then Some (set_writer (Some j) s, mkExt EStAcq r) else None
  | EStGo => Some (do_start c s, mkExt EStUnl r)
  | EStUnl => Some (set_writer None s, mkExt (if fStartOut c then EStRel else EIdle) r)
  | EStRel => Some (set_startmx false s, mkExt EIdle r)
  end.

Definition step (c : cfg) (s : st) (x : thr * nat) : option st :=
  match fst x with
  | TD => d_step c s
  | TW k =>
      match nth_error (wks s) k with
      | None => None
      | Some w =>
          match w_step c s w (snd x) with
          | None => None
          | Some (s', w') => Some (set_wks (upd k w' (wks s')) s')
          end
      end
  | TE j =>
      match nth_error (exts s) j with
      | None => None
      | Some e =>
          match e_step c s j e with
          | None => None
          | Some (s', e') => Some (set_exts (upd j e' (exts s')) s')
          end
      end
  end.

(* a schedule entry that is not enabled is skipped *)
Definition step' (c : cfg) (s : st) (x : thr * nat) : st := match step c s x with Some s' => s' | None => s end.
Definition run (c : cfg) (sch : list (thr * nat)) (s : st) : st := fold_left (step' c) sch s.

(* workerpool.New(...) : not started *)
Definition init (c : cfg) (scripts : list (list op)) : st :=
  mkSt false 0 None false [] 0%Z [] true 0 DDead (repeat WDead (nw c)) (map (mkExt EIdle) scripts) [] [] [] [].

(* all threads of a state, and "no step is enabled" (executable) *)
Definition threads (s : st) : list thr :=
  TD :: map TW (seq 0 (length (wks s))) ++ map TE (seq 0 (length (exts s))).
Definition enabledb (c : cfg) (s : st) (t : thr) : bool :=
  match step c s (t, 0), step c s (t, 1) with None, None => false | _, _ => true end.
Definition stuckb (c : cfg) (s : st) : bool := forallb (fun t => negb (enabledb c s t)) (threads s).

(* ---- specification predicates (executable) ---- *)
Definition cnt (i : nat) (l : list nat) : nat := count_occ Nat.eq_dec l i.

(* what the property promises once everything accepted has finished: every accepted task was run or cancelled exactly as
   often as it was accepted (exactly once for distinct tasks), cancelled only with cancel-on-shutdown, counter at zero *)
Definition conserved_b (cancel_on : bool) (accepted ran_ cancelled : list nat) (pend : Z) : bool :=
  forallb (fun i => cnt i accepted =? cnt i ran_ + cnt i cancelled) (accepted ++ ran_ ++ cancelled)
  && (pend =? 0)%Z
  && (cancel_on || match cancelled with [] => true | _ => false end).
