(* C16 - option resolution (Options.v): the effective configuration of a pool is, field by field, the LAST occurrence of the
   option in the list handed to New, else the default; for a pool created through Group.CreatePool the group's default
   (cancel-on-shutdown) is in front of the caller's options, so an explicit option of the caller always wins. *)
From Coq Require Import List Bool Arith ZArith Permutation Lia.
From Verif.C16_Pool Require Import Model Inv Proofs Runs Options.
Import ListNotations.

Lemma fold_apply_cancel : forall opts c,
  pc_cancel (fold_left apply_opt opts c) = match last_cancel opts with Some v => v | None => pc_cancel c end.
Proof.
  induction opts as [|o r IH]; intro c; cbn [fold_left last_cancel]; [reflexivity|].
  rewrite IH. destruct (last_cancel r); [reflexivity|]. destruct o; reflexivity.
Qed.

Lemma fold_apply_workers : forall opts c,
  pc_workers (fold_left apply_opt opts c) = match last_workers opts with Some v => v | None => pc_workers c end.
Proof.
  induction opts as [|o r IH]; intro c; cbn [fold_left last_workers]; [reflexivity|].
  rewrite IH. destruct (last_workers r); [reflexivity|]. destruct o; reflexivity.
Qed.

Lemma fold_apply_panic : forall opts c,
  pc_panic (fold_left apply_opt opts c) = match last_panic opts with Some v => v | None => pc_panic c end.
Proof.
  induction opts as [|o r IH]; intro c; cbn [fold_left last_panic]; [reflexivity|].
  rewrite IH. destruct (last_panic r); [reflexivity|]. destruct o; reflexivity.
Qed.

Lemma last_cancel_none : forall opts, (forall b, ~ In (PCancel b) opts) -> last_cancel opts = None.
Proof.
  induction opts as [|o r IH]; intro H; cbn [last_cancel]; [reflexivity|].
  rewrite IH by (intros b Hb; apply (H b); right; exact Hb).
  destruct o; try reflexivity. exfalso. apply (H b). left. reflexivity.
Qed.

Lemma last_cancel_app : forall pre v post, (forall b, ~ In (PCancel b) post) -> last_cancel (pre ++ PCancel v :: post) = Some v.
Proof.
  induction pre as [|o r IH]; intros v post H; cbn [app last_cancel].
  - rewrite (last_cancel_none post H). reflexivity.
  - rewrite (IH v post H). reflexivity.
Qed.

Lemma last_workers_none : forall opts, (forall n, ~ In (PWorkers n) opts) -> last_workers opts = None.
Proof.
  induction opts as [|o r IH]; intro H; cbn [last_workers]; [reflexivity|].
  rewrite IH by (intros b Hb; apply (H b); right; exact Hb).
  destruct o; try reflexivity. exfalso. apply (H n). left. reflexivity.
Qed.

Lemma last_workers_app : forall pre v post, (forall n, ~ In (PWorkers n) post) -> last_workers (pre ++ PWorkers v :: post) = Some v.
Proof.
  induction pre as [|o r IH]; intros v post H; cbn [app last_workers].
  - rewrite (last_workers_none post H). reflexivity.
  - rewrite (IH v post H). reflexivity.
Qed.

(* the effective configuration, every field: last occurrence in the caller's list, else the default of New resp. of the group *)
Theorem pool_cfg_resolved : forall via ncpu caller,
  let pc := pool_cfg via ncpu caller in
  pc_cancel pc = match last_cancel caller with Some v => v | None => via end /\
  pc_workers pc = match last_workers caller with Some n => n | None => 2 * ncpu end /\
  pc_panic pc = match last_panic caller with Some v => v | None => false end.
Proof.
  intros via ncpu caller. unfold pool_cfg, new_pool, group_pool_opts. destruct via; cbn zeta.
  - rewrite fold_apply_cancel, fold_apply_workers, fold_apply_panic. cbn [last_cancel last_workers last_panic].
    destruct (last_cancel caller), (last_workers caller), (last_panic caller); repeat split; reflexivity.
  - rewrite fold_apply_cancel, fold_apply_workers, fold_apply_panic.
    destruct (last_cancel caller), (last_workers caller), (last_panic caller); repeat split; reflexivity.
Qed.

(* a pool created through a group with the explicit option WithCancelPendingTasksOnShutdown(v) (anything before it, no
   further cancel option after it) has the effective flag v; without such an option it has the group's default *)
Theorem group_pool_options : forall ncpu pre v post, (forall b, ~ In (PCancel b) post) ->
  pc_cancel (pool_cfg true ncpu (pre ++ PCancel v :: post)) = v.
Proof.
  intros ncpu pre v post H. destruct (pool_cfg_resolved true ncpu (pre ++ PCancel v :: post)) as [E _].
  rewrite E, (last_cancel_app pre v post H). reflexivity.
Qed.

Theorem group_pool_default : forall ncpu caller, (forall b, ~ In (PCancel b) caller) ->
  pc_cancel (pool_cfg true ncpu caller) = true.
Proof.
  intros ncpu caller H. destruct (pool_cfg_resolved true ncpu caller) as [E _]. rewrite E, (last_cancel_none caller H). reflexivity.
Qed.

(* WithWorkerCount(n): the pool has n workers AND (Model.v: capacity of the shutdown-signal channel = nw) a signal channel
   that takes n signals, whether it was made by New or through a group, for every n - also above 2*NumCPU *)
Theorem pool_workers_option : forall via ncpu pre n post p, (forall k, ~ In (PWorkers k) post) ->
  nw (to_cfg (pool_cfg via ncpu (pre ++ PWorkers n :: post)) p) = n.
Proof.
  intros via ncpu pre n post p H. destruct (pool_cfg_resolved via ncpu (pre ++ PWorkers n :: post)) as [_ [E _]].
  cbn [to_cfg repaired nw]. rewrite E, (last_workers_app pre n post H). reflexivity.
Qed.

(* consequence for the pool created through a group with cancel-on-shutdown explicitly disabled: under EVERY schedule
   nothing is ever cancelled, and once nothing is in flight every accepted task has been run (exactly once) *)
Theorem group_pool_runs_backlog : forall ncpu pre post p, (forall b, ~ In (PCancel b) post) ->
  let c := to_cfg (pool_cfg true ncpu (pre ++ PCancel false :: post)) p in
  1 <= nw c -> forall scripts sch, let s := run c sch (init c scripts) in
  canc s = [] /\ ((forall i, inflight i s = 0) -> Permutation (acc s) (ran s) /\ pending s = 0%Z).
Proof.
  intros ncpu pre post p H c Hn scripts sch s.
  assert (Hc : cancel c = false).
  { unfold c. cbn [to_cfg repaired cancel]. apply group_pool_options. exact H. }
  assert (E : canc s = []) by (apply cancel_only_if_enabled; exact Hc).
  split; [exact E|]. intro Q.
  destruct (conservation_quiescent c Hn scripts sch Q) as [P Z]. fold s in P, Z. rewrite E, app_nil_r in P. split; assumption.
Qed.
