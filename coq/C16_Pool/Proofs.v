(* C16 - main theorems over all schedules (every variant of the model). *)
From Coq Require Import List ZArith Bool Arith Lia Permutation.
From Verif.C16_Pool Require Import Model Inv.
From Verif.C16_Pool Require Import StepsA StepsB.
Import ListNotations.

Section P.
Variable c : cfg.
Hypothesis Hnw : 1 <= nw c.

Lemma inv_step : forall s x s', Inv c s -> step c s x = Some s' -> Inv c s'.
Proof.
  intros s [t ch] s' I H. unfold step in H. cbn [fst snd] in H. destruct t as [|k|j].
  - eapply inv_dstep; eauto.
  - destruct (nth_error (wks s) k) as [w|] eqn:Hk; try discriminate.
    destruct (w_step c s w ch) as [[s1 w']|] eqn:Hw; try discriminate. inversion H; subst. eapply inv_wstep; eauto.
  - destruct (nth_error (exts s) j) as [e|] eqn:Hj; try discriminate.
    destruct (e_step c s j e) as [[s1 e']|] eqn:He; try discriminate. inversion H; subst. eapply inv_estep; eauto.
Qed.

Lemma inv_init : forall scripts, Inv c (init c scripts).
Proof.
  intros scripts. constructor; unfold init, inflight, rfree, all_dead; cbn [running readers writer startmx queue pending chanq closed tokens disp wks exts acc ran canc rej].
  - simpl. apply sumf_zero. intros x Hx. apply in_map_iff in Hx. destruct Hx as [o [<- _]]. reflexivity.
  - rewrite sumf_zero. destruct (fStartOut c); reflexivity.
    intros x Hx. apply in_map_iff in Hx. destruct Hx as [o [<- _]]. reflexivity.
  - intros j e Hj Hp. apply nth_error_In in Hj. apply in_map_iff in Hj. destruct Hj as [o [<- _]]. discriminate.
  - apply repeat_length.
  - auto.
  - auto.
  - intros i. simpl. rewrite sumf_repeat0 by reflexivity. rewrite sumf_zero. reflexivity.
    intros x Hx. apply in_map_iff in Hx. destruct Hx as [o [<- _]]. reflexivity.
  - reflexivity.
Qed.

Lemma inv_run : forall sch s, Inv c s -> Inv c (run c sch s).
Proof.
  induction sch as [|x sch IH]; intros s I; simpl; auto. apply IH. unfold step'.
  destruct (step c s x) eqn:E; auto. eapply inv_step; eauto.
Qed.

Theorem reachable_inv : forall scripts sch, Inv c (run c sch (init c scripts)).
Proof. intros. apply inv_run. apply inv_init. Qed.

(* conservation, every reachable state: every accepted task is run, cancelled or still in flight (queued, in the dispatcher
   channel, in the dispatcher's hand, being executed, or counted and about to be pushed), with multiplicities; and the
   counter is accepted - finished *)
Theorem conservation : forall scripts sch, let s := run c sch (init c scripts) in
  (forall i, cnt i (acc s) = cnt i (ran s) + cnt i (canc s) + inflight i s) /\
  pending s = (Z.of_nat (length (acc s)) - Z.of_nat (length (ran s)) - Z.of_nat (length (canc s)))%Z.
Proof. intros. pose proof (reachable_inv scripts sch) as I. split; [apply (iCons c _ I) | apply (iPend c _ I)]. Qed.

(* once nothing is in flight: accepted = run + cancelled as multisets (each exactly once for distinct tasks), counter zero *)
Theorem conservation_quiescent : forall scripts sch, let s := run c sch (init c scripts) in
  (forall i, inflight i s = 0) -> Permutation (acc s) (ran s ++ canc s) /\ pending s = 0%Z.
Proof.
  intros scripts sch s Q. destruct (conservation scripts sch) as [K P]. fold s in K, P.
  assert (PM: Permutation (acc s) (ran s ++ canc s)).
  { apply (Permutation_count_occ Nat.eq_dec). intros i. specialize (K i). specialize (Q i). unfold cnt in *. rewrite count_occ_app. lia. }
  split; auto. rewrite P. rewrite (Permutation_length PM), app_length. lia.
Qed.

(* a Start restarts only a pool whose workers are all gone, and at most one thread is inside the pool's write lock *)
Theorem start_exclusive : forall scripts sch j e, let s := run c sch (init c scripts) in
  nth_error (exts s) j = Some e -> epc_ e = EStGo -> all_dead s = true.
Proof. intros scripts sch j e s Hj Hp. eapply (iX c _ (reachable_inv scripts sch)); eauto. rewrite Hp. reflexivity. Qed.

End P.
