(* C16 - the pool of Model.v together with EXTERNAL WAITERS on its public fields (round 2, seed class C16-m7):
   goroutines of the user that block in
     wp.Queue.WaitSizeIsAbove(n)                    (QAbove n : waits on the condition variable elementAdded)
     wp.Queue.WaitSizeIsBelow(n) / WaitIsEmpty()    (QBelow n : waits on elementRemoved; WaitIsEmpty = QBelow 1)
     wp.PendingTasksCounter.WaitIsAbove(z)          (PAbove z)
     wp.PendingTasksCounter.WaitIsBelow(z) / WaitIsZero()   (PBelow z; WaitIsZero = PBelow 1)
   The condition variable elementAdded of syncutils.Stack is SHARED by the dispatcher (PopOrWait) and by every QAbove waiter:
   `parkA` is its FIFO list of parked goroutines (sync.Cond's notifyList: Signal wakes the longest waiting one, Broadcast all).
   The base system is Model.v unchanged: a step of a pool thread is the step of Model.v; what it does to the condition
   variables is read off the state it is taken in (`event`):
     EvPark    the dispatcher registers on elementAdded (DHold -> DParked)
     EvPushBc  the wake-up after Stack.Push           - Broadcast in the code; `sig = true` is the variant with Signal
     EvShutBc  the Broadcast of Stack.SignalShutdown
     EvPop     PopOrWait removed an element: Broadcast on elementRemoved (same step as the removal, as the dispatcher's pop
               is one step in Model.v)
   A waiter is a thread of its own: one step = lock the stack mutex, test the condition, return or register-and-unlock
   (sync.Cond.Wait registers before it unlocks); a woken waiter re-tests the same way.  Counter waits are, as in Model.v,
   steps that are enabled iff the awaited condition holds (condition-variable discipline of Counter: C17).
   No proofs in this file. *)
From Coq Require Import List ZArith Bool Arith Lia.
From Verif.C16_Pool Require Import Model.
Import ListNotations.

Inductive wkind := QAbove (n : nat) | QBelow (n : nat) | PAbove (z : Z) | PBelow (z : Z).
Inductive wpc := WNew | WParked | WWoken | WDone.
Record waiter := mkW { wk_kind : wkind; wk_pc : wpc }.

(* members of the notify list of elementAdded *)
Inductive pid := PD | PW (i : nat).

Record xst := mkX { base : st; wts : list waiter; parkA : list pid }.

Inductive xthr := XB (t : thr) | XW (i : nat).

Definition wcond (k : wkind) (s : st) : bool :=
  match k with
  | QAbove n => n <? length (queue s)
  | QBelow n => length (queue s) <? n
  | PAbove z => (z <? pending s)%Z
  | PBelow z => (pending s <? z)%Z
  end.
Definition on_queue (k : wkind) : bool := match k with QAbove _ | QBelow _ => true | _ => false end.
Definition on_added (k : wkind) : bool := match k with QAbove _ => true | _ => false end.

Inductive bev := EvNone | EvPushBc | EvShutBc | EvPark | EvPop.

Definition event (s : st) (t : thr) : bev :=
  match t with
  | TD => match disp s with
          | DHold => EvPark
          | DIn => match queue s with _ :: _ => EvPop | [] => EvNone end
          | _ => EvNone
          end
  | TW k => match nth_error (wks s) k with
            | Some (WRun _ _ (_ :: _) SBc) => EvPushBc
            | _ => EvNone
            end
  | TE j => match nth_error (exts s) j with
            | Some e => match epc_ e with ESub _ SBc => EvPushBc | EShBc => EvShutBc | _ => EvNone end
            | None => EvNone
            end
  end.

Definition set_pc (p : wpc) (w : waiter) : waiter := mkW (wk_kind w) p.

Definition wake_w (i : nat) (ws : list waiter) : list waiter :=
  match nth_error ws i with Some w => upd i (set_pc WWoken w) ws | None => ws end.
Definition wake_added (ws : list waiter) : list waiter :=
  map (fun w => match wk_kind w, wk_pc w with QAbove _, WParked => set_pc WWoken w | _, _ => w end) ws.
Definition wake_removed (ws : list waiter) : list waiter :=
  map (fun w => match wk_kind w, wk_pc w with QBelow _, WParked => set_pc WWoken w | _, _ => w end) ws.

(* sig = false: Stack.Push wakes with Broadcast (the code); sig = true: with Signal *)
Definition xstep (sig : bool) (c : cfg) (x : xst) (a : xthr * nat) : option xst :=
  match fst a with
  | XB t =>
      match step c (base x) (t, snd a) with
      | None => None
      | Some s' =>
          Some
            match event (base x) t with
            | EvNone => mkX s' (wts x) (parkA x)
            | EvPark => mkX s' (wts x) (parkA x ++ [PD])
            | EvPop => mkX s' (wake_removed (wts x)) (parkA x)
            | EvShutBc => mkX s' (wake_added (wts x)) []
            | EvPushBc =>
                if sig then
                  (* s0: the step without its wake-up (bcast of Model.v changes nothing but the dispatcher's pc) *)
                  let s0 := set_disp (disp (base x)) s' in
                  match parkA x with
                  | [] => mkX s0 (wts x) []
                  | PD :: r => mkX s' (wts x) r
                  | PW i :: r => mkX s0 (wake_w i (wts x)) r
                  end
                else mkX s' (wake_added (wts x)) []
            end
      end
  | XW i =>
      match nth_error (wts x) i with
      | None => None
      | Some w =>
          let s := base x in
          let k := wk_kind w in
          match wk_pc w with
          | WNew | WWoken =>
              if on_queue k then
                if smx_free s then
                  if wcond k s then Some (mkX s (upd i (set_pc WDone w) (wts x)) (parkA x))
                  else Some (mkX s (upd i (set_pc WParked w) (wts x)) (if on_added k then parkA x ++ [PW i] else parkA x))
                else None
              else if wcond k s then Some (mkX s (upd i (set_pc WDone w) (wts x)) (parkA x)) else None
          | WParked | WDone => None
          end
      end
  end.

Definition xstep' (sig : bool) (c : cfg) (x : xst) (a : xthr * nat) : xst := match xstep sig c x a with Some x' => x' | None => x end.
Definition xrun (sig : bool) (c : cfg) (sch : list (xthr * nat)) (x : xst) : xst := fold_left (xstep' sig c) sch x.

Definition xinit (c : cfg) (scripts : list (list op)) (kinds : list wkind) : xst :=
  mkX (init c scripts) (map (fun k => mkW k WNew) kinds) [].

Definition xthreads (x : xst) : list xthr := map XB (threads (base x)) ++ map XW (seq 0 (length (wts x))).
Definition xenabledb (sig : bool) (c : cfg) (x : xst) (t : xthr) : bool :=
  match xstep sig c x (t, 0), xstep sig c x (t, 1) with None, None => false | _, _ => true end.
Definition xstuckb (sig : bool) (c : cfg) (x : xst) : bool := forallb (fun t => negb (xenabledb sig c x t)) (xthreads x).

(* the pool part of a schedule *)
Definition proj_sch (sch : list (xthr * nat)) : list (thr * nat) :=
  flat_map (fun a => match fst a with XB t => [(t, snd a)] | XW _ => [] end) sch.

(* a waiter that has not returned although its condition holds (in a state without enabled steps: a lost wake-up) *)
Definition starved (x : xst) (w : waiter) : bool :=
  match wk_pc w with WDone => false | _ => wcond (wk_kind w) (base x) end.
