From Coq Require Import List ZArith Bool Arith Lia.
From Verif.C16_Pool Require Import Model Inv.
Import ListNotations.

Ltac proj :=
  unfold take_token, do_start, set_running, set_readers, set_writer, set_startmx, set_queue, set_pending, set_chanq, set_closed,
         set_tokens, set_disp, set_wks, set_exts, set_acc, set_ran, set_canc, set_rej in *;
  cbn [running readers writer startmx queue pending chanq closed tokens disp wks exts acc ran canc rej] in *.

Ltac brk H :=
  repeat match type of H with
  | context [if ?b then _ else _] => destruct b eqn:?
  | context [match ?q with [] => _ | _ :: _ => _ end] => destruct q eqn:?
  end; try discriminate.

Section S.
Variable c : cfg.
Hypothesis Hnw : 1 <= nw c.

Lemma closed_false : forall s, Inv c s -> disp s <> DDead -> closed s = false.
Proof. intros s I H. destruct (closed s) eqn:E; auto. exfalso. apply H. apply (iClosed c s I E). Qed.

Lemma inv_dstep : forall s s', Inv c s -> d_step c s = Some s' -> Inv c s'.
Proof.
  intros s s' I H. unfold d_step in H.
  pose proof (closed_false s I) as CF.
  destruct I as [W M X L C D K P].
  unfold inflight, rfree, all_dead in *.
  destruct (disp s) eqn:Ed; brk H; inversion H; subst; clear H; constructor; proj;
    unfold inflight, rfree, all_dead; proj; rewrite ?Ed in *; auto;
    try (intros; discriminate);
    try (intros HC; rewrite CF in HC by congruence; discriminate);
    try (intros HE; destruct (D HE) as [D1 D2]; rewrite CF in D1 by congruence; discriminate).
  all: try (intros i; specialize (K i);
            repeat match goal with Hq : queue _ = _ |- _ => rewrite Hq in * end;
            rewrite ?cnt_app, ?cnt_one, ?cnt_cons in *; cbn [d_inf cnt count_occ] in *; lia).
Qed.

Ltac brk_sub H :=
  unfold sub_step in H;
  repeat match type of H with
  | context [match ?p with SChk => _ | _ => _ end] => destruct p
  | context [if ?b then _ else _] => destruct b eqn:?
  end; try discriminate.

Ltac cons_tac SU K :=
  let i := fresh "i" in
  intros i; specialize (K i);
  repeat match goal with Hq : chanq _ = _ |- _ => rewrite Hq in * end;
  match goal with |- context [upd _ ?x _] => pose proof (SU (w_inf i) x) end;
  rewrite ?cnt_app, ?cnt_one, ?cnt_cons in *; cbn [w_inf sp_inf d_inf] in *;
  repeat match goal with
         | |- context [match ?l with [] => _ | _ :: _ => _ end] => destruct l
         | H : context [match ?l with [] => _ | _ :: _ => _ end] |- _ => destruct l
         | H : context [if ?b then _ else _] |- _ => destruct b
         end;
  cbn [w_inf sp_inf d_inf] in *; lia.

Lemma inv_wstep : forall s k w ch s1 w', Inv c s -> nth_error (wks s) k = Some w -> w_step c s w ch = Some (s1, w') ->
  Inv c (set_wks (upd k w' (wks s1)) s1).
Proof.
  intros s k w ch s1 w' I Hk H.
  pose proof (closed_false s I) as CF.
  assert (SU: forall f x, sumf f (upd k x (wks s)) + f w = sumf f (wks s) + f x) by (intros; eapply sumf_upd; eauto).
  assert (AD: forallb is_dead (wks s) = true -> False).
  { intros A. pose proof (forallb_upd_false _ _ _ _ _ A Hk) as B. destruct w; try discriminate. }
  assert (EU: forall x, is_dead x = false -> existsb is_dead (upd k x (wks s)) = true -> existsb is_dead (wks s) = true)
    by (intros; eapply existsb_upd; eauto).
  destruct I as [W M X L C D K P].
  unfold w_step in H.
  destruct w as [| |d t rest p| |]; try discriminate.
  - (* WOuter *) brk H; inversion H; subst s1 w'; clear H; constructor; proj; unfold inflight, rfree, all_dead in *; proj;
      rewrite ?length_upd; auto.
    all: try (intros j e Hj Hp; exfalso; eauto).
    all: try (intros HE; apply EU in HE; auto).
    all: try (cons_tac SU K).
  - (* WInner *) brk H; inversion H; subst s1 w'; clear H; constructor; proj; unfold inflight, rfree, all_dead in *; proj;
      rewrite ?length_upd; auto.
    all: try (intros j e Hj Hp; exfalso; eauto).
    all: try (intros HE; apply EU in HE; auto; destruct (D HE) as [D1 D2]; congruence).
    all: try (cons_tac SU K).
  - (* WRun *)
    destruct rest as [|u rest'].
    + inversion H; subst s1 w'; clear H; constructor; proj; unfold inflight, rfree, all_dead in *; proj; rewrite ?length_upd; auto.
      all: try (intros j e Hj Hp; exfalso; eauto).
      all: try (intros HE; apply EU in HE; auto; destruct d; reflexivity).
      all: try (cons_tac SU K).
      all: try (rewrite ?app_length; simpl; lia).
    + destruct (sub_step c s u p) as [[s2 [p'|]]|] eqn:HS; try discriminate; inversion H; subst s1 w'; clear H;
        brk_sub HS; inversion HS; subst; clear HS; unfold bcast in *;
        try (destruct (disp s) eqn:Ed); constructor; proj; unfold inflight, rfree, all_dead in *; proj;
        rewrite ?length_upd, ?Ed in *; auto.
      all: try congruence.
      all: try (intros j e Hj Hp; exfalso; eauto).
      all: try (intros HE; apply EU in HE; auto).
      all: try (intros HC; specialize (C HC); discriminate).
      all: try (cons_tac SU K).
      all: try (rewrite ?app_length; simpl; lia).
  - (* WDrain *) brk H; inversion H; subst s1 w'; clear H; constructor; proj; unfold inflight, rfree, all_dead in *; proj;
      rewrite ?length_upd; auto.
    all: try (intros j e Hj Hp; exfalso; eauto).
    all: try (intros HE; apply EU in HE; auto; destruct (D HE) as [D1 D2]; congruence).
    all: try (cons_tac SU K).
    all: try (rewrite ?app_length; simpl; lia).
    all: try (intros; congruence).
Qed.


End S.
