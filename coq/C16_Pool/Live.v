(* C16 - liveness invariants of the REPAIRED variant (all five repair flags on), for every schedule:
   read-lock accounting, shutdown-signal (token) accounting, "no lost wake-up" for both broadcasts (Push, SignalShutdown),
   "the queue stays empty once the dispatcher has left its loop".  Used by Term.v to characterise the stuck states. *)
From Coq Require Import List ZArith Bool Arith Lia.
From Verif.C16_Pool Require Import Model Inv StepsA StepsB Proofs.
Import ListNotations.

(* ---------- more on sumf ---------- *)
Lemma sumf_le_pointwise : forall A (f g : A -> nat) l, (forall x, f x <= g x) -> sumf f l <= sumf g l.
Proof. induction l; simpl; intros; auto. specialize (H a) as Ha. specialize (IHl H). lia. Qed.

Lemma sumf_le_length : forall A (f : A -> nat) l, (forall x, f x <= 1) -> sumf f l <= length l.
Proof. induction l; simpl; intros; auto. specialize (H a) as Ha. specialize (IHl H). lia. Qed.

(* if x carries the whole g-weight of the list then it carries the whole f-weight, for f dominated by g *)
Lemma sumf_only : forall A (f g : A -> nat) l k x, (forall y, g y = 0 -> f y = 0) -> nth_error l k = Some x ->
  sumf g l = g x -> sumf f l = f x.
Proof.
  induction l as [|a l IH]; intros [|k] x D H E; simpl in *; try discriminate.
  - inversion H; subst. assert (Z: sumf g l = 0) by lia. rewrite (sumf_zero _ f l). lia.
    intros y Hy. apply D. clear -Z Hy. induction l; simpl in *. contradiction. destruct Hy as [->|Hy]. lia. apply IHl; auto. lia.
  - pose proof (sumf_ge_nth _ g _ _ _ H). assert (Z: g a = 0) by lia. rewrite (D a Z). simpl. apply (IH k); auto. lia.
Qed.

Lemma sumf_pos_ex : forall A (f : A -> nat) l, 1 <= sumf f l -> exists k x, nth_error l k = Some x /\ 1 <= f x.
Proof.
  induction l as [|a l IH]; simpl; intros H. lia.
  destruct (f a) eqn:E.
  - destruct (IH ltac:(lia)) as (k & x & Hk & Hx). exists (S k), x. auto.
  - exists 0, a. simpl. split; auto. lia.
Qed.

Lemma sumf_dead : forall (f : wk -> nat) l, f WDead = 0 -> forallb is_dead l = true -> sumf f l = 0.
Proof. induction l; simpl; intros Z H; auto. apply andb_prop in H. destruct H as [H1 H2]. destruct a; try discriminate. rewrite Z, IHl; auto. Qed.

(* ---------- per-thread measures ---------- *)
Definition sp_rd (p : spc) : nat := match p with SChk => 0 | _ => 1 end.          (* holds the pool's read lock *)
Definition sp_bc (p : spc) : nat := match p with SBc => 1 | _ => 0 end.           (* pushed, broadcast still to come *)
Definition w_rd (w : wk) : nat := match w with WRun _ _ (_ :: _) p => sp_rd p | _ => 0 end.
Definition w_bc (w : wk) : nat := match w with WRun _ _ (_ :: _) p => sp_bc p | _ => 0 end.
Definition w_rl (w : wk) : nat := match w with WOuter | WInner | WRun false _ _ _ => 1 | _ => 0 end.  (* in workerReadLoop *)
Definition e_rd (e : ext) : nat := match epc_ e with ESub _ p => sp_rd p | _ => 0 end.
Definition e_bc (e : ext) : nat := match epc_ e with ESub _ p => sp_bc p | _ => 0 end.
(* holds the write lock (acquired, not only announced) *)
Definition e_hold (e : ext) : nat := match epc_ e with EShBody | EShSend _ | EShBc | EShUnl | EStGo | EStUnl => 1 | _ => 0 end.
Definition e_owed (e : ext) : nat := match epc_ e with EShSend k => k | _ => 0 end.   (* shutdown signals still to be sent *)
Definition e_send (e : ext) : nat := match epc_ e with EShSend _ => 1 | _ => 0 end.
Definition e_sendbc (e : ext) : nat := match epc_ e with EShSend _ | EShBc => 1 | _ => 0 end.
Definition e_wait (e : ext) : nat := match epc_ e with EStWait => 1 | _ => 0 end.
Definition e_wp (c : cfg) (e : ext) : nat := b2n (wpc c (epc_ e)).
Definition e_mp (c : cfg) (e : ext) : nat := b2n (mpc c (epc_ e)).
Definition dpost (d : dpc) : bool := match d with DWaitZ | DClose | DDead => true | _ => false end.

Record Inv2 (c : cfg) (s : st) : Prop := {
  jR : readers s = sumf w_rd (wks s) + sumf e_rd (exts s);
  jH : sumf e_hold (exts s) = 0 \/ readers s = 0;
  jRun : running s = false -> readers s = 0;
  jTok : tokens s + sumf e_owed (exts s) <= nw c;
  jRunTok : running s = true -> tokens s + sumf e_owed (exts s) = 0;
  jLoop : running s = false -> sumf w_rl (wks s) <= tokens s + sumf e_owed (exts s);
  jQ : dpost (disp s) = true -> running s = false /\ queue s = [];
  jDD : disp s = DDead -> closed s = true;
  jHold : disp s = DHold -> queue s = [] /\ (running s = false -> 1 <= sumf e_send (exts s));
  jPark : disp s = DParked -> (running s = false -> 1 <= sumf e_sendbc (exts s)) /\
                              (queue s <> [] -> 1 <= sumf w_bc (wks s) + sumf e_bc (exts s));
  jWait : running s = true -> sumf e_wait (exts s) = 0
}.

Ltac norm :=
  repeat match goal with
  | H : running ?s = _ |- _ => progress (rewrite H in * |-)
  | H : ?P -> _, H' : ?P |- _ => specialize (H H')
  | H : ?x = ?x -> _ |- _ => specialize (H eq_refl)
  | H : true = false -> _ |- _ => clear H
  | H : false = true -> _ |- _ => clear H
  | H : ?a = ?b -> _ |- _ => first [ assert (a <> b) by discriminate; clear H ]
  | H : _ /\ _ |- _ => destruct H
  end.

Section L.
Variables (n : nat) (cn : bool) (pg : list (list nat)).
Let c := repaired n cn pg.
Hypothesis Hnw : 1 <= n.

Lemma hold_le_wp : forall e, e_hold e <= e_wp c e.
Proof. intros [pc r]. unfold e_hold, e_wp. cbn [epc_]. destruct pc; cbn; lia. Qed.
Lemma owed_wp : forall e, e_wp c e = 0 -> e_owed e = 0.
Proof. intros [pc r]. unfold e_owed, e_wp. cbn [epc_]. destruct pc; cbn; auto; discriminate. Qed.
Lemma wait_mp : forall e, e_mp c e = 0 -> e_wait e = 0.
Proof. intros [pc r]. unfold e_wait, e_mp. cbn [epc_]. destruct pc; cbn; auto; discriminate. Qed.
Lemma send_le_sendbc : forall e, e_send e <= e_sendbc e.
Proof. intros [pc r]. unfold e_send, e_sendbc. cbn [epc_]. destruct pc; lia. Qed.
Lemma rl_le1 : forall w, w_rl w <= 1.
Proof. intros [| |[] ? ? ?| |]; simpl; lia. Qed.

Lemma iW' : forall s, Inv c s -> sumf (e_wp c) (exts s) = b2n (negb (rfree s)).
Proof. intros s I. apply (iW c s I). Qed.
Lemma iM' : forall s, Inv c s -> sumf (e_mp c) (exts s) = b2n (startmx s).
Proof. intros s I. apply (iM c s I). Qed.

(* ---------- dispatcher steps ---------- *)
Lemma inv2_dstep : forall s s', Inv c s -> Inv2 c s -> d_step c s = Some s' -> Inv2 c s'.
Proof.
  intros s s' I J H. unfold d_step in H.
  destruct J as [J1 J2 J3 J4 J5 J6 J7 J8 J9 J10 J11].
  pose proof (iClosed c s I) as IC.
  pose proof (sumf_le_pointwise _ e_send e_sendbc (exts s) send_le_sendbc) as SB.
  destruct (disp s) eqn:Ed; cbn [c repaired fCondFree orb] in H;
    try (destruct (running s) eqn:Er); try (destruct (queue s) eqn:Eq); cbn [orb negb] in H;
    brk H; inversion H; subst; clear H; constructor; proj;
    rewrite ?Ed, ?Er, ?Eq in *; cbn [dpost] in *; auto; intros; norm; try discriminate; try (split; intros; norm); auto;
    try congruence; try lia.
Qed.

(* ---------- a step inside Submit, by whichever thread ---------- *)
Ltac fin :=
  auto; intros; norm; try discriminate; try (split; intros; norm); auto; try congruence; try lia.

Definition rd_of (np : option spc) : nat := match np with Some p => sp_rd p | None => 0 end.
Definition bc_of (np : option spc) : nat := match np with Some p => sp_bc p | None => 0 end.

Lemma inv2_sub : forall s u p s2 np s', Inv c s -> Inv2 c s -> sub_step c s u p = Some (s2, np) ->
  running s' = running s2 -> readers s' = readers s2 -> tokens s' = tokens s2 -> queue s' = queue s2 -> disp s' = disp s2 ->
  closed s' = closed s2 ->
  sumf w_rd (wks s') + sumf e_rd (exts s') + sp_rd p = sumf w_rd (wks s) + sumf e_rd (exts s) + rd_of np ->
  sumf w_bc (wks s') + sumf e_bc (exts s') + sp_bc p = sumf w_bc (wks s) + sumf e_bc (exts s) + bc_of np ->
  sumf w_rl (wks s') = sumf w_rl (wks s) ->
  sumf e_hold (exts s') = sumf e_hold (exts s) -> sumf e_owed (exts s') = sumf e_owed (exts s) ->
  sumf e_send (exts s') = sumf e_send (exts s) -> sumf e_sendbc (exts s') = sumf e_sendbc (exts s) ->
  sumf e_wait (exts s') = sumf e_wait (exts s) ->
  sp_rd p <= sumf w_rd (wks s) + sumf e_rd (exts s) ->
  Inv2 c s'.
Proof.
  intros s u p s2 np s' I J HS E1 E2 E3 E4 E5 E6 R B L F1 F2 F3 F4 F5 G.
  destruct J as [J1 J2 J3 J4 J5 J6 J7 J8 J9 J10 J11].
  pose proof (iW' s I) as W. unfold rfree in W.
  pose proof (sumf_le_pointwise _ e_hold (e_wp c) (exts s) hold_le_wp) as HW.
  unfold sub_step in HS; cbn [c repaired fSubLock fCondFree] in HS; unfold rfree in *.
  assert (T: forall P : Prop, (s2 = s2 -> P) -> P) by auto.
  destruct p.
  - destruct (writer s) eqn:Ew; try discriminate. destruct (running s) eqn:Er; inversion HS; subst s2 np; clear HS;
      cbn [rd_of bc_of sp_rd sp_bc b2n negb] in *; proj; constructor;
      rewrite ?E1, ?E2, ?E3, ?E4, ?E5, ?E6, ?F1, ?F2, ?F3, ?F4, ?F5, ?L in *; fin.
  - inversion HS; subst s2 np; clear HS; cbn [rd_of bc_of sp_rd sp_bc b2n negb] in *; proj; constructor;
      rewrite ?E1, ?E2, ?E3, ?E4, ?E5, ?E6, ?F1, ?F2, ?F3, ?F4, ?F5, ?L in *; fin.
  - destruct (smx_free s) eqn:Es; inversion HS; subst s2 np; clear HS; cbn [rd_of bc_of sp_rd sp_bc b2n negb] in *; proj.
    assert (Rn: running s = true) by (destruct (running s); auto; specialize (J3 eq_refl); lia).
    assert (Dp: dpost (disp s) = false) by (destruct (dpost (disp s)); auto; destruct (J7 eq_refl); congruence).
    unfold smx_free in Es.
    constructor; rewrite ?E1, ?E2, ?E3, ?E4, ?E5, ?E6, ?F1, ?F2, ?F3, ?F4, ?F5, ?L in *; fin.
    destruct (disp s); discriminate.
  - inversion HS; subst s2 np; clear HS; cbn [rd_of bc_of sp_rd sp_bc b2n negb] in *.
    unfold bcast in *. destruct (disp s) eqn:Ed; proj;
      constructor; rewrite ?E1, ?E2, ?E3, ?E4, ?E5, ?E6, ?F1, ?F2, ?F3, ?F4, ?F5, ?L, ?Ed in *; cbn [dpost] in *; fin.
  - inversion HS; subst s2 np; clear HS; cbn [rd_of bc_of sp_rd sp_bc b2n negb] in *; proj; constructor;
      rewrite ?E1, ?E2, ?E3, ?E4, ?E5, ?E6, ?F1, ?F2, ?F3, ?F4, ?F5, ?L in *; fin.
Qed.

(* ---------- worker steps ---------- *)
Ltac su_w SU :=
  match goal with |- Inv2 _ (set_wks (upd _ ?x _) _) => pose proof (SU w_rd x); pose proof (SU w_bc x); pose proof (SU w_rl x) end.

Lemma inv2_wstep : forall s k w ch s1 w', Inv c s -> Inv2 c s -> nth_error (wks s) k = Some w -> w_step c s w ch = Some (s1, w') ->
  Inv2 c (set_wks (upd k w' (wks s1)) s1).
Proof.
  intros s k w ch s1 w' I J Hk H.
  assert (SU: forall f x, sumf f (upd k x (wks s)) + f w = sumf f (wks s) + f x) by (intros; eapply sumf_upd; eauto).
  pose proof (sumf_ge_nth _ w_rd _ _ _ Hk) as G1. pose proof (sumf_ge_nth _ w_bc _ _ _ Hk) as G2. pose proof (sumf_ge_nth _ w_rl _ _ _ Hk) as G3.
  pose proof J as J0. destruct J as [J1 J2 J3 J4 J5 J6 J7 J8 J9 J10 J11].
  pose proof (iW' s I) as W. unfold rfree in W.
  pose proof (sumf_le_pointwise _ e_hold (e_wp c) (exts s) hold_le_wp) as HW.
  unfold w_step in H.
  destruct w as [| |d t rest p| |]; try discriminate.
  - (* WOuter *) brk H; inversion H; subst s1 w'; clear H; su_w SU; constructor; proj; cbn [w_rd w_bc w_rl] in *;
      try (apply Nat.ltb_lt in Heqb); fin.
  - (* WInner *)
    destruct (chanq s) eqn:Ec; destruct (closed s) eqn:Ecl; destruct (0 <? tokens s) eqn:Et; cbn [negb orb andb] in H;
      brk H; inversion H; subst s1 w'; clear H; su_w SU; constructor; proj; cbn [w_rd w_bc w_rl] in *;
      try (apply Nat.ltb_lt in Et); fin;
      try (destruct (kids c n0)); cbn [w_rd w_bc w_rl sp_rd sp_bc] in *; fin.
  - (* WRun *)
    destruct rest as [|u rest'].
    + inversion H; subst s1 w'; clear H; su_w SU; constructor; proj; destruct d; cbn [w_rd w_bc w_rl] in *; fin.
    + destruct (sub_step c s u p) as [[s2 np]|] eqn:HS; try discriminate.
      assert (E: s1 = s2 /\ w' = WRun d t (match np with Some _ => u :: rest' | None => rest' end) (match np with Some p' => p' | None => SChk end))
        by (destruct np; inversion H; auto).
      destruct E as [-> ->]. clear H.
      assert (X: exts s2 = exts s /\ wks s2 = wks s).
      { clear -HS. unfold sub_step in HS. destruct p; brk HS; inversion HS; subst; unfold bcast; try (destruct (disp s)); auto. }
      destruct X as [X1 X2].
      eapply (inv2_sub s u p s2 np); eauto; proj; rewrite ?X1, ?X2; auto;
        try (match goal with |- context [upd _ ?x _] => pose proof (SU w_rd x); pose proof (SU w_bc x); pose proof (SU w_rl x) end);
        destruct np; destruct d; try (destruct rest'); cbn [w_rd w_bc w_rl rd_of bc_of sp_rd sp_bc] in *; try lia.
  - (* WDrain *)
    destruct (chanq s) eqn:Ec; destruct (closed s) eqn:Ecl; destruct (cancel c) eqn:Ecc;
      brk H; inversion H; subst s1 w'; clear H; su_w SU; constructor; proj; cbn [w_rd w_bc w_rl] in *; fin;
      try (destruct (kids c n0)); cbn [w_rd w_bc w_rl sp_rd sp_bc] in *; fin.
Qed.

(* ---------- external threads ---------- *)
Lemma do_start_fields2 : forall s,
  wks (do_start c s) = repeat WOuter (nw c) /\ disp (do_start c s) = DLoop /\ closed (do_start c s) = false /\
  running (do_start c s) = true /\ queue (do_start c s) = queue s /\ exts (do_start c s) = exts s /\
  tokens (do_start c s) = 0 /\ readers (do_start c s) = readers s.
Proof. intros s. unfold do_start. repeat split; reflexivity. Qed.

Ltac su_e SU :=
  match goal with |- Inv2 _ (set_exts (upd _ ?x _) _) =>
    pose proof (SU e_rd x); pose proof (SU e_bc x); pose proof (SU e_hold x); pose proof (SU e_owed x); pose proof (SU e_send x);
    pose proof (SU e_sendbc x); pose proof (SU e_wait x) end.

Ltac tob :=
  repeat match goal with
  | H : (_ <? _) = true |- _ => apply Nat.ltb_lt in H
  | H : (_ <? _) = false |- _ => apply Nat.ltb_ge in H
  | H : (_ =? _) = true |- _ => apply Nat.eqb_eq in H
  | H : (_ =? _) = false |- _ => apply Nat.eqb_neq in H
  end.

Ltac emeas := cbn [e_rd e_bc e_hold e_owed e_send e_sendbc e_wait e_wp e_mp epc_ wpc mpc b2n c repaired fStartOut nw negb sp_rd sp_bc] in *.

Lemma inv2_estep : forall s j e s1 e', Inv c s -> Inv2 c s -> nth_error (exts s) j = Some e -> e_step c s j e = Some (s1, e') ->
  Inv2 c (set_exts (upd j e' (exts s1)) s1).
Proof.
  intros s j e s1 e' I J Hj H.
  assert (SU: forall f x, sumf f (upd j x (exts s)) + f e = sumf f (exts s) + f x) by (intros; eapply sumf_upd; eauto).
  pose proof (sumf_ge_nth _ e_rd _ _ _ Hj) as G1. pose proof (sumf_ge_nth _ e_bc _ _ _ Hj) as G2.
  pose proof (sumf_ge_nth _ e_hold _ _ _ Hj) as G3. pose proof (sumf_ge_nth _ e_owed _ _ _ Hj) as G4.
  pose proof (sumf_ge_nth _ e_send _ _ _ Hj) as G5. pose proof (sumf_ge_nth _ e_sendbc _ _ _ Hj) as G6.
  pose proof (sumf_ge_nth _ e_wait _ _ _ Hj) as G7.
  pose proof J as J0. destruct J as [J1 J2 J3 J4 J5 J6 J7 J8 J9 J10 J11].
  pose proof (iW' s I) as W. unfold rfree in W.
  pose proof (iM' s I) as M.
  pose proof (sumf_le_pointwise _ e_hold (e_wp c) (exts s) hold_le_wp) as HW.
  pose proof (sumf_le_pointwise _ e_send e_sendbc (exts s) send_le_sendbc) as SB.
  pose proof (sumf_le_length _ w_rl (wks s) rl_le1) as RL. rewrite (iLen c s I) in RL.
  destruct e as [pc r]. unfold e_step in H. cbn [epc_ ops c repaired fStartOut fSigMx negb orb] in H.
  destruct pc.
  - (* EIdle *)
    destruct r as [|[t| | | |] r']; try discriminate.
    + (* Submit *)
      destruct (sub_step c s t SChk) as [[s2 np]|] eqn:HS; try discriminate.
      assert (E: s1 = s2 /\ e' = mkExt (match np with Some p' => ESub t p' | None => EIdle end) r') by (destruct np; inversion H; auto).
      destruct E as [-> ->]. clear H.
      assert (X: exts s2 = exts s /\ wks s2 = wks s).
      { clear -HS. unfold sub_step in HS. brk HS; inversion HS; subst; auto. }
      destruct X as [X1 X2].
      eapply (inv2_sub s t SChk s2 np); eauto; proj; rewrite ?X1, ?X2; auto;
        try (match goal with |- context [upd _ ?x _] =>
               pose proof (SU e_rd x); pose proof (SU e_bc x); pose proof (SU e_hold x); pose proof (SU e_owed x); pose proof (SU e_send x);
               pose proof (SU e_sendbc x); pose proof (SU e_wait x) end);
        destruct np; emeas; cbn [rd_of bc_of sp_rd sp_bc] in *; try lia.
    + unfold rfree in H. brk H; inversion H; subst s1 e'; clear H; su_e SU; constructor; proj; emeas; fin.
    + brk H; inversion H; subst s1 e'; clear H; su_e SU; constructor; proj; emeas; fin.
    + brk H; inversion H; subst s1 e'; clear H; su_e SU; constructor; proj; emeas; fin.
    + brk H; inversion H; subst s1 e'; clear H; su_e SU; constructor; proj; emeas; fin.
  - (* ESub *)
    destruct (sub_step c s t p) as [[s2 np]|] eqn:HS; try discriminate.
    assert (E: s1 = s2 /\ e' = mkExt (match np with Some p' => ESub t p' | None => EIdle end) r) by (destruct np; inversion H; auto).
    destruct E as [-> ->]. clear H.
    assert (X: exts s2 = exts s /\ wks s2 = wks s).
    { clear -HS. unfold sub_step in HS. destruct p; brk HS; inversion HS; subst; unfold bcast; try (destruct (disp s)); auto. }
    destruct X as [X1 X2].
    eapply (inv2_sub s t p s2 np); eauto; proj; rewrite ?X1, ?X2; auto;
      try (match goal with |- context [upd _ ?x _] =>
             pose proof (SU e_rd x); pose proof (SU e_bc x); pose proof (SU e_hold x); pose proof (SU e_owed x); pose proof (SU e_send x);
             pose proof (SU e_sendbc x); pose proof (SU e_wait x) end);
      destruct np; emeas; cbn [rd_of bc_of sp_rd sp_bc] in *; try lia.
  - (* EShAcq *) brk H; inversion H; subst s1 e'; clear H; tob; su_e SU; constructor; proj; emeas; fin.
  - (* EShBody *) brk H; inversion H; subst s1 e'; clear H; su_e SU; constructor; proj; emeas; fin.
  - (* EShSend *) destruct k; [unfold smx_free in H; destruct (disp s) eqn:Ed; try discriminate|];
      brk H; inversion H; subst s1 e'; clear H; tob; su_e SU; constructor; proj; rewrite ?Ed in *; cbn [dpost] in *; emeas; fin.
  - (* EShBc *) inversion H; subst s1 e'; clear H; su_e SU; unfold bcast; destruct (disp s) eqn:Ed; constructor; proj;
      rewrite ?Ed in *; cbn [dpost] in *; emeas; fin.
  - (* EShUnl *) inversion H; subst s1 e'; clear H; su_e SU; constructor; proj; emeas; fin.
  - (* EStChk *) brk H; inversion H; subst s1 e'; clear H; su_e SU; constructor; proj; emeas; fin.
  - (* EStWait *) brk H; inversion H; subst s1 e'; clear H; su_e SU; constructor; proj; emeas; fin.
  - (* EStAnn *) unfold rfree in H. brk H; inversion H; subst s1 e'; clear H; su_e SU; constructor; proj; emeas; fin.
  - (* EStAcq *) brk H; inversion H; subst s1 e'; clear H; tob; su_e SU; constructor; proj; emeas; fin.
  - (* EStGo *)
    inversion H; subst s1 e'; clear H.
    assert (AD: all_dead s = true) by (eapply (iX c s I j); eauto).
    unfold all_dead in AD.
    pose proof (sumf_dead w_rd _ eq_refl AD) as D1. pose proof (sumf_dead w_bc _ eq_refl AD) as D2.
    pose proof (sumf_ge_nth _ (e_mp c) _ _ _ Hj) as G8. pose proof (sumf_ge_nth _ (e_wp c) _ _ _ Hj) as G9.
    pose proof (sumf_only _ e_owed (e_wp c) _ _ _ owed_wp Hj) as O1.
    pose proof (sumf_only _ e_wait (e_mp c) _ _ _ wait_mp Hj) as O2.
    su_e SU. destruct (do_start_fields2 s) as (F1&F2&F3&F4&F5&F6&F7&F8).
    constructor; unfold set_exts; cbn [running readers writer startmx queue pending chanq closed tokens disp wks exts acc ran canc rej];
      rewrite ?F1, ?F2, ?F3, ?F4, ?F5, ?F6, ?F7, ?F8; emeas; rewrite ?sumf_repeat0 by reflexivity; cbn [dpost] in *;
      destruct (writer s); destruct (startmx s); cbn [b2n negb] in *; fin.
  - (* EStUnl *) inversion H; subst s1 e'; clear H; su_e SU; constructor; proj; emeas; fin.
  - (* EStRel *) inversion H; subst s1 e'; clear H; su_e SU; constructor; proj; emeas; fin.
Qed.

End L.
