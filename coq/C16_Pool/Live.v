(* C16 - liveness invariants of the REPAIRED variant (all five repair flags on), for every schedule:
   read-lock accounting, shutdown-signal (token) accounting, "no lost wake-up" for both broadcasts (Push, SignalShutdown),
   "the queue stays empty once the dispatcher has left its loop".  Used by Term.v to characterise the stuck states. *)
From Coq Require Import List ZArith Bool Arith Lia.
From Verif.C16_Pool Require Import Model Inv StepsA StepsB Proofs.
Import ListNotations.

(* ---------- more on sumf ---------- *)
Lemma sumf_le_pointwise : forall A (f g : A -> nat) l, (forall x, f x <= g x) -> sumf f l <= sumf g l.
Proof. induction l; simpl; intros; auto. specialize (H a) as Ha. specialize (IHl H). lia. Qed.

Lemma sumf_le_length : forall A (f : A -> nat) l, (forall x, f x <= 1) -> sumf f l <= length l.
Proof. induction l; simpl; intros; auto. specialize (H a) as Ha. specialize (IHl H). lia. Qed.

(* if x carries the whole g-weight of the list then it carries the whole f-weight, for f dominated by g *)
Lemma sumf_only : forall A (f g : A -> nat) l k x, (forall y, g y = 0 -> f y = 0) -> nth_error l k = Some x ->
  sumf g l = g x -> sumf f l = f x.
Proof.
  induction l as [|a l IH]; intros [|k] x D H E; simpl in *; try discriminate.
  - inversion H; subst. assert (Z: sumf g l = 0) by lia. rewrite (sumf_zero _ f l). lia.
    intros y Hy. apply D. clear -Z Hy. induction l; simpl in *. contradiction. destruct Hy as [->|Hy]. lia. apply IHl; auto. lia.
  - pose proof (sumf_ge_nth _ g _ _ _ H). assert (Z: g a = 0) by lia. rewrite (D a Z). simpl. apply (IH k); auto. lia.
Qed.

Lemma sumf_pos_ex : forall A (f : A -> nat) l, 1 <= sumf f l -> exists k x, nth_error l k = Some x /\ 1 <= f x.
Proof.
  induction l as [|a l IH]; simpl; intros H. lia.
  destruct (f a) eqn:E.
  - destruct (IH ltac:(lia)) as (k & x & Hk & Hx). exists (S k), x. auto.
  - exists 0, a. simpl. split; auto. lia.
Qed.

Lemma sumf_dead : forall (f : wk -> nat) l, f WDead = 0 -> forallb is_dead l = true -> sumf f l = 0.
Proof. induction l; simpl; intros Z H; auto. apply andb_prop in H. destruct H as [H1 H2]. destruct a; try discriminate. rewrite Z, IHl; auto. Qed.

(* ---------- per-thread measures ---------- *)
Definition sp_rd (p : spc) : nat := match p with SChk => 0 | _ => 1 end.          (* holds the pool's read lock *)
Definition sp_bc (p : spc) : nat := match p with SBc => 1 | _ => 0 end.           (* pushed, broadcast still to come *)
Definition w_rd (w : wk) : nat := match w with WRun _ _ (_ :: _) p => sp_rd p | _ => 0 end.
Definition w_bc (w : wk) : nat := match w with WRun _ _ (_ :: _) p => sp_bc p | _ => 0 end.
Definition w_rl (w : wk) : nat := match w with WOuter | WInner | WRun false _ _ _ => 1 | _ => 0 end.  (* in workerReadLoop *)
Definition e_rd (e : ext) : nat := match epc_ e with ESub _ p => sp_rd p | _ => 0 end.
Definition e_bc (e : ext) : nat := match epc_ e with ESub _ p => sp_bc p | _ => 0 end.
(* holds the write lock (acquired, not only announced) *)
Definition e_hold (e : ext) : nat := match epc_ e with EShBody | EShSend _ | EShBc | EShUnl | EStGo | EStUnl => 1 | _ => 0 end.
Definition e_owed (e : ext) : nat := match epc_ e with EShSend k => k | _ => 0 end.   (* shutdown signals still to be sent *)
Definition e_send (e : ext) : nat := match epc_ e with EShSend _ => 1 | _ => 0 end.
Definition e_sendbc (e : ext) : nat := match epc_ e with EShSend _ | EShBc => 1 | _ => 0 end.
Definition e_wait (e : ext) : nat := match epc_ e with EStWait => 1 | _ => 0 end.
Definition e_wp (c : cfg) (e : ext) : nat := b2n (wpc c (epc_ e)).
Definition e_mp (c : cfg) (e : ext) : nat := b2n (mpc c (epc_ e)).
Definition dpost (d : dpc) : bool := match d with DWaitZ | DClose | DDead => true | _ => false end.

Record Inv2 (c : cfg) (s : st) : Prop := {
  jR : readers s = sumf w_rd (wks s) + sumf e_rd (exts s);
  jH : sumf e_hold (exts s) = 0 \/ readers s = 0;
  jRun : running s = false -> readers s = 0;
  jTok : tokens s + sumf e_owed (exts s) <= nw c;
  jRunTok : running s = true -> tokens s + sumf e_owed (exts s) = 0;
  jLoop : running s = false -> sumf w_rl (wks s) <= tokens s + sumf e_owed (exts s);
  jQ : dpost (disp s) = true -> running s = false /\ queue s = [];
  jDD : disp s = DDead -> closed s = true;
  jHold : disp s = DHold -> queue s = [] /\ (running s = false -> 1 <= sumf e_send (exts s));
  jPark : disp s = DParked -> (running s = false -> 1 <= sumf e_sendbc (exts s)) /\
                              (queue s <> [] -> 1 <= sumf w_bc (wks s) + sumf e_bc (exts s));
  jWait : running s = true -> sumf e_wait (exts s) = 0
}.

Ltac norm :=
  repeat match goal with
  | H : ?x = ?x -> _ |- _ => specialize (H eq_refl)
  | H : true = false -> _ |- _ => clear H
  | H : false = true -> _ |- _ => clear H
  | H : ?a = ?b -> _ |- _ => first [ assert (a <> b) by discriminate; clear H ]
  | H : _ /\ _ |- _ => destruct H
  end.

Section L.
Variables (n : nat) (cn : bool) (pg : list (list nat)).
Let c := repaired n cn pg.
Hypothesis Hnw : 1 <= n.

Lemma hold_le_wp : forall e, e_hold e <= e_wp c e.
Proof. intros [pc r]. unfold e_hold, e_wp. cbn [epc_]. destruct pc; cbn; lia. Qed.
Lemma owed_wp : forall e, e_wp c e = 0 -> e_owed e = 0.
Proof. intros [pc r]. unfold e_owed, e_wp. cbn [epc_]. destruct pc; cbn; auto; discriminate. Qed.
Lemma wait_mp : forall e, e_mp c e = 0 -> e_wait e = 0.
Proof. intros [pc r]. unfold e_wait, e_mp. cbn [epc_]. destruct pc; cbn; auto; discriminate. Qed.
Lemma send_le_sendbc : forall e, e_send e <= e_sendbc e.
Proof. intros [pc r]. unfold e_send, e_sendbc. cbn [epc_]. destruct pc; lia. Qed.
Lemma rl_le1 : forall w, w_rl w <= 1.
Proof. intros [| |[] ? ? ?| |]; simpl; lia. Qed.

Lemma iW' : forall s, Inv c s -> sumf (e_wp c) (exts s) = b2n (negb (rfree s)).
Proof. intros s I. apply (iW c s I). Qed.
Lemma iM' : forall s, Inv c s -> sumf (e_mp c) (exts s) = b2n (startmx s).
Proof. intros s I. apply (iM c s I). Qed.

(* ---------- dispatcher steps ---------- *)
Lemma inv2_dstep : forall s s', Inv c s -> Inv2 c s -> d_step c s = Some s' -> Inv2 c s'.
Proof.
  intros s s' I J H. unfold d_step in H.
  destruct J as [J1 J2 J3 J4 J5 J6 J7 J8 J9 J10 J11].
  pose proof (iClosed c s I) as IC.
  destruct (disp s) eqn:Ed; cbn [c repaired fCondFree orb] in H; brk H; inversion H; subst; clear H; constructor; proj;
    rewrite ?Ed in *; cbn [dpost] in *; auto; intros; norm; try discriminate; try (split; intros; norm); auto;
    try congruence; try lia.
Qed.

End L.
