(* Correspondence for the group model (Group.v).
   GHist: a sequential history of group/pool creations and pool-counter changes executed on the real workerpool.Group
   (counter changes through PendingTasksCounter.Update/Set and through real Submit / task completion, which are
   Update(+1) / Update(-1)); after every operation the harness records the value of every counter (creation order) and,
   for every group, whether a WaitChildren() / WaitParents() call has returned.  The model replays the history.
   GFinal: final counter values of a free-running concurrent run (all must be back at zero).
   GPoolShutdown: a pool made by Group.CreatePool with the caller's option list `opts` (in order) was shut down while
   `gated` accepted tasks had not finished (each worker executing at most one of them, parked at the harness's gate, the
   rest queued), then the gates were opened and the shutdown completed: the tasks accepted / run / never run over the
   pool's life, `ran_before` of them already before the Shutdown.  Judged (a) by the conservation predicate with the
   cancel flag that the option resolution of Options.v gives for a group pool with these caller options and (b) against
   the pool model (Model.v, configuration from the same resolution) run on the equivalent script. *)
From Coq Require Import List ZArith Bool Arith.
From Verif.C16_Pool Require Import Model Options Group.
From Verif.C16_Pool Require Corr.
Import ListNotations.

Record gobs := mkGObs { go_vals : list Z; go_wc : list bool; go_wp : list bool }.

Definition groups_of (f : forest) : list nat := filter (is_kind KGroup f) (seq 0 (length f)).

Definition gobserve (f : forest) : gobs :=
  mkGObs (map nval f) (map (wait_children_returns f) (groups_of f)) (map (wait_parents_returns f) (groups_of f)).

(* an operation that the model rejects leaves the forest unchanged and yields an empty observation (never equal to a real one) *)
Fixpoint grun_obs (f : forest) (ops : list gop) : list gobs :=
  match ops with
  | [] => []
  | o :: r =>
      match gstep f o with
      | Some f' => gobserve f' :: grun_obs f' r
      | None => mkGObs [] [] [] :: grun_obs f r
      end
  end.

Definition list_eqb {A} (eqb : A -> A -> bool) :=
  fix go (a b : list A) : bool :=
    match a, b with
    | [], [] => true
    | x :: a', y :: b' => eqb x y && go a' b'
    | _, _ => false
    end.

Definition gobs_eqb (a b : gobs) : bool :=
  list_eqb Z.eqb (go_vals a) (go_vals b) && list_eqb Bool.eqb (go_wc a) (go_wc b) && list_eqb Bool.eqb (go_wp a) (go_wp b).

Inductive gcase :=
  | GHist (ops : list gop) (observed : list gobs)
  | GFinal (vals : list Z) (returned : bool)
  | GPoolShutdown (ncpu : nat) (opts : list popt) (gated ran_before : nat) (accepted ran_ cancelled : list nat) (pending_final : Z)
  | GWatch (depth : nat) (sweeps : list (list Z)).

(* GWatch (round 4, harness watch.go): sample of sweeps that concurrent observers took bottom-up (pool counter first, then the
   counter of every group above it up to the root) while submitters were running and every accepted task was parked (no counter
   decreases).  By C16_group_wait_sound (GroupConcProofs.v) a value read from an unlocked counter is the value of the
   linearised forest, in which a non-zero node has only non-zero ancestors: once a sweep has seen a non-zero counter, every
   later (higher) read must be non-zero too.  The harness judges every read with its own stamps; this re-checks the sample. *)
Fixpoint sweep_ok (seen : bool) (l : list Z) : bool :=
  match l with
  | [] => true
  | v :: r => if (v =? 0)%Z then negb seen && sweep_ok seen r else sweep_ok true r
  end.

(* Start; close the gate; g Submits of the gated task 0; Shutdown; open the gate; ShutdownComplete.Wait *)
Definition backlog_script (g : nat) : list Corr.dir :=
  Corr.XOp OStart :: Corr.XGate true :: repeat (Corr.XOp (OSubmit 0)) g ++ [Corr.XOp OShutdown; Corr.XGate false; Corr.XOp OWaitShutdown].

(* (tasks run, tasks cancelled) in the model *)
Definition model_split (pc : pcfg) (g : nat) : nat * nat :=
  let (_, rf) := Corr.model_obs (to_cfg pc [[]]) [true] (backlog_script g) in
  (length (ran (Corr.r_st rf)), length (canc (Corr.r_st rf))).

(* besides model = implementation, the implementation's observations are checked against the specification side directly:
   WaitChildren has returned iff every pool below is idle (pools_idle_below evaluated on the model forest, whose values
   have just been compared with the real ones) *)
Fixpoint spec_ok (f : forest) (ops : list gop) (observed : list gobs) : bool :=
  match ops, observed with
  | o :: r, ob :: obs =>
      match gstep f o with
      | Some f' => list_eqb Bool.eqb (go_wc ob) (map (pools_idle_below f') (groups_of f')) && spec_ok f' r obs
      | None => false
      end
  | [], [] => true
  | _, _ => false
  end.

Definition gagree (k : gcase) : bool :=
  match k with
  | GHist ops observed => list_eqb gobs_eqb (grun_obs [] ops) observed && spec_ok [] ops observed
  | GFinal vals returned => returned && forallb (fun v => (v =? 0)%Z) vals
  | GPoolShutdown ncpu opts g rb a r x p =>
      let pc := pool_cfg true ncpu opts in
      conserved_b (pc_cancel pc) a r x p &&
      (let (mr, mx) := model_split pc g in (length r =? rb + mr) && (length x =? mx))
  | GWatch depth sweeps => forallb (fun s => (length s <=? depth + 2) && sweep_ok false s) sweeps
  end.

Fixpoint gmismatches_from (i : nat) (cs : list gcase) : list nat :=
  match cs with
  | [] => []
  | k :: r => if gagree k then gmismatches_from (S i) r else i :: gmismatches_from (S i) r
  end.

Definition mismatches (cs : list gcase) : list nat := gmismatches_from 0 cs.
