(* Correspondence for the pool with external waiters (Waiters.v; harness sub-command `waiters`).
   A script is a script of Corr.v with one more directive: YWait k launches a goroutine that calls the wait k on the pool's
   public Queue / PendingTasksCounter.  After every directive the process settles; observed: what Corr.v observes, plus
   Queue.Size() and, per waiter launched so far, whether its call has returned.  The model (xstep with Broadcast = the
   code) runs the same script with the run-to-quiescence scheduler of Corr.v extended by the waiter threads.
   The scripts are generated so that the settled state does not depend on the schedule (see harness/cmd/c16/waiters.go). *)
From Coq Require Import List ZArith Bool Arith.
From Verif.C16_Pool Require Import Model Options Corr Waiters.
Import ListNotations.

Inductive wdir := YDir (d : dir) | YWait (k : wkind).

Record xrs := mkXrs { y_x : xst; y_active : nat; y_wactive : nat; y_gate : bool; y_hsub : bool; y_hdisp : bool }.

Definition to_rs (y : xrs) : rs := mkRs (base (y_x y)) (y_active y) (y_gate y) (y_hsub y) (y_hdisp y).

Definition dirs_of (script : list wdir) : list dir := flat_map (fun d => match d with YDir d' => [d'] | YWait _ => [] end) script.
Definition kinds_of (script : list wdir) : list wkind := flat_map (fun d => match d with YWait k => [k] | YDir _ => [] end) script.

Definition xfrozen (gated : list bool) (y : xrs) (t : xthr) : bool :=
  match t with
  | XB b => frozen gated (to_rs y) b
  | XW i => y_wactive y <=? i
  end.

Definition with_x (y : xrs) (x : xst) : xrs := mkXrs x (y_active y) (y_wactive y) (y_gate y) (y_hsub y) (y_hdisp y).

Definition xround (c : cfg) (gated : list bool) (y : xrs) : xrs * bool :=
  fold_left (fun (a : xrs * bool) t =>
               let (y0, moved) := a in
               if xfrozen gated y0 t then a
               else match xstep false c (y_x y0) (t, 0) with
                    | Some x' => (with_x y0 x', true)
                    | None => a
                    end)
            (xthreads (y_x y)) (y, false).

Fixpoint xsettle (fuel : nat) (c : cfg) (gated : list bool) (y : xrs) : xrs :=
  match fuel with
  | O => y
  | S f => let (y', moved) := xround c gated y in if moved then xsettle f c gated y' else y'
  end.

Definition xapply_dir (y : xrs) (d : wdir) : xrs :=
  match d with
  | YWait _ => mkXrs (y_x y) (y_active y) (S (y_wactive y)) (y_gate y) (y_hsub y) (y_hdisp y)
  | YDir (XOp _) => mkXrs (y_x y) (S (y_active y)) (y_wactive y) (y_gate y) (y_hsub y) (y_hdisp y)
  | YDir (XGate b) => mkXrs (y_x y) (y_active y) (y_wactive y) b (y_hsub y) (y_hdisp y)
  | YDir (XHoldSub b) => mkXrs (y_x y) (y_active y) (y_wactive y) (y_gate y) b (y_hdisp y)
  | YDir (XHoldDisp b) => mkXrs (y_x y) (y_active y) (y_wactive y) (y_gate y) (y_hsub y) b
  end.

Record wobs := mkWobs { wo_obs : obs; wo_qsize : nat; wo_wdone : list bool }.

Definition w_done (w : waiter) : bool := match wk_pc w with WDone => true | _ => false end.

Definition xobserve (y : xrs) : wobs :=
  mkWobs (observe (to_rs y)) (length (queue (base (y_x y)))) (map w_done (firstn (y_wactive y) (wts (y_x y)))).

Fixpoint xrun_script (fuel : nat) (c : cfg) (gated : list bool) (y : xrs) (script : list wdir) : list wobs * xrs :=
  match script with
  | [] => ([], y)
  | d :: rest =>
      let y' := xsettle fuel c gated (xapply_dir y d) in
      let (os, yf) := xrun_script fuel c gated y' rest in
      (xobserve y' :: os, yf)
  end.

Definition wobs_eqb (rejobs : bool) (a b : wobs) : bool :=
  obs_eqb rejobs (wo_obs a) (wo_obs b) && (wo_qsize a =? wo_qsize b) && list_eqb Bool.eqb (wo_wdone a) (wo_wdone b).

(* the property's own predicate on a settled observation of the MODEL run: nothing is held by the runner (gate open, no
   hooks) => the pending counter is zero; and no launched waiter whose condition holds is still waiting *)
Definition settled_ok (y : xrs) : bool :=
  (y_gate y || y_hsub y || y_hdisp y || (pending (base (y_x y)) =? 0)%Z) &&
  negb (existsb (starved (y_x y)) (firstn (y_wactive y) (wts (y_x y)))).

Inductive wcase :=
  | CWait (ncpu : nat) (via_group : bool) (opts : list popt) (p : list (list nat)) (gated : list bool) (script : list wdir)
          (observed : list wobs) (final_cancelled : list nat).

Definition wmodel_obs (c : cfg) (gated : list bool) (script : list wdir) : list wobs * xrs :=
  xrun_script settle_fuel c gated
    (mkXrs (xinit c (ops_of (dirs_of script)) (kinds_of script)) 0 0 false false false) script.

Definition wagree (k : wcase) : bool :=
  match k with
  | CWait ncpu via opts p gated script observed fcanc =>
      let pc := pool_cfg via ncpu opts in
      let c := to_cfg pc p in
      let (os, yf) := wmodel_obs c gated script in
      (1 <=? pc_workers pc) && list_eqb (wobs_eqb (pc_panic pc)) os observed &&
      (negb (pc_panic pc) || list_eqb Nat.eqb (NatSort.sort (canc (base (y_x yf)))) fcanc) && settled_ok yf
  end.

Fixpoint wmismatches_from (i : nat) (cs : list wcase) : list nat :=
  match cs with
  | [] => []
  | k :: r => if wagree k then wmismatches_from (S i) r else i :: wmismatches_from (S i) r
  end.

Definition wmismatches (cs : list wcase) : list nat := wmismatches_from 0 cs.
