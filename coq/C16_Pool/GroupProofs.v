(* C16 - group aggregation: for every history of creations and pool-counter changes the counter of a group is the number of
   its direct children with a non-zero counter, hence zero iff every pool below it (through any nesting) is idle. *)
From Coq Require Import List ZArith Bool Arith Lia.
From Verif.C16_Pool Require Import Model Inv Group.
Import ListNotations.

Definition parent_of (f : forest) (i : nat) : option nat := match nth_error f i with Some n => nparent n | None => None end.

(* node i is below g: g is its parent, or an ancestor of its parent *)
Inductive below (f : forest) : nat -> nat -> Prop :=
  | below_direct : forall i g, parent_of f i = Some g -> below f i g
  | below_up : forall i p g, parent_of f i = Some p -> below f p g -> below f i g.

Record Shape (f : forest) : Prop := {
  shParent : forall i n p, nth_error f i = Some n -> nparent n = Some p -> p < i /\ is_kind KGroup f p = true;
  shRoot : forall i n, nth_error f i = Some n -> nkind n = KGroup ->
      match nparent n with None => nroot n = None | Some p => nroot n = Some (root_of f p) end }.

Definition Agg (f : forest) (g : nat) : Prop := gval f g = Z.of_nat (count_childnz g f).

Record GInv (f : forest) : Prop := {
  giShape : Shape f;
  giAgg : forall g, is_kind KGroup f g = true -> Agg f g }.

(* ---------- skeleton (everything but the values) ---------- *)
Definition skel (n : node) := (nkind n, nparent n, nroot n).

Lemma nth_error_skel : forall f f' i n', map skel f' = map skel f -> nth_error f' i = Some n' ->
  exists n, nth_error f i = Some n /\ skel n = skel n'.
Proof.
  induction f as [|a f IH]; intros [|b f'] i n' E H; simpl in *; try discriminate.
  - destruct i; discriminate.
  - inversion E. destruct i; simpl in *.
    + inversion H; subst. exists a. split; auto. unfold skel. congruence.
    + eauto.
Qed.

Lemma skel_fields : forall n n', skel n = skel n' -> nkind n = nkind n' /\ nparent n = nparent n' /\ nroot n = nroot n'.
Proof. unfold skel. intros n n' H. inversion H. auto. Qed.

Lemma is_kind_skel : forall f f' k i, map skel f' = map skel f -> is_kind k f' i = is_kind k f i.
Proof.
  intros f f' k i E. unfold is_kind. destruct (nth_error f' i) as [n'|] eqn:H.
  - destruct (nth_error_skel _ _ _ _ E H) as [n [Hn S]]. rewrite Hn. apply skel_fields in S. destruct S as [-> _]. reflexivity.
  - destruct (nth_error f i) as [n|] eqn:Hn; auto. symmetry in E.
    destruct (nth_error_skel _ _ _ _ E Hn) as [n' [Hn' _]]. congruence.
Qed.

Lemma parent_of_skel : forall f f' i, map skel f' = map skel f -> parent_of f' i = parent_of f i.
Proof.
  intros f f' i E. unfold parent_of. destruct (nth_error f' i) as [n'|] eqn:H.
  - destruct (nth_error_skel _ _ _ _ E H) as [n [Hn S]]. rewrite Hn. apply skel_fields in S. destruct S as (_ & -> & _). reflexivity.
  - destruct (nth_error f i) as [n|] eqn:Hn; auto. symmetry in E.
    destruct (nth_error_skel _ _ _ _ E Hn) as [n' [Hn' _]]. congruence.
Qed.

Lemma root_of_skel : forall f f' i, map skel f' = map skel f -> root_of f' i = root_of f i.
Proof.
  intros f f' i E. unfold root_of. destruct (nth_error f' i) as [n'|] eqn:H.
  - destruct (nth_error_skel _ _ _ _ E H) as [n [Hn S]]. rewrite Hn. apply skel_fields in S. destruct S as (_ & _ & ->). reflexivity.
  - destruct (nth_error f i) as [n|] eqn:Hn; auto. symmetry in E.
    destruct (nth_error_skel _ _ _ _ E Hn) as [n' [Hn' _]]. congruence.
Qed.

Lemma shape_skel : forall f f', map skel f' = map skel f -> Shape f -> Shape f'.
Proof.
  intros f f' E [P R]. constructor.
  - intros i n' p H Hp. destruct (nth_error_skel _ _ _ _ E H) as [n [Hn S]]. apply skel_fields in S. destruct S as (S1 & S2 & S3).
    rewrite (is_kind_skel _ _ _ _ E). apply (P i n p Hn). congruence.
  - intros i n' H Hk. destruct (nth_error_skel _ _ _ _ E H) as [n [Hn S]]. apply skel_fields in S. destruct S as (S1 & S2 & S3).
    specialize (R i n Hn). rewrite S1 in R. specialize (R Hk). rewrite <- S2, <- S3.
    destruct (nparent n); auto. rewrite (root_of_skel _ _ _ E). auto.
Qed.

Lemma upd_skel : forall f i n v, nth_error f i = Some n -> map skel (upd i (set_val v n) f) = map skel f.
Proof.
  induction f as [|a f IH]; intros [|i] n v H; simpl in *; try discriminate.
  - inversion H; subst. reflexivity.
  - f_equal. eauto.
Qed.

Lemma notify_skel : forall fuel f i v, map skel (notify fuel f i v) = map skel f.
Proof.
  induction fuel as [|fuel IH]; intros f i v; simpl; destruct (nth_error f i) as [n|] eqn:Hi; auto;
    destruct (nval n =? v)%Z; auto; try (apply upd_skel; auto).
  destruct (nparent n) as [p|]; try (apply upd_skel; auto).
  destruct (nval n =? 0)%Z; [|destruct (v =? 0)%Z]; rewrite ?IH; apply upd_skel; auto.
Qed.

(* ---------- counting ---------- *)
Lemma count_sumf : forall g f, count_childnz g f = sumf (childnz g) f.
Proof. induction f; simpl; auto. Qed.

Lemma count_upd : forall g f i n n', nth_error f i = Some n ->
  count_childnz g (upd i n' f) + childnz g n = count_childnz g f + childnz g n'.
Proof. intros. rewrite !count_sumf. eapply sumf_upd; eauto. Qed.

Lemma count_app : forall g a b, count_childnz g (a ++ b) = count_childnz g a + count_childnz g b.
Proof. induction a; simpl; intros; auto. rewrite IHa. lia. Qed.

Lemma count_zero : forall g f, count_childnz g f = 0 <->
  (forall i n, nth_error f i = Some n -> nparent n = Some g -> nval n = 0%Z).
Proof.
  induction f as [|a f IH]; simpl.
  - split; auto. intros _ [|i] n H; discriminate.
  - split.
    + intros H [|i] n Hn Hp; simpl in Hn.
      * inversion Hn; subst. unfold childnz in H. rewrite Hp, Nat.eqb_refl in H. simpl in H.
        destruct (nval n =? 0)%Z eqn:E; simpl in H; [apply Z.eqb_eq; auto | lia].
      * apply (proj1 IH) with (i := i); auto. lia.
    + intros H. assert (A: childnz g a = 0).
      { unfold childnz. destruct (nparent a) as [p|] eqn:Hp; auto. destruct (Nat.eqb_spec p g); auto. subst.
        rewrite (H 0 a eq_refl Hp). reflexivity. }
      rewrite A. simpl. apply IH. intros i n Hn. apply (H (S i) n Hn).
Qed.

Lemma gval_upd_eq : forall f i n n', nth_error f i = Some n -> gval (upd i n' f) i = nval n'.
Proof. intros. unfold gval. erewrite nth_error_upd_eq; eauto. Qed.

Lemma gval_upd_neq : forall f i g (n' : node), g <> i -> gval (upd i n' f) g = gval f g.
Proof. intros. unfold gval. rewrite nth_error_upd_neq; auto. Qed.

Lemma is_kind_lt : forall k f i, is_kind k f i = true -> i < length f.
Proof. intros k f i H. unfold is_kind in H. destruct (nth_error f i) eqn:E; try discriminate. apply nth_error_Some. congruence. Qed.

(* ---------- the notification chain re-establishes the aggregation ---------- *)
Lemma notify_agg : forall fuel f i v, i < fuel -> Shape f ->
  (forall g, g <> i -> is_kind KGroup f g = true -> Agg f g) ->
  (is_kind KGroup f i = true -> v = Z.of_nat (count_childnz i f)) ->
  forall g, is_kind KGroup (notify fuel f i v) g = true -> Agg (notify fuel f i v) g.
Proof.
  induction fuel as [|fuel IH]; intros f i v Hlt Sh A Hv; [lia|].
  assert (EK: forall g, is_kind KGroup (notify (S fuel) f i v) g = is_kind KGroup f g)
    by (intros; apply is_kind_skel, notify_skel).
  intros g Hg. rewrite EK in Hg. revert g Hg.
  cbn [notify]. destruct (nth_error f i) as [n|] eqn:Hi.
  2: { intros g Hg. apply A; auto. intros ->. unfold is_kind in Hg. rewrite Hi in Hg. discriminate. }
  destruct (nval n =? v)%Z eqn:Eo.
  { intros g Hg. destruct (Nat.eq_dec g i) as [->|N]; auto. unfold Agg. rewrite <- Hv by auto.
    unfold gval. rewrite Hi. apply Z.eqb_eq; auto. }
  apply Z.eqb_neq in Eo.
  set (f' := upd i (set_val v n) f).
  assert (SK: map skel f' = map skel f) by (apply upd_skel; auto).
  assert (Sh': Shape f') by (eapply shape_skel; eauto).
  assert (CU: forall g, count_childnz g f' + childnz g n = count_childnz g f + childnz g (set_val v n))
    by (intros; apply count_upd; auto).
  assert (CN: forall g, nparent n <> Some g -> count_childnz g f' = count_childnz g f).
  { intros g Hp. specialize (CU g). unfold childnz in CU. cbn [set_val nparent nval] in CU.
    destruct (nparent n) as [p|]; try lia. destruct (Nat.eqb_spec p g); try congruence. simpl in CU. lia. }
  assert (Hpi: forall p, nparent n = Some p -> p < i /\ is_kind KGroup f p = true) by (intros; eapply (shParent f Sh); eauto).
  assert (A': forall g, nparent n <> Some g -> is_kind KGroup f g = true -> Agg f' g).
  { intros g Hp Hg. unfold Agg. rewrite CN by auto. destruct (Nat.eq_dec g i) as [->|N].
    - unfold f'. erewrite gval_upd_eq by eauto. cbn [set_val nval]. auto.
    - unfold f'. rewrite gval_upd_neq by auto. apply A; auto. }
  destruct (nparent n) as [p|] eqn:Hp.
  2: { intros g Hg. apply A'; auto. discriminate. }
  destruct (Hpi p eq_refl) as [Plt Pk].
  assert (Np: p <> i) by lia.
  assert (Gp: gval f' p = Z.of_nat (count_childnz p f)).
  { unfold f'. rewrite gval_upd_neq by auto. apply A; auto. }
  specialize (CU p). unfold childnz in CU. cbn [set_val nparent nval] in CU. rewrite Hp, Nat.eqb_refl in CU. simpl in CU.
  assert (KG: forall g, is_kind KGroup f' g = is_kind KGroup f g) by (intros; apply is_kind_skel; auto).
  destruct (nval n =? 0)%Z eqn:E0; [|destruct (v =? 0)%Z eqn:E1].
  - (* 0 -> non-zero: parent.Increase() *)
    apply Z.eqb_eq in E0. assert (v =? 0 = false)%Z as Ev by (apply Z.eqb_neq; lia). rewrite Ev in CU. simpl in CU.
    intros g Hg. apply IH; auto; try lia.
    + intros g' Ng Hg'. rewrite KG in Hg'. apply A'; auto. congruence.
    + rewrite (is_kind_skel f') by apply notify_skel. rewrite KG. auto.
  - (* non-zero -> 0: parent.Decrease() *)
    simpl in CU.
    intros g Hg. apply IH; auto; try lia.
    + intros g' Ng Hg'. rewrite KG in Hg'. apply A'; auto. congruence.
    + rewrite (is_kind_skel f') by apply notify_skel. rewrite KG. auto.
  - (* non-zero -> non-zero: the parent is not told *)
    simpl in CU.
    intros g Hg. destruct (Nat.eq_dec g p) as [->|N].
    + unfold Agg. rewrite Gp. f_equal. lia.
    + apply A'; auto. congruence.
Qed.

Lemma cset_inv : forall f p v, GInv f -> is_kind KPool f p = true -> GInv (cset f p v).
Proof.
  intros f p v [Sh A] Hp. unfold cset. constructor.
  - eapply shape_skel; [apply notify_skel | auto].
  - apply notify_agg; auto.
    + eapply is_kind_lt; eauto.
    + intros Hg. unfold is_kind in *. destruct (nth_error f p) as [n|]; try discriminate. destruct (nkind n); discriminate.
Qed.

(* ---------- creations ---------- *)
Lemma nth_error_snoc : forall A (l : list A) x i y, nth_error (l ++ [x]) i = Some y ->
  (i < length l /\ nth_error l i = Some y) \/ (i = length l /\ y = x).
Proof.
  intros A l x i y H. destruct (Nat.lt_ge_cases i (length l)) as [L|G].
  - left. rewrite nth_error_app1 in H by auto. auto.
  - right. rewrite nth_error_app2 in H by auto. destruct (i - length l) as [|k] eqn:E; simpl in H.
    + inversion H. split; auto. lia.
    + destruct k; discriminate.
Qed.

Lemma is_kind_snoc : forall k f x i, i < length f -> is_kind k (f ++ [x]) i = is_kind k f i.
Proof. intros. unfold is_kind. rewrite nth_error_app1; auto. Qed.
Lemma gval_snoc : forall f x i, i < length f -> gval (f ++ [x]) i = gval f i.
Proof. intros. unfold gval. rewrite nth_error_app1; auto. Qed.
Lemma root_of_snoc : forall f x i, i < length f -> root_of (f ++ [x]) i = root_of f i.
Proof. intros. unfold root_of. rewrite nth_error_app1; auto. Qed.

Lemma count_fresh : forall f g, Shape f -> length f <= g -> count_childnz g f = 0.
Proof.
  intros f g Sh L. apply count_zero. intros i n Hn Hp. destruct (shParent f Sh i n g Hn Hp) as [Lt _].
  assert (i < length f) by (apply nth_error_Some; congruence). lia.
Qed.

Lemma snoc_inv : forall f x, GInv f -> nval x = 0%Z ->
  (forall p, nparent x = Some p -> is_kind KGroup f p = true) ->
  (nkind x = KGroup -> match nparent x with None => nroot x = None | Some p => nroot x = Some (root_of f p) end) ->
  GInv (f ++ [x]).
Proof.
  intros f x [Sh A] V P R. constructor.
  - constructor.
    + intros i n p Hn Hp. destruct (nth_error_snoc _ _ _ _ _ Hn) as [[L Hn']|[-> ->]].
      * destruct (shParent f Sh i n p Hn' Hp) as [Lt K]. split; auto. rewrite is_kind_snoc; auto. lia.
      * specialize (P p Hp). pose proof (is_kind_lt _ _ _ P). split; auto. rewrite is_kind_snoc; auto.
    + intros i n Hn Hk. destruct (nth_error_snoc _ _ _ _ _ Hn) as [[L Hn']|[-> ->]].
      * pose proof (shRoot f Sh i n Hn' Hk) as Q. destruct (nparent n) as [p|] eqn:Hp; auto.
        destruct (shParent f Sh i n p Hn' Hp) as [Lt K]. rewrite root_of_snoc; auto. lia.
      * specialize (R Hk). destruct (nparent x) as [p|] eqn:Hp; auto.
        specialize (P p eq_refl). rewrite root_of_snoc; auto. eapply is_kind_lt; eauto.
  - intros g Hg. unfold Agg. rewrite count_app. simpl.
    assert (Z0: childnz g x = 0). { unfold childnz. rewrite V. simpl. destruct (nparent x); auto. rewrite andb_false_r. reflexivity. }
    rewrite Z0. pose proof (is_kind_lt _ _ _ Hg) as L. rewrite app_length in L. simpl in L.
    destruct (Nat.eq_dec g (length f)) as [->|N].
    + unfold gval. rewrite nth_error_app2 by lia. rewrite Nat.sub_diag. simpl. rewrite V. rewrite count_fresh; auto.
    + rewrite is_kind_snoc in Hg by lia. rewrite gval_snoc by lia. rewrite (A g Hg). f_equal. lia.
Qed.

Lemma gstep_inv : forall f o f', GInv f -> gstep f o = Some f' -> GInv f'.
Proof.
  intros f o f' I H. destruct o; simpl in H;
    try (destruct (is_kind KGroup f g) eqn:K; try discriminate); try (destruct (is_kind KPool f p) eqn:K; try discriminate);
    inversion H; subst; try (apply cset_inv; auto; fail);
    apply snoc_inv; auto; simpl; intros; try discriminate; try congruence; auto.
Qed.

Lemma ginv_nil : GInv [].
Proof. constructor. constructor; intros [|i]; discriminate. intros [|g]; discriminate. Qed.

Lemma grun_inv : forall ops f f', GInv f -> grun f ops = Some f' -> GInv f'.
Proof.
  induction ops as [|o ops IH]; intros f f' I H; simpl in H.
  - inversion H; subst; auto.
  - destruct (gstep f o) as [f1|] eqn:E; try discriminate. apply (IH f1); auto. eapply gstep_inv; eauto.
Qed.

(* ---------- consequences of the invariant ---------- *)
Section Consequences.
Variable f : forest.
Hypothesis I : GInv f.

Lemma parent_of_spec : forall i p, parent_of f i = Some p ->
  exists n, nth_error f i = Some n /\ nparent n = Some p /\ p < i /\ is_kind KGroup f p = true.
Proof.
  intros i p H. unfold parent_of in H. destruct (nth_error f i) as [n|] eqn:Hn; try discriminate.
  exists n. destruct (shParent f (giShape f I) i n p Hn H). auto.
Qed.

Lemma child_zero : forall i p, parent_of f i = Some p -> gval f p = 0%Z -> gval f i = 0%Z.
Proof.
  intros i p H Z. destruct (parent_of_spec i p H) as (n & Hn & Hp & _ & K).
  pose proof (giAgg f I p K) as A. unfold Agg in A. rewrite Z in A.
  assert (C: count_childnz p f = 0) by lia.
  unfold gval. rewrite Hn. eapply (proj1 (count_zero p f) C); eauto.
Qed.

Lemma below_zero : forall i g, below f i g -> gval f g = 0%Z -> gval f i = 0%Z.
Proof. induction 1; intros Z; eauto using child_zero. Qed.

Lemma below_top : forall x i g, below f x i -> parent_of f i = Some g -> below f x g.
Proof. induction 1; intros Hg. eapply below_up; eauto. apply below_direct; auto. eapply below_up; eauto. Qed.

Lemma below_trans : forall x i g, below f x i -> below f i g -> below f x g.
Proof. intros x i g H1 H2. revert x H1. induction H2; intros x H1. eapply below_top; eauto. apply IHbelow. eapply below_top; eauto. Qed.

Lemma idle_zero : forall k g, length f - g <= k -> is_kind KGroup f g = true ->
  (forall i, is_kind KPool f i = true -> below f i g -> gval f i = 0%Z) -> gval f g = 0%Z.
Proof.
  induction k as [|k IH]; intros g L K H.
  - pose proof (is_kind_lt _ _ _ K). lia.
  - rewrite (giAgg f I g K). replace (count_childnz g f) with 0; auto. symmetry. apply count_zero.
    intros i n Hn Hp. destruct (shParent f (giShape f I) i n g Hn Hp) as [Lt _].
    assert (Li: i < length f) by (apply nth_error_Some; congruence).
    assert (PO: parent_of f i = Some g) by (unfold parent_of; rewrite Hn; auto).
    assert (G: gval f i = 0%Z).
    { destruct (nkind n) eqn:Kn.
      - apply H. unfold is_kind. rewrite Hn, Kn. auto. apply below_direct; auto.
      - apply IH. lia. unfold is_kind. rewrite Hn, Kn. auto.
        intros x Kx Bx. apply H; auto. eapply below_top; eauto. }
    unfold gval in G. rewrite Hn in G. auto.
Qed.

(* the group counter is zero iff every pool below the group, at any depth, has a zero pending counter *)
Theorem group_zero_iff : forall g, is_kind KGroup f g = true ->
  (gval f g = 0%Z <-> forall i, is_kind KPool f i = true -> below f i g -> gval f i = 0%Z).
Proof.
  intros g K. split.
  - intros Z i _ B. eapply below_zero; eauto.
  - intros H. eapply idle_zero; eauto.
Qed.

(* Root() is the top-most ancestor *)
Lemma root_top : forall k g, g <= k -> is_kind KGroup f g = true ->
  is_kind KGroup f (root_of f g) = true /\ parent_of f (root_of f g) = None /\ (root_of f g = g \/ below f g (root_of f g)).
Proof.
  induction k as [|k IH]; intros g L K.
  - assert (g = 0) by lia. subst. unfold is_kind in K. destruct (nth_error f 0) as [n|] eqn:Hn; try discriminate.
    assert (Kn: nkind n = KGroup) by (destruct (nkind n); auto; discriminate).
    pose proof (shRoot f (giShape f I) 0 n Hn Kn) as R. destruct (nparent n) as [p|] eqn:Hp.
    + destruct (shParent f (giShape f I) 0 n p Hn Hp). lia.
    + unfold root_of, parent_of, is_kind. rewrite Hn, R, Hn, Hp, Kn. auto.
  - unfold is_kind in K. destruct (nth_error f g) as [n|] eqn:Hn; try discriminate.
    assert (Kn: nkind n = KGroup) by (destruct (nkind n); auto; discriminate).
    pose proof (shRoot f (giShape f I) g n Hn Kn) as R. destruct (nparent n) as [p|] eqn:Hp.
    + destruct (shParent f (giShape f I) g n p Hn Hp) as [Lt Kp].
      assert (E: root_of f g = root_of f p) by (unfold root_of at 1; rewrite Hn, R; auto).
      destruct (IH p ltac:(lia) Kp) as (A & B & C). rewrite E. repeat split; auto. right.
      assert (PO: parent_of f g = Some p) by (unfold parent_of; rewrite Hn; auto).
      destruct C as [C|C]. rewrite C. apply below_direct; auto. eapply below_up; eauto.
    + unfold root_of, parent_of, is_kind. rewrite Hn, R, Hn, Hp, Kn. auto.
Qed.

(* executable "below" agrees with the relation *)
Lemma belowb_sound : forall fuel i g, belowb fuel f i g = true -> below f i g.
Proof.
  induction fuel as [|fuel IH]; intros i g H; simpl in H; try discriminate.
  destruct (nth_error f i) as [n|] eqn:Hn; try discriminate. destruct (nparent n) as [p|] eqn:Hp; try discriminate.
  assert (PO: parent_of f i = Some p) by (unfold parent_of; rewrite Hn; auto).
  apply orb_prop in H. destruct H as [H|H].
  - apply Nat.eqb_eq in H. subst. apply below_direct; auto.
  - eapply below_up; eauto.
Qed.

Lemma belowb_complete : forall i g, below f i g -> forall fuel, i < fuel -> belowb fuel f i g = true.
Proof.
  induction 1 as [i g H|i p g H B IH]; intros [|fuel] L; try lia; simpl;
    destruct (parent_of_spec _ _ H) as (n & Hn & Hp & Lt & _); rewrite Hn, Hp.
  - rewrite Nat.eqb_refl. auto.
  - rewrite IH by lia. apply orb_true_r.
Qed.

Lemma pools_idle_below_spec : forall g,
  pools_idle_below f g = true <-> (forall i, is_kind KPool f i = true -> below f i g -> gval f i = 0%Z).
Proof.
  intros g. unfold pools_idle_below. rewrite forallb_forall. split.
  - intros H i K B. pose proof (is_kind_lt _ _ _ K) as L.
    specialize (H i ltac:(apply in_seq; lia)). rewrite K, (belowb_complete i g B) in H by auto. simpl in H. apply Z.eqb_eq; auto.
  - intros H i _. destruct (is_kind KPool f i) eqn:K; auto. destruct (belowb (length f) f i g) eqn:B; auto. simpl.
    apply Z.eqb_eq. apply H; auto. eapply belowb_sound; eauto.
Qed.

End Consequences.

(* ---------- main statements over all histories ---------- *)
Theorem group_counts_children : forall ops f g, grun [] ops = Some f -> is_kind KGroup f g = true ->
  gval f g = Z.of_nat (count_childnz g f).
Proof. intros ops f g H K. apply (giAgg f (grun_inv _ _ _ ginv_nil H)); auto. Qed.

Theorem group_aggregates : forall ops f g, grun [] ops = Some f -> is_kind KGroup f g = true ->
  (gval f g = 0%Z <-> forall i, is_kind KPool f i = true -> below f i g -> gval f i = 0%Z).
Proof. intros ops f g H K. apply group_zero_iff; auto. eapply grun_inv; eauto. apply ginv_nil. Qed.

Theorem wait_children_spec : forall ops f g, grun [] ops = Some f -> is_kind KGroup f g = true ->
  wait_children_returns f g = pools_idle_below f g.
Proof.
  intros ops f g H K. pose proof (grun_inv _ _ _ ginv_nil H) as I.
  unfold wait_children_returns. apply eq_true_iff_eq. rewrite Z.eqb_eq, pools_idle_below_spec by auto.
  apply group_zero_iff; auto.
Qed.

(* WaitParents waits on the root, which is the top-most ancestor: it returns iff every pool of the whole tree is idle *)
Theorem wait_parents_spec : forall ops f g, grun [] ops = Some f -> is_kind KGroup f g = true ->
  let r := root_of f g in
  is_kind KGroup f r = true /\ parent_of f r = None /\ (r = g \/ below f g r) /\
  wait_parents_returns f g = pools_idle_below f r /\
  (wait_parents_returns f g = true -> wait_children_returns f g = true).
Proof.
  intros ops f g H K r. pose proof (grun_inv _ _ _ ginv_nil H) as I.
  destruct (root_top f I g g (le_n _) K) as (A & B & C). fold r in A, B, C.
  repeat split; auto.
  - unfold wait_parents_returns. fold r. apply (wait_children_spec ops); auto.
  - unfold wait_parents_returns, wait_children_returns. fold r. rewrite !Z.eqb_eq. intros Z.
    destruct C as [C|C]. congruence. eapply below_zero; eauto.
Qed.
