(* C16 - a decreasing measure for the REPAIRED variant after Shutdown took effect: once the pool is stopped (running = false)
   and no Start is pending or in progress, EVERY step of EVERY thread strictly decreases a natural number `mu`.  So every
   run from such a state takes at most `mu s` steps (no livelock, whatever the scheduler does), and by Term.v the state in
   which it can not be extended is the completed shutdown. *)
From Coq Require Import List ZArith Bool Arith Lia.
From Verif.C16_Pool Require Import Model Inv StepsA StepsB Proofs Live Term.
Import ListNotations.

Definition nost_pc (p : epc) : bool :=
  match p with EStChk | EStWait | EStAnn | EStAcq | EStGo | EStUnl | EStRel => false | _ => true end.
Definition nost_op (o : op) : bool := match o with OStart => false | _ => true end.
Definition nost_e (e : ext) : bool := nost_pc (epc_ e) && forallb nost_op (ops e).
(* no Start call is in progress or still to come *)
Definition nostart (s : st) : bool := forallb nost_e (exts s).

Section M.
Variables (n : nat) (cn : bool) (pg : list (list nat)).
Let c := repaired n cn pg.
Hypothesis Hnw : 1 <= n.

(* weight of a task that still has to be executed (or cancelled) by a worker *)
Definition tw (t : nat) : nat := length (kids c t) + 3.

Definition mu_d (s : st) : nat :=
  match disp s with
  | DDead => 0 | DClose => 1 | DWaitZ => 2
  | DLoop => match queue s with [] => 3 | _ :: _ => 6 end
  | DIn => 4 | DLock => 5 | DWoken => 5 | DParked => 6 | DHold => 7
  | DSend t => 7 + tw t
  end.

Definition mu_w (w : wk) : nat :=
  match w with
  | WDead => 0 | WDrain => 1 | WInner => 2 | WOuter => 3
  | WRun d _ rest _ => length rest + 1 + (if d then 1 else 3)
  end.

Definition rank (p : epc) : nat :=
  match p with
  | EIdle => 0 | ESub _ _ => 1 | EShUnl => 1 | EShBc => 2 | EShSend k => 3 + k | EShBody => n + 4 | EShAcq => n + 5
  | _ => 0
  end.
Definition mu_e (e : ext) : nat := (n + 6) * length (ops e) + rank (epc_ e).

Definition mu (s : st) : nat :=
  mu_d s + sumf mu_w (wks s) + sumf mu_e (exts s) + sumf (fun t => tw t + 5) (queue s) + sumf tw (chanq s).

Lemma sumf_app : forall A (f : A -> nat) a b, sumf f (a ++ b) = sumf f a + sumf f b.
Proof. induction a; simpl; intros; auto. rewrite IHa. lia. Qed.

Lemma nostart_upd : forall l j e', forallb nost_e l = true -> nost_e e' = true -> forallb nost_e (upd j e' l) = true.
Proof.
  induction l as [|a l IH]; intros [|j] e' H H'; simpl in *; auto; apply andb_prop in H; destruct H as [H1 H2];
    apply andb_true_intro; split; auto.
Qed.

Lemma nostart_nth : forall l j e, forallb nost_e l = true -> nth_error l j = Some e -> nost_e e = true.
Proof. intros. rewrite forallb_forall in H. apply H. eapply nth_error_In; eauto. Qed.

(* ---------- dispatcher ---------- *)
Lemma mu_dstep : forall s s', Inv2 c s -> running s = false -> d_step c s = Some s' ->
  mu s' < mu s /\ running s' = false /\ exts s' = exts s.
Proof.
  intros s s' J R H. unfold d_step in H. cbn [c repaired fCondFree orb] in H. rewrite R in H. unfold mu, mu_d.
  destruct (disp s) eqn:Ed; try (destruct (queue s) eqn:Eq); cbn [orb negb] in H; brk H; inversion H; subst; clear H; proj;
    rewrite ?Ed, ?Eq; cbn [sumf]; rewrite ?sumf_app; cbn [sumf]; repeat split; auto; try lia.
Qed.

(* ---------- workers ---------- *)
Lemma mu_wstep : forall s k w ch s1 w', Inv2 c s -> running s = false -> nth_error (wks s) k = Some w ->
  w_step c s w ch = Some (s1, w') ->
  mu (set_wks (upd k w' (wks s1)) s1) < mu s /\ running s1 = false /\ exts s1 = exts s.
Proof.
  intros s k w ch s1 w' J R Hk H.
  assert (SU: forall x, sumf mu_w (upd k x (wks s)) + mu_w w = sumf mu_w (wks s) + mu_w x) by (intros; eapply sumf_upd; eauto).
  pose proof (sumf_ge_nth _ mu_w _ _ _ Hk) as G.
  assert (RD: w_rd w = 0).
  { pose proof (jR c s J) as J1. pose proof (jRun c s J R) as J3. pose proof (sumf_ge_nth _ w_rd _ _ _ Hk). lia. }
  unfold w_step in H. unfold mu, mu_d.
  destruct w as [| |d t rest p| |]; try discriminate.
  - brk H; inversion H; subst s1 w'; clear H; proj; match goal with |- context [upd _ ?x _] => pose proof (SU x) end;
      cbn [mu_w] in *; repeat split; auto; lia.
  - destruct (chanq s) eqn:Ec; destruct (closed s) eqn:Ecl; destruct (0 <? tokens s) eqn:Et; cbn [negb orb andb] in H;
      brk H; inversion H; subst s1 w'; clear H; proj; rewrite ?Ec; match goal with |- context [upd _ ?x _] => pose proof (SU x) end;
      cbn [mu_w sumf] in *; unfold tw in *; repeat split; auto; lia.
  - destruct rest as [|u rest'].
    + inversion H; subst s1 w'; clear H; proj; match goal with |- context [upd _ ?x _] => pose proof (SU x) end;
        destruct d; cbn [mu_w length] in *; repeat split; auto; lia.
    + assert (p = SChk) by (destruct p; simpl in RD; auto; lia). subst p.
      unfold sub_step in H. cbn [c repaired fSubLock fCondFree] in H. rewrite R in H.
      destruct (rfree s); try discriminate. inversion H; subst s1 w'; clear H; proj.
      match goal with |- context [upd _ ?x _] => pose proof (SU x) end. cbn [mu_w length] in *. repeat split; auto; lia.
  - destruct (chanq s) eqn:Ec; destruct (closed s) eqn:Ecl; destruct (cancel c) eqn:Ecc;
      brk H; inversion H; subst s1 w'; clear H; proj; rewrite ?Ec; match goal with |- context [upd _ ?x _] => pose proof (SU x) end;
      cbn [mu_w sumf] in *; unfold tw in *; repeat split; auto; lia.
Qed.

(* ---------- external threads ---------- *)
Lemma mu_estep : forall s j e s1 e', Inv2 c s -> running s = false -> nostart s = true -> nth_error (exts s) j = Some e ->
  e_step c s j e = Some (s1, e') ->
  mu (set_exts (upd j e' (exts s1)) s1) < mu s /\ running s1 = false /\ exts s1 = exts s /\ nost_e e' = true.
Proof.
  intros s j e s1 e' J R NS Hj H.
  assert (SU: forall x, sumf mu_e (upd j x (exts s)) + mu_e e = sumf mu_e (exts s) + mu_e x) by (intros; eapply sumf_upd; eauto).
  pose proof (sumf_ge_nth _ mu_e _ _ _ Hj) as G.
  assert (RD: e_rd e = 0).
  { pose proof (jR c s J) as J1. pose proof (jRun c s J R) as J3. pose proof (sumf_ge_nth _ e_rd _ _ _ Hj). lia. }
  pose proof (nostart_nth _ _ _ NS Hj) as NE. unfold nost_e in NE. apply andb_prop in NE. destruct NE as [NE1 NE2].
  destruct e as [pc r]. unfold e_step in H. cbn [epc_ ops c repaired fStartOut fSigMx negb orb] in *. unfold mu, mu_d, nost_e.
  destruct pc; try discriminate.
  - (* EIdle *)
    destruct r as [|[t| | | |] r']; try discriminate; simpl in NE2; try discriminate.
    + unfold sub_step in H. cbn [c repaired fSubLock fCondFree] in H. rewrite R in H.
      destruct (rfree s); try discriminate. inversion H; subst s1 e'; clear H; proj.
      match goal with |- context [upd _ ?x _] => pose proof (SU x) end. unfold mu_e in *. cbn [epc_ ops rank length nost_pc] in *.
      repeat split; auto; lia.
    + brk H; inversion H; subst s1 e'; clear H; proj. match goal with |- context [upd _ ?x _] => pose proof (SU x) end.
      unfold mu_e in *. cbn [epc_ ops rank length nost_pc] in *. repeat split; auto; lia.
    + brk H; inversion H; subst s1 e'; clear H; proj. match goal with |- context [upd _ ?x _] => pose proof (SU x) end.
      unfold mu_e in *. cbn [epc_ ops rank length nost_pc] in *. repeat split; auto; lia.
    + brk H; inversion H; subst s1 e'; clear H; proj. match goal with |- context [upd _ ?x _] => pose proof (SU x) end.
      unfold mu_e in *. cbn [epc_ ops rank length nost_pc] in *. repeat split; auto; lia.
  - (* ESub: only at SChk *)
    assert (p = SChk) by (unfold e_rd in RD; cbn [epc_] in RD; destruct p; simpl in RD; auto; lia). subst p.
    unfold sub_step in H. cbn [c repaired fSubLock fCondFree] in H. rewrite R in H.
    destruct (rfree s); try discriminate. inversion H; subst s1 e'; clear H; proj.
    match goal with |- context [upd _ ?x _] => pose proof (SU x) end. unfold mu_e in *. cbn [epc_ ops rank length nost_pc] in *.
    repeat split; auto; lia.
  - brk H; inversion H; subst s1 e'; clear H; proj. match goal with |- context [upd _ ?x _] => pose proof (SU x) end.
    unfold mu_e in *. cbn [epc_ ops rank length nost_pc] in *. repeat split; auto; lia.
  - rewrite R in H. inversion H; subst s1 e'; clear H; proj. match goal with |- context [upd _ ?x _] => pose proof (SU x) end.
    unfold mu_e in *. cbn [epc_ ops rank length nost_pc] in *. repeat split; auto; lia.
  - destruct k; brk H; inversion H; subst s1 e'; clear H; proj; match goal with |- context [upd _ ?x _] => pose proof (SU x) end;
      unfold mu_e in *; cbn [epc_ ops rank length nost_pc] in *; repeat split; auto; lia.
  - inversion H; subst s1 e'; clear H. match goal with |- context [upd _ ?x _] => pose proof (SU x) end.
    unfold mu_e in *. cbn [epc_ ops rank length nost_pc] in *. unfold bcast. destruct (disp s) eqn:Ed; proj; rewrite ?Ed;
      repeat split; auto; lia.
  - inversion H; subst s1 e'; clear H; proj. match goal with |- context [upd _ ?x _] => pose proof (SU x) end.
    unfold mu_e in *. cbn [epc_ ops rank length nost_pc] in *. repeat split; auto; lia.
Qed.

(* ---------- every step decreases the measure ---------- *)
Theorem mu_step : forall s x s', Inv2 c s -> running s = false -> nostart s = true -> step c s x = Some s' ->
  mu s' < mu s /\ running s' = false /\ nostart s' = true.
Proof.
  intros s [t ch] s' J R NS H. unfold step in H. cbn [fst snd] in H. destruct t as [|k|j].
  - destruct (mu_dstep s s' J R H) as (A & B & C). unfold nostart. rewrite C. auto.
  - destruct (nth_error (wks s) k) as [w|] eqn:Hk; try discriminate.
    destruct (w_step c s w ch) as [[s1 w']|] eqn:Hw; try discriminate. inversion H; subst; clear H.
    destruct (mu_wstep s k w ch s1 w' J R Hk Hw) as (A & B & C). repeat split; auto.
    unfold nostart, set_wks. cbn [exts]. rewrite C. auto.
  - destruct (nth_error (exts s) j) as [e|] eqn:Hj; try discriminate.
    destruct (e_step c s j e) as [[s1 e']|] eqn:He; try discriminate. inversion H; subst; clear H.
    destruct (mu_estep s j e s1 e' J R NS Hj He) as (A & B & C & D). repeat split; auto.
    unfold nostart, set_exts. cbn [exts]. rewrite C. apply nostart_upd; auto.
Qed.

End M.

(* number of steps that a schedule really takes (entries that are not enabled are skipped) *)
Fixpoint steps_taken (c : cfg) (sch : list (thr * nat)) (s : st) : nat :=
  match sch with
  | [] => 0
  | x :: r => match step c s x with Some s' => S (steps_taken c r s') | None => steps_taken c r s end
  end.

Theorem steps_bounded : forall n cn pg, 1 <= n -> let c := repaired n cn pg in
  forall sch s, Inv c s -> Inv2 c s -> running s = false -> nostart s = true ->
  steps_taken c sch s <= mu n cn pg s /\ running (run c sch s) = false /\ nostart (run c sch s) = true.
Proof.
  intros n cn pg Hnw c. induction sch as [|x sch IH]; intros s I J R NS; simpl. repeat split; auto; lia.
  unfold step'. destruct (step c s x) as [s'|] eqn:E.
  - assert (X: mu n cn pg s' < mu n cn pg s /\ running s' = false /\ nostart s' = true) by (eapply mu_step; eauto).
    destruct X as (A & B & C).
    assert (I': Inv c s') by (apply (inv_step c Hnw s x); auto).
    assert (J': Inv2 c s') by (eapply (inv2_step n cn pg) with (s := s) (x := x); eauto).
    destruct (IH s' I' J' B C) as (D & F & G). repeat split; auto. lia.
  - apply IH; auto.
Qed.

(* Every run from a reachable state in which the pool is stopped and no Start is pending takes at most `mu` steps, and when
   it can not be extended the shutdown is complete: all workers and the dispatcher have terminated, the pending counter is
   zero, nothing is in flight, every external operation (ShutdownComplete.Wait, WaitIsZero, Submit, Shutdown) has returned. *)
Theorem shutdown_completes : forall n cn pg, 1 <= n -> forall scripts sch1, let c := repaired n cn pg in
  let s := run c sch1 (init c scripts) in
  running s = false -> nostart s = true ->
  forall sch2, let s2 := run c sch2 s in
    steps_taken c sch2 s <= mu n cn pg s /\
    (stuckb c s2 = true ->
       all_dead s2 = true /\ disp s2 = DDead /\ pending s2 = 0%Z /\ (forall i, inflight i s2 = 0) /\
       forall e, In e (exts s2) -> epc_ e = EIdle /\ ops e = []).
Proof.
  intros n cn pg Hnw scripts sch1 c s R NS sch2 s2.
  destruct (reachable_inv2 n cn pg Hnw scripts sch1) as [I J]. fold c in I, J. fold s in I, J.
  destruct (steps_bounded n cn pg Hnw sch2 s I J R NS) as (A & B & C). fold c in A, B, C. fold s2 in B, C.
  split; auto. intros S.
  assert (E: s2 = run c (sch1 ++ sch2) (init c scripts)) by (unfold s2, s, run; rewrite fold_left_app; reflexivity).
  destruct (reachable_inv2 n cn pg Hnw scripts (sch1 ++ sch2)) as [I2 _]. fold c in I2. rewrite <- E in I2.
  pose proof (shutdown_terminates n cn pg Hnw scripts (sch1 ++ sch2)) as T. fold c in T. cbv zeta in T. rewrite <- E in T.
  destruct (T S) as (F & X & Y). destruct (X B) as [AD DD].
  repeat split; auto.
  - eapply pending_zero; eauto.
  - destruct (Y e H) as [[? ?]|[? _]]; auto. congruence.
  - destruct (Y e H) as [[? ?]|[? _]]; auto. congruence.
Qed.
