(* C16 - fine-grained (per-level) model of the propagation of a counter change up the chain pool -> group -> ... -> root
   (runtime/syncutils/counter.go: update/set/notifySubscribers; runtime/workerpool/group.go: the subscriptions).  No proofs here.

   Group.v treats one Counter.update/set with its whole subscriber chain as ONE atomic step.  Here every level is its own
   step and any number of threads and observers interleave:

     Counter.update(delta) / Counter.set(v) on counter i       (c.valueMutex.Lock(); defer c.valueMutex.Unlock())
       step "TUp":   enabled iff nobody holds the valueMutex of i.  Lock i, old := value, new := old+delta (or v); if new = old
                     the call is over.  Otherwise write new and run the subscriber (group.go:58 / 104):
                        old = 0 -> parent.Increase(), new = 0 -> parent.Decrease(), else nothing,
                     i.e. the thread is now about to call update(+1 / -1) on the parent WHILE IT STILL HOLDS the valueMutex of i
                     (a frame (i, old) is pushed; the next TUp step of the thread is the parent's).
       steps "TDown": when the chain is over (no change, no parent, or no 0-transition) the calls return inner-most first:
                     each step releases the valueMutex of the top-most frame (deferred Unlock), the last one returns to the
                     caller (Submit / the worker after a task).
     Observers (Counter.Get, WaitIsZero = WaitChildren / WaitParents / Group.Shutdown) take the one valueMutex of the counter they
     read: a read of counter g is possible in state s iff nobody holds g (`held s g = false`) and yields `gval (cf s) g`; it
     does not change the state, so "an observer interleaves at every step" = the statement is made for EVERY reachable state.
     (That a blocked WaitIsZero is woken up is the condition-variable discipline of Counter: C17.)

   `early = true` is the variant in which update/set release the valueMutex BEFORE they call the subscribers (seed class
   C16-m10): Lock, write, Unlock are one step, no frame is pushed, the parent call follows with nothing held.

   Abstraction (`absf`): the forest in which every counter written by a chain that is still on its way up has its old value
   back.  The proofs (GroupConcProofs.v) show that it changes only when a chain reaches its top, and then exactly by the
   atomic `cset` of Group.v - the linearisation that notes/C16.md had only argued for. *)
From Coq Require Import List ZArith Bool Arith Lia.
From Verif.C16_Pool Require Import Model Group.
Import ListNotations.

Inductive call := CUpd (d : Z) | CSet (v : Z).
Definition apply_call (c : call) (old : Z) : Z := match c with CUpd d => (old + d)%Z | CSet v => v end.

(* a counter whose valueMutex the thread holds, with the value it had before the thread wrote it *)
Record frame := mkFrame { fidx : nat; fold_ : Z }.

Inductive tstate :=
  | TUp (fr : list frame) (i : nat) (c : call)   (* about to Lock counter i and apply c; fr = held counters, inner-most (highest) first *)
  | TDown (fr : list frame).                     (* returning: fr still to be unlocked; TDown [] = not inside a call *)

(* tops: the calls the thread will still make on pool counters: Submit = (p, CUpd 1), task completion = (p, CUpd (-1)),
   direct PendingTasksCounter.Update(d) / Set(v) as well *)
Record thread := mkThr { tst : tstate; tops : list (nat * call) }.

Record cst := mkC { cf : forest; thrs : list thread }.

Definition frames_of (th : thread) : list frame := match tst th with TUp fr _ _ => fr | TDown fr => fr end.
Definition up_frames (th : thread) : list frame := match tst th with TUp fr _ _ => fr | TDown _ => [] end.

Definition all_frames (s : cst) : list frame := flat_map frames_of (thrs s).
Definition all_up (s : cst) : list frame := flat_map up_frames (thrs s).

Definition held (s : cst) (i : nat) : bool := existsb (fun x => fidx x =? i) (all_frames s).

Definition setv (i : nat) (v : Z) (f : forest) : forest :=
  match nth_error f i with Some n => upd i (set_val v n) f | None => f end.

Definition restore (fr : list frame) (f : forest) : forest := fold_right (fun x acc => setv (fidx x) (fold_ x) acc) f fr.

Definition absf (s : cst) : forest := restore (all_up s) (cf s).

(* the subscriber of group.go *)
Definition parent_call (n : node) (old new : Z) : option (nat * call) :=
  match nparent n with
  | Some p => if (old =? 0)%Z then Some (p, CUpd 1) else if (new =? 0)%Z then Some (p, CUpd (-1)) else None
  | None => None
  end.

(* one step of thread t; None = not enabled *)
Definition cstep (early : bool) (s : cst) (t : nat) : option cst :=
  match nth_error (thrs s) t with
  | None => None
  | Some th =>
      match tst th with
      | TDown [] =>
          match tops th with
          | (p, c) :: r => if is_kind KPool (cf s) p then Some (mkC (cf s) (upd t (mkThr (TUp [] p c) r) (thrs s))) else None
          | [] => None
          end
      | TDown (_ :: fr) => Some (mkC (cf s) (upd t (mkThr (TDown fr) (tops th)) (thrs s)))
      | TUp fr i c =>
          if held s i then None
          else
            match nth_error (cf s) i with
            | None => None
            | Some n =>
                let old := nval n in
                let new := apply_call c old in
                if (old =? new)%Z then Some (mkC (cf s) (upd t (mkThr (TDown fr) (tops th)) (thrs s)))
                else
                  let f' := setv i new (cf s) in
                  match parent_call n old new with
                  | Some (p, c') =>
                      Some (mkC f' (upd t (mkThr (TUp (if early then fr else mkFrame i old :: fr) p c') (tops th)) (thrs s)))
                  | None =>
                      Some (mkC f' (upd t (mkThr (TDown (if early then fr else mkFrame i old :: fr)) (tops th)) (thrs s)))
                  end
            end
      end
  end.

Fixpoint crun (early : bool) (s : cst) (sched : list nat) : option cst :=
  match sched with
  | [] => Some s
  | t :: r => match cstep early s t with Some s' => crun early s' r | None => None end
  end.

(* the linearisation of a schedule: the chain of thread t reaches its top in this step -> the change of the pool counter at
   the bottom of the chain, as an operation of Group.v *)
Definition bottom (fr : list frame) (i : nat) : nat := match rev fr with x :: _ => fidx x | [] => i end.

Definition lin_step (s : cst) (t : nat) : list gop :=
  match nth_error (thrs s) t with
  | Some th =>
      match tst th with
      | TUp fr i c =>
          match nth_error (cf s) i with
          | Some n =>
              let new := apply_call c (nval n) in
              let top := (nval n =? new)%Z || match parent_call n (nval n) new with None => true | Some _ => false end in
              if top then let p := bottom fr i in [GSet p (match fr with [] => new | _ => gval (cf s) p end)] else []
          | None => []
          end
      | TDown _ => []
      end
  | None => []
  end.

Fixpoint lin (early : bool) (s : cst) (sched : list nat) : list gop :=
  match sched with
  | [] => []
  | t :: r => match cstep early s t with Some s' => lin_step s t ++ lin early s' r | None => [] end
  end.

(* initial states: forest f0, nobody inside a call, any programs *)
Definition cinit (f0 : forest) (progs : list (list (nat * call))) : cst := mkC f0 (map (mkThr (TDown [])) progs).

(* an observer can read counter g and sees zero: WaitChildren of group g returns / IsZero-style read says idle *)
Definition reads_zero (s : cst) (g : nat) : bool := negb (held s g) && (gval (cf s) g =? 0)%Z.

(* an update/set chain that went through counter i is still on its way up (the call on the pool has not returned, nor has
   it reached its top) *)
Definition in_flight (s : cst) (i : nat) : bool := existsb (fun x => fidx x =? i) (all_up s).
