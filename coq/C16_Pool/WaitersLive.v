(* C16 - no lost wake-up for the external waiters (Waiters.v) under Broadcast: in every reachable state of the extended
   system (repaired pool, any waiters, any schedule) in which nobody has an enabled step, every waiter that has not
   returned has a FALSE condition - a waiter whose condition holds (stably) has returned. *)
From Coq Require Import List ZArith Bool Arith Lia.
From Verif.C16_Pool Require Import Model Inv StepsA Proofs Live Term Waiters WaitersProofs.
Import ListNotations.

(* pushes whose wake-up is still to come *)
Definition pbc (s : st) : nat := sumf w_bc (wks s) + sumf e_bc (exts s).
Definition qlen (s : st) : nat := length (queue s).

(* what a pool step does to the queue length and to the pending wake-ups, by its event *)
Definition eff (ev : bev) (s s' : st) : Prop :=
  match ev with
  | EvPushBc | EvShutBc => queue s' = queue s
  | EvPop => qlen s' <= qlen s /\ pbc s' = pbc s
  | _ => qlen s <= qlen s' /\ ((qlen s' <= qlen s /\ pbc s <= pbc s') \/ 1 <= pbc s')
  end.

Section WL.
Variables (n : nat) (cn : bool) (pg : list (list nat)).
Let c := repaired n cn pg.
Hypothesis Hnw : 1 <= n.

Lemma sub_qbc : forall s u p s2 np, sub_step c s u p = Some (s2, np) ->
  wks s2 = wks s /\ exts s2 = exts s /\
  match p with
  | SPush => queue s2 = queue s ++ [u] /\ np = Some SBc
  | SBc => queue s2 = queue s
  | _ => queue s2 = queue s /\ bc_of np = 0
  end.
Proof.
  intros s u p s2 np H. unfold sub_step in H. cbn [c repaired fSubLock fCondFree] in H.
  destruct p; brk H; inversion H; subst; unfold bcast; try (destruct (disp s)); proj; auto.
Qed.

Lemma eff_d : forall s s', d_step c s = Some s' -> eff (event s TD) s s'.
Proof.
  intros s s' H. unfold d_step in H. unfold event. cbn [c repaired fCondFree orb] in H.
  destruct (disp s) eqn:Ed; brk H; inversion H; subst; unfold eff, qlen, pbc; proj;
    repeat match goal with E : queue _ = _ |- _ => rewrite E end; simpl; try lia; auto.
Qed.

Lemma eff_w : forall s k w ch s1 w', nth_error (wks s) k = Some w -> w_step c s w ch = Some (s1, w') ->
  eff (event s (TW k)) s (set_wks (upd k w' (wks s1)) s1).
Proof.
  intros s k w ch s1 w' Hk H.
  assert (SU: forall x, sumf w_bc (upd k x (wks s)) + w_bc w = sumf w_bc (wks s) + w_bc x) by (intros; eapply sumf_upd; eauto).
  unfold event. rewrite Hk. unfold w_step in H.
  destruct w as [| |d t rest p| |]; try discriminate.
  - brk H; inversion H; subst s1 w'; clear H; unfold eff, qlen, pbc; proj;
      match goal with |- context [upd _ ?x _] => pose proof (SU x) end; cbn [w_bc] in *; lia.
  - brk H; inversion H; subst s1 w'; clear H; unfold eff, qlen, pbc; proj;
      match goal with |- context [upd _ ?x _] => pose proof (SU x) end; try (destruct (kids c n0)); cbn [w_bc sp_bc] in *; lia.
  - destruct rest as [|u rest'].
    + inversion H; subst s1 w'; clear H; unfold eff, qlen, pbc; proj;
        match goal with |- context [upd _ ?x _] => pose proof (SU x) end; destruct d; cbn [w_bc] in *; lia.
    + destruct (sub_step c s u p) as [[s2 np]|] eqn:HS; try discriminate.
      destruct (sub_qbc _ _ _ _ _ HS) as (X1 & X2 & X3).
      assert (E: s1 = s2 /\ w' = WRun d t (match np with Some _ => u :: rest' | None => rest' end) (match np with Some p' => p' | None => SChk end))
        by (destruct np; inversion H; auto).
      destruct E as [-> ->]. clear H.
      unfold eff, qlen, pbc; proj; rewrite X1, X2;
        match goal with |- context [upd _ ?x _] => pose proof (SU x) as Y end;
        destruct p; cbn [w_bc sp_bc] in *.
      * destruct X3 as [-> B]. destruct np; try (destruct rest'); cbn [w_bc sp_bc bc_of] in *; lia.
      * destruct X3 as [-> B]. destruct np; try (destruct rest'); cbn [w_bc sp_bc bc_of] in *; lia.
      * destruct X3 as [-> ->]. cbn [w_bc sp_bc] in *. rewrite app_length. simpl. lia.
      * exact X3.
      * destruct X3 as [-> B]. destruct np; try (destruct rest'); cbn [w_bc sp_bc bc_of] in *; lia.
  - brk H; inversion H; subst s1 w'; clear H; unfold eff, qlen, pbc; proj;
      match goal with |- context [upd _ ?x _] => pose proof (SU x) end; try (destruct (kids c n0)); cbn [w_bc sp_bc] in *; lia.
Qed.

Lemma sumf_wbc_dead : forall l, forallb is_dead l = true -> sumf w_bc l = 0.
Proof. intros. apply sumf_dead; auto. Qed.

Lemma eff_e : forall s j e s1 e', Inv c s -> nth_error (exts s) j = Some e -> e_step c s j e = Some (s1, e') ->
  eff (event s (TE j)) s (set_exts (upd j e' (exts s1)) s1).
Proof.
  intros s j e s1 e' I Hj H.
  assert (SU: forall x, sumf e_bc (upd j x (exts s)) + e_bc e = sumf e_bc (exts s) + e_bc x) by (intros; eapply sumf_upd; eauto).
  pose proof (iX c s I j e Hj) as IX.
  unfold event. rewrite Hj. destruct e as [pc r]. unfold e_step in H. cbn [epc_ ops] in *.
  destruct pc as [|t p| | |k| | | | | | | | |].
  - (* EIdle *)
    destruct r as [|[t| | | |] r']; try discriminate.
    + destruct (sub_step c s t SChk) as [[s2 np]|] eqn:HS; try discriminate.
      destruct (sub_qbc _ _ _ _ _ HS) as (X1 & X2 & X3 & B).
      assert (E: s1 = s2 /\ e' = mkExt (match np with Some p => ESub t p | None => EIdle end) r') by (destruct np; inversion H; auto).
      destruct E as [-> ->]. clear H. unfold eff, qlen, pbc; proj; rewrite X1, X2, X3.
      match goal with |- context [upd _ ?x _] => pose proof (SU x) as Y end. destruct np; cbn [e_bc epc_ sp_bc bc_of] in *; lia.
    + cbn [c repaired fStartOut] in H. brk H; inversion H; subst s1 e'; clear H; unfold eff, qlen, pbc; proj;
        match goal with |- context [upd _ ?x _] => pose proof (SU x) end; cbn [e_bc epc_ sp_bc] in *; lia.
    + cbn [c repaired fStartOut] in H. brk H; inversion H; subst s1 e'; clear H; unfold eff, qlen, pbc; proj;
        match goal with |- context [upd _ ?x _] => pose proof (SU x) end; cbn [e_bc epc_ sp_bc] in *; lia.
    + brk H; inversion H; subst s1 e'; clear H; unfold eff, qlen, pbc; proj;
        match goal with |- context [upd _ ?x _] => pose proof (SU x) end; cbn [e_bc epc_ sp_bc] in *; lia.
    + brk H; inversion H; subst s1 e'; clear H; unfold eff, qlen, pbc; proj;
        match goal with |- context [upd _ ?x _] => pose proof (SU x) end; cbn [e_bc epc_ sp_bc] in *; lia.
  - (* ESub *)
    destruct (sub_step c s t p) as [[s2 np]|] eqn:HS; try discriminate.
    destruct (sub_qbc _ _ _ _ _ HS) as (X1 & X2 & X3).
    assert (E: s1 = s2 /\ e' = mkExt (match np with Some p' => ESub t p' | None => EIdle end) r) by (destruct np; inversion H; auto).
    destruct E as [-> ->]. clear H. unfold eff, qlen, pbc; proj; rewrite X1, X2.
    match goal with |- context [upd _ ?x _] => pose proof (SU x) as Y end.
    destruct p; cbn [e_bc epc_ sp_bc] in *.
    + destruct X3 as [-> B]. destruct np; cbn [e_bc epc_ sp_bc bc_of] in *; lia.
    + destruct X3 as [-> B]. destruct np; cbn [e_bc epc_ sp_bc bc_of] in *; lia.
    + destruct X3 as [-> ->]. cbn [e_bc epc_ sp_bc] in *. rewrite app_length. simpl. lia.
    + exact X3.
    + destruct X3 as [-> B]. destruct np; cbn [e_bc epc_ sp_bc bc_of] in *; lia.
  - brk H; inversion H; subst s1 e'; clear H; unfold eff, qlen, pbc; proj;
      match goal with |- context [upd _ ?x _] => pose proof (SU x) end; cbn [e_bc epc_ sp_bc] in *; lia.
  - brk H; inversion H; subst s1 e'; clear H; unfold eff, qlen, pbc; proj;
      match goal with |- context [upd _ ?x _] => pose proof (SU x) end; cbn [e_bc epc_ sp_bc] in *; lia.
  - destruct k; brk H; inversion H; subst s1 e'; clear H; unfold eff, qlen, pbc; proj;
      match goal with |- context [upd _ ?x _] => pose proof (SU x) end; cbn [e_bc epc_ sp_bc] in *; lia.
  - (* EShBc *) inversion H; subst s1 e'; clear H. unfold eff, bcast. destruct (disp s); proj; reflexivity.
  - inversion H; subst s1 e'; clear H; unfold eff, qlen, pbc; proj;
      match goal with |- context [upd _ ?x _] => pose proof (SU x) end; cbn [e_bc epc_ sp_bc] in *; lia.
  - cbn [c repaired fStartOut] in H. brk H; inversion H; subst s1 e'; clear H; unfold eff, qlen, pbc; proj;
      match goal with |- context [upd _ ?x _] => pose proof (SU x) end; cbn [e_bc epc_ sp_bc] in *; lia.
  - cbn [c repaired fStartOut] in H. brk H; inversion H; subst s1 e'; clear H; unfold eff, qlen, pbc; proj;
      match goal with |- context [upd _ ?x _] => pose proof (SU x) end; cbn [e_bc epc_ sp_bc] in *; lia.
  - brk H; inversion H; subst s1 e'; clear H; unfold eff, qlen, pbc; proj;
      match goal with |- context [upd _ ?x _] => pose proof (SU x) end; cbn [e_bc epc_ sp_bc] in *; lia.
  - cbn [c repaired fStartOut] in H. brk H; inversion H; subst s1 e'; clear H; unfold eff, qlen, pbc; proj;
      match goal with |- context [upd _ ?x _] => pose proof (SU x) end; cbn [e_bc epc_ sp_bc] in *; lia.
  - (* EStGo: all workers are gone *)
    inversion H; subst s1 e'; clear H. specialize (IX eq_refl). unfold all_dead in IX.
    destruct (do_start_fields2 n cn pg s) as (F1 & _ & _ & _ & F5 & F6 & _). fold c in F1, F5, F6.
    unfold eff, qlen, pbc, set_exts. cbn [queue wks exts]. rewrite F1, F5, F6.
    rewrite (sumf_wbc_dead _ IX). rewrite sumf_repeat0 by reflexivity.
    match goal with |- context [upd _ ?x _] => pose proof (SU x) end; cbn [e_bc epc_ sp_bc] in *; lia.
  - cbn [c repaired fStartOut] in H. inversion H; subst s1 e'; clear H; unfold eff, qlen, pbc; proj;
      match goal with |- context [upd _ ?x _] => pose proof (SU x) end; cbn [e_bc epc_ sp_bc] in *; lia.
  - inversion H; subst s1 e'; clear H; unfold eff, qlen, pbc; proj;
      match goal with |- context [upd _ ?x _] => pose proof (SU x) end; cbn [e_bc epc_ sp_bc] in *; lia.
Qed.

Lemma step_eff : forall s t ch s', Inv c s -> step c s (t, ch) = Some s' -> eff (event s t) s s'.
Proof.
  intros s t ch s' I H. unfold step in H. cbn [fst snd] in H. destruct t as [|k|j].
  - apply eff_d; auto.
  - destruct (nth_error (wks s) k) as [w|] eqn:Hk; try discriminate.
    destruct (w_step c s w ch) as [[s1 w']|] eqn:Hw; try discriminate. inversion H; subst. eapply eff_w; eauto.
  - destruct (nth_error (exts s) j) as [e|] eqn:Hj; try discriminate.
    destruct (e_step c s j e) as [[s1 e']|] eqn:He; try discriminate. inversion H; subst. eapply eff_e; eauto.
Qed.

(* ---------- the invariant of the parked waiters ---------- *)
Definition parked_ok (s : st) (w : waiter) : Prop :=
  wk_pc w = WParked ->
  match wk_kind w with
  | QAbove m => qlen s <= m \/ 1 <= pbc s
  | QBelow m => m <= qlen s
  | _ => False
  end.

Definition WInv (x : xst) : Prop := forall w, In w (wts x) -> parked_ok (base x) w.

Lemma in_upd : forall A (l : list A) k x y, In y (upd k x l) -> y = x \/ In y l.
Proof. induction l as [|a l IH]; intros [|k] x y H; simpl in *; auto; destruct H as [H|H]; auto. destruct (IH _ _ _ H); auto. Qed.

Lemma winv_step : forall x a x', Inv c (base x) -> WInv x -> xstep false c x a = Some x' -> WInv x'.
Proof.
  intros x [[t|i] ch] x' I W H; unfold xstep in H; cbn [fst snd] in H.
  - destruct (step c (base x) (t, ch)) as [s'|] eqn:E; try discriminate.
    pose proof (step_eff _ _ _ _ I E) as F. inversion H; subst x'; clear H.
    destruct (event (base x) t); unfold eff in F; intros w Hw P; cbn [base wts] in *.
    + specialize (W w Hw P). revert W. destruct (wk_kind w); intros W; auto; lia.
    + unfold wake_added in Hw. apply in_map_iff in Hw. destruct Hw as (w0 & <- & Hw0). specialize (W w0 Hw0).
      unfold parked_ok, qlen in *. destruct (wk_kind w0) eqn:K; destruct (wk_pc w0) eqn:Q; cbn [set_pc wk_pc wk_kind] in *;
        try discriminate; try congruence; try rewrite K in *; try rewrite F; auto.
    + unfold wake_added in Hw. apply in_map_iff in Hw. destruct Hw as (w0 & <- & Hw0). specialize (W w0 Hw0).
      unfold parked_ok, qlen in *. destruct (wk_kind w0) eqn:K; destruct (wk_pc w0) eqn:Q; cbn [set_pc wk_pc wk_kind] in *;
        try discriminate; try congruence; try rewrite K in *; try rewrite F; auto.
    + specialize (W w Hw P). revert W. destruct (wk_kind w); intros W; auto; lia.
    + unfold wake_removed in Hw. apply in_map_iff in Hw. destruct Hw as (w0 & <- & Hw0). specialize (W w0 Hw0).
      unfold parked_ok in *. destruct (wk_kind w0) eqn:K; destruct (wk_pc w0) eqn:Q; cbn [set_pc wk_pc wk_kind] in *;
        try discriminate; try congruence; try rewrite K in *; auto; specialize (W eq_refl); lia.
  - destruct (nth_error (wts x) i) as [w0|] eqn:Hi; try discriminate.
    assert (G: forall w1 pk, (wk_pc w1 = WParked -> wk_kind w1 = wk_kind w0 /\ on_queue (wk_kind w0) = true /\ wcond (wk_kind w0) (base x) = false) ->
               WInv (mkX (base x) (upd i w1 (wts x)) pk)).
    { intros w1 pk Q w Hw P. cbn [base wts] in *. apply in_upd in Hw. destruct Hw as [->|Hw]; [|apply W; auto].
      destruct (Q P) as (K & O & C). rewrite K. unfold wcond, qlen in *.
      destruct (wk_kind w0); try discriminate.
      - apply Nat.ltb_ge in C. auto.
      - apply Nat.ltb_ge in C. auto. }
    destruct (wk_pc w0); try discriminate;
      destruct (on_queue (wk_kind w0)) eqn:O; try (destruct (smx_free (base x))); try discriminate;
      destruct (wcond (wk_kind w0) (base x)) eqn:C; try discriminate; inversion H; subst x'; apply G; cbn [set_pc wk_pc wk_kind];
      intros; try discriminate; auto.
Qed.

Lemma winv_init : forall scripts kinds, WInv (xinit c scripts kinds).
Proof. intros scripts kinds w Hw P. unfold xinit in Hw. cbn [wts] in Hw. apply in_map_iff in Hw. destruct Hw as (k & <- & _). discriminate. Qed.

Lemma winv_run : forall sch x, Inv c (base x) -> WInv x -> Inv c (base (xrun false c sch x)) /\ WInv (xrun false c sch x).
Proof.
  induction sch as [|a sch IH]; intros x I W; [split; auto|].
  change (xrun false c (a :: sch) x) with (xrun false c sch (xstep' false c x a)).
  unfold xstep'. destruct (xstep false c x a) as [x'|] eqn:E; [|apply IH; auto].
  apply IH.
  - destruct a as [[t|i] ch].
    + apply xstep_B_base in E. eapply (inv_step c); eauto.
    + apply xstep_W_base in E. rewrite E. auto.
  - eapply winv_step; eauto.
Qed.

(* every waiter whose condition holds in a state without enabled steps has returned *)
Theorem no_starved_waiter : forall scripts kinds sch,
  let x := xrun false c sch (xinit c scripts kinds) in
  xstuckb false c x = true -> forall w, In w (wts x) -> starved x w = false.
Proof.
  intros scripts kinds sch x S w Hw.
  assert (IW: Inv c (base x) /\ WInv x).
  { apply winv_run. rewrite xinit_base. apply inv_init. apply winv_init. }
  destruct IW as [I W].
  pose proof (xstuck_base _ _ _ S) as SB.
  assert (J: Inv2 c (base x)) by (unfold x; rewrite xreach_base; apply (reachable_inv2 n cn pg Hnw)).
  assert (PB: pbc (base x) = 0).
  { unfold pbc. rewrite (sumf_all0 _ w_bc), (sumf_all0 _ e_bc); auto.
    - intros j e Hj. apply (st_ext0 n cn pg Hnw (base x) I J SB 0 j e Hj).
    - intros k w1 Hk. apply (st_wk0 n cn pg Hnw (base x) I J SB 0 k w1 Hk). }
  pose proof (st_smx n cn pg (base x) SB) as MX.
  unfold starved. destruct (wk_pc w) eqn:P; auto.
  - (* WNew: its step is not enabled *)
    destruct (In_nth_error _ _ Hw) as [i Hi].
    unfold xstuckb in S. rewrite forallb_forall in S.
    assert (T: In (XW i) (xthreads x)).
    { unfold xthreads. apply in_or_app. right. apply in_map. apply in_seq. split; [lia|]. simpl. apply nth_error_Some. congruence. }
    specialize (S _ T). unfold xenabledb in S. destruct (xstep false c x (XW i, 0)) eqn:E; try discriminate.
    unfold xstep in E. cbn [fst snd] in E. rewrite Hi, P, MX in E.
    destruct (on_queue (wk_kind w)); destruct (wcond (wk_kind w) (base x)); auto; discriminate.
  - (* WParked *)
    specialize (W w Hw P). unfold wcond, qlen in *. destruct (wk_kind w); try contradiction.
    + apply Nat.ltb_ge. lia.
    + apply Nat.ltb_ge. lia.
  - (* WWoken *)
    destruct (In_nth_error _ _ Hw) as [i Hi].
    unfold xstuckb in S. rewrite forallb_forall in S.
    assert (T: In (XW i) (xthreads x)).
    { unfold xthreads. apply in_or_app. right. apply in_map. apply in_seq. split; [lia|]. simpl. apply nth_error_Some. congruence. }
    specialize (S _ T). unfold xenabledb in S. destruct (xstep false c x (XW i, 0)) eqn:E; try discriminate.
    unfold xstep in E. cbn [fst snd] in E. rewrite Hi, P, MX in E.
    destruct (on_queue (wk_kind w)); destruct (wcond (wk_kind w) (base x)); auto; discriminate.
Qed.

End WL.
