From Coq Require Import List ZArith Bool Arith Lia.
From Verif.C16_Pool Require Import Model Inv.
From Verif.C16_Pool Require Import StepsA StepsB.
Import ListNotations.

Ltac brk_sub H :=
  unfold sub_step in H;
  repeat match type of H with
  | context [match ?p with SChk => _ | _ => _ end] => destruct p
  | context [if ?b then _ else _] => destruct b eqn:?
  end; try discriminate.

Ltac bc :=
  repeat match goal with
  | |- context [bcast ?s] =>
      let B := fresh "B" in pose proof (bcast_fields s) as B;
      destruct B as (B1&B2&B3&B4&B5&B6&B7&B8&B9&B10&B11&B12&B13&B14&B15&B16&B17);
      rewrite ?B1, ?B2, ?B3, ?B4, ?B5, ?B6, ?B7, ?B8, ?B9, ?B10, ?B11, ?B12, ?B13, ?B14, ?B15, ?B16
  end.

Section R.
Variable c : cfg.

Lemma sub_step_logs : forall s t p s' np, sub_step c s t p = Some (s', np) -> ran s' = ran s /\ canc s' = canc s.
Proof. intros s t p s' np H. brk_sub H; inversion H; subst; clear H; proj; bc; auto. Qed.

(* only a live worker appends to the run / cancel logs; cancellations only with WithCancelPendingTasksOnShutdown *)
Lemma logs_step : forall s x s', step c s x = Some s' ->
  (ran s' = ran s /\ canc s' = canc s) \/
  (exists k w, fst x = TW k /\ nth_error (wks s) k = Some w /\ is_dead w = false /\ (canc s' = canc s \/ cancel c = true)).
Proof.
  intros s [t ch] s' H. unfold step in H. cbn [fst snd] in H. destruct t as [|k|j].
  - left. unfold d_step in H. destruct (disp s); brk H; inversion H; subst; proj; auto.
  - destruct (nth_error (wks s) k) as [w|] eqn:Hk; try discriminate.
    destruct (w_step c s w ch) as [[s1 w']|] eqn:Hw; try discriminate. inversion H; subst; clear H.
    right. exists k, w. cbn [fst]. repeat split; auto.
    + destruct w; try reflexivity. discriminate.
    + unfold w_step in Hw. destruct w as [| |d t rest p| |]; try discriminate.
      * brk Hw; inversion Hw; subst; proj; auto.
      * brk Hw; inversion Hw; subst; proj; auto.
      * destruct rest. inversion Hw; subst; proj; auto.
        destruct (sub_step c s n p) as [[s2 [p'|]]|] eqn:HS; try discriminate; inversion Hw; subst;
          destruct (sub_step_logs _ _ _ _ _ HS) as [_ E]; proj; auto.
      * brk Hw; inversion Hw; subst; proj; auto.
  - left. destruct (nth_error (exts s) j) as [e|] eqn:Hj; try discriminate.
    destruct (e_step c s j e) as [[s1 e']|] eqn:He; try discriminate. inversion H; subst; clear H.
    destruct e as [pc r]. unfold e_step in He. cbn [epc_ ops] in He. destruct pc.
    12: { inversion He; subst. destruct (do_start_fields c s) as (F1&F2&F3&F4&F5&F6&F7&F8&F9&F10&F11&F12&F13).
          unfold set_exts; cbn [ran canc]. auto. }
    all: try (destruct r as [|[t| | | |] r']; try discriminate).
    all: try (match type of He with context [sub_step ?c ?s ?t ?p] => destruct (sub_step c s t p) as [[s2 [p'|]]|] eqn:HS; try discriminate;
              inversion He; subst; destruct (sub_step_logs _ _ _ _ _ HS); proj; auto end).
    all: try (destruct k).
    all: try (brk He; inversion He; subst; proj; bc; auto).
Qed.

(* nothing runs (and nothing is cancelled) once shutdown has completed, until the pool is started again *)
Theorem no_run_after_complete : forall s x s', all_dead s = true -> step c s x = Some s' -> ran s' = ran s /\ canc s' = canc s.
Proof.
  intros s x s' A H. destruct (logs_step _ _ _ H) as [|[k [w [_ [Hk [D _]]]]]]; auto.
  unfold all_dead in A. rewrite (forallb_upd_false _ _ _ _ _ A Hk) in D. discriminate.
Qed.

Lemma canc_run : forall sch s, cancel c = false -> canc s = [] -> canc (run c sch s) = [].
Proof.
  induction sch as [|x sch IH]; intros s Hc E; simpl; auto. apply IH; auto. unfold step'. destruct (step c s x) eqn:S; auto.
  destruct (logs_step _ _ _ S) as [[_ E2]|[k [w [_ [_ [_ [E2|E2]]]]]]]; congruence.
Qed.

Theorem cancel_only_if_enabled : forall scripts sch, cancel c = false -> canc (run c sch (init c scripts)) = [].
Proof. intros. apply canc_run; auto. Qed.
End R.
