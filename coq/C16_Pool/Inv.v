(* C16 - safety invariants of the interleaving model, for EVERY variant (pinned and repaired) and every schedule:
   mutual exclusion of the pool's write lock and of startMutex, "a Start only restarts a pool whose workers are all
   gone", channel/dispatcher life-cycle, and the conservation of tasks. *)
From Coq Require Import List ZArith Bool Arith Lia.
From Verif.C16_Pool Require Import Model.
Import ListNotations.

(* ---------- lists ---------- *)
Fixpoint sumf {A} (f : A -> nat) (l : list A) : nat := match l with [] => 0 | x :: r => f x + sumf f r end.

Lemma sumf_upd : forall A (f : A -> nat) l k x y, nth_error l k = Some y -> sumf f (upd k x l) + f y = sumf f l + f x.
Proof.
  induction l as [|a l IH]; intros k x y H; destruct k; simpl in *; try discriminate.
  - inversion H; subst. lia.
  - specialize (IH _ x _ H). lia.
Qed.

Lemma length_upd : forall A (l : list A) k x, length (upd k x l) = length l.
Proof. induction l; intros [|k] x; simpl; auto. Qed.

Lemma nth_error_upd_eq : forall A (l : list A) k x y, nth_error l k = Some y -> nth_error (upd k x l) k = Some x.
Proof. induction l; intros [|k] x y H; simpl in *; try discriminate; eauto. Qed.

Lemma nth_error_upd_neq : forall A (l : list A) k j x, j <> k -> nth_error (upd k x l) j = nth_error l j.
Proof. induction l; intros [|k] [|j] x H; simpl in *; auto; try congruence. Qed.

Lemma sumf_ge_nth : forall A (f : A -> nat) l k y, nth_error l k = Some y -> f y <= sumf f l.
Proof. induction l; intros [|k] y H; simpl in *; try discriminate. inversion H; subst; lia. specialize (IHl _ _ H). lia. Qed.

Lemma sumf_ge_two : forall A (f : A -> nat) l j k x y, j <> k -> nth_error l j = Some x -> nth_error l k = Some y -> f x + f y <= sumf f l.
Proof.
  induction l; intros [|j] [|k] x y N Hj Hk; simpl in *; try discriminate; try congruence.
  - inversion Hj; subst. pose proof (sumf_ge_nth _ f _ _ _ Hk). lia.
  - inversion Hk; subst. pose proof (sumf_ge_nth _ f _ _ _ Hj). lia.
  - assert (j <> k) by congruence. specialize (IHl _ _ _ _ H Hj Hk). lia.
Qed.

Lemma sumf_zero : forall A (f : A -> nat) l, (forall x, In x l -> f x = 0) -> sumf f l = 0.
Proof. induction l; simpl; intros; auto. rewrite H by auto. rewrite IHl; auto. Qed.

Lemma sumf_repeat0 : forall A (f : A -> nat) x n, f x = 0 -> sumf f (repeat x n) = 0.
Proof. induction n; simpl; intros; auto. rewrite H, IHn; auto. Qed.

Lemma forallb_upd_false : forall A (p : A -> bool) l k y, forallb p l = true -> nth_error l k = Some y -> p y = true.
Proof. intros. rewrite forallb_forall in H. apply H. eapply nth_error_In; eauto. Qed.

Lemma existsb_repeat_false : forall A (p : A -> bool) x n, p x = false -> existsb p (repeat x n) = false.
Proof. induction n; simpl; intros; auto. rewrite H, IHn; auto. Qed.

Lemma all_dead_exists : forall l, l <> [] -> forallb is_dead l = true -> existsb is_dead l = true.
Proof. destruct l; simpl; intros; try congruence. apply andb_prop in H0. destruct H0 as [-> _]. reflexivity. Qed.

Lemma existsb_upd : forall l k w w', nth_error l k = Some w -> is_dead w' = false -> existsb is_dead (upd k w' l) = true -> existsb is_dead l = true.
Proof.
  induction l; intros [|k] w w' H D E; simpl in *; try discriminate.
  - rewrite D in E. simpl in E. rewrite E. apply orb_true_r.
  - apply orb_prop in E. destruct E as [E|E]. rewrite E; auto. rewrite (IHl _ _ _ H D E). apply orb_true_r.
Qed.

Lemma cnt_app : forall i a b, cnt i (a ++ b) = cnt i a + cnt i b.
Proof. intros. unfold cnt. apply count_occ_app. Qed.

Definition b2n (b : bool) : nat := if b then 1 else 0.
Definition eqn (a b : nat) : nat := if a =? b then 1 else 0.
Lemma cnt_one : forall i t, cnt i [t] = eqn t i.
Proof. intros. unfold cnt, eqn. simpl. destruct (Nat.eq_dec t i); destruct (Nat.eqb_spec t i); congruence. Qed.
Lemma cnt_cons : forall i t l, cnt i (t :: l) = eqn t i + cnt i l.
Proof. intros. unfold cnt, eqn. simpl. destruct (Nat.eq_dec t i); destruct (Nat.eqb_spec t i); try congruence; lia. Qed.

(* ---------- per-thread measures ---------- *)
Section WithCfg.
Variable c : cfg.

(* holds (or has announced for) the pool's write lock *)
Definition wpc (p : epc) : bool :=
  match p with
  | EShAcq | EShBody | EShSend _ | EShBc | EShUnl | EStAcq | EStGo | EStUnl => true
  | EStChk | EStWait => negb (fStartOut c)
  | _ => false
  end.
(* holds startMutex (repaired Start) *)
Definition mpc (p : epc) : bool :=
  match p with EStChk | EStWait | EStAnn | EStAcq | EStGo | EStUnl | EStRel => fStartOut c | _ => false end.
(* has seen ShutdownComplete.Wait return and has not yet restarted *)
Definition postwait (p : epc) : bool :=
  match p with EStGo => true | EStAnn | EStAcq => fStartOut c | _ => false end.

(* tasks a thread holds: counted (accepted) but not yet pushed *)
Definition sp_inf (i t : nat) (p : spc) : nat := match p with SPush => eqn t i | _ => 0 end.
Definition w_inf (i : nat) (w : wk) : nat :=
  match w with
  | WRun _ t rest p => eqn t i + match rest with u :: _ => sp_inf i u p | [] => 0 end
  | _ => 0
  end.
Definition e_inf (i : nat) (e : ext) : nat := match epc_ e with ESub t p => sp_inf i t p | _ => 0 end.
Definition d_inf (i : nat) (d : dpc) : nat := match d with DSend t => eqn t i | _ => 0 end.

Definition inflight (i : nat) (s : st) : nat :=
  cnt i (queue s) + cnt i (chanq s) + d_inf i (disp s) + sumf (w_inf i) (wks s) + sumf (e_inf i) (exts s).

Definition total_inflight (s : st) : nat :=
  length (queue s) + length (chanq s) + match disp s with DSend _ => 1 | _ => 0 end
  + sumf (fun w => match w with WRun _ _ rest p => 1 + match rest, p with _ :: _, SPush => 1 | _, _ => 0 end | _ => 0 end) (wks s)
  + sumf (fun e => match epc_ e with ESub _ SPush => 1 | _ => 0 end) (exts s).

Record Inv (s : st) : Prop := {
  iW : sumf (fun e => b2n (wpc (epc_ e))) (exts s) = b2n (negb (rfree s));
  iM : sumf (fun e => b2n (mpc (epc_ e))) (exts s) = (if fStartOut c then b2n (startmx s) else 0);
  iX : forall j e, nth_error (exts s) j = Some e -> postwait (epc_ e) = true -> all_dead s = true;
  iLen : length (wks s) = nw c;
  iClosed : closed s = true -> disp s = DDead;
  iDead : existsb is_dead (wks s) = true -> closed s = true /\ chanq s = [];
  iCons : forall i, cnt i (acc s) = cnt i (ran s) + cnt i (canc s) + inflight i s;
  iPend : pending s = (Z.of_nat (length (acc s)) - Z.of_nat (length (ran s)) - Z.of_nat (length (canc s)))%Z
}.

End WithCfg.
