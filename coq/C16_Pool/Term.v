(* C16 - shutdown termination of the REPAIRED variant: characterisation of the stuck states over all schedules.
   A reachable state in which no thread has an enabled step is "final": nothing is in flight, a stopped pool has completed
   its shutdown (all workers and the dispatcher terminated), and every external operation has returned except
   ShutdownComplete.Wait calls on a pool that is running (nobody called Shutdown). *)
From Coq Require Import List ZArith Bool Arith Lia Permutation.
From Verif.C16_Pool Require Import Model Inv StepsA StepsB Proofs Live.
Import ListNotations.

Lemma sumf_eq0 : forall A (f g : A -> nat) l, sumf g l = 0 -> (forall y, g y = 0 -> f y = 0) -> sumf f l = 0.
Proof. induction l; simpl; intros; auto. rewrite H0 by lia. rewrite IHl; auto. lia. Qed.

Lemma sumf_all0 : forall A (f : A -> nat) l, (forall k x, nth_error l k = Some x -> f x = 0) -> sumf f l = 0.
Proof. intros. apply sumf_zero. intros x Hx. destruct (In_nth_error _ _ Hx) as [k Hk]. eauto. Qed.

Section T.
Variables (n : nat) (cn : bool) (pg : list (list nat)).
Let c := repaired n cn pg.
Hypothesis Hnw : 1 <= n.

Lemma Hnw' : 1 <= nw c.
Proof. exact Hnw. Qed.

(* ---------- the liveness invariants hold in every reachable state ---------- *)
Lemma inv2_step : forall s x s', Inv c s -> Inv2 c s -> step c s x = Some s' -> Inv2 c s'.
Proof.
  intros s [t ch] s' I J H. unfold step in H. cbn [fst snd] in H. destruct t as [|k|j].
  - eapply inv2_dstep; eauto.
  - destruct (nth_error (wks s) k) as [w|] eqn:Hk; try discriminate.
    destruct (w_step c s w ch) as [[s1 w']|] eqn:Hw; try discriminate. inversion H; subst. eapply inv2_wstep; eauto.
  - destruct (nth_error (exts s) j) as [e|] eqn:Hj; try discriminate.
    destruct (e_step c s j e) as [[s1 e']|] eqn:He; try discriminate. inversion H; subst. eapply inv2_estep; eauto.
Qed.

Lemma inv2_init : forall scripts, Inv2 c (init c scripts).
Proof.
  intros scripts.
  assert (Z: forall f : ext -> nat, (forall o, f (mkExt EIdle o) = 0) -> sumf f (map (mkExt EIdle) scripts) = 0).
  { intros f Hf. apply sumf_zero. intros x Hx. apply in_map_iff in Hx. destruct Hx as [o [<- _]]. auto. }
  constructor; unfold init; cbn [running readers writer startmx queue pending chanq closed tokens disp wks exts acc ran canc rej];
    rewrite ?sumf_repeat0 by reflexivity; rewrite ?Z by reflexivity; auto; try lia; try discriminate; intros; try discriminate.
Qed.

Lemma inv12_run : forall sch s, Inv c s -> Inv2 c s -> Inv c (run c sch s) /\ Inv2 c (run c sch s).
Proof.
  induction sch as [|x sch IH]; intros s I J; simpl; auto. unfold step'.
  destruct (step c s x) eqn:E; auto. apply IH. eapply inv_step; eauto. exact Hnw'. eapply inv2_step; eauto.
Qed.

Theorem reachable_inv2 : forall scripts sch, Inv c (run c sch (init c scripts)) /\ Inv2 c (run c sch (init c scripts)).
Proof. intros. apply inv12_run. apply inv_init. apply inv2_init. Qed.

(* ---------- what "stuck" says thread by thread ---------- *)
Lemma stuck_forall : forall s, stuckb c s = true -> forall t, In t (threads s) -> step c s (t, 0) = None /\ step c s (t, 1) = None.
Proof.
  intros s S t Ht. unfold stuckb in S. rewrite forallb_forall in S. specialize (S t Ht). unfold enabledb in S.
  destruct (step c s (t, 0)); destruct (step c s (t, 1)); try discriminate. auto.
Qed.

Lemma stuck_d : forall s, stuckb c s = true -> d_step c s = None.
Proof. intros s S. destruct (stuck_forall s S TD) as [H _]. simpl. auto. exact H. Qed.

Lemma stuck_w : forall s k w, stuckb c s = true -> nth_error (wks s) k = Some w -> w_step c s w 0 = None /\ w_step c s w 1 = None.
Proof.
  intros s k w S Hk.
  assert (L: k < length (wks s)) by (apply nth_error_Some; congruence).
  destruct (stuck_forall s S (TW k)) as [H0 H1].
  { unfold threads. right. apply in_or_app. left. apply in_map. apply in_seq. lia. }
  unfold step in H0, H1. cbn [fst snd] in H0, H1. rewrite Hk in H0, H1.
  split; [destruct (w_step c s w 0) as [[? ?]|]|destruct (w_step c s w 1) as [[? ?]|]]; auto; discriminate.
Qed.

Lemma stuck_e : forall s j e, stuckb c s = true -> nth_error (exts s) j = Some e -> e_step c s j e = None.
Proof.
  intros s j e S Hj.
  assert (L: j < length (exts s)) by (apply nth_error_Some; congruence).
  destruct (stuck_forall s S (TE j)) as [H0 _].
  { unfold threads. right. apply in_or_app. right. apply in_map. apply in_seq. lia. }
  unfold step in H0. cbn [fst snd] in H0. rewrite Hj in H0. destruct (e_step c s j e) as [[? ?]|]; auto; discriminate.
Qed.

(* ---------- quiescence gives pending = 0 ---------- *)
Lemma pending_zero : forall s, Inv c s -> (forall i, inflight i s = 0) -> pending s = 0%Z.
Proof.
  intros s I Q. pose proof (iCons c s I) as K. pose proof (iPend c s I) as P.
  assert (PM: Permutation (acc s) (ran s ++ canc s)).
  { apply (Permutation_count_occ Nat.eq_dec). intros i. specialize (K i). specialize (Q i). unfold cnt in *. rewrite count_occ_app. lia. }
  rewrite P. rewrite (Permutation_length PM), app_length. lia.
Qed.

End T.
