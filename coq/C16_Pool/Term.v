(* C16 - shutdown termination of the REPAIRED variant: characterisation of the stuck states over all schedules.
   A reachable state in which no thread has an enabled step is "final": nothing is in flight, a stopped pool has completed
   its shutdown (all workers and the dispatcher terminated), and every external operation has returned except
   ShutdownComplete.Wait calls on a pool that is running (nobody called Shutdown). *)
From Coq Require Import List ZArith Bool Arith Lia Permutation.
From Verif.C16_Pool Require Import Model Inv StepsA StepsB Proofs Live.
Import ListNotations.

Lemma sumf_eq0 : forall A (f g : A -> nat) l, sumf g l = 0 -> (forall y, g y = 0 -> f y = 0) -> sumf f l = 0.
Proof. induction l; simpl; intros; auto. rewrite H0 by lia. rewrite IHl; auto. lia. Qed.

Lemma sumf_all0 : forall A (f : A -> nat) l, (forall k x, nth_error l k = Some x -> f x = 0) -> sumf f l = 0.
Proof. intros. apply sumf_zero. intros x Hx. destruct (In_nth_error _ _ Hx) as [k Hk]. eauto. Qed.

Section T.
Variables (n : nat) (cn : bool) (pg : list (list nat)).
Let c := repaired n cn pg.
Hypothesis Hnw : 1 <= n.

Lemma Hnw' : 1 <= nw c.
Proof. exact Hnw. Qed.

(* ---------- the liveness invariants hold in every reachable state ---------- *)
Lemma inv2_step : forall s x s', Inv c s -> Inv2 c s -> step c s x = Some s' -> Inv2 c s'.
Proof.
  intros s [t ch] s' I J H. unfold step in H. cbn [fst snd] in H. destruct t as [|k|j].
  - eapply inv2_dstep; eauto.
  - destruct (nth_error (wks s) k) as [w|] eqn:Hk; try discriminate.
    destruct (w_step c s w ch) as [[s1 w']|] eqn:Hw; try discriminate. inversion H; subst. eapply inv2_wstep; eauto.
  - destruct (nth_error (exts s) j) as [e|] eqn:Hj; try discriminate.
    destruct (e_step c s j e) as [[s1 e']|] eqn:He; try discriminate. inversion H; subst. eapply inv2_estep; eauto.
Qed.

Lemma inv2_init : forall scripts, Inv2 c (init c scripts).
Proof.
  intros scripts.
  assert (Z: forall f : ext -> nat, (forall o, f (mkExt EIdle o) = 0) -> sumf f (map (mkExt EIdle) scripts) = 0).
  { intros f Hf. apply sumf_zero. intros x Hx. apply in_map_iff in Hx. destruct Hx as [o [<- _]]. auto. }
  constructor; unfold init; cbn [running readers writer startmx queue pending chanq closed tokens disp wks exts acc ran canc rej];
    rewrite ?sumf_repeat0 by reflexivity; rewrite ?Z by reflexivity; auto; try lia; try discriminate; intros; try discriminate.
Qed.

Lemma inv12_run : forall sch s, Inv c s -> Inv2 c s -> Inv c (run c sch s) /\ Inv2 c (run c sch s).
Proof.
  induction sch as [|x sch IH]; intros s I J; simpl; auto. unfold step'.
  destruct (step c s x) eqn:E; auto. apply IH. apply (inv_step c Hnw' s x); auto. eapply inv2_step; eauto.
Qed.

Theorem reachable_inv2 : forall scripts sch, Inv c (run c sch (init c scripts)) /\ Inv2 c (run c sch (init c scripts)).
Proof. intros. apply inv12_run. apply inv_init. apply inv2_init. Qed.

(* ---------- what "stuck" says thread by thread ---------- *)
Lemma stuck_forall : forall s, stuckb c s = true -> forall t, In t (threads s) -> step c s (t, 0) = None /\ step c s (t, 1) = None.
Proof.
  intros s S t Ht. unfold stuckb in S. rewrite forallb_forall in S. specialize (S t Ht). unfold enabledb in S.
  destruct (step c s (t, 0)); destruct (step c s (t, 1)); try discriminate. auto.
Qed.

Lemma stuck_d : forall s, stuckb c s = true -> d_step c s = None.
Proof. intros s S. destruct (stuck_forall s S TD) as [H _]. simpl. auto. exact H. Qed.

Lemma stuck_w : forall s k w, stuckb c s = true -> nth_error (wks s) k = Some w -> w_step c s w 0 = None /\ w_step c s w 1 = None.
Proof.
  intros s k w S Hk.
  assert (L: k < length (wks s)) by (apply nth_error_Some; congruence).
  destruct (stuck_forall s S (TW k)) as [H0 H1].
  { unfold threads. right. apply in_or_app. left. apply in_map. apply in_seq. lia. }
  unfold step in H0, H1. cbn [fst snd] in H0, H1. rewrite Hk in H0, H1.
  split; [destruct (w_step c s w 0) as [[? ?]|]|destruct (w_step c s w 1) as [[? ?]|]]; auto; discriminate.
Qed.

Lemma stuck_e : forall s j e, stuckb c s = true -> nth_error (exts s) j = Some e -> e_step c s j e = None.
Proof.
  intros s j e S Hj.
  assert (L: j < length (exts s)) by (apply nth_error_Some; congruence).
  destruct (stuck_forall s S (TE j)) as [H0 _].
  { unfold threads. right. apply in_or_app. right. apply in_map. apply in_seq. lia. }
  unfold step in H0. cbn [fst snd] in H0. rewrite Hj in H0. destruct (e_step c s j e) as [[? ?]|]; auto; discriminate.
Qed.

(* ---------- quiescence gives pending = 0 ---------- *)
Lemma pending_zero : forall s, Inv c s -> (forall i, inflight i s = 0) -> pending s = 0%Z.
Proof.
  intros s I Q. pose proof (iCons c s I) as K. pose proof (iPend c s I) as P.
  assert (PM: Permutation (acc s) (ran s ++ canc s)).
  { apply (Permutation_count_occ Nat.eq_dec). intros i. specialize (K i). specialize (Q i). unfold cnt in *. rewrite count_occ_app. lia. }
  rewrite P. rewrite (Permutation_length PM), app_length. lia.
Qed.

(* ---------- analysis of a stuck state ---------- *)
Section Stuck.
Variable s : st.
Hypothesis I : Inv c s.
Hypothesis J : Inv2 c s.
Hypothesis S : stuckb c s = true.

Lemma st_disp : disp s = DParked \/ disp s = DDead \/ (exists t, disp s = DSend t /\ nw c <= length (chanq s)) \/
  (disp s = DWaitZ /\ pending s <> 0%Z).
Proof.
  pose proof (stuck_d s S) as H. unfold d_step in H. cbn [c repaired fCondFree orb] in H.
  destruct (disp s) eqn:Ed; brk H; auto.
  - right. right. left. exists t. split; auto. apply Nat.ltb_ge; auto.
  - right. right. right. split; auto. apply Z.eqb_neq; auto.
Qed.

Lemma st_smx : smx_free s = true.
Proof. unfold smx_free. destruct st_disp as [H|[H|[[t [H _]]|[H _]]]]; rewrite H; auto. Qed.

Lemma sub_some_nochk : forall u p, p <> SChk -> sub_step c s u p <> None.
Proof. intros u p Hp. unfold sub_step. cbn [c repaired fSubLock fCondFree]. destruct p; try congruence; rewrite ?st_smx; discriminate. Qed.

Lemma sub_some_chk : forall u, writer s = None -> sub_step c s u SChk <> None.
Proof. intros u Hw. unfold sub_step, rfree. cbn [c repaired fSubLock fCondFree]. rewrite Hw. destruct (running s); discriminate. Qed.

Lemma st_readers : readers s = 0.
Proof.
  destruct (Nat.eq_dec (readers s) 0) as [|N]; auto. exfalso. rewrite (jR c s J) in N.
  assert (X: 1 <= sumf w_rd (wks s) \/ 1 <= sumf e_rd (exts s)) by lia. destruct X as [X|X].
  - destruct (sumf_pos_ex _ _ _ X) as (k & w & Hk & Hw). destruct (stuck_w s k w S Hk) as [H0 _].
    destruct w as [| |d t [|u rest] p| |]; simpl in Hw; try lia. unfold w_step in H0.
    assert (P: p <> SChk) by (intros ->; simpl in Hw; lia).
    pose proof (sub_some_nochk u p P). destruct (sub_step c s u p) as [[? [?|]]|]; congruence.
  - destruct (sumf_pos_ex _ _ _ X) as (j & e & Hj & He). pose proof (stuck_e s j e S Hj) as H0.
    destruct e as [pc r]. unfold e_rd in He. cbn [epc_] in He. destruct pc; try lia. unfold e_step in H0. cbn [epc_ ops] in H0.
    assert (P: p <> SChk) by (intros ->; simpl in He; lia).
    pose proof (sub_some_nochk t p P). destruct (sub_step c s t p) as [[? [?|]]|]; congruence.
Qed.

Lemma st_writer : writer s = None.
Proof.
  destruct (writer s) as [o|] eqn:Ew; auto. exfalso.
  pose proof (iW' n cn pg s I) as W. fold c in W. unfold rfree in W. rewrite Ew in W. simpl in W.
  destruct (sumf_pos_ex _ (e_wp c) (exts s) ltac:(lia)) as (j & e & Hj & He).
  pose proof (stuck_e s j e S Hj) as H0. pose proof (jTok c s J) as T. pose proof (sumf_ge_nth _ e_owed _ _ _ Hj) as G.
  destruct e as [pc r]. unfold e_wp in He. unfold e_owed in G at 1. cbn [epc_] in He, G. unfold e_step in H0.
  cbn [epc_ ops c repaired fStartOut fSigMx negb orb] in H0. rewrite ?st_readers, ?st_smx in H0. simpl in H0.
  destruct pc; cbn in He; try lia; try discriminate.
  - destruct (running s); discriminate.
  - destruct k; try discriminate. destruct (tokens s <? n) eqn:E; try discriminate. apply Nat.ltb_ge in E.
    change (nw c) with n in T. lia.
Qed.

Lemma st_wk : forall k w, nth_error (wks s) k = Some w ->
  w = WDead \/ (w = WInner /\ tokens s = 0 /\ chanq s = [] /\ closed s = false) \/ (w = WDrain /\ chanq s = [] /\ closed s = false).
Proof.
  intros k w Hk. destruct (stuck_w s k w S Hk) as [H0 _]. unfold w_step in H0.
  destruct w as [| |d t [|u rest] p| |]; auto.
  - destruct (0 <? tokens s); discriminate.
  - destruct (0 <? tokens s) eqn:Et; destruct (chanq s) eqn:Ec; destruct (closed s) eqn:Ecl; simpl in H0; try discriminate.
    right. left. repeat split; auto. apply Nat.ltb_ge in Et. lia.
  - discriminate.
  - exfalso. destruct p.
    + pose proof (sub_some_chk u st_writer). destruct (sub_step c s u SChk) as [[? [?|]]|]; congruence.
    + pose proof (sub_some_nochk u SInc ltac:(discriminate)). destruct (sub_step c s u SInc) as [[? [?|]]|]; congruence.
    + pose proof (sub_some_nochk u SPush ltac:(discriminate)). destruct (sub_step c s u SPush) as [[? [?|]]|]; congruence.
    + pose proof (sub_some_nochk u SBc ltac:(discriminate)). destruct (sub_step c s u SBc) as [[? [?|]]|]; congruence.
    + pose proof (sub_some_nochk u SUnl ltac:(discriminate)). destruct (sub_step c s u SUnl) as [[? [?|]]|]; congruence.
  - destruct (chanq s) eqn:Ec; destruct (closed s) eqn:Ecl; destruct (cancel c); try discriminate. auto. auto.
Qed.

Lemma st_wp0 : forall j e, nth_error (exts s) j = Some e -> wpc c (epc_ e) = false.
Proof.
  intros j e Hj. pose proof (iW' n cn pg s I) as W. fold c in W. unfold rfree in W. rewrite st_writer in W. simpl in W.
  pose proof (sumf_ge_nth _ (e_wp c) _ _ _ Hj) as G. unfold e_wp in G at 1. destruct (wpc c (epc_ e)); auto. simpl in G. lia.
Qed.

Definition blocked_ext (e : ext) : Prop :=
  (epc_ e = EIdle /\ (ops e = [] \/ (exists r, ops e = OStart :: r /\ startmx s = true) \/
                      (exists r, ops e = OWaitShutdown :: r /\ all_dead s = false) \/
                      (exists r, ops e = OWaitZero :: r /\ pending s <> 0%Z))) \/
  (epc_ e = EStWait /\ all_dead s = false).

Lemma st_ext : forall j e, nth_error (exts s) j = Some e -> blocked_ext e.
Proof.
  intros j e Hj. pose proof (stuck_e s j e S Hj) as H0. pose proof (st_wp0 j e Hj) as Wp.
  destruct e as [pc r]. unfold blocked_ext. cbn [epc_ ops] in *. unfold e_step in H0.
  cbn [epc_ ops c repaired fStartOut fSigMx negb orb] in H0. unfold rfree in H0. rewrite ?st_writer, ?st_readers, ?st_smx in H0.
  destruct pc; cbn in Wp; try discriminate.
  - left. split; auto. destruct r as [|[t| | | |] r']; auto.
    + exfalso. pose proof (sub_some_chk t st_writer). destruct (sub_step c s t SChk) as [[? [?|]]|]; congruence.
    + discriminate.
    + right. left. exists r'. split; auto. destruct (startmx s); auto. discriminate.
    + right. right. left. exists r'. split; auto. destruct (all_dead s); auto. discriminate.
    + right. right. right. exists r'. split; auto. destruct (pending s =? 0)%Z eqn:E; try discriminate. apply Z.eqb_neq; auto.
  - exfalso. destruct p.
    + pose proof (sub_some_chk t st_writer). destruct (sub_step c s t SChk) as [[? [?|]]|]; congruence.
    + pose proof (sub_some_nochk t SInc ltac:(discriminate)). destruct (sub_step c s t SInc) as [[? [?|]]|]; congruence.
    + pose proof (sub_some_nochk t SPush ltac:(discriminate)). destruct (sub_step c s t SPush) as [[? [?|]]|]; congruence.
    + pose proof (sub_some_nochk t SBc ltac:(discriminate)). destruct (sub_step c s t SBc) as [[? [?|]]|]; congruence.
    + pose proof (sub_some_nochk t SUnl ltac:(discriminate)). destruct (sub_step c s t SUnl) as [[? [?|]]|]; congruence.
  - destruct (running s); discriminate.
  - right. split; auto. destruct (all_dead s); auto. discriminate.
Qed.

Lemma forallb_false_ex : forall A (f : A -> bool) l, forallb f l = false -> exists k x, nth_error l k = Some x /\ f x = false.
Proof.
  induction l as [|a l IH]; simpl; intros H; try discriminate. destruct (f a) eqn:E.
  - destruct (IH H) as (k & x & Hk & Hx). exists (Datatypes.S k), x. auto.
  - exists 0, a. auto.
Qed.

Lemma wks_nonempty : wks s <> [].
Proof. intros E. pose proof (iLen c s I) as L. rewrite E in L. simpl in L. pose proof Hnw'. lia. Qed.

Lemma st_chanq : chanq s = [].
Proof.
  destruct (all_dead s) eqn:AD.
  - destruct (iDead c s I (all_dead_exists _ wks_nonempty AD)); auto.
  - destruct (forallb_false_ex _ _ _ AD) as (k & w & Hk & Hw).
    destruct (st_wk k w Hk) as [->|[(_ & _ & E & _)|(_ & E & _)]]; auto. discriminate.
Qed.

Lemma st_no_send : forall t, disp s <> DSend t.
Proof.
  intros t E. destruct st_disp as [H|[H|[[t' [H L]]|[H _]]]]; try congruence.
  rewrite st_chanq in L. simpl in L. pose proof Hnw'. lia.
Qed.

Lemma st_wk0 : forall i k w, nth_error (wks s) k = Some w -> w_inf i w = 0 /\ w_bc w = 0.
Proof. intros i k w Hk. destruct (st_wk k w Hk) as [->|[(-> & _)|(-> & _)]]; auto. Qed.

Lemma st_ext0 : forall i j e, nth_error (exts s) j = Some e ->
  e_inf i e = 0 /\ e_bc e = 0 /\ e_sendbc e = 0 /\ e_owed e = 0 /\ (e_mp c e = 1 -> epc_ e = EStWait).
Proof.
  intros i j e Hj. unfold e_inf, e_bc, e_sendbc, e_owed, e_mp. destruct (st_ext j e Hj) as [[-> _]|[-> _]]; cbn; repeat split; auto. discriminate.
Qed.

Lemma st_inflight : queue s = [] -> forall i, inflight i s = 0.
Proof.
  intros Q i. unfold inflight. rewrite Q, st_chanq.
  rewrite (sumf_all0 _ (w_inf i)) by (intros k w Hk; apply (st_wk0 i k w Hk)).
  rewrite (sumf_all0 _ (e_inf i)) by (intros j e Hj; apply (st_ext0 i j e Hj)).
  destruct st_disp as [H|[H|[[t [H _]]|[H _]]]]; rewrite H; auto. exfalso. eapply st_no_send; eauto.
Qed.

Lemma st_startmx : (forall j e, nth_error (exts s) j = Some e -> epc_ e <> EStWait) -> startmx s = false.
Proof.
  intros NW. destruct (startmx s) eqn:E; auto. exfalso.
  pose proof (iM' n cn pg s I) as M. fold c in M. rewrite E in M. simpl in M.
  destruct (sumf_pos_ex _ (e_mp c) (exts s) ltac:(lia)) as (j & e & Hj & He).
  destruct (st_ext0 0 j e Hj) as (_ & _ & _ & _ & X). apply (NW j e Hj). apply X.
  unfold e_mp in *. destruct (mpc c (epc_ e)); simpl in *; lia.
Qed.

Theorem stuck_final :
  (forall i, inflight i s = 0) /\ (running s = false -> all_dead s = true /\ disp s = DDead) /\
  (forall e, In e (exts s) -> (epc_ e = EIdle /\ ops e = []) \/ (running s = true /\ epc_ e = EIdle /\ exists r, ops e = OWaitShutdown :: r)).
Proof.
  destruct (running s) eqn:Er.
  - (* the pool is running: idle *)
    assert (D: disp s = DParked).
    { destruct st_disp as [H|[H|[[t [H _]]|[H _]]]]; auto.
      - destruct (jQ c s J) as [X _]. rewrite H; auto. congruence.
      - exfalso. eapply st_no_send; eauto.
      - destruct (jQ c s J) as [X _]. rewrite H; auto. congruence. }
    assert (Q: queue s = []).
    { destruct (queue s) eqn:E; auto. exfalso. destruct (jPark c s J D) as [_ X]. rewrite E in X. specialize (X ltac:(discriminate)).
      rewrite (sumf_all0 _ w_bc) in X by (intros k w Hk; apply (st_wk0 0 k w Hk)).
      rewrite (sumf_all0 _ e_bc) in X by (intros j e Hj; apply (st_ext0 0 j e Hj)). lia. }
    pose proof (st_inflight Q) as F. pose proof (pending_zero s I F) as P.
    assert (NW: forall j e, nth_error (exts s) j = Some e -> epc_ e <> EStWait).
    { intros j e Hj E. pose proof (jWait c s J Er) as X. pose proof (sumf_ge_nth _ e_wait _ _ _ Hj) as G.
      unfold e_wait in G at 1. rewrite E in G. lia. }
    split; auto. split. discriminate.
    intros e He. destruct (In_nth_error _ _ He) as [j Hj].
    destruct (st_ext j e Hj) as [[E [X|[(r & X & Y)|[(r & X & Y)|(r & X & Y)]]]]|[E _]].
    + auto.
    + rewrite (st_startmx NW) in Y. discriminate.
    + right. repeat split; eauto.
    + congruence.
    + exfalso. eapply NW; eauto.
  - (* Shutdown has been called: the shutdown is complete *)
    assert (SB: sumf e_sendbc (exts s) = 0) by (apply sumf_all0; intros j e Hj; apply (st_ext0 0 j e Hj)).
    assert (OW: sumf e_owed (exts s) = 0) by (apply sumf_all0; intros j e Hj; apply (st_ext0 0 j e Hj)).
    assert (D: disp s = DDead).
    { destruct st_disp as [H|[H|[[t [H _]]|[H Pn]]]]; auto.
      - destruct (jPark c s J H) as [X _]. specialize (X Er). lia.
      - exfalso. eapply st_no_send; eauto.
      - exfalso. apply Pn. apply (pending_zero s I). apply st_inflight. destruct (jQ c s J) as [_ X]. rewrite H; auto. auto. }
    assert (Q: queue s = []) by (destruct (jQ c s J) as [_ X]; [rewrite D; auto|auto]).
    pose proof (jDD c s J D) as CL.
    assert (AD: all_dead s = true).
    { unfold all_dead. apply forallb_forall. intros w Hw. destruct (In_nth_error _ _ Hw) as [k Hk].
      destruct (st_wk k w Hk) as [->|[(_ & _ & _ & X)|(_ & _ & X)]]; auto; congruence. }
    pose proof (st_inflight Q) as F. pose proof (pending_zero s I F) as P.
    assert (NW: forall j e, nth_error (exts s) j = Some e -> epc_ e <> EStWait).
    { intros j e Hj E. destruct (st_ext j e Hj) as [[E' _]|[_ X]]; congruence. }
    split; auto. split; auto.
    intros e He. destruct (In_nth_error _ _ He) as [j Hj].
    destruct (st_ext j e Hj) as [[E [X|[(r & X & Y)|[(r & X & Y)|(r & X & Y)]]]]|[E _]].
    + auto.
    + rewrite (st_startmx NW) in Y. discriminate.
    + congruence.
    + congruence.
    + exfalso. eapply NW; eauto.
Qed.

End Stuck.

(* every reachable stuck state of the repaired model is final *)
Theorem shutdown_terminates : forall scripts sch, let s := run c sch (init c scripts) in
  stuckb c s = true ->
  (forall i, inflight i s = 0) /\ (running s = false -> all_dead s = true /\ disp s = DDead) /\
  (forall e, In e (exts s) -> (epc_ e = EIdle /\ ops e = []) \/ (running s = true /\ epc_ e = EIdle /\ exists r, ops e = OWaitShutdown :: r)).
Proof. intros scripts sch s S. destruct (reachable_inv2 scripts sch) as [I J]. apply stuck_final; auto. Qed.

(* progress form: once Shutdown has taken effect (the pool is stopped) and the shutdown is not complete - a worker or the
   dispatcher is still alive, or something is still in flight, or the counter is not zero - some thread has an enabled step *)
Theorem shutdown_progress : forall scripts sch, let s := run c sch (init c scripts) in
  running s = false -> (all_dead s = false \/ disp s <> DDead \/ pending s <> 0%Z) ->
  exists t, In t (threads s) /\ enabledb c s t = true.
Proof.
  intros scripts sch s R B. destruct (stuckb c s) eqn:S.
  - exfalso. destruct (reachable_inv2 scripts sch) as [I J]. destruct (shutdown_terminates scripts sch S) as (F & X & _).
    destruct (X R) as [A D]. fold s in A, D. destruct B as [B|[B|B]]; try congruence. apply B. apply (pending_zero s I F).
  - unfold stuckb in S. destruct (forallb_false_ex _ _ _ S) as (k & t & Hk & Ht). exists t. split.
    eapply nth_error_In; eauto. destruct (enabledb c s t); auto.
Qed.

End T.
