(* C16 - executable model of the option surface of runtime/workerpool: how the configuration of a pool (the parameters
   `nw`, `cancel` of Model.cfg and the panic-on-submit flag) comes out of the options a caller passes.  No proofs here.

   workerpool.New(name, opts...) (workerpool.go) = options.Apply(&WorkerPool{defaults}, opts, init): the struct literal holds
   the defaults (workerCount = 2*runtime.NumCPU(), both flags false), then the options are applied IN ORDER (each one
   overwrites its field, so the last occurrence of an option wins), then the init callback sizes the shutdown-signal
   channel with the resulting workerCount - in Model.v the capacity of that channel is `nw c` (step EShSend), i.e. the
   EFFECTIVE worker count, never a value fixed before the options ran.
   Group.CreatePool(name, opts...) (group.go) = New(name, WithCancelPendingTasksOnShutdown(true), opts...): the group's
   default first, the caller's options after it.
   The three options are the whole option surface of the package (grep "func With" runtime/workerpool/*.go). *)
From Coq Require Import List Bool Arith.
From Verif.C16_Pool Require Import Model.
Import ListNotations.

Inductive popt :=
  | PWorkers (n : nat)     (* WithWorkerCount(n) *)
  | PPanic (b : bool)      (* WithPanicOnSubmitAfterShutdown(b) *)
  | PCancel (b : bool).    (* WithCancelPendingTasksOnShutdown(b) *)

Record pcfg := mkPcfg { pc_workers : nat; pc_panic : bool; pc_cancel : bool }.

Definition apply_opt (c : pcfg) (o : popt) : pcfg :=
  match o with
  | PWorkers n => mkPcfg n (pc_panic c) (pc_cancel c)
  | PPanic b => mkPcfg (pc_workers c) b (pc_cancel c)
  | PCancel b => mkPcfg (pc_workers c) (pc_panic c) b
  end.

(* the struct literal of New; ncpu = runtime.NumCPU() *)
Definition pool_defaults (ncpu : nat) : pcfg := mkPcfg (2 * ncpu) false false.

(* workerpool.New *)
Definition new_pool (ncpu : nat) (opts : list popt) : pcfg := fold_left apply_opt opts (pool_defaults ncpu).

(* the option list that Group.CreatePool hands to New *)
Definition group_pool_opts (caller : list popt) : list popt := PCancel true :: caller.

(* a pool made by New directly (via_group = false) or by Group.CreatePool (true) with the caller's options *)
Definition pool_cfg (via_group : bool) (ncpu : nat) (caller : list popt) : pcfg :=
  new_pool ncpu (if via_group then group_pool_opts caller else caller).

(* the configuration of the interleaving model for such a pool (code as in /repo = `repaired`) *)
Definition to_cfg (pc : pcfg) (p : list (list nat)) : cfg := repaired (pc_workers pc) (pc_cancel pc) p.

(* specification side: the value a caller asked for = the last occurrence of the option in his list *)
Fixpoint last_cancel (opts : list popt) : option bool :=
  match opts with
  | [] => None
  | o :: r => match last_cancel r with Some v => Some v | None => match o with PCancel b => Some b | _ => None end end
  end.
Fixpoint last_workers (opts : list popt) : option nat :=
  match opts with
  | [] => None
  | o :: r => match last_workers r with Some v => Some v | None => match o with PWorkers n => Some n | _ => None end end
  end.
Fixpoint last_panic (opts : list popt) : option bool :=
  match opts with
  | [] => None
  | o :: r => match last_panic r with Some v => Some v | None => match o with PPanic b => Some b | _ => None end end
  end.
