From Coq Require Import List ZArith Bool Arith Lia.
From Verif.C16_Pool Require Import Model Inv.
From Verif.C16_Pool Require Import StepsA.
Import ListNotations.
Ltac brk_sub H :=
  unfold sub_step in H;
  repeat match type of H with
  | context [match ?p with SChk => _ | _ => _ end] => destruct p
  | context [if ?b then _ else _] => destruct b eqn:?
  end; try discriminate.

Section S.
Variable c : cfg.
Hypothesis Hnw : 1 <= nw c.
Lemma bcast_fields : forall s, running (bcast s) = running s /\ readers (bcast s) = readers s /\ writer (bcast s) = writer s /\
  startmx (bcast s) = startmx s /\ queue (bcast s) = queue s /\ pending (bcast s) = pending s /\ chanq (bcast s) = chanq s /\
  closed (bcast s) = closed s /\ tokens (bcast s) = tokens s /\ wks (bcast s) = wks s /\ exts (bcast s) = exts s /\
  acc (bcast s) = acc s /\ ran (bcast s) = ran s /\ canc (bcast s) = canc s /\ rej (bcast s) = rej s /\
  (forall i, d_inf i (disp (bcast s)) = d_inf i (disp s)) /\ (disp s = DDead -> disp (bcast s) = DDead).
Proof. intros s. unfold bcast. destruct (disp s) eqn:E; simpl; rewrite ?E; repeat split; auto; intros; congruence. Qed.

Ltac bc :=
  repeat match goal with
  | |- context [bcast ?s] =>
      let B := fresh "B" in pose proof (bcast_fields s) as B;
      destruct B as (B1&B2&B3&B4&B5&B6&B7&B8&B9&B10&B11&B12&B13&B14&B15&B16&B17);
      rewrite ?B1, ?B2, ?B3, ?B4, ?B5, ?B6, ?B7, ?B8, ?B9, ?B10, ?B11, ?B12, ?B13, ?B14, ?B15, ?B16
  end.

Ltac cons_tac_e SU K :=
  let i := fresh "i" in
  intros i; specialize (K i);
  match goal with |- context [upd _ ?x _] => pose proof (SU (e_inf i) x) end;
  rewrite ?cnt_app, ?cnt_one, ?cnt_cons in *; cbn [e_inf epc_ sp_inf d_inf] in *;
  repeat match goal with
         | H : context [if ?b then _ else _] |- _ => destruct b
         end;
  cbn [e_inf epc_ sp_inf d_inf] in *; lia.

Ltac sum_tac SU Hj :=
  match goal with |- sumf ?f (upd _ ?x _) = _ =>
    pose proof (SU f x); pose proof (sumf_ge_nth _ f _ _ _ Hj) end;
  unfold rfree in *; cbn [wpc mpc epc_ b2n negb] in *;
  repeat match goal with
         | H : context [fStartOut c] |- _ => destruct (fStartOut c)
         | |- context [fStartOut c] => destruct (fStartOut c)
         end;
  repeat match goal with
         | H : context [match writer ?s with _ => _ end] |- _ => destruct (writer s)
         | H : context [startmx ?s] |- _ => destruct (startmx s)
         end;
  cbn [wpc mpc epc_ b2n negb] in *; try discriminate; try lia.

Section E.
Variables (s : st) (j : nat) (e : ext).
Hypothesis I : Inv c s.
Hypothesis Hj : nth_error (exts s) j = Some e.

Lemma SUe : forall f x, sumf f (upd j x (exts s)) + f e = sumf f (exts s) + f x.
Proof. intros; eapply sumf_upd; eauto. Qed.

(* a step of thread j that leaves the workers alone and puts the thread at a pc that is "postwait" only if it was before
   or if all workers are dead *)
Lemma leaf : forall s1 e',
  exts s1 = exts s -> wks s1 = wks s -> chanq s1 = chanq s -> closed s1 = closed s -> ran s1 = ran s -> canc s1 = canc s ->
  (disp s = DDead -> disp s1 = DDead) -> (forall i, d_inf i (disp s1) = d_inf i (disp s)) ->
  (postwait c (epc_ e') = true -> postwait c (epc_ e) = true \/ all_dead s = true) ->
  sumf (fun e => b2n (wpc c (epc_ e))) (upd j e' (exts s)) = b2n (negb (rfree s1)) ->
  sumf (fun e => b2n (mpc c (epc_ e))) (upd j e' (exts s)) = (if fStartOut c then b2n (startmx s1) else 0) ->
  (forall i, cnt i (acc s1) + cnt i (queue s) + e_inf i e = cnt i (acc s) + cnt i (queue s1) + e_inf i e') ->
  (pending s1 - Z.of_nat (length (acc s1)) = pending s - Z.of_nat (length (acc s)))%Z ->
  Inv c (set_exts (upd j e' (exts s1)) s1).
Proof.
  intros s1 e' E1 E2 E3 E4 E5 E6 E7 E8 PW HW HM HK HP.
  destruct I as [W M X L C D K P].
  constructor; proj; unfold inflight, all_dead in *; proj; rewrite ?E1, ?E2, ?E3, ?E4, ?E5, ?E6; auto.
  - intros j' e2 Hj' Hp. destruct (Nat.eq_dec j' j) as [->|N].
    + erewrite nth_error_upd_eq in Hj' by eauto. inversion Hj'; subst e2. destruct (PW Hp); eauto.
    + rewrite nth_error_upd_neq in Hj' by auto. eauto.
  - intros i. specialize (K i). specialize (HK i). pose proof (SUe (e_inf i) e'). rewrite E8. lia.
  - lia.
Qed.
End E.

Lemma do_start_fields : forall s,
  wks (do_start c s) = repeat WOuter (nw c) /\ disp (do_start c s) = DLoop /\ closed (do_start c s) = false /\
  chanq (do_start c s) = [] /\ running (do_start c s) = true /\ writer (do_start c s) = writer s /\
  startmx (do_start c s) = startmx s /\ queue (do_start c s) = queue s /\ pending (do_start c s) = pending s /\
  exts (do_start c s) = exts s /\ acc (do_start c s) = acc s /\ ran (do_start c s) = ran s /\ canc (do_start c s) = canc s.
Proof. intros s. unfold do_start. repeat split; reflexivity. Qed.

Lemma dead_inf0 : forall i l, forallb is_dead l = true -> sumf (w_inf i) l = 0.
Proof. induction l; simpl; intros; auto. apply andb_prop in H. destruct H as [H1 H2]. destruct a; try discriminate. simpl. auto. Qed.

Lemma inv_estep : forall s j e s1 e', Inv c s -> nth_error (exts s) j = Some e -> e_step c s j e = Some (s1, e') ->
  Inv c (set_exts (upd j e' (exts s1)) s1).
Proof.
  intros s j e s1 e' I Hj H.
  pose proof (SUe s j e Hj) as SU.
  pose proof (iW c s I) as W. pose proof (iM c s I) as M. unfold rfree in W.
  destruct e as [pc r]. unfold e_step in H. cbn [epc_ ops] in H.
  destruct pc.
  12: { (* EStGo *)
    inversion H; subst s1 e'; clear H.
    assert (AD: all_dead s = true) by (eapply (iX c s I j); eauto).
    assert (NEq: wks s <> []) by (intros E0; pose proof (iLen c s I) as L0; rewrite E0 in L0; simpl in L0; lia).
    destruct (iDead c s I (all_dead_exists _ NEq AD)) as [CL CH].
    pose proof (iClosed c s I CL) as DD.
    destruct I as [W0 M0 X L C D K P].
    destruct (do_start_fields s) as (F1&F2&F3&F4&F5&F6&F7&F8&F9&F10&F11&F12&F13).
    constructor; unfold set_exts; cbn [running readers writer startmx queue pending chanq closed tokens disp wks exts acc ran canc rej];
      unfold inflight, rfree, all_dead in *;
      rewrite ?F1, ?F2, ?F3, ?F4, ?F5, ?F6, ?F7, ?F8, ?F9, ?F10, ?F11, ?F12, ?F13;
      cbn [running readers writer startmx queue pending chanq closed tokens disp wks exts acc ran canc rej].
    - sum_tac SU Hj.
    - sum_tac SU Hj.
    - intros j' e2 Hj' Hp. exfalso. destruct (Nat.eq_dec j' j) as [->|N].
      + erewrite nth_error_upd_eq in Hj' by eauto. inversion Hj'; subst e2. cbn in Hp. discriminate.
      + rewrite nth_error_upd_neq in Hj' by auto.
        pose proof (sumf_ge_two _ (fun e => b2n (wpc c (epc_ e))) _ _ _ _ _ N Hj' Hj) as G1.
        pose proof (sumf_ge_two _ (fun e => b2n (mpc c (epc_ e))) _ _ _ _ _ N Hj' Hj) as G2.
        destruct e2 as [pc2 r2]. cbn [epc_] in *. rewrite W0 in G1. rewrite M0 in G2.
        destruct pc2; cbn [postwait wpc mpc b2n] in *; try discriminate;
          destruct (fStartOut c); try discriminate; destruct (writer s); destruct (startmx s); cbn [b2n negb] in *; lia.
    - apply repeat_length.
    - intros; discriminate.
    - rewrite existsb_repeat_false by reflexivity. intros; discriminate.
    - intros i. specialize (K i). pose proof (SU (e_inf i) {| epc_ := EStUnl; ops := r |}).
      rewrite CH, DD in K. rewrite (dead_inf0 i _ AD) in K. rewrite sumf_repeat0 by reflexivity.
      cbn [e_inf epc_ d_inf cnt count_occ] in *. lia.
    - auto. }
  all: try (destruct r as [|[t| | | |] r']; try discriminate).
  all: try (match type of H with context [sub_step ?c ?s ?t ?p] => destruct (sub_step c s t p) as [[s2 [p'|]]|] eqn:HS; try discriminate;
              inversion H; subst s1 e'; clear H; brk_sub HS; inversion HS; subst; clear HS end).
  all: try (destruct k).
  all: try (brk H; inversion H; subst s1 e'; clear H).
  all: eapply leaf; eauto; unfold rfree; proj; bc; auto.
  all: try (intros; cbn [postwait epc_] in *; try discriminate; auto; fail).
  all: try (intros i; rewrite ?cnt_app, ?cnt_one; cbn [e_inf epc_ sp_inf]; lia).
  all: try (rewrite ?app_length; simpl; lia).
  all: try (sum_tac SU Hj).
  all: try (match goal with |- sumf ?f (upd _ ?x _) = _ => pose proof (SU f x); pose proof (sumf_ge_nth _ f _ _ _ Hj) end;
            unfold rfree in *; cbn [wpc mpc epc_ b2n negb] in *; destruct (fStartOut c); destruct (writer s); destruct (startmx s);
            cbn [wpc mpc epc_ b2n negb] in *; try discriminate; lia).
Qed.
End S.
