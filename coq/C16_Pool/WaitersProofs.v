(* C16 - the pool with external waiters on its queue / pending counter (Waiters.v).
   With Broadcast in Stack.Push (the code) the waiters are observers: every run of the extended system projects onto a run
   of Model.v (same pool steps, waiter steps erased), a state without enabled steps projects onto a stuck state of Model.v.
   So conservation and shutdown termination hold with ANY number of waiters of any kind, under every schedule.
   With Signal in Stack.Push the projection fails: explicit schedules end in a state without enabled steps in which a
   running, idle pool keeps an accepted task in its queue (the wake-up went to a waiter whose threshold is not reached). *)
From Coq Require Import List ZArith Bool Arith Lia Permutation.
From Verif.C16_Pool Require Import Model Inv Proofs Runs Live Term Waiters.
Import ListNotations.

(* ---------- projection ---------- *)
Lemma xstep_B_base : forall c x t ch x', xstep false c x (XB t, ch) = Some x' -> step c (base x) (t, ch) = Some (base x').
Proof.
  intros c x t ch x' H. unfold xstep in H. cbn [fst snd] in H.
  destruct (step c (base x) (t, ch)) as [s'|]; try discriminate. inversion H; subst. destruct (event (base x) t); reflexivity.
Qed.

Lemma xstep_B_none : forall sig c x t ch, xstep sig c x (XB t, ch) = None <-> step c (base x) (t, ch) = None.
Proof.
  intros sig c x t ch. unfold xstep. cbn [fst snd]. destruct (step c (base x) (t, ch)); split; intros; try discriminate; auto.
Qed.

Lemma xstep_W_base : forall sig c x i ch x', xstep sig c x (XW i, ch) = Some x' -> base x' = base x.
Proof.
  intros sig c x i ch x' H. unfold xstep in H. cbn [fst snd] in H.
  destruct (nth_error (wts x) i) as [w|]; try discriminate.
  destruct (wk_pc w); try discriminate;
    destruct (on_queue (wk_kind w)); try (destruct (smx_free (base x))); try discriminate;
    destruct (wcond (wk_kind w) (base x)); try discriminate; inversion H; reflexivity.
Qed.

Theorem xrun_base : forall c sch x, base (xrun false c sch x) = run c (proj_sch sch) (base x).
Proof.
  intros c. induction sch as [|[t ch] sch IH]; intros x; [reflexivity|].
  unfold xrun, run in *. cbn [fold_left proj_sch flat_map fst snd]. rewrite IH. clear IH. destruct t as [t|i].
  - cbn [app fold_left]. f_equal. unfold xstep', step'.
    destruct (xstep false c x (XB t, ch)) as [x'|] eqn:E.
    + rewrite (xstep_B_base _ _ _ _ _ E). reflexivity.
    + apply xstep_B_none in E. rewrite E. reflexivity.
  - cbn [app]. f_equal. unfold xstep'. destruct (xstep false c x (XW i, ch)) as [x'|] eqn:E; auto.
    eapply xstep_W_base; eauto.
Qed.

Lemma xinit_base : forall c scripts kinds, base (xinit c scripts kinds) = init c scripts.
Proof. reflexivity. Qed.

(* every reachable state of the extended system (Broadcast) has a reachable pool state *)
Theorem xreach_base : forall c scripts kinds sch,
  base (xrun false c sch (xinit c scripts kinds)) = run c (proj_sch sch) (init c scripts).
Proof. intros. rewrite xrun_base. reflexivity. Qed.

(* ---------- stuck states ---------- *)
Lemma xstuck_base : forall sig c x, xstuckb sig c x = true -> stuckb c (base x) = true.
Proof.
  intros sig c x H. unfold xstuckb in H. rewrite forallb_forall in H. unfold stuckb. apply forallb_forall. intros t Ht.
  assert (I: In (XB t) (xthreads x)) by (unfold xthreads; apply in_or_app; left; apply in_map; exact Ht).
  specialize (H _ I). unfold xenabledb in H. unfold enabledb.
  destruct (xstep sig c x (XB t, 0)) eqn:E0; try discriminate. destruct (xstep sig c x (XB t, 1)) eqn:E1; try discriminate.
  apply xstep_B_none in E0. apply xstep_B_none in E1. rewrite E0, E1. reflexivity.
Qed.

(* ---------- the theorems of the pool, with waiters ---------- *)
Theorem wx_conservation : forall c, 1 <= nw c -> forall scripts kinds sch,
  let s := base (xrun false c sch (xinit c scripts kinds)) in
  (forall i, cnt i (acc s) = cnt i (ran s) + cnt i (canc s) + inflight i s) /\
  pending s = (Z.of_nat (length (acc s)) - Z.of_nat (length (ran s)) - Z.of_nat (length (canc s)))%Z.
Proof. intros c H scripts kinds sch. cbv zeta. rewrite xreach_base. exact (conservation c H scripts (proj_sch sch)). Qed.

Theorem wx_conservation_quiescent : forall c, 1 <= nw c -> forall scripts kinds sch,
  let s := base (xrun false c sch (xinit c scripts kinds)) in
  (forall i, inflight i s = 0) -> Permutation (acc s) (ran s ++ canc s) /\ pending s = 0%Z.
Proof. intros c H scripts kinds sch. cbv zeta. rewrite xreach_base. exact (conservation_quiescent c H scripts (proj_sch sch)). Qed.

Theorem wx_cancel_only_if_enabled : forall c scripts kinds sch, cancel c = false ->
  canc (base (xrun false c sch (xinit c scripts kinds))) = [].
Proof. intros c scripts kinds sch H. rewrite xreach_base. exact (cancel_only_if_enabled c scripts (proj_sch sch) H). Qed.

(* no state without enabled steps - of pool threads AND waiters - other than the final ones: nothing accepted is left in
   flight (so pending = 0: every accepted task was run or cancelled), a stopped pool has terminated completely, every
   operation returned (except ShutdownComplete.Wait on a running pool) *)
Theorem wx_shutdown_terminates : forall n cn p, 1 <= n -> forall scripts kinds sch, let c := repaired n cn p in
  let x := xrun false c sch (xinit c scripts kinds) in let s := base x in
  xstuckb false c x = true ->
  (forall i, inflight i s = 0) /\ pending s = 0%Z /\ (running s = false -> all_dead s = true /\ disp s = DDead) /\
  (forall e, In e (exts s) -> (epc_ e = EIdle /\ ops e = []) \/ (running s = true /\ epc_ e = EIdle /\ exists r, ops e = OWaitShutdown :: r)).
Proof.
  intros n cn p Hn scripts kinds sch c x s S. apply xstuck_base in S. unfold s, x in *. rewrite xreach_base in *.
  destruct (shutdown_terminates n cn p Hn scripts (proj_sch sch) S) as (F & A & B). fold c in F, A, B.
  split; auto. split; auto.
  destruct (reachable_inv2 n cn p Hn scripts (proj_sch sch)) as [I _]. eapply pending_zero; eauto.
Qed.

Theorem wx_shutdown_progress : forall n cn p, 1 <= n -> forall scripts kinds sch, let c := repaired n cn p in
  let x := xrun false c sch (xinit c scripts kinds) in let s := base x in
  (pending s <> 0%Z \/ (running s = false /\ (all_dead s = false \/ disp s <> DDead))) ->
  exists t, In t (xthreads x) /\ xenabledb false c x t = true.
Proof.
  intros n cn p Hn scripts kinds sch c x s B. destruct (xstuckb false c x) eqn:S.
  - exfalso. destruct (wx_shutdown_terminates n cn p Hn scripts kinds sch S) as (_ & P & X & _). fold c x s in P, X.
    destruct B as [B|[R [B|B]]]; try congruence; destruct (X R); congruence.
  - unfold xstuckb in S. destruct (forallb_false_ex _ _ _ S) as (k & t & Hk & Ht). exists t. split.
    eapply nth_error_In; eauto. destruct (xenabledb false c x t); auto.
Qed.

(* ---------- Signal instead of Broadcast in Stack.Push: refuted ---------- *)
Definition rpx (n : nat) (t : xthr) : list (xthr * nat) := repeat (t, 0) n.
Definition everyone : list (xthr * nat) :=
  concat (repeat [(XB TD, 0); (XB (TW 0), 0); (XB (TE 0), 0); (XB (TE 1), 0); (XB (TE 2), 0); (XW 0, 0)] 12).

(* a monitor waits for a backlog (WaitSizeIsAbove(5)) on the queue of a pool that is then started; the dispatcher parks
   behind it; Submit(7): the Signal of Push goes to the monitor, which goes back to sleep; nobody has an enabled step, the
   pool is running and idle, task 7 is accepted, counted and queued and is never run; WaitIsZero (second op of thread 1) hangs *)
Definition cS := repaired 1 false [].
Definition scriptsS := [[OStart]; [OSubmit 7; OWaitZero]].
Definition kindsS := [QAbove 5].
Definition schS := [(XW 0, 0)] ++ rpx 8 (XB (TE 0)) ++ rpx 4 (XB TD) ++ rpx 5 (XB (TE 1)) ++ everyone.

Lemma refuted_signal_wakeup :
  let x := xrun true cS schS (xinit cS scriptsS kindsS) in let s := base x in
  xstuckb true cS x = true /\ running s = true /\ disp s = DParked /\ acc s = [7] /\ ran s = [] /\ canc s = [] /\
  queue s = [7] /\ pending s = 1%Z /\ parkA x = [PD; PW 0] /\ map epc_ (exts s) = [EIdle; EIdle] /\ map ops (exts s) = [[]; [OWaitZero]].
Proof. vm_compute. repeat split; reflexivity. Qed.

(* the order of the demonstration: the dispatcher parks first, then the monitor; the first Submit is served (the Signal
   reaches the dispatcher, which then parks again - behind the monitor), the second one is lost *)
Definition scriptsS2 := [[OStart]; [OSubmit 7; OSubmit 8; OWaitZero]].
Definition schS2 := rpx 8 (XB (TE 0)) ++ rpx 4 (XB TD) ++ [(XW 0, 0)] ++ rpx 5 (XB (TE 1)) ++ rpx 8 (XB TD) ++ rpx 5 (XB (TE 1)) ++ everyone.
Lemma refuted_signal_wakeup_second :
  let x := xrun true cS schS2 (xinit cS scriptsS2 kindsS) in let s := base x in
  xstuckb true cS x = true /\ running s = true /\ acc s = [7; 8] /\ ran s = [7] /\ queue s = [8] /\ pending s = 1%Z /\
  parkA x = [PD; PW 0].
Proof. vm_compute. repeat split; reflexivity. Qed.

(* the same schedules with Broadcast (the code): both tasks run, WaitIsZero returns, the monitor is parked with its
   condition false *)
Example broadcast_wakeup_ok :
  (let x := xrun false cS schS (xinit cS scriptsS kindsS) in let s := base x in
   xstuckb false cS x = true /\ ran s = [7] /\ queue s = [] /\ pending s = 0%Z /\ map ops (exts s) = [[]; []] /\
   wts x = [mkW (QAbove 5) WParked] /\ existsb (starved x) (wts x) = false) /\
  (let x := xrun false cS schS2 (xinit cS scriptsS2 kindsS) in let s := base x in
   xstuckb false cS x = true /\ ran s = [7; 8] /\ pending s = 0%Z /\ map ops (exts s) = [[]; []]).
Proof. vm_compute. repeat split; reflexivity. Qed.
