(* C16 - explicit schedules on the model of the PINNED code (all repair flags off) that end in states violating the
   property; each was replayed on the real pinned code (probe with the verif yield hooks) and repaired in /repo. *)
From Coq Require Import List ZArith Bool.
From Verif.C16_Pool Require Import Model.
Import ListNotations.

Definition rp (n : nat) (t : thr) : list (thr * nat) := repeat (t, 0) n.

(* D16a: Submit passes the running check; Shutdown; the dispatcher leaves its loop; Submit counts and pushes:
   the dispatcher waits for pending = 0 forever, the worker waits for the channel to be closed. *)
Definition cA := pinned 1 false [].
Definition scriptsA := [[OStart]; [OSubmit 7]; [OShutdown]].
Definition schA := rp 6 (TE 0) ++ rp 4 TD ++ rp 1 (TW 0) ++ rp 1 (TE 1) ++ rp 7 (TE 2) ++ rp 3 TD ++ rp 3 (TE 1) ++ rp 1 (TW 0).
Lemma refuted_submit_race :
  let s := run cA schA (init cA scriptsA) in
  stuckb cA s = true /\ running s = false /\ all_dead s = false /\ disp s = DWaitZ /\ pending s = 1%Z /\ queue s = [7].
Proof. vm_compute. repeat split; reflexivity. Qed.

(* D16a, second outcome: shutdown completes, the accepted task is neither run nor cancelled, pending stays 1 *)
Definition scriptsA2 := [[OStart]; [OSubmit 7]; [OShutdown; OWaitShutdown]].
Definition schA2 := rp 6 (TE 0) ++ rp 4 TD ++ rp 1 (TW 0) ++ rp 1 (TE 1) ++ rp 7 (TE 2) ++ rp 5 TD ++ rp 2 (TW 0) ++ rp 3 (TE 1) ++ rp 1 (TE 2).
Lemma refuted_submit_race_lost_task :
  let s := run cA schA2 (init cA scriptsA2) in
  stuckb cA s = true /\ all_dead s = true /\ acc s = [7] /\ ran s = [] /\ canc s = [] /\ pending s = 1%Z.
Proof. vm_compute. repeat split; reflexivity. Qed.

(* D16b: the dispatcher evaluated waitCondition() = true; Shutdown broadcasts; the dispatcher calls Wait. *)
Definition scriptsB := [[OStart]; [OShutdown]].
Definition schB := rp 6 (TE 0) ++ rp 3 TD ++ rp 7 (TE 1) ++ rp 1 TD ++ rp 1 (TW 0).
Lemma refuted_lost_wakeup :
  let s := run cA schB (init cA scriptsB) in
  stuckb cA s = true /\ running s = false /\ all_dead s = false /\ disp s = DParked /\ exts s = [mkExt EIdle []; mkExt EIdle []].
Proof. vm_compute. repeat split; reflexivity. Qed.

(* D16c: Start right after Shutdown holds the pool mutex while it waits for the workers; the dispatcher (IsRunning) and
   the drained task's nested Submit need the read lock. *)
Definition cC := pinned 1 false [[1]].
Definition scriptsC := [[OStart; OSubmit 0; OShutdown; OStart]].
Definition schC := rp 6 (TE 0) ++ rp 4 TD ++ rp 1 (TW 0) ++ rp 4 (TE 0) ++ rp 7 (TE 0) ++ rp 1 (TE 0) ++ rp 3 TD ++ rp 2 (TW 0) ++ rp 3 (TE 0).
Lemma refuted_start_holds_lock :
  let s := run cC schC (init cC scriptsC) in
  stuckb cC s = true /\ all_dead s = false /\ map epc_ (exts s) = [EStWait] /\ pending s = 1%Z.
Proof. vm_compute. repeat split; reflexivity. Qed.

(* D16d: the worker leaves through the closed channel (choice 1), its shutdown signal stays; after the restart the new
   worker cancels an accepted task although the pool is running and Shutdown was not called since Start. *)
Definition cD := pinned 1 true [].
Definition scriptsD := [[OStart; OShutdown; OWaitShutdown; OStart; OSubmit 5]].
Definition schD := rp 6 (TE 0) ++ rp 4 TD ++ rp 1 (TW 0) ++ rp 7 (TE 0) ++ rp 5 TD ++ [(TW 0, 1); (TW 0, 0)] ++ rp 1 (TE 0)
                   ++ rp 6 (TE 0) ++ rp 4 (TE 0) ++ rp 4 TD ++ rp 1 (TW 0) ++ rp 6 TD ++ rp 2 (TW 0).
Lemma refuted_stale_signal :
  let s := run cD schD (init cD scriptsD) in
  running s = true /\ acc s = [5] /\ ran s = [] /\ canc s = [5].
Proof. vm_compute. repeat split; reflexivity. Qed.

(* The repair proposed in DESIGN.md Appendix B (Submit under the read lock, SignalShutdown through the stack mutex) without
   making IsRunning lock-free deadlocks: Submit holds the read lock and needs the stack mutex, the dispatcher holds the
   stack mutex and needs the read lock, which a waiting Shutdown (writer preference) blocks. *)
Definition cN := mkCfg 1 false true false true false false [].
Definition scriptsN := [[OStart]; [OSubmit 7]; [OShutdown]].
Definition schN := rp 6 (TE 0) ++ rp 2 TD ++ rp 2 (TE 1) ++ rp 1 (TE 2) ++ rp 3 TD ++ rp 3 (TW 0).
Lemma refuted_naive_repair :
  let s := run cN schN (init cN scriptsN) in
  stuckb cN s = true /\ disp s = DIn /\ map epc_ (exts s) = [EIdle; ESub 7 SPush; EShAcq].
Proof. vm_compute. repeat split; reflexivity. Qed.

(* the same schedules on the repaired model do not get stuck there (regression examples) *)
Example repaired_submit_race : let c := repaired 1 false [] in stuckb c (run c schA (init c scriptsA)) = false.
Proof. vm_compute. reflexivity. Qed.
Example repaired_lost_wakeup : let c := repaired 1 false [] in stuckb c (run c schB (init c scriptsB)) = false.
Proof. vm_compute. reflexivity. Qed.
