(* C16 - executable model of runtime/workerpool/group.go: the aggregation of pending-task counters.  No proofs in this file.

   A Group owns a syncutils.Counter (PendingChildrenCounter).  CreatePool subscribes to the pool's PendingTasksCounter,
   CreateGroup to the sub-group's PendingChildrenCounter, with the same callback (group.go:58-64 and 104-110):
       if oldValue == 0 { parent.Increase() } else if newValue == 0 { parent.Decrease() }
   Counter.update / Counter.set (counter.go) write the value and call the subscribers only when the value changes, all
   under the counter's valueMutex, i.e. a change of a pool counter runs the whole chain pool -> group -> parent group ...
   while it holds the locks of the counters below (locks taken child -> parent along one tree path and released when
   the chain returns: strict two-phase locking, lock order = tree order, so concurrent chains are serialisable and a
   reader - Get / WaitIsZero take one lock - sees the value of some serial state).  This file models each such chain as
   ONE atomic operation (`notify`); the serialisability argument itself is not mechanised (modelled-not-verified).

   A forest is the list of all counters ever created (pools and groups) in creation order; a node points to the counter
   its subscription feeds (`nparent`, always an older node).  The name maps (pools/groups OrderedMap) only serve look-ups:
   a pool that was replaced under its name keeps its subscription, exactly as in the code, and so stays in the forest.
   `nroot` is the `root` field of the Group (set by CreateGroup to parent.Root()). *)
From Coq Require Import List ZArith Bool Arith Lia.
From Verif.C16_Pool Require Import Model.
Import ListNotations.

Inductive kind := KPool | KGroup.

Record node := mkNode { nkind : kind; nparent : option nat; nroot : option nat; nval : Z }.

Definition forest := list node.

Definition set_val (v : Z) (n : node) : node := mkNode (nkind n) (nparent n) (nroot n) v.

Definition gval (f : forest) (i : nat) : Z := match nth_error f i with Some n => nval n | None => 0%Z end.
Definition is_kind (k : kind) (f : forest) (i : nat) : bool :=
  match nth_error f i with Some n => match nkind n, k with KPool, KPool | KGroup, KGroup => true | _, _ => false end | None => false end.

(* Counter.set(newv) on counter i (Update(d) is set(value+d)): nothing happens when the value does not change; otherwise
   write, then run the subscriber: Increase()/Decrease() of the parent counter = set(parent value +/- 1), recursively.
   Fuel: the parent is an older node, so `S i` steps are enough (`cset` passes the length of the forest). *)
Fixpoint notify (fuel : nat) (f : forest) (i : nat) (newv : Z) : forest :=
  match nth_error f i with
  | None => f
  | Some n =>
      let old := nval n in
      if (old =? newv)%Z then f
      else
        let f' := upd i (set_val newv n) f in
        match fuel, nparent n with
        | S fuel', Some p =>
            if (old =? 0)%Z then notify fuel' f' p (gval f' p + 1)
            else if (newv =? 0)%Z then notify fuel' f' p (gval f' p - 1)
            else f'
        | _, _ => f'
        end
  end.

Definition cset (f : forest) (i : nat) (v : Z) : forest := notify (length f) f i v.

(* Group.Root() *)
Definition root_of (f : forest) (g : nat) : nat :=
  match nth_error f g with Some n => match nroot n with Some r => r | None => g end | None => g end.

Inductive gop :=
  | GNewGroup                       (* NewGroup(name) *)
  | GNewPool                        (* workerpool.New outside of any group: nobody subscribes *)
  | GCreateGroup (g : nat)          (* g.CreateGroup(name) *)
  | GCreatePool (g : nat)           (* g.CreatePool(name) *)
  | GUpdate (p : nat) (d : Z)       (* pool p: PendingTasksCounter.Update(d)  (Increase = 1, Decrease = -1) *)
  | GSet (p : nat) (v : Z).         (* pool p: PendingTasksCounter.Set(v) *)

(* None: the operation is not one a history can contain (unknown index, CreateX on something that is not a group,
   counter change on something that is not a pool's PendingTasksCounter) *)
Definition gstep (f : forest) (o : gop) : option forest :=
  match o with
  | GNewGroup => Some (f ++ [mkNode KGroup None None 0])
  | GNewPool => Some (f ++ [mkNode KPool None None 0])
  | GCreateGroup g => if is_kind KGroup f g then Some (f ++ [mkNode KGroup (Some g) (Some (root_of f g)) 0]) else None
  | GCreatePool g => if is_kind KGroup f g then Some (f ++ [mkNode KPool (Some g) None 0]) else None
  | GUpdate p d => if is_kind KPool f p then Some (cset f p (gval f p + d)) else None
  | GSet p v => if is_kind KPool f p then Some (cset f p v) else None
  end.

Fixpoint grun (f : forest) (ops : list gop) : option forest :=
  match ops with
  | [] => Some f
  | o :: r => match gstep f o with Some f' => grun f' r | None => None end
  end.

(* observers *)
Definition wait_children_returns (f : forest) (g : nat) : bool := (gval f g =? 0)%Z.          (* g.WaitChildren() *)
Definition wait_parents_returns (f : forest) (g : nat) : bool := (gval f (root_of f g) =? 0)%Z. (* g.WaitParents() *)

(* ---- specification side (executable): is node i below g, are all pools below g idle ---- *)
Fixpoint belowb (fuel : nat) (f : forest) (i g : nat) : bool :=
  match fuel with
  | O => false
  | S fuel' =>
      match nth_error f i with
      | Some n => match nparent n with Some p => (p =? g) || belowb fuel' f p g | None => false end
      | None => false
      end
  end.

Definition pools_idle_below (f : forest) (g : nat) : bool :=
  forallb (fun i => negb (is_kind KPool f i && belowb (length f) f i g) || (gval f i =? 0)%Z) (seq 0 (length f)).

(* number of direct children of g whose counter is not zero *)
Definition childnz (g : nat) (n : node) : nat :=
  match nparent n with Some p => if (p =? g) && negb (nval n =? 0)%Z then 1 else 0 | None => 0 end.
Fixpoint count_childnz (g : nat) (f : forest) : nat :=
  match f with [] => 0 | n :: r => childnz g n + count_childnz g r end.
