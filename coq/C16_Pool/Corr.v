(* Correspondence for C16.
   CScript: a directed script (one external goroutine per operation, released in script order, the system is left to
   settle after every directive; yield hooks / gated tasks restrict the schedule) with the observation after every
   directive; the model runs the same script with a deterministic run-to-quiescence scheduler (a legal schedule of the
   interleaving system of Model.v: threads that are not yet released or that are held at a hook are just not scheduled).
   CFree: the final observation of a free-running run, judged by the same conservation predicate that the theorems
   establish for quiescent states.
   CScriptO / CFreeO: the same, for a pool given by HOW IT WAS MADE - workerpool.New or Group.CreatePool, with the caller's
   option list in order (options left out, repeated options, worker counts around and above the machine-derived
   constants; ncpu = runtime.NumCPU() of the run): the configuration of the model is computed here by the option
   resolution of Options.v (defaults, then the group's default, then the caller's options, last wins). *)
From Coq Require Import List ZArith Bool Arith Sorting.Mergesort Orders.
From Verif.C16_Pool Require Import Model Options.
Import ListNotations.

Module NatOrder <: TotalLeBool.
  Definition t := nat.
  Definition leb := Nat.leb.
  Theorem leb_total : forall a1 a2, leb a1 a2 = true \/ leb a2 a1 = true.
  Proof. intros a b. unfold leb. destruct (Nat.leb a b) eqn:E; auto. right. apply Nat.leb_le. apply Nat.leb_gt in E. apply Nat.lt_le_incl. exact E. Qed.
End NatOrder.
Module NatSort := Sort NatOrder.

Inductive dir := XOp (o : op) | XGate (closed : bool) | XHoldSub (b : bool) | XHoldDisp (b : bool).

Record rs := mkRs { r_st : st; r_active : nat; r_gate : bool; r_hsub : bool; r_hdisp : bool }.

Definition ops_of (script : list dir) : list (list op) :=
  flat_map (fun d => match d with XOp o => [[o]] | _ => [] end) script.

Definition frozen (gated : list bool) (r : rs) (t : thr) : bool :=
  let s := r_st r in
  match t with
  | TD => r_hdisp r && match disp s with DHold => true | _ => false end
  | TW k =>
      match nth_error (wks s) k with
      | Some (WRun _ t rest p) =>
          (r_gate r && nth t gated false) ||
          (r_hsub r && match rest, p with _ :: _, SInc => true | _, _ => false end)
      | _ => false
      end
  | TE j =>
      (r_active r <=? j) ||
      match nth_error (exts s) j with
      | Some e => r_hsub r && match epc_ e with ESub _ SInc => true | _ => false end
      | None => false
      end
  end.

(* one round: every thread that is not frozen gets one chance (choice 0); reports whether anything moved *)
Definition round (c : cfg) (gated : list bool) (r : rs) : rs * bool :=
  fold_left (fun (a : rs * bool) t =>
               let (r0, moved) := a in
               if frozen gated r0 t then a
               else match step c (r_st r0) (t, 0) with
                    | Some s' => (mkRs s' (r_active r0) (r_gate r0) (r_hsub r0) (r_hdisp r0), true)
                    | None => a
                    end)
            (threads (r_st r)) (r, false).

Fixpoint settle (fuel : nat) (c : cfg) (gated : list bool) (r : rs) : rs :=
  match fuel with
  | O => r
  | S f => let (r', moved) := round c gated r in if moved then settle f c gated r' else r'
  end.

Definition apply_dir (r : rs) (d : dir) : rs :=
  match d with
  | XOp _ => mkRs (r_st r) (S (r_active r)) (r_gate r) (r_hsub r) (r_hdisp r)
  | XGate b => mkRs (r_st r) (r_active r) b (r_hsub r) (r_hdisp r)
  | XHoldSub b => mkRs (r_st r) (r_active r) (r_gate r) b (r_hdisp r)
  | XHoldDisp b => mkRs (r_st r) (r_active r) (r_gate r) (r_hsub r) b
  end.

(* what the harness can see: IsRunning, the counter, the tasks that ran, the number of counter increases (= accepted
   submits) and of cancellations (= decreases that are not runs), the rejected submits (only with the panic option),
   which operations have returned *)
Record obs := mkObs {
  o_running : bool; o_pending : Z; o_ran : list nat; o_nacc : nat; o_ncanc : nat; o_rej : list nat; o_done : list bool }.

Definition ext_done (e : ext) : bool :=
  match epc_ e, ops e with EIdle, [] => true | _, _ => false end.

Definition observe (r : rs) : obs :=
  let s := r_st r in
  mkObs (running s) (pending s) (NatSort.sort (ran s)) (length (acc s)) (length (canc s)) (NatSort.sort (rej s))
        (map ext_done (firstn (r_active r) (exts s))).

Fixpoint run_script (fuel : nat) (c : cfg) (gated : list bool) (r : rs) (script : list dir) : list obs * rs :=
  match script with
  | [] => ([], r)
  | d :: rest =>
      let r' := settle fuel c gated (apply_dir r d) in
      let (os, rf) := run_script fuel c gated r' rest in
      (observe r' :: os, rf)
  end.

Definition list_eqb {A} (eqb : A -> A -> bool) :=
  fix go (a b : list A) : bool :=
    match a, b with
    | [], [] => true
    | x :: a', y :: b' => eqb x y && go a' b'
    | _, _ => false
    end.

Definition obs_eqb (rejobs : bool) (a b : obs) : bool :=
  Bool.eqb (o_running a) (o_running b) && (o_pending a =? o_pending b)%Z &&
  list_eqb Nat.eqb (o_ran a) (o_ran b) && (o_nacc a =? o_nacc b) && (o_ncanc a =? o_ncanc b) &&
  (negb rejobs || list_eqb Nat.eqb (o_rej a) (o_rej b)) && list_eqb Bool.eqb (o_done a) (o_done b).

Inductive case :=
  | CScript (c : cfg) (gated : list bool) (rejobs : bool) (script : list dir) (observed : list obs) (final_cancelled : list nat)
  | CFree (cancel_on : bool) (accepted ran cancelled : list nat) (pending_final : Z) (complete : bool)
  | CScriptO (ncpu : nat) (via_group : bool) (opts : list popt) (p : list (list nat)) (gated : list bool) (script : list dir)
             (observed : list obs) (final_cancelled : list nat)
  | CFreeO (ncpu : nat) (via_group : bool) (opts : list popt) (accepted ran cancelled : list nat) (pending_final : Z) (complete : bool).

Definition settle_fuel := 600.

Definition model_obs (c : cfg) (gated : list bool) (script : list dir) : list obs * rs :=
  run_script settle_fuel c gated (mkRs (init c (ops_of script)) 0 false false false) script.

Definition agree_script (c : cfg) (gated : list bool) (rejobs : bool) (script : list dir) (observed : list obs) (fcanc : list nat) : bool :=
  let (os, rf) := model_obs c gated script in
  list_eqb (obs_eqb rejobs) os observed &&
  (negb rejobs || list_eqb Nat.eqb (NatSort.sort (canc (r_st rf))) fcanc).

Definition agree (k : case) : bool :=
  match k with
  | CScript c gated rejobs script observed fcanc => agree_script c gated rejobs script observed fcanc
  | CFree cn a r x p complete => complete && conserved_b cn a r x p
  | CScriptO ncpu via opts p gated script observed fcanc =>
      let pc := pool_cfg via ncpu opts in
      (1 <=? pc_workers pc) && agree_script (to_cfg pc p) gated (pc_panic pc) script observed fcanc
  | CFreeO ncpu via opts a r x p complete => complete && conserved_b (pc_cancel (pool_cfg via ncpu opts)) a r x p
  end.

Fixpoint mismatches_from (i : nat) (cs : list case) : list nat :=
  match cs with
  | [] => []
  | k :: r => if agree k then mismatches_from (S i) r else i :: mismatches_from (S i) r
  end.

Definition mismatches (cs : list case) : list nat := mismatches_from 0 cs.
