(* C16 - the per-level model of GroupConc.v refines the atomic model of Group.v (linearisation at the top of each chain) for
   EVERY schedule; consequence: a zero read of a group counter by an observer at any moment means every pool below the group
   is idle in the linearised forest.  The unlock-before-notify variant is refuted by witness schedules. *)
From Coq Require Import List ZArith Bool Arith Lia Permutation.
From Verif.C16_Pool Require Import Model Inv Group GroupProofs GroupConc.
Import ListNotations.

(* ---------- forests: extensionality, setv, restore ---------- *)
Lemma node_eq : forall n n', skel n = skel n' -> nval n = nval n' -> n = n'.
Proof. intros [k p r v] [k' p' r' v'] S V. unfold skel in S. simpl in *. inversion S. subst. reflexivity. Qed.

Lemma forest_ext : forall f f', map skel f = map skel f' -> (forall i, gval f i = gval f' i) -> f = f'.
Proof.
  induction f as [|a f IH]; intros [|b f'] S V; simpl in *; try discriminate; auto.
  assert (Sa: skel a = skel b) by (inversion S; unfold skel; congruence).
  assert (Sf: map skel f = map skel f') by (inversion S; auto).
  f_equal.
  - apply node_eq; auto. apply (V 0).
  - apply IH; auto. intros i. apply (V (Datatypes.S i)).
Qed.

Lemma setv_skel : forall i v f, map skel (setv i v f) = map skel f.
Proof. intros. unfold setv. destruct (nth_error f i) eqn:E; auto. apply upd_skel; auto. Qed.

Lemma setv_length : forall i v f, length (setv i v f) = length f.
Proof. intros. rewrite <- (map_length skel), setv_skel, map_length. reflexivity. Qed.

Lemma gval_setv : forall i v f j, gval (setv i v f) j = if (j =? i) && (i <? length f) then v else gval f j.
Proof.
  intros. unfold setv. destruct (nth_error f i) as [n|] eqn:E.
  - assert (L: i < length f) by (apply nth_error_Some; congruence).
    apply Nat.ltb_lt in L. rewrite L, andb_true_r. destruct (Nat.eqb_spec j i) as [->|N].
    + erewrite gval_upd_eq by eauto. reflexivity.
    + apply gval_upd_neq; auto.
  - apply nth_error_None in E. assert (i <? length f = false) as -> by (apply Nat.ltb_ge; auto). rewrite andb_false_r. reflexivity.
Qed.

Lemma gval_setv_eq : forall i v f, i < length f -> gval (setv i v f) i = v.
Proof. intros. rewrite gval_setv, Nat.eqb_refl. apply Nat.ltb_lt in H. rewrite H. reflexivity. Qed.

Lemma gval_setv_neq : forall i v f j, j <> i -> gval (setv i v f) j = gval f j.
Proof. intros. rewrite gval_setv. destruct (Nat.eqb_spec j i); try congruence. reflexivity. Qed.

Lemma setv_id : forall i f, setv i (gval f i) f = f.
Proof.
  intros. apply forest_ext. apply setv_skel. intros j. rewrite gval_setv.
  destruct (Nat.eqb_spec j i) as [->|]; simpl; auto. destruct (i <? length f); auto.
Qed.

Lemma setv_setv : forall i v w f, setv i v (setv i w f) = setv i v f.
Proof.
  intros. apply forest_ext. rewrite !setv_skel; auto. intros j. rewrite !gval_setv, setv_length.
  destruct ((j =? i) && (i <? length f)); auto.
Qed.

Lemma setv_comm : forall i j v w f, i <> j -> setv i v (setv j w f) = setv j w (setv i v f).
Proof.
  intros. apply forest_ext. rewrite !setv_skel; auto. intros k. rewrite !gval_setv, !setv_length.
  destruct (Nat.eqb_spec k i), (Nat.eqb_spec k j); subst; simpl; auto; try congruence.
Qed.

Lemma restore_skel : forall fr f, map skel (restore fr f) = map skel f.
Proof. induction fr; simpl; intros; auto. rewrite setv_skel. auto. Qed.

Lemma restore_length : forall fr f, length (restore fr f) = length f.
Proof. intros. rewrite <- (map_length skel), restore_skel, map_length. reflexivity. Qed.

Lemma gval_restore_notin : forall fr f j, ~ In j (map fidx fr) -> gval (restore fr f) j = gval f j.
Proof.
  induction fr as [|x fr IH]; simpl; intros; auto. rewrite gval_setv_neq by intuition. apply IH. intuition.
Qed.

Lemma restore_app : forall a b f, restore (a ++ b) f = restore a (restore b f).
Proof. intros. unfold restore. apply fold_right_app. Qed.

Lemma restore_setv_comm : forall fr i v f, ~ In i (map fidx fr) -> restore fr (setv i v f) = setv i v (restore fr f).
Proof.
  induction fr as [|x fr IH]; simpl; intros; auto. rewrite IH by intuition. apply setv_comm. intuition.
Qed.

Lemma restore_perm : forall a b f, Permutation a b -> NoDup (map fidx a) -> restore a f = restore b f.
Proof.
  induction 1; intros ND; simpl in *; auto.
  - inversion ND; subst. rewrite IHPermutation; auto.
  - inversion ND as [|? ? N1 ND1]; subst. apply setv_comm. simpl in N1. intuition.
  - rewrite IHPermutation1 by auto. apply IHPermutation2.
    eapply Permutation_NoDup; [|eauto]. apply Permutation_map; auto.
Qed.

Lemma is_kind_setv : forall k i v f j, is_kind k (setv i v f) j = is_kind k f j.
Proof. intros. apply is_kind_skel, setv_skel. Qed.
Lemma is_kind_restore : forall k fr f j, is_kind k (restore fr f) j = is_kind k f j.
Proof. intros. apply is_kind_skel, restore_skel. Qed.

Lemma below_skel : forall f f' i g, map skel f' = map skel f -> below f i g -> below f' i g.
Proof.
  intros f f' i g E B. induction B.
  - apply below_direct. rewrite (parent_of_skel _ _ _ E); auto.
  - eapply below_up; eauto. rewrite (parent_of_skel _ _ _ E); auto.
Qed.

(* ---------- a chain on its way up ---------- *)
(* fr = counters held (inner-most first), (i, c) = the pending call; values relative to forest f *)
Fixpoint chain_ok (f : forest) (fr : list frame) (i : nat) (c : call) : Prop :=
  match fr with
  | [] => is_kind KPool f i = true
  | x :: r =>
      parent_of f (fidx x) = Some i /\
      fold_ x <> gval f (fidx x) /\
      ((fold_ x = 0 /\ c = CUpd 1) \/ (fold_ x <> 0 /\ gval f (fidx x) = 0 /\ c = CUpd (-1)))%Z /\
      exists c0, chain_ok f r (fidx x) c0 /\ gval f (fidx x) = apply_call c0 (fold_ x)
  end.

Definition botval (f : forest) (fr : list frame) (i : nat) (c : call) : Z :=
  match fr with [] => apply_call c (gval f i) | _ => gval f (bottom fr i) end.

Lemma bottom_cons : forall x r i, bottom (x :: r) i = bottom r (fidx x).
Proof. intros. unfold bottom. simpl. destruct (rev r); reflexivity. Qed.

Lemma bottom_in : forall fr i, fr <> [] -> In (bottom fr i) (map fidx fr).
Proof.
  induction fr as [|x r IH]; intros i N; try congruence. rewrite bottom_cons. destruct r as [|y r'].
  - left. reflexivity.
  - right. apply IH. discriminate.
Qed.

Lemma parent_lt : forall f i p, Shape f -> parent_of f i = Some p -> p < i /\ is_kind KGroup f p = true /\ i < length f.
Proof.
  intros f i p Sh H. unfold parent_of in H. destruct (nth_error f i) as [n|] eqn:E; try discriminate.
  destruct (shParent f Sh i n p E H). repeat split; auto. apply nth_error_Some. congruence.
Qed.

Lemma chain_gt : forall f fr i c, Shape f -> chain_ok f fr i c -> forall y, In y fr -> i < fidx y.
Proof.
  induction fr as [|x r IH]; intros i c Sh H y Hy; simpl in *; try tauto.
  destruct H as (P & _ & _ & c0 & C0 & _). destruct (parent_lt _ _ _ Sh P) as (L & _).
  destruct Hy as [->|Hy]; auto. specialize (IH _ _ Sh C0 y Hy). lia.
Qed.

Lemma chain_depth : forall f fr i c, Shape f -> chain_ok f fr i c -> length fr + i <= bottom fr i.
Proof.
  induction fr as [|x r IH]; intros i c Sh H. reflexivity.
  rewrite bottom_cons. simpl in H. destruct H as (P & _ & _ & c0 & C0 & _). destruct (parent_lt _ _ _ Sh P) as (L & _).
  specialize (IH _ _ Sh C0). simpl. lia.
Qed.

Lemma chain_bottom_pool : forall f fr i c, chain_ok f fr i c -> is_kind KPool f (bottom fr i) = true.
Proof.
  induction fr as [|x r IH]; intros i c H. exact H. rewrite bottom_cons. simpl in H. destruct H as (_ & _ & _ & c0 & C0 & _). eauto.
Qed.

Lemma chain_target_lt : forall f fr i c, Shape f -> chain_ok f fr i c -> i < length f.
Proof.
  intros f [|x r] i c Sh H; simpl in H. eapply is_kind_lt; eauto.
  destruct H as (P & _). destruct (parent_lt _ _ _ Sh P) as (_ & K & _). eapply is_kind_lt; eauto.
Qed.

Lemma chain_ok_agree : forall f f' fr i c, map skel f' = map skel f ->
  (forall y, In y fr -> gval f' (fidx y) = gval f (fidx y)) -> chain_ok f fr i c -> chain_ok f' fr i c.
Proof.
  induction fr as [|x r IH]; intros i c E A H; simpl in *.
  - rewrite (is_kind_skel _ _ _ _ E). auto.
  - destruct H as (P & N & D & c0 & C0 & V). rewrite (parent_of_skel _ _ _ E), (A x) by auto.
    repeat split; auto. exists c0. split; auto.
Qed.

Lemma notify_top : forall fuel B i new, i < length B ->
  ((gval B i =? new)%Z = true \/ match parent_of B i with None => True | Some _ => gval B i <> 0%Z /\ new <> 0%Z end) ->
  notify fuel B i new = setv i new B.
Proof.
  intros fuel B i new L H. apply nth_error_Some in L. destruct (nth_error B i) as [n|] eqn:E; try congruence.
  assert (G: gval B i = nval n) by (unfold gval; rewrite E; auto).
  assert (P: parent_of B i = nparent n) by (unfold parent_of; rewrite E; auto).
  assert (S: setv i new B = upd i (set_val new n) B) by (unfold setv; rewrite E; auto).
  destruct (nval n =? new)%Z eqn:Eo.
  - apply Z.eqb_eq in Eo. destruct fuel; simpl; rewrite E, (proj2 (Z.eqb_eq _ _) Eo); rewrite <- Eo, <- G; symmetry; apply setv_id.
  - destruct H as [H|H]; [rewrite G in H; congruence|]. rewrite P, G in H.
    destruct fuel; simpl; rewrite E, Eo; auto. destruct (nparent n); auto. destruct H as [H1 H2].
    apply Z.eqb_neq in H1, H2. rewrite H1, H2. auto.
Qed.

(* replaying the chain on the restored forest: the atomic notify of Group.v arrives at the pending call with all frames written *)
Lemma replay : forall fr B i c fuel, Shape B -> chain_ok B fr i c -> bottom fr i < fuel ->
  notify fuel (restore fr B) (bottom fr i) (botval B fr i c) = notify (fuel - length fr) B i (apply_call c (gval B i)).
Proof.
  induction fr as [|x r IH]; intros B i c fuel Sh H L.
  - simpl. rewrite Nat.sub_0_r. reflexivity.
  - pose proof H as H0. simpl in H. destruct H as (P & N & D & c0 & C0 & V).
    destruct (parent_lt _ _ _ Sh P) as (Lt & Kp & Lx).
    pose proof (chain_gt _ _ _ _ Sh C0) as GT.
    assert (NI: ~ In (fidx x) (map fidx r)).
    { intros I. apply in_map_iff in I. destruct I as (y & Ey & Iy). specialize (GT y Iy). lia. }
    set (B0 := setv (fidx x) (fold_ x) B).
    assert (SK: map skel B0 = map skel B) by apply setv_skel.
    assert (Sh0: Shape B0) by (eapply shape_skel; eauto).
    assert (C0': chain_ok B0 r (fidx x) c0).
    { eapply chain_ok_agree; eauto. intros y Iy. unfold B0. apply gval_setv_neq. specialize (GT y Iy). lia. }
    assert (R: restore (x :: r) B = restore r B0) by (simpl; unfold B0; rewrite restore_setv_comm; auto).
    rewrite R. rewrite bottom_cons in *.
    assert (BV: botval B (x :: r) i c = botval B0 r (fidx x) c0).
    { unfold botval at 1. rewrite bottom_cons. destruct r as [|y r'].
      - simpl. unfold B0. rewrite gval_setv_eq by auto. auto.
      - unfold botval. unfold B0. rewrite gval_setv_neq; auto.
        intros E. apply NI. rewrite <- E. apply bottom_in. discriminate. }
    rewrite BV, (IH B0 (fidx x) c0 fuel Sh0 C0' L).
    pose proof (chain_depth _ _ _ _ Sh0 C0') as DP.
    assert (G0: gval B0 (fidx x) = fold_ x) by (unfold B0; apply gval_setv_eq; auto).
    rewrite G0, <- V.
    destruct (fuel - length r) as [|k] eqn:Ef; [lia|]. replace (fuel - length (x :: r)) with k by (simpl; lia).
    assert (Lx0: fidx x < length B0) by (unfold B0; rewrite setv_length; auto).
    apply nth_error_Some in Lx0. destruct (nth_error B0 (fidx x)) as [n0|] eqn:E0; try congruence.
    assert (V0: nval n0 = fold_ x) by (unfold gval in G0; rewrite E0 in G0; auto).
    assert (P0: nparent n0 = Some i). { rewrite <- (parent_of_skel _ _ _ SK) in P. unfold parent_of in P. rewrite E0 in P. auto. }
    assert (W: upd (fidx x) (set_val (gval B (fidx x)) n0) B0 = B).
    { transitivity (setv (fidx x) (gval B (fidx x)) B0). unfold setv. rewrite E0. auto.
      unfold B0. rewrite setv_setv. apply setv_id. }
    cbn [notify]. rewrite E0, V0. apply Z.eqb_neq in N. rewrite N, P0, W.
    destruct D as [[D1 ->]|(D1 & D2 & ->)].
    + rewrite D1. simpl. reflexivity.
    + apply Z.eqb_neq in D1. rewrite D1, D2. simpl. reflexivity.
Qed.

(* ---------- lists of threads ---------- *)
Lemma NoDup_app_inv : forall A (a b : list A), NoDup (a ++ b) -> NoDup a /\ NoDup b /\ (forall x, In x a -> ~ In x b).
Proof.
  induction a as [|y a IH]; simpl; intros b H.
  - repeat split; auto. constructor.
  - inversion H as [|? ? N ND]; subst. destruct (IH _ ND) as (Na & Nb & D). repeat split; auto.
    + constructor; auto. intros I. apply N. apply in_or_app. auto.
    + intros x [->|I]; auto. intros Ib. apply N. apply in_or_app. auto.
Qed.

Lemma NoDup_app_intro : forall A (a b : list A), NoDup a -> NoDup b -> (forall x, In x a -> ~ In x b) -> NoDup (a ++ b).
Proof.
  induction a as [|y a IH]; simpl; intros b Na Nb D; auto. inversion Na; subst. constructor.
  - intros I. apply in_app_or in I. destruct I as [I|I]; auto. apply (D y); auto.
  - apply IH; auto.
Qed.

Lemma upd_split : forall A (l : list A) t x, nth_error l t = Some x ->
  exists l1 l2, l = l1 ++ x :: l2 /\ length l1 = t /\ forall y, upd t y l = l1 ++ y :: l2.
Proof.
  induction l as [|a l IH]; intros [|t] x H; simpl in *; try discriminate.
  - inversion H; subst. exists [], l. auto.
  - destruct (IH _ _ H) as (l1 & l2 & E & L & U). exists (a :: l1), l2. subst. repeat split; auto.
    intros y. simpl. rewrite U. reflexivity.
Qed.

Lemma nth_error_mid : forall A (l1 l2 : list A) x y t u, nth_error (l1 ++ y :: l2) u = Some x -> length l1 = t ->
  (u = t /\ x = y) \/ (u <> t /\ forall z, nth_error (l1 ++ z :: l2) u = Some x).
Proof.
  intros A l1 l2 x y t u H L. destruct (Nat.lt_ge_cases u (length l1)) as [Lt|Ge].
  - right. split. lia. intros z. rewrite nth_error_app1 in * by auto. auto.
  - rewrite nth_error_app2 in H by auto. destruct (u - length l1) as [|k] eqn:E.
    + left. simpl in H. inversion H. split; auto. lia.
    + right. split. lia. intros z. rewrite nth_error_app2 by auto. rewrite E. simpl in *. auto.
Qed.

Lemma up_sub : forall th x, In x (up_frames th) -> In x (frames_of th).
Proof. intros th x. unfold up_frames, frames_of. destruct (tst th); simpl; tauto. Qed.

Lemma all_up_sub : forall l x, In x (flat_map up_frames l) -> In x (flat_map frames_of l).
Proof. intros l x H. apply in_flat_map in H. destruct H as (th & I & J). apply in_flat_map. exists th. split; auto. apply up_sub; auto. Qed.

Lemma nodup_up : forall l, NoDup (map fidx (flat_map frames_of l)) -> NoDup (map fidx (flat_map up_frames l)).
Proof.
  induction l as [|th l IH]; simpl; intros H; auto. rewrite map_app in *.
  destruct (NoDup_app_inv _ _ _ H) as (Na & Nb & D). apply NoDup_app_intro; auto.
  - unfold up_frames, frames_of in *. destruct (tst th); auto. constructor.
  - intros x I J. apply (D x).
    + apply in_map_iff in I. destruct I as (y & <- & I). apply in_map. apply up_sub; auto.
    + apply in_map_iff in J. destruct J as (y & <- & J). apply in_map. apply all_up_sub; auto.
Qed.

Lemma held_false : forall s i, held s i = false -> ~ In i (map fidx (all_frames s)).
Proof.
  intros s i H I. apply in_map_iff in I. destruct I as (x & E & I). unfold held in H.
  assert (existsb (fun x => fidx x =? i) (all_frames s) = true). { apply existsb_exists. exists x. split; auto. apply Nat.eqb_eq; auto. }
  congruence.
Qed.

(* ---------- the invariant ---------- *)
Record CInv (s : cst) : Prop := {
  ciG : GInv (absf s);
  ciChain : forall t th, nth_error (thrs s) t = Some th ->
      match tst th with TUp fr i c => chain_ok (cf s) fr i c | TDown _ => True end;
  ciND : NoDup (map fidx (all_frames s)) }.

Lemma shape_cf : forall s, CInv s -> Shape (cf s).
Proof. intros s I. eapply shape_skel; [|apply (giShape _ (ciG s I))]. unfold absf. symmetry. apply restore_skel. Qed.

(* what one step does to the linearised forest *)
Definition lin_ok (s : cst) (t : nat) (s' : cst) : Prop :=
  (lin_step s t = [] /\ absf s' = absf s) \/
  (exists p v, lin_step s t = [GSet p v] /\ is_kind KPool (absf s) p = true /\ absf s' = cset (absf s) p v).

Lemma flat_mid : forall A B (f : A -> list B) l1 x l2, flat_map f (l1 ++ x :: l2) = flat_map f l1 ++ f x ++ flat_map f l2.
Proof. intros. rewrite flat_map_app. reflexivity. Qed.

(* steps that neither write a counter nor change the frames on their way up *)
Lemma quiet_step : forall s t th th', CInv s -> nth_error (thrs s) t = Some th ->
  up_frames th' = up_frames th -> (exists pre, frames_of th = pre ++ frames_of th') ->
  match tst th' with TUp fr i c => chain_ok (cf s) fr i c | TDown _ => True end ->
  let s' := mkC (cf s) (upd t th' (thrs s)) in CInv s' /\ absf s' = absf s.
Proof.
  intros s t th th' I Ht EU (pre & EF) CH s'. destruct (upd_split _ _ _ _ Ht) as (l1 & l2 & E & L & U).
  assert (A: absf s' = absf s).
  { unfold absf, all_up, s'. simpl. rewrite U, E, !flat_mid, EU. reflexivity. }
  split; auto. constructor.
  - rewrite A. apply (ciG s I).
  - intros u thu Hu. simpl in Hu. rewrite U in Hu. destruct (nth_error_mid _ _ _ _ _ _ _ Hu L) as [[-> ->]|[N F]]; auto.
    apply (ciChain s I u). rewrite E. apply F.
  - pose proof (ciND s I) as ND. unfold all_frames in *. simpl. rewrite U. rewrite E in ND. rewrite !flat_mid, !map_app in *.
    rewrite EF, map_app in ND.
    destruct (NoDup_app_inv _ _ _ ND) as (N1 & N2 & D1). destruct (NoDup_app_inv _ _ _ N2) as (N3 & N4 & D2).
    destruct (NoDup_app_inv _ _ _ N3) as (N5 & N6 & D3).
    apply NoDup_app_intro; auto.
    + apply NoDup_app_intro; auto. intros x Ix. apply D2. apply in_or_app. auto.
    + intros x Ix J. apply (D1 x Ix). apply in_app_or in J. apply in_or_app. destruct J as [J|J]; auto. left. apply in_or_app. auto.
Qed.

Lemma in_frames_all : forall s t th y, nth_error (thrs s) t = Some th -> In y (frames_of th) -> In y (all_frames s).
Proof. intros. unfold all_frames. apply in_flat_map. exists th. split; auto. eapply nth_error_In; eauto. Qed.

Lemma parent_call_spec : forall f i n old new p c, nth_error f i = Some n -> parent_call n old new = Some (p, c) ->
  parent_of f i = Some p /\ ((old = 0 /\ c = CUpd 1) \/ (old <> 0 /\ new = 0 /\ c = CUpd (-1)))%Z.
Proof.
  intros f i n old new p c E H. unfold parent_call in H. unfold parent_of. rewrite E. destruct (nparent n) as [q|]; try discriminate.
  destruct (old =? 0)%Z eqn:E0; [|destruct (new =? 0)%Z eqn:E1]; inversion H; subst; split; auto.
  - left. split; auto. apply Z.eqb_eq; auto.
  - right. repeat split; auto. apply Z.eqb_neq; auto. apply Z.eqb_eq; auto.
Qed.

Lemma parent_call_none : forall f i n old new, nth_error f i = Some n -> parent_call n old new = None ->
  match parent_of f i with None => True | Some _ => old <> 0%Z /\ new <> 0%Z end.
Proof.
  intros f i n old new E H. unfold parent_call in H. unfold parent_of. rewrite E. destruct (nparent n) as [q|]; auto.
  destruct (old =? 0)%Z eqn:E0; [|destruct (new =? 0)%Z eqn:E1]; try discriminate. split; apply Z.eqb_neq; auto.
Qed.

(* a thread locks counter i, writes it and either calls the parent (push) or has reached the top of its chain *)
Lemma up_step : forall s t th fr i c n, CInv s -> nth_error (thrs s) t = Some th -> tst th = TUp fr i c ->
  held s i = false -> nth_error (cf s) i = Some n ->
  let old := nval n in let new := apply_call c old in
  (forall p c', (old =? new)%Z = false -> parent_call n old new = Some (p, c') ->
     let s' := mkC (setv i new (cf s)) (upd t (mkThr (TUp (mkFrame i old :: fr) p c') (tops th)) (thrs s)) in
     CInv s' /\ absf s' = absf s) /\
  (forall fr', ((old =? new)%Z = true /\ fr' = fr) \/ ((old =? new)%Z = false /\ parent_call n old new = None /\ fr' = mkFrame i old :: fr) ->
     let s' := mkC (setv i new (cf s)) (upd t (mkThr (TDown fr') (tops th)) (thrs s)) in
     CInv s' /\ is_kind KPool (absf s) (bottom fr i) = true /\
     absf s' = cset (absf s) (bottom fr i) (match fr with [] => new | _ => gval (cf s) (bottom fr i) end)).
Proof.
  intros s t th fr i c n I Ht Hs Hh Hn old new.
  destruct (upd_split _ _ _ _ Ht) as (l1 & l2 & E & L & U).
  pose proof (shape_cf s I) as Sh.
  pose proof (held_false _ _ Hh) as NI.
  pose proof (ciChain s I t th Ht) as CH. rewrite Hs in CH.
  assert (Go: gval (cf s) i = old) by (unfold gval; rewrite Hn; auto).
  assert (Li: i < length (cf s)) by (apply nth_error_Some; congruence).
  assert (Ff: frames_of th = fr) by (unfold frames_of; rewrite Hs; auto).
  assert (Uf: up_frames th = fr) by (unfold up_frames; rewrite Hs; auto).
  set (f' := setv i new (cf s)).
  assert (SK: map skel f' = map skel (cf s)) by apply setv_skel.
  assert (AG: forall u thu y, nth_error (thrs s) u = Some thu -> In y (frames_of thu) -> gval f' (fidx y) = gval (cf s) (fidx y)).
  { intros u thu y Hu Iy. unfold f'. apply gval_setv_neq. intros Ei. apply NI. rewrite <- Ei. apply in_map. eapply in_frames_all; eauto. }
  assert (OTH: forall th' u thu, nth_error (upd t th' (thrs s)) u = Some thu -> u <> t ->
            match tst thu with TUp fr0 i0 c0 => chain_ok f' fr0 i0 c0 | TDown _ => True end).
  { intros th' u thu Hu Nu. rewrite U in Hu. destruct (nth_error_mid _ _ _ _ _ _ _ Hu L) as [[-> _]|[_ F]]; try congruence.
    specialize (F th). rewrite <- E in F. pose proof (ciChain s I u thu F) as C. destruct (tst thu) as [fr0 i0 c0|] eqn:Et; auto.
    eapply chain_ok_agree; eauto. intros y Iy. apply (AG u thu); auto. unfold frames_of. rewrite Et. auto. }
  assert (CHt: chain_ok f' fr i c).
  { eapply chain_ok_agree; eauto. intros y Iy. apply (AG t th); auto. rewrite Ff. auto. }
  pose proof (ciND s I) as ND. unfold all_frames in ND, NI. rewrite E, flat_mid, Ff in ND, NI.
  set (F1 := flat_map frames_of l1) in *. set (F2 := flat_map frames_of l2) in *.
  assert (NDpush: NoDup (map fidx (F1 ++ (mkFrame i old :: fr) ++ F2))).
  { rewrite map_app. simpl. eapply Permutation_NoDup. apply Permutation_middle. constructor.
    - rewrite <- map_app. auto.
    - rewrite <- map_app. auto. }
  assert (NIu: ~ In i (map fidx (flat_map up_frames l1 ++ fr ++ flat_map up_frames l2))).
  { intros J. apply NI. apply in_map_iff in J. destruct J as (y & Ey & J). apply in_map_iff. exists y. split; auto.
    apply in_app_or in J. apply in_or_app. destruct J as [J|J]. left. apply all_up_sub; auto.
    right. apply in_app_or in J. apply in_or_app. destruct J as [J|J]; auto. right. apply all_up_sub; auto. }
  set (U1 := flat_map up_frames l1) in *. set (U2 := flat_map up_frames l2) in *.
  assert (AU: all_up s = U1 ++ fr ++ U2) by (unfold all_up; rewrite E, flat_mid, Uf; auto).
  split.
  - (* push *)
    intros p c' Hneq Hpc s'. destruct (parent_call_spec _ _ _ _ _ _ _ Hn Hpc) as (Pp & D).
    assert (A: absf s' = absf s).
    { unfold absf at 1. unfold all_up, s'. cbn [cf thrs]. rewrite U, flat_mid. unfold up_frames at 2. cbn [tst]. fold U1 U2.
      unfold absf. rewrite AU. rewrite (restore_app U1), (restore_app U1). f_equal.
      assert (NJ: ~ In i (map fidx (fr ++ U2))).
      { intros J. apply NIu. rewrite map_app. apply in_or_app. right. auto. }
      change (({| fidx := i; fold_ := old |} :: fr) ++ U2) with ({| fidx := i; fold_ := old |} :: (fr ++ U2)).
      cbn [restore fold_right fidx fold_]. fold (restore (fr ++ U2) f'). unfold f'.
      rewrite restore_setv_comm by auto. rewrite setv_setv.
      rewrite <- Go. rewrite <- (gval_restore_notin (fr ++ U2) (cf s) i) by auto. apply setv_id. }
    split; auto. constructor.
    + rewrite A. apply (ciG s I).
    + intros u thu Hu. destruct (Nat.eq_dec u t) as [->|Nu]; [|eapply OTH; [exact Hu|auto]].
      cbn [thrs s'] in Hu. rewrite U in Hu. rewrite nth_error_app2 in Hu by lia. replace (t - length l1) with 0 in Hu by lia.
      simpl in Hu. inversion Hu; subst thu. cbn [tst cf s']. fold f'. simpl.
      assert (Gn: gval f' i = new) by (unfold f'; apply gval_setv_eq; auto).
      rewrite Gn. rewrite <- (parent_of_skel _ _ _ SK) in Pp.
      split; [auto|]. split; [apply Z.eqb_neq; auto|]. split.
      { destruct D as [D|(D1 & D2 & D3)]; [left; auto | right; repeat split; auto]. }
      exists c. split; auto.
    + unfold all_frames, s'. cbn [thrs]. rewrite U, flat_mid. unfold frames_of at 2. cbn [tst]. fold F1 F2. auto.
  - (* top of the chain *)
    intros fr' Hc s'.
    assert (Ptop: (gval (cf s) i =? new)%Z = true \/ match parent_of (cf s) i with None => True | Some _ => gval (cf s) i <> 0%Z /\ new <> 0%Z end).
    { rewrite Go. destruct Hc as [[H _]|(H1 & H2 & _)]; auto. right. eapply parent_call_none; eauto. }
    set (B := restore (U1 ++ U2) (cf s)).
    assert (NDu: NoDup (map fidx (all_up s))) by (apply nodup_up; apply (ciND s I)).
    assert (Ab: absf s = restore fr B).
    { unfold absf, B. rewrite AU. rewrite <- restore_app. apply restore_perm. apply Permutation_app_swap_app. rewrite <- AU. auto. }
    rewrite AU in NDu. rewrite !map_app in NDu.
    assert (Dfr: forall y, In y fr -> ~ In (fidx y) (map fidx (U1 ++ U2))).
    { intros y Iy J. rewrite map_app in J.
      destruct (NoDup_app_inv _ _ _ NDu) as (_ & N2 & D1). destruct (NoDup_app_inv _ _ _ N2) as (_ & _ & D2).
      apply in_app_or in J. destruct J as [J|J].
      - apply (D1 _ J). apply in_or_app. left. apply in_map; auto.
      - apply (D2 (fidx y)); auto. apply in_map; auto. }
    assert (NiB: ~ In i (map fidx (U1 ++ U2))).
    { intros J. apply NIu. rewrite !map_app in *. apply in_app_or in J. apply in_or_app. destruct J; auto. right. apply in_or_app. auto. }
    assert (SKB: map skel B = map skel (cf s)) by apply restore_skel.
    assert (ShB: Shape B) by (eapply shape_skel; eauto).
    assert (CHB: chain_ok B fr i c).
    { eapply chain_ok_agree; eauto. intros y Iy. apply gval_restore_notin. auto. }
    assert (GB: gval B i = gval (cf s) i) by (apply gval_restore_notin; auto).
    assert (A': absf s' = setv i new B).
    { unfold absf, all_up, s'. cbn [cf thrs]. rewrite U, flat_mid. unfold up_frames at 2. cbn [tst]. simpl. fold U1 U2.
      apply restore_setv_comm. auto. }
    assert (LB: length B = length (cf s)) by apply restore_length.
    assert (BL: bottom fr i < length (absf s)).
    { rewrite Ab, restore_length. eapply is_kind_lt. eapply chain_bottom_pool; eauto. }
    assert (BV: botval B fr i c = match fr with [] => new | _ => gval (cf s) (bottom fr i) end).
    { unfold botval. destruct fr as [|x r]. rewrite GB, Go. auto.
      apply gval_restore_notin. destruct (proj1 (in_map_iff fidx (x :: r) (bottom (x :: r) i)) (bottom_in (x :: r) i ltac:(discriminate))) as (y & Ey & Iy).
      rewrite <- Ey. auto. }
    assert (CS: cset (absf s) (bottom fr i) (botval B fr i c) = setv i new B).
    { unfold cset. rewrite Ab at 2. rewrite replay; auto. rewrite GB, Go. fold new. apply notify_top. lia.
      rewrite GB. rewrite (parent_of_skel _ _ _ SKB). auto. }
    split; [constructor|split].
    + rewrite A', <- CS. apply cset_inv. apply (ciG s I). rewrite Ab, is_kind_restore. eapply chain_bottom_pool; eauto.
    + intros u thu Hu. destruct (Nat.eq_dec u t) as [->|Nu]; [|eapply OTH; [exact Hu|auto]].
      cbn [thrs s'] in Hu. rewrite U in Hu. rewrite nth_error_app2 in Hu by lia. replace (t - length l1) with 0 in Hu by lia.
      simpl in Hu. inversion Hu; subst thu. simpl. auto.
    + unfold all_frames, s'. cbn [thrs]. rewrite U, flat_mid. unfold frames_of at 2. cbn [tst]. fold F1 F2.
      destruct Hc as [[_ ->]|(_ & _ & ->)]; auto.
    + rewrite Ab, is_kind_restore. eapply chain_bottom_pool; eauto.
    + rewrite <- BV, CS. auto.
Qed.

(* ---------- every step preserves the invariant and is a stutter or one atomic cset of the linearised forest ---------- *)
Lemma cstep_inv : forall s t s', CInv s -> cstep false s t = Some s' -> CInv s' /\ lin_ok s t s'.
Proof.
  intros s t s' I H. unfold cstep in H. unfold lin_ok, lin_step.
  destruct (nth_error (thrs s) t) as [th|] eqn:Ht; try discriminate.
  destruct (tst th) as [fr i c|fr] eqn:Hs.
  - destruct (held s i) eqn:Hh; try discriminate. destruct (nth_error (cf s) i) as [n|] eqn:Hn; try discriminate.
    destruct (up_step s t th fr i c n I Ht Hs Hh Hn) as [PUSH TOP]. cbv zeta in PUSH, TOP.
    assert (Go: gval (cf s) i = nval n) by (unfold gval; rewrite Hn; auto).
    destruct (nval n =? apply_call c (nval n))%Z eqn:Eo.
    + inversion H; subst s'. clear H.
      destruct (TOP fr (or_introl (conj eq_refl eq_refl))) as (I' & K & A).
      assert (Ecf: setv i (apply_call c (nval n)) (cf s) = cf s).
      { apply Z.eqb_eq in Eo. rewrite <- Eo, <- Go. apply setv_id. }
      rewrite Ecf in I', A. split; auto. right. simpl. eauto.
    + destruct (parent_call n (nval n) (apply_call c (nval n))) as [[p c']|] eqn:Hp.
      * inversion H; subst s'. clear H. destruct (PUSH p c' eq_refl eq_refl) as (I' & A). split; auto.
      * inversion H; subst s'. clear H.
        destruct (TOP _ (or_intror (conj eq_refl (conj eq_refl eq_refl)))) as (I' & K & A). split; auto. right. simpl. eauto.
  - destruct fr as [|x fr].
    + destruct (tops th) as [|[p c] r] eqn:Ho; try discriminate. destruct (is_kind KPool (cf s) p) eqn:K; try discriminate.
      inversion H; subst s'. clear H.
      destruct (quiet_step s t th (mkThr (TUp [] p c) r) I Ht) as (I' & A); auto.
      * unfold up_frames. rewrite Hs. reflexivity.
      * exists []. unfold frames_of. rewrite Hs. reflexivity.
    + inversion H; subst s'. clear H.
      destruct (quiet_step s t th (mkThr (TDown fr) (tops th)) I Ht) as (I' & A); auto.
      * unfold up_frames. rewrite Hs. reflexivity.
      * exists [x]. unfold frames_of. rewrite Hs. reflexivity.
      * simpl. auto.
Qed.

Lemma cinit_inv : forall f0 progs, GInv f0 -> CInv (cinit f0 progs) /\ absf (cinit f0 progs) = f0.
Proof.
  intros f0 progs G.
  assert (U: forall l : list (list (nat * call)), flat_map up_frames (map (mkThr (TDown [])) l) = []) by (induction l; simpl; auto).
  assert (F: forall l : list (list (nat * call)), flat_map frames_of (map (mkThr (TDown [])) l) = []) by (induction l; simpl; auto).
  assert (A: absf (cinit f0 progs) = f0) by (unfold absf, all_up, cinit; simpl; rewrite U; reflexivity).
  split; auto. constructor.
  - rewrite A. auto.
  - intros t th H. unfold cinit in H. simpl in H. apply nth_error_In in H. apply in_map_iff in H. destruct H as (x & <- & _). simpl. auto.
  - unfold all_frames, cinit. simpl. rewrite F. constructor.
Qed.

(* every schedule: the linearised forest of the reached state is the result of the ATOMIC model of Group.v on the linearisation *)
Theorem conc_refines : forall sched s0 s, CInv s0 -> crun false s0 sched = Some s ->
  CInv s /\ grun (absf s0) (lin false s0 sched) = Some (absf s).
Proof.
  induction sched as [|t r IH]; intros s0 s I H; simpl in *.
  - inversion H; subst. auto.
  - destruct (cstep false s0 t) as [s1|] eqn:E; try discriminate.
    destruct (cstep_inv _ _ _ I E) as (I1 & L). destruct (IH _ _ I1 H) as (I2 & G). split; auto.
    destruct L as [[L A]|(p & v & L & K & A)]; rewrite L; simpl.
    + rewrite <- A. auto.
    + rewrite K, <- A. auto.
Qed.

Lemma grun_app : forall a f f' b, grun f a = Some f' -> grun f (a ++ b) = grun f' b.
Proof. induction a as [|o a IH]; simpl; intros f f' b H. inversion H; auto. destruct (gstep f o); try discriminate. eauto. Qed.

(* what an observer's zero read means *)
Lemma wait_sound : forall s g, CInv s -> is_kind KGroup (cf s) g = true -> reads_zero s g = true ->
  forall i, is_kind KPool (cf s) i = true -> below (cf s) i g ->
    gval (absf s) i = 0%Z /\ (in_flight s i = false -> gval (cf s) i = 0%Z).
Proof.
  intros s g I K R i Ki B. unfold reads_zero in R. apply andb_prop in R. destruct R as [Hh Z].
  apply negb_true_iff in Hh. apply Z.eqb_eq in Z.
  assert (SK: map skel (absf s) = map skel (cf s)) by apply restore_skel.
  assert (Ng: ~ In g (map fidx (all_up s))).
  { intros J. apply (held_false _ _ Hh). apply in_map_iff in J. destruct J as (y & E & J). apply in_map_iff. exists y. split; auto. apply all_up_sub; auto. }
  assert (Za: gval (absf s) g = 0%Z) by (unfold absf; rewrite gval_restore_notin; auto).
  assert (A: gval (absf s) i = 0%Z).
  { apply (proj1 (group_zero_iff (absf s) (ciG s I) g ltac:(rewrite (is_kind_skel _ _ _ _ SK); auto)) Za).
    rewrite (is_kind_skel _ _ _ _ SK); auto. eapply below_skel; eauto. }
  split; auto. intros F. rewrite <- A. unfold absf. symmetry. apply gval_restore_notin.
  intros J. apply in_map_iff in J. destruct J as (y & E & J). unfold in_flight in F.
  assert (existsb (fun x => fidx x =? i) (all_up s) = true). { apply existsb_exists. exists y. split; auto. apply Nat.eqb_eq; auto. }
  congruence.
Qed.

Theorem group_wait_sound : forall ops0 f0 progs sched s g,
  grun [] ops0 = Some f0 -> crun false (cinit f0 progs) sched = Some s ->
  is_kind KGroup (cf s) g = true -> reads_zero s g = true ->
  grun [] (ops0 ++ lin false (cinit f0 progs) sched) = Some (absf s) /\
  (forall i, is_kind KPool (cf s) i = true -> below (cf s) i g ->
     gval (absf s) i = 0%Z /\ (in_flight s i = false -> gval (cf s) i = 0%Z)) /\
  (forall j, held s j = false -> gval (cf s) j = gval (absf s) j).
Proof.
  intros ops0 f0 progs sched s g G0 R K Z.
  pose proof (grun_inv _ _ _ ginv_nil G0) as GI. destruct (cinit_inv f0 progs GI) as (I0 & A0).
  destruct (conc_refines _ _ _ I0 R) as (I & L). rewrite A0 in L. split; [|split].
  - rewrite (grun_app _ _ _ _ G0). auto.
  - apply wait_sound; auto.
  - intros j Hj. unfold absf. symmetry. apply gval_restore_notin. intros J. apply (held_false _ _ Hj).
    apply in_map_iff in J. destruct J as (y & E & J). apply in_map_iff. exists y. split; auto. apply all_up_sub; auto.
Qed.

(* ---------- the variant that releases the valueMutex before it calls the subscribers ---------- *)
(* root 0 > group 1 > pool 2; two submitters to pool 2.  Thread 0 publishes 0 -> 1 and is delayed before it tells group 1;
   thread 1's Submit (1 -> 2, nobody is told) RETURNS: its task is accepted.  The root reads idle. *)
Definition refF0 : forest := [mkNode KGroup None None 0; mkNode KGroup (Some 0) (Some 0) 0; mkNode KPool (Some 1) None 0].
Definition refProgs : list (list (nat * call)) := [[(2, CUpd 1)]; [(2, CUpd 1)]].
Definition refSched : list nat := [0; 0; 1; 1].

Theorem group_wait_refuted_unlock_first :
  exists s, grun [] [GNewGroup; GCreateGroup 0; GCreatePool 1] = Some refF0 /\
    crun true (cinit refF0 refProgs) refSched = Some s /\
    is_kind KGroup (cf s) 0 = true /\ reads_zero s 0 = true /\ reads_zero s 1 = true /\
    is_kind KPool (cf s) 2 = true /\ below (cf s) 2 0 /\
    in_flight s 2 = false /\ held s 2 = false /\ gval (cf s) 2 = 2%Z /\
    nth_error (thrs s) 1 = Some (mkThr (TDown []) []).
Proof.
  eexists. split; [reflexivity|]. split; [vm_compute; reflexivity|].
  repeat split; try reflexivity.
  apply below_up with 1. reflexivity. apply below_direct. reflexivity.
Qed.

(* the same schedule on the code as it is: thread 1 cannot even read the pool counter before thread 0's chain is at its top *)
Example group_wait_sound_same_schedule : crun false (cinit refF0 refProgs) refSched = None /\
  exists s, crun false (cinit refF0 refProgs) [0; 0; 0; 0; 1] = Some s /\ map nval (cf s) = [1; 1; 1]%Z /\ reads_zero s 0 = false /\
            map nval (absf s) = [1; 1; 1]%Z.
Proof. split. reflexivity. eexists. split. vm_compute. reflexivity. repeat split; reflexivity. Qed.

(* non-vacuity: a state in the middle of a chain in which an observer does read zero at the root while the pool's value is
   already written (held, invisible): the linearised forest is still all zero *)
Example group_wait_sound_nonvacuous :
  exists s, crun false (cinit refF0 refProgs) [0; 0; 0] = Some s /\ map nval (cf s) = [0; 1; 1]%Z /\ reads_zero s 0 = true /\
            in_flight s 2 = true /\ map nval (absf s) = [0; 0; 0]%Z /\ lin false (cinit refF0 refProgs) [0; 0; 0] = [].
Proof. eexists. split. vm_compute. reflexivity. repeat split; reflexivity. Qed.
