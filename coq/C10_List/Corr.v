(* Correspondence for C10: a case is a history (the twelve calls and iterations with scripted callbacks,
   Model.call) over [c_nl] lists together with what the real
   ds.List (both flavours; they agreed in the harness, as did container/list) returned and showed after
   every call: per list Len/Front/Back/Values/reverse Values, per allocated handle Prev/Next/Value. *)
From Coq Require Import ZArith List Bool Arith Uint63.
From Verif.C10_List Require Import Model.
Import ListNotations.
Open Scope Z_scope.

(* Observations are written flat, as one list of Z per step (big structured literals are slow to parse):
   a pointer is -1000000 for nil, n for El n, -(l+1) for Root l;
   per list: Len, Front, Back, |Values|, Values..., |reverse Values|, reverse Values...;
   then per allocated handle El 0 .. El (fresh-1): Prev, Next, Value.
   s_out = None: the call panicked (then it is the last step and nothing else is compared); for an iteration
   s_out = CIter (the values handed to the callback, in order) (aborted with the callback's error?);
   s_hang: the thread-safe flavour did not return within the watchdog (= the lock model says TBlocked);
   s_fp = true: s_flat holds only the two fingerprints [fp 1000003 17; fp 69069 23] of the flat list
   (Coq parses ~10^4 numerals per second, so most cases carry fingerprints and a share the full list) *)
Record sobs := so { s_out : option cout; s_hang : bool; s_fp : bool; s_flat : list Z }.
(* c_ts: the thread-safe flavour took part (not in histories whose callbacks write the iterated list: there
   only the lock-free flavour and container/list ran, and s_hang is not compared) *)
Record case := mkc { c_nl : nat; c_ts : bool; c_hist : list call; c_obs : list sobs }.

Definition out_eqb (a b : out) : bool :=
  match a, b with
  | ONone, ONone => true
  | OList x, OList y => Nat.eqb x y
  | OHandle x, OHandle y => optptr_eqb x y
  | OVal x, OVal y => x =? y
  | _, _ => false
  end.

Fixpoint zlist_eqb (a b : list Z) : bool :=
  match a, b with
  | [], [] => true
  | x :: a', y :: b' => (x =? y) && zlist_eqb a' b'
  | _, _ => false
  end.

Definition cout_eqb (a b : cout) : bool :=
  match a, b with
  | COut x, COut y => out_eqb x y
  | CIter v1 b1, CIter v2 b2 => zlist_eqb v1 v2 && Bool.eqb b1 b2
  | _, _ => false
  end.

Definition enc_ptr (p : option ptr) : Z :=
  match p with
  | None => -1000000
  | Some (El n) => Z.of_nat n
  | Some (Root l) => - Z.of_nat (S l)
  end.

Definition lobs_of st l : list Z :=
  [len st l; enc_ptr (front st l); enc_ptr (back st l)]
  ++ Z.of_nat (length (values st l)) :: values st l
  ++ Z.of_nat (length (values_rev st l)) :: values_rev st l.
Definition hobs_of st n : list Z :=
  [enc_ptr (elem_prev st (El n)); enc_ptr (elem_next st (El n)); value_of st (El n)].

Definition flat_obs (nl : nat) st : list Z :=
  concat (map (lobs_of st) (seq 0 nl)) ++ concat (map (hobs_of st) (seq 0 (fresh st))).

(* multiplicative hash modulo 2^63 on primitive integers (fast under vm_compute); the top 30 bits are kept *)
Definition fp (mul start : Z) (xs : list Z) : Z :=
  let m := Uint63.of_Z mul in
  Uint63.to_Z (Uint63.lsr (fold_left (fun h x => Uint63.add (Uint63.mul h m) (Uint63.of_Z (x + 2000000))) xs (Uint63.of_Z start)) 33%uint63).

Definition obs_eqb (nl : nat) st (ob : sobs) : bool :=
  let f := flat_obs nl st in
  if s_fp ob then zlist_eqb [fp 1000003 17 f; fp 69069 23 f] (s_flat ob) else zlist_eqb f (s_flat ob).

Definition blocked {A} (r : tres A) : bool := match r with TBlocked => true | TDone _ _ => false end.
Definition locks_after {A} (k : locks) (r : tres A) : locks := match r with TBlocked => k | TDone _ k1 => k1 end.

(* the lock state of the thread-safe world is threaded through the history (it stays lk0 as long as every
   method releases what it took); the outcome and the observations are those of the lock-free model, which
   the harness found equal in both flavours *)
Fixpoint agree (nl : nat) (ts : bool) (k : locks) st (h : list call) (obs : list sobs) : bool :=
  match h, obs with
  | [], [] => true
  | o :: r, ob :: obs' =>
      let t := cstep_ts k st o in
      (negb ts || Bool.eqb (blocked t) (s_hang ob)) &&
      match cstep st o, s_out ob with
      | None, None => match r with [] => true | _ => false end
      | Some (st1, o1), Some o0 => cout_eqb o1 o0 && obs_eqb nl st1 ob && agree nl ts (locks_after k t) st1 r obs'
      | _, _ => false
      end
  | _, _ => false
  end.

Fixpoint mismatches_from (i : nat) (cs : list case) : list nat :=
  match cs with
  | [] => []
  | c :: r => if agree (c_nl c) (c_ts c) lk0 init_state (c_hist c) (c_obs c) then mismatches_from (S i) r
              else i :: mismatches_from (S i) r
  end.

Definition mismatches (cs : list case) : list nat := mismatches_from 0 cs.
