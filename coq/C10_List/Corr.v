(* Correspondence for C10: a case is an operation history over [c_nl] lists together with what the real
   ds.List (both flavours; they agreed in the harness, as did container/list) returned and showed after
   every call: per list Len/Front/Back/Values/reverse Values, per allocated handle Prev/Next/Value. *)
From Coq Require Import ZArith List Bool Arith.
From Verif.C10_List Require Import Model.
Import ListNotations.
Open Scope Z_scope.

Record lobs := lo { lo_len : Z; lo_front : option ptr; lo_back : option ptr; lo_vals : list Z; lo_rvals : list Z }.
Record hobs := ho { ho_prev : option ptr; ho_next : option ptr; ho_val : Z }.
(* s_out = None: the call panicked (then it is the last step and nothing else is compared);
   s_hang: the thread-safe flavour did not return within the watchdog *)
Record sobs := so { s_out : option out; s_hang : bool; s_lists : list lobs; s_handles : list hobs }.
Record case := mkc { c_nl : nat; c_hist : list op; c_obs : list sobs }.

Definition out_eqb (a b : out) : bool :=
  match a, b with
  | ONone, ONone => true
  | OList x, OList y => Nat.eqb x y
  | OHandle x, OHandle y => optptr_eqb x y
  | OVal x, OVal y => x =? y
  | _, _ => false
  end.

Fixpoint zlist_eqb (a b : list Z) : bool :=
  match a, b with
  | [], [] => true
  | x :: a', y :: b' => (x =? y) && zlist_eqb a' b'
  | _, _ => false
  end.

Definition lobs_of st l : lobs := lo (len st l) (front st l) (back st l) (values st l) (values_rev st l).
Definition lobs_eqb (a b : lobs) : bool :=
  (lo_len a =? lo_len b) && optptr_eqb (lo_front a) (lo_front b) && optptr_eqb (lo_back a) (lo_back b)
  && zlist_eqb (lo_vals a) (lo_vals b) && zlist_eqb (lo_rvals a) (lo_rvals b).
Definition hobs_of st n : hobs := ho (elem_prev st (El n)) (elem_next st (El n)) (value_of st (El n)).
Definition hobs_eqb (a b : hobs) : bool :=
  optptr_eqb (ho_prev a) (ho_prev b) && optptr_eqb (ho_next a) (ho_next b) && (ho_val a =? ho_val b).

Fixpoint all2 {A} (f : A -> A -> bool) (a b : list A) : bool :=
  match a, b with
  | [], [] => true
  | x :: a', y :: b' => f x y && all2 f a' b'
  | _, _ => false
  end.

Definition obs_eqb (nl : nat) st (ob : sobs) : bool :=
  all2 lobs_eqb (map (lobs_of st) (seq 0 nl)) (s_lists ob)
  && all2 hobs_eqb (map (hobs_of st) (seq 0 (fresh st))) (s_handles ob).

Definition hangs (r : res) : bool := match r with Deadlock => true | Done _ => false end.

Fixpoint agree (nl : nat) st (h : list op) (obs : list sobs) : bool :=
  match h, obs with
  | [], [] => true
  | o :: r, ob :: obs' =>
      Bool.eqb (hangs (step_ts st o)) (s_hang ob) &&
      match step st o, s_out ob with
      | None, None => match r with [] => true | _ => false end
      | Some (st1, o1), Some o0 => out_eqb o1 o0 && obs_eqb nl st1 ob && agree nl st1 r obs'
      | _, _ => false
      end
  | _, _ => false
  end.

Fixpoint mismatches_from (i : nat) (cs : list case) : list nat :=
  match cs with
  | [] => []
  | c :: r => if agree (c_nl c) init_state (c_hist c) (c_obs c) then mismatches_from (S i) r
              else i :: mismatches_from (S i) r
  end.

Definition mismatches (cs : list case) : list nat := mismatches_from 0 cs.
