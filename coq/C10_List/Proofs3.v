(* C10 - the iteration methods (ForEach / ForEachReverse / Range / RangeReverse with callbacks that call back
   into the lists or abort) refine the reference loop over container/list, for every script; and the
   thread-safe wrapper releases every lock it takes on every exit path. *)
From Coq Require Import ZArith List Bool Arith Lia Permutation.
From Verif.C10_List Require Import Model Ring Proofs Proofs2.
Import ListNotations.
Close Scope Z_scope.

(* ==== which elements a list holds after a call: old members of the same list, or new elements ==== *)
Lemma in_ins_after : forall m e xs x, In x (ins_after m e xs) -> x = e \/ In x xs.
Proof.
  induction xs as [|y r IH]; simpl; intros x H; auto.
  destruct (Nat.eqb y m); simpl in H.
  - destruct H as [H|[H|H]]; auto.
  - destruct H as [H|H]; auto. apply IH in H. tauto.
Qed.
Lemma in_ins_before : forall m e xs x, In x (ins_before m e xs) -> x = e \/ In x xs.
Proof.
  induction xs as [|y r IH]; simpl; intros x H; auto.
  destruct (Nat.eqb y m); simpl in H.
  - destruct H as [H|[H|H]]; auto.
  - destruct H as [H|H]; auto. apply IH in H. tauto.
Qed.

Lemma hmem_In : forall p xs n, hmem p xs = Some n -> p = El n /\ In n xs.
Proof.
  intros [r|k] xs n H; simpl in H; [discriminate|].
  destruct (mem k xs) eqn:E; inversion H; subst. split; auto. apply mem_In; auto.
Qed.

Lemma alist_aset : forall a l xs l', alist (aset a l xs) l' = if Nat.eqb l' l then xs else alist a l'.
Proof. intros. reflexivity. Qed.

Lemma acopy_back_old : forall vs a l l' x,
  In x (alist (acopy_back a l vs) l') -> In x (alist a l') \/ afresh a <= x.
Proof.
  induction vs as [|v r IH]; simpl; intros a l l' x H; auto.
  apply IH in H. simpl in H. destruct H as [H|H]; [|right; lia].
  unfold updn in H. destruct (Nat.eqb l' l) eqn:E; auto.
  apply Nat.eqb_eq in E; subst. apply in_app_or in H. destruct H as [H|[H|[]]]; auto. right; lia.
Qed.
Lemma acopy_front_old : forall vs a l l' x,
  In x (alist (acopy_front a l vs) l') -> In x (alist a l') \/ afresh a <= x.
Proof.
  induction vs as [|v r IH]; simpl; intros a l l' x H; auto.
  apply IH in H. simpl in H. destruct H as [H|H]; [|right; lia].
  unfold updn in H. destruct (Nat.eqb l' l) eqn:E; auto.
  apply Nat.eqb_eq in E; subst. destruct H as [H|H]; auto. right; lia.
Qed.

Lemma updn_in : forall (f : nat -> list nat) l xs l' x,
  In x (updn f l xs l') -> (l' = l /\ In x xs) \/ In x (f l').
Proof.
  intros f l xs l' x H. unfold updn in H. destruct (Nat.eqb l' l) eqn:E; auto.
  apply Nat.eqb_eq in E; auto.
Qed.

Theorem astep_members_old : forall a o l' x,
  In x (alist (fst (astep a o)) l') -> In x (alist a l') \/ afresh a <= x.
Proof.
  intros a o l' x H. destruct o; simpl in H.
  - apply updn_in in H. destruct H as [[_ []]|H]; auto.
  - apply updn_in in H. destruct H as [[E [H|H]]|H]; subst; auto.
  - apply updn_in in H. destruct H as [[E H]|H]; subst; auto.
    apply in_app_or in H. destruct H as [H|[H|[]]]; subst; auto.
  - destruct (hmem e (alist a l)) as [n|] eqn:E; simpl in H; auto.
    apply updn_in in H. destruct H as [[E' H]|H]; subst; auto. apply in_rem in H. tauto.
  - destruct (hmem m (alist a l)) as [n|] eqn:E; simpl in H; auto.
    apply updn_in in H. destruct H as [[E' H]|H]; subst; auto.
    apply in_ins_before in H. destruct H as [H|H]; subst; auto.
  - destruct (hmem m (alist a l)) as [n|] eqn:E; simpl in H; auto.
    apply updn_in in H. destruct H as [[E' H]|H]; subst; auto.
    apply in_ins_after in H. destruct H as [H|H]; subst; auto.
  - destruct (hmem e (alist a l)) as [n|] eqn:E; simpl in H; auto.
    apply hmem_In in E. destruct E as [_ E].
    apply updn_in in H. destruct H as [[E' [H|H]]|H]; subst; auto. apply in_rem in H. tauto.
  - destruct (hmem e (alist a l)) as [n|] eqn:E; simpl in H; auto.
    apply hmem_In in E. destruct E as [_ E].
    apply updn_in in H. destruct H as [[E' H]|H]; subst; auto.
    apply in_app_or in H. destruct H as [H|[H|[]]]; subst; auto. apply in_rem in H. tauto.
  - destruct (hmem e (alist a l)) as [n|] eqn:E; simpl in H; auto.
    destruct (hmem m (alist a l)) as [k|] eqn:E2; simpl in H; auto.
    destruct (Nat.eqb n k); simpl in H; auto.
    apply hmem_In in E. destruct E as [_ E].
    apply updn_in in H. destruct H as [[E' H]|H]; subst; auto.
    apply in_ins_before in H. destruct H as [H|H]; subst; auto. apply in_rem in H. tauto.
  - destruct (hmem e (alist a l)) as [n|] eqn:E; simpl in H; auto.
    destruct (hmem m (alist a l)) as [k|] eqn:E2; simpl in H; auto.
    destruct (Nat.eqb n k); simpl in H; auto.
    apply hmem_In in E. destruct E as [_ E].
    apply updn_in in H. destruct H as [[E' H]|H]; subst; auto.
    apply in_ins_after in H. destruct H as [H|H]; subst; auto. apply in_rem in H. tauto.
  - apply acopy_back_old in H. auto.
  - apply acopy_front_old in H. auto.
Qed.

(* ==== the passive rest of a walk ==== *)
Lemma adv_spec : forall st a l rv n, R st a -> In n (dir rv (alist a l)) ->
  adv rv st (El n) = option_map El (succ_of n (dir rv (alist a l))).
Proof.
  intros st a l rv n HR Hin. destruct rv; simpl in *.
  - apply in_rev in Hin. destruct (handle_obs_refines st a l n HR Hin) as (_ & H & _). exact H.
  - destruct (handle_obs_refines st a l n HR Hin) as (H & _ & _). exact H.
Qed.

Lemma from_split : forall n A B, ~ In n A -> from n (A ++ n :: B) = n :: B.
Proof.
  induction A as [|x A IH]; simpl; intros B H.
  - rewrite Nat.eqb_refl. reflexivity.
  - destruct (Nat.eqb x n) eqn:E; [apply Nat.eqb_eq in E; subst; exfalso; auto|]. apply IH. auto.
Qed.

Lemma succ_of_notin : forall n xs, ~ In n xs -> succ_of n xs = None.
Proof.
  induction xs as [|x r IH]; intros H; [reflexivity|].
  destruct r as [|y r']; [reflexivity|].
  change (succ_of n (x :: y :: r')) with (if Nat.eqb x n then Some y else succ_of n (y :: r')).
  destruct (Nat.eqb x n) eqn:E; [apply Nat.eqb_eq in E; subst; exfalso; apply H; left; auto|].
  apply IH. intro; apply H; right; auto.
Qed.

Lemma succ_of_In : forall n xs m, succ_of n xs = Some m -> In m xs.
Proof.
  induction xs as [|x r IH]; intros m H; [discriminate|].
  destruct r as [|y r']; [discriminate|].
  change (succ_of n (x :: y :: r')) with (if Nat.eqb x n then Some y else succ_of n (y :: r')) in H.
  destruct (Nat.eqb x n); [inversion H; subst; right; left; auto|]. right. apply IH. exact H.
Qed.

Lemma walk_none : forall nx fuel st, walk nx fuel st None = [].
Proof. intros nx [|f] st; reflexivity. Qed.

Lemma walk_from : forall st rv xs, NoDup xs ->
  (forall n, In n xs -> adv rv st (El n) = option_map El (succ_of n xs)) ->
  forall B A n fuel, xs = A ++ n :: B -> length B < fuel ->
  walk (adv rv) fuel st (Some (El n)) = map (fun k => value_of st (El k)) (n :: B).
Proof.
  intros st rv xs Hnd Hnx. induction B as [|b B IH]; intros A n fuel Hsp Hf.
  - destruct fuel as [|f]; [simpl in Hf; lia|]. simpl. f_equal.
    rewrite Hnx by (rewrite Hsp; apply in_or_app; right; left; auto).
    rewrite Hsp. rewrite succ_of_split.
    + simpl. apply walk_none.
    + rewrite Hsp in Hnd. apply NoDup_remove_2 in Hnd. intro; apply Hnd. apply in_or_app; auto.
  - destruct fuel as [|f]; [simpl in Hf; lia|].
    change (walk (adv rv) (S f) st (Some (El n))) with (value_of st (El n) :: walk (adv rv) f st (adv rv st (El n))).
    change (map (fun k => value_of st (El k)) (n :: b :: B))
      with (value_of st (El n) :: map (fun k => value_of st (El k)) (b :: B)).
    f_equal.
    rewrite Hnx by (rewrite Hsp; apply in_or_app; right; left; auto).
    assert (Hn : ~ In n A).
    { rewrite Hsp in Hnd. apply NoDup_remove_2 in Hnd. intro; apply Hnd. apply in_or_app; auto. }
    rewrite Hsp at 1. rewrite succ_of_split by exact Hn. simpl hd_error. simpl option_map.
    apply (IH (A ++ [n])).
    + rewrite Hsp. rewrite <- app_assoc. reflexivity.
    + simpl in Hf. lia.
Qed.

Lemma NoDup_dir : forall rv xs, NoDup xs -> NoDup (dir rv xs).
Proof. intros [|] xs H; simpl; auto. apply NoDup_rev. exact H. Qed.
Lemma in_dir : forall rv xs n, In n (dir rv xs) <-> In n xs.
Proof. intros [|] xs n; simpl; [symmetry; apply in_rev | tauto]. Qed.
Lemma length_dir : forall rv xs, length (dir rv xs) = length xs.
Proof. intros [|] xs; simpl; auto. apply rev_length. Qed.

Lemma passive_tail : forall st a l rv e, R st a ->
  (forall n, e = Some n -> In n (alist a l)) ->
  walk (adv rv) (S (S (fresh st))) st (option_map El e)
  = match e with None => [] | Some n => map (aval a) (from n (dir rv (alist a l))) end.
Proof.
  intros st a l rv [n|] HR He; [|reflexivity].
  assert (Hin : In n (dir rv (alist a l))) by (apply in_dir; apply He; reflexivity).
  destruct (in_split _ _ Hin) as (A & B & Hsp).
  pose proof (NoDup_dir rv _ (R_nodup _ _ HR l)) as Hnd.
  simpl option_map.
  rewrite (walk_from st rv (dir rv (alist a l)) Hnd (fun k Hk => adv_spec st a l rv k HR Hk) B A n _ Hsp).
  - rewrite Hsp. rewrite from_split.
    + apply map_ext. intro k. apply (R_val _ _ HR (El k)).
    + rewrite Hsp in Hnd. apply NoDup_remove_2 in Hnd. intro; apply Hnd. apply in_or_app; auto.
  - rewrite (R_fresh _ _ HR).
    pose proof (NoDup_bounded_length (alist a l) (afresh a) (R_nodup _ _ HR l) (fun x => R_lt _ _ HR x l)) as Hb.
    assert (length (dir rv (alist a l)) = length A + S (length B)) by (rewrite Hsp, app_length; reflexivity).
    rewrite length_dir in H. lia.
Qed.

(* ==== one round of the loop ==== *)
Lemma rel_ptr_arel : forall st a l n r, R st a -> In n (alist a l) -> rel_ptr st (El n) r = arel a l n r.
Proof.
  intros st a l n r HR Hin. destruct (handle_obs_refines st a l n HR Hin) as (H1 & H2 & _).
  destruct r; simpl; auto.
Qed.

Lemma cb_op_with_ext : forall f g a, (forall r, f r = g r) -> cb_op_with f a = cb_op_with g a.
Proof. intros f g a H. destruct a; simpl; rewrite ?H; reflexivity. Qed.

Lemma cb_op_acb_op : forall st a l n act, R st a -> In n (alist a l) -> cb_op st (El n) act = acb_op a l n act.
Proof. intros. apply cb_op_with_ext. intro r. eapply rel_ptr_arel; eauto. Qed.

(* after the callback's call the element the walk stands on is still where it was, or in no list at all *)
Lemma cursor_after_step : forall st a o st1 n l rv,
  R st a -> R st1 (fst (astep a o)) -> In n (alist a l) -> ~ In n (aorph (fst (astep a o))) ->
  adv rv st1 (El n) = option_map El (succ_of n (dir rv (alist (fst (astep a o)) l))).
Proof.
  intros st a o st1 n l rv HR HR1 Hin Ho.
  destruct (in_dec Nat.eq_dec n (alist (fst (astep a o)) l)) as [Hin1|Hnin1].
  - apply adv_spec; auto. apply in_dir; auto.
  - rewrite succ_of_notin by (rewrite in_dir; exact Hnin1). simpl.
    assert (Hno : forall l', ~ In n (alist (fst (astep a o)) l')).
    { intros l' Hl'. destruct (astep_members_old a o l' n Hl') as [Hold|Hnew].
      - pose proof (R_own_in _ _ HR _ _ Hold) as E1. pose proof (R_own_in _ _ HR _ _ Hin) as E2.
        rewrite E1 in E2. inversion E2; subst. contradiction.
      - pose proof (R_lt _ _ HR _ _ Hin). lia. }
    destruct (removed_handle_nil st1 _ n HR1 Ho Hno) as [H1 H2]. destruct rv; simpl; auto.
Qed.

Theorem iter_refines : forall rv fe l script st a e,
  R st a -> (forall n, e = Some n -> In n (alist a l)) ->
  iter_zombie_free rv fe script a l e = true ->
  exists st', iter_walk step_state rv fe script st (option_map El e)
              = Some (st', snd (fst (aiter rv fe script a l e)), snd (aiter rv fe script a l e))
           /\ R st' (fst (fst (aiter rv fe script a l e))).
Proof.
  intros rv fe l. induction script as [|act rest IH]; intros st a e HR He Hz.
  - cbn [iter_walk aiter fst snd]. rewrite (passive_tail st a l rv e HR He). eexists; split; [reflexivity | exact HR].
  - destruct e as [n|]; [|simpl; eexists; split; [reflexivity | exact HR]].
    assert (Hin : In n (alist a l)) by (apply He; reflexivity).
    simpl in Hz. simpl. rewrite (R_val _ _ HR (El n)). simpl aval_of.
    destruct (fe && is_abort act) eqn:Eab.
    + simpl. eexists; split; [reflexivity | exact HR].
    + rewrite (cb_op_acb_op st a l n act HR Hin).
      apply andb_true_iff in Hz. destruct Hz as [Hz Hz3].
      apply andb_true_iff in Hz. destruct Hz as [Hz Hz2].
      apply andb_true_iff in Hz. destruct Hz as [Hz0 Hz1].
      apply negb_true_iff in Hz0. apply negb_true_iff in Hz1. apply negb_true_iff in Hz2.
      rewrite Hz0.
      destruct (acb_op a l n act) as [o|] eqn:Eo.
      * destruct (step_refines_full st a o HR Hz1) as (st1 & Hs & HR1).
        unfold step_state at 1. rewrite Hs. simpl option_map. simpl bind.
        assert (Ho : ~ In n (aorph (fst (astep a o)))).
        { intro X. apply mem_In in X. congruence. }
        rewrite (cursor_after_step st a o st1 n l rv HR HR1 Hin Ho).
        destruct (IH st1 (fst (astep a o)) (succ_of n (dir rv (alist (fst (astep a o)) l))) HR1) as (st' & Hw & HR').
        { intros m Hm. apply succ_of_In in Hm. apply in_dir in Hm. exact Hm. }
        { exact Hz3. }
        rewrite Hw. simpl. eexists; split; [reflexivity | exact HR'].
      * simpl bind.
        rewrite (adv_spec st a l rv n HR) by (apply in_dir; exact Hin).
        destruct (IH st a (succ_of n (dir rv (alist a l))) HR) as (st' & Hw & HR').
        { intros m Hm. apply succ_of_In in Hm. apply in_dir in Hm. exact Hm. }
        { exact Hz3. }
        rewrite Hw. simpl. eexists; split; [reflexivity | exact HR'].
Qed.

(* ==== histories over the twelve calls and the four iteration methods ==== *)
Definition crefines_step st a c :=
  exists st', cstep st c = Some (st', snd (acstep a c)) /\ R st' (fst (acstep a c)).

Lemma hd_error_In : forall (xs : list nat) n, hd_error xs = Some n -> In n xs.
Proof. intros [|x r] n H; inversion H; subst; left; auto. Qed.

Lemma first_spec : forall st a l rv, R st a -> first rv st l = option_map El (hd_error (dir rv (alist a l))).
Proof.
  intros st a l rv HR. destruct (obs_all_refines st a l HR) as (_ & Hf & Hb & _).
  destruct rv; simpl; rewrite <- hd_ptr_hd_error; auto.
Qed.

Theorem cstep_refines : forall st a c, R st a -> call_zombie_free a c = true -> crefines_step st a c.
Proof.
  intros st a c HR Hz. destruct c as [o | l rv fe script]; unfold crefines_step; simpl in *.
  - apply negb_true_iff in Hz. destruct (step_refines_full st a o HR Hz) as (st1 & Hs & HR1).
    rewrite Hs. simpl. eexists; split; [reflexivity | exact HR1].
  - rewrite (first_spec st a l rv HR).
    destruct (iter_refines rv fe l script st a (hd_error (dir rv (alist a l))) HR) as (st' & Hw & HR'); auto.
    { intros n Hn. apply hd_error_In in Hn. apply in_dir in Hn. exact Hn. }
    rewrite Hw. simpl. eexists; split; [reflexivity | exact HR'].
Qed.

Theorem crun_refines : forall h st a,
  R st a -> czombie_free a h = true ->
  exists st', crun st h = Some (st', snd (acrun a h)) /\ R st' (fst (acrun a h)).
Proof.
  induction h as [|c h IH]; intros st a HR Hz.
  - simpl. eexists; split; [reflexivity | exact HR].
  - cbn [czombie_free] in Hz. apply andb_true_iff in Hz. destruct Hz as [Hz1 Hz2].
    destruct (cstep_refines st a c HR Hz1) as (st1 & Hs & HR1).
    destruct (IH st1 (fst (acstep a c)) HR1 Hz2) as (st2 & Hr & HR2).
    cbn [crun acrun]. rewrite Hs. cbn [bind fst snd]. rewrite Hr. cbn [bind fst snd].
    eexists; split; [reflexivity | exact HR2].
Qed.

Theorem crun_refines_observed : forall h,
  czombie_free ainit h = true ->
  exists st', crun init_state h = Some (st', snd (acrun ainit h)) /\
              R st' (fst (acrun ainit h)) /\ observed_equal st' (fst (acrun ainit h)).
Proof.
  intros h Hz. destruct (crun_refines h init_state ainit R_init Hz) as (st' & Hr & HR).
  exists st'. split; [exact Hr | split; [exact HR | apply R_observed; exact HR]].
Qed.

(* the visit sequence alone, for one iteration from any represented state *)
Corollary iter_visits_reference : forall st a l rv fe script,
  R st a -> call_zombie_free a (Iter l rv fe script) = true ->
  option_map snd (cstep st (Iter l rv fe script)) = Some (snd (acstep a (Iter l rv fe script))).
Proof.
  intros st a l rv fe script HR Hz. destruct (cstep_refines st a _ HR Hz) as (st' & Hs & _).
  rewrite Hs. reflexivity.
Qed.

(* ==== the thread-safe wrapper: every method releases what it took, on every exit path ==== *)
Lemma remove1_head : forall l xs, remove1 l (l :: xs) = xs.
Proof. intros. simpl. rewrite Nat.eqb_refl. reflexivity. Qed.

Lemma wunlock_wlock : forall k l, wunlock (wlock k l) l = k.
Proof. intros [r w] l. unfold wunlock, wlock. simpl rd. simpl wr. rewrite remove1_head. reflexivity. Qed.
Lemma runlock_rlock : forall k l, runlock (rlock k l) l = k.
Proof. intros [r w] l. unfold runlock, rlock. simpl rd. simpl wr. rewrite remove1_head. reflexivity. Qed.

Lemma op_ts_releases : forall fixed k st o r k1, op_ts fixed k st o = TDone r k1 -> k1 = k.
Proof.
  intros fixed k st o r k1 H. unfold op_ts in H.
  destruct (negb (can_lock k (op_list o))); [discriminate|].
  match type of H with (if negb ?b then _ else _) = _ => destruct b end; simpl in H; [|discriminate].
  inversion H. apply wunlock_wlock.
Qed.

Lemma iter_walk_ts_releases : forall rv fe script k st e r k1,
  iter_walk_ts k rv fe script st e = TDone r k1 -> k1 = k.
Proof.
  intros rv fe. induction script as [|a rest IH]; intros k st e r k1 H.
  - simpl in H. inversion H; reflexivity.
  - cbn [iter_walk_ts] in H. destruct e as [p|]; [|inversion H; reflexivity].
    destruct (fe && is_abort a); [inversion H; reflexivity|].
    destruct (is_panic a); [inversion H; reflexivity|].
    destruct (cb_op st p a) as [o|].
    + destruct (op_ts true k st o) as [[[st1 ou]|] k2|] eqn:E; try discriminate.
      * apply op_ts_releases in E. subst k2.
        destruct (iter_walk_ts k rv fe rest st1 (adv rv st1 p)) as [[r2|] k3|] eqn:E2; try discriminate;
          apply IH in E2; inversion H; subst; reflexivity.
      * apply op_ts_releases in E. inversion H; subst; reflexivity.
    + destruct (iter_walk_ts k rv fe rest st (adv rv st p)) as [[r2|] k3|] eqn:E2; try discriminate;
        apply IH in E2; inversion H; subst; reflexivity.
Qed.

(* whatever the call does - return, return the callback's error, panic - the lock state is the one before *)
Theorem cstep_ts_releases : forall k st c r k1, cstep_ts k st c = TDone r k1 -> k1 = k.
Proof.
  intros k st c r k1 H. unfold cstep_ts, cstep_ts_gen in H. destruct c as [o | l rv fe script].
  - destruct (op_ts true k st o) as [r2 k2|] eqn:E; [|discriminate]. apply op_ts_releases in E. inversion H; subst; reflexivity.
  - destruct (negb (can_rlock k l)); [discriminate|].
    destruct (iter_walk_ts (rlock k l) rv fe script st (first rv st l)) as [r2 k2|] eqn:E; [|discriminate].
    apply iter_walk_ts_releases in E. subst k2.
    assert (Hrel : release deferred r2 = true) by (destruct r2 as [[[? ?] [|]]|]; reflexivity).
    rewrite Hrel in H. inversion H. apply runlock_rlock.
Qed.

Theorem crun_ts_releases : forall h k st r k1, crun_ts k st h = TDone r k1 -> k1 = k.
Proof.
  induction h as [|c h IH]; intros k st r k1 H.
  - simpl in H. inversion H; reflexivity.
  - unfold crun_ts in H. cbn [crun_ts_gen] in H. fold cstep_ts in H.
    destruct (cstep_ts k st c) as [[s1|] k2|] eqn:E; try discriminate.
    + apply cstep_ts_releases in E. subst k2. fold crun_ts in H.
      destruct (crun_ts k (fst s1) h) as [[s2|] k3|] eqn:E2; try discriminate;
        apply IH in E2; inversion H; subst; reflexivity.
    + apply cstep_ts_releases in E. inversion H; subst; reflexivity.
Qed.

(* ==== the thread-safe flavour equals the lock-free one (sequential caller; callbacks do not write the
   list being iterated) ==== *)
Lemma mem_cons : forall n x xs, mem n (x :: xs) = Nat.eqb n x || mem n xs.
Proof. reflexivity. Qed.

Lemma op_ts_plain : forall k st o, wr k = [] -> mem (op_list o) (rd k) = false ->
  op_ts true k st o = TDone (step st o) k.
Proof.
  intros k st o Hw Hr. unfold op_ts. unfold can_lock. rewrite Hw, Hr. simpl.
  assert (Hin : match o with
    | PushBackList _ o' | PushFrontList _ o' =>
        match other_ref true (op_list o) o' with TS o'' => can_rlock (wlock k (op_list o)) o'' | Inner _ => true end
    | _ => true end = true).
  { destruct o; auto; unfold other_ref, can_rlock, wlock; simpl; rewrite Hw;
      destruct (Nat.eqb o l) eqn:E; simpl; auto; rewrite E; reflexivity. }
  rewrite Hin. simpl. rewrite wunlock_wlock. reflexivity.
Qed.

Lemma cb_op_list : forall res a o, cb_op_with res a = Some o -> cb_list a = Some (op_list o).
Proof.
  intros res a o H. destruct a; simpl in *; try discriminate.
  - destruct back; inversion H; reflexivity.
  - destruct (res r); inversion H; reflexivity.
  - destruct (res r); inversion H; destruct after; reflexivity.
  - destruct (res r); inversion H; destruct back; reflexivity.
  - destruct (res r); simpl in H; [|discriminate]. destruct (res m); inversion H; destruct after; reflexivity.
  - destruct back; inversion H; reflexivity.
  - inversion H; reflexivity.
Qed.

Definition script_avoids (script : list cbact) (held : list nat) : Prop :=
  forall a l', In a script -> cb_list a = Some l' -> mem l' held = false.

Lemma iter_walk_ts_plain : forall rv fe script k st e, wr k = [] -> script_avoids script (rd k) ->
  iter_walk_ts k rv fe script st e = TDone (iter_walk step_state rv fe script st e) k.
Proof.
  intros rv fe. induction script as [|a rest IH]; intros k st e Hw Hs.
  - reflexivity.
  - assert (Hs' : script_avoids rest (rd k)) by (intros b l' Hb; apply Hs; right; auto).
    cbn [iter_walk_ts iter_walk]. destruct e as [p|]; [|reflexivity].
    destruct (fe && is_abort a); [reflexivity|].
    destruct (is_panic a); [reflexivity|].
    destruct (cb_op st p a) as [o|] eqn:Eo.
    + rewrite op_ts_plain; auto.
      2:{ apply (Hs a); [left; auto|]. unfold cb_op in Eo. apply cb_op_list in Eo. exact Eo. }
      unfold step_state at 1. destruct (step st o) as [[st1 ou]|]; [|reflexivity].
      cbn [option_map fst bind]. rewrite IH by auto.
      destruct (iter_walk step_state rv fe rest st1 (adv rv st1 p)); reflexivity.
    + cbn [bind]. rewrite IH by auto.
      destruct (iter_walk step_state rv fe rest st (adv rv st p)); reflexivity.
Qed.

Lemma ts_safe_avoids : forall l script,
  forallb (fun a => negb (optnat_eqb (cb_list a) (Some l))) script = true -> script_avoids script [l].
Proof.
  intros l script H a l' Ha El'. rewrite forallb_forall in H. specialize (H a Ha). rewrite El' in H.
  simpl in H. simpl. rewrite orb_false_r. apply negb_true_iff in H. exact H.
Qed.

Theorem cts_equals_plain : forall st c, ts_safe c = true -> cstep_ts lk0 st c = TDone (cstep st c) lk0.
Proof.
  intros st c Hs. unfold cstep_ts, cstep_ts_gen. destruct c as [o | l rv fe script].
  - rewrite op_ts_plain by reflexivity. simpl. destruct (step st o) as [[? ?]|]; reflexivity.
  - simpl can_rlock. cbn [negb mem existsb wr lk0].
    rewrite iter_walk_ts_plain; [| reflexivity | apply ts_safe_avoids; exact Hs].
    assert (Hrel : release deferred (iter_walk step_state rv fe script st (first rv st l)) = true)
      by (destruct (iter_walk step_state rv fe script st (first rv st l)) as [[[? ?] [|]]|]; reflexivity).
    rewrite Hrel. rewrite runlock_rlock. simpl.
    destruct (iter_walk step_state rv fe script st (first rv st l)) as [[[? ?] ?]|]; reflexivity.
Qed.

Theorem crun_ts_equals_plain : forall h st, forallb ts_safe h = true -> crun_ts lk0 st h = TDone (crun st h) lk0.
Proof.
  induction h as [|c h IH]; intros st Hs; [reflexivity|].
  simpl in Hs. apply andb_true_iff in Hs. destruct Hs as [H1 H2].
  unfold crun_ts. cbn [crun_ts_gen crun]. fold cstep_ts. rewrite (cts_equals_plain st c H1).
  destruct (cstep st c) as [s1|]; [|reflexivity]. fold crun_ts. rewrite (IH (fst s1) H2). cbn [bind].
  destruct (crun (fst s1) h); reflexivity.
Qed.

(* ... and why ts_safe is needed: under the iteration's read lock every one of the twelve calls on the same
   list blocks for ever (sync.RWMutex is not re-entrant) *)
Theorem reentrant_write_blocks : forall fixed k st o, mem (op_list o) (rd k) = true -> op_ts fixed k st o = TBlocked.
Proof. intros fixed k st o H. unfold op_ts, can_lock. rewrite H. rewrite andb_false_r. reflexivity. Qed.

(* the lock model can tell a wrapper that keeps the read lock when the callback's error is returned:
   [1 2 3]; ForEach aborted at the second element; PushBack *)
Definition abort_then_push : list call :=
  [Call (PushBack 0 1%Z); Call (PushBack 0 2%Z); Call (PushBack 0 3%Z); Iter 0 false true [CNop; CAbort]; Call (PushBack 0 5%Z)].
Lemma abort_then_push_ok :
  forallb ts_safe abort_then_push = true /\
  option_map (fun r => (values (fst r) 0, nth 3 (snd r) (CIter [] false))) (crun init_state abort_then_push)
    = Some ([1; 2; 3; 5]%Z, CIter [1; 2]%Z true) /\
  crun_ts_gen (rp true false true) lk0 init_state abort_then_push = TBlocked.
Proof. split; [|split]; vm_compute; reflexivity. Qed.

(* ... and one that skips the unlock when the callback panics: the panic leaves the read lock behind *)
Lemma panic_path_ok :
  crun_ts_gen (rp true true false) lk0 init_state [Call (PushBack 0 1%Z); Iter 0 false false [CPanic]] = TDone None (lk [0] []) /\
  crun_ts lk0 init_state [Call (PushBack 0 1%Z); Iter 0 false false [CPanic]] = TDone None lk0.
Proof. split; vm_compute; reflexivity. Qed.

(* non-vacuity of the refinement: callbacks that push behind the last element, remove the visited element,
   remove its successor, insert behind it, move it; reverse walks; aborts *)
Definition sample_iter_history : list call :=
  [Call (PushBack 0 1%Z); Call (PushBack 0 2%Z); Call (PushBack 0 3%Z);
   Iter 0 false false [CNop; CNop; CPush true 0 4%Z];
   Iter 0 false false [CNop; CRemove 0 Cur];
   Iter 0 false true [CRemove 0 Nxt; CInsert true 0 7%Z Cur; CAbort];
   Iter 0 true true [CNop; CMove true 0 Cur Prv; CPushList true 1 0];
   Call (PushBackList 0 1); Iter 1 true false [CPush false 1 9%Z; CRemove 0 (Abs (El 0))]].
Lemma sample_iter_history_ok :
  czombie_free ainit sample_iter_history = true /\
  snd (acrun ainit sample_iter_history) =
    [COut (OHandle (Some (El 0))); COut (OHandle (Some (El 1))); COut (OHandle (Some (El 2)));
     CIter [1; 2; 3; 4]%Z false; CIter [1; 2]%Z false; CIter [1; 4; 7]%Z true; CIter [7; 4; 1]%Z false;
     COut ONone; CIter [7; 4; 1; 9]%Z false] /\
  option_map snd (crun init_state sample_iter_history) = Some (snd (acrun ainit sample_iter_history)).
Proof. split; [|split]; vm_compute; reflexivity. Qed.
