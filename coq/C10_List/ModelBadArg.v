(* C10, round 5: PANICKING ARGUMENTS of the thread-safe wrapper (executable model; proofs in ProofsBadArg.v).
   The handle / list / callback arguments of the Go methods range over more than [ptr]: a nil interface, a
   ListElement or List implementation of the caller, a nil callback. The inner method then panics at its type
   assertion (ds/list_impl.go: "unsupported ListElement type"; resp. at the first use of the nil list / callback)
   BEFORE it touches the ring: the call has no result and the state is unchanged. The caller may recover and go on,
   as with container/list. What such a call can still do is keep the lock it took. *)
From Coq Require Import ZArith List Bool.
From Verif.C10_List Require Import Model.
Import ListNotations.

(* [XBad l w]: a call of a method of list l with a panicking argument; w = the method takes the write lock (the
   nine handle / whole-list mutators) - else the read lock (the four iteration methods with a nil callback). *)
Inductive xcall := XCall (c : call) | XBad (l : nat) (w : bool).

(* the wrapper method: lock; [deferred unlock, or not: pol]; inner method panics *)
Definition xstep_ts_gen (pol : relpolicy) (k : locks) st (x : xcall) : tres (state * cout) :=
  match x with
  | XCall c => cstep_ts_gen pol k st c
  | XBad l true =>
      if negb (can_lock k l) then TBlocked else
      let k1 := wlock k l in TDone None (if rel_panic pol then wunlock k1 l else k1)
  | XBad l false =>
      if negb (can_rlock k l) then TBlocked else
      let k1 := rlock k l in TDone None (if rel_panic pol then runlock k1 l else k1)
  end.
Definition xstep_ts := xstep_ts_gen deferred.

(* a caller that recovers from the panic of a bad argument and goes on (result None in the output list); a panic
   out of an ordinary call - a callback's - ends the history as in crun_ts *)
Fixpoint xrun_ts_gen (pol : relpolicy) (k : locks) st (h : list xcall) : tres (state * list (option cout)) :=
  match h with
  | [] => TDone (Some (st, [])) k
  | XBad l w :: r =>
      match xstep_ts_gen pol k st (XBad l w) with
      | TBlocked => TBlocked
      | TDone _ k1 =>
          match xrun_ts_gen pol k1 st r with
          | TBlocked => TBlocked
          | TDone None k2 => TDone None k2
          | TDone (Some s2) k2 => TDone (Some (fst s2, None :: snd s2)) k2
          end
      end
  | XCall c :: r =>
      match cstep_ts_gen pol k st c with
      | TBlocked => TBlocked
      | TDone None k1 => TDone None k1
      | TDone (Some s1) k1 =>
          match xrun_ts_gen pol k1 (fst s1) r with
          | TBlocked => TBlocked
          | TDone None k2 => TDone None k2
          | TDone (Some s2) k2 => TDone (Some (fst s2, Some (snd s1) :: snd s2)) k2
          end
      end
  end.
Definition xrun_ts := xrun_ts_gen deferred.

(* the same history on the lock-free flavour (= on container/list, by C10_refines): the recovered panic changes nothing *)
Fixpoint xrun st (h : list xcall) : option (state * list (option cout)) :=
  match h with
  | [] => Some (st, [])
  | XBad _ _ :: r => s2 <- xrun st r ;; Some (fst s2, None :: snd s2)
  | XCall c :: r => s1 <- cstep st c ;; s2 <- xrun (fst s1) r ;; Some (fst s2, Some (snd s1) :: snd s2)
  end.

Definition xsafe (x : xcall) : bool := match x with XCall c => ts_safe c | XBad _ _ => true end.

(* [1]; Remove(nil) recovered; PushBack(2) *)
Definition bad_remove_then_push : list xcall :=
  [XCall (Call (PushBack 0 1%Z)); XBad 0 true; XCall (Call (PushBack 0 2%Z))].
