(* C10 - rings of pointers: the linked structure behind one list, and what unlink/link do to it. *)
From Coq Require Import ZArith List Bool Arith Lia Permutation.
From Verif.C10_List Require Import Model.
Import ListNotations.

Lemma ptr_eqb_eq : forall a b, ptr_eqb a b = true <-> a = b.
Proof.
  intros [x|x] [y|y]; simpl; split; intro H; try discriminate; try congruence.
  - apply Nat.eqb_eq in H; congruence.
  - inversion H; apply Nat.eqb_refl.
  - apply Nat.eqb_eq in H; congruence.
  - inversion H; apply Nat.eqb_refl.
Qed.
Lemma ptr_eqb_refl : forall a, ptr_eqb a a = true.
Proof. intro a; apply ptr_eqb_eq; reflexivity. Qed.
Lemma ptr_eqb_neq : forall a b, a <> b -> ptr_eqb a b = false.
Proof. intros a b H; destruct (ptr_eqb a b) eqn:E; auto. apply ptr_eqb_eq in E; contradiction. Qed.
Lemma ptr_eq_dec : forall a b : ptr, {a = b} + {a <> b}.
Proof. intros a b; destruct (ptr_eqb a b) eqn:E; [left; apply ptr_eqb_eq; auto | right; intro H; apply ptr_eqb_eq in H; congruence]. Qed.

Lemma upd_same : forall A (f : ptr -> A) k v, upd f k v k = v.
Proof. intros; unfold upd; rewrite ptr_eqb_refl; reflexivity. Qed.
Lemma upd_other : forall A (f : ptr -> A) k v x, x <> k -> upd f k v x = f x.
Proof. intros; unfold upd; rewrite ptr_eqb_neq; auto. Qed.
Lemma updn_same : forall A (f : nat -> A) k v, updn f k v k = v.
Proof. intros; unfold updn; rewrite Nat.eqb_refl; reflexivity. Qed.
Lemma updn_other : forall A (f : nat -> A) k v x, x <> k -> updn f k v x = f x.
Proof. intros; unfold updn. destruct (Nat.eqb x k) eqn:E; auto. apply Nat.eqb_eq in E; contradiction. Qed.

(* a --> x1 --> ... --> xn --> b, doubly linked *)
Fixpoint chain (nx pv : ptr -> option ptr) (a : ptr) (xs : list ptr) (b : ptr) : Prop :=
  match xs with
  | [] => nx a = Some b /\ pv b = Some a
  | x :: r => nx a = Some x /\ pv x = Some a /\ chain nx pv x r b
  end.

Definition ringf (nx pv : ptr -> option ptr) (ps : list ptr) : Prop :=
  match ps with [] => True | a :: r => chain nx pv a r a end.
Definition ring st ps := ringf (nxt st) (prv st) ps.

Lemma chain_app : forall nx pv xs a y ys b,
  chain nx pv a (xs ++ y :: ys) b <-> chain nx pv a xs y /\ chain nx pv y ys b.
Proof.
  induction xs as [|x xs IH]; intros; simpl.
  - tauto.
  - rewrite IH. tauto.
Qed.

Lemma chain_frame : forall nx pv nx' pv' xs a b,
  (forall p, In p (a :: xs) -> nx' p = nx p) ->
  (forall p, In p (xs ++ [b]) -> pv' p = pv p) ->
  chain nx pv a xs b -> chain nx' pv' a xs b.
Proof.
  induction xs as [|x xs IH]; intros a b Hn Hp H; simpl in *.
  - destruct H as [H1 H2]. rewrite Hn, Hp; auto.
  - destruct H as (H1 & H2 & H3). rewrite Hn, Hp by auto. repeat split; auto.
    all: try (apply IH; auto; intros p Hin; apply Hn; simpl in *; tauto).
Qed.

Lemma ringf_rot : forall nx pv xs ys, ringf nx pv (xs ++ ys) -> ringf nx pv (ys ++ xs).
Proof.
  intros nx pv [|a xs] [|y ys] H; simpl in *; rewrite ?app_nil_r in *; auto.
  apply chain_app in H. apply chain_app. tauto.
Qed.

(* reading the neighbours of a ring member *)
Lemma ringf_next_head : forall nx pv a R, ringf nx pv (a :: R) -> nx a = Some (hd a R).
Proof. intros nx pv a [|r R] H; simpl in *; tauto. Qed.

Lemma last_indep : forall (R : list ptr) a x y, last (a :: R) x = last (a :: R) y.
Proof.
  induction R as [|b R IH]; intros; [reflexivity|].
  change (last (a :: b :: R) x) with (last (b :: R) x).
  change (last (a :: b :: R) y) with (last (b :: R) y). apply IH.
Qed.
Lemma last_cons_default : forall (R : list ptr) r x, last (r :: R) x = last R r.
Proof.
  intros [|b R] r x; [reflexivity|].
  change (last (r :: b :: R) x) with (last (b :: R) x). apply last_indep.
Qed.

Lemma chain_prev_end : forall nx pv R x b, chain nx pv x R b -> pv b = Some (last R x).
Proof.
  induction R as [|r R IH]; intros x b H.
  - simpl in *. tauto.
  - rewrite last_cons_default. simpl in H. destruct H as (_ & _ & H). apply IH; auto.
Qed.

Lemma ringf_prev_head : forall nx pv a R, ringf nx pv (a :: R) -> pv a = Some (last R a).
Proof. intros nx pv a R H. simpl in H. eapply chain_prev_end; eauto. Qed.

(* ---- explicit forms of link / unlink ---- *)
Lemma link_explicit : forall st e at_ n0,
  e <> at_ -> nxt st at_ = Some n0 ->
  link st e at_ = Some (mk (upd (upd (nxt st) e (Some n0)) at_ (Some e))
                           (upd (upd (prv st) e (Some at_)) n0 (Some e))
                           (own st) (val st) (len st) (fresh st)).
Proof.
  intros st e at_ n0 Hne Hn. unfold link, set_prv, set_nxt; simpl.
  rewrite upd_same. simpl. rewrite Hn.
  rewrite (upd_other _ _ _ _ e) by auto. rewrite upd_same. simpl. reflexivity.
Qed.

Lemma unlink_explicit : forall st e p0 n0,
  e <> p0 -> prv st e = Some p0 -> nxt st e = Some n0 ->
  unlink st e = Some (mk (upd (nxt st) p0 (Some n0)) (upd (prv st) n0 (Some p0))
                         (own st) (val st) (len st) (fresh st)).
Proof.
  intros st e p0 n0 Hne Hp Hn. unfold unlink, set_prv, set_nxt; simpl.
  rewrite Hp; simpl. rewrite upd_other by auto. rewrite Hn; simpl. reflexivity.
Qed.

(* ---- link at the head of a ring ---- *)
Lemma link_head : forall st e at_ R,
  ring st (at_ :: R) -> NoDup (at_ :: R) -> ~ In e (at_ :: R) ->
  exists st', link st e at_ = Some st' /\ ring st' (at_ :: e :: R) /\
    own st' = own st /\ val st' = val st /\ len st' = len st /\ fresh st' = fresh st /\
    (forall p, ~ In p (e :: at_ :: R) -> nxt st' p = nxt st p /\ prv st' p = prv st p).
Proof.
  intros st e at_ R Hr Hnd Hnin.
  assert (Hne : e <> at_) by (intro; subst; apply Hnin; left; auto).
  pose proof (ringf_next_head _ _ _ _ Hr) as Hn.
  eexists; split; [apply link_explicit; eauto|].
  split; [|repeat split; simpl; auto].
  - unfold ring in *; simpl. destruct R as [|r1 R']; simpl in *.
    + destruct Hr as [H1 H2].
      rewrite upd_same. rewrite (upd_other _ _ _ _ e) by auto. rewrite !upd_same.
      rewrite (upd_other _ _ _ _ e) by auto. rewrite upd_same. auto.
    + destruct Hr as (H1 & H2 & H3).
      apply NoDup_cons_iff in Hnd. destruct Hnd as [Ha Hnd'].
      apply NoDup_cons_iff in Hnd'. destruct Hnd' as [Hr1 _].
      assert (Her : e <> r1) by (intro; subst; apply Hnin; right; left; auto).
      assert (Har : at_ <> r1) by (intro; subst; apply Ha; left; auto).
      rewrite upd_same. rewrite (upd_other _ _ _ _ e) by auto. rewrite !upd_same.
      rewrite (upd_other _ _ _ _ e) by auto. rewrite upd_same.
      repeat split; auto.
      eapply chain_frame; [| |exact H3].
      * intros p Hp. rewrite !upd_other; auto.
        -- intro; subst. apply Hnin. right. exact Hp.
        -- intro; subst. apply Ha. exact Hp.
      * intros p Hp. apply in_app_or in Hp. rewrite !upd_other; auto.
        -- intro; subst. destruct Hp as [Hp|[Hp|[]]]; [apply Hnin; right; right; auto | subst; auto].
        -- intro; subst. destruct Hp as [Hp|[Hp|[]]]; [auto | subst; auto].
  - rewrite !upd_other; auto; intro; subst; apply H; simpl; auto.
  - rewrite !upd_other; auto; intro; subst; apply H; simpl; auto.
    destruct R; simpl; auto.
Qed.

(* ---- unlink at the head of a ring with at least one other member ---- *)
Lemma unlink_head : forall st e R,
  ring st (e :: R) -> R <> [] -> NoDup (e :: R) ->
  exists st', unlink st e = Some st' /\ ring st' R /\
    own st' = own st /\ val st' = val st /\ len st' = len st /\ fresh st' = fresh st /\
    nxt st' e = nxt st e /\ prv st' e = prv st e /\
    (forall p, ~ In p R -> nxt st' p = nxt st p /\ prv st' p = prv st p).
Proof.
  intros st e R Hr Hne Hnd.
  destruct (@exists_last _ R Hne) as [R0 [p0 E]]. subst R.
  pose proof (ringf_next_head _ _ _ _ Hr) as Hn.
  pose proof (ringf_prev_head _ _ _ _ Hr) as Hp. rewrite last_last in Hp.
  apply NoDup_cons_iff in Hnd. destruct Hnd as [He Hnd'].
  assert (Hep : e <> p0) by (intro; subst; apply He; apply in_or_app; right; left; auto).
  assert (Hhd : In (hd e (R0 ++ [p0])) (R0 ++ [p0])) by (destruct R0; simpl; auto).
  eexists; split; [eapply unlink_explicit; eauto|].
  unfold ring in *; simpl in Hr. apply chain_app in Hr. destruct Hr as [Hc Hl]. simpl in Hl.
  split; [|repeat split; simpl; auto].
  - destruct R0 as [|r1 R1]; simpl in *.
    + destruct Hc as [H1 H2]. rewrite !upd_same. auto.
    + destruct Hc as (H1 & H2 & H3). apply chain_app. simpl.
      apply NoDup_cons_iff in Hnd'. destruct Hnd' as [Hr1 Hnd''].
      assert (Hrp : r1 <> p0) by (intro; subst; apply Hr1; apply in_or_app; right; left; auto).
      rewrite !upd_same. repeat split; auto.
      eapply chain_frame; [| |exact H3].
      * intros p Hin. rewrite upd_other; auto. intro; subst.
        destruct Hin as [Hin|Hin]; [congruence|].
        apply NoDup_remove_2 in Hnd''. apply Hnd''. rewrite app_nil_r. auto.
      * intros p Hin. rewrite upd_other; auto. intro; subst. apply Hr1. exact Hin.
  - apply upd_other. intro; subst. auto.
  - apply upd_other. intro Hx. apply He. rewrite Hx. exact Hhd.
  - apply upd_other. intro; subst. apply H. apply in_or_app; right; left; auto.
  - apply upd_other. intro; subst. apply H. exact Hhd.
Qed.

(* ---- the same anywhere in the ring, by rotation ---- *)
Lemma NoDup_rot : forall (A B : list ptr), NoDup (A ++ B) -> NoDup (B ++ A).
Proof.
  intros A B H. eapply Permutation.Permutation_NoDup; [|exact H]. apply Permutation.Permutation_app_comm.
Qed.

Lemma link_ring : forall st e at_ A B,
  ring st (A ++ at_ :: B) -> NoDup (A ++ at_ :: B) -> ~ In e (A ++ at_ :: B) ->
  exists st', link st e at_ = Some st' /\ ring st' (A ++ at_ :: e :: B) /\
    own st' = own st /\ val st' = val st /\ len st' = len st /\ fresh st' = fresh st /\
    (forall p, ~ In p (e :: A ++ at_ :: B) -> nxt st' p = nxt st p /\ prv st' p = prv st p).
Proof.
  intros st e at_ A B Hr Hnd Hnin.
  apply ringf_rot in Hr. apply NoDup_rot in Hnd. simpl in Hr, Hnd.
  destruct (link_head st e at_ (B ++ A) Hr Hnd) as (st' & H1 & H2 & H3 & H4 & H5 & H6 & H7).
  { intro Hx. apply Hnin. simpl in Hx. apply in_or_app. destruct Hx as [Hx|Hx]; [right; left; auto|].
    apply in_app_or in Hx. destruct Hx; [right; right; auto | left; auto]. }
  exists st'. repeat split; auto.
  - change (at_ :: e :: B ++ A) with ((at_ :: e :: B) ++ A) in H2. apply ringf_rot in H2. exact H2.
  - apply H7. intro Hx. apply H. simpl in *. destruct Hx as [Hx|[Hx|Hx]]; auto.
    right. apply in_or_app. right; left; auto.
    right. apply in_or_app. apply in_app_or in Hx. destruct Hx; [right; right; auto | left; auto].
  - apply H7. intro Hx. apply H. simpl in *. destruct Hx as [Hx|[Hx|Hx]]; auto.
    right. apply in_or_app. right; left; auto.
    right. apply in_or_app. apply in_app_or in Hx. destruct Hx; [right; right; auto | left; auto].
Qed.

Lemma unlink_ring : forall st e A B,
  ring st (A ++ e :: B) -> NoDup (A ++ e :: B) -> A ++ B <> [] ->
  exists st', unlink st e = Some st' /\ ring st' (A ++ B) /\
    own st' = own st /\ val st' = val st /\ len st' = len st /\ fresh st' = fresh st /\
    nxt st' e = nxt st e /\ prv st' e = prv st e /\
    (forall p, ~ In p (A ++ B) -> nxt st' p = nxt st p /\ prv st' p = prv st p).
Proof.
  intros st e A B Hr Hnd Hne.
  apply ringf_rot in Hr. apply NoDup_rot in Hnd. simpl in Hr, Hnd.
  destruct (unlink_head st e (B ++ A) Hr) as (st' & H1 & H2 & H3 & H4 & H5 & H6 & H7 & H8 & H9); auto.
  { intro Hx. apply app_eq_nil in Hx. destruct Hx; subst. apply Hne; reflexivity. }
  exists st'. repeat split; auto.
  - apply ringf_rot in H2. exact H2.
  - apply H9. intro Hx. apply H. apply in_or_app. apply in_app_or in Hx. tauto.
  - apply H9. intro Hx. apply H. apply in_or_app. apply in_app_or in Hx. tauto.
Qed.
