(* C10, round 5: the wrapper releases its lock when the inner method panics because of its ARGUMENT, and a caller
   that recovers sees the lock-free flavour's behaviour. *)
From Coq Require Import ZArith List Bool Arith Lia.
From Verif.C10_List Require Import Model Ring Proofs Proofs2 Proofs3 ModelBadArg.
Import ListNotations.

Theorem xstep_ts_releases : forall k st x r k1, xstep_ts k st x = TDone r k1 -> k1 = k.
Proof.
  intros k st [c|l [|]] r k1 H; unfold xstep_ts, xstep_ts_gen in H.
  - exact (cstep_ts_releases k st c r k1 H).
  - destruct (negb (can_lock k l)); [discriminate|]. simpl in H. inversion H. apply wunlock_wlock.
  - destruct (negb (can_rlock k l)); [discriminate|]. simpl in H. inversion H. apply runlock_rlock.
Qed.

(* the state is not part of the result of a panicking call: it is the caller's unchanged st (xrun_ts continues with it) *)
Theorem xrun_ts_equals_plain : forall h st,
  forallb xsafe h = true -> xrun_ts lk0 st h = TDone (xrun st h) lk0.
Proof.
  unfold xrun_ts. induction h as [|x r IH]; intros st Hs; [reflexivity|].
  simpl in Hs. apply andb_true_iff in Hs. destruct Hs as [Hx Hr].
  destruct x as [c|l w].
  - simpl in Hx. pose proof (cts_equals_plain st c Hx) as E. unfold cstep_ts in E.
    cbn [xrun_ts_gen xrun]. rewrite E.
    destruct (cstep st c) as [s1|]; [|reflexivity].
    cbn [bind]. rewrite (IH (fst s1) Hr). destruct (xrun (fst s1) r); reflexivity.
  - cbn [xrun_ts_gen xrun].
    assert (E : xstep_ts_gen deferred lk0 st (XBad l w) = TDone None lk0).
    { destruct w; unfold xstep_ts_gen; simpl can_lock; simpl can_rlock; cbn [negb rel_panic deferred];
        [rewrite wunlock_wlock|rewrite runlock_rlock]; reflexivity. }
    rewrite E. rewrite (IH st Hr). destruct (xrun st r); reflexivity.
Qed.

(* the model is not blind: without the deferred unlock on the panic path the next call blocks *)
Lemma bad_remove_then_push_ok :
  forallb xsafe bad_remove_then_push = true /\
  option_map (fun r => (values (fst r) 0, snd r)) (xrun init_state bad_remove_then_push)
    = Some ([1; 2]%Z, [Some (COut (OHandle (Some (El 0)))); None; Some (COut (OHandle (Some (El 1))))]) /\
  xrun_ts lk0 init_state bad_remove_then_push = TDone (xrun init_state bad_remove_then_push) lk0 /\
  xrun_ts_gen (rp true true false) lk0 init_state bad_remove_then_push = TBlocked.
Proof. split; [|split; [|split]]; vm_compute; reflexivity. Qed.
