(* C10 - the representation relation between the pointer model and the abstract container/list contract,
   and the step-by-step refinement proof. *)
From Coq Require Import ZArith List Bool Arith Lia Permutation.
From Verif.C10_List Require Import Model Ring.
Import ListNotations.
Close Scope Z_scope.

Definition ringof a l : list ptr := Root l :: map El (alist a l).

Record R (st : state) (a : astate) : Prop := mkR {
  R_fresh : fresh st = afresh a;
  R_ring : forall l, ring st (ringof a l);
  R_len : forall l, len st l = Z.of_nat (length (alist a l));
  R_nodup : forall l, NoDup (alist a l);
  R_own_in : forall n l, In n (alist a l) -> own st (El n) = Some l;
  R_own_conv : forall n l, own st (El n) = Some l -> In n (alist a l) \/ In n (aorph a);
  R_own_root : forall l, own st (Root l) = None;
  R_val : forall p, value_of st p = aval_of a p;
  R_lt : forall n l, In n (alist a l) -> n < afresh a;
  R_orph_lt : forall n, In n (aorph a) -> n < afresh a
}.

Lemma El_inj : forall x y, El x = El y -> x = y.
Proof. congruence. Qed.

Lemma in_map_El : forall n xs, In (El n) (map El xs) <-> In n xs.
Proof.
  intros n xs; split; intro H.
  - apply in_map_iff in H. destruct H as (x & E & H). inversion E; subst; auto.
  - apply in_map; auto.
Qed.
Lemma root_notin_map_El : forall l xs, ~ In (Root l) (map El xs).
Proof. intros l xs H. apply in_map_iff in H. destruct H as (x & E & _). discriminate. Qed.

Lemma NoDup_map_El : forall xs, NoDup xs -> NoDup (map El xs).
Proof.
  induction xs; simpl; intros H; [constructor|].
  apply NoDup_cons_iff in H. destruct H. constructor; auto. rewrite in_map_El; auto.
Qed.
Lemma NoDup_map_El_inv : forall xs, NoDup (map El xs) -> NoDup xs.
Proof.
  induction xs; simpl; intros H; [constructor|].
  apply NoDup_cons_iff in H. destruct H. constructor; auto. rewrite <- in_map_El; auto.
Qed.

Lemma ringof_nodup : forall st a l, R st a -> NoDup (ringof a l).
Proof.
  intros st a l HR. unfold ringof. constructor.
  - apply root_notin_map_El.
  - apply NoDup_map_El. apply (R_nodup _ _ HR).
Qed.

Lemma in_ringof : forall a l p, In p (ringof a l) <-> p = Root l \/ exists n, p = El n /\ In n (alist a l).
Proof.
  intros a l p. unfold ringof. simpl. split.
  - intros [H|H]; [left; auto|]. right. apply in_map_iff in H. destruct H as (n & E & H). eauto.
  - intros [H|(n & E & H)]; [left; auto|]. right. subst. apply in_map; auto.
Qed.

Lemma ringof_disjoint : forall st a l l' p, R st a -> l' <> l -> In p (ringof a l') -> ~ In p (ringof a l).
Proof.
  intros st a l l' p HR Hne H1 H2. apply in_ringof in H1. apply in_ringof in H2.
  destruct H1 as [H1|(n & E & H1)]; destruct H2 as [H2|(n' & E' & H2)]; subst; try discriminate.
  - inversion H2; auto.
  - inversion E'; subst. pose proof (R_own_in _ _ HR _ _ H1). pose proof (R_own_in _ _ HR _ _ H2). congruence.
Qed.

Lemma ring_frame : forall st st' ps,
  (forall p, In p ps -> nxt st' p = nxt st p /\ prv st' p = prv st p) -> ring st ps -> ring st' ps.
Proof.
  intros st st' [|a r] Hf H; simpl; auto. unfold ring in *; simpl in *.
  eapply chain_frame; [| |exact H].
  - intros p Hp. apply Hf. exact Hp.
  - intros p Hp. apply Hf. apply in_app_or in Hp. simpl in *. tauto.
Qed.

Lemma ring_adj : forall nx pv P p q S, ringf nx pv (P ++ p :: q :: S) -> nx p = Some q /\ pv q = Some p.
Proof.
  intros nx pv P p q S H. apply ringf_rot in H. simpl in H. destruct H as (H1 & H2 & _); auto.
Qed.

Lemma ring_last_next : forall nx pv a P p, ringf nx pv (a :: P ++ [p]) -> nx p = Some a /\ pv a = Some p.
Proof.
  intros nx pv a P p H. change (a :: P ++ [p]) with ((a :: P) ++ [p]) in H.
  apply ringf_rot in H. simpl in H. destruct H as (H1 & H2 & _); auto.
Qed.

(* ---- states that only differ where set_own / set_len / val+fresh act ---- *)
Lemma ring_set_own : forall st p v ps, ring (set_own st p v) ps <-> ring st ps.
Proof. intros; unfold ring; simpl; tauto. Qed.
Lemma ring_set_len : forall st l v ps, ring (set_len st l v) ps <-> ring st ps.
Proof. intros; unfold ring; simpl; tauto. Qed.

Lemma value_of_eq : forall st st' p, val st' p = val st p -> value_of st' p = value_of st p.
Proof. intros; unfold value_of; rewrite H; auto. Qed.

Lemma NoDup_insert_mid : forall (A B : list ptr) x e,
  NoDup (A ++ x :: B) -> ~ In e (A ++ x :: B) -> NoDup (A ++ x :: e :: B).
Proof.
  intros A B x e Hnd Hnin.
  replace (A ++ x :: e :: B) with ((A ++ [x]) ++ e :: B) by (rewrite <- app_assoc; reflexivity).
  eapply Permutation_NoDup; [apply Permutation_middle|]. rewrite <- app_assoc. simpl. constructor; auto.
Qed.

(* ==== inserting a fresh element after a ring member ==== *)
Lemma insert_value_R : forall st a l v at_ A' B' xs',
  R st a -> ringof a l = A' ++ at_ :: B' ->
  Root l :: map El xs' = A' ++ at_ :: El (afresh a) :: B' ->
  exists st', insert_value st l v at_ = Some (st', El (afresh a)) /\ R st' (aset (aalloc a v) l xs').
Proof.
  intros st a l v at_ A' B' xs' HR Hsplit Hxs.
  pose (f := afresh a).
  pose (st0 := mk (nxt st) (prv st) (own st) (upd (val st) (El f) (Some v)) (len st) (S f)).
  assert (Hmem : forall p, In p (A' ++ at_ :: El f :: B') <-> p = El f \/ In p (ringof a l)).
  { intro p. rewrite Hsplit. rewrite !in_app_iff. simpl. intuition (try subst; auto). }
  assert (Hfn : ~ In (El f) (ringof a l)).
  { intro H. apply in_ringof in H. destruct H as [H|(n & E & H)]; [discriminate|].
    inversion E; subst. apply (R_lt _ _ HR) in H. unfold f in H. lia. }
  destruct (link_ring st0 (El f) at_ A' B') as (st1 & H1 & H2 & H3 & H4 & H5 & H6 & H7).
  { unfold ring; simpl. rewrite <- Hsplit. apply (R_ring _ _ HR). }
  { rewrite <- Hsplit. eapply ringof_nodup; eauto. }
  { rewrite <- Hsplit. exact Hfn. }
  unfold insert_value. rewrite (R_fresh _ _ HR). fold f. fold st0. unfold insert. rewrite H1. simpl.
  eexists; split; [reflexivity|].
  assert (Hin_xs : forall n, In n xs' <-> n = f \/ In n (alist a l)).
  { intro n. rewrite <- in_map_El.
    assert (In (El n) (Root l :: map El xs') <-> In (El n) (map El xs')) by (simpl; split; [intros [X|X]; [discriminate|auto] | auto]).
    rewrite <- H. rewrite Hxs. fold f. rewrite Hmem. rewrite in_ringof. split.
    - intros [X|[X|(n' & E & X)]]; [left; congruence | discriminate | right; inversion E; subst; auto].
    - intros [X|X]; [left; subst; auto | right; right; eauto]. }
  constructor; [simpl|idtac|simpl..].
  - rewrite H6. reflexivity.
  - intro l'. change (ring st1 (Root l' :: map El (updn (alist a) l xs' l'))).
    destruct (Nat.eq_dec l' l) as [E|E].
    + subst l'. rewrite updn_same. rewrite Hxs. exact H2.
    + rewrite updn_other by auto. eapply ring_frame; [|apply (R_ring _ _ HR l')].
      intros p Hp. apply H7. intro Hx. simpl in Hx. rewrite <- Hsplit in Hx.
      destruct Hx as [Hx|Hx].
      * subst p. apply in_ringof in Hp. destruct Hp as [Hp|(n & E' & Hp)]; [discriminate|].
        inversion E'; subst. apply (R_lt _ _ HR) in Hp. unfold f in Hp; lia.
      * eapply ringof_disjoint; eauto.
  - intro l'. unfold updn. rewrite H5. simpl. destruct (Nat.eqb l' l) eqn:E.
    + apply Nat.eqb_eq in E; subst.
      assert (length (Root l :: map El xs') = S (length (ringof a l))).
      { rewrite Hxs, Hsplit. rewrite !app_length. simpl. lia. }
      unfold ringof in H. simpl in H. rewrite !map_length in H. rewrite (R_len _ _ HR). lia.
    + apply (R_len _ _ HR).
  - intro l'. unfold updn. destruct (Nat.eqb l' l) eqn:E; [|apply (R_nodup _ _ HR)].
    apply NoDup_map_El_inv.
    assert (NoDup (Root l :: map El xs')).
    { rewrite Hxs. apply NoDup_insert_mid.
      - rewrite <- Hsplit. eapply ringof_nodup; eauto.
      - rewrite <- Hsplit. exact Hfn. }
    apply NoDup_cons_iff in H. tauto.
  - intros n l'. unfold updn. rewrite H3. simpl. destruct (Nat.eqb l' l) eqn:E.
    + apply Nat.eqb_eq in E; subst. rewrite Hin_xs. intros [X|X].
      * subst. apply upd_same.
      * rewrite upd_other. apply (R_own_in _ _ HR); auto.
        intro Hx. inversion Hx; subst. apply (R_lt _ _ HR) in X. unfold f in X; lia.
    + intro X. rewrite upd_other. apply (R_own_in _ _ HR); auto.
      intro Hx. inversion Hx; subst. apply (R_lt _ _ HR) in X. unfold f in X; lia.
  - intros n l'. rewrite H3. simpl. unfold upd. destruct (ptr_eqb (El n) (El f)) eqn:E.
    + apply ptr_eqb_eq in E. inversion E; subst. intro X. inversion X; subst.
      left. rewrite updn_same. apply Hin_xs. left; auto.
    + intro X. destruct (R_own_conv _ _ HR _ _ X) as [Y|Y]; [|right; auto].
      left. unfold updn. destruct (Nat.eqb l' l) eqn:E'; auto.
      apply Nat.eqb_eq in E'; subst. apply Hin_xs. right; auto.
  - intro l'. rewrite H3. simpl. rewrite upd_other by discriminate. apply (R_own_root _ _ HR).
  - intro p. unfold value_of. simpl. rewrite H4. simpl. unfold upd. destruct (ptr_eqb p (El f)) eqn:E.
    + apply ptr_eqb_eq in E; subst. simpl. fold f. rewrite updn_same. reflexivity.
    + pose proof (R_val _ _ HR p) as Hv. unfold value_of in Hv. rewrite Hv.
      destruct p as [r|n]; simpl; auto. fold f. rewrite updn_other; auto.
      intro; subst. rewrite ptr_eqb_refl in E. discriminate.
  - intros n l'. unfold updn. destruct (Nat.eqb l' l) eqn:E.
    + rewrite Hin_xs. intros [X|X]; [subst; unfold f; lia | apply (R_lt _ _ HR) in X; lia].
    + intro X. apply (R_lt _ _ HR) in X; lia.
  - intros n X. apply (R_orph_lt _ _ HR) in X. lia.
Qed.

(* ==== removing a member ==== *)
Lemma rem_notin : forall n xs, ~ In n xs -> rem n xs = xs.
Proof.
  induction xs as [|x xs IH]; simpl; intros H; auto.
  destruct (Nat.eqb x n) eqn:E; simpl.
  - apply Nat.eqb_eq in E. subst. exfalso; auto.
  - rewrite IH; auto.
Qed.
Lemma rem_app : forall n xs ys, rem n (xs ++ ys) = rem n xs ++ rem n ys.
Proof. intros. unfold rem. apply filter_app. Qed.
Lemma rem_split : forall n A B, NoDup (A ++ n :: B) -> rem n (A ++ n :: B) = A ++ B.
Proof.
  intros n A B H. pose proof (NoDup_remove_2 _ _ _ H) as Hn.
  rewrite rem_app. simpl. rewrite Nat.eqb_refl. simpl.
  rewrite !rem_notin; auto; intro X; apply Hn; apply in_or_app; auto.
Qed.

Lemma remove_R : forall st a l n,
  R st a -> In n (alist a l) ->
  exists st', remove st l (El n) = Some st' /\ R st' (aset a l (rem n (alist a l))) /\ val st' = val st.
Proof.
  intros st a l n HR Hin.
  destruct (in_split _ _ Hin) as (A & B & Hsp).
  pose proof (R_nodup _ _ HR l) as Hnd. rewrite Hsp in Hnd.
  rewrite Hsp. rewrite rem_split by auto.
  assert (Hro : ringof a l = (Root l :: map El A) ++ El n :: map El B).
  { unfold ringof. rewrite Hsp. rewrite map_app. reflexivity. }
  destruct (unlink_ring st (El n) (Root l :: map El A) (map El B)) as (st1 & H1 & H2 & H3 & H4 & H5 & H6 & H7 & H8 & H9).
  { rewrite <- Hro. apply (R_ring _ _ HR). }
  { rewrite <- Hro. eapply ringof_nodup; eauto. }
  { discriminate. }
  unfold remove. rewrite H1. simpl.
  eexists; split; [reflexivity|]. split; [|simpl; auto].
  assert (HinAB : forall k, In k (A ++ B) <-> k <> n /\ In k (alist a l)).
  { intro k. rewrite Hsp. rewrite !in_app_iff. simpl. split.
    - intros X. split; [|tauto]. intro; subst. apply (NoDup_remove_2 _ _ _ Hnd). apply in_or_app; auto.
    - intros [X [Y|[Y|Y]]]; auto. congruence. }
  assert (Hnin : ~ In (El n) ((Root l :: map El A) ++ map El B)).
  { pose proof (ringof_nodup _ _ l HR) as X. rewrite Hro in X. apply NoDup_remove_2 in X. exact X. }
  constructor; [simpl|idtac|simpl..].
  - rewrite H6. apply (R_fresh _ _ HR).
  - intro l'.
    match goal with |- ring ?s _ => set (st2 := s) end.
    change (ring st2 (Root l' :: map El (updn (alist a) l (A ++ B) l'))).
    assert (Hf : forall p, p <> El n -> nxt st2 p = nxt st1 p /\ prv st2 p = prv st1 p).
    { intros p Hp. unfold st2; simpl. rewrite !upd_other; auto. }
    destruct (Nat.eq_dec l' l) as [E|E].
    + subst l'. rewrite updn_same. eapply ring_frame; [|].
      2:{ rewrite map_app. exact H2. }
      intros p Hp. apply Hf. intro; subst. apply Hnin. rewrite map_app in Hp. exact Hp.
    + rewrite updn_other by auto. eapply ring_frame; [|apply (R_ring _ _ HR l')].
      intros p Hp. pose proof (ringof_disjoint _ _ l l' p HR E Hp) as Hd.
      assert (p <> El n). { intro; subst. apply Hd. rewrite Hro. apply in_or_app; right; left; auto. }
      destruct (Hf p H) as [F1 F2]. rewrite F1, F2. apply H9.
      intro X. apply Hd. rewrite Hro. apply in_or_app. apply in_app_or in X. simpl. tauto.
  - intro l'. unfold updn. rewrite H5. destruct (Nat.eqb l' l) eqn:E.
    + apply Nat.eqb_eq in E; subst. rewrite (R_len _ _ HR). rewrite Hsp. rewrite !app_length. simpl. lia.
    + apply (R_len _ _ HR).
  - intro l'. unfold updn. destruct (Nat.eqb l' l) eqn:E; [|apply (R_nodup _ _ HR)].
    eapply NoDup_remove_1; eauto.
  - intros k l'. rewrite H3. unfold updn. destruct (Nat.eqb l' l) eqn:E.
    + apply Nat.eqb_eq in E; subst. rewrite HinAB. intros [X Y].
      rewrite upd_other by congruence. apply (R_own_in _ _ HR); auto.
    + intro X. rewrite upd_other. apply (R_own_in _ _ HR); auto.
      intro Y. inversion Y; subst. apply Nat.eqb_neq in E.
      pose proof (R_own_in _ _ HR _ _ X). pose proof (R_own_in _ _ HR _ _ Hin). congruence.
  - intros k l'. rewrite H3. unfold upd. destruct (ptr_eqb (El k) (El n)) eqn:E; [discriminate|].
    intro X. destruct (R_own_conv _ _ HR _ _ X) as [Y|Y]; [|right; auto].
    left. unfold updn. destruct (Nat.eqb l' l) eqn:E'; auto.
    apply Nat.eqb_eq in E'; subst. apply HinAB. split; auto.
    intro; subst. rewrite ptr_eqb_refl in E. discriminate.
  - intro l'. rewrite H3. rewrite upd_other by discriminate. apply (R_own_root _ _ HR).
  - intro p. unfold value_of. simpl. rewrite H4. apply (R_val _ _ HR).
  - intros k l'. unfold updn. destruct (Nat.eqb l' l) eqn:E.
    + rewrite HinAB. intros [_ X]. apply (R_lt _ _ HR) in X; auto.
    + apply (R_lt _ _ HR).
  - apply (R_orph_lt _ _ HR).
Qed.

Lemma in_mid : forall (A B : list ptr) e p, In p (A ++ e :: B) <-> e = p \/ In p (A ++ B).
Proof. intros. rewrite !in_app_iff. simpl. tauto. Qed.
Lemma in_insert_mid : forall (A B : list ptr) x e p, In p (A ++ x :: e :: B) <-> e = p \/ In p (A ++ x :: B).
Proof. intros. rewrite !in_app_iff. simpl. tauto. Qed.

(* ==== moving a member behind another ring member ==== *)
Lemma move_R : forall st a l n at_ A' B' xs',
  R st a -> In n (alist a l) ->
  Root l :: map El (rem n (alist a l)) = A' ++ at_ :: B' ->
  Root l :: map El xs' = A' ++ at_ :: El n :: B' ->
  exists st', move st (El n) at_ = Some st' /\ R st' (aset a l xs').
Proof.
  intros st a l n at_ A' B' xs' HR Hin Hrest Hxs.
  destruct (in_split _ _ Hin) as (A & B & Hsp).
  pose proof (R_nodup _ _ HR l) as Hnd. rewrite Hsp in Hnd.
  rewrite Hsp in Hrest. rewrite rem_split in Hrest by auto.
  assert (Hro : ringof a l = (Root l :: map El A) ++ El n :: map El B).
  { unfold ringof. rewrite Hsp. rewrite map_app. reflexivity. }
  assert (Hnin : ~ In (El n) (A' ++ at_ :: B')).
  { rewrite <- Hrest. pose proof (ringof_nodup _ _ l HR) as X. rewrite Hro in X. apply NoDup_remove_2 in X.
    rewrite map_app. exact X. }
  assert (Hne : El n <> at_) by (intro; subst; apply Hnin; apply in_or_app; right; left; auto).
  destruct (unlink_ring st (El n) (Root l :: map El A) (map El B)) as (st1 & H1 & H2 & H3 & H4 & H5 & H6 & H7 & H8 & H9).
  { rewrite <- Hro. apply (R_ring _ _ HR). }
  { rewrite <- Hro. eapply ringof_nodup; eauto. }
  { discriminate. }
  assert (Hrest' : (Root l :: map El A) ++ map El B = A' ++ at_ :: B').
  { rewrite <- Hrest. rewrite map_app. reflexivity. }
  rewrite Hrest' in H2, H9.
  destruct (link_ring st1 (El n) at_ A' B') as (st2 & G1 & G2 & G3 & G4 & G5 & G6 & G7); auto.
  { rewrite <- Hrest'. pose proof (ringof_nodup _ _ l HR) as X. rewrite Hro in X.
    exact (NoDup_remove_1 _ _ _ X). }
  unfold move. rewrite ptr_eqb_neq by auto. rewrite H1. simpl. rewrite G1.
  eexists; split; [reflexivity|].
  assert (Hmem : forall p, In p (A' ++ at_ :: El n :: B') <-> In p (ringof a l)).
  { intro p. rewrite Hro. rewrite (in_insert_mid A' B' at_ (El n) p), (in_mid (Root l :: map El A) (map El B) (El n) p). rewrite Hrest'. tauto. }
  assert (Hin_xs : forall k, In k xs' <-> In k (alist a l)).
  { intro k. rewrite <- in_map_El.
    assert (In (El k) (Root l :: map El xs') <-> In (El k) (map El xs')) by (simpl; split; [intros [X|X]; [discriminate|auto] | auto]).
    rewrite <- H. rewrite Hxs. rewrite Hmem. unfold ringof. simpl. rewrite in_map_El.
    split; [intros [X|X]; [discriminate|auto] | auto]. }
  constructor; [simpl|idtac|simpl..].
  - rewrite G6, H6. apply (R_fresh _ _ HR).
  - intro l'. change (ring st2 (Root l' :: map El (updn (alist a) l xs' l'))).
    destruct (Nat.eq_dec l' l) as [E|E].
    + subst l'. rewrite updn_same. rewrite Hxs. exact G2.
    + rewrite updn_other by auto. eapply ring_frame; [|apply (R_ring _ _ HR l')].
      intros p Hp. pose proof (ringof_disjoint _ _ l l' p HR E Hp) as Hd.
      assert (X1 : ~ In p (El n :: A' ++ at_ :: B')).
      { intro X. apply Hd. destruct X as [X|X].
        - subst. rewrite Hro. apply in_or_app; right; left; auto.
        - rewrite Hro. rewrite <- Hrest' in X. apply in_or_app. apply in_app_or in X. simpl. tauto. }
      destruct (G7 p X1) as [F1 F2]. rewrite F1, F2. apply H9. intro X. apply X1. right; auto.
  - intro l'. rewrite G5, H5. unfold updn. destruct (Nat.eqb l' l) eqn:E; [|apply (R_len _ _ HR)].
    apply Nat.eqb_eq in E; subst. rewrite (R_len _ _ HR). f_equal.
    assert (length (Root l :: map El xs') = length (ringof a l)).
    { rewrite Hxs, Hro.
      assert (L1 : length (A' ++ at_ :: El n :: B') = S (length (A' ++ at_ :: B'))) by (rewrite !app_length; simpl; lia).
      assert (L2 : length ((Root l :: map El A) ++ El n :: map El B) = S (length ((Root l :: map El A) ++ map El B))) by (rewrite !app_length; simpl; lia).
      rewrite L1, L2, Hrest'. reflexivity. }
    unfold ringof in H. simpl in H. rewrite !map_length in H. lia.
  - intro l'. unfold updn. destruct (Nat.eqb l' l) eqn:E; [|apply (R_nodup _ _ HR)].
    apply NoDup_map_El_inv.
    assert (NoDup (Root l :: map El xs')).
    { rewrite Hxs. apply NoDup_insert_mid; auto.
      rewrite <- Hrest'. pose proof (ringof_nodup _ _ l HR) as X. rewrite Hro in X.
      exact (NoDup_remove_1 _ _ _ X). }
    apply NoDup_cons_iff in H. tauto.
  - intros k l'. rewrite G3, H3. unfold updn. destruct (Nat.eqb l' l) eqn:E.
    + apply Nat.eqb_eq in E; subst. rewrite Hin_xs. apply (R_own_in _ _ HR).
    + apply (R_own_in _ _ HR).
  - intros k l'. rewrite G3, H3. intro X. destruct (R_own_conv _ _ HR _ _ X) as [Y|Y]; [|right; auto].
    left. unfold updn. destruct (Nat.eqb l' l) eqn:E'; auto.
    apply Nat.eqb_eq in E'; subst. apply Hin_xs. auto.
  - intro l'. rewrite G3, H3. apply (R_own_root _ _ HR).
  - intro p. unfold value_of. rewrite G4, H4. apply (R_val _ _ HR).
  - intros k l'. unfold updn. destruct (Nat.eqb l' l) eqn:E.
    + rewrite Hin_xs. apply (R_lt _ _ HR).
    + apply (R_lt _ _ HR).
  - apply (R_orph_lt _ _ HR).
Qed.

(* ==== handles: which list does a handle belong to ==== *)
Lemma mem_In : forall n xs, mem n xs = true <-> In n xs.
Proof.
  intros n xs. unfold mem. rewrite existsb_exists. split.
  - intros (x & H & E). apply Nat.eqb_eq in E. subst; auto.
  - intros H. exists n. split; auto. apply Nat.eqb_refl.
Qed.

Lemma owned_spec : forall st a l p, R st a -> is_orphan a p = false ->
  match hmem p (alist a l) with
  | Some n => p = El n /\ In n (alist a l) /\ owned st p l = true
  | None => owned st p l = false
  end.
Proof.
  intros st a l [r|n] HR Ho; simpl.
  - unfold owned. rewrite (R_own_root _ _ HR). reflexivity.
  - destruct (mem n (alist a l)) eqn:E.
    + apply mem_In in E. repeat split; auto. unfold owned. rewrite (R_own_in _ _ HR _ _ E). simpl. apply Nat.eqb_refl.
    + unfold owned. destruct (own st (El n)) as [l'|] eqn:E'; simpl; auto.
      destruct (Nat.eqb l' l) eqn:E''; auto. apply Nat.eqb_eq in E''. subst.
      destruct (R_own_conv _ _ HR _ _ E') as [X|X].
      * apply mem_In in X. congruence.
      * simpl in Ho. apply mem_In in X. congruence.
Qed.

Lemma R_ext : forall st a a', R st a ->
  (forall l, alist a' l = alist a l) -> aorph a' = aorph a -> aval a' = aval a -> afresh a' = afresh a -> R st a'.
Proof.
  intros st a a' HR H1 H2 H3 H4. constructor.
  - rewrite H4. apply (R_fresh _ _ HR).
  - intro l. unfold ringof. rewrite H1. apply (R_ring _ _ HR).
  - intro l. rewrite H1. apply (R_len _ _ HR).
  - intro l. rewrite H1. apply (R_nodup _ _ HR).
  - intros n l. rewrite H1. apply (R_own_in _ _ HR).
  - intros n l. rewrite H1, H2. apply (R_own_conv _ _ HR).
  - apply (R_own_root _ _ HR).
  - intro p. rewrite (R_val _ _ HR). destruct p; simpl; auto. rewrite H3; auto.
  - intros n l. rewrite H1, H4. apply (R_lt _ _ HR).
  - intros n. rewrite H2, H4. apply (R_orph_lt _ _ HR).
Qed.

Lemma R_aset_same : forall st a l xs, R st a -> xs = alist a l -> R st (aset a l xs).
Proof.
  intros st a l xs HR E. eapply R_ext; eauto. intro l'. simpl. unfold updn.
  destruct (Nat.eqb l' l) eqn:X; auto. apply Nat.eqb_eq in X; subst; auto.
Qed.

Lemma ins_after_split : forall n f A B, ~ In n A -> ins_after n f (A ++ n :: B) = A ++ n :: f :: B.
Proof.
  induction A as [|x A IH]; simpl; intros B H.
  - rewrite Nat.eqb_refl. reflexivity.
  - destruct (Nat.eqb x n) eqn:E; [apply Nat.eqb_eq in E; subst; exfalso; auto|]. rewrite IH; auto.
Qed.
Lemma ins_before_split : forall n f A B, ~ In n A -> ins_before n f (A ++ n :: B) = A ++ f :: n :: B.
Proof.
  induction A as [|x A IH]; simpl; intros B H.
  - rewrite Nat.eqb_refl. reflexivity.
  - destruct (Nat.eqb x n) eqn:E; [apply Nat.eqb_eq in E; subst; exfalso; auto|]. rewrite IH; auto.
Qed.

Lemma lazy_init_id : forall st a l, R st a -> lazy_init st l = st.
Proof.
  intros st a l HR. unfold lazy_init. pose proof (R_ring _ _ HR l) as H.
  apply ringf_next_head in H. rewrite H. reflexivity.
Qed.

Lemma ringof_snoc : forall a l, exists P p, ringof a l = P ++ [p] /\ last (map El (alist a l)) (Root l) = p.
Proof.
  intros a l. destruct (@exists_last _ (ringof a l)) as (P & p & E); [discriminate|].
  exists P, p. split; auto.
  rewrite <- (last_cons_default (map El (alist a l)) (Root l) (Root l)).
  change (Root l :: map El (alist a l)) with (ringof a l). rewrite E. apply last_last.
Qed.

(* ==== Init ==== *)
Lemma init_R : forall st a l, R st a ->
  R (do_init st l) (amk (updn (alist a) l []) (alist a l ++ aorph a) (aval a) (afresh a)).
Proof.
  intros st a l HR. constructor; [simpl|idtac|simpl..].
  - apply (R_fresh _ _ HR).
  - intro l'. destruct (Nat.eq_dec l' l) as [E|E].
    + subst. unfold ringof, ring, do_init. simpl. rewrite updn_same. simpl. rewrite !upd_same. auto.
    + assert (Hro : ringof (amk (updn (alist a) l []) (alist a l ++ aorph a) (aval a) (afresh a)) l' = ringof a l').
      { unfold ringof. simpl. rewrite updn_other by auto. reflexivity. }
      rewrite Hro. apply (ring_frame st); [|apply (R_ring _ _ HR l')].
      intros p Hp. simpl. assert (p <> Root l).
      { intro; subst. apply in_ringof in Hp. destruct Hp as [Hp|(n & X & _)]; [inversion Hp; auto | discriminate]. }
      rewrite !upd_other; auto.
  - intro l'. unfold updn. destruct (Nat.eqb l' l); [reflexivity | apply (R_len _ _ HR)].
  - intro l'. unfold updn. destruct (Nat.eqb l' l); [constructor | apply (R_nodup _ _ HR)].
  - intros n l'. unfold updn. destruct (Nat.eqb l' l); [intros [] | apply (R_own_in _ _ HR)].
  - intros n l' X. destruct (R_own_conv _ _ HR _ _ X) as [Y|Y].
    + unfold updn. destruct (Nat.eqb l' l) eqn:E; [|left; auto].
      apply Nat.eqb_eq in E; subst. right. apply in_or_app; auto.
    + right. apply in_or_app; auto.
  - apply (R_own_root _ _ HR).
  - intro p. pose proof (R_val _ _ HR p) as X. unfold value_of in *. simpl. exact X.
  - intros n l'. unfold updn. destruct (Nat.eqb l' l); [intros [] | apply (R_lt _ _ HR)].
  - intros n X. apply in_app_or in X. destruct X as [X|X]; [apply (R_lt _ _ HR) in X; auto | apply (R_orph_lt _ _ HR); auto].
Qed.

(* ==== one call: the pointer model does what the contract says ==== *)
Definition refines_step st a o :=
  exists st', step st o = Some (st', snd (astep a o)) /\ R st' (fst (astep a o)).

Ltac finish_insert Hi HR' := rewrite Hi; simpl; eexists; split; [reflexivity | exact HR'].

Lemma step_Init : forall st a l, R st a -> refines_step st a (Init l).
Proof. intros. eexists; split; [reflexivity|]. simpl. apply init_R; auto. Qed.

Lemma step_PushFront : forall st a l v, R st a -> refines_step st a (PushFront l v).
Proof.
  intros st a l v HR. unfold refines_step. simpl. rewrite (lazy_init_id _ _ _ HR).
  destruct (insert_value_R st a l v (Root l) [] (map El (alist a l)) (afresh a :: alist a l) HR) as (st' & Hi & HR'); try reflexivity.
  finish_insert Hi HR'.
Qed.

Lemma step_PushBack : forall st a l v, R st a -> refines_step st a (PushBack l v).
Proof.
  intros st a l v HR. unfold refines_step. simpl. rewrite (lazy_init_id _ _ _ HR).
  pose proof (ringf_prev_head _ _ _ _ (R_ring _ _ HR l)) as Hp.
  destruct (ringof_snoc a l) as (P & p & E & El'). rewrite El' in Hp. rewrite Hp. simpl.
  destruct (insert_value_R st a l v p P [] (alist a l ++ [afresh a]) HR) as (st' & Hi & HR'); auto.
  { rewrite map_app. simpl. change (Root l :: map El (alist a l) ++ [El (afresh a)]) with (ringof a l ++ [El (afresh a)]).
    rewrite E. rewrite <- app_assoc. reflexivity. }
  finish_insert Hi HR'.
Qed.

Lemma step_Remove : forall st a l e, R st a -> is_orphan a e = false -> refines_step st a (Remove l e).
Proof.
  intros st a l e HR Ho. unfold refines_step. simpl.
  pose proof (owned_spec st a l e HR Ho) as Hs. destruct (hmem e (alist a l)) as [n|].
  - destruct Hs as (E & Hin & Hown). subst e. rewrite Hown.
    destruct (remove_R st a l n HR Hin) as (st' & Hr & HR' & Hv). rewrite Hr. simpl.
    eexists; split; [|exact HR']. f_equal. f_equal. f_equal.
    rewrite (value_of_eq st st') by (rewrite Hv; auto). apply (R_val _ _ HR (El n)).
  - rewrite Hs. eexists; split; [|exact HR]. simpl snd. rewrite <- (R_val _ _ HR e). reflexivity.
Qed.

Lemma step_InsertAfter : forall st a l v m, R st a -> is_orphan a m = false -> refines_step st a (InsertAfter l v m).
Proof.
  intros st a l v m HR Ho. unfold refines_step. simpl.
  pose proof (owned_spec st a l m HR Ho) as Hs. destruct (hmem m (alist a l)) as [n|].
  - destruct Hs as (E & Hin & Hown). subst m. rewrite Hown.
    destruct (in_split _ _ Hin) as (A & B & Hsp).
    pose proof (R_nodup _ _ HR l) as Hnd. rewrite Hsp in Hnd.
    destruct (insert_value_R st a l v (El n) (Root l :: map El A) (map El B) (ins_after n (afresh a) (alist a l)) HR) as (st' & Hi & HR').
    { unfold ringof. rewrite Hsp, map_app. reflexivity. }
    { rewrite Hsp. rewrite ins_after_split by (eapply NoDup_remove_2 in Hnd; intro; apply Hnd; apply in_or_app; auto).
      rewrite map_app. reflexivity. }
    finish_insert Hi HR'.
  - rewrite Hs. eexists; split; [reflexivity | exact HR].
Qed.

Lemma step_InsertBefore : forall st a l v m, R st a -> is_orphan a m = false -> refines_step st a (InsertBefore l v m).
Proof.
  intros st a l v m HR Ho. unfold refines_step. simpl.
  pose proof (owned_spec st a l m HR Ho) as Hs. destruct (hmem m (alist a l)) as [n|].
  - destruct Hs as (E & Hin & Hown). subst m. rewrite Hown.
    destruct (in_split _ _ Hin) as (A & B & Hsp).
    pose proof (R_nodup _ _ HR l) as Hnd. rewrite Hsp in Hnd.
    destruct (@exists_last _ (Root l :: map El A)) as (P & p & E); [discriminate|].
    assert (Hro : ringof a l = P ++ p :: El n :: map El B).
    { unfold ringof. rewrite Hsp, map_app. simpl.
      change (Root l :: map El A ++ El n :: map El B) with ((Root l :: map El A) ++ El n :: map El B).
      rewrite E. rewrite <- app_assoc. reflexivity. }
    pose proof (R_ring _ _ HR l) as Hr. rewrite Hro in Hr. apply ring_adj in Hr. destruct Hr as [_ Hp].
    rewrite Hp. simpl.
    destruct (insert_value_R st a l v p P (El n :: map El B) (ins_before n (afresh a) (alist a l)) HR Hro) as (st' & Hi & HR').
    { rewrite Hsp. rewrite ins_before_split by (eapply NoDup_remove_2 in Hnd; intro; apply Hnd; apply in_or_app; auto).
      rewrite map_app. simpl.
      change (Root l :: map El A ++ El (afresh a) :: El n :: map El B) with ((Root l :: map El A) ++ El (afresh a) :: El n :: map El B).
      rewrite E. rewrite <- app_assoc. reflexivity. }
    finish_insert Hi HR'.
  - rewrite Hs. eexists; split; [reflexivity | exact HR].
Qed.

Lemma step_MoveToFront : forall st a l e, R st a -> is_orphan a e = false -> refines_step st a (MoveToFront l e).
Proof.
  intros st a l e HR Ho. unfold refines_step. simpl.
  pose proof (owned_spec st a l e HR Ho) as Hs. destruct (hmem e (alist a l)) as [n|].
  - destruct Hs as (E & Hin & Hown). subst e. rewrite Hown. simpl.
    destruct (optptr_eqb (nxt st (Root l)) (Some (El n))) eqn:Hg.
    + eexists; split; [reflexivity|]. simpl. apply R_aset_same; auto.
      pose proof (ringf_next_head _ _ _ _ (R_ring _ _ HR l)) as Hh. rewrite Hh in Hg. simpl in Hg.
      apply ptr_eqb_eq in Hg. pose proof (R_nodup _ _ HR l) as Hnd.
      destruct (alist a l) as [|x B]; simpl in Hg; [discriminate|]. inversion Hg; subst.
      f_equal. apply (rem_split n [] B). exact Hnd.
    + destruct (move_R st a l n (Root l) [] (map El (rem n (alist a l))) (n :: rem n (alist a l)) HR Hin) as (st' & Hm & HR'); try reflexivity.
      rewrite Hm. simpl. eexists; split; [reflexivity | exact HR'].
  - rewrite Hs. simpl. eexists; split; [reflexivity | exact HR].
Qed.

Lemma step_MoveAfter : forall st a l e m, R st a -> is_orphan a e = false -> is_orphan a m = false ->
  refines_step st a (MoveAfter l e m).
Proof.
  intros st a l e m HR Ho Ho'. unfold refines_step. simpl.
  pose proof (owned_spec st a l e HR Ho) as Hs. pose proof (owned_spec st a l m HR Ho') as Hs'.
  destruct (hmem e (alist a l)) as [n|].
  - destruct Hs as (E & Hin & Hown). subst e. rewrite Hown. simpl.
    destruct (hmem m (alist a l)) as [k|].
    + destruct Hs' as (E & Hin' & Hown'). subst m. rewrite Hown'. simpl.
      destruct (Nat.eqb n k) eqn:Hnk.
      * simpl. eexists; split; [reflexivity | exact HR].
      * simpl. apply Nat.eqb_neq in Hnk.
        assert (Hk : In k (rem n (alist a l))).
        { unfold rem. apply filter_In. split; auto. apply negb_true_iff. apply Nat.eqb_neq. auto. }
        destruct (in_split _ _ Hk) as (A & B & Hsp).
        assert (Hnd : NoDup (rem n (alist a l))) by (unfold rem; apply NoDup_filter; apply (R_nodup _ _ HR)).
        rewrite Hsp in Hnd.
        destruct (move_R st a l n (El k) (Root l :: map El A) (map El B) (ins_after k n (rem n (alist a l))) HR Hin) as (st' & Hm & HR').
        { rewrite Hsp, map_app. reflexivity. }
        { rewrite Hsp. rewrite ins_after_split by (eapply NoDup_remove_2 in Hnd; intro; apply Hnd; apply in_or_app; auto).
          rewrite map_app. reflexivity. }
        rewrite Hm. simpl. eexists; split; [reflexivity | exact HR'].
    + rewrite Hs'. simpl. rewrite orb_true_r. eexists; split; [reflexivity | exact HR].
  - rewrite Hs. simpl. eexists; split; [reflexivity|].
    destruct (hmem m (alist a l)); exact HR.
Qed.

Lemma step_MoveToBack : forall st a l e, R st a -> is_orphan a e = false -> refines_step st a (MoveToBack l e).
Proof.
  intros st a l e HR Ho. unfold refines_step. simpl.
  pose proof (owned_spec st a l e HR Ho) as Hs. destruct (hmem e (alist a l)) as [n|].
  - destruct Hs as (E & Hin & Hown). subst e. rewrite Hown. simpl.
    pose proof (ringf_prev_head _ _ _ _ (R_ring _ _ HR l)) as Hp. rewrite Hp.
    destruct (in_split _ _ Hin) as (A & B & Hsp).
    pose proof (R_nodup _ _ HR l) as Hnd. rewrite Hsp in Hnd.
    destruct B as [|b0 B1].
    + assert (Hl : last (map El (alist a l)) (Root l) = El n) by (rewrite Hsp, map_app; simpl; apply last_last).
      rewrite Hl. simpl. rewrite Nat.eqb_refl.
      eexists; split; [reflexivity|]. simpl. apply R_aset_same; auto.
      rewrite Hsp. rewrite rem_split by auto. rewrite app_nil_r. reflexivity.
    + destruct (@exists_last _ (b0 :: B1)) as (B0 & b & EB); [discriminate|]. rewrite EB in *.
      assert (Hl : last (map El (alist a l)) (Root l) = El b).
      { rewrite Hsp. replace (A ++ n :: B0 ++ [b]) with ((A ++ n :: B0) ++ [b]) by (rewrite <- app_assoc; reflexivity).
        rewrite map_app. simpl. apply last_last. }
      assert (Hbn : b <> n).
      { intro; subst. apply NoDup_remove_2 in Hnd. apply Hnd. apply in_or_app; right. apply in_or_app; right; left; auto. }
      rewrite Hl. simpl. rewrite (proj2 (Nat.eqb_neq b n)) by auto.
      destruct (move_R st a l n (El b) (Root l :: map El (A ++ B0)) [] (rem n (alist a l) ++ [n]) HR Hin) as (st' & Hm & HR').
      { rewrite Hsp. rewrite rem_split by auto. rewrite app_assoc, map_app. reflexivity. }
      { rewrite Hsp. rewrite rem_split by auto. rewrite app_assoc. rewrite !map_app. simpl. rewrite <- app_assoc. reflexivity. }
      rewrite Hm. simpl. eexists; split; [reflexivity | exact HR'].
  - rewrite Hs. simpl. eexists; split; [reflexivity | exact HR].
Qed.

(* ==== all histories ==== *)
(* calls whose refinement is proved in this file; the other three (MoveBefore, PushBackList, PushFrontList)
   and the theorem for all twelve calls (step_refines_full, run_refines_full) are in Proofs2.v *)
Definition covered (o : op) : bool :=
  match o with
  | PushBackList _ _ | PushFrontList _ _ | MoveBefore _ _ _ => false
  | _ => true
  end.

Theorem step_refines : forall st a o,
  R st a -> covered o = true -> existsb (is_orphan a) (handles o) = false -> refines_step st a o.
Proof.
  intros st a o HR Hc Hz. destruct o; simpl in Hc, Hz; try discriminate;
    repeat (apply orb_false_iff in Hz; destruct Hz as [? Hz]).
  - apply step_Init; auto.
  - apply step_PushFront; auto.
  - apply step_PushBack; auto.
  - apply step_Remove; auto.
  - apply step_InsertBefore; auto.
  - apply step_InsertAfter; auto.
  - apply step_MoveToFront; auto.
  - apply step_MoveToBack; auto.
  - apply step_MoveAfter; auto.
Qed.

Lemma R_init : R init_state ainit.
Proof.
  constructor; simpl; auto; try (intros; contradiction); try discriminate.
  - intro l. constructor.
  - intros [l|n]; reflexivity.
Qed.

Theorem run_refines : forall h st a,
  R st a -> forallb covered h = true -> zombie_free a h = true ->
  exists st', run st h = Some (st', snd (arun a h)) /\ R st' (fst (arun a h)).
Proof.
  induction h as [|o h IH]; intros st a HR Hc Hz; simpl in *.
  - eexists; split; [reflexivity | exact HR].
  - apply andb_true_iff in Hc. destruct Hc as [Hc1 Hc2].
    apply andb_true_iff in Hz. destruct Hz as [Hz1 Hz2]. apply negb_true_iff in Hz1.
    destruct (step_refines st a o HR Hc1 Hz1) as (st1 & Hs & HR1). rewrite Hs. simpl.
    destruct (IH st1 (fst (astep a o)) HR1 Hc2 Hz2) as (st2 & Hr & HR2). rewrite Hr. simpl.
    eexists; split; [reflexivity | exact HR2].
Qed.

(* ==== observations ==== *)
Definition hd_ptr (xs : list nat) : option ptr := match xs with [] => None | x :: _ => Some (El x) end.

Lemma walk_chain : forall st l xs p fuel,
  (length xs < fuel)%nat -> chain (nxt st) (prv st) p (map El xs) (Root l) ->
  (forall n, In n xs -> own st (El n) = Some l) ->
  walk elem_next fuel st (hd_ptr xs) = map (fun n => value_of st (El n)) xs.
Proof.
  induction xs as [|x xs IH]; intros p fuel Hf Hc Ho; simpl.
  - destruct fuel; reflexivity.
  - destruct fuel as [|fuel]; [simpl in Hf; lia|]. simpl. f_equal.
    simpl in Hc. destruct Hc as (_ & _ & Hc).
    assert (Hn : elem_next st (El x) = hd_ptr xs).
    { unfold elem_next. rewrite (Ho x) by (left; auto).
      destruct xs as [|y ys]; simpl in Hc.
      - destruct Hc as [Hc _]. rewrite Hc. rewrite ptr_eqb_refl. reflexivity.
      - destruct Hc as [Hc _]. rewrite Hc. simpl. reflexivity. }
    rewrite Hn. apply (IH (El x)); auto. simpl in Hf; lia. intros; apply Ho; right; auto.
Qed.

Lemma NoDup_bounded_length : forall xs n, NoDup xs -> (forall x, In x xs -> (x < n)%nat) -> (length xs <= n)%nat.
Proof.
  intros xs n Hnd Hb. rewrite <- (seq_length n 0). apply NoDup_incl_length; auto.
  intros x Hx. apply in_seq. apply Hb in Hx. lia.
Qed.

Theorem obs_refines : forall st a l, R st a ->
  len st l = Z.of_nat (length (alist a l)) /\
  front st l = hd_ptr (alist a l) /\
  values st l = map (aval a) (alist a l).
Proof.
  intros st a l HR. pose proof (R_len _ _ HR l) as Hl. split; auto.
  assert (Hf : front st l = hd_ptr (alist a l)).
  { unfold front. rewrite Hl. pose proof (ringf_next_head _ _ _ _ (R_ring _ _ HR l)) as Hh.
    destruct (alist a l) as [|x xs]; simpl; auto. }
  split; auto. unfold values. rewrite Hf.
  rewrite (walk_chain st l (alist a l) (Root l)).
  - apply map_ext. intro n. apply (R_val _ _ HR (El n)).
  - rewrite (R_fresh _ _ HR).
    pose proof (NoDup_bounded_length (alist a l) (afresh a) (R_nodup _ _ HR l) (fun x => R_lt _ _ HR x l)). lia.
  - apply (R_ring _ _ HR l).
  - intros n. apply (R_own_in _ _ HR).
Qed.

(* a handle that is in no list (removed, or never inserted) and was not orphaned by Init: Prev = Next = nil *)
Theorem removed_handle_nil : forall st a n, R st a -> ~ In n (aorph a) -> (forall l, ~ In n (alist a l)) ->
  elem_next st (El n) = None /\ elem_prev st (El n) = None.
Proof.
  intros st a n HR Ho Hn. unfold elem_next, elem_prev.
  destruct (own st (El n)) as [l|] eqn:E; auto.
  destruct (R_own_conv _ _ HR _ _ E) as [X|X]; [exfalso; eapply Hn; eauto | contradiction].
Qed.

(* foreign / removed handles (anything that is not a member of list l and was not orphaned by Init):
   every call of list l that is given such a handle changes nothing, in either argument position *)
Theorem foreign_noop : forall st a l p,
  R st a -> is_orphan a p = false -> hmem p (alist a l) = None ->
  step st (Remove l p) = Some (st, OVal (aval_of a p)) /\
  (forall v, step st (InsertBefore l v p) = Some (st, OHandle None)) /\
  (forall v, step st (InsertAfter l v p) = Some (st, OHandle None)) /\
  step st (MoveToFront l p) = Some (st, ONone) /\
  step st (MoveToBack l p) = Some (st, ONone) /\
  (forall q, step st (MoveBefore l p q) = Some (st, ONone) /\ step st (MoveBefore l q p) = Some (st, ONone) /\
             step st (MoveAfter l p q) = Some (st, ONone) /\ step st (MoveAfter l q p) = Some (st, ONone)).
Proof.
  intros st a l p HR Ho Hh. pose proof (owned_spec st a l p HR Ho) as Hs. rewrite Hh in Hs.
  simpl. rewrite Hs. simpl. repeat split; auto.
  - rewrite (R_val _ _ HR). reflexivity.
  - rewrite orb_true_r. reflexivity.
  - rewrite orb_true_r. reflexivity.
Qed.

(* ==== the thread-safe flavour (sequential callers) ==== *)
Theorem ts_equals_plain : forall st o, step_ts st o = Done (step st o).
Proof.
  intros st o. unfold step_ts, step_ts_gen. destruct o; try reflexivity;
    unfold other_ref, ref_ok, rlock_ok; simpl; destruct (Nat.eqb o l) eqn:E; simpl; try reflexivity;
    rewrite Nat.eqb_sym, E; reflexivity.
Qed.

(* D10b on the pinned wrapper: the self-push blocks for ever, whatever the state *)
Theorem selfpush_deadlock_pinned : forall st l,
  step_ts_pinned st (PushBackList l l) = Deadlock /\ step_ts_pinned st (PushFrontList l l) = Deadlock.
Proof.
  intros st l. unfold step_ts_pinned, step_ts_gen, other_ref, ref_ok, rlock_ok. simpl. rewrite Nat.eqb_refl. auto.
Qed.

(* ==== D10a: the regression history, on the pinned and on the repaired MoveBefore/MoveAfter ==== *)
Fixpoint run_with (f : state -> op -> option (state * out)) st (h : list op) : option state :=
  match h with
  | [] => Some st
  | o :: r => match f st o with Some (s1, _) => run_with f s1 r | None => None end
  end.

Definition d10a_before : list op := [PushBack 0 1%Z; PushBack 0 2%Z; PushBack 0 3%Z; MoveBefore 0 (El 2) (El 0)].
Definition d10a_after : list op := [PushBack 0 1%Z; PushBack 0 2%Z; PushBack 0 3%Z; MoveAfter 0 (El 0) (El 2)].

Lemma d10a_pinned :
  option_map (fun s => values s 0) (run_with step_pinned init_state d10a_before) = Some [1; 2; 3]%Z /\
  option_map (fun s => values s 0) (run_with step_pinned init_state d10a_after) = Some [1; 2; 3]%Z.
Proof. split; vm_compute; reflexivity. Qed.

Lemma d10a_fixed :
  option_map (fun s => (values s 0, values_rev s 0)) (run_with step init_state d10a_before) = Some ([3; 1; 2], [2; 1; 3])%Z /\
  option_map (fun s => (values s 0, values_rev s 0)) (run_with step init_state d10a_after) = Some ([2; 3; 1], [1; 3; 2])%Z.
Proof. split; vm_compute; reflexivity. Qed.

(* a history that meets the premises of run_refines (non-vacuity) *)
Definition sample_history : list op :=
  [PushBack 0 1%Z; PushBack 0 2%Z; InsertAfter 0 3%Z (El 0); MoveAfter 0 (El 0) (El 1); Remove 0 (El 2);
   Remove 1 (El 0); InsertBefore 1 4%Z (El 2); MoveToBack 0 (El 0); Init 0; PushFront 0 9%Z; MoveToFront 0 (El 3); MoveToFront 1 (El 3)].
Lemma sample_history_ok : forallb covered sample_history = true /\ zombie_free ainit sample_history = true.
Proof. split; vm_compute; reflexivity. Qed.
