(* C10 - executable pointer-level model of /repo/ds/list_impl.go (after the fix: commits eae1e74, d8bfa53,
   92f6214, ea39c70) and the abstract container/list contract it is compared with.

   Pointers: every list l owns one sentinel [Root l]; elements are [El n], numbered in allocation order.
   A nil pointer is [None]; dereferencing it is a Go panic = [None] in the option monad. *)
From Coq Require Import ZArith List Bool Arith.
Import ListNotations.
Open Scope Z_scope.

Inductive ptr := Root (l : nat) | El (n : nat).

Definition ptr_eqb (a b : ptr) : bool :=
  match a, b with
  | Root x, Root y => Nat.eqb x y
  | El x, El y => Nat.eqb x y
  | _, _ => false
  end.

Definition optptr_eqb (a b : option ptr) : bool :=
  match a, b with Some x, Some y => ptr_eqb x y | None, None => true | _, _ => false end.

Definition optnat_eqb (a b : option nat) : bool :=
  match a, b with Some x, Some y => Nat.eqb x y | None, None => true | _, _ => false end.

Definition upd {A} (f : ptr -> A) (k : ptr) (v : A) : ptr -> A := fun x => if ptr_eqb x k then v else f x.
Definition updn {A} (f : nat -> A) (k : nat) (v : A) : nat -> A := fun x => if Nat.eqb x k then v else f x.

(* listElement.next/prev/list/value (atomic pointers) per pointer; list.len per list; allocation counter *)
Record state := mk {
  nxt : ptr -> option ptr;
  prv : ptr -> option ptr;
  own : ptr -> option nat;
  val : ptr -> option Z;
  len : nat -> Z;
  fresh : nat
}.

Definition set_nxt st p v := mk (upd (nxt st) p v) (prv st) (own st) (val st) (len st) (fresh st).
Definition set_prv st p v := mk (nxt st) (upd (prv st) p v) (own st) (val st) (len st) (fresh st).
Definition set_own st p v := mk (nxt st) (prv st) (upd (own st) p v) (val st) (len st) (fresh st).
Definition set_len st l v := mk (nxt st) (prv st) (own st) (val st) (updn (len st) l v) (fresh st).

Definition bind {A B} (o : option A) (f : A -> option B) : option B :=
  match o with Some a => f a | None => None end.
Notation "x <- e ;; k" := (bind e (fun x => k)) (at level 61, e at next level, right associativity).

(* NewList: every list is created through newList, which calls Init *)
Definition init_state : state :=
  mk (fun p => match p with Root l => Some (Root l) | El _ => None end)
     (fun p => match p with Root l => Some (Root l) | El _ => None end)
     (fun _ => None) (fun _ => None) (fun _ => 0) 0.

(* list.Init *)
Definition do_init st l : state :=
  set_len (set_prv (set_nxt st (Root l) (Some (Root l))) (Root l) (Some (Root l))) l 0.

(* list.lazyInit *)
Definition lazy_init st l : state :=
  match nxt st (Root l) with None => do_init st l | Some _ => st end.

(* list.Front / list.Back *)
Definition front st l : option ptr := if len st l =? 0 then None else nxt st (Root l).
Definition back st l : option ptr := if len st l =? 0 then None else prv st (Root l).

(* listElement.Value / Next / Prev *)
Definition value_of st p : Z := match val st p with Some v => v | None => 0 end.
Definition elem_next st p : option ptr :=
  match own st p with
  | Some ol => match nxt st p with
               | Some n => if ptr_eqb n (Root ol) then None else Some n
               | None => None  (* would be a typed-nil handle; the harness flags it, never seen *)
               end
  | None => None
  end.
Definition elem_prev st p : option ptr :=
  match own st p with
  | Some ol => match prv st p with
               | Some n => if ptr_eqb n (Root ol) then None else Some n
               | None => None
               end
  | None => None
  end.

(* lines 298-299 of move = 285-286 of remove: e.prev.next = e.next; e.next.prev = e.prev *)
Definition unlink st e : option state :=
  p <- prv st e ;;
  let st1 := set_nxt st p (nxt st e) in
  n <- nxt st1 e ;;
  Some (set_prv st1 n (prv st1 e)).

(* lines 301-304 of move = 265-268 of insert: e.prev = at; e.next = at.next; e.prev.next = e; e.next.prev = e *)
Definition link st e at_ : option state :=
  let st1 := set_prv st e (Some at_) in
  let st2 := set_nxt st1 e (nxt st1 at_) in
  p <- prv st2 e ;;
  let st3 := set_nxt st2 p (Some e) in
  n <- nxt st3 e ;;
  Some (set_prv st3 n (Some e)).

(* list.insert *)
Definition insert st l e at_ : option state :=
  st1 <- link st e at_ ;;
  let st2 := set_own st1 e (Some l) in
  Some (set_len st2 l (len st2 l + 1)).

(* list.insertValue: allocate, store the value, insert; returns the new element *)
Definition insert_value st l v at_ : option (state * ptr) :=
  let e := El (fresh st) in
  let st0 := mk (nxt st) (prv st) (own st) (upd (val st) e (Some v)) (len st) (S (fresh st)) in
  st1 <- insert st0 l e at_ ;;
  Some (st1, e).

(* list.remove *)
Definition remove st l e : option state :=
  st1 <- unlink st e ;;
  let st2 := set_own (set_prv (set_nxt st1 e None) e None) e None in
  Some (set_len st2 l (len st2 l - 1)).

(* list.move *)
Definition move st e at_ : option state :=
  if ptr_eqb e at_ then Some st else
  st1 <- unlink st e ;;
  link st1 e at_.

Inductive op :=
| Init (l : nat)
| PushFront (l : nat) (v : Z)
| PushBack (l : nat) (v : Z)
| Remove (l : nat) (e : ptr)
| InsertBefore (l : nat) (v : Z) (m : ptr)
| InsertAfter (l : nat) (v : Z) (m : ptr)
| MoveToFront (l : nat) (e : ptr)
| MoveToBack (l : nat) (e : ptr)
| MoveBefore (l : nat) (e m : ptr)
| MoveAfter (l : nat) (e m : ptr)
| PushBackList (l o : nat)
| PushFrontList (l o : nat).

(* what a call returns: nothing, the list (Init), an element handle or nil, a value *)
Inductive out := ONone | OList (l : nat) | OHandle (h : option ptr) | OVal (v : Z).

Definition owned st p l : bool := optnat_eqb (own st p) (Some l).

(* the loops of PushBackList / PushFrontList; k = the length snapshot, e = the cursor in the other list *)
Fixpoint push_back_loop (k : nat) st l (e : option ptr) : option state :=
  match k with
  | O => Some st
  | S k' =>
      p <- e ;;                         (* the type assertion on a nil interface panics *)
      at_ <- prv st (Root l) ;;
      r <- insert_value st l (value_of st p) at_ ;;
      push_back_loop k' (fst r) l (elem_next (fst r) p)
  end.

Fixpoint push_front_loop (k : nat) st l (e : option ptr) : option state :=
  match k with
  | O => Some st
  | S k' =>
      p <- e ;;
      r <- insert_value st l (value_of st p) (Root l) ;;
      push_front_loop k' (fst r) l (elem_prev (fst r) p)
  end.

(* one method call of the lock-free flavour; None = the call panics *)
Definition step st (o : op) : option (state * out) :=
  match o with
  | Init l => Some (do_init st l, OList l)
  | PushFront l v =>
      let st := lazy_init st l in
      r <- insert_value st l v (Root l) ;; Some (fst r, OHandle (Some (snd r)))
  | PushBack l v =>
      let st := lazy_init st l in
      at_ <- prv st (Root l) ;;
      r <- insert_value st l v at_ ;; Some (fst r, OHandle (Some (snd r)))
  | Remove l e =>
      if owned st e l then st1 <- remove st l e ;; Some (st1, OVal (value_of st1 e))
      else Some (st, OVal (value_of st e))
  | InsertBefore l v m =>
      if owned st m l then
        at_ <- prv st m ;; r <- insert_value st l v at_ ;; Some (fst r, OHandle (Some (snd r)))
      else Some (st, OHandle None)
  | InsertAfter l v m =>
      if owned st m l then r <- insert_value st l v m ;; Some (fst r, OHandle (Some (snd r)))
      else Some (st, OHandle None)
  | MoveToFront l e =>
      if negb (owned st e l) || optptr_eqb (nxt st (Root l)) (Some e) then Some (st, ONone)
      else st1 <- move st e (Root l) ;; Some (st1, ONone)
  | MoveToBack l e =>
      if negb (owned st e l) || optptr_eqb (prv st (Root l)) (Some e) then Some (st, ONone)
      else at_ <- prv st (Root l) ;; st1 <- move st e at_ ;; Some (st1, ONone)
  | MoveBefore l e m =>
      if negb (owned st e l) || ptr_eqb e m || negb (owned st m l) then Some (st, ONone)
      else at_ <- prv st m ;; st1 <- move st e at_ ;; Some (st1, ONone)
  | MoveAfter l e m =>
      if negb (owned st e l) || ptr_eqb e m || negb (owned st m l) then Some (st, ONone)
      else st1 <- move st e m ;; Some (st1, ONone)
  | PushBackList l o =>
      let st := lazy_init st l in
      st1 <- push_back_loop (Z.to_nat (len st o)) st l (front st o) ;; Some (st1, ONone)
  | PushFrontList l o =>
      let st := lazy_init st l in
      st1 <- push_front_loop (Z.to_nat (len st o)) st l (back st o) ;; Some (st1, ONone)
  end.

Fixpoint run st (h : list op) : option (state * list out) :=
  match h with
  | [] => Some (st, [])
  | o :: r => s1 <- step st o ;; s2 <- run (fst s1) r ;; Some (fst s2, snd s1 :: snd s2)
  end.

(* ---- observations (Range/ForEach walk Front..Next, the reverse ones Back..Prev) ---- *)
Fixpoint walk (nx : state -> ptr -> option ptr) (fuel : nat) st (e : option ptr) : list Z :=
  match fuel, e with
  | S f, Some p => value_of st p :: walk nx f st (nx st p)
  | _, _ => []
  end.
Definition values st l : list Z := walk elem_next (S (S (fresh st))) st (front st l).
Definition values_rev st l : list Z := walk elem_prev (S (S (fresh st))) st (back st l).

(* ---- the thread-safe flavour: the same list behind one RWMutex per list (sequential callers) ---- *)
Inductive lref := TS (l : nat) | Inner (l : nat).  (* a List value: the locking wrapper or its embedded list *)
Inductive res := Done (r : option (state * out)) | Deadlock.

(* RLock of list o while the caller holds the write lock of w: blocks for ever iff o = w *)
Definition rlock_ok (w o : nat) : bool := negb (Nat.eqb w o).
Definition ref_ok (w : nat) (r : lref) : bool := match r with TS o => rlock_ok w o | Inner _ => true end.

(* fixed = after d8bfa53: "if other == t { other = t.list }" *)
Definition other_ref (fixed : bool) (l o : nat) : lref :=
  if fixed && Nat.eqb o l then Inner l else TS o.

Definition step_ts_gen (fixed : bool) st (o : op) : res :=
  match o with
  | PushBackList l o' | PushFrontList l o' =>
      (* Lock(l); other.Len(), other.Front()/Back() take RLock(other) unless other is the inner list *)
      if ref_ok l (other_ref fixed l o') then Done (step st o) else Deadlock
  | _ => Done (step st o)   (* Lock/RLock(l); call the embedded list; Unlock *)
  end.
Definition step_ts := step_ts_gen true.
Definition step_ts_pinned := step_ts_gen false.

(* pinned MoveBefore/MoveAfter (before eae1e74): positionTyped was taken from element *)
Definition step_pinned st (o : op) : option (state * out) :=
  match o with
  | MoveBefore l e m =>
      if negb (owned st e l) || ptr_eqb e m || negb (owned st e l) then Some (st, ONone)
      else at_ <- prv st e ;; st1 <- move st e at_ ;; Some (st1, ONone)
  | MoveAfter l e m =>
      if negb (owned st e l) || ptr_eqb e m || negb (owned st e l) then Some (st, ONone)
      else st1 <- move st e e ;; Some (st1, ONone)
  | _ => step st o
  end.

(* ==== the abstract contract (container/list as sequences of element ids) ==== *)
Record astate := amk {
  alist : nat -> list nat;   (* the elements of every list, front to back *)
  aorph : list nat;          (* elements orphaned by Init on a non-empty list *)
  aval : nat -> Z;
  afresh : nat
}.
Definition ainit : astate := amk (fun _ => []) [] (fun _ => 0) 0.

Definition mem (n : nat) (xs : list nat) : bool := existsb (Nat.eqb n) xs.
Definition rem (n : nat) (xs : list nat) : list nat := filter (fun x => negb (Nat.eqb x n)) xs.
Fixpoint ins_after (m e : nat) (xs : list nat) : list nat :=
  match xs with [] => [] | x :: r => if Nat.eqb x m then x :: e :: r else x :: ins_after m e r end.
Fixpoint ins_before (m e : nat) (xs : list nat) : list nat :=
  match xs with [] => [] | x :: r => if Nat.eqb x m then e :: x :: r else x :: ins_before m e r end.

Definition hmem (p : ptr) (xs : list nat) : option nat :=
  match p with El n => if mem n xs then Some n else None | Root _ => None end.
Definition aval_of a (p : ptr) : Z := match p with El n => aval a n | Root _ => 0 end.

Definition aset a l xs := amk (updn (alist a) l xs) (aorph a) (aval a) (afresh a).
Definition aalloc a v := amk (alist a) (aorph a) (updn (aval a) (afresh a) v) (S (afresh a)).

(* copies of the values vs appended (back) / prepended one by one (front) with fresh ids *)
Fixpoint acopy_back a l (vs : list Z) : astate :=
  match vs with
  | [] => a
  | v :: r => let a1 := aalloc a v in acopy_back (aset a1 l (alist a1 l ++ [afresh a])) l r
  end.
Fixpoint acopy_front a l (vs : list Z) : astate :=
  match vs with
  | [] => a
  | v :: r => let a1 := aalloc a v in acopy_front (aset a1 l (afresh a :: alist a1 l)) l r
  end.

Definition astep a (o : op) : astate * out :=
  match o with
  | Init l => (amk (updn (alist a) l []) (alist a l ++ aorph a) (aval a) (afresh a), OList l)
  | PushFront l v => let a1 := aalloc a v in (aset a1 l (afresh a :: alist a l), OHandle (Some (El (afresh a))))
  | PushBack l v => let a1 := aalloc a v in (aset a1 l (alist a l ++ [afresh a]), OHandle (Some (El (afresh a))))
  | Remove l e =>
      match hmem e (alist a l) with
      | Some n => (aset a l (rem n (alist a l)), OVal (aval a n))
      | None => (a, OVal (aval_of a e))
      end
  | InsertBefore l v m =>
      match hmem m (alist a l) with
      | Some n => let a1 := aalloc a v in (aset a1 l (ins_before n (afresh a) (alist a l)), OHandle (Some (El (afresh a))))
      | None => (a, OHandle None)
      end
  | InsertAfter l v m =>
      match hmem m (alist a l) with
      | Some n => let a1 := aalloc a v in (aset a1 l (ins_after n (afresh a) (alist a l)), OHandle (Some (El (afresh a))))
      | None => (a, OHandle None)
      end
  | MoveToFront l e =>
      match hmem e (alist a l) with
      | Some n => (aset a l (n :: rem n (alist a l)), ONone)
      | None => (a, ONone)
      end
  | MoveToBack l e =>
      match hmem e (alist a l) with
      | Some n => (aset a l (rem n (alist a l) ++ [n]), ONone)
      | None => (a, ONone)
      end
  | MoveBefore l e m =>
      match hmem e (alist a l), hmem m (alist a l) with
      | Some n, Some k => if Nat.eqb n k then (a, ONone) else (aset a l (ins_before k n (rem n (alist a l))), ONone)
      | _, _ => (a, ONone)
      end
  | MoveAfter l e m =>
      match hmem e (alist a l), hmem m (alist a l) with
      | Some n, Some k => if Nat.eqb n k then (a, ONone) else (aset a l (ins_after k n (rem n (alist a l))), ONone)
      | _, _ => (a, ONone)
      end
  | PushBackList l o => (acopy_back a l (map (aval a) (alist a o)), ONone)
  | PushFrontList l o => (acopy_front a l (rev (map (aval a) (alist a o))), ONone)
  end.

Fixpoint arun a (h : list op) : astate * list out :=
  match h with
  | [] => (a, [])
  | o :: r => let s1 := astep a o in let s2 := arun (fst s1) r in (fst s2, snd s1 :: snd s2)
  end.

(* handles an operation passes *)
Definition handles (o : op) : list ptr :=
  match o with
  | Remove _ e | MoveToFront _ e | MoveToBack _ e => [e]
  | InsertBefore _ _ m | InsertAfter _ _ m => [m]
  | MoveBefore _ e m | MoveAfter _ e m => [e; m]
  | _ => []
  end.
Definition is_orphan a (p : ptr) : bool := match p with El n => mem n (aorph a) | Root _ => false end.

(* zombie_free: no call passes a handle that Init orphaned (container/list itself leaves its contract there) *)
Fixpoint zombie_free a (h : list op) : bool :=
  match h with
  | [] => true
  | o :: r => negb (existsb (is_orphan a) (handles o)) && zombie_free (fst (astep a o)) r
  end.

(* abstract observations of a handle: Prev, Next (as element ids) *)
Fixpoint succ_of (n : nat) (xs : list nat) : option nat :=
  match xs with
  | x :: ((y :: _) as r) => if Nat.eqb x n then Some y else succ_of n r
  | _ => None
  end.
Definition pred_of (n : nat) (xs : list nat) : option nat := succ_of n (rev xs).
Definition aowner a (n : nat) (l : nat) : bool := mem n (alist a l).

(* ======================================================================================================
   The iteration methods: ForEach / ForEachReverse / Range / RangeReverse (Values = Range with a collecting
   callback) with a callback that may call back into the lists or (ForEach kinds) return an error.

   list.Range:    for element := l.Front(); element != nil; element = element.Next() { callback(element.Value()) }
   list.ForEach:  the same loop, "if err := callback(...); err != nil { return err }"
   The successor is read AFTER the callback returned.

   A scripted callback: what it does at its visit 0, 1, 2, ... (nothing once the script is used up). One visit
   = nothing, abort (return an error; the Range kinds have no error result, there it is nothing), a panic, or ONE call of
   a list method whose handle arguments are the visited element, its Next(), its Prev() or a fixed handle. *)
Inductive rel := Cur | Nxt | Prv | Abs (p : ptr).
Inductive cbact :=
| CNop
| CAbort
| CPanic                                                (* the callback itself panics *)
| CPush (back : bool) (l : nat) (v : Z)                 (* l.PushBack(v) / l.PushFront(v) *)
| CRemove (l : nat) (r : rel)
| CInsert (after : bool) (l : nat) (v : Z) (r : rel)    (* l.InsertAfter(v, r) / l.InsertBefore(v, r) *)
| CMoveEnd (back : bool) (l : nat) (r : rel)            (* l.MoveToBack(r) / l.MoveToFront(r) *)
| CMove (after : bool) (l : nat) (r m : rel)            (* l.MoveAfter(r, m) / l.MoveBefore(r, m) *)
| CPushList (back : bool) (l o : nat)                   (* l.PushBackList(o) / l.PushFrontList(o) *)
| CInit (l : nat).

(* the call a callback action makes, given how its relative handles resolve; None = nothing to call
   (the script says "Next of the visited element" and there is none) *)
Definition cb_op_with (res : rel -> option ptr) (a : cbact) : option op :=
  match a with
  | CNop | CAbort | CPanic => None
  | CPush b l v => Some (if b then PushBack l v else PushFront l v)
  | CRemove l r => option_map (Remove l) (res r)
  | CInsert af l v r => option_map (fun q => if af then InsertAfter l v q else InsertBefore l v q) (res r)
  | CMoveEnd b l r => option_map (fun q => if b then MoveToBack l q else MoveToFront l q) (res r)
  | CMove af l r m => e <- res r ;; q <- res m ;; Some (if af then MoveAfter l e q else MoveBefore l e q)
  | CPushList b l o => Some (if b then PushBackList l o else PushFrontList l o)
  | CInit l => Some (Init l)
  end.

Definition rel_ptr st (p : ptr) (r : rel) : option ptr :=
  match r with Cur => Some p | Nxt => elem_next st p | Prv => elem_prev st p | Abs q => Some q end.
Definition cb_op st p (a : cbact) : option op := cb_op_with (rel_ptr st p) a.

Definition is_abort (a : cbact) : bool := match a with CAbort => true | _ => false end.
Definition is_panic (a : cbact) : bool := match a with CPanic => true | _ => false end.

(* element.Next() / element.Prev(), by direction of the walk *)
Definition adv (rv : bool) : state -> ptr -> option ptr := if rv then elem_prev else elem_next.

(* result of a walk: final state, the values handed to the callback in order, aborted with an error? *)
Definition iterres : Type := state * list Z * bool.

(* the loop, structurally over the script; once the script is used up the rest of the walk is passive (= [walk]).
   [call] is how the callback's calls are executed: [step] for the lock-free list. None = a panic. *)
Fixpoint iter_walk (call : state -> op -> option state) (rv fe : bool) (script : list cbact) st (e : option ptr)
  : option iterres :=
  match script with
  | [] => Some (st, walk (adv rv) (S (S (fresh st))) st e, false)
  | a :: rest =>
      match e with
      | None => Some (st, [], false)
      | Some p =>
          let v := value_of st p in
          if fe && is_abort a then Some (st, [v], true) else
          if is_panic a then None else
          st1 <- match cb_op st p a with None => Some st | Some o => call st o end ;;
          r <- iter_walk call rv fe rest st1 (adv rv st1 p) ;;   (* the successor is read in the NEW state *)
          Some (fst (fst r), v :: snd (fst r), snd r)
      end
  end.

Definition first (rv : bool) st l : option ptr := if rv then back st l else front st l.

(* a history entry: one of the twelve calls, or an iteration of list l (rv: reverse, fe: a ForEach kind) *)
Inductive call := Call (o : op) | Iter (l : nat) (rv fe : bool) (script : list cbact).
Inductive cout := COut (o : out) | CIter (visited : list Z) (aborted : bool).

Definition step_state st o : option state := option_map fst (step st o).

Definition cstep st (c : call) : option (state * cout) :=
  match c with
  | Call o => r <- step st o ;; Some (fst r, COut (snd r))
  | Iter l rv fe script =>
      r <- iter_walk step_state rv fe script st (first rv st l) ;;
      Some (fst (fst r), CIter (snd (fst r)) (snd r))
  end.

Fixpoint crun st (h : list call) : option (state * list cout) :=
  match h with
  | [] => Some (st, [])
  | c :: r => s1 <- cstep st c ;; s2 <- crun (fst s1) r ;; Some (fst s2, snd s1 :: snd s2)
  end.

(* ---- the reference: the loop "for e := l.Front(); e != nil; e = e.Next() { f(e) }" over container/list ---- *)
Definition dir (rv : bool) (xs : list nat) : list nat := if rv then rev xs else xs.
Definition arel a l (n : nat) (r : rel) : option ptr :=
  match r with
  | Cur => Some (El n)
  | Nxt => option_map El (succ_of n (alist a l))
  | Prv => option_map El (pred_of n (alist a l))
  | Abs q => Some q
  end.
Definition acb_op a l n (act : cbact) : option op := cb_op_with (arel a l n) act.

(* what is left of the list from element n on (n first) *)
Fixpoint from (n : nat) (xs : list nat) : list nat :=
  match xs with [] => [] | x :: r => if Nat.eqb x n then xs else from n r end.

Definition aiterres : Type := astate * list Z * bool.
Fixpoint aiter (rv fe : bool) (script : list cbact) a l (e : option nat) : aiterres :=
  match script with
  | [] => (a, match e with None => [] | Some n => map (aval a) (from n (dir rv (alist a l))) end, false)
  | act :: rest =>
      match e with
      | None => (a, [], false)
      | Some n =>
          let v := aval a n in
          if fe && is_abort act then (a, [v], true) else
          let a1 := match acb_op a l n act with None => a | Some o => fst (astep a o) end in
          let r := aiter rv fe rest a1 l (succ_of n (dir rv (alist a1 l))) in
          (fst (fst r), v :: snd (fst r), snd r)
      end
  end.

Definition acstep a (c : call) : astate * cout :=
  match c with
  | Call o => let r := astep a o in (fst r, COut (snd r))
  | Iter l rv fe script =>
      let r := aiter rv fe script a l (hd_error (dir rv (alist a l))) in
      (fst (fst r), CIter (snd (fst r)) (snd r))
  end.

Fixpoint acrun a (h : list call) : astate * list cout :=
  match h with
  | [] => (a, [])
  | c :: r => let s1 := acstep a c in let s2 := acrun (fst s1) r in (fst s2, snd s1 :: snd s2)
  end.

(* zombie-freeness of an iteration: no callback call passes an Init-orphaned handle, no callback orphans
   the element the walk stands on (its Next() would read a dead ring, as in container/list), and no callback
   panics by itself (then the iteration has no result, in the reference loop either) *)
Fixpoint iter_zombie_free (rv fe : bool) (script : list cbact) a l (e : option nat) : bool :=
  match script with
  | [] => true
  | act :: rest =>
      match e with
      | None => true
      | Some n =>
          if fe && is_abort act then true else
          let o := acb_op a l n act in
          let a1 := match o with None => a | Some o => fst (astep a o) end in
          negb (is_panic act) &&
          negb (match o with None => false | Some o => existsb (is_orphan a) (handles o) end) &&
          negb (mem n (aorph a1)) &&
          iter_zombie_free rv fe rest a1 l (succ_of n (dir rv (alist a1 l)))
      end
  end.

Definition call_zombie_free a (c : call) : bool :=
  match c with
  | Call o => negb (existsb (is_orphan a) (handles o))
  | Iter l rv fe script => iter_zombie_free rv fe script a l (hd_error (dir rv (alist a l)))
  end.

Fixpoint czombie_free a (h : list call) : bool :=
  match h with
  | [] => true
  | c :: r => call_zombie_free a c && czombie_free (fst (acstep a c)) r
  end.

(* ======================================================================================================
   The thread-safe flavour with its RWMutex made explicit (one per list; sequential caller, so a lock
   that cannot be taken is never released by somebody else: the call blocks for ever).
   Every method is  lock; defer unlock; body  - the deferred unlock runs on every exit path: normal
   return, return of the callback's error, a panic out of the body. *)
Record locks := lk { rd : list nat; wr : list nat }.   (* the holds, newest first: one entry per RLock / Lock *)
Definition lk0 : locks := lk [] [].

Fixpoint remove1 (l : nat) (xs : list nat) : list nat :=
  match xs with [] => [] | x :: r => if Nat.eqb x l then r else x :: remove1 l r end.

Definition can_rlock (k : locks) l : bool := negb (mem l (wr k)).
Definition can_lock (k : locks) l : bool := negb (mem l (wr k)) && negb (mem l (rd k)).
Definition rlock k l := lk (l :: rd k) (wr k).
Definition runlock k l := lk (remove1 l (rd k)) (wr k).
Definition wlock k l := lk (rd k) (l :: wr k).
Definition wunlock k l := lk (rd k) (remove1 l (wr k)).

(* the list a mutating call locks *)
Definition op_list (o : op) : nat :=
  match o with
  | Init l | PushFront l _ | PushBack l _ | Remove l _ | InsertBefore l _ _ | InsertAfter l _ _
  | MoveToFront l _ | MoveToBack l _ | MoveBefore l _ _ | MoveAfter l _ _ | PushBackList l _ | PushFrontList l _ => l
  end.

(* exit paths of a wrapper method and whether the lock is released on them. The code uses defer: all true. *)
Record relpolicy := rp { rel_normal : bool; rel_error : bool; rel_panic : bool }.
Definition deferred : relpolicy := rp true true true.

Inductive tres (A : Type) := TDone (r : option A) (k : locks) | TBlocked.
Arguments TDone {A}. Arguments TBlocked {A}.

(* one of the twelve calls on the wrapper, from lock state k *)
Definition op_ts (fixed : bool) (k : locks) st (o : op) : tres (state * out) :=
  let l := op_list o in
  if negb (can_lock k l) then TBlocked else
  let k1 := wlock k l in
  let inner_ok :=
    match o with
    | PushBackList _ o' | PushFrontList _ o' =>
        match other_ref fixed l o' with TS o'' => can_rlock k1 o'' | Inner _ => true end
        (* other.Len() / Front() / Back(): RLock(other); RUnlock(other) - balanced, reads only *)
    | _ => true
    end in
  if negb inner_ok then TBlocked else TDone (step st o) (wunlock k1 l).

(* the walk of ForEach/Range on the wrapper: the callback's calls go to wrapper methods under lock state k
   (which has this iteration's read lock); TBlocked as soon as one of them blocks *)
Fixpoint iter_walk_ts (k : locks) (rv fe : bool) (script : list cbact) st (e : option ptr) : tres iterres :=
  match script with
  | [] => TDone (Some (st, walk (adv rv) (S (S (fresh st))) st e, false)) k
  | a :: rest =>
      match e with
      | None => TDone (Some (st, [], false)) k
      | Some p =>
          let v := value_of st p in
          if fe && is_abort a then TDone (Some (st, [v], true)) k else
          if is_panic a then TDone None k else
          match (match cb_op st p a with None => TDone (Some (st, ONone)) k | Some o => op_ts true k st o end) with
          | TBlocked => TBlocked
          | TDone None k1 => TDone None k1                        (* the callback's call panicked *)
          | TDone (Some (st1, _)) k1 =>
              match iter_walk_ts k1 rv fe rest st1 (adv rv st1 p) with
              | TBlocked => TBlocked
              | TDone None k2 => TDone None k2
              | TDone (Some r) k2 => TDone (Some (fst (fst r), v :: snd (fst r), snd r)) k2
              end
          end
      end
  end.

Definition release (pol : relpolicy) (r : option iterres) : bool :=
  match r with
  | None => rel_panic pol
  | Some (_, _, true) => rel_error pol
  | Some (_, _, false) => rel_normal pol
  end.

Definition cstep_ts_gen (pol : relpolicy) (k : locks) st (c : call) : tres (state * cout) :=
  match c with
  | Call o =>
      match op_ts true k st o with
      | TBlocked => TBlocked
      | TDone r k1 => TDone (option_map (fun r => (fst r, COut (snd r))) r) k1
      end
      (* (Front/first of an iteration take and release the read lock inside the loop header: t.list.ForEach
         calls the embedded list's Front directly, no further lock) *)
  | Iter l rv fe script =>
      if negb (can_rlock k l) then TBlocked else
      match iter_walk_ts (rlock k l) rv fe script st (first rv st l) with
      | TBlocked => TBlocked
      | TDone r k1 =>
          TDone (option_map (fun r => (fst (fst r), CIter (snd (fst r)) (snd r))) r)
                (if release pol r then runlock k1 l else k1)
      end
  end.
Definition cstep_ts := cstep_ts_gen deferred.

Fixpoint crun_ts_gen (pol : relpolicy) (k : locks) st (h : list call) : tres (state * list cout) :=
  match h with
  | [] => TDone (Some (st, [])) k
  | c :: r =>
      match cstep_ts_gen pol k st c with
      | TBlocked => TBlocked
      | TDone None k1 => TDone None k1
      | TDone (Some s1) k1 =>
          match crun_ts_gen pol k1 (fst s1) r with
          | TBlocked => TBlocked
          | TDone None k2 => TDone None k2
          | TDone (Some s2) k2 => TDone (Some (fst s2, snd s1 :: snd s2)) k2
          end
      end
  end.
Definition crun_ts := crun_ts_gen deferred.

(* a callback never writes the list being iterated (such a call asks for the write lock under the
   iteration's own read lock) *)
Definition cb_list (a : cbact) : option nat :=
  match a with
  | CNop | CAbort | CPanic => None
  | CPush _ l _ | CRemove l _ | CInsert _ l _ _ | CMoveEnd _ l _ | CMove _ l _ _ | CPushList _ l _ | CInit l => Some l
  end.
Definition ts_safe (c : call) : bool :=
  match c with
  | Call _ => true
  | Iter l _ _ script => forallb (fun a => negb (optnat_eqb (cb_list a) (Some l))) script
  end.
