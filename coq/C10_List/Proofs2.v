(* C10 - the rest of the refinement: backward observations (Back, reverse Values, Prev/Next/Value of every
   live handle), MoveBefore, PushBackList / PushFrontList (length snapshot loop, including other == l),
   and the refinement theorem for ALL twelve calls. *)
From Coq Require Import ZArith List Bool Arith Lia Permutation.
From Verif.C10_List Require Import Model Ring Proofs.
Import ListNotations.
Close Scope Z_scope.

(* ==== Prev / Next of a live handle, read from the ring ==== *)
Lemma snoc_dec : forall (T : Type) (xs : list T), xs = [] \/ exists ys y, xs = ys ++ [y].
Proof.
  intros T xs. destruct xs as [|x xs]; [left; reflexivity|].
  right. destruct (@exists_last _ (x :: xs)) as (ys & y & E); [discriminate|]. eauto.
Qed.

Lemma hd_ptr_hd_error : forall xs, hd_ptr xs = option_map El (hd_error xs).
Proof. intros [|x xs]; reflexivity. Qed.

Lemma ringof_split : forall a l A n B, alist a l = A ++ n :: B ->
  ringof a l = (Root l :: map El A) ++ El n :: map El B.
Proof. intros a l A n B H. unfold ringof. rewrite H, map_app. reflexivity. Qed.

Lemma elem_next_spec : forall st a l A n B, R st a -> alist a l = A ++ n :: B ->
  elem_next st (El n) = hd_ptr B.
Proof.
  intros st a l A n B HR Hsp.
  assert (Hin : In n (alist a l)) by (rewrite Hsp; apply in_or_app; right; left; auto).
  unfold elem_next. rewrite (R_own_in _ _ HR _ _ Hin).
  pose proof (R_ring _ _ HR l) as Hr. rewrite (ringof_split _ _ _ _ _ Hsp) in Hr. unfold ring in Hr.
  destruct B as [|b B']; simpl map in Hr.
  - change ((Root l :: map El A) ++ [El n]) with (Root l :: map El A ++ [El n]) in Hr.
    apply ring_last_next in Hr. destruct Hr as [Hn _]. rewrite Hn. rewrite ptr_eqb_refl. reflexivity.
  - apply ring_adj in Hr. destruct Hr as [Hn _]. rewrite Hn. reflexivity.
Qed.

Lemma elem_prev_spec : forall st a l A n B, R st a -> alist a l = A ++ n :: B ->
  elem_prev st (El n) = hd_ptr (rev A).
Proof.
  intros st a l A n B HR Hsp.
  assert (Hin : In n (alist a l)) by (rewrite Hsp; apply in_or_app; right; left; auto).
  unfold elem_prev. rewrite (R_own_in _ _ HR _ _ Hin).
  pose proof (R_ring _ _ HR l) as Hr. rewrite (ringof_split _ _ _ _ _ Hsp) in Hr. unfold ring in Hr.
  destruct (snoc_dec _ A) as [E0|(A0 & y & E)].
  - subst A. simpl in *.
    apply (ring_adj _ _ [] (Root l) (El n) (map El B)) in Hr. destruct Hr as [_ Hp]. rewrite Hp.
    rewrite ptr_eqb_refl. reflexivity.
  - subst A. rewrite rev_app_distr. simpl. clear Hr.
    assert (Hro : ringof a l = (Root l :: map El A0) ++ El y :: El n :: map El B).
    { unfold ringof. rewrite Hsp, !map_app. simpl. rewrite <- app_assoc. reflexivity. }
    pose proof (R_ring _ _ HR l) as Hr. rewrite Hro in Hr.
    apply ring_adj in Hr. destruct Hr as [_ Hp]. rewrite Hp. reflexivity.
Qed.

Lemma succ_of_split : forall n A B, ~ In n A -> succ_of n (A ++ n :: B) = hd_error B.
Proof.
  induction A as [|x A IH]; intros B Hn.
  - simpl. destruct B; simpl; rewrite ?Nat.eqb_refl; reflexivity.
  - assert (Hx : Nat.eqb x n = false) by (apply Nat.eqb_neq; intro; subst; apply Hn; left; auto).
    assert (IH' : succ_of n (A ++ n :: B) = hd_error B) by (apply IH; intro; apply Hn; right; auto).
    simpl. destruct (A ++ n :: B) as [|y t] eqn:E.
    + destruct A; discriminate.
    + rewrite Hx. exact IH'.
Qed.

Lemma pred_of_split : forall n A B, ~ In n B -> pred_of n (A ++ n :: B) = hd_error (rev A).
Proof.
  intros n A B Hn. unfold pred_of. rewrite rev_app_distr. simpl. rewrite <- app_assoc. simpl.
  apply succ_of_split. rewrite <- in_rev. exact Hn.
Qed.

(* Prev, Next and Value of every live handle are the contract's *)
Theorem handle_obs_refines : forall st a l n, R st a -> In n (alist a l) ->
  elem_next st (El n) = option_map El (succ_of n (alist a l)) /\
  elem_prev st (El n) = option_map El (pred_of n (alist a l)) /\
  value_of st (El n) = aval a n.
Proof.
  intros st a l n HR Hin. destruct (in_split _ _ Hin) as (A & B & Hsp).
  pose proof (R_nodup _ _ HR l) as Hnd. rewrite Hsp in Hnd.
  pose proof (NoDup_remove_2 _ _ _ Hnd) as Hn.
  split; [|split].
  - rewrite (elem_next_spec st a l A n B HR Hsp). rewrite Hsp.
    rewrite succ_of_split by (intro; apply Hn; apply in_or_app; auto). apply hd_ptr_hd_error.
  - rewrite (elem_prev_spec st a l A n B HR Hsp). rewrite Hsp.
    rewrite pred_of_split by (intro; apply Hn; apply in_or_app; auto). apply hd_ptr_hd_error.
  - apply (R_val _ _ HR (El n)).
Qed.

(* ==== Back and the reverse walk ==== *)
Lemma back_spec : forall st a l, R st a -> back st l = hd_ptr (rev (alist a l)).
Proof.
  intros st a l HR. unfold back. rewrite (R_len _ _ HR l).
  pose proof (R_ring _ _ HR l) as Hr. unfold ring, ringof in Hr.
  destruct (snoc_dec _ (alist a l)) as [E0|(A0 & y & E)].
  - rewrite E0. reflexivity.
  - rewrite E in *. rewrite rev_app_distr. simpl.
    rewrite map_app in Hr. simpl in Hr. apply ring_last_next in Hr. destruct Hr as [_ Hp].
    rewrite app_length. simpl.
    destruct (Z.eqb_spec (Z.of_nat (length A0 + 1)) 0%Z) as [X|X]; [lia|]. exact Hp.
Qed.

Lemma walk_prev : forall st a l rs post fuel, R st a ->
  alist a l = rev rs ++ post -> length rs < fuel ->
  walk elem_prev fuel st (hd_ptr rs) = map (fun n => value_of st (El n)) rs.
Proof.
  induction rs as [|x r IH]; intros post fuel HR Hsp Hf; simpl.
  - destruct fuel; reflexivity.
  - destruct fuel as [|fuel]; [simpl in Hf; lia|]. simpl. f_equal.
    simpl in Hsp. rewrite <- app_assoc in Hsp. simpl in Hsp.
    rewrite (elem_prev_spec st a l (rev r) x post HR Hsp). rewrite rev_involutive.
    apply (IH (x :: post)); auto. simpl in Hf; lia.
Qed.

Theorem obs_back_refines : forall st a l, R st a ->
  back st l = hd_ptr (rev (alist a l)) /\
  values_rev st l = map (aval a) (rev (alist a l)).
Proof.
  intros st a l HR. split; [apply back_spec; auto|].
  unfold values_rev. rewrite (back_spec st a l HR).
  rewrite (walk_prev st a l (rev (alist a l)) [] _ HR).
  - apply map_ext. intro n. apply (R_val _ _ HR (El n)).
  - rewrite rev_involutive, app_nil_r. reflexivity.
  - rewrite rev_length. rewrite (R_fresh _ _ HR).
    pose proof (NoDup_bounded_length (alist a l) (afresh a) (R_nodup _ _ HR l) (fun x => R_lt _ _ HR x l)). lia.
Qed.

Theorem obs_all_refines : forall st a l, R st a ->
  len st l = Z.of_nat (length (alist a l)) /\
  front st l = hd_ptr (alist a l) /\
  back st l = hd_ptr (rev (alist a l)) /\
  values st l = map (aval a) (alist a l) /\
  values_rev st l = map (aval a) (rev (alist a l)).
Proof.
  intros st a l HR. destruct (obs_refines st a l HR) as (H1 & H2 & H3).
  destruct (obs_back_refines st a l HR) as (H4 & H5). auto.
Qed.

(* ==== MoveBefore ==== *)
Ltac norm_lists := repeat first [rewrite map_app | rewrite <- app_assoc | progress simpl]; reflexivity.

Lemma in_rem : forall n k xs, In k (rem n xs) <-> k <> n /\ In k xs.
Proof.
  intros n k xs. unfold rem. rewrite filter_In. rewrite negb_true_iff, Nat.eqb_neq. tauto.
Qed.

Lemma NoDup_app_notin_l : forall (A B : list nat) x, NoDup (A ++ B) -> In x B -> ~ In x A.
Proof.
  induction A as [|y A IH]; intros B x Hnd Hb Ha; [destruct Ha|].
  simpl in Hnd. apply NoDup_cons_iff in Hnd. destruct Hnd as [Hy Hnd]. destruct Ha as [Ha|Ha].
  - subst. apply Hy. apply in_or_app; auto.
  - eapply IH; eauto.
Qed.

(* the ring predecessor of member k of list l *)
Lemma prv_member : forall st a l X k Y, R st a -> alist a l = X ++ k :: Y ->
  prv st (El k) = Some (last (map El X) (Root l)).
Proof.
  intros st a l X k Y HR Hsp.
  pose proof (R_ring _ _ HR l) as Hr. rewrite (ringof_split _ _ _ _ _ Hsp) in Hr. unfold ring in Hr.
  destruct (@exists_last _ (Root l :: map El X)) as (P & p & E); [discriminate|].
  assert (Hl : last (map El X) (Root l) = p).
  { rewrite <- (last_cons_default (map El X) (Root l) (Root l)). rewrite E. apply last_last. }
  rewrite Hl. rewrite E in Hr. rewrite <- app_assoc in Hr. simpl in Hr.
  apply ring_adj in Hr. tauto.
Qed.

Lemma step_MoveBefore : forall st a l e m, R st a -> is_orphan a e = false -> is_orphan a m = false ->
  refines_step st a (MoveBefore l e m).
Proof.
  intros st a l e m HR Ho Ho'. unfold refines_step. simpl.
  pose proof (owned_spec st a l e HR Ho) as Hs. pose proof (owned_spec st a l m HR Ho') as Hs'.
  destruct (hmem e (alist a l)) as [n|].
  - destruct Hs as (E & Hin & Hown). subst e. rewrite Hown. simpl.
    destruct (hmem m (alist a l)) as [k|].
    + destruct Hs' as (E & Hin' & Hown'). subst m. rewrite Hown'. simpl.
      destruct (Nat.eqb n k) eqn:Hnk.
      * simpl. eexists; split; [reflexivity | exact HR].
      * simpl. apply Nat.eqb_neq in Hnk.
        pose proof (R_nodup _ _ HR l) as Hnd.
        destruct (in_split _ _ Hin') as (X & Y & Hsp).
        rewrite (prv_member st a l X k Y HR Hsp). simpl.
        rewrite Hsp in Hin, Hnd.
        assert (HkX : ~ In k X) by (apply NoDup_remove_2 in Hnd; intro; apply Hnd; apply in_or_app; auto).
        assert (HkY : ~ In k Y) by (apply NoDup_remove_2 in Hnd; intro; apply Hnd; apply in_or_app; auto).
        apply in_app_or in Hin. destruct Hin as [HinX|[HinX|HinY]]; [|congruence|].
        -- (* n before k *)
           destruct (in_split _ _ HinX) as (X1 & X2 & EX). subst X.
           assert (Hn1 : ~ In n X1 /\ ~ In n X2 /\ ~ In n Y).
           { rewrite <- app_assoc in Hnd. simpl in Hnd. apply NoDup_remove_2 in Hnd.
             repeat split; intro Z; apply Hnd; apply in_or_app; auto;
               right; apply in_or_app; auto; right; right; auto. }
           destruct Hn1 as (Hn1 & Hn2 & Hn3).
           assert (Hrem : rem n (alist a l) = (X1 ++ X2) ++ k :: Y).
           { rewrite Hsp. rewrite <- app_assoc. simpl.
             rewrite (rem_split n X1 (X2 ++ k :: Y)).
             - rewrite <- app_assoc. reflexivity.
             - pose proof (R_nodup _ _ HR l) as Z. rewrite Hsp in Z. rewrite <- app_assoc in Z. exact Z. }
           assert (Hk12 : ~ In k (X1 ++ X2)).
           { intro Z. apply HkX. apply in_or_app. apply in_app_or in Z. simpl. tauto. }
           destruct (snoc_dec _ X2) as [E2|(X0 & q & E2)]; [|].
           2: { (* X2 = X0 ++ [q] *) (* something between n and k: the predecessor is El q *)
              subst X2.
              assert (Hlast : last (map El (X1 ++ n :: X0 ++ [q])) (Root l) = El q).
              { replace (X1 ++ n :: X0 ++ [q]) with ((X1 ++ n :: X0) ++ [q]) by (rewrite <- app_assoc; reflexivity).
                rewrite map_app. simpl. apply last_last. }
              rewrite Hlast.
              assert (Hin0 : In n (alist a l)) by (rewrite Hsp; apply in_or_app; left; apply in_or_app; right; left; auto).
              destruct (move_R st a l n (El q) (Root l :: map El (X1 ++ X0)) (El k :: map El Y)
                          (ins_before k n (rem n (alist a l))) HR Hin0) as (st' & Hm & HR').
              { rewrite Hrem. norm_lists. }
              { rewrite Hrem. rewrite ins_before_split by exact Hk12. norm_lists. }
              rewrite Hm. simpl. eexists; split; [reflexivity | exact HR']. }
           (* n is right before k: move e e, nothing changes *)
              subst X2. rewrite app_nil_r in *.
              assert (Hlast : last (map El (X1 ++ [n])) (Root l) = El n) by (rewrite map_app; simpl; apply last_last).
              rewrite Hlast. unfold move. rewrite ptr_eqb_refl. simpl.
              eexists; split; [reflexivity|]. apply R_aset_same; auto.
              rewrite Hrem. rewrite ins_before_split by exact Hk12.
              rewrite Hsp. rewrite <- app_assoc. reflexivity.
        -- (* n after k *)
           destruct (in_split _ _ HinY) as (Y1 & Y2 & EY). subst Y.
           assert (Hrem : rem n (alist a l) = X ++ k :: Y1 ++ Y2).
           { rewrite Hsp.
             replace (X ++ k :: Y1 ++ n :: Y2) with ((X ++ k :: Y1) ++ n :: Y2) by (rewrite <- app_assoc; reflexivity).
             rewrite rem_split.
             - rewrite <- app_assoc. reflexivity.
             - rewrite <- app_assoc. exact Hnd. }
           assert (Hin0 : In n (alist a l)).
           { rewrite Hsp. apply in_or_app; right; right. apply in_or_app; right; left; auto. }
           destruct (@exists_last _ (Root l :: map El X)) as (P & p & E); [discriminate|].
           assert (Hl : last (map El X) (Root l) = p).
           { rewrite <- (last_cons_default (map El X) (Root l) (Root l)). rewrite E. apply last_last. }
           rewrite Hl.
           destruct (move_R st a l n p P (El k :: map El (Y1 ++ Y2))
                       (ins_before k n (rem n (alist a l))) HR Hin0) as (st' & Hm & HR').
           { rewrite Hrem. rewrite map_app. simpl.
             change (Root l :: map El X ++ El k :: map El (Y1 ++ Y2)) with ((Root l :: map El X) ++ El k :: map El (Y1 ++ Y2)).
             rewrite E. rewrite <- app_assoc. reflexivity. }
           { rewrite Hrem. rewrite ins_before_split by exact HkX.
             rewrite map_app. simpl.
             change (Root l :: map El X ++ El n :: El k :: map El (Y1 ++ Y2))
               with ((Root l :: map El X) ++ El n :: El k :: map El (Y1 ++ Y2)).
             rewrite E. rewrite <- app_assoc. reflexivity. }
           rewrite Hm. simpl. eexists; split; [reflexivity | exact HR'].
    + rewrite Hs'. simpl. rewrite orb_true_r. eexists; split; [reflexivity | exact HR].
  - rewrite Hs. simpl. eexists; split; [reflexivity|].
    destruct (hmem m (alist a l)); exact HR.
Qed.

(* ==== PushBackList / PushFrontList: the loop over the length snapshot ==== *)
(* the cursor only matters while there is something left to copy *)
Definition cursor_ok (e : option ptr) (rest : list nat) : Prop :=
  match rest with [] => True | x :: _ => e = Some (El x) end.

Lemma cursor_ok_hd : forall xs, cursor_ok (hd_ptr xs) xs.
Proof. intros [|x xs]; simpl; auto. Qed.

Lemma map_aval_alloc : forall st a (v : Z) xs o, R st a -> (forall n, In n xs -> In n (alist a o)) ->
  map (updn (aval a) (afresh a) v) xs = map (aval a) xs.
Proof.
  intros st a v xs o HR Hsub. apply map_ext_in. intros n Hn. apply updn_other.
  apply Hsub in Hn. apply (R_lt _ _ HR) in Hn. lia.
Qed.

(* Invariant: the other list o reads pre ++ rest ++ post, [rest] is what is left of the snapshot, the cursor is
   at its head; (for o = l the copies already made sit in [post]).  The loop makes |rest| more copies. *)
Lemma push_back_loop_R : forall l o rest st a pre post e,
  R st a -> alist a o = pre ++ rest ++ post -> cursor_ok e rest ->
  exists st', push_back_loop (length rest) st l e = Some st' /\ R st' (acopy_back a l (map (aval a) rest)).
Proof.
  intros l o. induction rest as [|x r IH]; intros st a pre post e HR Hsp Hc.
  - simpl. eexists; split; [reflexivity | exact HR].
  - simpl in Hc. subst e. simpl.
    pose proof (ringf_prev_head _ _ _ _ (R_ring _ _ HR l)) as Hp.
    destruct (ringof_snoc a l) as (P & p & E & El'). rewrite El' in Hp. rewrite Hp. simpl.
    rewrite (R_val _ _ HR (El x)). simpl aval_of.
    destruct (insert_value_R st a l (aval a x) p P [] (alist a l ++ [afresh a]) HR) as (st1 & Hi & HR1); auto.
    { rewrite map_app. simpl.
      change (Root l :: map El (alist a l) ++ [El (afresh a)]) with (ringof a l ++ [El (afresh a)]).
      rewrite E. rewrite <- app_assoc. reflexivity. }
    rewrite Hi. simpl.
    set (a1 := aset (aalloc a (aval a x)) l (alist a l ++ [afresh a])) in *.
    assert (Hsp1 : exists post', alist a1 o = (pre ++ [x]) ++ r ++ post').
    { unfold a1. simpl. destruct (Nat.eq_dec o l) as [Eo|Eo].
      - subst o. rewrite updn_same. exists (post ++ [afresh a]). rewrite Hsp.
        norm_lists.
      - rewrite updn_other by auto. exists post. rewrite Hsp. norm_lists. }
    destruct Hsp1 as (post' & Hsp1).
    destruct (IH st1 a1 (pre ++ [x]) post' (elem_next st1 (El x)) HR1 Hsp1) as (st' & Hl & HR').
    { destruct r as [|y r']; simpl; auto.
      rewrite <- app_assoc in Hsp1. simpl in Hsp1.
      rewrite (elem_next_spec st1 a1 o pre x (y :: r' ++ post') HR1 Hsp1). reflexivity. }
    rewrite Hl. eexists; split; [reflexivity|].
    assert (Hv : map (aval a1) r = map (aval a) r).
    { unfold a1. simpl. apply (map_aval_alloc st a _ r o HR).
      intros n Hn. rewrite Hsp. apply in_or_app; right. apply in_or_app; left. right; auto. }
    rewrite Hv in HR'. exact HR'.
Qed.

Lemma push_front_loop_R : forall l o rs st a pre post e,
  R st a -> alist a o = pre ++ rev rs ++ post -> cursor_ok e rs ->
  exists st', push_front_loop (length rs) st l e = Some st' /\ R st' (acopy_front a l (map (aval a) rs)).
Proof.
  intros l o. induction rs as [|x r IH]; intros st a pre post e HR Hsp Hc.
  - simpl. eexists; split; [reflexivity | exact HR].
  - simpl in Hc. subst e. simpl.
    rewrite (R_val _ _ HR (El x)). simpl aval_of.
    destruct (insert_value_R st a l (aval a x) (Root l) [] (map El (alist a l)) (afresh a :: alist a l) HR)
      as (st1 & Hi & HR1); try reflexivity.
    rewrite Hi. simpl.
    set (a1 := aset (aalloc a (aval a x)) l (afresh a :: alist a l)) in *.
    simpl in Hsp. rewrite <- app_assoc in Hsp. simpl in Hsp.
    assert (Hsp1 : exists pre', alist a1 o = pre' ++ rev r ++ x :: post).
    { unfold a1. simpl. destruct (Nat.eq_dec o l) as [Eo|Eo].
      - subst o. rewrite updn_same. exists (afresh a :: pre). rewrite Hsp. reflexivity.
      - rewrite updn_other by auto. exists pre. exact Hsp. }
    destruct Hsp1 as (pre' & Hsp1).
    destruct (IH st1 a1 pre' (x :: post) (elem_prev st1 (El x)) HR1 Hsp1) as (st' & Hl & HR').
    { destruct r as [|y r']; simpl; auto.
      rewrite app_assoc in Hsp1.
      rewrite (elem_prev_spec st1 a1 o (pre' ++ rev (y :: r')) x post HR1 Hsp1).
      rewrite rev_app_distr, rev_involutive. reflexivity. }
    rewrite Hl. eexists; split; [reflexivity|].
    assert (Hv : map (aval a1) r = map (aval a) r).
    { unfold a1. simpl. apply (map_aval_alloc st a _ r o HR).
      intros n Hn. rewrite Hsp. apply in_or_app; right. apply in_or_app; left. rewrite <- in_rev. exact Hn. }
    rewrite Hv in HR'. exact HR'.
Qed.

Lemma step_PushBackList : forall st a l o, R st a -> refines_step st a (PushBackList l o).
Proof.
  intros st a l o HR. unfold refines_step. simpl. rewrite (lazy_init_id _ _ _ HR).
  rewrite (R_len _ _ HR o). rewrite Nat2Z.id.
  destruct (obs_refines st a o HR) as (_ & Hf & _). rewrite Hf.
  destruct (push_back_loop_R l o (alist a o) st a [] [] (hd_ptr (alist a o)) HR) as (st' & Hl & HR').
  { rewrite app_nil_r. reflexivity. }
  { apply cursor_ok_hd. }
  rewrite Hl. simpl. eexists; split; [reflexivity | exact HR'].
Qed.

Lemma step_PushFrontList : forall st a l o, R st a -> refines_step st a (PushFrontList l o).
Proof.
  intros st a l o HR. unfold refines_step. simpl. rewrite (lazy_init_id _ _ _ HR).
  rewrite (R_len _ _ HR o). rewrite Nat2Z.id.
  rewrite (back_spec st a o HR).
  destruct (push_front_loop_R l o (rev (alist a o)) st a [] [] (hd_ptr (rev (alist a o))) HR) as (st' & Hl & HR').
  { rewrite rev_involutive, app_nil_r. reflexivity. }
  { apply cursor_ok_hd. }
  rewrite rev_length in Hl. rewrite Hl. simpl. eexists; split; [reflexivity|].
  rewrite <- map_rev. exact HR'.
Qed.

(* ==== all twelve calls, all histories ==== *)
Theorem step_refines_full : forall st a o,
  R st a -> existsb (is_orphan a) (handles o) = false -> refines_step st a o.
Proof.
  intros st a o HR Hz. destruct o; simpl in Hz;
    repeat (apply orb_false_iff in Hz; destruct Hz as [? Hz]).
  - apply step_Init; auto.
  - apply step_PushFront; auto.
  - apply step_PushBack; auto.
  - apply step_Remove; auto.
  - apply step_InsertBefore; auto.
  - apply step_InsertAfter; auto.
  - apply step_MoveToFront; auto.
  - apply step_MoveToBack; auto.
  - apply step_MoveBefore; auto.
  - apply step_MoveAfter; auto.
  - apply step_PushBackList; auto.
  - apply step_PushFrontList; auto.
Qed.

Theorem run_refines_full : forall h st a,
  R st a -> zombie_free a h = true ->
  exists st', run st h = Some (st', snd (arun a h)) /\ R st' (fst (arun a h)).
Proof.
  induction h as [|o h IH]; intros st a HR Hz; simpl in *.
  - eexists; split; [reflexivity | exact HR].
  - apply andb_true_iff in Hz. destruct Hz as [Hz1 Hz2]. apply negb_true_iff in Hz1.
    destruct (step_refines_full st a o HR Hz1) as (st1 & Hs & HR1). rewrite Hs. simpl.
    destruct (IH st1 (fst (astep a o)) HR1 Hz2) as (st2 & Hr & HR2). rewrite Hr. simpl.
    eexists; split; [reflexivity | exact HR2].
Qed.

(* everything one can observe of a represented state, in one statement *)
Definition observed_equal st a : Prop :=
  forall l,
    len st l = Z.of_nat (length (alist a l)) /\
    front st l = hd_ptr (alist a l) /\
    back st l = hd_ptr (rev (alist a l)) /\
    values st l = map (aval a) (alist a l) /\
    values_rev st l = map (aval a) (rev (alist a l)) /\
    (forall n, In n (alist a l) ->
       elem_next st (El n) = option_map El (succ_of n (alist a l)) /\
       elem_prev st (El n) = option_map El (pred_of n (alist a l)) /\
       value_of st (El n) = aval a n).

Theorem R_observed : forall st a, R st a -> observed_equal st a.
Proof.
  intros st a HR l.
  destruct (obs_refines st a l HR) as (H1 & H2 & H3).
  destruct (obs_back_refines st a l HR) as (H4 & H5).
  repeat split; auto; apply (handle_obs_refines st a l n HR); auto.
Qed.

Theorem run_refines_observed : forall h,
  zombie_free ainit h = true ->
  exists st', run init_state h = Some (st', snd (arun ainit h)) /\
              R st' (fst (arun ainit h)) /\ observed_equal st' (fst (arun ainit h)).
Proof.
  intros h Hz. destruct (run_refines_full h init_state ainit R_init Hz) as (st' & Hr & HR).
  exists st'. split; [exact Hr | split; [exact HR | apply R_observed; exact HR]].
Qed.

(* a history with all twelve calls, self-pushes and foreign/removed handles (non-vacuity) *)
Definition sample_history_full : list op :=
  [PushBack 0 1%Z; PushBack 0 2%Z; PushBack 0 3%Z; MoveBefore 0 (El 2) (El 0); MoveBefore 0 (El 0) (El 1);
   PushBackList 0 0; PushFrontList 0 0; PushBackList 1 0; PushFrontList 1 0; PushFrontList 1 1;
   InsertAfter 0 7%Z (El 0); MoveAfter 0 (El 0) (El 1); Remove 0 (El 2); Remove 1 (El 0);
   MoveBefore 1 (El 0) (El 20); MoveBefore 0 (El 2) (El 0); InsertBefore 1 4%Z (El 20); MoveToBack 0 (El 0);
   PushBackList 2 2; MoveBefore 1 (El 12) (El 59); Init 0; PushFront 0 9%Z; MoveToFront 0 (El 62);
   MoveToFront 1 (El 62); PushFrontList 0 1].
Lemma sample_history_full_ok :
  zombie_free ainit sample_history_full = true /\
  length (alist (fst (arun ainit sample_history_full)) 0) = 50 /\
  option_map (fun r => length (values_rev (fst r) 1)) (run init_state sample_history_full) = Some 49.
Proof. repeat split; vm_compute; reflexivity. Qed.
