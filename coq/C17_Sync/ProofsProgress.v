(* C17 — StarvingMutex progress for balanced scripts: the invariant tying the ghost holder lists to the script
   positions, and from it (with the no-lost-wake-up invariant of Proofs.v): no reachable state of balanced scripts is
   stuck unless every thread has finished its script; no operation of a balanced script ever panics. *)
From Coq Require Import List Arith Bool Lia.
From Verif.C17_Sync Require Import Model Proofs SmView.
Import ListNotations.

(* a script that may follow a moment at which its thread holds nr read locks and (w) the write lock, and that ends
   holding nothing: never locks against itself (no Lock/RLock under its own write lock, no Lock under its own read
   lock; nested RLocks are fine - a StarvingMutex lets readers in while no writer is ACTIVE), only unlocks what it holds *)
Fixpoint bal (nr : nat) (w : bool) (l : list act) : bool :=
  match l with
  | [] => (nr =? 0) && negb w
  | ARLock :: r => negb w && bal (S nr) false r
  | ARUnlock :: r => negb w && (0 <? nr) && bal (pred nr) false r
  | ALock :: r => negb w && (nr =? 0) && bal 0 true r
  | AUnlock :: r => w && (nr =? 0) && bal 0 false r
  end.

Definition balanced (sc : list act) : Prop := bal 0 false sc = true.

(* thread t with remaining script sc, seen in mutex m *)
Definition thr_ok (m : sm) (sc : list act) (t : nat) : Prop :=
  occ t m <= 1 /\
  (0 < vW t m -> hR t m = 0 /\ hW t m = 0 /\ bal 0 true sc = true) /\
  (0 < vR t m -> hR t m = 0 /\ hW t m = 0 /\ bal 1 false sc = true) /\
  (vW t m = 0 -> vR t m = 0 -> bal (hR t m) (0 <? hW t m) sc = true).

Definition ginv (s : sys) : Prop := sm_inv (mx s) /\ forall t, thr_ok (mx s) (nth t (scr s) []) t.

Lemma nth_upd {A} (d : A) n x : forall (l : list A) k, nth k (upd n x l) d = if (k =? n) && (n <? length l) then x else nth k l d.
Proof.
  induction n as [|n IH]; intros [|y r] k; simpl.
  - rewrite andb_false_r. reflexivity.
  - destruct k; reflexivity.
  - rewrite andb_false_r. reflexivity.
  - destruct k; simpl; auto. rewrite IH. reflexivity.
Qed.

Lemma nth_error_nth {A} (d : A) l n x : nth_error l n = Some x -> nth n l d = x /\ n < length l.
Proof.
  intros H. split; [apply nth_error_nth; auto|]. apply nth_error_Some. congruence.
Qed.

Lemma ginv_init scripts : Forall balanced scripts -> ginv (init scripts).
Proof.
  intros F. split; [apply sm_inv_0|]. intros t. unfold thr_ok, occ, vW, vR, vN, hR, hW; simpl.
  repeat split; try lia.
  intros _ _. destruct (nth_in_or_default t scripts []) as [H|H].
  - rewrite Forall_forall in F. apply F; auto.
  - rewrite H. reflexivity.
Qed.

(* holders in a mutex that satisfies sm_inv *)
Lemma hW_wa t m : sm_inv m -> 0 < hW t m -> wa m = true /\ ra m = 0 /\ rd m = [] /\ forall u, u <> t -> hW u m = 0.
Proof.
  unfold hW. intros (I1 & I2 & I3 & _) H.
  pose proof (cnt_le_length t (wr m)). destruct (wa m) eqn:W; [|lia].
  specialize (I3 eq_refl). split; auto. split; auto. split.
  - destruct (rd m); simpl in *; [auto|lia].
  - intros u N. pose proof (cnt_two_le_length u t (wr m) N). lia.
Qed.

Lemma hR_ra t m : sm_inv m -> 0 < hR t m -> ra m <> 0 /\ wa m = false /\ wr m = [].
Proof.
  unfold hR. intros (I1 & I2 & I3 & _) H.
  pose proof (cnt_le_length t (rd m)). split; [lia|]. destruct (wa m) eqn:W.
  - specialize (I3 eq_refl). lia.
  - split; auto. destruct (wr m); simpl in *; [auto|lia].
Qed.

Lemma wa_no_readers t m : sm_inv m -> wa m = true -> hR t m = 0.
Proof.
  unfold hR. intros (I1 & I2 & I3 & _) W. specialize (I3 W).
  destruct (rd m); simpl in *; [auto|lia].
Qed.

Lemma bal_inv_ARLock nr w r : bal nr w (ARLock :: r) = true -> w = false /\ bal (S nr) false r = true.
Proof. simpl. destruct w; simpl; [discriminate|auto]. Qed.
Lemma bal_inv_ARUnlock nr w r : bal nr w (ARUnlock :: r) = true -> w = false /\ 0 < nr /\ bal (pred nr) false r = true.
Proof. simpl. destruct w; simpl; [discriminate|]. destruct (0 <? nr) eqn:E; simpl; [|discriminate]. apply Nat.ltb_lt in E. auto. Qed.
Lemma bal_inv_ALock nr w r : bal nr w (ALock :: r) = true -> w = false /\ nr = 0 /\ bal 0 true r = true.
Proof. simpl. destruct w; simpl; [discriminate|]. destruct (nr =? 0) eqn:E; simpl; [|discriminate]. apply Nat.eqb_eq in E. auto. Qed.
Lemma bal_inv_AUnlock nr w r : bal nr w (AUnlock :: r) = true -> w = true /\ nr = 0 /\ bal 0 false r = true.
Proof. simpl. destruct w; simpl; [|discriminate]. destruct (nr =? 0) eqn:E; simpl; [|discriminate]. apply Nat.eqb_eq in E. auto. Qed.

Lemma ltb_pos n : (0 <? n) = true <-> 0 < n.
Proof. apply Nat.ltb_lt. Qed.
Lemma ltb_zero n : (0 <? n) = false <-> n = 0.
Proof. rewrite Nat.ltb_ge. lia. Qed.

(* the first step of an operation of a thread whose state is consistent with its script: no panic, still consistent *)
Lemma start_thr_ok t a rest m m' res :
  sm_inv m -> thr_ok m (a :: rest) t -> occ t m = 0 -> sm_start t a m = (m', res) ->
  res <> RPanic /\ thr_ok m' rest t /\
  (a = ARUnlock -> mem t (rd m) = true) /\ (a = AUnlock -> forall u, u <> t -> hW u m = 0).
Proof.
  intros I (O & TW & TR & TB) Z H. unfold occ in Z.
  assert (B : bal (hR t m) (0 <? hW t m) (a :: rest) = true) by (apply TB; lia). clear TW TR TB.
  pose proof (sm_start_self t a m m' res H) as S. unfold thr_ok, occ.
  destruct a.
  - apply bal_inv_ARLock in B. destruct B as [B1 B2]. apply ltb_zero in B1.
    destruct S as (S1 & S2 & S3 & [(-> & S4 & S5 & S6)|(-> & S4 & S5 & S6)]).
    + split; [discriminate|]. split; [|split; discriminate].
      repeat split; try lia. intros _ _. rewrite S5, S1, B1. exact B2.
    + split; [discriminate|]. split; [|split; discriminate].
      pose proof (wa_no_readers t m I S4) as R0.
      repeat split; try lia. rewrite R0 in B2. exact B2.
  - apply bal_inv_ARUnlock in B. destruct B as (B1 & B2 & B3). apply ltb_zero in B1.
    destruct (hR_ra t m I B2) as (R1 & R2 & R3).
    assert (M : mem t (rd m) = true) by (apply mem_cnt; exact B2).
    destruct S as [(_ & _ & [S|S])|(_ & _ & S1 & S2 & S3 & S4 & S5)]; [congruence|congruence|].
    specialize (S4 M).
    assert (E : hR t m' = pred (hR t m)) by lia.
    split; [destruct S5 as [[-> _]|[-> _]]; discriminate|]. split; [|split; [auto|discriminate]].
    repeat split; try lia. intros _ _. rewrite E, S1, B1. exact B3.
  - apply bal_inv_ALock in B. destruct B as (B1 & B2 & B3). apply ltb_zero in B1.
    destruct S as (S1 & S2 & S3 & [(-> & S4 & S5)|(-> & S4 & S5 & S6)]).
    + split; [discriminate|]. split; [|split; discriminate].
      repeat split; try lia. intros _ _. rewrite S1, B2, S4, B1. exact B3.
    + split; [discriminate|]. split; [|split; discriminate].
      repeat split; try lia. exact B3.
  - apply bal_inv_AUnlock in B. destruct B as (B1 & B2 & B3). apply ltb_pos in B1.
    destruct (hW_wa t m I B1) as (W1 & W2 & W3 & W4).
    destruct S as [(_ & _ & S)|(_ & -> & S1 & S2 & S3 & S4 & S5)]; [lia|].
    split; [discriminate|]. split; [|split; [discriminate|auto]].
    repeat split; try lia. intros _ _. rewrite S1, S2, B2. exact B3.
Qed.

Lemma start_thr_ok_other t a m m' res u sc :
  u <> t -> thr_ok m sc u -> sm_start t a m = (m', res) ->
  (a = ARUnlock -> res <> RPanic -> mem t (rd m) = true) -> (a = AUnlock -> res <> RPanic -> hW u m = 0) ->
  thr_ok m' sc u.
Proof.
  intros N (O & TW & TR & TB) H P1 P2.
  destruct (sm_start_other t a m m' res u N H P1 P2) as (E1 & E2 & E3 & E4 & E5 & E6 & E7 & E8).
  unfold thr_ok, occ, vW, vR, vN in *. rewrite E1, E2, E3, E4, E5, E6, E7, E8. auto.
Qed.

Lemma cont_thr_ok t c m m' res sc :
  sm_inv m -> thr_ok m sc t -> sm_cont t c m = Some (m', res) -> res <> RPanic /\ thr_ok m' sc t.
Proof.
  intros I (O & TW & TR & TB) H.
  destruct (sm_cont_self t c m m' res O H) as (_ & S). unfold thr_ok, occ in *.
  destruct S as [(K & S1 & S2 & S3 & [(-> & S4 & S5)|(-> & S4 & S5 & S6)])|
                 [(K & S1 & S2 & S3 & [(-> & S4 & S5 & S6)|(-> & S4 & S5 & S6)])|(K & -> & S1 & S2 & S3)]].
  - assert (V : 0 < vW t m) by (unfold vW; lia). destruct (TW V) as (A1 & A2 & A3).
    split; [discriminate|]. repeat split; try lia. intros _ _. rewrite S3, A1, S4, A2. exact A3.
  - assert (V : 0 < vW t m) by (unfold vW; lia). destruct (TW V) as (A1 & A2 & A3).
    split; [discriminate|]. repeat split; try lia. exact A3.
  - assert (V : 0 < vR t m) by (unfold vR; lia). destruct (TR V) as (A1 & A2 & A3).
    split; [discriminate|]. repeat split; try lia. intros _ _. rewrite S3, A2, S5, A1. exact A3.
  - assert (V : 0 < vR t m) by (unfold vR; lia). destruct (TR V) as (A1 & A2 & A3).
    split; [discriminate|]. repeat split; try lia. exact A3.
  - split; [discriminate|]. assert (vW t m = 0 /\ vR t m = 0) as [Z1 Z2] by lia.
    repeat split; try lia. intros _ _. rewrite S2, S3. apply TB; auto.
Qed.

Lemma cont_thr_ok_other t c m m' res u sc :
  u <> t -> thr_ok m sc u -> sm_cont t c m = Some (m', res) -> thr_ok m' sc u.
Proof.
  intros N (O & TW & TR & TB) H.
  destruct (sm_cont_other t c m m' res u N H) as (E1 & E2 & E3 & E4 & E5 & E6).
  unfold thr_ok, occ, vN in *. rewrite E1, E2, E3, E4, E5, E6. auto.
Qed.

(* ---------- all schedules ---------- *)
Lemma step_ginv s t c s' r : ginv s -> step_ev s t c = Some (s', r) -> ginv s' /\ r <> RPanic.
Proof.
  intros [I G] H. unfold step_ev in H.
  destruct (busy t (mx s)) eqn:B.
  - destruct (sm_cont t c (mx s)) as [[m' r']|] eqn:E; [|discriminate]. inversion H; subst; clear H.
    destruct (cont_thr_ok t c _ _ _ _ I (G t) E) as [NP T]. split; auto.
    split; [eapply sm_cont_inv; eauto|]. simpl. intros u.
    destruct (Nat.eq_dec u t) as [->|N]; auto. eapply cont_thr_ok_other; eauto.
  - destruct (nth_error (scr s) t) as [[|a rest]|] eqn:NE; try discriminate.
    destruct (sm_start t a (mx s)) as [m' r'] eqn:E. inversion H; subst; clear H.
    destruct (nth_error_nth [] _ _ _ NE) as [NT LT].
    apply busy_occ_false in B. pose proof (G t) as Gt. rewrite NT in Gt.
    destruct (start_thr_ok t a rest _ _ _ I Gt B E) as (NP & T & P1 & P2). split; auto.
    split; [eapply sm_start_inv; eauto|]. simpl. intros u. rewrite nth_upd.
    destruct (Nat.eqb_spec u t) as [->|N]; simpl.
    + apply Nat.ltb_lt in LT. rewrite LT. exact T.
    + eapply start_thr_ok_other; eauto.
Qed.

Lemma run_ginv sch : forall s, ginv s -> ginv (run sch s).
Proof.
  induction sch as [|[t c] r IH]; simpl; intros s G; auto.
  unfold step. destruct (step_ev s t c) as [[s' r']|] eqn:E; simpl; auto.
  apply IH. eapply step_ginv; eauto.
Qed.

Theorem ginv_reachable scripts sch : Forall balanced scripts -> ginv (run sch (init scripts)).
Proof. intros F. apply run_ginv. apply ginv_init; auto. Qed.

(* ---------- consequences ---------- *)

(* a ghost holder is a thread whose script still contains the matching unlock: it is not finished, and it is not
   parked (a thread inside Lock/RLock holds nothing) *)
Lemma holder_active s t : ginv s -> 0 < hR t (mx s) + hW t (mx s) -> ~ parked s t /\ ~ finished s t.
Proof.
  intros [I G] H. destruct (G t) as (O & TW & TR & TB). split.
  - intros [P|P]; apply mem_cnt in P.
    + assert (V : 0 < vW t (mx s)) by (unfold vW; lia). destruct (TW V) as (A1 & A2 & _). lia.
    + assert (V : 0 < vR t (mx s)) by (unfold vR; lia). destruct (TR V) as (A1 & A2 & _). lia.
  - intros [B F]. apply busy_occ_false in B. unfold occ in B.
    assert (E : nth t (scr s) [] = []).
    { destruct F as [F|F]; [apply nth_overflow; apply nth_error_None; auto|apply nth_error_nth; auto]. }
    rewrite E in TB. assert (Bl : bal (hR t (mx s)) (0 <? hW t (mx s)) [] = true) by (apply TB; lia).
    simpl in Bl. apply andb_true_iff in Bl. destruct Bl as [B1 B2]. apply Nat.eqb_eq in B1.
    apply negb_true_iff in B2. apply ltb_zero in B2. lia.
Qed.

(* Progress: a reachable state of balanced scripts in which no thread can step is final - every thread has run its
   whole script and is outside the mutex, nobody is parked, the lock is free. *)
Theorem lock_progress_all scripts sch :
  Forall balanced scripts ->
  let s := run sch (init scripts) in
  stuck s ->
  (forall t, finished s t) /\ (forall t, ~ parked s t) /\
  wa (mx s) = false /\ ra (mx s) = 0 /\ pw (mx s) = 0 /\ rd (mx s) = [] /\ wr (mx s) = [].
Proof.
  intros F s S.
  pose proof (ginv_reachable scripts sch F) as G. fold s in G.
  assert (NH : forall t, hR t (mx s) + hW t (mx s) = 0).
  { intros t. destruct (hR t (mx s) + hW t (mx s)) eqn:E; auto. exfalso.
    destruct (holder_active s t G) as [NP NF]; [lia|].
    destruct (stuck_thread s t S); auto. }
  assert (RD : rd (mx s) = []) by (apply cnt_nil_all; intros t; specialize (NH t); unfold hR in NH; lia).
  assert (WR : wr (mx s) = []) by (apply cnt_nil_all; intros t; specialize (NH t); unfold hW in NH; lia).
  assert (NP : forall t, ~ parked s t).
  { intros t P. destruct (not_stranded_all scripts sch S (ex_intro _ t P)) as (_ & [H|H] & _); auto. }
  split; [|split; auto].
  - intros t. destruct (stuck_thread s t S) as [P|P]; auto. exfalso. eapply NP; eauto.
  - destruct G as [(I1 & I2 & I3 & I4 & I5 & I6) _]. rewrite RD in I1. rewrite WR in I2. simpl in *.
    destruct (stuck_quiet s S) as (Q1 & Q2 & Q3 & Q4).
    assert (WQ : length (wq (mx s)) = 0).
    { destruct (wq (mx s)) as [|x r] eqn:E; auto. exfalso. apply (NP x). left. rewrite E. simpl. rewrite Nat.eqb_refl. auto. }
    destruct (wa (mx s)); [simpl in I2; lia|]. repeat split; auto. lia.
Qed.

(* no operation of a balanced script ever panics, under any schedule *)
Theorem balanced_no_panic scripts sch t c s' r :
  Forall balanced scripts -> step_ev (run sch (init scripts)) t c = Some (s', r) -> r <> RPanic.
Proof. intros F H. eapply step_ginv; eauto. apply ginv_reachable; auto. Qed.

(* ---------- "some thread can step" is decidable (bounded search), so "not stuck" gives an enabled thread ---------- *)
Lemma step_choice_irrelevant s t c : step s t c = None -> forall c', step s t c' = None.
Proof.
  unfold step, step_ev. intros H c'. destruct (busy t (mx s)); auto.
  destruct (sm_cont t c (mx s)) as [[? ?]|] eqn:E; [discriminate|].
  apply cont_none_parked in E. destruct (sm_cont t c' (mx s)) as [[? ?]|] eqn:E'; auto.
  exfalso. unfold sm_cont in E'. unfold vrun in E.
  destruct (mem t (wk (mx s))) eqn:K1; [apply mem_cnt in K1; lia|].
  destruct (mem t (rk (mx s))) eqn:K2; [apply mem_cnt in K2; lia|].
  destruct (mem t (sg (mx s))) eqn:K3; [apply mem_cnt in K3; lia|].
  destruct (mem t (bc (mx s))) eqn:K4; [apply mem_cnt in K4; lia|discriminate].
Qed.

Definition sm_threads (m : sm) : list nat := wq m ++ wk m ++ rq m ++ rk m ++ sg m ++ bc m.

Lemma cnt_le_max t l : 0 < cnt t l -> t <= list_max l.
Proof.
  induction l as [|x r IH]; simpl; [lia|]. destruct (Nat.eqb_spec x t); subst; intros H; [lia|].
  specialize (IH H). lia.
Qed.

Lemma step_bound s t c : step s t c <> None -> t < Nat.max (length (scr s)) (S (list_max (sm_threads (mx s)))).
Proof.
  unfold step, step_ev. intros H. destruct (busy t (mx s)) eqn:B.
  - apply busy_occ in B. assert (0 < cnt t (sm_threads (mx s))).
    { unfold sm_threads. rewrite !cnt_app. unfold occ, vW, vR, vN in B. lia. }
    apply cnt_le_max in H0. lia.
  - destruct (nth_error (scr s) t) eqn:E; [|exfalso; apply H; reflexivity].
    assert (t < length (scr s)) by (apply nth_error_Some; congruence). lia.
Qed.

Lemma stuck_dec s : stuck s \/ exists t c, step s t c <> None.
Proof.
  set (n := Nat.max (length (scr s)) (S (list_max (sm_threads (mx s))))).
  assert (D : forall k, (exists u, step s u 0 <> None) \/ (forall u, u < k -> step s u 0 = None)).
  { induction k as [|k [IH|IH]].
    - right. intros; lia.
    - left; auto.
    - destruct (step s k 0) eqn:E.
      + left. exists k. congruence.
      + right. intros u L. destruct (Nat.eq_dec u k); [subst; auto|apply IH; lia]. }
  destruct (D n) as [[u H]|H].
  - right. exists u, 0. auto.
  - left. intros t c. destruct (step s t c) eqn:E; auto. exfalso.
    assert (L : t < n) by (apply (step_bound s t c); congruence).
    specialize (H t L). pose proof (step_choice_irrelevant s t 0 H c). congruence.
Qed.

(* every blocked Lock / RLock is granted once the conflicting holders have released - as absence of stuck states:
   in every reachable state of balanced scripts in which some thread has not finished (in particular whenever a thread
   is parked in Lock / RLock), some thread has an enabled step *)
Theorem enabled_if_unfinished scripts sch :
  Forall balanced scripts ->
  let s := run sch (init scripts) in
  (exists t, ~ finished s t) -> exists t c, step s t c <> None.
Proof.
  intros F s [t NF]. destruct (stuck_dec s) as [S|S]; auto.
  exfalso. apply NF. apply (lock_progress_all scripts sch F S).
Qed.

Lemma parked_unfinished s t : parked s t -> ~ finished s t.
Proof.
  intros P [B _]. apply busy_occ_false in B. unfold occ, vW, vR in B.
  destruct P as [P|P]; apply mem_cnt in P; lia.
Qed.

(* everything together, as stated in Properties/C17.v *)
Theorem lock_progress_full scripts sch :
  Forall balanced scripts ->
  let s := run sch (init scripts) in
  (stuck s ->
     (forall t, finished s t) /\ (forall t, ~ parked s t) /\
     wa (mx s) = false /\ ra (mx s) = 0 /\ pw (mx s) = 0 /\ rd (mx s) = [] /\ wr (mx s) = []) /\
  ((exists t, ~ finished s t) -> exists t c, step s t c <> None) /\
  (forall t, parked s t -> exists u c, step s u c <> None) /\
  (forall t, 0 < cnt t (rd (mx s)) + cnt t (wr (mx s)) -> ~ parked s t /\ ~ finished s t) /\
  (forall t c s' r, step_ev s t c = Some (s', r) -> r <> RPanic).
Proof.
  intros F s. split; [apply lock_progress_all; auto|]. split; [apply enabled_if_unfinished; auto|].
  split; [|split].
  - intros t P. apply (enabled_if_unfinished scripts sch F). exists t. apply parked_unfinished; auto.
  - intros t H. apply holder_active; auto. apply ginv_reachable; auto.
  - intros t c s' r H. eapply balanced_no_panic; eauto.
Qed.
