(* Correspondence for C17: scripted arrival orders.
   A case = the threads' scripts, an arrival order (which thread's next operation is released next; a thread that is
   parked or has finished is skipped) and, after every arrival, what the implementation showed once every released
   operation had returned or was parked (a vector of integers, see the obs_* functions).
   The model runs the same arrivals with a run-to-block schedule: after the arriving operation's first step, every
   thread that is inside an operation and can step does so (lowest thread id first, Signal wakes the oldest waiter)
   until nobody can.  The theorems do not depend on this schedule; it is only how the two sides are compared. *)
From Coq Require Import List Arith Bool ZArith.
From Verif.C17_Sync Require Import Model.
Import ListNotations.

Fixpoint bump (t : nat) (l : list nat) : list nat :=
  match l, t with
  | [], _ => []
  | x :: r, 0 => S x :: r
  | x :: r, S k => x :: bump k r
  end.

Section RunToBlock.
  Variable St : Type.
  Variable cont : St -> nat -> option (St * bool).    (* a later step of thread t's current operation; bool = panicked *)
  Variable start : St -> nat -> option (St * bool).   (* first step of thread t's next operation *)
  Variable obs : St -> list nat -> list Z.            (* observation, given the panic counters *)

  Fixpoint find_cont (k t : nat) (s : St) : option (nat * St * bool) :=
    match k with
    | 0 => None
    | S k' => match cont s t with
              | Some (s', p) => Some (t, s', p)
              | None => find_cont k' (S t) s
              end
    end.

  Fixpoint quiesce (fuel n : nat) (s : St) (pn : list nat) : St * list nat :=
    match fuel with
    | 0 => (s, pn)
    | S f => match find_cont n 0 s with
             | None => (s, pn)
             | Some (t, s', p) => quiesce f n s' (if p then bump t pn else pn)
             end
    end.

  Definition arrive (fuel n : nat) (s : St) (pn : list nat) (t : nat) : St * list nat :=
    match start s t with
    | None => (s, pn)
    | Some (s', p) => quiesce fuel n s' (if p then bump t pn else pn)
    end.

  Fixpoint replay (fuel n : nat) (s : St) (pn : list nat) (order : list nat) : list (list Z) :=
    match order with
    | [] => []
    | t :: r => let (s', pn') := arrive fuel n s pn t in obs s' pn' :: replay fuel n s' pn' r
    end.
End RunToBlock.

Fixpoint zlist_eqb (a b : list Z) : bool :=
  match a, b with
  | [], [] => true
  | x :: r, y :: q => (x =? y)%Z && zlist_eqb r q
  | _, _ => false
  end.
Fixpoint zll_eqb (a b : list (list Z)) : bool :=
  match a, b with
  | [], [] => true
  | x :: r, y :: q => zlist_eqb x y && zll_eqb r q
  | _, _ => false
  end.

Definition zn (n : nat) : Z := Z.of_nat n.
Definition zb (b : bool) : Z := if b then 1%Z else 0%Z.
Definition is_panic (r : res) : bool := match r with RPanic => true | _ => false end.

(* operations completed by each thread = operations started - (1 if still inside one) *)
Fixpoint done_counts {A} (t : nat) (init cur : list (list A)) (inside : nat -> bool) : list Z :=
  match init, cur with
  | i :: ri, c :: rc => zn (length i - length c - (if inside t then 1 else 0)) :: done_counts (S t) ri rc inside
  | _, _ => []
  end.

(* ---------- StarvingMutex ---------- *)
Definition s_cont (s : sys) (t : nat) : option (sys * bool) :=
  if busy t (mx s) then option_map (fun p => (fst p, is_panic (snd p))) (step_ev s t 0) else None.
Definition s_start (s : sys) (t : nat) : option (sys * bool) :=
  if busy t (mx s) then None else option_map (fun p => (fst p, is_panic (snd p))) (step_ev s t 0).
Definition sm_obs (m : sm) : list Z := [zn (ra m); zb (wa m); zn (pw m); zn (length (rq m)); zn (length (wq m))].
Definition s_obs (scripts : list (list act)) (s : sys) (pn : list nat) : list Z :=
  sm_obs (mx s) ++ done_counts 0 scripts (scr s) (fun t => busy t (mx s)) ++ map zn pn.

Record scase := mkS { s_scripts : list (list act); s_order : list nat; s_seen : list (list Z) }.
Definition s_agree (c : scase) : bool :=
  let n := length (s_scripts c) in
  zll_eqb (replay sys s_cont s_start (s_obs (s_scripts c)) 400 n (init (s_scripts c)) (repeat 0 n) (s_order c)) (s_seen c).

(* ---------- DAGMutex ---------- *)
Definition d_inside (s : dag) (t : nat) : bool :=
  match nth_error (thr s) t with
  | Some th => match cur th, todo th with None, [] => false | _, _ => true end
  | None => false
  end.
Definition is_dpanic (e : dev) : bool := match e with DVPanic => true | _ => false end.
Definition d_cont (s : dag) (t : nat) : option (dag * bool) :=
  if d_inside s t then option_map (fun p => (fst p, is_dpanic (snd p))) (dstep_ev s t 0) else None.
Definition d_start (s : dag) (t : nat) : option (dag * bool) :=
  if d_inside s t then None else option_map (fun p => (fst p, is_dpanic (snd p))) (dstep_ev s t 0).
Definition ent_obs (s : dag) (e : eid) : list Z :=
  match lookup e (ents s) with
  | Some (r, n) => [1%Z; zn n] ++ sm_obs (nth r (heap s) sm0)
  | None => [0; 0; 0; 0; 0; 0; 0]%Z
  end.
Definition d_obs (nent : nat) (scripts : list (list dop)) (s : dag) (pn : list nat) : list Z :=
  flat_map (ent_obs s) (seq 0 nent) ++ [zn (length (ents s))]
  ++ done_counts 0 scripts (map dscr (thr s)) (d_inside s) ++ map zn pn.

Record dcase := mkD { d_nent : nat; d_scripts : list (list dop); d_order : list nat; d_seen : list (list Z) }.
Definition d_agree (c : dcase) : bool :=
  let n := length (d_scripts c) in
  zll_eqb (replay dag d_cont d_start (d_obs (d_nent c) (d_scripts c)) 400 n (dinit (d_scripts c)) (repeat 0 n) (d_order c)) (d_seen c).

(* ---------- Counter ---------- *)
Definition c_cont' (s : csys) (t : nat) : option (csys * bool) :=
  if cbusy t (cst s) then option_map (fun p => (fst p, false)) (cstep_ev s t) else None.
Definition c_start' (s : csys) (t : nat) : option (csys * bool) :=
  if cbusy t (cst s) then None else option_map (fun p => (fst p, false)) (cstep_ev s t).
Definition c_obs (scripts : list (list cop)) (s : csys) (pn : list nat) : list Z :=
  [cval (cst s); zn (length (dq (cst s))); zn (length (iq (cst s)))]
  ++ done_counts 0 scripts (cscr s) (fun t => cbusy t (cst s)).

Record ccase := mkC { c_scripts : list (list cop); c_order : list nat; c_seen : list (list Z) }.
Definition c_agree (c : ccase) : bool :=
  let n := length (c_scripts c) in
  zll_eqb (replay csys c_cont' c_start' (c_obs (c_scripts c)) 400 n (cinit (c_scripts c)) (repeat 0 n) (c_order c)) (c_seen c).

(* ---------- Stack ---------- *)
Definition k_cont' (s : ksys) (t : nat) : option (ksys * bool) :=
  if kbusy t (kst s) then option_map (fun p => (fst p, false)) (kstep_ev s t) else None.
Definition k_start' (s : ksys) (t : nat) : option (ksys * bool) :=
  if kbusy t (kst s) then None else option_map (fun p => (fst p, false)) (kstep_ev s t).
Definition pop_obs (p : tid * option nat) : list Z :=
  match p with (t, Some v) => [zn t; zn (S v)] | (t, None) => [zn t; 0%Z] end.
Definition k_obs (scripts : list (list kop)) (s : ksys) (pn : list nat) : list Z :=
  [zn (length (els (kst s))); zn (length (aq (kst s))); zn (length (xq (kst s)))]
  ++ done_counts 0 scripts (kscr s) (fun t => kbusy t (kst s))
  ++ flat_map pop_obs (rev (pops (kst s))).

Record kcase := mkK { k_scripts : list (list kop); k_order : list nat; k_seen : list (list Z) }.
Definition k_agree (c : kcase) : bool :=
  let n := length (k_scripts c) in
  zll_eqb (replay ksys k_cont' k_start' (k_obs (k_scripts c)) 400 n (kinit (k_scripts c)) (repeat 0 n) (k_order c)) (k_seen c).

(* ---------- Stack with wait-condition callbacks held at a gate ----------
   The harness supplies PopOrWait's waitCondition: a callback with two gates, one before and one after it reads the flag
   (a callback may be slow before or after it looks at its condition); a gate blocks when a hold is armed for it.
   Events of a case (n = number of threads): e < n = arrival of thread e's next operation; n <= e < 2n = arm a (one-shot)
   hold at the gate BEFORE the read for thread e-n; 2n <= e < 3n = open the gate thread e-2n is held at; 3n <= e = arm a
   hold at the gate AFTER the read for thread e-3n.  While a thread is held
   inside its callback the model simply does not step it; an arriving operation whose first step is not enabled (the
   mutex is held by the thread inside the callback) stays pending and starts as soon as it can; while an operation is
   blocked on the mutex further arrivals are skipped (h_blocked).  While somebody is held
   the implementation cannot be observed through the mutex: the observation is [-1; parked on either condition; 0]. *)
Record hsys := mkH { hk : ksys; harmed : list nat; harmedB : list nat; hheld : list nat; hpend : list nat }.

Definition h_post (t : nat) (k' : ksys) (s : hsys) (pend : list nat) : hsys :=
  match eget t (kev (kst k')) with
  | Some None =>
      if mem t (harmed s) then mkH k' (remove1 t (harmed s)) (harmedB s) (hheld s ++ [t]) pend
      else mkH k' (harmed s) (harmedB s) (hheld s) pend
  | Some (Some _) =>
      if mem t (harmedB s) then mkH k' (harmed s) (remove1 t (harmedB s)) (hheld s ++ [t]) pend
      else mkH k' (harmed s) (harmedB s) (hheld s) pend
  | None => mkH k' (harmed s) (harmedB s) (hheld s) pend
  end.

Definition h_cont (s : hsys) (t : nat) : option (hsys * bool) :=
  if mem t (hheld s) then None
  else if kbusy t (kst (hk s)) then
    match kstep_ev (hk s) t with Some (k', _) => Some (h_post t k' s (hpend s), false) | None => None end
  else if mem t (hpend s) then
    match kstep_ev (hk s) t with Some (k', _) => Some (h_post t k' s (remove1 t (hpend s)), false) | None => None end
  else None.

(* at a quiescent point: some operation is blocked on the stack's mutex (not started, in front of SignalShutdown's
   critical section, or woken from a Wait) - then the harness lets nothing else arrive, so that at most one operation
   queues on the mutex and the order in which the mutex is handed on does not matter *)
Definition nonempty {A} (l : list A) : bool := match l with [] => false | _ => true end.
Definition h_blocked (s : hsys) : bool :=
  let m := kst (hk s) in nonempty (hpend s) || nonempty (kfs m) || nonempty (ak m) || nonempty (xk m).

Definition h_start (n : nat) (s : hsys) (e : nat) : option (hsys * bool) :=
  if e <? n then
    if kbusy e (kst (hk s)) || h_blocked s then None else
    match nth_error (kscr (hk s)) e with
    | Some (_ :: _) =>
        match kstep_ev (hk s) e with
        | Some (k', _) => Some (h_post e k' s (hpend s), false)
        | None => Some (mkH (hk s) (harmed s) (harmedB s) (hheld s) (hpend s ++ [e]), false)
        end
    | _ => None
    end
  else if e <? 2 * n then
    let t := e - n in
    if mem t (harmed s) then None else Some (mkH (hk s) (harmed s ++ [t]) (harmedB s) (hheld s) (hpend s), false)
  else if e <? 3 * n then
    let t := e - 2 * n in
    if mem t (hheld s) then Some (mkH (hk s) (harmed s) (harmedB s) (remove1 t (hheld s)) (hpend s), false) else None
  else
    let t := e - 3 * n in
    if mem t (harmedB s) then None else Some (mkH (hk s) (harmed s) (harmedB s ++ [t]) (hheld s) (hpend s), false).

Definition h_obs (scripts : list (list kop)) (s : hsys) (pn : list nat) : list Z :=
  let m := kst (hk s) in
  (match hheld s with
   | [] => [zn (length (els m)); zn (length (aq m)); zn (length (xq m))]
   | _ => [(-1)%Z; zn (length (aq m) + length (xq m)); 0%Z]
   end)
  ++ done_counts 0 scripts (kscr (hk s)) (fun t => kbusy t m)
  ++ flat_map pop_obs (rev (pops m)).

Record hcase := mkKH { h_scripts : list (list kop); h_events : list nat; h_seen : list (list Z) }.
Definition h_model (c : hcase) : list (list Z) :=
  let n := length (h_scripts c) in
  replay hsys h_cont (h_start n) (h_obs (h_scripts c)) 400 n (mkH (kinit (h_scripts c)) [] [] [] []) (repeat 0 n) (h_events c).
Definition h_agree (c : hcase) : bool := zll_eqb (h_model c) (h_seen c).

(* ---------- one cases file holds all kinds ---------- *)
Inductive case := CS (c : scase) | CD (c : dcase) | CC (c : ccase) | CK (c : kcase) | CKH (c : hcase).
Definition agree (c : case) : bool :=
  match c with CS x => s_agree x | CD x => d_agree x | CC x => c_agree x | CK x => k_agree x | CKH x => h_agree x end.

Fixpoint mismatches_from (i : nat) (cs : list case) : list nat :=
  match cs with
  | [] => []
  | c :: r => if agree c then mismatches_from (S i) r else i :: mismatches_from (S i) r
  end.
Definition mismatches (cs : list case) : list nat := mismatches_from 0 cs.

(* what the model says for a case (for debugging a mismatch) *)
Definition s_model (c : scase) : list (list Z) :=
  let n := length (s_scripts c) in
  replay sys s_cont s_start (s_obs (s_scripts c)) 400 n (init (s_scripts c)) (repeat 0 n) (s_order c).
Definition d_model (c : dcase) : list (list Z) :=
  let n := length (d_scripts c) in
  replay dag d_cont d_start (d_obs (d_nent c) (d_scripts c)) 400 n (dinit (d_scripts c)) (repeat 0 n) (d_order c).
Definition c_model (c : ccase) : list (list Z) :=
  let n := length (c_scripts c) in
  replay csys c_cont' c_start' (c_obs (c_scripts c)) 400 n (cinit (c_scripts c)) (repeat 0 n) (c_order c).
Definition k_model (c : kcase) : list (list Z) :=
  let n := length (k_scripts c) in
  replay ksys k_cont' k_start' (k_obs (k_scripts c)) 400 n (kinit (k_scripts c)) (repeat 0 n) (k_order c).
