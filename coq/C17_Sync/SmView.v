(* C17 — per-thread "views" of one StarvingMutex: how many times a thread occurs in each (ghost) list, and how one
   step of sm_start / sm_cont changes these numbers for the acting thread and for every other thread.
   Shared by the single-mutex progress proof (ProofsProgress.v) and the DAGMutex proof (ProofsDagLive.v). *)
From Coq Require Import List Arith Bool Lia.
From Verif.C17_Sync Require Import Model Proofs.
Import ListNotations.

Fixpoint cnt (t : nat) (l : list nat) : nat :=
  match l with [] => 0 | x :: r => (if x =? t then 1 else 0) + cnt t r end.

Lemma cnt_app t a b : cnt t (a ++ b) = cnt t a + cnt t b.
Proof. induction a; simpl; lia. Qed.

Lemma mem_cnt t l : mem t l = true <-> 0 < cnt t l.
Proof.
  induction l as [|x r IH]; simpl; [split; [discriminate|lia]|].
  destruct (x =? t); simpl; [split; [lia|auto]|exact IH].
Qed.

Lemma mem_cnt_false t l : mem t l = false <-> cnt t l = 0.
Proof.
  destruct (mem t l) eqn:E.
  - apply mem_cnt in E. split; [discriminate|lia].
  - split; auto. intros _. destruct (cnt t l) eqn:C; auto.
    assert (mem t l = true) by (apply mem_cnt; lia). congruence.
Qed.

Lemma cnt_remove1 u t l : mem t l = true -> cnt u l = (if t =? u then 1 else 0) + cnt u (remove1 t l).
Proof.
  induction l as [|x r IH]; simpl; [discriminate|].
  destruct (x =? t) eqn:E.
  - apply Nat.eqb_eq in E; subst. intros _. reflexivity.
  - simpl. intros H. rewrite (IH H). lia.
Qed.

Lemma cnt_pick n : forall l w rest u, pick n l = Some (w, rest) -> cnt u l = (if w =? u then 1 else 0) + cnt u rest.
Proof.
  induction n as [|n IH]; intros [|x r] w rest u H; simpl in H; try discriminate.
  - inversion H; subst. reflexivity.
  - destruct (pick n r) as [[y r']|] eqn:E; [|discriminate]. inversion H; subst. simpl. rewrite (IH _ _ _ u E). lia.
Qed.

Lemma cnt_pickd n l w rest u : pickd n l = Some (w, rest) -> cnt u l = (if w =? u then 1 else 0) + cnt u rest.
Proof.
  unfold pickd. destruct (pick n l) as [[y r']|] eqn:E; intros H.
  - inversion H; subst. eapply cnt_pick; eauto.
  - eapply cnt_pick; eauto.
Qed.

Lemma cnt_le_length t l : cnt t l <= length l.
Proof. induction l as [|x r IH]; simpl; [lia|]. destruct (x =? t); lia. Qed.

Lemma cnt_two_le_length t u l : t <> u -> cnt t l + cnt u l <= length l.
Proof.
  intros N. induction l as [|x r IH]; simpl; [lia|].
  destruct (Nat.eqb_spec x t), (Nat.eqb_spec x u); subst; try congruence; lia.
Qed.

Lemma cnt_nil_all l : (forall t, cnt t l = 0) -> l = [].
Proof. destruct l as [|x r]; auto. intros H. specialize (H x). simpl in H. rewrite Nat.eqb_refl in H. lia. Qed.

Lemma cnt_pos_ex l : l <> [] -> exists t, 0 < cnt t l.
Proof. destruct l as [|x r]; [congruence|]. intros _. exists x. simpl. rewrite Nat.eqb_refl. lia. Qed.

(* ---------- aggregated view of thread u in mutex m ---------- *)
Definition hR u m := cnt u (rd m).                       (* read holds *)
Definition hW u m := cnt u (wr m).                       (* write holds *)
Definition vW u m := cnt u (wq m) + cnt u (wk m).        (* inside Lock, not yet granted *)
Definition vR u m := cnt u (rq m) + cnt u (rk m).        (* inside RLock, not yet granted *)
Definition vN u m := cnt u (sg m) + cnt u (bc m).        (* owes a notification *)
Definition occ u m := vW u m + vR u m + vN u m.
Definition vrun u m := cnt u (wk m) + cnt u (rk m) + cnt u (sg m) + cnt u (bc m).   (* can take a step *)

Lemma busy_occ u m : busy u m = true <-> 0 < occ u m.
Proof.
  unfold busy, occ, vW, vR, vN. rewrite !orb_true_iff, !mem_cnt. lia.
Qed.

Lemma busy_occ_false u m : busy u m = false <-> occ u m = 0.
Proof.
  destruct (busy u m) eqn:B.
  - apply busy_occ in B. split; [discriminate|lia].
  - split; auto. intros _. destruct (occ u m) eqn:C; auto.
    assert (busy u m = true) by (apply busy_occ; lia). congruence.
Qed.

(* a thread that can run has a continuation *)
Lemma vrun_cont u c m : 0 < vrun u m -> sm_cont u c m <> None.
Proof.
  unfold vrun, sm_cont. intros H.
  destruct (mem u (wk m)) eqn:E1; [discriminate|]. destruct (mem u (rk m)) eqn:E2; [discriminate|].
  destruct (mem u (sg m)) eqn:E3; [discriminate|]. destruct (mem u (bc m)) eqn:E4; [discriminate|].
  apply mem_cnt_false in E1, E2, E3, E4. lia.
Qed.

Lemma cont_none_parked u c m : sm_cont u c m = None -> vrun u m = 0.
Proof.
  intros H. destruct (vrun u m) eqn:E; auto. exfalso. apply (vrun_cont u c m); [lia|auto].
Qed.

Ltac cnt_norm :=
  repeat (rewrite ?cnt_app in *; cbn [cnt rd wr wq wk rq rk sg bc ra wa pw] in * ).

Ltac eqb_cases :=
  repeat match goal with
         | |- context [?a =? ?b] => destruct (Nat.eqb_spec a b); subst
         | H : context [?a =? ?b] |- _ => destruct (Nat.eqb_spec a b); subst
         end.

(* ---------- first critical section: the acting thread ---------- *)
Ltac sv :=
  cnt_norm; rewrite ?Nat.eqb_refl in *;
  repeat match goal with |- _ /\ _ => split end; auto; try lia; try (intros; discriminate);
  try solve [left; sv | right; sv].

Lemma sm_start_self t a m m' res : sm_start t a m = (m', res) ->
  match a with
  | ARLock =>
      hW t m' = hW t m /\ vW t m' = vW t m /\ vN t m' = vN t m /\
      ((res = RDone /\ wa m = false /\ hR t m' = S (hR t m) /\ vR t m' = vR t m) \/
       (res = RPark /\ wa m = true /\ hR t m' = hR t m /\ vR t m' = S (vR t m)))
  | ALock =>
      hR t m' = hR t m /\ vR t m' = vR t m /\ vN t m' = vN t m /\
      ((res = RDone /\ hW t m' = S (hW t m) /\ vW t m' = vW t m) \/
       (res = RPark /\ (wa m = true \/ 0 < ra m) /\ hW t m' = hW t m /\ vW t m' = S (vW t m)))
  | ARUnlock =>
      (res = RPanic /\ m' = m /\ (ra m = 0 \/ wa m = true)) \/
      (ra m <> 0 /\ wa m = false /\ hW t m' = hW t m /\ vW t m' = vW t m /\ vR t m' = vR t m /\
       (mem t (rd m) = true -> hR t m = S (hR t m')) /\
       ((res = RDone /\ vN t m' = vN t m) \/ (res = RCont /\ vN t m' = S (vN t m))))
  | AUnlock =>
      (res = RPanic /\ m' = m /\ 0 < ra m) \/
      (ra m = 0 /\ res = RCont /\ hW t m' = 0 /\ hR t m' = hR t m /\ vW t m' = vW t m /\ vR t m' = vR t m /\
       vN t m' = S (vN t m))
  end.
Proof.
  unfold hR, hW, vW, vR, vN. intros H. destruct a; simpl in H.
  - unfold rlock_try in H. destruct (wa m) eqn:W; inversion H; subst; clear H; sv.
  - destruct (ra m =? 0) eqn:R0.
    { inversion H; subst. apply Nat.eqb_eq in R0. left; auto. }
    apply Nat.eqb_neq in R0. destruct (wa m) eqn:W.
    { inversion H; subst. left; auto. }
    right. unfold take_out in H.
    destruct (mem t (rd m)) eqn:M.
    + pose proof (cnt_remove1 t t (rd m) M) as Q. rewrite Nat.eqb_refl in Q.
      destruct ((pred (ra m) =? 0) && (0 <? pw m)); inversion H; subst; clear H; sv.
    + destruct ((pred (ra m) =? 0) && (0 <? pw m)); inversion H; subst; clear H; sv.
  - unfold lock_try, can_write, inc_pw in H; cbn [ra wa pw rd wr wq wk rq rk sg bc] in H.
    destruct (wa m) eqn:W; simpl in H.
    + inversion H; subst; clear H; sv.
    + destruct (ra m =? 0) eqn:R0; inversion H; subst; clear H; [|apply Nat.eqb_neq in R0]; sv.
  - destruct (0 <? ra m) eqn:R0.
    { inversion H; subst. apply Nat.ltb_lt in R0. left; auto. }
    apply Nat.ltb_ge in R0. right.
    destruct (pw m =? 0); inversion H; subst; clear H; sv.
Qed.

(* ---------- first critical section: every other thread ---------- *)
Lemma sm_start_other t a m m' res u : u <> t -> sm_start t a m = (m', res) ->
  (a = ARUnlock -> res <> RPanic -> mem t (rd m) = true) ->
  (a = AUnlock -> res <> RPanic -> hW u m = 0) ->
  hR u m' = hR u m /\ hW u m' = hW u m /\
  cnt u (wq m') = cnt u (wq m) /\ cnt u (wk m') = cnt u (wk m) /\ cnt u (rq m') = cnt u (rq m) /\
  cnt u (rk m') = cnt u (rk m) /\ cnt u (sg m') = cnt u (sg m) /\ cnt u (bc m') = cnt u (bc m).
Proof.
  unfold hR, hW. intros N H P1 P2. destruct a; simpl in H.
  - unfold rlock_try in H. destruct (wa m); inversion H; subst; clear H; cnt_norm; eqb_cases; try congruence;
      repeat split; lia.
  - destruct (ra m =? 0). { inversion H; subst. repeat split; auto. }
    destruct (wa m). { inversion H; subst. repeat split; auto. }
    assert (M : mem t (rd m) = true).
    { apply P1; auto. destruct (_ && _); inversion H; discriminate. }
    pose proof (cnt_remove1 u t (rd m) M) as Q. destruct (Nat.eqb_spec t u); [congruence|].
    destruct ((pred (ra m) =? 0) && (0 <? pw m)); inversion H; subst; clear H; cnt_norm; unfold take_out; rewrite M;
      eqb_cases; try congruence; repeat split; lia.
  - unfold lock_try, can_write, inc_pw in H; cbn [ra wa pw rd wr wq wk rq rk sg bc] in H.
    destruct (negb (wa m) && (ra m =? 0)); inversion H; subst; clear H; cnt_norm; eqb_cases; try congruence;
      repeat split; lia.
  - destruct (0 <? ra m). { inversion H; subst. repeat split; auto. }
    assert (Z : cnt u (wr m) = 0).
    { apply P2; auto. destruct (pw m =? 0); inversion H; discriminate. }
    destruct (pw m =? 0); inversion H; subst; clear H; cnt_norm; eqb_cases; try congruence; repeat split; lia.
Qed.

(* ---------- later steps: the acting thread (which is in exactly one list) ---------- *)
Lemma sm_cont_self t c m m' res : occ t m <= 1 -> sm_cont t c m = Some (m', res) ->
  hR t m' + hW t m' >= hR t m + hW t m /\
  ((0 < cnt t (wk m) /\ vR t m' = 0 /\ vN t m' = 0 /\ hR t m' = hR t m /\
      ((res = RDone /\ hW t m' = S (hW t m) /\ vW t m' = 0) \/
       (res = RPark /\ hW t m' = hW t m /\ vW t m' = 1 /\ (wa m = true \/ 0 < ra m)))) \/
   (0 < cnt t (rk m) /\ vW t m' = 0 /\ vN t m' = 0 /\ hW t m' = hW t m /\
      ((res = RDone /\ wa m = false /\ hR t m' = S (hR t m) /\ vR t m' = 0) \/
       (res = RPark /\ wa m = true /\ hR t m' = hR t m /\ vR t m' = 1))) \/
   (0 < vN t m /\ res = RDone /\ occ t m' = 0 /\ hR t m' = hR t m /\ hW t m' = hW t m)).
Proof.
  unfold occ, hR, hW, vW, vR, vN, sm_cont. intros O H.
  destruct (mem t (wk m)) eqn:K1.
  { pose proof (cnt_remove1 t t _ K1) as Q. rewrite Nat.eqb_refl in Q.
    inversion H as [H1]; clear H. unfold lock_try, can_write in H1; cbn [ra wa pw rd wr wq wk rq rk sg bc] in H1.
    destruct (wa m) eqn:W; simpl in H1.
    - inversion H1; subst; clear H1; cnt_norm; rewrite ?Nat.eqb_refl. split; [lia|]. left.
      repeat split; try lia. right. repeat split; auto; lia.
    - destruct (ra m =? 0) eqn:R0; inversion H1; subst; clear H1; cnt_norm; rewrite ?Nat.eqb_refl; (split; [lia|]); left;
        repeat split; try lia; [left|right]; repeat split; auto; try lia.
      apply Nat.eqb_neq in R0. lia. }
  destruct (mem t (rk m)) eqn:K2.
  { pose proof (cnt_remove1 t t _ K2) as Q. rewrite Nat.eqb_refl in Q.
    inversion H as [H1]; clear H. unfold rlock_try in H1; cbn [ra wa pw rd wr wq wk rq rk sg bc] in H1.
    destruct (wa m) eqn:W; inversion H1; subst; clear H1; cnt_norm; rewrite ?Nat.eqb_refl; (split; [lia|]); right; left;
      repeat split; try lia; [right|left]; repeat split; auto; lia. }
  apply mem_cnt_false in K1, K2.
  destruct (mem t (sg m)) eqn:K3.
  { pose proof (cnt_remove1 t t _ K3) as Q. rewrite Nat.eqb_refl in Q.
    inversion H; subst; clear H. unfold signal; cbn [ra wa pw rd wr wq wk rq rk sg bc].
    destruct (pickd c (wq m)) as [[w rest]|] eqn:P.
    - pose proof (cnt_pickd _ _ _ _ t P) as Q2. cnt_norm. split; [lia|]. right; right.
      destruct (Nat.eqb_spec w t); repeat split; try lia.
    - cnt_norm. split; [lia|]. right; right. repeat split; try lia. }
  destruct (mem t (bc m)) eqn:K4; [|discriminate].
  pose proof (cnt_remove1 t t _ K4) as Q. rewrite Nat.eqb_refl in Q. apply mem_cnt_false in K3.
  inversion H; subst; clear H. unfold broadcast; cnt_norm. split; [lia|]. right; right. repeat split; try lia.
Qed.

(* ---------- later steps: every other thread ---------- *)
Lemma sm_cont_other t c m m' res u : u <> t -> sm_cont t c m = Some (m', res) ->
  hR u m' = hR u m /\ hW u m' = hW u m /\ vW u m' = vW u m /\ vR u m' = vR u m /\
  cnt u (sg m') = cnt u (sg m) /\ cnt u (bc m') = cnt u (bc m).
Proof.
  unfold hR, hW, vW, vR, sm_cont. intros N H.
  destruct (mem t (wk m)) eqn:K1.
  { pose proof (cnt_remove1 u t _ K1) as Q. destruct (Nat.eqb_spec t u); [congruence|].
    inversion H as [H1]; clear H. unfold lock_try in H1; cbn [ra wa pw rd wr wq wk rq rk sg bc] in H1.
    destruct (can_write _); inversion H1; subst; clear H1; cnt_norm; eqb_cases; try congruence; repeat split; lia. }
  destruct (mem t (rk m)) eqn:K2.
  { pose proof (cnt_remove1 u t _ K2) as Q. destruct (Nat.eqb_spec t u); [congruence|].
    inversion H as [H1]; clear H. unfold rlock_try in H1; cbn [ra wa pw rd wr wq wk rq rk sg bc] in H1.
    destruct (wa m); inversion H1; subst; clear H1; cnt_norm; eqb_cases; try congruence; repeat split; lia. }
  destruct (mem t (sg m)) eqn:K3.
  { pose proof (cnt_remove1 u t _ K3) as Q. destruct (Nat.eqb_spec t u); [congruence|].
    inversion H; subst; clear H. unfold signal; cbn [ra wa pw rd wr wq wk rq rk sg bc].
    destruct (pickd c (wq m)) as [[w rest]|] eqn:P.
    - pose proof (cnt_pickd _ _ _ _ u P) as Q2. cnt_norm. repeat split; lia.
    - cnt_norm. repeat split; lia. }
  destruct (mem t (bc m)) eqn:K4; [|discriminate].
  pose proof (cnt_remove1 u t _ K4) as Q. destruct (Nat.eqb_spec t u); [congruence|].
  inversion H; subst; clear H. unfold broadcast; cnt_norm. repeat split; lia.
Qed.

Lemma occ_other_start t a m m' res u : u <> t -> sm_start t a m = (m', res) ->
  vW u m' = vW u m /\ vR u m' = vR u m /\ vN u m' = vN u m.
Proof.
  unfold vW, vR, vN. intros N H. destruct a; simpl in H.
  - unfold rlock_try in H. destruct (wa m); inversion H; subst; clear H; cnt_norm; eqb_cases; try congruence; lia.
  - destruct (ra m =? 0). { inversion H; subst. auto. }
    destruct (wa m). { inversion H; subst. auto. }
    destruct ((pred (ra m) =? 0) && (0 <? pw m)); inversion H; subst; clear H; cnt_norm; eqb_cases; try congruence; lia.
  - unfold lock_try, can_write, inc_pw in H; cbn [ra wa pw rd wr wq wk rq rk sg bc] in H.
    destruct (negb (wa m) && (ra m =? 0)); inversion H; subst; clear H; cnt_norm; eqb_cases; try congruence; lia.
  - destruct (0 <? ra m). { inversion H; subst. auto. }
    destruct (pw m =? 0); inversion H; subst; clear H; cnt_norm; eqb_cases; try congruence; lia.
Qed.
