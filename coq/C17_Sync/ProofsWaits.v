(* C17 — Counter and Stack wait primitives: a wait returns only on a true condition (checked under the mutex), and no
   waiter stays parked on a true condition without a wake-up in flight (check-then-wait under the same mutex, Broadcast
   after every change). PopOrWait's external condition: the theorem needs the condition to change only in front of a
   pass through the stack's mutex (KSetFlagLocked); with a bare write + Broadcast (KSetFlagExt) it is refuted. *)
From Coq Require Import List Arith Bool ZArith Lia.
From Verif.C17_Sync Require Import Model Proofs.
Import ListNotations.

Lemma Forall_snoc {A} (P Q : A -> Prop) l x : Forall P l -> (forall p, P p -> Q p) -> Q x -> Forall Q (l ++ [x]).
Proof. intros F I Qx. apply Forall_app. split; [eapply Forall_impl; eauto|constructor; auto]. Qed.

Lemma aget_in t l th : aget t l = Some th -> In (t, th) l.
Proof.
  induction l as [|[x v] r IH]; simpl; [discriminate|]. destruct (x =? t) eqn:E.
  - apply Nat.eqb_eq in E. intros H; inversion H; subst. left; reflexivity.
  - intros H. right; auto.
Qed.

(* ====================================================================================================== *)
(* Counter                                                                                                *)
(* ====================================================================================================== *)
Open Scope Z_scope.

Definition cnt_inv (s : cnt) : Prop :=
  Forall (fun p => cval s < snd p -> (0 < length (od s))%nat) (dq s) /\
  Forall (fun p => snd p < cval s -> (0 < length (oi s))%nat) (iq s).

Lemma cnt_inv_0 : cnt_inv cnt0.
Proof. split; constructor. Qed.

Lemma below_try_inv t th s s' r : cnt_inv s -> below_try t th s = (s', r) -> cnt_inv s'.
Proof.
  unfold below_try. intros [I1 I2] H. destruct (th <=? cval s) eqn:E; inversion H; subst; [|split; auto].
  apply Z.leb_le in E. split; simpl; auto.
  eapply Forall_snoc; eauto. simpl. lia.
Qed.

Lemma above_try_inv t th s s' r : cnt_inv s -> above_try t th s = (s', r) -> cnt_inv s'.
Proof.
  unfold above_try. intros [I1 I2] H. destruct (cval s <=? th) eqn:E; inversion H; subst; [|split; auto].
  apply Z.leb_le in E. split; simpl; auto.
  eapply Forall_snoc; eauto. simpl. lia.
Qed.

Lemma set_val_inv t new s s' r : cnt_inv s -> set_val t (cval s) new s = (s', r) -> cnt_inv s'.
Proof.
  unfold set_val. intros [I1 I2] H.
  destruct (cval s <? new) eqn:E1.
  - apply Z.ltb_lt in E1. inversion H; subst. split; simpl.
    + eapply Forall_impl; [|exact I1]. intros p Hp. simpl. intros. apply Hp. lia.
    + eapply Forall_impl; [|exact I2]. intros p Hp. simpl. intros. rewrite app_length; simpl; lia.
  - destruct (new <? cval s) eqn:E2; inversion H; subst; [|split; auto].
    apply Z.ltb_lt in E2. split; simpl.
    + eapply Forall_impl; [|exact I1]. intros p Hp. simpl. intros. rewrite app_length; simpl; lia.
    + eapply Forall_impl; [|exact I2]. intros p Hp. simpl. intros. apply Hp. lia.
Qed.

Lemma c_start_inv t o s s' r : cnt_inv s -> c_start t o s = (s', r) -> cnt_inv s'.
Proof.
  intros I H. destruct o; simpl in H.
  - eapply set_val_inv; eauto.
  - eapply set_val_inv; eauto.
  - eapply below_try_inv; eauto.
  - eapply above_try_inv; eauto.
Qed.

Lemma c_cont_inv t s s' r : cnt_inv s -> c_cont t s = Some (s', r) -> cnt_inv s'.
Proof.
  intros I H. unfold c_cont in H.
  destruct (aget t (dk s)) as [th|].
  { inversion H as [H1]. eapply below_try_inv in H1; eauto; destruct I; split; simpl; auto. }
  destruct (aget t (ik s)) as [th|].
  { inversion H as [H1]. eapply above_try_inv in H1; eauto; destruct I; split; simpl; auto. }
  destruct I as [I1 I2].
  destruct (mem t (od s)).
  { inversion H; subst. split; simpl; [constructor|auto]. }
  destruct (mem t (oi s)); [|discriminate].
  inversion H; subst. split; simpl; [auto|constructor].
Qed.

Lemma cstep_inv s t s' : cnt_inv (cst s) -> cstep s t = Some s' -> cnt_inv (cst s').
Proof.
  unfold cstep, cstep_ev. intros I H. destruct (cbusy t (cst s)).
  - destruct (c_cont t (cst s)) as [[m' r]|] eqn:E; simpl in H; inversion H; subst; simpl. eapply c_cont_inv; eauto.
  - destruct (nth_error (cscr s) t) as [[|o rest]|]; simpl in H; try discriminate.
    destruct (c_start t o (cst s)) as [m' r] eqn:E. simpl in H. inversion H; subst; simpl. eapply c_start_inv; eauto.
Qed.

Lemma crun_inv sch : forall s, cnt_inv (cst s) -> cnt_inv (cst (crun sch s)).
Proof.
  induction sch as [|t r IH]; simpl; intros s I; auto.
  destruct (cstep s t) eqn:E; auto. apply IH. eapply cstep_inv; eauto.
Qed.

(* no lost wake-up, all schedules: a WaitIsBelow(th) caller is parked on a true condition only while a Broadcast of
   valueDecreasedCond is still owed; symmetrically for WaitIsAbove *)
Theorem counter_no_lost_wakeup scripts sch :
  let s := cst (crun sch (cinit scripts)) in
  (forall t th, In (t, th) (dq s) -> cval s < th -> od s <> []) /\
  (forall t th, In (t, th) (iq s) -> th < cval s -> oi s <> []).
Proof.
  intros s. assert (I : cnt_inv s) by (apply crun_inv; apply cnt_inv_0). destruct I as [I1 I2].
  rewrite Forall_forall in I1, I2. split; intros t th HIn C.
  - specialize (I1 _ HIn C). destruct (od s); simpl in *; [lia|discriminate].
  - specialize (I2 _ HIn C). destruct (oi s); simpl in *; [lia|discriminate].
Qed.

(* a wait returns only when its condition holds (in the state it returns from), whether at the first check or after
   a wake-up; returning changes nothing *)
Theorem counter_wait_sound t s s' :
  (forall th, c_start t (CWaitBelow th) s = (s', RDone) -> cval s' < th /\ s' = s) /\
  (forall th, c_start t (CWaitAbove th) s = (s', RDone) -> th < cval s' /\ s' = s) /\
  (c_cont t s = Some (s', RDone) ->
     (forall th, aget t (dk s) = Some th -> cval s' < th /\ cval s' = cval s) /\
     (forall th, aget t (dk s) = None -> aget t (ik s) = Some th -> th < cval s' /\ cval s' = cval s)).
Proof.
  split; [|split].
  - simpl. unfold below_try. intros th H. destruct (th <=? cval s) eqn:E; inversion H; subst.
    apply Z.leb_gt in E. auto.
  - simpl. unfold above_try. intros th H. destruct (cval s <=? th) eqn:E; inversion H; subst.
    apply Z.leb_gt in E. auto.
  - intros H. unfold c_cont in H. split; intros th G.
    + rewrite G in H. unfold below_try in H. simpl in H. destruct (th <=? cval s) eqn:E; inversion H; subst; simpl.
      apply Z.leb_gt in E. auto.
    + intros G2. rewrite G, G2 in H. unfold above_try in H. simpl in H.
      destruct (cval s <=? th) eqn:E; inversion H; subst; simpl. apply Z.leb_gt in E. auto.
Qed.

Definition cstuck (s : csys) : Prop := forall t, cstep s t = None.

(* when nothing can move any more, every parked waiter's condition is false *)
Theorem counter_stuck_waiters_false scripts sch :
  let s := crun sch (cinit scripts) in
  cstuck s ->
  (forall t th, In (t, th) (dq (cst s)) -> th <= cval (cst s)) /\
  (forall t th, In (t, th) (iq (cst s)) -> cval (cst s) <= th).
Proof.
  intros s S. pose proof (counter_no_lost_wakeup scripts sch) as [N1 N2]. fold s in N1, N2.
  assert (Q : forall l, (forall u, mem u l = true -> cbusy u (cst s) = true /\ c_cont u (cst s) <> None) -> l = []).
  { intros l H. destruct l as [|x r]; auto. exfalso.
    destruct (H x) as [B C]; [simpl; rewrite Nat.eqb_refl; reflexivity|].
    specialize (S x). unfold cstep, cstep_ev in S. rewrite B in S.
    destruct (c_cont x (cst s)) as [[? ?]|]; [discriminate|congruence]. }
  assert (OD : od (cst s) = []).
  { apply Q. intros u Hu. unfold cbusy, c_cont. rewrite Hu. rewrite !orb_true_r. simpl. split; [reflexivity|].
    destruct (aget u (dk (cst s))); [discriminate|]. destruct (aget u (ik (cst s))); discriminate. }
  assert (OI : oi (cst s) = []).
  { apply Q. intros u Hu. unfold cbusy, c_cont. rewrite Hu. rewrite !orb_true_r. simpl. split; [reflexivity|].
    destruct (aget u (dk (cst s))); [discriminate|]. destruct (aget u (ik (cst s))); [discriminate|].
    destruct (mem u (od (cst s))); discriminate. }
  split; intros t th HIn.
  - destruct (Z_lt_le_dec (cval (cst s)) th) as [L|L]; auto. exfalso. apply (N1 t th HIn L). exact OD.
  - destruct (Z_lt_le_dec th (cval (cst s))) as [L|L]; auto. exfalso. apply (N2 t th HIn L). exact OI.
Qed.

Close Scope Z_scope.

(* ====================================================================================================== *)
(* Stack                                                                                                  *)
(* ====================================================================================================== *)

Definition is_ext (o : kop) : bool := match o with KSetFlagExt _ => true | _ => false end.

(* what a waiter parked on elementAdded waits for: 0 = PopOrWait (an element), S th = WaitSizeIsAbove th *)
Definition added_cond (s : stk) (w : nat) : Prop :=
  match w with 0 => 0 < length (els s) | S th => th < length (els s) end.

(* the mutex is held between two steps only by the one PopOrWait caller that is inside its callback (kev) or between
   the callback and Wait (kchk), and only over an empty stack *)
Definition stk_inv (s : stk) : Prop :=
  krel s = false /\
  match kmx s with
  | None => kchk s = [] /\ kev s = []
  | Some t => (kchk s = [t] /\ kev s = [] \/ kchk s = [] /\ exists v, kev s = [(t, v)]) /\ els s = []
  end /\
  (* who found the condition true (about to Wait, or the callback has read true and has not returned yet) and the
     condition is false by now: the SignalShutdown that follows the change has not passed the mutex yet *)
  (flag s = false -> 0 < length (kchk s) \/ (exists t, kev s = [(t, Some true)]) -> 0 < length (kfs s)) /\
  Forall (fun p => added_cond s (snd p) -> 0 < length (oa s)) (aq s) /\
  Forall (fun p => snd p = 0 -> flag s = false -> 0 < length (kfs s) + length (oa s)) (aq s) /\
  Forall (fun p => length (els s) < snd p -> 0 < length (ox s)) (xq s).

Lemma stk_inv_0 : stk_inv stk0.
Proof. unfold stk_inv, stk0; simpl. repeat split; try constructor; intros; try lia; congruence. Qed.

Ltac kbase := solve [auto | lia | congruence | intuition lia | intuition congruence].
Ltac kcase := match goal with n : nat |- _ => destruct n; simpl in *; kbase end.
Ltac ksolve :=
  unfold added_cond in *; simpl in *; rewrite ?app_length in *; simpl in *;
  try match goal with E : els ?s = _ |- _ => rewrite E in * end; simpl in *;
  first [ kbase | kcase
        | match goal with H : _ -> _ |- _ => apply H; first [kbase | kcase] end ].

(* a Forall goal over l (or l ++ [x], or []) from one of the Forall hypotheses over l, pointwise *)
Ltac fa :=
  match goal with
  | |- Forall _ [] => constructor
  | H : Forall _ ?l |- Forall _ (?l ++ [_]) =>
      solve [eapply Forall_snoc; [exact H|intros [? ?]; intros; ksolve|intros; ksolve]]
  | H : Forall _ ?l |- Forall _ ?l =>
      solve [eapply Forall_impl; [|exact H]; intros [? ?]; intros; ksolve]
  end.

Ltac kev_done :=
  solve [ right; split; eauto | left; split; auto
        | intros ? [?|[? ?]]; [simpl in *; lia|simpl in *; congruence]
        | intros ? [?|[? ?]]; simpl in *; rewrite ?app_length; simpl; lia
        | intros ? [?|[? ?]]; [simpl in *; lia|discriminate] ].
Ltac kfin := try solve [ksolve | kev_done].

Lemma free_kchk s : stk_inv s -> mx_free s = true -> kmx s = None /\ kchk s = [] /\ kev s = [].
Proof. unfold stk_inv, mx_free. intros (_ & K & _). destruct (kmx s); [discriminate|]. destruct K; auto. Qed.

Lemma popwait_try_inv t s s' r :
  stk_inv s -> kmx s = None -> popwait_try t s = (s', r) -> stk_inv s'.
Proof.
  intros I M H. unfold popwait_try in H. unfold stk_inv in I. rewrite M in I.
  destruct I as (R & [K0 K0'] & K1 & A1 & A2 & A3).
  destruct (els s) as [|x rest] eqn:E.
  - rewrite R in H. inversion H; subst; clear H; unfold stk_inv; simpl; rewrite ?E, ?K0, ?K0' in *; simpl in *.
    repeat split; auto; try fa; kfin.
  - inversion H; subst; clear H; unfold stk_inv; simpl; rewrite ?E, ?K0, ?K0' in *; simpl in *.
    repeat split; auto; try fa; kfin.
Qed.

(* only the thread that holds the mutex can be inside the callback *)
Lemma in_callback t s v :
  stk_inv s -> eget t (kev s) = Some v -> kmx s = Some t /\ kchk s = [] /\ kev s = [(t, v)] /\ els s = [].
Proof.
  intros I C. unfold stk_inv in I. destruct I as (R & K0 & _).
  destruct (kmx s) as [u|]; [|destruct K0 as [_ K0]; rewrite K0 in C; discriminate].
  destruct K0 as [[[K0 K0']|[K0 [w K0']]] E]; rewrite K0' in C; simpl in C; [discriminate|].
  destruct (u =? t) eqn:Q; [|discriminate]. apply Nat.eqb_eq in Q. subst u. inversion C; subst. auto.
Qed.

(* the callback reads the flag *)
Lemma popwait_read_inv t s s' r :
  stk_inv s -> eget t (kev s) = Some None -> popwait_read t s = (s', r) -> stk_inv s'.
Proof.
  intros I C H. destruct (in_callback _ _ _ I C) as (M & K & V & E).
  unfold popwait_read in H. unfold stk_inv in I. rewrite M in I. destruct I as (R & K0 & K1 & A1 & A2 & A3).
  inversion H; subst; clear H; unfold stk_inv; simpl. rewrite M, K, V, E in *. simpl in *. rewrite Nat.eqb_refl.
  repeat split; auto; try fa; kfin.
Qed.

(* the callback returns what it read *)
Lemma popwait_eval_inv t b s s' r :
  stk_inv s -> eget t (kev s) = Some (Some b) -> popwait_eval t b s = (s', r) -> stk_inv s'.
Proof.
  intros I C H. destruct (in_callback _ _ _ I C) as (M & K & V & E).
  unfold popwait_eval in H. unfold stk_inv in I. rewrite M in I. destruct I as (R & K0 & K1 & A1 & A2 & A3).
  destruct b; inversion H; subst; clear H; unfold stk_inv; simpl; rewrite ?M, ?K, ?V, ?E in *; simpl in *;
    rewrite ?Nat.eqb_refl.
  - repeat split; auto; try fa; kfin. intros F _. apply K1; eauto.
  - repeat split; auto; try fa; kfin.
Qed.

Lemma above_k_inv t th s s' r : stk_inv s -> kmx s = None -> above_k t th s = (s', r) -> stk_inv s'.
Proof.
  intros I M H. unfold above_k in H. unfold stk_inv in I. rewrite M in I. destruct I as (R & [K0 K0'] & K1 & A1 & A2 & A3).
  destruct (length (els s) <=? th) eqn:E; inversion H; subst; clear H; unfold stk_inv; simpl; rewrite ?K0, ?K0' in *.
  - apply Nat.leb_le in E. repeat split; auto; try fa; kfin.
  - repeat split; auto; try fa; kfin.
Qed.

Lemma below_k_inv t th s s' r : stk_inv s -> kmx s = None -> below_k t th s = (s', r) -> stk_inv s'.
Proof.
  intros I M H. unfold below_k in H. unfold stk_inv in I. rewrite M in I. destruct I as (R & [K0 K0'] & K1 & A1 & A2 & A3).
  destruct (th <=? length (els s)) eqn:E; inversion H; subst; clear H; unfold stk_inv; simpl; rewrite ?K0, ?K0' in *.
  - apply Nat.leb_le in E. repeat split; auto; try fa; kfin.
  - repeat split; auto; try fa; kfin.
Qed.

Lemma k_start_inv t o s s' r : is_ext o = false -> stk_inv s -> k_start t o s = Some (s', r) -> stk_inv s'.
Proof.
  intros X I H. destruct o; simpl in X; try discriminate; simpl in H.
  - (* Push *)
    destruct (mx_free s) eqn:M; simpl in H; [|discriminate]. destruct (free_kchk s I M) as (M1 & M2 & M3).
    unfold stk_inv in I. rewrite M1 in I. destruct I as (R & [K0 K0'] & K1 & A1 & A2 & A3).
    inversion H; subst; clear H; unfold stk_inv; simpl. repeat split; auto; try fa; kfin.
  - (* Pop *)
    destruct (mx_free s) eqn:M; simpl in H; [|discriminate]. destruct (free_kchk s I M) as (M1 & M2 & M3).
    unfold stk_inv in I. rewrite M1 in I. destruct I as (R & [K0 K0'] & K1 & A1 & A2 & A3).
    destruct (els s) as [|x rest] eqn:E; inversion H; subst; clear H; unfold stk_inv; simpl; rewrite ?E in *; simpl in *.
    + repeat split; auto; try fa; kfin.
    + repeat split; auto; try fa; kfin.
  - (* PopOrWait *)
    destruct (mx_free s) eqn:M; simpl in H; [|discriminate]. destruct (free_kchk s I M) as (M1 & M2 & M3).
    inversion H as [H1]. eapply popwait_try_inv; eauto.
  - destruct (mx_free s) eqn:M; simpl in H; [|discriminate]. destruct (free_kchk s I M) as (M1 & M2 & M3).
    inversion H as [H1]. eapply below_k_inv; eauto.
  - destruct (mx_free s) eqn:M; simpl in H; [|discriminate]. destruct (free_kchk s I M) as (M1 & M2 & M3).
    inversion H as [H1]. eapply above_k_inv; eauto.
  - (* SetFlagLocked *)
    unfold stk_inv in I. destruct I as (R & K0 & K1 & A1 & A2 & A3).
    inversion H; subst; clear H; unfold stk_inv; simpl. repeat split; auto; try fa; kfin.
  - (* Size *)
    destruct (mx_free s) eqn:M; simpl in H; [|discriminate]. destruct (free_kchk s I M) as (M1 & M2 & M3).
    unfold stk_inv in I. rewrite M1 in I. destruct I as (R & [K0 K0'] & K1 & A1 & A2 & A3).
    inversion H; subst; clear H; unfold stk_inv; simpl. repeat split; auto; try fa; kfin.
Qed.

Lemma k_cont_inv t s s' r : stk_inv s -> k_cont t s = Some (s', r) -> stk_inv s'.
Proof.
  intros I H. unfold k_cont in H.
  destruct (eget t (kev s)) as [[b|]|] eqn:C0.
  { (* the callback returns *)
    assert (R : krel s = false) by (destruct I; auto). rewrite R in H. simpl in H.
    inversion H as [H1]. eapply popwait_eval_inv; eauto. }
  { assert (H1 : popwait_read t s = (s', r)) by congruence. eapply popwait_read_inv; eauto. }
  destruct (mem t (kchk s)) eqn:C1.
  { (* Wait: park, release the mutex *)
    unfold stk_inv in I. destruct I as (R & K0 & K1 & A1 & A2 & A3).
    destruct (kmx s) as [u|]; [|destruct K0 as [K0 _]; rewrite K0 in C1; discriminate].
    destruct K0 as [[[K0 K0']|[K0 K0']] E]; rewrite K0 in C1; simpl in C1; [|discriminate].
    rewrite orb_false_r in C1. apply Nat.eqb_eq in C1. subst u.
    inversion H; subst; clear H; unfold stk_inv; simpl. rewrite K0, K0', E in *. simpl in *. rewrite Nat.eqb_refl.
    repeat split; auto; try fa; kfin. }
  destruct (mem t (kfs s)) eqn:C2.
  { destruct (mx_free s) eqn:M; [|discriminate]. destruct (free_kchk s I M) as (M1 & M2 & M3).
    unfold stk_inv in I. rewrite M1 in I. destruct I as (R & [K0 K0'] & K1 & A1 & A2 & A3).
    apply remove1_length in C2.
    inversion H; subst; clear H; unfold stk_inv; simpl. rewrite K0 in *. repeat split; auto; try fa; kfin. }
  destruct (mem t (oa s)) eqn:C3.
  { unfold stk_inv in I. destruct I as (R & K0 & K1 & A1 & A2 & A3).
    inversion H; subst; clear H; unfold stk_inv; simpl. repeat split; auto; try fa; kfin. }
  destruct (mem t (ox s)) eqn:C4.
  { unfold stk_inv in I. destruct I as (R & K0 & K1 & A1 & A2 & A3).
    inversion H; subst; clear H; unfold stk_inv; simpl. repeat split; auto; try fa; kfin. }
  destruct (nget t (ak s)) as [w|].
  { destruct (mx_free s) eqn:M; simpl in H; [|discriminate]. destruct (free_kchk s I M) as (M1 & M2 & M3).
    inversion H as [H1]; clear H.
    assert (I' : stk_inv (mkStk (els s) (flag s) None (aq s) (ndel t (ak s)) (xq s) (xk s) (oa s) (ox s) (kchk s) (kfs s) (pops s) (kev s) (krel s))).
    { unfold stk_inv in *. rewrite M1 in I. simpl. exact I. }
    destruct w; [eapply popwait_try_inv in H1|eapply above_k_inv in H1]; eauto. }
  destruct (nget t (xk s)) as [th|]; [|discriminate].
  destruct (mx_free s) eqn:M; simpl in H; [|discriminate]. destruct (free_kchk s I M) as (M1 & M2 & M3).
  inversion H as [H1]; clear H. eapply below_k_inv in H1; eauto.
  unfold stk_inv in *. rewrite M1 in I. simpl. exact I.
Qed.

Definition no_ext (scripts : list (list kop)) : Prop := Forall (Forall (fun o => is_ext o = false)) scripts.

Lemma no_ext_upd t rest o scripts :
  no_ext scripts -> nth_error scripts t = Some (o :: rest) -> no_ext (upd t rest scripts) /\ is_ext o = false.
Proof.
  unfold no_ext. revert t. induction scripts as [|x r IH]; intros t F N; [destruct t; discriminate|].
  inversion F; subst. destruct t; simpl in *.
  - inversion N; subst. inversion H1; subst. split; auto.
  - destruct (IH t H2 N). split; auto.
Qed.

Lemma kstep_inv s t s' :
  no_ext (kscr s) -> stk_inv (kst s) -> kstep s t = Some s' -> no_ext (kscr s') /\ stk_inv (kst s').
Proof.
  unfold kstep, kstep_ev. intros X I H. destruct (kbusy t (kst s)).
  - destruct (k_cont t (kst s)) as [[m' r]|] eqn:E; simpl in H; inversion H; subst; simpl.
    split; auto. eapply k_cont_inv; eauto.
  - destruct (nth_error (kscr s) t) as [[|o rest]|] eqn:N; simpl in H; try discriminate.
    destruct (k_start t o (kst s)) as [[m' r]|] eqn:E; simpl in H; inversion H; subst; simpl.
    destruct (no_ext_upd _ _ _ _ X N). split; auto. eapply k_start_inv; eauto.
Qed.

Lemma krun_inv sch : forall s, no_ext (kscr s) -> stk_inv (kst s) -> stk_inv (kst (krun sch s)).
Proof.
  induction sch as [|t r IH]; simpl; intros s X I; auto.
  destruct (kstep s t) eqn:E; auto. destruct (kstep_inv _ _ _ X I E). apply IH; auto.
Qed.

(* no lost wake-up, all schedules, for scripts whose wait condition changes only in front of a pass through the stack's
   mutex: a waiter is parked on a true condition only while the notification is still in flight *)
Theorem stack_no_lost_wakeup scripts sch :
  no_ext scripts ->
  let s := kst (krun sch (kinit scripts)) in
  (forall t, In (t, 0) (aq s) -> els s <> [] -> oa s <> []) /\
  (forall t, In (t, 0) (aq s) -> flag s = false -> kfs s <> [] \/ oa s <> []) /\
  (forall t th, In (t, S th) (aq s) -> th < length (els s) -> oa s <> []) /\
  (forall t th, In (t, th) (xq s) -> length (els s) < th -> ox s <> []).
Proof.
  intros X s. assert (I : stk_inv s) by (apply krun_inv; [exact X|apply stk_inv_0]).
  destruct I as (R & K0 & K1 & A1 & A2 & A3). rewrite Forall_forall in A1, A2, A3.
  repeat split.
  - intros t HIn E. specialize (A1 _ HIn). simpl in A1.
    assert (0 < length (oa s)) by (apply A1; destruct (els s); simpl; [congruence|lia]).
    destruct (oa s); simpl in *; [lia|discriminate].
  - intros t HIn F. specialize (A2 _ HIn eq_refl F).
    destruct (kfs s); [right; destruct (oa s); simpl in *; [lia|discriminate]|left; discriminate].
  - intros t th HIn L. specialize (A1 _ HIn L). destruct (oa s); simpl in *; [lia|discriminate].
  - intros t th HIn L. specialize (A3 _ HIn L). destruct (ox s); simpl in *; [lia|discriminate].
Qed.

(* a successful PopOrWait / Pop removes the first element; on an empty stack PopOrWait calls the wait condition with
   the mutex held and fails only when it returns false (popwait_eval = the return of the callback); a size wait
   returns only on a true condition *)
Theorem stack_wait_sound t s s' r :
  (popwait_try t s = (s', r) ->
     match els s with
     | x :: rest => els s' = rest /\ pops s' = (t, Some x) :: pops s
     | [] => r = RCont /\ pops s' = pops s /\ kev s' = kev s ++ [(t, None)] /\ (krel s = false -> kmx s' = Some t)
     end) /\
  (popwait_read t s = (s', r) ->
     r = RCont /\ els s' = els s /\ pops s' = pops s /\ kmx s' = kmx s /\ kev s' = eset t (flag s) (kev s)) /\
  (forall b, popwait_eval t b s = (s', r) ->
     els s' = els s /\
     (r = RDone -> b = false /\ pops s' = (t, None) :: pops s) /\
     (r <> RDone -> b = true /\ pops s' = pops s /\ kmx s' = Some t /\ kchk s' = kchk s ++ [t])) /\
  (forall th, below_k t th s = (s', RDone) -> length (els s') < th) /\
  (forall th, above_k t th s = (s', RDone) -> th < length (els s')).
Proof.
  split; [|split; [|split; [|split]]].
  - unfold popwait_try. destruct (els s) as [|x rest].
    + intros H; inversion H; subst; simpl. repeat split; auto. intros R; rewrite R; reflexivity.
    + intros H; inversion H; subst; simpl; auto.
  - unfold popwait_read. intros H; inversion H; subst; simpl. repeat split; auto.
  - unfold popwait_eval. intros b. destruct b; intros H; inversion H; subst; simpl; repeat split; auto; congruence.
  - unfold below_k. intros th H. destruct (th <=? length (els s)) eqn:E; inversion H; subst; simpl.
    apply Nat.leb_gt in E. exact E.
  - unfold above_k. intros th H. destruct (length (els s) <=? th) eqn:E; inversion H; subst; simpl.
    apply Nat.leb_gt in E. exact E.
Qed.

(* While a PopOrWait caller is inside its wait condition (or between the callback and Wait), it holds the stack's mutex:
   in every reachable state no other thread can start Push / Pop / PopOrWait / a size wait, pass SignalShutdown's
   critical section, or come back from a Wait; only the flag write in front of SignalShutdown and owed Broadcasts (which
   touch neither the elements nor the mutex) are enabled.  This is what makes "evaluate the condition" and "park" one
   critical section although they are separate steps of every schedule. *)
Definition needs_mutex (o : kop) : bool :=
  match o with KSetFlagLocked _ | KSetFlagExt _ => false | _ => true end.

Theorem stack_callback_exclusive scripts sch :
  no_ext scripts ->
  let s := kst (krun sch (kinit scripts)) in
  forall t, (emem t (kev s) = true \/ In t (kchk s)) ->
    kmx s = Some t /\ els s = [] /\ map fst (kev s) ++ kchk s = [t] /\
    (forall u o, needs_mutex o = true -> k_start u o s = None) /\
    (forall u, u <> t -> kbusy u s = true -> mem u (oa s) = false -> mem u (ox s) = false -> k_cont u s = None).
Proof.
  intros X s t HIn. assert (I : stk_inv s) by (apply krun_inv; [exact X|apply stk_inv_0]).
  destruct I as (R & K0 & _).
  destruct (kmx s) as [u|] eqn:M.
  2:{ destruct K0 as [K0 K0']. rewrite K0, K0' in HIn. destruct HIn as [H|[]]. discriminate. }
  destruct K0 as [K0 E].
  assert (u = t /\ map fst (kev s) ++ kchk s = [t]) as [-> L].
  { destruct K0 as [[K0 K0']|[K0 [w K0']]]; rewrite K0, K0' in *; simpl in *; destruct HIn as [H|H].
    - discriminate.
    - destruct H as [H|[]]; subst; auto.
    - unfold emem in H. simpl in H. destruct (u =? t) eqn:Q; [|discriminate]. apply Nat.eqb_eq in Q. subst; auto.
    - contradiction. }
  repeat split; auto.
  - intros v o N. unfold k_start, mx_free. rewrite M. destruct o; simpl in *; try reflexivity; discriminate.
  - intros v NE B O1 O2. unfold k_cont, mx_free. rewrite M, O1, O2. simpl.
    assert (eget v (kev s) = None /\ mem v (kchk s) = false) as [-> ->].
    { destruct K0 as [[K0 K0']|[K0 [w K0']]]; rewrite K0, K0'; simpl; split; auto.
      - rewrite orb_false_r. apply Nat.eqb_neq; auto.
      - destruct (t =? v) eqn:Q; auto. apply Nat.eqb_eq in Q. congruence. }
    destruct (mem v (kfs s)); auto. destruct (nget v (ak s)); auto. destruct (nget v (xk s)); auto.
Qed.

(* when nothing can move any more, every parked waiter's condition is false (so "parked for good" implies the condition
   does not hold: together with stack_wait_sound this is the if-and-only-if of the property, a transient truth aside) *)
Definition kstuck (s : ksys) : Prop := forall t, kstep s t = None.

Theorem stack_stuck_waiters_false scripts sch :
  no_ext scripts ->
  let s := krun sch (kinit scripts) in
  kstuck s ->
  (forall t, In (t, 0) (aq (kst s)) -> els (kst s) = [] /\ flag (kst s) = true) /\
  (forall t th, In (t, S th) (aq (kst s)) -> length (els (kst s)) <= th) /\
  (forall t th, In (t, th) (xq (kst s)) -> th <= length (els (kst s))).
Proof.
  intros X s S. pose proof (stack_no_lost_wakeup scripts sch X) as (N1 & N2 & N3 & N4). fold s in N1, N2, N3, N4.
  assert (I : stk_inv (kst s)) by (apply krun_inv; [exact X|apply stk_inv_0]).
  assert (Q : forall u, kbusy u (kst s) = true -> k_cont u (kst s) = None).
  { intros u B. specialize (S u). unfold kstep, kstep_ev in S. rewrite B in S.
    destruct (k_cont u (kst s)) as [[? ?]|]; [discriminate|reflexivity]. }
  assert (nomem : forall l : list tid, (forall u, mem u l = false) -> l = []).
  { intros l H. destruct l as [|x r]; auto. specialize (H x). simpl in H. rewrite Nat.eqb_refl in H. discriminate. }
  destruct I as (R & K0 & _).
  assert (EV : kev (kst s) = []).
  { destruct (kev (kst s)) as [|[u v] rest] eqn:C; auto. exfalso.
    assert (G : eget u (kev (kst s)) = Some v) by (rewrite C; simpl; rewrite Nat.eqb_refl; reflexivity).
    assert (B : kbusy u (kst s) = true) by (unfold kbusy, emem; rewrite G; rewrite ?orb_true_r; reflexivity).
    specialize (Q u B). unfold k_cont in Q. rewrite G, R in Q. simpl in Q. destruct v; discriminate. }
  assert (CH : kchk (kst s) = []).
  { apply nomem. intros u. destruct (mem u (kchk (kst s))) eqn:C; auto. exfalso.
    assert (B : kbusy u (kst s) = true) by (unfold kbusy; rewrite C; rewrite ?orb_true_r; reflexivity).
    specialize (Q u B). unfold k_cont in Q. rewrite EV, C in Q. simpl in Q. discriminate. }
  assert (MF : mx_free (kst s) = true).
  { unfold mx_free. destruct (kmx (kst s)); auto. destruct K0 as [[[K _]|[_ [w K]]] _]; congruence. }
  assert (FS : kfs (kst s) = []).
  { apply nomem. intros u. destruct (mem u (kfs (kst s))) eqn:C; auto. exfalso.
    assert (B : kbusy u (kst s) = true) by (unfold kbusy; rewrite C; rewrite ?orb_true_r; reflexivity).
    specialize (Q u B). unfold k_cont in Q. rewrite EV, CH, C, MF in Q. simpl in Q. discriminate. }
  assert (OA : oa (kst s) = []).
  { apply nomem. intros u. destruct (mem u (oa (kst s))) eqn:C; auto. exfalso.
    assert (B : kbusy u (kst s) = true) by (unfold kbusy; rewrite C; rewrite ?orb_true_r; reflexivity).
    specialize (Q u B). unfold k_cont in Q. rewrite EV, CH, FS, C in Q. simpl in Q. discriminate. }
  assert (OX : ox (kst s) = []).
  { apply nomem. intros u. destruct (mem u (ox (kst s))) eqn:C; auto. exfalso.
    assert (B : kbusy u (kst s) = true) by (unfold kbusy; rewrite C; rewrite ?orb_true_r; reflexivity).
    specialize (Q u B). unfold k_cont in Q. rewrite EV, CH, FS, OA, C in Q. simpl in Q. discriminate. }
  split; [|split].
  - intros t H. split.
    + destruct (els (kst s)) as [|x r] eqn:E; auto. exfalso. apply (N1 t H); [congruence|exact OA].
    + destruct (flag (kst s)) eqn:F; auto. exfalso. destruct (N2 t H eq_refl) as [G|G]; [apply G; exact FS|apply G; exact OA].
  - intros t th H. destruct (le_lt_dec (length (els (kst s))) th) as [L|L]; auto. exfalso. apply (N3 t th H L). exact OA.
  - intros t th H. destruct (le_lt_dec th (length (els (kst s)))) as [L|L]; auto. exfalso. apply (N4 t th H L). exact OX.
Qed.

(* D16b, the window of the pinned code: the condition is written and elementAdded broadcast without the stack's mutex
   between PopOrWait's evaluation of the condition and its Wait: the waiter parks on a false condition, nothing is in
   flight, nobody can move. *)
Definition d16b_scripts : list (list kop) := [[KPopOrWait]; [KSetFlagExt false]].
Definition d16b_schedule : list tid := [0; 0; 0; 1; 1; 0].

Theorem refuted_popOrWait_external :
  let s := krun d16b_schedule (kinit d16b_scripts) in
  In (0, 0) (aq (kst s)) /\ flag (kst s) = false /\ oa (kst s) = [] /\ kfs (kst s) = [] /\ ak (kst s) = [] /\
  (forall t, kstep s t = None).
Proof.
  vm_compute. repeat split; auto.
  intros t. destruct t as [|[|[|t]]]; reflexivity.
Qed.

(* the same schedule with the repaired SignalShutdown: the notifier cannot pass the mutex before the waiter is parked *)
Example repaired_popOrWait_same_window :
  let s := krun [0; 0; 0; 1; 1; 0; 1; 1; 0; 0; 0] (kinit [[KPopOrWait]; [KSetFlagLocked false]]) in
  pops (kst s) = [(0, None)] /\ aq (kst s) = [] /\ forall t, kstep s t = None.
Proof. vm_compute. repeat split; auto. intros t. destruct t as [|[|[|t]]]; reflexivity. Qed.

(* The variant of PopOrWait that releases the stack's mutex while it evaluates the wait condition and re-acquires it
   before Wait without looking at the length again (krel = true; NOT the code): thread 0 finds the stack empty and
   enters the callback, thread 1 pushes and broadcasts to nobody, thread 0 comes back from the callback and parks:
   parked on a non-empty stack with nothing in flight, nobody can move - the wake-up is lost, the statement is false. *)
Definition released_scripts : list (list kop) := [[KPopOrWait]; [KPush 7]].
Definition released_schedule : list tid := [0; 1; 1; 0; 0; 0].

Theorem refuted_popOrWait_released :
  let s := krun released_schedule (kinit_rel released_scripts) in
  In (0, 0) (aq (kst s)) /\ els (kst s) = [7] /\ flag (kst s) = true /\
  oa (kst s) = [] /\ kfs (kst s) = [] /\ ak (kst s) = [] /\ pops (kst s) = [] /\
  (forall t, kstep s t = None).
Proof.
  vm_compute. repeat split; auto.
  intros t. destruct t as [|[|[|t]]]; reflexivity.
Qed.

(* the code on the same schedule: the Push is not enabled while thread 0 is inside its callback (steps 2 and 3 of the
   schedule do nothing); run on, the element is popped by the waiter *)
Example held_popOrWait_same_window :
  let s1 := krun released_schedule (kinit released_scripts) in
  let s := krun [1; 1; 0; 0] s1 in
  aq (kst s1) = [(0, 0)] /\ els (kst s1) = [] /\ kscr s1 = [[]; [KPush 7]] /\
  pops (kst s) = [(0, Some 7)] /\ els (kst s) = [] /\ aq (kst s) = [] /\ forall t, kstep s t = None.
Proof. vm_compute. repeat split; auto. intros t. destruct t as [|[|[|t]]]; reflexivity. Qed.
